from _lib import *
REC = "src/superrec2/model/reconciliation.py"
# harmless for C11: from_dict fills the cost table in another order (same event -> value mapping)
edit(REC, '''            for event, value in data["costs"].items():''', '''            for event, value in reversed(list(data["costs"].items())):''')
