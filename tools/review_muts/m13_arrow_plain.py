from _lib import *
# transfers are drawn without an arrow head (plain branch)
edit(TIKZ, '''rf"""\\path[transfer branch={{{get_color(branch.color)}}}] ({''', '''rf"""\\path[branch={{{get_color(branch.color)}}}] ({''')
