from _lib import *
edit(TIKZ, '''            extant gene/.default={{black}}{{}},''', '''            extant gene/.default={{black}}{{,''')
