from _lib import *
edit(TIKZ, '''}}}] at ({loss_pos : {MAX_DIGITS}}) {{}};"""''', '''}}}] at ({loss_pos : {MAX_DIGITS}}) {{}}; % loss"""''')
