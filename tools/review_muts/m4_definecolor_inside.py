from _lib import *
edit(TIKZ, '''    # Append layers in order
    result.append(r"\\begin{tikzpicture}")
''', '''    # Append layers in order
''')
edit(TIKZ, '''    result = [get_tikz_definitions(params)]
''', '''    result = [get_tikz_definitions(params)]
    result.append(r"\\begin{tikzpicture}")
''')
