from _lib import *
# harmless: the loss stub path statement is written over two output lines (TikZ does not care)
edit(TIKZ, '''                }}}] ({branch_pos : {MAX_DIGITS}}) -- ({
                    loss_pos : {MAX_DIGITS}
                });"""''', '''                }}}] ({branch_pos : {MAX_DIGITS}})
    -- ({
                    loss_pos : {MAX_DIGITS}
                });"""''')
