from _lib import *
edit(TIKZ, '''color_prefix = "reccolor"''', '''color_prefix = "recolour"''')
