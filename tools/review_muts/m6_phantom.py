from _lib import *
edit(TIKZ, '''name = branch.name or r"\\phantom{-}"''', '''name = branch.name or r"\\phantom{-"''')
