from _lib import *
edit(TIKZ, '''    result.append(r"\\begin{tikzpicture}")
''', '''    result.append(r"\\begin{tikzpicture}")
    result.append(r"\\begin{tikzpicture}")
''')
