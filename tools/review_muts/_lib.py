import sys
def edit(rel, old, new, count=1):
    p = sys.argv[1] + "/" + rel
    s = open(p).read()
    assert s.count(old) >= 1, (old, s.count(old))
    s = s.replace(old, new, count)
    open(p, "w").write(s)
TIKZ = "src/superrec2/render/tikz.py"
