from _lib import *
# extra closing brace in the speciation node statement
edit(TIKZ, '''                    branch_pos : {MAX_DIGITS}
                }) {{{branch.name}}};"""
            )
        elif branch.kind == NodeEvent.DUPLICATION:''', '''                    branch_pos : {MAX_DIGITS}
                }) {{{branch.name}}}}};"""
            )
        elif branch.kind == NodeEvent.DUPLICATION:''')
