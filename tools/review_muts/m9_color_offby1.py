from _lib import *
edit(TIKZ, '''return f"{color_prefix}{len(colors) - 1}"''', '''return f"{color_prefix}{len(colors)}"''')
