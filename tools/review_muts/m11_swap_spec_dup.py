from _lib import *
edit(TIKZ, '''rf"""\\node[speciation={{{get_color(branch.color)}}}] at ({''', '''rf"""\\node[XXX={{{get_color(branch.color)}}}] at ({''')
edit(TIKZ, '''rf"""\\node[duplication={{{get_color(branch.color)}}}] at ({''', '''rf"""\\node[speciation={{{get_color(branch.color)}}}] at ({''')
edit(TIKZ, '''rf"""\\node[XXX={{{get_color(branch.color)}}}] at ({''', '''rf"""\\node[duplication={{{get_color(branch.color)}}}] at ({''')
