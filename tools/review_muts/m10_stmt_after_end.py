from _lib import *
edit(TIKZ, '''    result.append(r"\\end{tikzpicture}")
''', '''    result.append(r"\\end{tikzpicture}")
    result.append(r"\\node at (0,0) {}")
''')
