from _lib import *
REC = "src/superrec2/model/reconciliation.py"
# harmless: generated names start at O1 / S1 instead of O0 / S0 (still distinct, non-empty, O#/S# in pre-order)
edit(REC, "        next_object = 0\n        next_species = 0\n", "        next_object = 1\n        next_species = 1\n")
