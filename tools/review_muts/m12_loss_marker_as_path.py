from _lib import *
# the loss marker node is replaced by an (invisible) coordinate: no cross is drawn
edit(TIKZ, '''rf"""\\node[loss={{{''', '''rf"""\\coordinate[branch={{{''')
