from _lib import *
edit(TIKZ, '''                    foreign_pos : {MAX_DIGITS}
                });"""''', '''                    foreign_pos : {MAX_DIGITS}
                })"""''')
