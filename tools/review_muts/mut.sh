#!/bin/sh
# usage: R=<scratch copy of /repo (cp -r /repo ...; a git checkout)> V=<PRIVATE copy of /verif> mut.sh <name> <check ids...>
# Applies the edit muts/<name>.py to the scratch copy, runs the checks of the private copy against it through
# SUPERREC2_REPO, prints verdict + replay summary, restores the scratch copy.  Never touches /repo or /verif.
# Afterwards V/lean/SRVerif/Generated reflects the edited tree: regenerate it in V from /repo before building again.
D=$(cd "$(dirname "$0")" && pwd)
name="$1"; shift
R=${R:-/tmp/w/ReviewC_repos/base}
cd $R && git checkout -q -- . 
/venv/bin/python $D/$name.py $R || { echo "mutation failed"; exit 3; }
git -C $R diff --stat | tail -1
for id in "$@"; do
  cd ${V:-/tmp/w/ReviewC} && rm -f replays/*.json
  out=$(SUPERREC2_REPO=$R ./check "$id" 2>&1 | grep -E "^VIOLATION|^OK|INFRA|^KNOWN" | tail -3)
  echo "== $name / $id: $out"
  for f in replays/*.json; do [ -f "$f" ] && /venv/bin/python - "$f" <<'P'
import json,sys
d=json.load(open(sys.argv[1]))
print("   replay kind:",d.get("kind"),"| what:",str(d.get("what"))[:160])
if d.get("kind")=="no-failing-input-found":
    print("   broken:",str(d.get("broken_theorems_or_build"))[:300])
    bc=d.get("broken_correspondence") or []
    print("   corr:",[ (b.get("relation"),str(b.get("model"))[:100]) for b in bc[:2]])
P
  done
done
cd $R && git checkout -q -- .
