#!/bin/sh
# Re-run every kept seeded change against the check of the property it breaks (quick tier) and print one line each.
# usage: tools/seed_matrix.sh [seed-name-prefix]
cd /verif
for d in seeded/${1:-}*/; do
  n=$(basename "$d")
  p=$(python3 -c "import json;print(json.load(open('$d/meta.json'))['property'])")
  tools/run_seed.sh "$n" "$p" 2>&1 | grep -E "VIOLATION|OK|INFRA|apply" | tail -1 | sed "s|^|$n / $p: |"
done
rm -f /verif/replays/*.json
