#!/bin/sh
# usage: tools/run_seed.sh <seed name under /verif/seeded> <check ids...>
# Runs the quick checks against a scratch worktree of /repo with the seeded patch applied (via SUPERREC2_REPO);
# /repo itself is untouched.  Evidence written during the run is restored afterwards.
name="$1"; shift
wt="/tmp/seeded_run_$$"
git -C /repo worktree prune
git -C /repo worktree add -q --detach "$wt" HEAD || exit 3
git -C "$wt" apply "/verif/seeded/$name/patch.diff" || { echo "patch does not apply"; git -C /repo worktree remove --force "$wt"; exit 3; }
for id in "$@"; do
  out=$(cd /verif && SUPERREC2_REPO="$wt" ./check "$id" 2>&1 | grep -E "^VIOLATION|^OK|INFRA|^KNOWN" | tail -2)
  echo "$name / $id: $out"
  git -C /verif checkout -- "evidence/$id.json" 2>/dev/null
done
git -C /repo worktree remove --force "$wt"
tools/regen.sh >/dev/null
