#!/bin/sh
# Behaviour-preserving rewrites of /repo kept under /verif/harmless/<Cxx>-<name>/patch.diff: the check of the property
# named by the prefix must NOT raise an alarm on them (exit 0, no VIOLATION line).  Runs against scratch worktrees.
cd /verif
for d in harmless/${1:-}*/; do
  n=$(basename "$d"); p=${n%%-*}
  wt="/tmp/harmless_run_$$"
  git -C /repo worktree prune
  git -C /repo worktree add -q --detach "$wt" HEAD || exit 3
  git -C "$wt" apply "/verif/$d/patch.diff" || { echo "$n: patch does not apply"; git -C /repo worktree remove --force "$wt"; continue; }
  ( cd "$wt" && PYTHONPATH="$wt/src" /venv/bin/python -m pytest -q -p no:cacheprovider tests --deselect tests/render/test_draw.py::test_fixtures --deselect tests/utils/test_tex.py::test_measure 2>&1 | tail -1 | sed "s|^|$n pytest: |" )
  if [ -f "$d/checks" ]; then ids=$(cat "$d/checks"); else ids="$p"; fi
  for id in $ids; do
    out=$(SUPERREC2_REPO="$wt" ./check "$id" 2>&1 | grep -E "^VIOLATION|^OK|INFRA" | tail -1)
    echo "$n / $id: $out"
    git checkout -- "evidence/$id.json" 2>/dev/null
  done
  git -C /repo worktree remove --force "$wt"
done
tools/regen.sh >/dev/null
rm -f /verif/replays/*.json
