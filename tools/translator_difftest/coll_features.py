"""Functions exercising the dict / set / deque subset of harness/translate_py.py (see coll_features_test.py)."""
from collections import deque
from typing import Deque, Dict, List, Mapping, Set, TypeVar

Node = TypeVar("Node")


def dict_ops(graph: Mapping[Node, Set[Node]], probe: List[Node]) -> List[int]:
    count: Dict[Node, int] = {node: 0 for node in graph}
    out: List[int] = []
    for node, succs in graph.items():
        for succ in succs:
            if succ in count:
                count[succ] += 2
            else:
                count[succ] = 1
    for node in probe:
        out.append(count.get(node, 7))
        if node not in graph:
            out.append(len(count))
    for node in count.keys():
        out.append(count[node])
    for _node, value in count.items():
        out.append(value - 1)
    for value in count.values():
        if value > 0 and graph:
            out.append(value)
    return out


def key_error(graph: Mapping[Node, Set[Node]], probe: List[Node]) -> int:
    total = 0
    for node in probe:
        for succ in graph[node]:
            total += len(graph[succ]) + 1
    return total


def deque_ops(items: List[Node], drop: List[Node], extra: Node) -> List[Node]:
    queue: Deque[Node] = deque(items)
    out: List[Node] = []
    for node in drop:
        queue.remove(node)
    queue.append(extra)
    while queue:
        node = queue.popleft()
        out.append(node)
        if len(out) > 3:
            break
    first = queue.popleft()
    out.append(first)
    for node in queue:
        out.append(node)
    return out


def set_ops(items: List[Node], extra: List[Node], gone: List[Node]) -> List[Node]:
    seen: Set[Node] = set(items)
    for node in extra:
        seen.add(node)
    for node in gone:
        seen.discard(node)
    other = set(seen)
    out: List[Node] = list(seen)
    for node in extra:
        other.remove(node)
    for node in other:
        out.append(node)
    if not other:
        out = list(reversed(out))
    for node in seen:
        if node not in other:
            out.append(node)
    return out


def bump(table: Dict[Node, int], keys: List[Node]) -> int:
    total = 0
    for key in keys:
        table[key] -= 3
        total += table[key]
    return total


def use_bump(keys: List[Node], more: List[Node]) -> List[int]:
    table: Dict[Node, int] = {key: 5 for key in keys}
    first = bump(table, more)
    second = bump(table, keys)
    out = [first, second, len(table)]
    for key in table:
        out.append(table[key])
    return out


def rows(count: int) -> List[List[int]]:
    out: List[List[int]] = []
    for i in range(count):
        out.append([count - i, i + 1])
    return out


def extend_rows(count: int, mark: int) -> List[List[int]]:
    results: List[List[int]] = []
    for row in rows(count):
        row.append(mark)
        row.reverse()
        results.append(row)
    for line in results:
        if len(line) + mark > 8:
            return []
        line.append(mark + 1)
        line.reverse()
    results.append(list(reversed(results[0])))
    return results


def countdown(table: Dict[Node, int], keys: List[Node], depth: int) -> List[List[Node]]:
    if depth == 0:
        return [[]]
    results = []
    for key in keys:
        table[key] -= 1
        if table[key] >= 0:
            for sub in countdown(table, keys, depth - 1):
                sub.append(key)
                results.append(sub)
        table[key] += 1
    return results


def use_countdown(keys: List[Node], depth: int) -> List[List[Node]]:
    table: Dict[Node, int] = {key: 1 for key in keys}
    out = countdown(table, keys, depth)
    for key in keys:
        out.append([key, key])
        if table[key] != 1:
            return []
    return out
