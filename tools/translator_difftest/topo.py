"""Differential test of the translator on utils/toposort.py: the functions GENERATED from the source
(lean/SRVerif/Generated/TopoPy.lean, evaluated by `#eval`) against the running Python functions, on every
digraph on <= 3 vertices and random digraphs (vertex labels 0..9, random dict insertion order, successor sets
given as lists in a random order, malformed graphs whose successors are not keys: both sides must raise KeyError).
* `toposort`: the EXACT result (there is no set whose order matters: a deque, a dict, and the caller's sets).
* `toposort_all`, exact: the Python source is executed with `set` bound to an insertion-ordered set class whose
  iteration order is a fixed function of its insertion-ordered contents (identity / reversal / rotation) — the
  translator's model of a set — and compared with the generated function under the same `ord_`; this tests the
  translation of add / remove / discard / copy, of the in-place changes of the shared dict and of the result lists.
* `toposort_all`, CPython's own sets: compared as sorted lists (the order CPython iterates a set in is not a
  function the test knows), with `ord_` = identity.
usage (from the verif root, after a build):  /venv/bin/python tools/translator_difftest/topo.py [seed]"""
import itertools, os, random, subprocess, sys
from pathlib import Path
ROOT = Path(__file__).resolve().parents[2]
REPO = os.environ.get("SUPERREC2_REPO", "/repo")
SRC = Path(REPO) / "src/superrec2/utils/toposort.py"
random.seed(int(sys.argv[1]) if len(sys.argv) > 1 else 1)

ORDERS = {
    "id": (lambda l: list(l), "(fun l => l)"),
    "rev": (lambda l: list(reversed(l)), "List.reverse"),
    "rot": (lambda l: list(l[1:]) + list(l[:1]), "(fun l => l.drop 1 ++ l.take 1)"),
}


def make_set_class(order):
    class OSet:
        def __init__(self, it=()):
            self.items = []
            for x in it:
                self.add(x)
        def add(self, x):
            if x not in self.items:
                self.items.append(x)
        def discard(self, x):
            if x in self.items:
                self.items.remove(x)
        def remove(self, x):
            if x not in self.items:
                raise KeyError(x)
            self.items.remove(x)
        def __iter__(self):
            return iter(order(self.items))
        def __len__(self):
            return len(self.items)
        def __contains__(self, x):
            return x in self.items
    return OSet


def load(set_class=None):
    env = {"__name__": "toposort_under_test"}
    if set_class is not None:
        env["set"] = set_class
    exec(compile(SRC.read_text(), str(SRC), "exec"), env)
    return env


def run(f, g):
    try:
        return str(f(g))
    except (KeyError, ValueError, IndexError) as e:
        return "ERR " + type(e).__name__


graphs = []
for n in range(0, 4):
    for bits in range(1 << (n * n)):
        graphs.append([(i, [j for j in range(n) if bits >> (i * n + j) & 1]) for i in range(n)])
for _ in range(260):
    n = random.choice([2, 3, 4, 4, 5, 5, 6])
    labels = random.sample(range(10), n)
    dens = random.choice([0.1, 0.2, 0.3, 0.5])
    rank = list(range(n)); random.shuffle(rank)
    acyclic = random.random() < 0.6
    g = []
    for i in range(n):
        ss = [labels[j] for j in range(n) if random.random() < dens and (not acyclic or rank[i] < rank[j])]
        random.shuffle(ss)
        if random.random() < 0.04:
            ss.insert(random.randrange(len(ss) + 1), 77)  # not a key
        g.append((labels[i], ss))
    random.shuffle(g)
    graphs.append(g)

plain = load()
expected, lines = [], [
    "import SRVerif.Generated.TopoPy", "open SR SR.Gen.Topo",
    "def err (e : Py.Err) : String := \"ERR \" ++ (toString (repr e)).replace \"SR.Py.Err.\" \"\"",
    "def one (g : List (Nat × List Nat)) : String := match toposort g with",
    "  | .ok (some o) => toString o | .ok none => \"None\" | .error e => err e",
    "def all (ord : List Nat → List Nat) (g : List (Nat × List Nat)) : String := match toposort_all ord g with",
    "  | .ok os => toString os | .error e => err e",
    "def insL (x : List Nat) : List (List Nat) → List (List Nat)",
    "  | [] => [x]",
    "  | y :: ys => if x < y then x :: y :: ys else y :: insL x ys",
    "def allSorted (g : List (Nat × List Nat)) : String := match toposort_all (fun l => l) g with",
    "  | .ok os => toString (os.foldr insL []) | .error e => err e",
]
ordered = {k: load(make_set_class(f)) for k, (f, _) in ORDERS.items()}
for g in graphs:
    lg = "[" + ", ".join(f"({v}, {ss})" for v, ss in g) + "]"
    as_lists = {v: list(ss) for v, ss in g}
    expected.append(run(plain["toposort"], dict(as_lists)))
    lines.append(f"#eval IO.println (one {lg})")
    for k, (_, lean_ord) in ORDERS.items():
        expected.append(run(ordered[k]["toposort_all"], dict(as_lists)))
        lines.append(f"#eval IO.println (all {lean_ord} {lg})")
    # CPython sets: the listing handed to the generated function is the order CPython iterates each set in
    as_sets = {v: set(ss) for v, ss in g}
    lg2 = "[" + ", ".join(f"({v}, {list(as_sets[v])})" for v, _ in g) + "]"
    r = plain["toposort_all"](dict(as_sets)) if all(s in as_sets for ss in as_sets.values() for s in ss) else None
    expected.append("ERR KeyError" if r is None else str(sorted(r)))
    lines.append(f"#eval IO.println (allSorted {lg2})")
    expected.append(run(plain["toposort"], dict(as_sets)))
    lines.append(f"#eval IO.println (one {lg2})")

path = ROOT / "lean" / ".lake" / "difftest_topo.lean"
path.write_text("\n".join(lines) + "\n")
p = subprocess.run(["lake", "env", "lean", str(path)], cwd=ROOT / "lean", capture_output=True, text=True)
got = p.stdout.strip().splitlines()
bad = 0
for i, (a, e) in enumerate(zip(got, expected)):
    if a != e:
        bad += 1
        if bad < 10:
            print("DIFF", i, lines[i + 11], "lean:", repr(a), "python:", repr(e))
print(len(got), len(expected), "bad", bad, (p.stderr or p.stdout)[-600:] if (bad or len(got) != len(expected)) else "")
sys.exit(1 if bad or len(got) != len(expected) else 0)
