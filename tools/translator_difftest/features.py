"""Feature module for differential testing of the translator."""
from typing import List, Optional, Sequence, TypeVar

Element = TypeVar("Element")


def shifts(a: int, k: int):
    x = a << k
    y = a >> k
    return x - y


def power(a: int, k: int):
    return a ** k + 2 ** k


def bits(a: int):
    return a.bit_length()


def wrap(xs: Sequence[int], i: int):
    return xs[i]


def setw(xs: Sequence[int], i: int, v: int):
    ys = list(xs)
    ys[i] = v
    return ys


def rng(a: int, b: int):
    out = []
    for i in range(a):
        out.append(i)
    for j in range(2, b):
        out.append(j * 10)
    return out


def rep(n: int, m: int):
    t = [[None] * n for _ in range(m)]
    k = 0
    for r in range(m):
        for c in range(n):
            t[r][c] = k
            k += 1
    return t


def clamp(a: int, b: int, n: int):
    a, b = max(a, 0), min(b, n - 1)
    if a >= b:
        return None
    return b - a


def narrow(xs: Sequence[Optional[int]], i: int):
    x = xs[i]
    if x is None:
        return -1
    y = xs[i - 1]
    assert y is not None
    return y + 1


def swap(a: int, b: int):
    a, b = b, a
    return a - 2 * b


def tab(n: int, i: int, j: int, v: int):
    t = [[None] * n for _ in range(n)]
    t[i][j] = v
    w = t[i][j]
    assert w is not None
    t[j][i] = w + 1
    return t
