"""Accepted-but-mistranslated Python (Review E, area 5: E5.1 - E5.4) and its neighbourhood.

Every case is a small module; it must be either REJECTED by the translator (`Unsupported`, i.e. translator_tie
"unavailable") or translated FAITHFULLY: the generated Lean, run by `lake env lean`, gives the answers (results and
object states) that Python gives.  A case that is accepted and answers differently is a failure (exit status 1).
`expect` pins the side: "reject" (the witnesses of the review and their variants: accepting them again is a failure),
"faithful" (forms the real sources use, or harmless ones: rejecting them would make a tie unavailable for nothing),
"any" (either is fine; never unfaithful).  A Lean error in the generated text counts as "unavailable" (no claim).

The state of the object after an exception is not compared (`Except.error` carries no claim about the object:
Review E5.8).

usage (from the verif root, after a build):  /venv/bin/python tools/translator_difftest/alias_holes.py [-v]"""
import subprocess
import sys
import textwrap
from pathlib import Path

ROOT = Path(__file__).resolve().parents[2]
sys.path.insert(0, str(ROOT))
from harness import translate_py as T  # noqa: E402

BASE = '''
from typing import List, Optional
from copy import deepcopy


class Box:
    """doc"""

    def __init__(self, count):
        self.items = list(range(count))
        self.hits = [0] * count
        self.total = count
        self.table = [[i] for i in range(count)]

    def bump(self, i: int) -> int:
        self.hits[i] += 1
        self.total -= 1
        return self.hits[i]

    def chase(self, i: int) -> int:
        if self.items[i] == i:
            return i
        self.items[i] = self.chase(self.items[i])
        return self.items[i]

    def link(self, a: int, b: int) -> bool:
        ra = self.chase(a)
        rb = self.chase(b)
        if ra == rb:
            return False
        self.items[ra] = rb
        return True

    def push(self, v: int) -> int:
        self.items.append(v)
        return len(self.items)
'''
BASEFNS = ["Box.__init__", "Box.bump", "Box.chase", "Box.link", "Box.push"]
CASES = []


def S(v):
    if v is None:
        return "none"
    if isinstance(v, bool):
        return str(v).lower()
    if isinstance(v, list):
        return "[" + ", ".join(S(x) for x in v) + "]"
    return str(v)


def state(d):
    return f"{S(d.items)} {S(d.hits)} {d.total} {S(d.table)}"


def box(name, expect, methods, fns, calls, extra_top="", pre=((0, 1),), fuel=None):
    """class Box + extra methods (the last of `fns` is called on Box(n) after the `pre` links).
    calls: [(n, args)]"""
    src = BASE + "\n" + textwrap.indent(textwrap.dedent(methods), "    ") + "\n" + extra_top
    top = [f for f in fns if "." not in f]  # module-level functions: after the class when they mention it
    order = BASEFNS + top if "Box" in extra_top else top + BASEFNS
    CASES.append(dict(name=name, expect=expect, src=src, fns=order + [f for f in fns if "." in f], kind="box",
                      calls=calls, pre=pre, test=fns[-1],
                      kw=dict(param_types={"Box.__init__": {"count": "int"}},
                              fuel=dict({"Box.chase": "len(self.items) + 1"}, **(fuel or {})))))


def mini(name, expect, src, fns, tests, **kw):
    """any module; tests: [(Lean expression of type `Except Py.Err α`, python function of the module dict)]"""
    CASES.append(dict(name=name, expect=expect, src=src, fns=fns, kind="mini", tests=tests, kw=kw))


def prepare(case, ns):
    """-> ("rejected", reason) | ("accepted", Lean lines, expected answers)"""
    spec = T.ModuleSpec(prop="X", source="m.py", namespace=ns, functions=case["fns"], defs_file="x",
                        equiv_file="x", proofs_module="x", equiv={}, property_modules=[], refute={}, **case["kw"])
    try:
        body, sigs = T.translate_source(case["src"], spec)
    except T.Unsupported as e:
        return "rejected", str(e)
    g = {}
    exec(compile(case["src"], "m.py", "exec"), g)
    tag = case["name"]
    lines = [f"namespace {ns}", "open SR", body,
             "def pr {α} [Repr α] : Except Py.Err α → String | .ok v => toString (repr v) "
             "| .error e => \"ERR \" ++ (toString (repr e)).replace \"SR.Py.Err.\" \"\""]
    exp = []
    if case["kind"] == "mini":
        for k, (lean, py) in enumerate(case["tests"]):
            try:
                exp.append(S(py(g)))
            except Exception as ex:  # noqa: BLE001
                exp.append("ERR " + type(ex).__name__)
            lines.append(f"#eval IO.println (\"{tag}#{k} \" ++ pr ({lean}))")
    else:
        lines.append("def stB (d : Box) : String := s!\"{d.items} {d.hits} {d.total} {d.table}\"")
        lines.append("def err (e : Py.Err) : String := \"ERR \" ++ (toString (repr e)).replace \"SR.Py.Err.\" \"\"")
        meth = case["test"].split(".")[1]
        sig = sigs[case["test"]]
        for k, (n, args) in enumerate(case["calls"]):
            d = g["Box"](n)
            for a, b in case["pre"]:
                if a < n and b < n:
                    d.link(a, b)
            try:
                r = getattr(d, meth)(*args)
                exp.append(f"{S(r)} | {state(d)}")
            except Exception as ex:  # noqa: BLE001
                exp.append("ERR " + type(ex).__name__)
            prog = f"match Box.__init__ {n} with | .error e => err e | .ok d0 => "
            cur, j = "d0", 0
            for a, b in case["pre"]:
                if a < n and b < n:
                    j += 1
                    prog += f"match Box.link {cur} {a} {b} with | .error e => err e | .ok (d{j}, _) => "
                    cur = f"d{j}"
            argt = " ".join(S(a) for a in args)
            o = " (fun l => l)" if sig.get("ord") else ""
            if sig.get("mut"):
                prog += (f"match Box.{meth}{o} {cur} {argt} with | .error e => err e "
                         f"| .ok (d, r) => s!\"{{r}} | {{stB d}}\"")
            else:
                prog += (f"match Box.{meth}{o} {cur} {argt} with | .error e => err e "
                         f"| .ok r => s!\"{{r}} | {{stB {cur}}}\"")
            lines.append(f"#eval IO.println (\"{tag}#{k} \" ++ ({prog}))")
    lines.append(f"end {ns}")
    return "accepted", lines, exp


# ---------------------------------------------------------------------------------------------------------------
# E5.2  iteration over a LIVE list that the loop body changes

box("A1_for_over_live_attribute_append", "reject", '''
def t(self, k: int) -> int:
    n = 0
    for x in self.items:
        if n < k:
            self.items.append(x)
        n += 1
    return n
''', ["Box.t"], [(1, (3,)), (2, (5,)), (3, (0,))])
box("A2_for_over_live_attribute_method", "reject", '''
def t(self, k: int) -> int:
    n = 0
    for x in self.items:
        if n < k:
            self.push(x)
        n += 1
    return n
''', ["Box.t"], [(1, (3,)), (2, (5,)), (3, (0,))])
box("A3_for_over_live_attribute_setitem", "reject", '''
def t(self) -> int:
    acc = 0
    for x in self.items:
        self.items[2] = 9
        acc = acc * 10 + x
    return acc
''', ["Box.t"], [(3, ()), (4, ())], pre=())
box("A4_enumerate_live_attribute", "reject", '''
def t(self) -> int:
    acc = 0
    for i, x in enumerate(self.items):
        self.items[2] = 9
        acc = acc * 10 + x
    return acc
''', ["Box.t"], [(3, ()), (4, ())], pre=())
box("A5_for_over_live_attribute_chase", "reject", '''
def t(self) -> int:
    acc = 0
    for x in self.items:
        acc = acc * 10 + self.chase(x)
    return acc
''', ["Box.t"], [(4, ()), (5, ())], pre=((0, 1), (1, 2), (2, 3)))
box("A6_row_of_live_attribute", "reject", '''
def t(self) -> int:
    n = 0
    for x in self.table[0]:
        if n < 3:
            self.table[0].append(x + 1)
        n += 1
    return n
''', ["Box.t"], [(2, ())])
box("A7_nested_loops_over_live_rows", "reject", '''
def t(self) -> int:
    n = 0
    for row in self.table:
        for x in row:
            if n < 5:
                self.table[0].append(x)
            n += 1
    return n
''', ["Box.t"], [(2, ())])
box("A8_lifted_comprehension_over_live_attribute", "reject", '''
def t(self) -> int:
    xs = [self.push(x) for x in self.items if x < 1]
    return len(xs)
''', ["Box.t"], [(2, ())])
box("A8b_lifted_comprehension_no_condition", "reject", '''
def t(self, k: int) -> int:
    return len([self.bump(x) for x in self.items])
''', ["Box.t"], [(2, (0,))], pre=())
box("A9_result_of_method_is_the_live_list", "reject", '''
def all(self) -> List[int]:
    return self.items

def t(self) -> int:
    n = 0
    for x in self.all():
        if n < 3:
            self.push(x)
        n += 1
    return n
''', ["Box.all", "Box.t"], [(2, ())])
mini("A10_local_object_iterated_through_its_method", "reject", BASE + '''
    def all(self) -> List[int]:
        return self.items


def t(k: int) -> int:
    b = Box(k)
    n = 0
    for x in b.all():
        if n < 3:
            b.push(x)
        n += 1
    return n
''', BASEFNS + ["Box.all", "t"], [("t 2", lambda g: g["t"](2))],
     param_types={"Box.__init__": {"count": "int"}}, fuel={"Box.chase": "len(self.items) + 1"})
box("A10b_copy_iterated_through_its_method", "reject", '''
def all(self) -> List[int]:
    return self.items

def t(self) -> int:
    b = deepcopy(self)
    n = 0
    for x in b.all():
        if n < 3:
            b.push(x)
        n += 1
    return n
''', ["Box.all", "Box.t"], [(2, ())])
mini("A11_init_iterates_the_list_it_appends_to", "reject", '''
from typing import List


class K:
    """d"""
    def __init__(self, n: int):
        self.a = [0] * n
        c = 0
        for x in self.a:
            if c < 3:
                self.a.append(x)
            c += 1
        self.c = c

    def get(self) -> int:
        return self.c
''', ["K.__init__", "K.get"], [("match K.__init__ 1 with | .ok k => K.get k | .error e => .error e",
                                lambda g: g["K"](1).get())])
mini("A12_identity_of_a_local_list", "reject", '''
from typing import List


def ident(ys: List[int]) -> List[int]:
    return ys


def t(k: int) -> int:
    xs = [1]
    n = 0
    for x in ident(xs):
        if n < k:
            xs.append(x)
        n += 1
    return n
''', ["ident", "t"], [("t 3", lambda g: g["t"](3))])
# harmless / real forms that must stay accepted
box("A20_range_len_is_evaluated_once", "faithful", '''
def t(self) -> int:
    c = 0
    for i in range(len(self.items)):
        self.items.append(i)
        c += 1
    return c * 100 + len(self.items)
''', ["Box.t"], [(3, ())])
box("A21_observer_loop_over_attribute", "faithful", '''
def t(self) -> int:
    acc = 0
    for x in self.items:
        acc = acc * 10 + x
    for i, y in enumerate(self.hits):
        acc = acc + i + y
    return acc
''', ["Box.t"], [(3, ())])
box("A22_loop_over_attribute_then_change", "faithful", '''
def t(self) -> int:
    acc = 0
    for x in self.items:
        acc = acc * 10 + x
    self.push(acc)
    return acc
''', ["Box.t"], [(3, ())])
box("A23_find_in_range_loop", "faithful", '''
def t(self) -> List[List[int]]:
    result = [[] for _ in range(len(self.items))]
    for i in range(len(self.items)):
        result[self.chase(i)].append(i)
    return [g for g in result if g]
''', ["Box.t"], [(4, ())], pre=((0, 1), (1, 2)))

# ---------------------------------------------------------------------------------------------------------------
# E5.3  a returned value that shares an object with the state / an argument

box("B1_returned_row_of_attribute", "reject", '''
def row(self, i: int) -> List[int]:
    return self.table[i]

def t(self, i: int) -> int:
    r = self.row(i)
    r.append(7)
    return len(self.table[i])
''', ["Box.row", "Box.t"], [(2, (0,)), (3, (1,))])
box("B2_returned_ifexp_attribute", "reject", '''
def pick(self, c: bool) -> List[int]:
    return self.items if c else self.hits

def t(self, c: bool) -> int:
    r = self.pick(c)
    r.append(7)
    return len(self.items) * 10 + len(self.hits)
''', ["Box.pick", "Box.t"], [(2, (True,)), (2, (False,))])
box("B3_returned_row_of_parameter", "reject", '''
def t(self, i: int) -> int:
    tb = [[1], [2]]
    r = first(tb)
    r.append(5)
    return len(tb[0])
''', ["first", "Box.t"], [(2, (0,))], extra_top='''
def first(xs: List[List[int]]) -> List[int]:
    return xs[0]
''')
box("B4_display_of_parameter_then_row_append", "reject", '''
def t(self, i: int) -> int:
    tb = [1]
    r = wrap(tb)
    r[0].append(5)
    return len(tb)
''', ["wrap", "Box.t"], [(2, (0,))], extra_top='''
def wrap(x: List[int]) -> List[List[int]]:
    return [x]
''')
box("B5_returned_loop_target_row", "reject", '''
def firstrow(self) -> List[int]:
    for row in self.table:
        if len(row) > 0:
            return row
    return []

def t(self) -> int:
    r = self.firstrow()
    r.append(7)
    return len(self.table[0])
''', ["Box.firstrow", "Box.t"], [(2, ())])
box("B6_returned_row_then_attribute_changed", "reject", '''
def row(self, i: int) -> List[int]:
    return self.table[i]

def t(self, i: int) -> int:
    r = self.row(i)
    self.table[i].append(9)
    return len(r)
''', ["Box.row", "Box.t"], [(2, (0,))])
box("B7_display_of_loop_target_row", "reject", '''
def firstrow(self) -> List[List[int]]:
    for row in self.table:
        return [row]
    return []

def t(self) -> int:
    r = self.firstrow()
    r[0].append(7)
    return len(self.table[0])
''', ["Box.firstrow", "Box.t"], [(2, ())])
box("B8_optional_attribute_or_none", "reject", '''
def pick(self, c: bool) -> Optional[List[int]]:
    return self.items if c else None

def t(self, c: bool) -> int:
    r = self.pick(c)
    if r is not None:
        r.append(7)
    return len(self.items)
''', ["Box.pick", "Box.t"], [(2, (True,)), (2, (False,))])
box("B9_alias_through_a_second_method", "reject", '''
def row(self, i: int) -> List[int]:
    return self.table[i]

def row0(self) -> List[int]:
    return self.row(0)

def t(self) -> int:
    r = self.row0()
    r.append(7)
    return len(self.table[0])
''', ["Box.row", "Box.row0", "Box.t"], [(2, ())])
box("B10_nested_function_returns_row_of_parameter", "reject", '''
def t(self, i: int) -> int:
    def first(xs: List[List[int]]) -> List[int]:
        return xs[0]
    tb = [[1], [2]]
    r = first(tb)
    r.append(5)
    return len(tb[0])
''', ["Box.t"], [(2, (0,))])
box("B11_tuple_assignment_of_attributes", "reject", '''
def t(self) -> int:
    a, b = self.items, self.hits
    a.append(7)
    return len(self.items)
''', ["Box.t"], [(2, ())])
box("B12_alias_result_changed_by_mutating_function", "reject", '''
def row(self, i: int) -> List[int]:
    return self.table[i]

def t(self) -> int:
    grow(self.row(0))
    return len(self.table[0])
''', ["grow", "Box.row", "Box.t"], [(2, ())], extra_top='''
def grow(xs: List[int]) -> int:
    xs.append(1)
    return len(xs)
''')
box("B13_append_on_the_result_of_a_call", "reject", '''
def row(self, i: int) -> List[int]:
    return self.table[i]

def t(self) -> int:
    self.row(0).append(7)
    return len(self.table[0])
''', ["Box.row", "Box.t"], [(2, ())])
box("B14_loop_target_of_alias_result_changed", "reject", '''
def rows(self) -> List[List[int]]:
    return self.table

def t(self) -> int:
    for r in self.rows():
        r.append(1)
    return len(self.table[0])
''', ["Box.rows", "Box.t"], [(2, ())])
box("B15_new_list_stored_and_returned", "reject", '''
def mk(self) -> List[int]:
    x = [1]
    self.table.append(x)
    return x

def t(self) -> int:
    r = self.mk()
    r.append(7)
    return len(self.table[2])
''', ["Box.mk", "Box.t"], [(2, ())])
box("B16_display_holding_an_alias_result", "reject", '''
def row(self, i: int) -> List[int]:
    return self.table[i]

def t(self) -> int:
    r = [self.row(0)]
    r[0].append(7)
    return len(self.table[0])
''', ["Box.row", "Box.t"], [(2, ())])
box("B17_returned_parameter_behind_a_narrowing", "reject", '''
def t(self) -> int:
    xs = [1]
    r = same(xs)
    xs.append(2)
    return len(r)
''', ["same", "Box.t"], [(2, ())], extra_top='''
def same(xs: List[int]) -> List[int]:
    return xs if len(xs) > 0 else []
''')
CUBE = '''
from typing import List, Optional
from copy import deepcopy


class K:
    """d"""
    def __init__(self, n: int):
        self.cube = [[[i], [i, i]] for i in range(n)]
        self.total = n
'''
CUBE_T = [("match K.__init__ 2 with | .ok k => (K.t k).map (·.2) | .error e => .error e", lambda g: g["K"](2).t())]
mini("B18_concatenation_of_a_loop_target", "reject", CUBE + '''
    def rows(self) -> List[List[int]]:
        for rows in self.cube:
            return rows + rows
        return []

    def t(self) -> int:
        r = self.rows()
        r[0].append(7)
        return len(self.cube[0][0])
''', ["K.__init__", "K.rows", "K.t"], CUBE_T)
mini("B19_filter_of_a_loop_target", "reject", CUBE + '''
    def rows(self) -> List[List[int]]:
        for rows in self.cube:
            return [r for r in rows if len(r) > 0]
        return []

    def t(self) -> int:
        r = self.rows()
        r[0].append(7)
        return len(self.cube[0][0])
''', ["K.__init__", "K.rows", "K.t"], CUBE_T)
L1 = '''
from typing import List, Optional
from copy import deepcopy

class K:
    """d"""
    def __init__(self, n: int):
        self.hits = [0] * n
        self.total = n

    def bump(self, i: int) -> int:
        self.hits[i] += 1
        return self.hits[i]

    def me(self) -> List["K"]:
        return [self]
'''
L1_T = [("match K.__init__ 2 with | .ok k => (K.t k 0).map (fun (p : K × List K) => p.2.map (fun o => o.hits)) "
         "| .error e => .error e", lambda g: [o.hits for o in g["K"](2).t(0)])]
mini("L1_method_returns_list_holding_self", "reject", L1 + '''
    def t(self, i: int) -> List["K"]:
        x = self.me()
        self.bump(i)
        return x
''', ["K.__init__", "K.bump", "K.me", "K.t"], L1_T)
mini("L2_function_holding_a_local_object", "reject", L1 + '''

def t(i: int) -> List[K]:
    k = K(2)
    x = k.me()
    k.bump(i)
    return x
''', ["K.__init__", "K.bump", "K.me", "t"],
     [("(t 0).map (fun l => l.map (fun o => o.hits))", lambda g: [o.hits for o in g["t"](0)])])
mini("L3_method_returns_self", "reject", L1 + '''
    def this(self) -> "K":
        return self

    def t(self, i: int) -> int:
        o = self.this()
        o.bump(i)
        return self.hits[i]
''', ["K.__init__", "K.bump", "K.me", "K.this", "K.t"],
     [("match K.__init__ 2 with | .ok k => (K.t k 0).map (·.2) | .error e => .error e", lambda g: g["K"](2).t(0))])
mini("L4_list_holding_self_after_the_change", "faithful", L1 + '''
    def t(self, i: int) -> List["K"]:
        self.bump(i)
        return self.me()
''', ["K.__init__", "K.bump", "K.me", "K.t"], L1_T)
# the forms of the real sources
box("B30_returned_display_of_an_object_parameter", "faithful", '''
def t(self, i: int) -> int:
    def grp(partition: "Box", ks: List[int]) -> List["Box"]:
        if not ks:
            return [partition]
        part_1 = deepcopy(partition)
        part_1.bump(ks[0])
        results_1 = grp(part_1, ks[1:])
        part_2 = deepcopy(partition)
        results_2 = grp(part_2, ks[1:])
        return results_1 + results_2
    rs = grp(self, list(range(i)))
    return len(rs)
''', ["Box.t"], [(3, (2,)), (3, (3,))], fuel={"Box.t.grp": "len(ks) + 1"})
box("B31_new_lists_may_be_bound_and_changed", "faithful", '''
def fresh(self, i: int) -> List[int]:
    return list(self.table[i])

def none_or_new(self, c: bool) -> Optional[List[int]]:
    if c:
        return None
    return [1]

def t(self, i: int) -> int:
    r = self.fresh(i)
    r.append(7)
    q = self.none_or_new(i > 5)
    return len(self.table[i]) * 10 + len(r)
''', ["Box.fresh", "Box.none_or_new", "Box.t"], [(2, (0,)), (3, (1,))])

box("B32_display_of_a_plain_value_computed_from_a_parameter", "faithful", '''
def t(self, i: int) -> int:
    tb = [1]
    r = lens(tb)
    r.append(5)
    return len(tb) * 10 + len(r)
''', ["lens", "Box.t"], [(2, (0,))], extra_top='''
def lens(x: List[int]) -> List[int]:
    return [len(x)]
''')
box("B4b_nested_display_of_parameter", "reject", '''
def t(self, i: int) -> int:
    tb = [1]
    r = wrap(tb)
    r[0][0] = [5]
    return len(tb)
''', ["wrap", "Box.t"], [(2, (0,))], extra_top='''
def wrap(x: List[int]) -> List[List[List[int]]]:
    return [[x]]
''')

# ---------------------------------------------------------------------------------------------------------------
# E5.1  which definition a name denotes WHEN it is called

KN = '''
from typing import List


class K:
    """d"""
    def __init__(self, n: int):
        self.total = n
'''
KGET = [("match K.__init__ 9 with | .ok k => K.get k 1 | .error e => .error e", lambda g: g["K"](9).get(1))]
mini("C1_nested_function_redefined", "reject", KN + '''
    def get(self, k: int) -> int:
        def h(x: int) -> int:
            return x + 1
        r = h(k)
        def h(x: int) -> int:
            return x + 100
        return r
''', ["K.__init__", "K.get"], KGET)
mini("C2_method_defined_twice", "reject", KN + '''
    def get(self, k: int) -> int:
        return 1

    def get(self, k: int) -> int:
        return 2
''', ["K.__init__", "K.get"], KGET)
mini("C3_nested_function_used_before_its_definition", "reject", KN + '''
    def get(self, k: int) -> int:
        r = h(k)
        def h(x: int) -> int:
            return x + 100
        return r
''', ["K.__init__", "K.get"], KGET)
mini("C4_nested_function_defined_under_if", "reject", KN + '''
    def get(self, k: int) -> int:
        def h(x: int) -> int:
            return x + 1
        if k > 5:
            def h(x: int) -> int:
                return x + 100
        return h(k)
''', ["K.__init__", "K.get"], KGET)
mini("C5_nested_function_defined_after_a_statement", "reject", KN + '''
    def get(self, k: int) -> int:
        r = k + 1
        def h(x: int) -> int:
            return x + 100
        return h(r)
''', ["K.__init__", "K.get"], KGET)
mini("C6_module_function_defined_twice", "reject", '''
def f(x: int) -> int:
    return x + 1


def g(x: int) -> int:
    return f(x)


def f(x: int) -> int:
    return x + 100
''', ["f", "g"], [("g 1", lambda g: g["g"](1))])
mini("C7_module_function_rebound_by_import", "reject", '''
def floor(x: int) -> int:
    return x + 1


from math import floor


def g(x: int) -> int:
    return floor(x)
''', ["floor", "g"], [("g 1", lambda g: g["g"](1))])
mini("C8_nested_function_name_is_also_a_local", "reject", KN + '''
    def get(self, k: int) -> int:
        def h(x: int) -> int:
            return x + 1
        r = h(k)
        for h in range(3):
            r += h
        return r
''', ["K.__init__", "K.get"], KGET)
mini("C9_nested_function_sees_a_local_named_like_a_module_function", "reject", '''
def first(x: int) -> int:
    return x + 1


def t(k: int) -> int:
    def h(x: int) -> int:
        return first(x)
    first = k
    return h(first)
''', ["first", "t"], [("t 1", lambda g: g["t"](1))])
mini("C9b_call_before_the_local_of_that_name_is_assigned", "reject", '''
def first(x: int) -> int:
    return x + 1


def t(k: int) -> int:
    r = first(k)
    first = 3
    return r + first
''', ["first", "t"], [("t 1", lambda g: g["t"](1))])
mini("C9c_parameter_named_like_a_module_function", "reject", '''
def first(x: int) -> int:
    return x + 1


def t(first: int) -> int:
    return first(first)
''', ["first", "t"], [("t 1", lambda g: g["t"](1))])
mini("C9d_comprehension_variable_named_like_a_module_function", "reject", '''
from typing import List


def first(x: int) -> int:
    return x + 1


def t(k: int) -> List[int]:
    return [first(first) for first in range(k)]
''', ["first", "t"], [("t 2", lambda g: g["t"](2))])
mini("C10_nested_function_calls_a_sibling", "any", '''
def t(k: int) -> int:
    def a(x: int) -> int:
        return x + 1
    def b(x: int) -> int:
        return a(x) + 1
    return b(k)
''', ["t"], [("t 1", lambda g: g["t"](1))])
mini("C11_class_defined_twice", "reject", KN + '''
    def get(self, k: int) -> int:
        return 1


class K:
    """d"""
    def __init__(self, n: int):
        self.total = n

    def get(self, k: int) -> int:
        return 2
''', ["K.__init__", "K.get"], KGET)
mini("C12_attribute_hides_a_method", "reject", KN.replace("self.total = n", "self.total = n\n        self.get = n") + '''
    def get(self, k: int) -> int:
        return 1

    def t(self, k: int) -> int:
        return self.get(k)
''', ["K.__init__", "K.get", "K.t"],
     [("match K.__init__ 9 with | .ok k => K.t k 1 | .error e => .error e", lambda g: g["K"](9).t(1))])
mini("C20_one_nested_function_at_the_top", "faithful", KN + '''
    def get(self, k: int) -> int:
        """doc"""
        def h(x: int) -> int:
            return x + 100
        r = h(k)
        return r + h(r)
''', ["K.__init__", "K.get"], KGET)

# ---------------------------------------------------------------------------------------------------------------
# E5.4  identifier capture

KG = [("match K.__init__ 9 with | .ok k => K.get k | .error e => .error e", lambda g: g["K"](9).get())]
mini("N1_init_param_named_self_attr", "reject", '''
class K:
    """d"""
    def __init__(self, self_total: int):
        self.total = 5
        self.other = self_total

    def get(self) -> int:
        return self.other
''', ["K.__init__", "K.get"], KG)
mini("N2_init_comprehension_variable_named_self_attr", "reject", '''
class K:
    """d"""
    def __init__(self, n: int):
        self.total = 5
        self.other = [self.total + self_total for self_total in range(n)]

    def get(self) -> int:
        return self.other[8]
''', ["K.__init__", "K.get"], KG)
mini("N3_init_loop_target_named_self_attr", "reject", '''
class K:
    """d"""
    def __init__(self, n: int):
        self.total = 5
        acc = 0
        for self_total in range(n):
            acc += self.total
        self.other = acc

    def get(self) -> int:
        return self.other
''', ["K.__init__", "K.get"], KG)
mini("N4_method_param_named_self_attr", "any", '''
class K:
    """d"""
    def __init__(self, n: int):
        self.total = n

    def get(self) -> int:
        return self.add(1)

    def add(self, self_total: int) -> int:
        return self.total * 10 + self_total
''', ["K.__init__", "K.add", "K.get"], KG)
for kw in ["calc", "forall", "exists", "using", "extends", "catch", "prefix", "infixl", "attribute", "export",
           "noncomputable", "termination_by", "nonrec", "renaming", "hiding", "unless", "suffices", "mut"]:
    box("KW_" + kw, "faithful", f'''
def t(self, i: int) -> int:
    {kw} = i + 1
    return self.bump(i) + {kw}
''', ["Box.t"], [(3, (1,))])

# ---------------------------------------------------------------------------------------------------------------
# arguments that are a second reference to (a part of) the object the call changes

mini("P1_same_list_for_two_parameters", "any", '''
from typing import List


def f(a: List[int], b: List[int]) -> int:
    a.append(1)
    return len(b)


def t(k: int) -> int:
    xs = [1]
    r = f(xs, xs)
    return r
''', ["f", "t"], [("t 1", lambda g: g["t"](1))])
box("P2_object_is_its_own_argument", "any", '''
def size(self) -> int:
    return len(self.items)

def absorb(self, other: "Box") -> int:
    self.push(1)
    return other.size()

def t(self) -> int:
    return self.absorb(self)
''', ["Box.size", "Box.absorb", "Box.t"], [(2, ())])
box("P2b_copy_is_its_own_argument", "any", '''
def size(self) -> int:
    return len(self.items)

def absorb(self, other: "Box") -> int:
    self.push(1)
    return other.size()

def t(self) -> int:
    b = deepcopy(self)
    return b.absorb(b)
''', ["Box.size", "Box.absorb", "Box.t"], [(2, ())])
box("P3_attribute_list_as_argument_of_a_mutator", "any", '''
def m(self, xs: List[int]) -> int:
    self.items.append(1)
    return len(xs)

def t(self) -> int:
    return self.m(self.items)
''', ["Box.m", "Box.t"], [(2, ())])
box("P5_row_as_argument_of_a_mutator", "reject", '''
def m(self, xs: List[int]) -> int:
    self.table[0].append(1)
    return len(xs)

def t(self) -> int:
    return self.m(self.table[0])
''', ["Box.m", "Box.t"], [(2, ())])
box("P5b_live_iteration_through_a_parameter", "any", '''
def m(self, xs: List[int]) -> int:
    n = 0
    for x in xs:
        if n < 4:
            self.items.append(x)
        n += 1
    return n

def t(self) -> int:
    return self.m(self.items)
''', ["Box.m", "Box.t"], [(2, ())])
mini("P6_row_and_table_to_a_mutating_function", "any", '''
from typing import List


def grow2(a: List[List[int]], row: List[int]) -> int:
    a[0].append(1)
    return len(row)


def t(k: int) -> int:
    tb = [[1], [2]]
    r = grow2(tb, tb[0])
    return r
''', ["grow2", "t"], [("t 1", lambda g: g["t"](1))])
box("P7_nested_function_gets_self_and_its_list", "any", '''
def t(self) -> int:
    def h(b: "Box", xs: List[int]) -> int:
        c = deepcopy(b)
        c.push(1)
        return len(xs)
    return h(self, self.items)
''', ["Box.t"], [(2, ())])
box("P8_method_of_copy_with_list_of_original", "any", '''
def m(self, xs: List[int]) -> int:
    self.items.append(1)
    return len(xs)

def t(self) -> int:
    b = deepcopy(self)
    return b.m(self.items)
''', ["Box.m", "Box.t"], [(2, ())])
box("P9_list_holding_self_as_argument_of_a_mutator", "any", '''
def size(self) -> int:
    return len(self.items)

def me(self) -> List["Box"]:
    return [self]

def m(self, others: List["Box"]) -> int:
    self.push(1)
    acc = 0
    for o in others:
        acc += o.size()
    return acc

def t(self) -> int:
    return self.m(self.me())
''', ["Box.size", "Box.me", "Box.m", "Box.t"], [(2, ())])
box("P9b_alias_result_as_argument_of_a_mutator", "any", '''
def row(self, i: int) -> List[int]:
    return self.table[i]

def m(self, xs: List[int]) -> int:
    self.table[0].append(1)
    return len(xs)

def t(self) -> int:
    return self.m(self.row(0))
''', ["Box.row", "Box.m", "Box.t"], [(2, ())])
box("P9c_alias_result_then_mutation_in_next_argument", "any", '''
def row(self, i: int) -> List[int]:
    return self.table[i]

def grow(self) -> int:
    self.table[0].append(1)
    return 0

def t(self) -> int:
    return both(self.row(0), self.grow())
''', ["both", "Box.row", "Box.grow", "Box.t"], [(2, ())], extra_top='''
def both(xs: List[int], k: int) -> int:
    return len(xs) + k
''')
box("P9d_len_of_alias_after_mutation", "any", '''
def row(self, i: int) -> List[int]:
    return self.table[i]

def grow(self) -> int:
    self.table[0].append(1)
    return 0

def t(self) -> int:
    return len(self.row(0)) + self.grow()
''', ["Box.row", "Box.grow", "Box.t"], [(2, ())])
box("P9e_row_then_mutation_in_next_argument", "reject", '''
def grow(self) -> int:
    self.table[0].append(1)
    return 0

def t(self) -> int:
    return both(self.table[0], self.grow())
''', ["both", "Box.grow", "Box.t"], [(2, ())], extra_top='''
def both(xs: List[int], k: int) -> int:
    return len(xs) + k
''')

box("P10_object_shared_through_two_calls_then_changed_as_loop_target", "any", '''
def size(self) -> int:
    return len(self.items)

def t(self) -> int:
    def wrap(b: "Box") -> List["Box"]:
        return [b]
    c = deepcopy(self)
    for o in wrap(c):
        o.push(1)
    return c.size()
''', ["Box.size", "Box.t"], [(2, ())])
box("P10b_object_shared_through_two_calls_then_changed_as_loop_target", "reject", '''
def size(self) -> int:
    return len(self.items)

def t(self) -> int:
    c = deepcopy(self)
    for o in wrap2(c):
        o.push(1)
    return c.size()
''', ["wrap", "wrap2", "Box.size", "Box.t"], [(2, ())], extra_top='''
def wrap(b: Box) -> List[Box]:
    return [b]


def wrap2(b: Box) -> List[Box]:
    return wrap(b)
''')


def main():
    verbose = "-v" in sys.argv
    lines = ["import SRVerif.Model.PyRt", "set_option linter.unusedVariables false"]
    verdict, expected, why = {}, {}, {}
    for i, case in enumerate(CASES):
        r = prepare(case, f"SR.Gen.AH{i}")
        if r[0] == "rejected":
            verdict[case["name"]], why[case["name"]] = "REJECTED", r[1]
        else:
            lines += r[1]
            expected[case["name"]] = r[2]
    p = ROOT / "lean" / ".lake" / "alias_holes.lean"
    p.write_text("\n".join(lines) + "\n")
    run = subprocess.run(["lake", "env", "lean", str(p)], cwd=ROOT / "lean", capture_output=True, text=True)
    got = {}
    for l in run.stdout.splitlines():
        head, _, rest = l.partition(" ")
        if "#" in head and head.split("#")[0] in expected:
            got.setdefault(head.split("#")[0], {})[int(head.split("#")[1])] = rest
    for name, exp in expected.items():
        g = got.get(name, {})
        if len(g) != len(exp):
            verdict[name], why[name] = "LEAN-ERROR", "the generated text does not compile (tie: unavailable)"
        elif all(g[k] == e for k, e in enumerate(exp)):
            verdict[name], why[name] = "FAITHFUL", f"{len(exp)} answers equal to Python's"
        else:
            k = next(k for k, e in enumerate(exp) if g[k] != e)
            verdict[name], why[name] = "UNFAITHFUL", f"python: {exp[k]}   lean: {g[k]}"
    bad = 0
    for case in CASES:
        name, v, e = case["name"], verdict[case["name"]], case["expect"]
        ok = v != "UNFAITHFUL" and not (e == "reject" and v != "REJECTED") and not (e == "faithful" and v != "FAITHFUL")
        bad += not ok
        if verbose or not ok:
            print(f"{'ok  ' if ok else 'BAD '} {name:55s} {v:10s} (expected: {e})  {why[name][:150]}")
    if verbose and run.returncode != 0:
        print(run.stdout[-1500:])
    print(f"{len(CASES)} cases: {sum(v == 'REJECTED' for v in verdict.values())} rejected, "
          f"{sum(v == 'FAITHFUL' for v in verdict.values())} faithful, "
          f"{sum(v == 'LEAN-ERROR' for v in verdict.values())} lean-error, "
          f"{sum(v == 'UNFAITHFUL' for v in verdict.values())} unfaithful; bad {bad}")
    return 1 if bad else 0


if __name__ == "__main__":
    sys.exit(main())
