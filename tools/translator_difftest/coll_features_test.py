"""Differential test of the translator's dict / set / deque subset: tools/translator_difftest/coll_features.py is
translated and every function is evaluated by Lean (`#eval`, node type Nat) and by Python on random arguments:
dict comprehension / get / set / `in` / items / keys / values / KeyError, deque popleft / append / remove /
IndexError / ValueError and a `while` loop on a declared fuel, set add / discard / remove / copy / iteration (the
Python side runs with `set` bound to an insertion-ordered class whose iteration order is the `ord_` handed to the
generated code: identity, reversal, rotation), a function that changes a dict parameter in place (state passing),
in-place changes of the elements of a temporary list (moved into the result) and of a local list (rebuilt), a
recursive function with a recursive call inside a loop.
usage (from the verif root, after a build):  /venv/bin/python tools/translator_difftest/coll_features_test.py [seed]"""
import random, subprocess, sys
from pathlib import Path
ROOT = Path(__file__).resolve().parents[2]
HERE = Path(__file__).resolve().parent
sys.path.insert(0, str(ROOT))
from harness import translate_py as T
src = (HERE / "coll_features.py").read_text()
fnames = ["dict_ops", "key_error", "deque_ops", "set_ops", "bump", "use_bump", "rows", "extend_rows", "countdown",
          "use_countdown"]
spec = T.ModuleSpec(prop="X", source="coll_features.py", namespace="SR.Gen.CollFeat", functions=fnames,
                    defs_file="SRVerif/Generated/CollFeatPy.lean", equiv_file="x", proofs_module="x", equiv={},
                    property_modules=[], refute={}, int_ty=T.INT, prelude="SRVerif.Model.PyRtColl",
                    fuel={"deque_ops.while1": "len(items) + 2", "countdown": "len(keys) + 5"},
                    param_types={})
body, sigs = T.translate_source(src, spec)
random.seed(int(sys.argv[1]) if len(sys.argv) > 1 else 0)
ORDERS = {"id": (lambda l: list(l), "(fun l => l)"), "rev": (lambda l: list(reversed(l)), "List.reverse"),
          "rot": (lambda l: list(l[1:]) + list(l[:1]), "(fun l => l.drop 1 ++ l.take 1)")}


def make_set_class(order):
    class OSet:
        def __init__(self, it=()):
            self.items = []
            for x in it:
                self.add(x)
        def add(self, x):
            if x not in self.items:
                self.items.append(x)
        def discard(self, x):
            if x in self.items:
                self.items.remove(x)
        def remove(self, x):
            if x not in self.items:
                raise KeyError(x)
            self.items.remove(x)
        def __iter__(self):
            return iter(order(self.items))
        def __len__(self):
            return len(self.items)
        def __contains__(self, x):
            return x in self.items
    return OSet


def load(order):
    env = {"__name__": "coll_features_under_test", "set": make_set_class(order)}
    exec(compile(src, "coll_features.py", "exec"), env)
    return env


def nodes(k=5, n=None):
    return [random.randrange(0, 6) for _ in range(random.randrange(0, k) if n is None else n)]


def graph():
    keys = random.sample(range(6), random.randrange(0, 5))
    return [(k, random.sample(range(7), random.randrange(0, 4))) for k in keys]


def L(v):
    if isinstance(v, tuple):
        return "(" + ", ".join(L(x) for x in v) + ")"
    if isinstance(v, list):
        return "[" + ", ".join(L(x) for x in v) + "]"
    return str(v)


def I(v):
    return f"({v} : Int)"


GENS = {
    "dict_ops": lambda: ([graph(), nodes()], None),
    "key_error": lambda: ([graph(), nodes(3)], None),
    "deque_ops": lambda: ([nodes(7), nodes(2), random.randrange(6)], None),
    "set_ops": lambda: ([nodes(6), nodes(3), nodes(3)], None),
    "use_bump": lambda: ([random.sample(range(6), random.randrange(0, 4)), nodes(3)], None),
    "extend_rows": lambda: ([random.randrange(-1, 4), random.randrange(0, 7)], "int"),
    "use_countdown": lambda: ([random.sample(range(5), random.randrange(0, 4)), random.randrange(0, 4)], "int2"),
}
lines = ["import SRVerif.Model.PyRtColl", "set_option linter.unusedVariables false", "namespace SR.Gen.CollFeat",
         "open SR", body, "end SR.Gen.CollFeat", "open SR SR.Gen.CollFeat",
         "def err (e : Py.Err) : String := \"ERR \" ++ (toString (repr e)).replace \"SR.Py.Err.\" \"\"",
         "def sh {α : Type} [ToString α] : Except Py.Err α → String | .ok v => toString v | .error e => err e"]
n0 = len(lines)
expected = []
for f, gen in GENS.items():
    for _ in range(70):
        args, kind = gen()
        for k, (order, lean_ord) in ORDERS.items():
            if not sigs[f]["ord"] and k != "id":
                continue
            env = load(order)
            py_args = [dict((a, list(b)) for a, b in x) if (x and isinstance(x, list) and isinstance(x[0], tuple))
                       else (dict() if f in ("dict_ops", "key_error") and x is args[0] else
                             (list(x) if isinstance(x, list) else x)) for x in args]
            try:
                r = str(env[f](*py_args))
            except (KeyError, ValueError, IndexError) as e:
                r = "ERR " + type(e).__name__
            expected.append((f, args, k, r))
            largs = []
            for i, a in enumerate(args):
                if isinstance(a, int) and (kind == "int" or (kind == "int2" and i == 1)):
                    largs.append(I(a))
                elif isinstance(a, list) and not a:
                    largs.append("([] : List (Nat × List Nat))" if f in ("dict_ops", "key_error") and i == 0
                                 else "([] : List Nat)")
                else:
                    largs.append(L(a))
            lines.append(f"#eval IO.println (sh ({f}{' ' + lean_ord if sigs[f]['ord'] else ''} " + " ".join(largs) + "))")
path = ROOT / "lean" / ".lake" / "difftest_coll.lean"
path.write_text("\n".join(lines) + "\n")
p = subprocess.run(["lake", "env", "lean", str(path)], cwd=ROOT / "lean", capture_output=True, text=True)
got = p.stdout.strip().splitlines()
bad = 0
for (f, args, k, e), g in zip(expected, got):
    if e != g:
        bad += 1
        if bad < 12:
            print("DIFF", f, args, k, "python:", e, "lean:", g)
print(len(got), len(expected), "bad", bad, (p.stderr or p.stdout)[-1500:] if (bad or len(got) != len(expected)) else "")
sys.exit(1 if bad or len(got) != len(expected) else 0)
