"""Negative tests of the translator's soundness side conditions on utils/toposort.py: edits of the source after
which value semantics / state passing would be WRONG, or that leave the subset, must be rejected (`Unsupported`,
i.e. translator_tie "unavailable", never a wrong translation); harmless edits must still translate.
usage (from the verif root):  /venv/bin/python tools/translator_difftest/topo_reject.py"""
import os, sys
from pathlib import Path
ROOT = Path(__file__).resolve().parents[2]
sys.path.insert(0, str(ROOT))
from harness import translate_py as T
SRC = (Path(os.environ.get("SUPERREC2_REPO", "/repo")) / "src/superrec2/utils/toposort.py").read_text()


def sub(old, new):
    def f(s):
        assert old in s, old
        return s.replace(old, new, 1)
    return f


MOVE = "            subresult.append(node_from)\n            results.append(subresult)\n"
REV = "        subresult.reverse()\n"
CALL = "    results = _toposort_all_bt(starts, graph, indeg)\n"
CASES = [
 # (what, edit, substring expected in the rejection; None = must translate)
 ("unchanged source", lambda s: s, None),
 ("set aliased instead of copied", sub("next_starts = set(starts)", "next_starts = starts"), "aliasing"),
 ("sub-result stored twice", sub(MOVE, MOVE + "            results.append(subresult)\n"), "after it was stored"),
 ("sub-result changed after it was stored",
  sub(MOVE, "            results.append(subresult)\n            subresult.append(node_from)\n"), "changed in place after"),
 ("sub-result stored in two lists",
  sub(MOVE, "            subresult.append(node_from)\n            results.append(subresult)\n            starts2 = [subresult]\n"),
  "after it was stored"),
 ("sub-result stored by a nested statement (twice)",
  sub(MOVE, "            subresult.append(node_from)\n            for _i in range(2):\n                results.append(subresult)\n"),
  "aliasing"),
 ("elements reversed while the list is read", sub(REV, REV + "        if len(results) == 0:\n            return []\n"),
  "whose elements it changes"),
 ("break in the loop that changes its elements", sub(REV, REV + "        break\n"), "break / continue"),
 ("element of a parameter changed in place",
  sub("    if not starts:\n        return [[]]\n", "    if not starts:\n        return [[]]\n    graph[1] = starts\n"), "Unsupported"),
 ("dict read in the statement of the call that changes it",
  sub(CALL, "    results = _toposort_all_bt(starts, graph, indeg) + [list(indeg)]\n"), "Unsupported"),
 ("changed dict handed on twice", sub(CALL, "    results = _toposort_all_bt(starts, indeg, indeg)\n"), "Unsupported"),
 ("result list kept and changed", sub(CALL, CALL + "    other = results\n"), "changed in place after"),
 ("parameter dict changed by toposort", sub("        result.append(node_from)\n", "        result.append(node_from)\n        graph[node_from] = set()\n"), "Unsupported"),
 ("set changed while it is iterated",
  sub("    results = []\n\n    for node_from in starts:\n", "    results = []\n    pool = set(starts)\n\n    for node_from in pool:\n        pool.discard(node_from)\n"),
  "it iterates over"),
 ("deque rebound to a list", sub("deque(graph)", "list(graph)"), "Unsupported"),
 ("local named like the recursion hook", sub("results = []\n\n    for node_from", "rec_ = 0\n    results = []\n\n    for node_from"), "reserved"),
 ("`set` rebound", lambda s: s + "\n\ndef set(x):\n    return list(x)\n", "Unsupported"),
 ("sorted iteration (outside the subset)", sub("for node_from in starts:", "for node_from in sorted(starts):"), "Unsupported"),
 ("module-level function defined twice",
  sub("def toposort_all(", "def _toposort_all_bt(starts, graph, indeg):\n    return []\n\n\ndef toposort_all("), "defined twice"),
 ("module-level function re-bound by an import",
  lambda s: s + "\n\nfrom graphlib import toposort\n", "defined twice"),
 ("call of a name that is a variable of the function",
  sub("    results = _toposort_all_bt(starts, graph, indeg)\n", "    results = _toposort_all_bt(starts, graph, indeg)\n    _toposort_all_bt = results\n"),
  "a variable of the function"),
 ("harmless: restore loop before the sub-results are used",
  sub("        for node_to in graph[node_from]:\n            indeg[node_to] += 1\n", "        for node_to in graph[node_from]:\n            indeg[node_to] = indeg[node_to] + 1\n"), None),
 ("harmless: keys() spelled out", sub("starts: Set[Node] = set(graph)", "starts: Set[Node] = set(graph.keys())"), None),
 ("harmless: items() instead of values()",
  sub("    for succs in graph.values():\n        for succ in succs:\n            starts.discard(succ)",
      "    for _node, succs in graph.items():\n        for succ in succs:\n            starts.discard(succ)"), None),
 ("harmless: membership test before the lookup",
  sub("            starts.discard(succ)\n", "            if succ in starts:\n                starts.discard(succ)\n"), None),
 ("harmless: list(reversed(..)) instead of reverse()", sub(REV, "        subresult.reverse()\n        check = list(reversed(subresult))\n"), None),
]
bad = 0
for what, edit, want in CASES:
    try:
        T.translate_source(edit(SRC), T.TOPO)
        got = None
    except T.Unsupported as e:
        got = str(e)
    ok = (got is None) if want is None else (got is not None and (want == "Unsupported" or want in got))
    bad += not ok
    print("ok  " if ok else "BAD ", what + ":", "translated" if got is None else "rejected: " + got[:110])
print(len(CASES), "cases, bad", bad)
sys.exit(1 if bad else 0)
