"""Differential test of the translator's subset (Int-typed modules): tools/translator_difftest/features.py is
translated and every function is evaluated by Lean (`#eval`) and by Python on random arguments: shifts and powers
with negative operands, wrap-around indexing and item assignment, range / repetition with non-positive counts,
tuple assignment, `None` narrowing, nested tables.  `a ** negative` is expected to be the marker OutOfSubset.
usage (from the verif root, after a build):  /venv/bin/python tools/translator_difftest/features_test.py [seed]"""
import sys, random, subprocess, importlib.util
from pathlib import Path
ROOT = Path(__file__).resolve().parents[2]
HERE = Path(__file__).resolve().parent
sys.path.insert(0, str(ROOT))
from harness import translate_py as T
src = open(HERE / "features.py").read()
fnames = ["shifts","power","bits","wrap","setw","rng","rep","clamp","narrow","swap","tab"]
spec = T.ModuleSpec(prop="X", source="feat.py", namespace="SR.Gen.Feat", functions=fnames, defs_file="SRVerif/Generated/FeatPy.lean",
    equiv_file="x", proofs_module="x", equiv={}, property_modules=[], refute={}, int_ty=T.INT, elem_lt=True)
body, sigs = T.translate_source(src, spec)
defs = T.defs_file_text(spec,"x",body)
sp = importlib.util.spec_from_file_location("feat", str(HERE / "features.py")); feat = importlib.util.module_from_spec(sp); sp.loader.exec_module(feat)
random.seed(int(sys.argv[1]) if len(sys.argv)>1 else 0)
def L(v):
    if v is None: return "none"
    if isinstance(v,bool): return str(v).lower()
    if isinstance(v,int): return f"({v} : Int)" 
    if isinstance(v,list): return "[" + ", ".join(L(x) for x in v) + "]"
def S(v):  # expected rendering
    if v is None: return "none"
    if isinstance(v,int): return str(v)
    if isinstance(v,list): return "[" + ",".join(S(x) for x in v) + "]"
r = lambda lo=-4, hi=6: random.randrange(lo, hi)
def rl(opt=False): return [ (None if opt and random.random()<.3 else r()) for _ in range(random.randrange(0,5))]
gens = {"shifts": lambda: (r(-9,9), r(-2,5)), "power": lambda: (r(-3,4), r(-2,5)), "bits": lambda: (r(-40,40),),
  "wrap": lambda: (rl(), r(-6,6)), "setw": lambda: (rl(), r(-6,6), r()), "rng": lambda: (r(), r()), "rep": lambda: (r(-1,4), r(-1,4)),
  "clamp": lambda: (r(), r(), r()), "narrow": lambda: (rl(True), r(-5,5)), "swap": lambda: (r(), r()), "tab": lambda: (r(0,4), r(-4,4), r(-4,4), r())}
lines = ["import SRVerif.Model.PyRt"] + defs.split("import SRVerif.Model.PyRt",1)[1].splitlines()
lines += ["open SR SR.Gen.Feat",
 "class Sh (α : Type) where sh : α → String",
 "instance : Sh Int := ⟨toString⟩", "instance : Sh Nat := ⟨toString⟩",
 "instance {α} [Sh α] : Sh (Option α) := ⟨fun | none => \"none\" | some v => Sh.sh v⟩",
 "instance {α} [Sh α] : Sh (List α) := ⟨fun l => \"[\" ++ \",\".intercalate (l.map Sh.sh) ++ \"]\"⟩",
 "def showE {α} [Sh α] : Except Py.Err α → String | .ok v => Sh.sh v | .error e => \"ERR \" ++ (toString (repr e)).replace \"SR.Py.Err.\" \"\""]
exp = []
for f in fnames:
    for _ in range(60):
        args = gens[f]()
        try: e = S(getattr(feat,f)(*[list(a) if isinstance(a,list) else a for a in args]))
        except (IndexError, ValueError, AssertionError, ZeroDivisionError) as ex: e = "ERR " + type(ex).__name__
        except TypeError as ex: e = "ERR TypeError"
        if f == "power" and args[1] < 0: e = "ERR OutOfSubset"   # Python returns a float
        exp.append((f,args,e))
        lines.append(f"#eval IO.println (showE ({f} " + " ".join(L(a) for a in args) + "))")
open(ROOT / "lean" / ".lake" / "difftest_features.lean","w").write("\n".join(lines)+"\n")
p = subprocess.run(["lake","env","lean",str(ROOT / "lean" / ".lake" / "difftest_features.lean")], cwd=ROOT / "lean", capture_output=True, text=True)
got = p.stdout.strip().splitlines()
bad = 0
for (f,a,e), g in zip(exp, got):
    if e != g:
        bad += 1
        if bad < 15: print("DIFF", f, a, "python:", e, "lean:", g)
print(len(exp), len(got), "bad", bad, p.stderr[-800:])
sys.exit(1 if bad or len(got) != len(exp) else 0)
