"""Negative tests of the translator's soundness side conditions on utils/disjoint_set.py: edits of the source
after which value semantics / state passing would be WRONG, or that leave the subset, must be rejected
(`Unsupported`, i.e. translator_tie "unavailable", never a wrong translation); harmless edits must still translate.
usage (from the verif root):  /venv/bin/python tools/translator_difftest/dsu_reject.py"""
import os, sys
from pathlib import Path
ROOT = Path(__file__).resolve().parents[2]
sys.path.insert(0, str(ROOT))
from harness import translate_py as T
SRC = (Path(os.environ.get("SUPERREC2_REPO", "/repo")) / "src/superrec2/utils/disjoint_set.py").read_text()

def sub(old, new):
    def f(s):
        assert old in s, old
        return s.replace(old, new, 1)
    return f

UNITE_HEAD = "        rep_first = self.find(first)\n"
CASES = [
 # (what, edit, substring expected in the rejection; None = must translate)
 ("unchanged source", lambda s: s, None),
 ("seed: part_2 is partition itself", sub("part_2 = deepcopy(partition)", "part_2 = partition"), "aliasing"),
 ("part_1 is partition itself", sub("part_1 = deepcopy(partition)", "part_1 = partition"), "aliasing"),
 ("the parameter is united in place", sub("part_1.unite(first, groups[0])", "partition.unite(first, groups[0])"),
  "in-place change of a parameter"),
 ("object changed after it was handed on",
  sub("                results_1 = _binary(part_1, groups[1:], first, second)\n",
      "                results_1 = _binary(part_1, groups[1:], first, second)\n                part_1.unite(first, groups[0])\n"),
  "changed in place after a reference to it was handed on"),
 ("object stored in a list, then changed",
  sub("            part_2 = deepcopy(partition)\n", "            part_2 = deepcopy(partition)\n            keep = [part_2]\n"),
  "changed in place after a reference to it was handed on"),
 ("state of self read in the statement of a call that changes self",
  sub(UNITE_HEAD, "        rep_first = len(self.parent) * 0 + self.find(first)\n"), "read in the same statement"),
 ("list attribute re-bound by a method", sub(UNITE_HEAD, UNITE_HEAD + "        self.rank = list(self.rank)\n"),
  "re-binding of a list attribute"),
 ("attribute list handed out", sub("        return self.groups\n", "        return self.groups\n\n    def ranks(self):\n        return self.rank\n"),
  "not covered"),
 ("deepcopy rebound", sub("from copy import deepcopy", "from copy import copy as deepcopy"), "unsupported call"),
 ("set rebound", sub("class DisjointSet:", "set = frozenset\n\n\nclass DisjointSet:"), "unsupported"),
 ("nested function reads a variable of binary()",
  sub("            if not groups:\n", "            if not groups and self is not None:\n"), "variable of the enclosing function"),
 ("new method that is not translated", sub("    def __len__(self)", "    def reset(self):\n        self.groups = 0\n\n    def __len__(self)"),
  "not covered"),
 ("__repr__ changes the object", sub("    def __repr__(self) -> str:\n", "    def __repr__(self) -> str:\n        self.groups = 0\n"),
  "may change the object"),
 ("find through a while loop (no syntactic variant)",
  sub("        if self.parent[element] == element:\n            return element\n\n        self.parent[element] = self.find(self.parent[element])\n        return self.parent[element]",
      "        while self.parent[element] != element:\n            element = self.parent[element]\n        return element"),
  "while loop without a recognised variant"),
 ("nested function defined twice: Python calls the definition in force at the call, not the last one",
  sub("        def _binary(\n", "        def _binary(partition: \"DisjointSet\", groups: List[int], first: Optional[int], second: Optional[int]) -> List[\"DisjointSet\"]:\n            return []\n\n        def _binary(\n"),
  "defined twice"),
 ("for over the live attribute list while the body changes self",
  sub("        for i in range(len(self.parent)):\n            result[self.find(i)].append(i)",
      "        for i, _p in enumerate(self.parent):\n            result[self.find(i)].append(i)"),
  "the list it iterates over"),
 ("nested function called before its (single) definition: Python raises UnboundLocalError",
  sub("        def _binary(\n", "        early = _binary(partition=self, groups=[], first=None, second=None)\n\n        def _binary(\n"),
  "defined before the first statement"),
 ("nested function re-bound by a loop of the enclosing function",
  sub("        return _binary(\n", "        for _binary in range(0):\n            pass\n        return _binary(\n"), "defined twice / rebound"),
 ("method defined twice",
  sub("    def __len__(self)", "    def find(self, element: int) -> int:\n        return element\n\n    def __len__(self)"),
  "defined twice"),
 ("class defined twice", lambda s: s + "\n\nclass DisjointSet:\n    pass\n", "defined twice"),
 ("for over the live attribute list while the body changes it",
  sub("        for i in range(len(self.parent)):\n            result[self.find(i)].append(i)",
      "        for i in self.parent:\n            result[self.find(i)].append(i)\n            self.parent.append(i)"),
  "the list it iterates over"),
 ("harmless: a plain item of a list attribute loaded in the statement of a call that changes self",
  sub("        return self.parent[element]\n", "        return self.parent[element] + 0 * len([self.rank[self.find(element)]])\n"), None),
 ("harmless: locals renamed", lambda s: s.replace("rep_first", "ra").replace("results_1", "r1"), None),
 ("harmless: x -= 1 spelled out", sub("self.groups -= 1", "self.groups = self.groups - 1"), None),
 ("harmless: extra find", sub(UNITE_HEAD, "        self.find(second)\n" + UNITE_HEAD), None),
]
bad = 0
for what, edit, want in CASES:
    try:
        T.translate_source(edit(SRC), T.SPECS["C20"])
        got = None
    except T.Unsupported as e:
        got = str(e)
    ok = (got is None) if want is None else (got is not None and want in got)
    bad += not ok
    print(("ok   " if ok else "FAIL ") + what + ": " + ("translated" if got is None else "rejected: " + got[:110]))
print(len(CASES), "cases, bad", bad)
sys.exit(1 if bad else 0)
