"""Reviewer feature module: objects that change."""
from typing import List, Optional
from copy import deepcopy


class Bag:
    """doc"""

    def __init__(self, count):
        self.items = list(range(count))
        self.hits = [0] * count
        self.total = count

    def bump(self, i: int) -> int:
        self.hits[i] += 1
        self.total -= 1
        return self.hits[i]

    def chase(self, i: int) -> int:
        if self.items[i] == i:
            return i
        self.items[i] = self.chase(self.items[i])
        return self.items[i]

    def link(self, a: int, b: int) -> bool:
        ra = self.chase(a)
        rb = self.chase(b)
        if ra == rb:
            return False
        self.items[ra] = rb
        self.bump(rb)
        return True

    def size(self) -> int:
        return self.total

    def t_load_then_call(self, i: int) -> int:
        x = self.hits[i] + self.bump(i)
        return x

    def t_call_then_load(self, i: int) -> int:
        x = self.bump(i) + self.hits[i]
        return x

    def t_aug_item(self, i: int) -> int:
        self.hits[i] += self.bump(i)
        return self.hits[i]

    def t_aug_attr(self, i: int) -> int:
        self.total -= self.bump(i)
        return self.total

    def t_set_idx_call(self, i: int) -> int:
        self.hits[self.bump(i) % 2] = self.bump(i) + 10
        return self.hits[0] * 100 + self.hits[i]

    def t_two_calls(self, i: int, j: int) -> int:
        x = self.bump(i) * 10 + self.bump(j)
        return x

    def t_cond_call(self, i: int, j: int) -> int:
        if self.bump(i) == self.bump(j):
            return 1
        return self.hits[i] + 2

    def t_loop(self, n: int) -> int:
        acc = 0
        for k in range(n):
            acc += self.bump(k) * (k + 1)
        return acc + self.total

    def t_copy(self, i: int) -> int:
        c = deepcopy(self)
        c.bump(i)
        c.bump(i)
        return c.hits[i] * 10 + self.hits[i]

    def t_ret_in_loop(self, n: int) -> int:
        for k in range(n):
            if self.bump(k) > 1:
                return k
        return n + 100

    def groups(self) -> List[List[int]]:
        result: List[List[int]] = [[] for i in range(len(self.items))]
        for i in range(len(self.items)):
            result[self.chase(i)].append(i)
        return [g for g in result if g]

    def variants(self) -> List["Bag"]:
        def _go(b: "Bag", todo: List[int], last: Optional[int], prev: Optional[int]) -> List["Bag"]:
            if not todo:
                if last is None or prev is None:
                    return []
                return [b]
            c1 = deepcopy(b)
            if last is not None:
                c1.link(last, todo[0])
                r1 = _go(c1, todo[1:], last, prev)
            elif prev is None or todo[0] < prev:
                r1 = _go(c1, todo[1:], todo[0], prev)
            else:
                r1 = []
            c2 = deepcopy(b)
            if prev is not None:
                c2.bump(todo[0])
                r2 = _go(c2, todo[1:], last, todo[0])
            elif last is None or todo[0] > last:
                r2 = _go(c2, todo[1:], last, todo[0])
            else:
                r2 = []
            return r2 + r1

        return _go(b=self, todo=list(set(self.chase(i) for i in range(len(self.items)))), last=None, prev=None)

    def evens(self) -> List[int]:
        ys = [x * 2 for x in list(set(self.chase(i) for i in range(len(self.items)))) if x % 2 == 0]
        return ys[1:]
