import random, sys
import os; from pathlib import Path as _P; sys.path.insert(0, str(_P(__file__).resolve().parent))
from run_diff import *
src = open(str(_P(__file__).resolve().parent / "feat_cls.py")).read(); mod = load(str(_P(__file__).resolve().parent / "feat_cls.py"))
spec = T.ModuleSpec(prop="X", source="x.py", namespace="SR.Gen.RvCls", functions=["helper","Acc.__init__","Acc.get","Acc.row"], defs_file="x", equiv_file="x", proofs_module="x", equiv={}, property_modules=[], refute={}, int_ty=T.INT, elem_lt=False)
body, sigs = T.translate_source(src, spec)
lines = ["import SRVerif.Model.PyRt"] + PRE + ["namespace SR.Gen.RvCls","set_option linter.unusedVariables false", body, "end SR.Gen.RvCls", "open SR.Gen.RvCls"]
random.seed(int(sys.argv[1]) if len(sys.argv)>1 else 0)
exp=[]
def ex(f):
    try: return S(f())
    except (IndexError, ValueError, AssertionError, TypeError) as e: return "ERR "+type(e).__name__
for _ in range(80):
    data=[random.randrange(-3,5) for _ in range(random.randrange(0,5))]; k=random.randrange(-1,4)
    i,j=random.randrange(-6,6),random.randrange(-6,6)
    def mk(): return mod.Acc(list(data),k)
    exp.append(ex(lambda: mk().get(i,j)))
    lines.append(f"#eval IO.println (showE (match Acc.__init__ {L(data)} ({k}) with | .error e => .error e | .ok s => Acc.get s ({i}) ({j})))")
    exp.append(ex(lambda: mk().row(i,j)))
    lines.append(f"#eval IO.println (showE (match Acc.__init__ {L(data)} ({k}) with | .error e => .error e | .ok s => Acc.row s ({i}) ({j})))")
p = ROOT/"lean"/".lake"/"rv_cls.lean"; p.write_text("\n".join(lines)+"\n")
r = subprocess.run(["lake","env","lean",str(p)], cwd=ROOT/"lean", capture_output=True, text=True)
got=[l for l in r.stdout.splitlines() if l]
bad=0
for e,g in zip(exp,got):
    if e!=g: bad+=1; print("DIFF",e,g)
print(len(exp),len(got),"bad",bad, r.stdout[-600:] if len(exp)!=len(got) else "")
