import sys, random, subprocess, importlib.util, itertools
from pathlib import Path
import os
ROOT = Path(os.environ.get("VERIF_ROOT", "/verif"))
sys.path.insert(0, str(ROOT))
from harness import translate_py as T

def load(path):
    sp = importlib.util.spec_from_file_location("m_"+Path(path).stem, str(path)); m = importlib.util.module_from_spec(sp); sp.loader.exec_module(m); return m

def L(v, ity="Int"):
    if v is None: return "none"
    if isinstance(v,bool): return str(v).lower()
    if isinstance(v,int): return f"({v} : {ity})"
    if isinstance(v,list): return "[" + ", ".join(L(x, ity) for x in v) + "]"
def S(v):
    if v is None: return "none"
    if isinstance(v,bool): return str(v).lower()
    if isinstance(v,int): return str(v)
    if isinstance(v,list): return "[" + ",".join(S(x) for x in v) + "]"

PRE = ["open SR",
 "class Sh (α : Type) where sh : α → String",
 "instance : Sh Int := ⟨toString⟩", "instance : Sh Nat := ⟨toString⟩", "instance : Sh Bool := ⟨toString⟩",
 "instance {α} [Sh α] : Sh (Option α) := ⟨fun | none => \"none\" | some v => Sh.sh v⟩",
 "instance {α} [Sh α] : Sh (List α) := ⟨fun l => \"[\" ++ \",\".intercalate (l.map Sh.sh) ++ \"]\"⟩",
 "def showE {α} [Sh α] : Except Py.Err α → String | .ok v => Sh.sh v | .error e => \"ERR \" ++ (toString (repr e)).replace \"SR.Py.Err.\" \"\""]

def run(srcpath, groups, gens, int_ty, elem_lt, tag, n=60, seed=0, show=False):
    src = open(srcpath).read(); mod = load(srcpath)
    random.seed(seed)
    ity = "Int" if int_ty == T.INT else "Nat"
    lines = ["import SRVerif.Model.PyRt"]; exp = []
    for gi, fnames in enumerate(groups):
        ns = f"SR.Gen.Rv{tag}{gi}"
        spec = T.ModuleSpec(prop="X", source="x.py", namespace=ns, functions=fnames, defs_file="x", equiv_file="x", proofs_module="x", equiv={}, property_modules=[], refute={}, int_ty=int_ty, elem_lt=elem_lt)
        try:
            body, sigs = T.translate_source(src, spec)
        except T.Unsupported as e:
            print("REJECTED", fnames, "::", e); continue
        if show: print(body)
        lines += [f"namespace {ns}", "open SR", "set_option linter.unusedVariables false", body, f"end {ns}"]
        f = fnames[-1]
        for _ in range(n):
            args = gens[f]()
            try: e = S(getattr(mod,f)(*[list(a) if isinstance(a,list) else a for a in args]))
            except (IndexError, ValueError, AssertionError, ZeroDivisionError, TypeError) as ex: e = "ERR " + type(ex).__name__
            exp.append((f,args,e))
            lt = " (fun a b => .ok (decide (a < b)))" if (elem_lt and sigs[f]["elem"]) else ""
            lines.append(f"#eval IO.println (showE ({ns}.{f}{lt} " + " ".join(L(a, ity) for a in args) + "))")
    lines = lines[:1] + PRE + lines[1:]
    p = ROOT / "lean" / ".lake" / f"rv_{tag}.lean"
    p.write_text("\n".join(lines)+"\n")
    r = subprocess.run(["lake","env","lean",str(p)], cwd=ROOT / "lean", capture_output=True, text=True)
    got = [l for l in r.stdout.splitlines()]
    errs = [l for l in got if "error" in l]
    got = [l for l in got if l and not l.startswith(str(p)) and not l.startswith("Note:")]
    bad = 0
    if len(got) != len(exp): print("LENGTH MISMATCH", len(got), len(exp)); print(r.stdout[-3000:], r.stderr[-2000:])
    for (f,a,e), g in zip(exp, got):
        if e != g:
            bad += 1
            if bad < 25: print("DIFF", f, a, "python:", e, "lean:", g)
    print(tag, "cases", len(exp), "bad", bad)
