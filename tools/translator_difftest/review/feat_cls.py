"""class features"""
from typing import Generic, List, Optional, Sequence, TypeVar

Element = TypeVar("Element")


def helper(a: int):
    return a * 2 - 1


class Acc(Generic[Element]):
    """doc"""

    def __init__(self, data: Sequence[int], k: int):
        n = len(data)
        self.total = 0
        self.pref: List[int] = [k - k] * (n + 1)
        self.k = helper(k)
        for i, x in enumerate(data):
            self.total = self.total + x
            self.pref[i + 1] = self.pref[i] + x
        self.rows = [[k - k] * n for _ in range(k)]
        for r in range(k):
            for c in range(n):
                self.rows[r][c] = self.pref[c] * r - self.k
        self.last = None
        if n > 0:
            self.last = data[-1]

    def get(self, i: int, j: int):
        if i >= j:
            return None
        t = list(self.pref)
        t[0] = 99
        return self.pref[j] - self.pref[i] + self.total * 1000 + t[0] - t[0]

    def row(self, r: int, c: int):
        v = self.rows[r][c]
        w = self.last
        if r > c:
            return v
        assert w is not None
        return v + w + self.k
