import random, sys, subprocess, importlib.util
from copy import deepcopy
from pathlib import Path
import os
ROOT = Path(os.environ.get("VERIF_ROOT", "/verif")); sys.path.insert(0, str(ROOT)); HERE = Path(__file__).resolve().parent
from harness import translate_py as T
src = open(HERE/"bag.py").read()
sp = importlib.util.spec_from_file_location("bag", str(HERE/"bag.py")); bag = importlib.util.module_from_spec(sp); sp.loader.exec_module(bag)
base = ["Bag.__init__", "Bag.bump", "Bag.chase", "Bag.link", "Bag.size"]
tests = ["t_load_then_call","t_call_then_load","t_aug_item","t_aug_attr","t_set_idx_call","t_two_calls","t_cond_call","t_loop","t_copy","t_ret_in_loop","groups"]
import ast, re
def only(names):
    """source with only the listed methods kept"""
    tree = ast.parse(src)
    cls = [n for n in tree.body if isinstance(n, ast.ClassDef)][0]
    cls.body = [b for b in cls.body if not isinstance(b, ast.FunctionDef) or ("Bag."+b.name) in names]
    return ast.unparse(tree)
random.seed(int(sys.argv[1]) if len(sys.argv)>1 else 0)
def S(v):
    if isinstance(v,bool): return str(v).lower()
    if isinstance(v,list): return "["+", ".join(S(x) for x in v)+"]"
    return str(v)
for tname in tests:
    fns = base + ["Bag."+tname]
    spec = T.ModuleSpec(prop="X", source="bag.py", namespace="SR.Gen.RvBag", functions=fns, defs_file="x", equiv_file="x", proofs_module="x", equiv={}, property_modules=[], refute={},
        param_types={"Bag.__init__": {"count": "int"}}, fuel={"Bag.chase": "len(self.items) + 1"})
    try:
        body, sigs = T.translate_source(only(fns), spec)
    except T.Unsupported as e:
        print("REJECTED", tname, "::", e); continue
    sig = sigs["Bag."+tname]
    mut = sig.get("mut")
    nargs = len(sig["params"]) - 1
    lines = ["import SRVerif.Model.PyRt", "namespace SR.Gen.RvBag", "open SR", "set_option linter.unusedVariables false", body, "end SR.Gen.RvBag", "open SR SR.Gen.RvBag",
      "def stB (d : Bag) : String := s!\"{d.items} {d.hits} {d.total}\"",
      "def err (e : Py.Err) : String := \"ERR \" ++ (toString (repr e)).replace \"SR.Py.Err.\" \"\""]
    exp = []
    for _ in range(40):
        n = random.choice([1,2,3,4,5])
        d = bag.Bag(n)
        pre = []
        for _ in range(random.randrange(0,4)):
            a,b = random.randrange(n), random.randrange(n); d.link(a,b); pre.append((a,b))
        args = [random.randrange(0, n+1) for _ in range(nargs)]
        try:
            r = getattr(d, tname)(*args); e = f"{S(r)} | {d.items} {d.hits} {d.total}"
        except IndexError: e = "ERR IndexError"
        exp.append((n,pre,args,e))
        chain = f"Bag.__init__ {n}"
        prog = f"match Bag.__init__ {n} with | .error e => err e | .ok d0 => "
        cur = "d0"
        for k,(a,b) in enumerate(pre):
            prog += f"match Bag.link {cur} {a} {b} with | .error e => err e | .ok (d{k+1}, _) => "; cur = f"d{k+1}"
        argt = " ".join(str(a) for a in args)
        if mut:
            prog += f"match Bag.{tname} {cur} {argt} with | .error e => err e | .ok (d, r) => s!\"{{r}} | {{stB d}}\""
        else:
            prog += f"match Bag.{tname} {cur} {argt} with | .error e => err e | .ok r => s!\"{{r}} | {{stB {cur}}}\""
        lines.append(f"#eval IO.println ({prog})")
    p = ROOT/"lean"/".lake"/"rv_bag.lean"; p.write_text("\n".join(lines)+"\n")
    r = subprocess.run(["lake","env","lean",str(p)], cwd=ROOT/"lean", capture_output=True, text=True)
    got = [l for l in r.stdout.splitlines() if l and not l.startswith(str(p)) and not l.startswith("Note:")]
    bad = 0
    if len(got) != len(exp): print("LEN", len(got), len(exp), r.stdout[-1500:])
    for (n,pre,args,e), g in zip(exp, got):
        if e != g:
            bad += 1
            if bad < 4: print("DIFF", tname, n, pre, args, "python:", e, "lean:", g)
    print(tname, "mut" if mut else "pure", "cases", len(exp), "bad", bad)
