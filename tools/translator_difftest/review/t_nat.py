import random, sys
import os; from pathlib import Path as _P; sys.path.insert(0, str(_P(__file__).resolve().parent))
from run_diff import *
r = lambda lo=0, hi=9: random.randrange(lo, hi)
def rl(lo=0, hi=4): return [ r(lo,hi) for _ in range(random.randrange(0,5))]
gens = {"w1": lambda:(r(0,300), r(0,9)), "w2": lambda:(r(0,300),), "w3": lambda:(r(0,300), r(0,12)), "idx": lambda:(rl(), r(0,4), r(0,4)),
 "eqs": lambda:(rl(), rl(), r(0,4)), "bits": lambda:(r(0,40), r(0,40)), "sub": lambda:(r(),r()), "callf": lambda:(rl(), r(0,4), r(0,4), r()),
 "annot": lambda:(r(),), "asrt": lambda:(r(0,4), r(0,4))}
groups = [[k] for k in gens if k != "callf"] + [["idx","sub","callf"]]
run(str(_P(__file__).resolve().parent / "feat_nat.py"), groups, gens, T.NAT, False, "nat", seed=int(sys.argv[1]) if len(sys.argv)>1 else 0)
