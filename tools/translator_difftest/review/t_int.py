import random, sys
import os; from pathlib import Path as _P; sys.path.insert(0, str(_P(__file__).resolve().parent))
from run_diff import *
r = lambda lo=-4, hi=6: random.randrange(lo, hi)
def rl(opt=False, lo=-4, hi=6): return [ (None if opt and random.random()<.3 else r(lo,hi)) for _ in range(random.randrange(0,5))]
gens = {"fdm": lambda:(r(-20,20),), "shr": lambda:(r(-20,20),), "sc2": lambda:(r(),r()), "aug": lambda:(r(),r()),
 "truth": lambda:(rl(), r(-1,2)), "partial_if": lambda:(r(),r()), "nested": lambda:(rl(lo=-2,hi=7), r(0,6)), "cont_state": lambda:(rl(lo=-9,hi=9),),
 "whl": lambda:(r(),r()), "setneg": lambda:(rl(), r(-5,5), r(-5,5)), "comp": lambda:(rl(), r()), "comp2": lambda:(rl(), r()), "mixed": lambda:(rl(), r()),
 "widen": lambda:(r(),), "narrow2": lambda:(rl(True), r(-5,5)), "eqnone": lambda:(rl(True), r(-5,5)), "order": lambda:(rl(), r(-5,5), r(0,5)),
 "rng2": lambda:(r(),r()), "dupfall": lambda:(rl(), r(-5,5)), "retnone": lambda:(r(),), "boolstate": lambda:(rl(), random.random()<.5), "repl": lambda:(r(-1,4), r(-1,4)),
 "optstate": lambda:(rl(),)}
run(str(_P(__file__).resolve().parent / "feat_int.py"), [[k] for k in gens], gens, T.INT, False, "int", seed=int(sys.argv[1]) if len(sys.argv)>1 else 0)
