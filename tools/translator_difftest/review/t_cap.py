import random, sys
import os; from pathlib import Path as _P; sys.path.insert(0, str(_P(__file__).resolve().parent))
from run_diff import *
r = lambda lo=-4, hi=6: random.randrange(lo, hi)
def rl(opt=False, lo=-4, hi=6): return [ (None if opt and random.random()<.3 else r(lo,hi)) for _ in range(random.randrange(0,5))]
gens = {"cap_none": lambda:(rl(True), r(-3,3)), "cap_true": lambda:(r(0,3),r(0,3)), "cap_false": lambda:(r(0,3),r(0,3)), "cap_some": lambda:(rl(True), r()),
"cap_list": lambda:(rl(),), "cap_id": lambda:(r(),), "cap_nil": lambda:(rl(),), "cap_zero": lambda:(rl(),), "cap_succ": lambda:(r(),), "cap_ok": lambda:(rl(), r(-2,3)), "cap_x": lambda:(rl(), r()), "cap_opt": lambda:(rl(True),)}
import run_diff
for k in gens:
    print("==", k)
    run(str(_P(__file__).resolve().parent / "feat_cap.py"), [[k]], gens, T.INT, False, "cap", n=25, seed=1)
