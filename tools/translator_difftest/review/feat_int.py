"""Reviewer feature module (Int-typed ints)."""
from typing import List, Optional, Sequence, TypeVar

Element = TypeVar("Element")


def fdm(a: int):
    return [a // 3, a % 3, a // 1, a % 7, (-a) // 2, (-a) % 2, a // 3 * 3 + a % 3]


def shr(a: int):
    return [(-a) >> 1, a >> 0, a >> 3, (a - 7) >> 2, (a - 7) << 2]


def sc2(a: int, b: int):
    x = a > 0 and b > 0 or a < -3
    y = not (a > 0 or b > 0) and a != b
    if x and not y or a == 2:
        return 1
    if a and b:
        return 2
    if not a or not b:
        return 3
    return 4


def aug(a: int, b: int):
    x = a
    x -= x * 2
    x *= b + 3
    x -= 1 - b
    y = 10
    y //= 3
    y <<= 2
    y %= 5
    y **= 3
    y |= 8
    y ^= 5
    y &= 14
    return x * 100 + y


def truth(xs: Sequence[int], n: int):
    r = 0
    if xs:
        r += 1
    if not xs:
        r += 2
    if n:
        r += 4
    if not n:
        r += 8
    if bool(xs) and bool(n):
        r += 16
    b = bool(n)
    if b:
        r += 32
    c = not xs
    if c:
        r += 64
    return r


def partial_if(a: int, b: int):
    x = 1
    y = 2
    if a > 0:
        x = 10
        if b > 0:
            y = 20
        elif b < -2:
            y = 30
            x = x + 1
    elif a < -2:
        y = x + 5
    else:
        x, y = y, x
    return x * 1000 + y


def nested(xs: Sequence[int], lim: int):
    total = 0
    count = 0
    for i, x in enumerate(xs):
        if x < 0:
            continue
        for j in range(x):
            if j > lim:
                break
            if j == 3 and i == 2:
                return -100 - total
            total += j
            count += 1
        if total > 20:
            break
        total += 1000
    return total * 100 + count


def cont_state(xs: Sequence[int]):
    acc = 0
    k = 0
    for x in xs:
        k += 1
        if x % 2 == 0:
            acc += k
            continue
        acc -= x
        if acc < -5:
            acc = 0
            continue
        k += 10
    return acc * 1000 + k


def whl(n: int, m: int):
    x = max(n, 0)
    y = x.bit_length()
    z = 0
    c = 0
    return y + z + c


def setneg(xs: Sequence[int], i: int, j: int):
    ys = list(xs)
    ys[i] = ys[j] + 1
    ys[j] = ys[i] * 2
    ys[-1] = ys[0] - ys[-1]
    return ys


def comp(xs: Sequence[int], n: int):
    a = [i + x for i, x in enumerate(xs)]
    b = [0 for _ in range(n)]
    c = [k * k for k in range(2, n)]
    d = [n - y for y in a]
    return [len(a), len(b), len(c)] + []  # expect reject: list concatenation


def comp2(xs: Sequence[int], n: int):
    a = [i + x for i, x in enumerate(xs)]
    b = [0 for _ in range(n)]
    c = [k * k for k in range(2, n)]
    d = [n - y for y in a]
    out = []
    for v in a:
        out.append(v)
    for v2 in b:
        out.append(v2)
    for v3 in c:
        out.append(v3)
    for v4 in d:
        out.append(v4)
    return out


def mixed(xs: Sequence[int], a: int):
    m = min(len(xs), a)
    M = max(len(xs), a)
    p = (-2) ** len(xs)
    q = a ** 2
    return [m, M, p, q, len(xs) - 1, -len(xs)]


def widen(a: int):
    x = 1
    x = x - 5
    y = 3
    if a > 0:
        y = -a
    return x * y


def narrow2(xs: Sequence[Optional[int]], i: int):
    x = xs[i]
    assert x is not None
    z = x + 1
    x = None
    if x is None:
        return z
    return -7


def eqnone(xs: Sequence[Optional[int]], i: int):
    x = xs[i]
    if x == None:
        return 0
    if x != None:
        return 1
    return 2


def order(xs: Sequence[int], i: int, j: int):
    return xs[i] + (2 ** j) + xs[j]


def rng2(a: int, b: int):
    out = []
    for i in range(3, b):
        out.append(i)
    for j in range(a):
        for k in range(j, a):
            out.append(j * 10 + k)
    return out


def dupfall(xs: Sequence[int], i: int):
    r = 0
    if i > 0:
        r = xs[i]
    else:
        r = r + 5
    r = r * 2
    if i > 1:
        r = r + xs[i - 2]
    return r


def retnone(a: int):
    if a > 2:
        return None
    if a > 0:
        return a
    return -a - 1


def boolstate(xs: Sequence[int], edges: bool):
    seen = not edges
    n = 0
    for x in xs:
        if x > 0:
            if not seen:
                n += 1
                seen = True
        elif seen:
            seen = False
    if seen and not edges:
        n -= 1
    return n


def repl(n: int, m: int):
    a = [n] * m
    b = m * [n + 1]
    c = [[0] * n for _ in range(m)]
    return [len(a), len(b), len(c)]


def optstate(xs: Sequence[int]):
    best = None
    for x in xs:
        if best is None:
            best = x
    return best
