"""Reviewer feature module (Nat-typed ints, DecidableEq elements)."""
from typing import List, Optional, Sequence, TypeVar

Element = TypeVar("Element")


def w1(child: int, k: int):
    n = 0
    acc = 0
    while child:
        if child & 1:
            acc += n
        if n == k:
            break
        child >>= 1
        n += 1
    return acc * 100 + n + child


def w2(x: int):
    c = 0
    while x > 0:
        x //= 3
        c += 1
    y = x + 17
    while y != 0:
        c += 100
        y = y >> 2
    return c


def w3(x: int, lim: int):
    c = 0
    while x:
        c += 1
        if c > lim:
            return c + 1000
        x >>= 1
        for i in range(x & 3):
            c += i
    return c


def idx(xs: Sequence[Element], v: Element, w: Element):
    a = xs.index(v)
    b = xs.index(w)
    return a * 10 + b


def eqs(xs: Sequence[Element], ys: Sequence[Element], v: Element):
    r = 0
    if xs == ys:
        r += 1
    if xs != ys:
        r += 2
    if len(xs) > 0:
        if xs[0] == v:
            r += 4
        if xs[len(xs) - 1] != v:
            r += 8
    return r


def bits(a: int, b: int):
    return [a & b, a | b, a ^ b, a << (b % 4), a >> (b % 4), a % 3, a // 3, a ** (b % 3), (a + b).bit_length(), min(a, b), max(a, b)]


def sub(a: int, b: int):
    d = a - b
    if d < 0:
        return -d
    return d + 100


def callf(xs: Sequence[Element], v: Element, w: Element, a: int):
    r = idx(xs, v, w) + sub(a, 3)
    return r


def annot(a: int):
    x: int = a + 1
    y: int = 0
    y = x - 3
    return y


def asrt(a: int, b: int):
    assert a > b, "msg"
    assert a
    return a - b
