"""Identifier capture."""
from typing import List, Optional, Sequence, TypeVar

Element = TypeVar("Element")


def cap_none(xs: Sequence[Optional[int]], i: int):
    none = xs[i]
    if i > 0:
        return None
    return none


def cap_true(a: int, b: int):
    true = a < b
    if a == 0:
        return True
    return true


def cap_false(a: int, b: int):
    false = a < b
    x = False
    return x or false


def cap_some(xs: Sequence[Optional[int]], a: int):
    some = a
    r = None
    if a > 0:
        r = a
    return r


def cap_list(xs: Sequence[int]):
    List = 3
    out = [x + List for x in xs]
    return out


def cap_id(a: int):
    decide = a
    b = decide > 2
    return b


def cap_nil(xs: Sequence[int]):
    nil = 0
    for x in xs:
        nil += x
    return nil


def cap_zero(xs: Sequence[int]):
    zero = 5
    for x in xs:
        zero += x
    return zero


def cap_succ(n: int):
    succ = 5
    for x in range(n):
        succ += x
    return succ


def cap_ok(xs: Sequence[int], i: int):
    ok = xs[i]
    error = xs[i] + 1
    return ok + error


def cap_x(xs: Sequence[int], i: int):
    length = 3
    map = 2
    return length + map + len(xs)


def cap_opt(xs: Sequence[Optional[int]]):
    none = 0
    best = None
    for x in xs:
        if best is None:
            best = x
            none += 1
    return best
