"""Differential test of the translator on utils/range_min_query.py: the functions GENERATED from the source
(lean/SRVerif/Generated/RmqPy.lean, evaluated by `#eval`) against the running Python code, on random arrays and on
(start, stop) pairs that include negative and out-of-range bounds (tables, answers, exception classes).
usage (from the verif root, after a build):  /venv/bin/python tools/translator_difftest/rmq.py [seed]"""
import os, random, subprocess, sys
from pathlib import Path
ROOT = Path(__file__).resolve().parents[2]
sys.path.insert(0, os.path.join(os.environ.get("SUPERREC2_REPO", "/repo"), "src"))
from superrec2.utils.range_min_query import RangeMinQuery, _ilog2
random.seed(int(sys.argv[1]) if len(sys.argv) > 1 else 1)
cases=[]
for _ in range(60):
    n=random.choice([0,1,2,3,4,5,6,7,8,9,13,16,17])
    data=[random.randrange(5) for _ in range(n)]
    qs=[(random.randrange(-n-3,n+4), random.randrange(-n-3,n+4)) for _ in range(12)]
    cases.append((data,qs))
def show(v):
    return "none" if v is None else f"(some {v})"
exp=[]
lines=["import SRVerif.Generated.RmqPy","open SR SR.Gen.Rmq",
 "def ltN : Nat → Nat → Except Py.Err Bool := fun a b => .ok (decide (a < b))",
 "def showR : Except Py.Err (Option Nat) → String | .ok none => \"none\" | .ok (some v) => s!\"(some {v})\" | .error e => s!\"ERR {repr e}\"",
 "def showT : Except Py.Err (RangeMinQuery Nat) → String | .ok s => \"[\" ++ \",\".intercalate (s.sparse_table.map fun row => \"[\" ++ \",\".intercalate (row.map fun | none => \"none\" | some v => toString v) ++ \"]\") ++ \"]\" | .error e => s!\"ERR {repr e}\""]
for data,qs in cases:
    try:
        r=RangeMinQuery(data); exp.append(str([[x for x in row] for row in r.sparse_table]).replace("None","none").replace(" ",""))
    except Exception as e:
        r=None; exp.append("ERR SR.Py.Err."+type(e).__name__)
    lines.append(f"#eval IO.println (showT (RangeMinQuery.__init__ ltN {data}))")
    if r is None: continue
    for a,b in qs:
        try: exp.append(show(r(a,b)))
        except Exception as e: exp.append("ERR SR.Py.Err."+type(e).__name__)
        lines.append(f"#eval IO.println (showR (match RangeMinQuery.__init__ ltN {data} with | .error e => .error e | .ok s => RangeMinQuery.__call__ ltN s ({a}) ({b})))")
for v in range(-20,40):
    exp.append(str(_ilog2(v))); lines.append(f"#eval IO.println (match _ilog2 ({v}) with | .ok v => toString v | .error _ => \"ERR\")")
open(ROOT / "lean" / ".lake" / "difftest_rmq.lean","w").write("\n".join(lines)+"\n")
p=subprocess.run(["lake","env","lean",str(ROOT / "lean" / ".lake" / "difftest_rmq.lean")],cwd=ROOT / "lean",capture_output=True,text=True)
got=p.stdout.strip().splitlines()
exp=[e.replace("(some","(some").replace("none","none") for e in exp]
bad=0
import re
for i,(g,e) in enumerate(zip(got,exp)):
    g2=g.replace("(","").replace(")","") if g.startswith("[") else g
    e2=e
    if g2!=e2:
        bad+=1
        if bad<10: print("DIFF",i,repr(g2),repr(e2))
print(len(got),len(exp),"bad",bad, p.stderr[-500:])
sys.exit(1 if bad or len(got)!=len(exp) else 0)
