"""Literal re-run of Review E's area-5 witnesses: <id>.py is translated by the translator of VERIF_ROOT; if it is
accepted, the `#eval` harness of the recorded <id>.lean (everything after `end SR.Gen.*`) is run on the NEW
translation and compared with the `python:` lines of <id>.out.txt."""
import ast, os, re, subprocess, sys, time
from pathlib import Path
ROOT = Path(os.environ.get("VERIF_ROOT", "/verif")); sys.path.insert(0, str(ROOT))
from harness import translate_py as T
W = Path(sys.argv[1] if len(sys.argv) > 1 else "/verif/incoming/ReviewE/area5_translator/witness")
res = []
for py in sorted(W.glob("*.py")):
    name = py.stem
    if name.startswith("M7"):
        continue
    t0 = time.time()
    src = py.read_text(); lean = (W / f"{name}.lean").read_text(); out = (W / f"{name}.out.txt").read_text()
    ns = re.search(r"^namespace (\S+)", lean, re.M).group(1)
    tree = ast.parse(src)
    fns = [st.name for st in tree.body if isinstance(st, ast.FunctionDef)]
    for st in tree.body:
        if isinstance(st, ast.ClassDef):
            fns += [f"{st.name}.{m.name}" for m in st.body if isinstance(m, ast.FunctionDef)]
    kw = {}
    if "class Box" in src:
        kw = dict(param_types={"Box.__init__": {"count": "int"}}, fuel={"Box.chase": "len(self.items) + 1"})
    spec = T.ModuleSpec(prop="X", source=py.name, namespace=ns, functions=fns, defs_file="x", equiv_file="x",
                        proofs_module="x", equiv={}, property_modules=[], refute={}, **kw)
    try:
        body, sigs = T.translate_source(src, spec)
    except T.Unsupported as e:
        res.append((name, "REJECTED", str(e), time.time() - t0)); continue
    tail = lean.split(f"end {ns}\n", 1)[1]
    text = "\n".join(["import SRVerif.Model.PyRt", f"namespace {ns}", "open SR",
                      "set_option linter.unusedVariables false", body, f"end {ns}", tail])
    p = ROOT / "lean" / ".lake" / f"wit_{name}.lean"; p.write_text(text)
    r = subprocess.run(["lake", "env", "lean", str(p)], cwd=ROOT / "lean", capture_output=True, text=True)
    got = [l.strip() for l in r.stdout.splitlines() if l.strip()]
    exp = [l.split("python:", 1)[1].strip() for l in out.splitlines() if l.strip().startswith("python:")]
    if r.returncode != 0 or "error" in r.stdout:
        res.append((name, "LEAN-ERROR", r.stdout[-400:], time.time() - t0))
    elif got == exp:
        res.append((name, "FAITHFUL", f"{len(exp)} answers equal to Python's", time.time() - t0))
    else:
        res.append((name, "UNFAITHFUL", f"python {exp} lean {got}", time.time() - t0))
for n, v, why, dt in res:
    print(f"{n:45s} {v:10s} {dt:5.1f}s  {why[:170]}")
sys.exit(any(v in ("UNFAITHFUL",) for _, v, _, _ in res))
