#!/bin/sh
# harmless variants against the private copy, on a scratch clone of /repo
V=/tmp/w/TransFix; R=/tmp/w/TransFix_repo
cd $V
for h in HF-1 HF-2 HF-3 HF-4 C20-rank-compare C17-rename-locals C18-rewrite-augassign; do
  git -C $R checkout -q -- . ; git -C $R apply /verif/harmless/$h/patch.diff || { echo "$h: patch does not apply"; continue; }
  if [ -f /verif/harmless/$h/checks ]; then ids=$(cat /verif/harmless/$h/checks); else ids=${h%%-*}; fi
  for id in $ids; do
    s=$(date +%s)
    out=$(SUPERREC2_REPO=$R ./check $id 2>&1 | grep -E "^VIOLATION|^OK|INFRA|^KNOWN" | tail -1 | cut -c1-150)
    tie=$(grep -o '"translator_tie": "[^"]*"' evidence/$id.json | cut -c1-150)
    echo "$h / $id ($(( $(date +%s) - s ))s): $out"; echo "      $tie"
  done
done
git -C $R checkout -q -- .
rm -f $V/replays/*.json
