"""Apply an edit to disjoint_set.py in the scratch repo, run ./check C20 under seeds, report verdict + tie."""
import subprocess, sys, json, os, re, shutil
from pathlib import Path
REPO = Path("/tmp/w/TransFix_repo"); F = REPO / "src/superrec2/utils/disjoint_set.py"
ORIG = Path("/repo/src/superrec2/utils/disjoint_set.py").read_text()
V = Path(__import__("os").environ.get("VERIF_ROOT", "/verif"))
def sub(old, new, count=1):
    def f(s):
        assert old in s, old
        return s.replace(old, new, count)
    return f
def chain(*fs):
    def f(s):
        for g in fs: s = g(s)
        return s
    return f
FIND_BODY = "        if self.parent[element] == element:\n            return element\n\n        self.parent[element] = self.find(self.parent[element])\n        return self.parent[element]"
def runv(name, edit, seeds=(0,), patch=None):
    if patch:
        F.write_text(ORIG)
        subprocess.run(["git", "-C", str(REPO), "checkout", "--", "."], capture_output=True)
        r = subprocess.run(["git", "-C", str(REPO), "apply", patch], capture_output=True, text=True)
        assert r.returncode == 0, r.stderr
    else:
        subprocess.run(["git", "-C", str(REPO), "checkout", "--", "."], capture_output=True)
        F.write_text(edit(ORIG))
    # sanity: differential vs original on public API handled by caller
    for seed in seeds:
        env = dict(os.environ, SUPERREC2_REPO=str(REPO), VERIF_SEED=str(seed))
        r = subprocess.run(["./check", "C20"], cwd=V, env=env, capture_output=True, text=True)
        line = [l for l in (r.stdout + r.stderr).splitlines() if re.match(r"^(OK|VIOLATION|INFRA|KNOWN)", l)]
        m = re.search(r'"translator_tie": "([^"]*)"', (V / "evidence/C20.json").read_text())
        tie = (m.group(1) if m else "?")[:260]
        print(f"{name} seed={seed} exit={r.returncode} :: {line[-1][:160] if line else (r.stdout+r.stderr)[-300:]}\n      tie: {tie}", flush=True)
    subprocess.run(["git", "-C", str(REPO), "checkout", "--", "."], capture_output=True)
    for p in (V / "replays").glob("*.json"): p.unlink()
if __name__ == "__main__":
    which = sys.argv[1]
    exec(open(which).read())
