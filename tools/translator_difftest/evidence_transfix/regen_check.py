"""The four generated module pairs, re-generated in memory by the translator of VERIF_ROOT, compared byte for byte
with lean/SRVerif/Generated/* as committed in /verif (git HEAD)."""
import os, sys, hashlib, subprocess
from pathlib import Path
ROOT = Path(os.environ.get("VERIF_ROOT", "/verif")); sys.path.insert(0, str(ROOT))
from harness import translate_py as T
from harness.common import REPO
bad = 0
for prop, spec in sorted(T.SPECS.items()):
    text = (Path(REPO) / spec.source).read_text(); sha = hashlib.sha256(text.encode()).hexdigest()
    body, sigs = T.translate_source(text, spec)
    for rel, new in ((spec.defs_file, T.defs_file_text(spec, sha, body)), (spec.equiv_file, T.equiv_file_text(spec, sha, sigs))):
        old = subprocess.run(["git", "-C", "/verif", "show", f"HEAD:lean/{rel}"], capture_output=True, text=True, check=True).stdout
        same = old == new
        bad += not same
        print(prop, rel, "byte-identical" if same else "DIFFERENT", hashlib.sha256(new.encode()).hexdigest()[:16])
sys.exit(bad)
