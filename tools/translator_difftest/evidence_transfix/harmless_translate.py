"""For each harmless variant: does each of the four sources still translate (old vs new translator)?"""
import subprocess, sys, importlib, os
from pathlib import Path
R = Path("/tmp/w/TransFix_repo2")
def load(root):
    for m in [m for m in sys.modules if m.startswith("harness")]: del sys.modules[m]
    sys.path.insert(0, root); import harness.translate_py as T; sys.path.pop(0); return T
Tn = load("/tmp/w/TransFix"); To = load("/tmp/w/TransFix_old")
for h in ["HF-1", "HF-2", "HF-3", "HF-4", "C20-rank-compare", "C17-rename-locals", "C18-rewrite-augassign"]:
    subprocess.run(["git", "-C", str(R), "checkout", "--", "."], check=True)
    subprocess.run(["git", "-C", str(R), "apply", f"/verif/harmless/{h}/patch.diff"], check=True)
    for prop in ["C17", "C18", "C19", "C20"]:
        out = []
        for T in (To, Tn):
            spec = T.SPECS[prop]; text = (R / spec.source).read_text()
            try:
                body, _ = T.translate_source(text, spec); out.append("translated")
            except T.Unsupported as e:
                out.append("REJECTED: " + str(e)[:110])
        print(f"{h:22s} {prop}  old: {out[0]:12s} new: {out[1]}")
subprocess.run(["git", "-C", str(R), "checkout", "--", "."], check=True)
