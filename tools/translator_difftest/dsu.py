"""Differential test of the translator on utils/disjoint_set.py: the functions GENERATED from the source
(lean/SRVerif/Generated/DsuPy.lean, evaluated by `#eval`) against the running Python class, on random histories of
`unite` / `find` / `len` / `to_list` / `binary` (elements out of range included: both sides must raise IndexError;
a history stops at its first exception, the object may then be half-updated in Python).  After every operation
the result AND the whole object (parent, rank, groups) are compared.  `binary()` is given, for `ord_`, the order
in which CPython iterates the set of representatives.
usage (from the verif root, after a build):  /venv/bin/python tools/translator_difftest/dsu.py [seed]"""
import os, random, subprocess, sys
from copy import deepcopy
from pathlib import Path
ROOT = Path(__file__).resolve().parents[2]
sys.path.insert(0, os.path.join(os.environ.get("SUPERREC2_REPO", "/repo"), "src"))
from superrec2.utils.disjoint_set import DisjointSet
random.seed(int(sys.argv[1]) if len(sys.argv) > 1 else 1)

def state(d):
    return f"{d.parent} {d.rank} {d.groups}"

histories, expected = [], []
for _ in range(120):
    n = random.choice([0, 1, 2, 3, 4, 5, 6, 8, 11])
    d = DisjointSet(n)
    ops, exp = [], [state(d)]
    for _ in range(random.randrange(0, 14)):
        kind = random.choice("uuuufflltb")
        hi = n + (1 if random.random() < 0.08 else 0)
        try:
            if kind == "u":
                a, b = random.randrange(0, hi + 1), random.randrange(0, hi + 1)
                op = f".u {a} {b}"
                r = str(d.unite(a, b)).lower()
            elif kind == "f":
                a = random.randrange(0, hi + 1)
                op = f".f {a}"
                r = str(d.find(a))
            elif kind == "l":
                op = ".l"
                r = str(len(d))
            elif kind == "t":
                op = ".tl"
                r = str(d.to_list())
            else:
                c = deepcopy(d)
                order = list(set(c.find(i) for i in range(n)))
                op = f".bin {order}"
                r = "[" + ", ".join(state(x) for x in d.binary()) + "]"
        except IndexError:
            ops.append(op)
            exp.append("ERR IndexError")
            break
        ops.append(op)
        exp.append(f"{r} | {state(d)}")
    histories.append((n, ops))
    expected += exp

lines = ["import SRVerif.Generated.DsuPy", "open SR SR.Gen.Dsu",
 "inductive Op | u (a b : Nat) | f (a : Nat) | l | tl | bin (ord : List Nat)",
 "def st (d : DisjointSet) : String := s!\"{d.parent} {d.rank} {d.groups}\"",
 "def err (e : Py.Err) : String := \"ERR \" ++ (toString (repr e)).replace \"SR.Py.Err.\" \"\"",
 "def step (d : DisjointSet) : Op → Except String (DisjointSet × String)",
 "  | .u a b => match DisjointSet.unite d a b with | .ok (d, r) => .ok (d, toString r) | .error e => .error (err e)",
 "  | .f a => match DisjointSet.find d a with | .ok (d, r) => .ok (d, toString r) | .error e => .error (err e)",
 "  | .l => match DisjointSet.__len__ d with | .ok r => .ok (d, toString r) | .error e => .error (err e)",
 "  | .tl => match DisjointSet.to_list d with | .ok (d, r) => .ok (d, toString r) | .error e => .error (err e)",
 "  | .bin o => match DisjointSet.binary (fun _ => o) d with | .ok (d, r) => .ok (d, \"[\" ++ \", \".intercalate (r.map st) ++ \"]\") | .error e => .error (err e)",
 "def run : DisjointSet → List Op → List String",
 "  | _, [] => []",
 "  | d, op :: ops => match step d op with | .ok (d, r) => s!\"{r} | {st d}\" :: run d ops | .error e => [e]",
 "def hist (n : Nat) (ops : List Op) : IO Unit :=",
 "  match DisjointSet.__init__ n with",
 "  | .ok d => do for s in st d :: run d ops do IO.println s",
 "  | .error e => IO.println (err e)"]
for n, ops in histories:
    lines.append(f"#eval hist {n} [{', '.join(ops)}]")
path = ROOT / "lean" / ".lake" / "difftest_dsu.lean"
path.write_text("\n".join(lines) + "\n")
p = subprocess.run(["lake", "env", "lean", str(path)], cwd=ROOT / "lean", capture_output=True, text=True)
got = p.stdout.strip().splitlines()
bad = 0
for i, (g, e) in enumerate(zip(got, expected)):
    if g != e:
        bad += 1
        if bad < 10:
            print("DIFF", i, "lean:", repr(g), "python:", repr(e))
print(len(got), len(expected), "bad", bad, (p.stderr or p.stdout)[-600:] if (bad or len(got) != len(expected)) else "")
sys.exit(1 if bad or len(got) != len(expected) else 0)
