#!/bin/sh
# Regenerate lean/SRVerif/Generated/* from /repo's current working tree (after a run against a seeded tree
# through SUPERREC2_REPO the generated files reflect that tree).
cd /verif && unset SUPERREC2_REPO && PYTHONPATH=/verif /venv/bin/python - <<'PY'
from harness import common
common.setup_repo_path()
for p in ("C11", "C12", "C15", "C17", "C18", "C19", "C20"):
    common.translate(p)
    common.translator_tie(p)
PY
git -C /verif status --short lean/SRVerif/Generated
