#!/usr/bin/env python3
"""Regenerate MANIFEST.json from the table below (kept valid at all times)."""
import json
from pathlib import Path

ROOT = Path(__file__).resolve().parent.parent
PROPS = [json.loads(l)["id"] for l in (ROOT / "properties.jsonl").read_text().splitlines() if l.strip()]

TRUST = ("Lean 4.33 kernel; axioms propext/Classical.choice/Quot.sound only (audited each run); hand-written "
         "model tied to /repo by an I/O-level correspondence check that runs the real code in-process and the "
         "compiled Lean model on the same generated inputs; ")

CLAIMED = {
    "C16": dict(
        text="Lean 4 proof, for every history of candidates, every batching and both merge policies, that the "
             "entry model's value is the optimum of everything offered and its tags are exactly (all) / one of "
             "(any) / none of (none) the tags of optimal candidates; combine() is the optimum over pairs of "
             "retained tags; an unwritten table cell reads as infinitely bad.  The model is tied to "
             "dynamic_programming.py by bounded-exhaustive and random differential runs; the property itself "
             "is also evaluated on the implementation's outputs.",
        design="7 C16", note=TRUST + "Entry.info()/__eq__ not modelled; tags assumed None or truthy.",
        technique="Lean 4 invariant proof over update histories + differential correspondence"),
}

PENDING = "check not built yet in this round (planned: Lean 4 model + proof + correspondence, see DESIGN.md section 7)"


def main():
    checks = []
    for pid in PROPS:
        if pid not in CLAIMED:
            continue
        c = CLAIMED[pid]
        checks.append({
            "property_id": pid,
            "quick_cmd": f"./check {pid} --tier quick",
            "thorough_cmd": f"./check {pid} --tier thorough",
            "evidence_file": f"/verif/evidence/{pid}.json",
            "replay_cmd_template": f"./check {pid} --replay {{path}}",
            "engine": "lean-proof+correspondence",
            "level_claimed": {"category": "proof", "text": c["text"], "design_ref": "DESIGN.md section " + c["design"]},
            "level_note": c["note"],
            "technique": c["technique"],
        })
    manifest = {
        "version": 1,
        "setup_cmd": "cd lean && lake build",
        "hooks": {
            "guard": "SUPERREC2_VERIF",
            "enable": "no source hooks: the harness replaces tqdm and tex.measure in-process; SUPERREC2_VERIF=1 is set by the harness but read by no code in /repo",
            "baseline_off_cmd": "cd /repo && /venv/bin/python -m pytest -ra -q -p no:cacheprovider --timeout=900 --continue-on-collection-errors",
            "source_commits": [],
            "add_only": True,
        },
        "engines": [{
            "name": "lean-proof+correspondence",
            "path": "lean/ (lake project SRVerif + driver), harness/ (Python correspondence and search)",
            "serves_properties": [c["property_id"] for c in checks],
            "kind_free_text": "Lean 4 theorems about hand-written executable models; compiled model driven by a JSON line protocol and compared with the real code in-process; generated Lean obligations for static data",
        }],
        "checks": checks,
        "notes": "Genuine defects of the pinned tree were repaired by separate 'fix:' commits in /repo; see known_findings.json and DESIGN.md section 9.",
        "not_applicable": [{"property_id": p, "reason": PENDING} for p in PROPS if p not in CLAIMED],
    }
    (ROOT / "MANIFEST.json").write_text(json.dumps(manifest, indent=1) + "\n")


if __name__ == "__main__":
    main()
