#!/usr/bin/env python3
"""Regenerate MANIFEST.json from the table below (kept valid at all times)."""
import json
from pathlib import Path

ROOT = Path(__file__).resolve().parent.parent
PROPS = [json.loads(l)["id"] for l in (ROOT / "properties.jsonl").read_text().splitlines() if l.strip()]

TRUST = ("Lean 4.33 kernel; axioms propext/Classical.choice/Quot.sound only (audited each run); hand-written "
         "model tied to /repo by an I/O-level correspondence check that runs the real code in-process and the "
         "compiled Lean model on the same generated inputs; ")

CLAIMED = {
    "C16": dict(
        text="Lean 4 proof, for every history of candidates, every batching and both merge policies, that the "
             "entry model's value is the optimum of everything offered and its tags are exactly (all) / one of "
             "(any) / none of (none) the tags of optimal candidates; combine() is the optimum over pairs of "
             "retained tags; an unwritten table cell reads as infinitely bad.  The model is tied to "
             "dynamic_programming.py by bounded-exhaustive and random differential runs; the property itself "
             "is also evaluated on the implementation's outputs.",
        design="7 C16", note=TRUST + "Entry.info()/__eq__ not modelled; tags assumed None or truthy.",
        technique="Lean 4 invariant proof over update histories + differential correspondence"),
}

SOLVER_NOTE = TRUST + ("species are root paths (justified by C17); the model stores decoded solutions per table cell "
    "instead of tags; cost vectors inside the coherent region (F-COHERENCE recorded in known_findings.json).")

CLAIMED.update({
    "C01": dict(
        text="Partial proof + exploration of the remainder. Proved in Lean for all inputs: reconcile_exhaustive / "
             "reconcile_thl return exactly the arg-minima (by the evaluator) of the enumerated / decoded candidates, "
             "duplicate-free; the coherence hypothesis is necessary (kernel-checked witness). The optimality of the "
             "table recurrence and the completeness of the enumerator are stated in Lean and currently decided by the "
             "correspondence: real solvers vs Lean model (same solution sets) vs Lean specification (minimum over all "
             "valid mappings; enumerator = filter of all mappings) on random and bounded-exhaustive inputs.",
        design="7 C01", note=SOLVER_NOTE, technique="Lean 4 model + partial proof; differential correspondence against model and brute-force spec"),
    "C02": dict(
        text="Partial proof + exploration. Proved: result = arg-min of the evaluated cost over decoded table solutions "
             "of all root orders, duplicate-free; empty when no root order exists. Optimality of the ordered label DP is "
             "stated in Lean and decided by correspondence against the Lean specification (minimum over all species "
             "mappings, root orders and subsequence labellings; LCA-restricted for the base solver).",
        design="7 C02", note=SOLVER_NOTE, technique="Lean 4 model + partial proof; differential correspondence against model and brute-force spec"),
    "C03": dict(
        text="Partial proof + exploration. Proved: result = arg-min of the evaluated cost over decoded table solutions. "
             "The full statement (optimal among ALL labellings between required and allowed content) is stated in Lean, "
             "not proved, and explored against the brute-force Lean specification over every such labelling.",
        design="7 C03", note=SOLVER_NOTE, technique="Lean 4 model + partial proof; differential correspondence against brute-force spec over all labellings"),
    "C04": dict(
        text="Partial proof + exploration. Proved: the LCA reconciliation is valid for every input; results of every "
             "solver are among its decoded candidates. Validity of every returned solution of all seven algorithms, "
             "both policies, including refinements of multifurcating inputs, is evaluated by the Lean specification "
             "Spec.validSol on the implementation's outputs.",
        design="7 C04", note=SOLVER_NOTE, technique="Lean 4 validity specification evaluated on real outputs + partial proof"),
    "C05": dict(
        text="Partial proof + exploration. Proved for the result entry shared by all solvers: exactly the arg-minima of "
             "the candidates, each once, all of equal cost, empty iff no candidate. Equality of the 'all' result with the "
             "complete optimal set of the Lean specification (canonical labellings for the unordered solvers), and "
             "membership/uniqueness of the 'any' result, are decided on generated inputs with ties over-sampled.",
        design="7 C05", note=SOLVER_NOTE, technique="Lean 4 proof of the arg-min entry + differential correspondence against the spec's optimal set"),
    "C17": dict(
        text="Full Lean 4 proof for trees of any arity and size: the Euler-tour + sparse-table model of "
             "LowestCommonAncestor returns the longest common prefix (deepest common ancestor) of its arguments, never "
             "compares two distinct TreeNodes (no TypeError), and the five derived queries equal their parent-chain "
             "definitions; RangeMinQuery returns the minimum of exactly the half-open range. Model tied to the code by "
             "exhaustive small shapes / arrays and random larger ones, including the internal tables.",
        design="7 C17", note=TRUST + "TreeNode identity modelled as path equality; negative indices outside the model.",
        technique="Lean 4 structural-induction proof + differential correspondence"),
    "C18": dict(
        text="Full Lean 4 proof for unbounded masks and sequences: mask/sequence round trips in both directions, "
             "segment distance = -1 iff not contained, otherwise the number of lost runs (ends ignored when excluded), "
             "bridge to runs counted on sequences. Model tied to subsequences.py by exhaustive mask pairs and sequences.",
        design="7 C18", note=TRUST + "masks are naturals (negative masks outside the model).",
        technique="Lean 4 proof + exhaustive differential correspondence"),
    "C19": dict(
        text="Full Lean 4 proof for all well-formed digraphs: toposort_all returns exactly the topological orderings, "
             "each once (none on cyclic graphs), toposort returns one iff one exists, neither fails; the precedence "
             "graph's orderings are exactly the family orders having every leaf synteny as a subsequence. Model tied "
             "to toposort.py by all digraphs on <= 4 vertices and random larger ones.",
        design="7 C19", note=TRUST + "hash-order of Python sets modelled as list order (results compared as sets); find_cycle not modelled.",
        technique="Lean 4 proof (greedy-removal invariant) + exhaustive differential correspondence"),
})

CLAIMED.update({
    "C09": dict(
        text="Partial proof + exploration. Proved: the result entry depends only on the set of candidates (order-free). "
             "The scaling / monotonicity / swap / outgroup clauses are stated in Lean at the level of the specification's "
             "optimum; renaming and re-running are runtime facts.  All clauses are decided on generated inputs by "
             "metamorphic runs of the real solvers (swap, rename, outgroup, repeat, scale, raise; fresh processes under "
             "different hash seeds in the thorough tier) whose canonical results must equal the original's and the Lean model's.",
        design="7 C09", note=SOLVER_NOTE, technique="Lean 4 model as single reference + metamorphic correspondence; partial proof"),
    "C10": dict(
        text="Partial proof + exploration. Proved: enlarging the candidate set of a result entry can only lower the "
             "kept cost; any offered valid candidate bounds the result.  The four inequalities and the single-family "
             "coincidence are stated in Lean and decided on generated inputs on the real algorithms' costs, which are "
             "also compared with the Lean models' table minima.",
        design="7 C10", note=SOLVER_NOTE, technique="Lean 4 models + partial proof; cross-algorithm differential correspondence"),
})

PENDING = "check not built yet in this round (planned: Lean 4 model + proof + correspondence, see DESIGN.md section 7)"


def main():
    checks = []
    for pid in PROPS:
        if pid not in CLAIMED:
            continue
        c = CLAIMED[pid]
        checks.append({
            "property_id": pid,
            "quick_cmd": f"./check {pid} --tier quick",
            "thorough_cmd": f"./check {pid} --tier thorough",
            "evidence_file": f"/verif/evidence/{pid}.json",
            "replay_cmd_template": f"./check {pid} --replay {{path}}",
            "engine": "lean-proof+correspondence",
            "level_claimed": {"category": "proof", "text": c["text"], "design_ref": "DESIGN.md section " + c["design"]},
            "level_note": c["note"],
            "technique": c["technique"],
        })
    manifest = {
        "version": 1,
        "setup_cmd": "cd lean && lake build",
        "hooks": {
            "guard": "SUPERREC2_VERIF",
            "enable": "no source hooks: the harness replaces tqdm and tex.measure in-process; SUPERREC2_VERIF=1 is set by the harness but read by no code in /repo",
            "baseline_off_cmd": "cd /repo && /venv/bin/python -m pytest -ra -q -p no:cacheprovider --timeout=900 --continue-on-collection-errors",
            "source_commits": [],
            "add_only": True,
        },
        "engines": [{
            "name": "lean-proof+correspondence",
            "path": "lean/ (lake project SRVerif + driver), harness/ (Python correspondence and search)",
            "serves_properties": [c["property_id"] for c in checks],
            "kind_free_text": "Lean 4 theorems about hand-written executable models; compiled model driven by a JSON line protocol and compared with the real code in-process; generated Lean obligations for static data",
        }],
        "checks": checks,
        "notes": "Genuine defects of the pinned tree were repaired by separate 'fix:' commits in /repo; see known_findings.json and DESIGN.md section 9.",
        "not_applicable": [{"property_id": p, "reason": PENDING} for p in PROPS if p not in CLAIMED],
    }
    (ROOT / "MANIFEST.json").write_text(json.dumps(manifest, indent=1) + "\n")


if __name__ == "__main__":
    main()
