#!/usr/bin/env python3
"""Regenerate MANIFEST.json from the table below (kept valid at all times)."""
import json
from pathlib import Path

ROOT = Path(__file__).resolve().parent.parent
PROPS = [json.loads(l)["id"] for l in (ROOT / "properties.jsonl").read_text().splitlines() if l.strip()]

TRUST = ("Lean 4.33 kernel; axioms propext/Classical.choice/Quot.sound only (audited each run); hand-written "
         "model tied to /repo by an I/O-level correspondence check that runs the real code in-process and the "
         "compiled Lean model on the same generated inputs; ")

CLAIMED = {
    "C16": dict(
        text="Lean 4 proof, for every history of candidates, every batching and both merge policies, that the "
             "entry model's value is the optimum of everything offered and its tags are exactly (all) / one of "
             "(any) / none of (none) the tags of optimal candidates; combine() is the optimum over pairs of "
             "retained tags; an unwritten table cell reads as infinitely bad.  The model is tied to "
             "dynamic_programming.py by bounded-exhaustive and random differential runs; the property itself "
             "is also evaluated on the implementation's outputs.",
        design="7 C16", note=TRUST + "Entry.info()/__eq__ not modelled; tags assumed None or truthy.",
        technique="Lean 4 invariant proof over update histories + differential correspondence"),
}

SOLVER_NOTE = TRUST + ("species are root paths (justified by C17); the model stores decoded solutions per table cell "
    "instead of tags; cost vectors inside the coherent region (F-COHERENCE recorded in known_findings.json).")

CLAIMED.update({
    "C01": dict(
        text="Partial proof + exploration of the remainder. Proved in Lean for all inputs: reconcile_exhaustive / "
             "reconcile_thl return exactly the arg-minima (by the evaluator) of the enumerated / decoded candidates, "
             "duplicate-free; the coherence hypothesis is necessary (kernel-checked witness). The optimality of the "
             "table recurrence and the completeness of the enumerator are stated in Lean and currently decided by the "
             "correspondence: real solvers vs Lean model (same solution sets) vs Lean specification (minimum over all "
             "valid mappings; enumerator = filter of all mappings) on random and bounded-exhaustive inputs.",
        design="7 C01", note=SOLVER_NOTE, technique="Lean 4 model + partial proof; differential correspondence against model and brute-force spec"),
    "C02": dict(
        text="Partial proof + exploration. Proved: result = arg-min of the evaluated cost over decoded table solutions "
             "of all root orders, duplicate-free; empty when no root order exists. Optimality of the ordered label DP is "
             "stated in Lean and decided by correspondence against the Lean specification (minimum over all species "
             "mappings, root orders and subsequence labellings; LCA-restricted for the base solver).",
        design="7 C02", note=SOLVER_NOTE, technique="Lean 4 model + partial proof; differential correspondence against model and brute-force spec"),
    "C03": dict(
        text="Partial proof + exploration. Proved: result = arg-min of the evaluated cost over decoded table solutions. "
             "The full statement (optimal among ALL labellings between required and allowed content) is stated in Lean, "
             "not proved, and explored against the brute-force Lean specification over every such labelling.",
        design="7 C03", note=SOLVER_NOTE, technique="Lean 4 model + partial proof; differential correspondence against brute-force spec over all labellings"),
    "C04": dict(
        text="Partial proof + exploration. Proved: the LCA reconciliation is valid for every input; results of every "
             "solver are among its decoded candidates. Validity of every returned solution of all seven algorithms, "
             "both policies, including refinements of multifurcating inputs, is evaluated by the Lean specification "
             "Spec.validSol on the implementation's outputs.",
        design="7 C04", note=SOLVER_NOTE, technique="Lean 4 validity specification evaluated on real outputs + partial proof"),
    "C05": dict(
        text="Partial proof + exploration. Proved for the result entry shared by all solvers: exactly the arg-minima of "
             "the candidates, each once, all of equal cost, empty iff no candidate. Equality of the 'all' result with the "
             "complete optimal set of the Lean specification (canonical labellings for the unordered solvers), and "
             "membership/uniqueness of the 'any' result, are decided on generated inputs with ties over-sampled.",
        design="7 C05", note=SOLVER_NOTE, technique="Lean 4 proof of the arg-min entry + differential correspondence against the spec's optimal set"),
    "C17": dict(
        text="Full Lean 4 proof for trees of any arity and size: the Euler-tour + sparse-table model of "
             "LowestCommonAncestor returns the longest common prefix (deepest common ancestor) of its arguments, never "
             "compares two distinct TreeNodes (no TypeError), and the five derived queries equal their parent-chain "
             "definitions; RangeMinQuery returns the minimum of exactly the half-open range. Model tied to the code by "
             "exhaustive small shapes / arrays and random larger ones, including the internal tables.",
        design="7 C17", note=TRUST + "TreeNode identity modelled as path equality; negative indices outside the model.",
        technique="Lean 4 structural-induction proof + differential correspondence"),
    "C18": dict(
        text="Full Lean 4 proof for unbounded masks and sequences: mask/sequence round trips in both directions, "
             "segment distance = -1 iff not contained, otherwise the number of lost runs (ends ignored when excluded), "
             "bridge to runs counted on sequences. Model tied to subsequences.py by exhaustive mask pairs and sequences.",
        design="7 C18", note=TRUST + "masks are naturals (negative masks outside the model).",
        technique="Lean 4 proof + exhaustive differential correspondence"),
    "C19": dict(
        text="Full Lean 4 proof for all well-formed digraphs: toposort_all returns exactly the topological orderings, "
             "each once (none on cyclic graphs), toposort returns one iff one exists, neither fails; the precedence "
             "graph's orderings are exactly the family orders having every leaf synteny as a subsequence. Model tied "
             "to toposort.py by all digraphs on <= 4 vertices and random larger ones.",
        design="7 C19", note=TRUST + "hash-order of Python sets modelled as list order (results compared as sets); find_cycle not modelled.",
        technique="Lean 4 proof (greedy-removal invariant) + exhaustive differential correspondence"),
})

CLAIMED.update({
    "C09": dict(
        text="Partial proof + exploration. Proved: the result entry depends only on the set of candidates (order-free). "
             "The scaling / monotonicity / swap / outgroup clauses are stated in Lean at the level of the specification's "
             "optimum; renaming and re-running are runtime facts.  All clauses are decided on generated inputs by "
             "metamorphic runs of the real solvers (swap, rename, outgroup, repeat, scale, raise; fresh processes under "
             "different hash seeds in the thorough tier) whose canonical results must equal the original's and the Lean model's.",
        design="7 C09", note=SOLVER_NOTE, technique="Lean 4 model as single reference + metamorphic correspondence; partial proof"),
    "C10": dict(
        text="Partial proof + exploration. Proved: enlarging the candidate set of a result entry can only lower the "
             "kept cost; any offered valid candidate bounds the result.  The four inequalities and the single-family "
             "coincidence are stated in Lean and decided on generated inputs on the real algorithms' costs, which are "
             "also compared with the Lean models' table minima.",
        design="7 C10", note=SOLVER_NOTE, technique="Lean 4 models + partial proof; cross-algorithm differential correspondence"),
})

CLAIMED["C01"]["text"] = ("Lean 4 proof, for all binary inputs whose leaf species are species of a binary species tree: the "
    "enumerator model lists exactly the valid reconciliations, each once; reconcile_exhaustive returns exactly the "
    "minimum-cost valid reconciliations; inside spe <= dup + 2*floss every table cell of the THL recurrence equals the "
    "minimum evaluated cost over valid reconciliations with that root species, reconcile_thl returns exactly the optimal "
    "valid reconciliations (never empty, never failing) and equals the exhaustive solver; the coherence and "
    "well-formedness hypotheses are shown necessary by kernel-checked witnesses.  Models tied to the code by differential "
    "runs against the model and the brute-force specification.")
CLAIMED["C01"]["technique"] = "Lean 4 proof (generic label-DP optimality, enumerator completeness) + differential correspondence"
CLAIMED["C02"]["text"] = ("Lean 4 proof + exploration of one remaining link. Proved for all inputs with non-empty leaf syntenies "
    "(coherent costs, binary species tree): every solution returned by the ordered solvers is a valid ordered "
    "super-reconciliation of finite cost, its cost is <= the specification's optimum (Spec.optimum) and minimal among ALL "
    "admissible mask labellings over all root orders (extended: all species mappings; base: LCA mapping); empty result when "
    "no root order exists.  Not proved: adequacy of the executable oracle Spec.optimum w.r.t. sequence labellings "
    "(explored by the check, which also ties the model to the code).")
CLAIMED["C02"]["technique"] = "Lean 4 proof (label-DP optimality at bitmask labels) + differential correspondence against brute-force spec"
CLAIMED["C03"]["text"] = ("Partial proof + exploration. Proved: the unordered table is exact for the DP's own cost of canonical "
    "(LCA / INHERIT) labellings, decoded solutions are valid reconciliations, result = arg-min of the evaluated cost over "
    "decoded solutions.  Not proved (stated in Lean): the DP's per-kind edge charges equal the evaluator's subset tests on "
    "the materialised contents, and that restricting to canonical labellings loses nothing (the SuperDTL theorem).  Both "
    "are explored against the brute-force Lean specification over EVERY labelling between required and allowed content.")
CLAIMED["C04"]["text"] = ("Lean 4 proof for lca, thl, exh and the ordered solvers (every returned solution is a valid, complete "
    "(super-)reconciliation of finite cost; ordered: child syntenies are subsequences, root holds every family once; "
    "sloss = 0 included), validity of the species mapping for the unordered solvers; the unordered family-placement "
    "clause is stated, not proved.  All clauses are also evaluated by the Lean specification Spec.validSol on every "
    "solution the real algorithms return (both policies, refinements of multifurcating inputs).")
CLAIMED["C04"]["technique"] = "Lean 4 proof (decoded solutions admissible) + validity specification evaluated on real outputs"
CLAIMED["C05"]["text"] = ("Lean 4 proof for thl and exh (result = exactly the optimal valid reconciliations, each once) and for the "
    "ordered solvers against all admissible mask labellings; for every solver the result entry keeps exactly the "
    "arg-minima, duplicate-free, equal cost, empty iff no candidate.  The 'any' policy and the unordered solvers' "
    "canonical-set clause are decided on generated inputs against the Lean specification's optimal set.")
CLAIMED["C05"]["technique"] = "Lean 4 proof (all arg-min tags retained through the DP) + differential correspondence"

CLAIMED.update({
    "C06": dict(
        text="Full Lean 4 proof for arbitrary non-negative costs (infinite transfer cost included, no coherence hypothesis): "
             "for every valid solution the evaluator model's events equal a first-principles classification, and its "
             "reconciliation, labelling (ordered: lost runs on sequences; unordered: charged edges) and total costs equal the "
             "recount of an explicit event log built by walking paths; the cost is linear and monotone in the cost vector.  "
             "Model tied to model/reconciliation.py and to the CLI's 'Minimum cost:' line on independently enumerated valid "
             "mappings and labellings.",
        design="7 C06", note=SOLVER_NOTE, technique="Lean 4 proof (evaluator = event-log recount) + differential correspondence"),
    "C07": dict(
        text="Full Lean 4 proof for all binary inputs with transfers forbidden and spe <= dup + 2*floss: the LCA reconciliation "
             "maps every node to the longest common prefix of its leaves' species, is valid with finite cost, is optimal among "
             "all valid reconciliations, and is the unique optimum when floss > 0 (sharpness examples kernel-checked).  Model "
             "tied to reconcile_lca; also compared with thl / exh under an infinite transfer cost.",
        design="7 C07", note=SOLVER_NOTE, technique="Lean 4 proof (local exchange inequality, induction on the tree) + differential correspondence"),
    "C08": dict(
        text="Lean 4 proof for the refinement enumerator on trees of any arity: graft / arrange counts ((2k-3)!!), every "
             "arrangement is a binary tree over exactly the items, each binary tree over distinct items appears exactly once "
             "up to child order, the topology-id 'ignore' mechanism is faithful for disjoint leaf sets, binarize is sound, "
             "duplicate-free and has the product count; the extended solvers' result is the arg-min over all refinement pairs.  "
             "Completeness of binarize for nested polytomies is proved for one polytomy over leaves and otherwise stated; the "
             "check compares the real enumerator and the end-to-end optimum with an independent refinement generator.",
        design="7 C08", note=TRUST + "ete3 copy / topology ids / Newick re-parse are exercised by the tie, not modelled.",
        technique="Lean 4 proof (graft / un-graft bijection) + differential correspondence with an independent generator"),
    "C11": dict(
        text="Lean 4 proof modulo ete3's Newick round trip (a hypothesis of the theorems, validated on every generated tree): "
             "for uniquely named trees, name-keyed mappings and syntenies parse back to what was serialised, the cost-name "
             "table (generated from the source on every run) round-trips, and from_dict(to_dict(x)) reproduces trees, leaf "
             "assignment, costs, mapping, labelling and ordered flag for the four classes, hence the same events and cost.  "
             "Real from_dict/to_dict round trips through json are checked field by field on solver outputs and random "
             "solutions.",
        design="7 C11", note=TRUST + "ete3 Newick writer/reader, json: trusted, validated by the tie; empty names excluded (SafeNames).",
        technique="Lean 4 proof over name-keyed association lists + generated cost table + round-trip correspondence"),
    "C12": dict(
        text="Lean 4 proof for label_internal (all names distinct and non-empty afterwards, given names untouched, new names "
             "O#/S# with increasing indices skipping names present, fuel suffices), for the dispatch over the algorithm "
             "registry regenerated from cli/reconcile.py on every run (decide: super-reconciliation algorithm without "
             "syntenies -> status 1 and no output; dead else-branch), the outcome protocol and the <species>_<suffix> "
             "rule.  Cost line, all >= any, draw acceptance and process-level behaviour are decided by running the real CLI "
             "in-process on generated documented-format inputs.",
        design="7 C12", note=TRUST + "argparse, json, file I/O are Python's own; TeX measurer stubbed.",
        technique="Lean 4 proof + generated registry obligations + in-process CLI correspondence"),
    "C13": dict(
        text="Partial proof + exploration. Proved for all valid reconciliations: _compute_branches never raises (every "
             "anchor removal and lookup succeeds), every object node has a branch of the evaluator's kind in its species and "
             "every non-loss branch is such a node, loss pseudo-genes sit on the vertical branch they belong to, one transfer "
             "branch per transfer whose target is an anchor of the transferred child's species.  Uniqueness of the branch per "
             "node, the loss COUNT and the TikZ statement counts are stated in Lean and decided by the check on real "
             "layout.compute / tikz.render output under a stub measurer (both orientations).",
        design="7 C13", note=TRUST + "pseudo-genes identified by (lineage, species); TikZ text tokenised by the harness.",
        technique="Lean 4 invariant proof over the branch-construction pass + differential correspondence"),
    "C14": dict(
        text="Full Lean 4 proof over exact rationals for positive sizes and non-negative parameters: horizontal layout = "
             "transpose of the vertical layout with swapped sizes (both code paths transcribed separately), sibling boxes "
             "disjoint and inside the parent's box, trunks inside their boxes and pairwise interior-disjoint, one entry per "
             "species; anchor lookups proved for transfers, stated for duplication/speciation children.  Real layouts under "
             "dyadic stub sizes are compared coordinate by coordinate with the model, and the clauses are evaluated directly.",
        design="7 C14", note=TRUST + "IEEE rounding for non-dyadic sizes is not modelled; no TeX engine (stub measurer).",
        technique="Lean 4 proof over Rat (mirror, disjointness) + exact coordinate correspondence"),
    "C15": dict(
        text="Lean 4 proof over templates REGENERATED from render/tikz.py on every run: generated obligations (each template "
             "brace-balanced with holes at depth >= 0, statements terminated and one-line, one picture environment) plus "
             "theorems that any admissible filling keeps the rendered text balanced and well-structured, colours are "
             "interned before use, colour = nearest coloured ancestor, escape is left-invertible with no bare underscore, "
             "labels list the families in order, greedy / balanced wrapping preserve words, widths and line count.  "
             "textwrap.wrap is modelled as greedy filling (validated by the tie); real tikz.render output is re-assembled "
             "by the model byte for byte.",
        design="7 C15", note=TRUST + "the ast-based translator; textwrap on single-space-separated hyphen-free words.",
        technique="Translator-generated Lean obligations + Lean 4 proofs + byte-level correspondence"),
    "C20": dict(
        text="Lean 4 proof: union-find with path compression and rank reports exactly the partition generated by its unions "
             "(find, groups, to_list, unite's result), binary() enumerates each two-block coarsening once (2^(k-1)-1); BUILD "
             "returns a displaying tree iff one exists, AllTrees returns exactly the displaying binary trees, each once; "
             "BreakUp followed by BUILD preserves the clades.  The supertree clause is proved for the BreakUp triples of each "
             "input (full clause stated).  Models tied to the code by exhaustive small trees / triple sets / union histories "
             "against brute force.",
        design="7 C20", note=TRUST + "Python set iteration order in binary() modelled as increasing order (compared as sets above 8 elements).",
        technique="Lean 4 proof (rank invariant, BUILD soundness and completeness) + exhaustive differential correspondence"),
})

# ---- build round 2: results of the proof work-packages (see DESIGN.md section 13) ----
CLAIMED["C02"]["text"] = ("Lean 4 proof for all inputs with non-empty leaf syntenies (coherent costs spe + 2*sloss <= dup + 2*floss, "
    "binary species tree): the ordered solvers return exactly the valid ordered super-reconciliations of minimum evaluated "
    "cost over ALL species mappings (base: the LCA mapping), ALL root orders and ALL subsequence labellings "
    "(C02_full, C02_ext_exact, C02_base_exact), duplicate-free, empty iff no root order exists; the executable oracle "
    "Spec.optimum is proved adequate w.r.t. every valid sequence-labelled solution (no coherence needed).  With a "
    "prescribed root order only the oracle lower bound and the mask-level optimality are proved.  Models tied to the code "
    "by differential runs against the model and the brute-force specification.")
CLAIMED["C02"]["technique"] = "Lean 4 proof (label-DP optimality at bitmask labels + oracle adequacy) + differential correspondence"
CLAIMED["C03"]["text"] = ("Lean 4 proof for binary species trees, inside spe + sloss <= dup + 2*floss: the unordered solvers "
    "(SuperDTL and base) return valid solutions whose evaluated cost EQUALS the minimum over every labelling between "
    "required and allowed content and every species mapping (C03_full_eq; the exchange argument 'canonical labellings lose "
    "nothing' is C03_exchange; DP edge charges = evaluator on materialised contents is C03_kinds_faithful, unguarded); "
    "the unguarded statement is shown false on a ternary species tree (kernel-checked witness).  Remaining link: adequacy "
    "of the labelling space of Spec.optimum w.r.t. Spec.validSol for the unordered model (explored by the check against "
    "brute force over every labelling).")
CLAIMED["C03"]["technique"] = "Lean 4 proof (label-DP optimality at {LCA,INHERIT} + exchange argument) + differential correspondence against brute force"
CLAIMED["C04"]["text"] = ("Lean 4 proof for all seven algorithms and every cost vector (sloss = 0 included): every returned solution is a "
    "valid, complete (super-)reconciliation of finite cost; ordered: child syntenies are subsequences, the root holds every "
    "family once; unordered: a family occurs only at or below its gain node and never below a node lacking it, every node "
    "holds at least its required content (C04_unord, unguarded).  All clauses are also evaluated by the Lean specification "
    "Spec.validSol on every solution the real algorithms return (both policies, refinements of multifurcating inputs).")
CLAIMED["C05"]["text"] = ("Lean 4 proof: thl, exh and the ordered solvers return exactly the optimal valid solutions, each once; the "
    "unordered solvers return exactly the canonical optimal set (C05_unord_all); the ANY policy is modelled end-to-end for "
    "every offering order (selection functions) and proved to return exactly one member of the ALL result, of the same cost, "
    "empty iff ALL is empty, for thl, ordered and unordered solvers inside the coherent region (the hypothesis is shown "
    "necessary).  The real 'any' result is compared with the model's reachable-under-ANY set on every generated input.")
CLAIMED["C05"]["technique"] = "Lean 4 proof (ALL tags retained through the DP; ANY as arbitrary selection) + differential correspondence"
CLAIMED["C08"]["text"] = ("Lean 4 proof for the refinement enumerator on trees of any arity and any nesting: graft / arrange counts "
    "((2k-3)!!), binarize lists EVERY binary refinement exactly once up to child order (sound, complete, duplicate-free, "
    "product count; C08_binarize_exactly_once), original names/colours stay on the node with the same clade, the "
    "topology-id 'ignore' mechanism is faithful; the extended solvers' result is the arg-min over all refinement pairs.  "
    "The check compares the real enumerator and the end-to-end optimum with an independent refinement generator.")
CLAIMED["C09"]["text"] = ("Lean 4 proof: scaling all unit costs by k > 0 scales the optimum and keeps the optimal set, raising costs never "
    "lowers the optimum (Spec.optimum, all modes, no coherence; transferred to thl, exh, ordered and unordered solvers); "
    "swapping the children of an object node or of a species node and adding an empty outgroup above the species root are "
    "cost-preserving bijections of valid solutions in all modes (minimum unchanged; with floss > 0 the optimal set is exactly "
    "the embedded one; the cost hypothesis of the outgroup clause is shown necessary), transferred to exh / thl.  Renaming "
    "and re-running are runtime facts decided by metamorphic runs of the real solvers (fresh processes under different "
    "hash seeds in the thorough tier) against the single Lean model result.")
CLAIMED["C09"]["technique"] = "Lean 4 proof (cost-preserving bijections, linearity) + metamorphic correspondence"
CLAIMED["C10"]["text"] = ("Lean 4 proof under the property's guards (binary species tree, coherent costs): thl <= lca with equality (and "
    "thl = [lca] when floss > 0) for an infinite transfer cost; extended <= base for the ordered and the unordered solvers on "
    "evaluated costs; on single-family inputs all label costs vanish, ordered = unordered = thl and both base variants equal "
    "the LCA cost.  'unordered <= ordered' on every input is stated (proved with equality on single-family inputs) and "
    "explored by the check on the real algorithms' costs.")
CLAIMED["C10"]["technique"] = "Lean 4 proof (corollaries of the optimality theorems) + cross-algorithm differential correspondence"
CLAIMED["C13"]["text"] = ("Full Lean 4 proof for all valid reconciliations over binary species trees: _compute_branches never raises; "
    "every object node has EXACTLY ONE branch, in its species, of the evaluator's kind; the (lineage, species) pairs of the "
    "full-loss pseudo-genes are a permutation of the evaluator's full-loss records (so floss * #markers is the loss part of "
    "the cost); one transfer branch per transfer ending at the transferred child's anchor; render succeeds and emits one "
    "event statement per node, one loss marker per loss, one arrow per transfer (both orientations).  Real layout.compute / "
    "tikz.render output under a stub measurer is compared with the model.")
CLAIMED["C13"]["technique"] = "Lean 4 invariant proof over the branch-construction pass + differential correspondence"
CLAIMED["C14"]["text"] = ("Full Lean 4 proof over exact rationals for positive sizes, non-negative parameters and min_subtree_spacing > 0 (with 0 "
    "sibling boxes touch on the real code): horizontal layout = "
    "transpose of the vertical layout with swapped sizes, sibling boxes disjoint and inside the parent's box, trunks inside "
    "their boxes and pairwise interior-disjoint, branches inside their species' trunk, one entry per species; every "
    "dictionary look-up of _layout_branches / _tikz_draw_branches succeeds for every valid input (C14_anchors; validity and "
    "binarity shown necessary).  Real layouts under dyadic stub sizes are compared coordinate by coordinate with the model.")
CLAIMED["C20"]["text"] = ("Full Lean 4 proof: union-find with path compression and rank reports exactly the partition generated by its "
    "unions; binary() enumerates each two-block coarsening once for ANY iteration order of the representatives; BUILD returns "
    "a displaying tree iff one exists, AllTrees returns exactly the displaying binary trees, each once; BreakUp followed by "
    "BUILD preserves the clades for ANY pop order of tree_to_triples; a supertree displays EVERY induced triple of each input "
    "tree and exists iff the inputs are compatible.  Models tied to the code by exhaustive small trees / triple sets / union "
    "histories against brute force.")
CLAIMED["C20"]["note"] = TRUST + "the order-generic theorems are about a nondeterministic model of the tree_to_triples loop that contains the driver-tested order."

# ---- build round 2, second wave ----
CODE_NOTE = (" A second, code-structured model (Model/ThlCode.lean / SpfsCode.lean / UspfsCode.lean: tables of C16 entries with "
    "tags, role entries, combine calls and decoding as in the Python) is proved to return the same solutions and is "
    "tied to the real table (entries, values, tag sets).")
for _p in ("C01", "C02", "C03", "C04", "C05", "C09", "C10"):
    CLAIMED[_p]["note"] = CLAIMED[_p]["note"].replace(
        "the model stores decoded solutions per table cell instead of tags; ",
        "the label-DP model stores decoded solutions per table cell;" + CODE_NOTE + " ")
CLAIMED["C01"]["text"] += (" The code-structured model of reconcile_thl (two helper functions, eight aggregate entries, "
    "combinators, tag-following decoder) is proved to refine the label-DP model cell by cell (C01_thlCode_refines).")
CLAIMED["C02"]["text"] += (" The code-structured model of _spfs (precedence graph + toposort_all, role entries, six combine "
    "calls, test before scaling, decoder) is proved to refine it (C02_code_refines).")
CLAIMED["C03"]["text"] = ("Lean 4 proof for binary species trees, inside spe + sloss <= dup + 2*floss: the unordered solvers "
    "(SuperDTL and base) return exactly the canonical valid solutions of minimum evaluated cost over EVERY valid labelling "
    "and every species mapping (C03_optimal, C03_ext_exact, C03_full_eq); the exchange argument 'canonical labellings lose "
    "nothing' is C03_exchange, the oracle's adequacy w.r.t. Spec.validSol is C03_oracle_le / _attained, DP edge charges = "
    "evaluator on materialised contents is C03_kinds_faithful (unguarded); the unguarded statement is shown false on a "
    "ternary species tree.  The code-structured model of _compute_uspfs_entry / _decode_uspfs_table is proved to refine the "
    "label-DP model (C03_code_refines).  Tied to the code by differential runs against brute force over every labelling.")
CLAIMED["C10"]["text"] = ("Full Lean 4 proof under the property's guards (binary species tree, coherent costs) of all four "
    "inequalities and the coincidence clauses (C10_guarded): thl <= lca with equality (thl = [lca] when floss > 0) for an "
    "infinite transfer cost; extended <= base for ordered and unordered solvers; unordered <= ordered (the set labelling "
    "induced by an ordered optimum is feasible and no dearer: no hypothesis on costs at the oracle level); on single-family "
    "inputs ordered = unordered = thl and base variants = LCA cost.  The check evaluates the clauses on the real "
    "algorithms' costs and compares them with the models'.")
CLAIMED["C11"]["text"] = ("Full Lean 4 proof: a Lean model of the Newick codec as the package uses it (ete3 format-8 writer with "
    "format_root_node and the color feature; format-1 reader modelled literally) satisfies read (write t) = t for every "
    "safely named tree of any arity and depth (C11_newick_roundtrip); with it, for uniquely named trees, "
    "from_dict(to_dict(x)) reproduces trees, leaf assignment, costs (generated cost-name table), mapping, labelling and "
    "ordered flag for the four classes, hence the same events and cost (C11_roundtrip_newick_*).  The codec model is tied "
    "to ete3 on exhaustive small trees, random trees, odd names and malformed strings; real round trips through json are "
    "checked field by field.")
CLAIMED["C11"]["note"] = TRUST + "json is Python's; the codec model is tied to ete3 3.1.3 by differential runs; names outside SafeNames excluded."
CLAIMED["C11"]["technique"] = "Lean 4 proof (codec round trip by structural induction; name-keyed association lists) + round-trip correspondence"
CLAIMED["C15"]["text"] += (" The drawing code itself (_tikz_draw_fork, _tikz_draw_branches, render's species loop) is modelled "
    "(Model/TikzDraw.lean: layout -> statement instances with exact rational coordinates), every call is proved an "
    "admissible instance of a generated template with the expected count per branch kind, unconditionally for valid "
    "reconciliations (C15_draw_valid_all), and the model's text equals the real text byte for byte on every generated case.")
CLAIMED["C18"]["text"] += (" Second tie: the four function bodies are translated mechanically from the source text on every run "
    "(harness/translate_py.py) and proved equal to the model (Generated/SubseqPyEquiv.lean), so the theorems are restated "
    "for what the code says now (C18Code); when the translator cannot parse a harmless rewrite the check falls back to the "
    "correspondence with the thorough budget, when Lean refutes the equivalence it is a failed obligation.")
CLAIMED["C18"]["technique"] = "Lean 4 proof + translator-generated equivalence obligations + exhaustive differential correspondence"
CLAIMED["C12"]["text"] += (" Multifurcating inputs go through the CLI too (ext_spfs / superdtl): every clade the user named "
    "keeps its name in the written refinement.")

# ---- build round 2, third wave ----
CLAIMED["C02"]["text"] = CLAIMED["C02"]["text"].replace(
    "With a prescribed root order only the oracle lower bound and the mask-level optimality are proved.",
    "The same holds end to end with a PRESCRIBED root order, strict supersequences of the leaf families included "
    "(C02_ext_exact_prescribed, validity = Spec.validSolPre).")
CLAIMED["C05"]["text"] += (" The ANY policy is also proved for the code-structured models (every cell: same value, its single "
    "tag one of the ALL tags; result = one member of the ALL result inside the coherent region).")
CLAIMED["C12"]["text"] += (" Proved for all arities: through binarize, the Newick re-parse and the second label_internal every "
    "user-given name and colour stays on the node with the same clade and new nodes get fresh O#/S# names (C12_refine_cli_full).")
CLAIMED["C16"]["text"] = ("Lean 4 proof, for every history of candidates, every batching, both merge policies and the three retention "
    "policies: the entry's value is the optimum of everything offered, its tags are exactly (all) / one of (any) / none of "
    "(none) the tags of optimal candidates, the value does not depend on the retention policy; combine() is the optimum over "
    "pairs of retained tags (also with a rejecting combinator); for tables of any shape (Dict / List dimensions, partial "
    "indexing, negative indices, lazy errors): a read returns the fold of exactly the finite-containing batches written to "
    "THAT cell (frame property), an unwritten cell reads as infinitely bad, a failing operation changes no cell.  The model "
    "covers the whole public API of dynamic_programming.py and is tied to it by bounded-exhaustive and random OPERATION "
    "SEQUENCES replayed on the real classes; the property itself is also evaluated on the implementation's outputs.")
CLAIMED["C16"]["note"] = TRUST + "tags assumed None or truthy and mutually comparable; bool/float/slice keys out of scope."
CLAIMED["C16"]["technique"] = "Lean 4 invariant proof over update / operation histories + differential correspondence on operation sequences"
CLAIMED["C17"]["text"] += (" Second tie: range_min_query.py is translated mechanically from the source text on every run and the "
    "generated build + query are proved equal to the model, exceptions included (C17Code); graceful fallback as for C18.")
CLAIMED["C17"]["technique"] = "Lean 4 structural-induction proof + translator-generated equivalence obligations + differential correspondence"

# ---- after the independent reviews (DESIGN 13.8) ----
CLAIMED["C02"]["text"] += " The result is empty iff no root order is compatible with the leaves iff no valid solution exists (C02_empty_iff, C02_empty_iff_no_valid)."
CLAIMED["C13"]["text"] += " The event statement of every object node is of the evaluator's KIND (C13_tikz_kind), also on the drawing calls."
CLAIMED["C15"]["text"] += (" Generated obligations also fix WHICH TikZ statement each template is (statement_heads / statement_count); "
    "labels are proved balanced for brace-free names and families at any wrap width (C15Label).")
CLAIMED["C17"]["text"] += " distance(u, v) is the length of the path through the deepest common ancestor and is minimal (C17Dist)."

# ---- translator ties for C19 / C20, stateful histories ----
CLAIMED["C19"]["text"] += (" Second tie: toposort.py is translated mechanically from the source text on every run; generated toposort "
    "is proved equal to the model and generated toposort_all is proved, for every iteration order of its sets, to return "
    "exactly the topological orderings once each (C19Code); graceful fallback as for C18.  Call / edit-in-place / call "
    "histories on one graph object are part of the correspondence.")
CLAIMED["C19"]["technique"] = "Lean 4 proof (greedy-removal invariant) + translator-generated equivalence obligations + exhaustive differential correspondence"
CLAIMED["C20"]["text"] += (" Second tie: the DisjointSet class is translated mechanically from the source text on every run and every "
    "generated method is proved equal to the model's operation under the model's invariant (C20Code).")
CLAIMED["C20"]["technique"] = "Lean 4 proof (rank invariant, BUILD soundness and completeness) + translator-generated equivalence obligations + exhaustive differential correspondence"
CLAIMED["C09"]["text"] += (" Histories on one object (re-run on the same input object, unit costs changed in place and back) are part of "
    "the metamorphic runs.")

# ---- last wave ----
CLAIMED["C05"]["text"] += " ANY is also proved for reconcile_exhaustive (every cost vector) and for the multifurcation loop of the extended solvers."
CLAIMED["C15"]["text"] += (" 'One picture environment' is proved on the ASSEMBLED TEXT: every filling the drawing produces (coordinates, colour "
    "names, labels from brace-free names and families) is free of the delimiter texts, so the text contains each delimiter exactly once "
    "(C15_delims_once, C15_structure_text).")
CLAIMED["C12"]["text"] += (" The CLI glue (eval_cost's expression grammar, read_input, dump_results, status logic, draw's output-type choice) is "
    "modelled and tied; `draw` to the standard output is exercised through the real parser (fixed defect F-DRAW-STDOUT).")

PENDING = "check not built yet in this round (planned: Lean 4 model + proof + correspondence, see DESIGN.md section 7)"


# ---- sixth wave: C12 bridge, histories in every solver check, presentations -----------------------------------------
CLAIMED["C12"]["text"] += (" The cost line and `all` >= `any` are now also THEOREMS whose interface hypotheses (embedding, evaluator, Newick law) are discharged; "
    "what remains assumed is stated in each theorem: binary, uncoloured input trees with pairwise distinct names over [A-Za-z0-9_]+ (Naming.Ok, not derived "
    "from label_internal), leaf species in the species tree, and under `--solutions any` each solver family's coherent cost region "
    "(outside it ANY need not lie in ALL: C05_any_incoherent_witness); `lca` has its own statement without optimality (C12_cost_line_lca) (Properties/C12Bridge.lean: "
    "embedding of solver solutions into the written dictionaries, evaluated cost of the read-back object = totalCost; "
    "C12_cost_line_thl/_exh/_spfs/_uspfs, C12_all_superset_any_*), the embedding and the evaluator being driven against the real "
    "to_dict() / from_dict().cost(); the JSON text layer is modelled too (Model/Json.lean: render = json.dumps, parse = json.loads, tied byte for byte) with the round trip proved for every value without repeated keys, all escapes included (C12_json_roundtrip), so the cost-line theorems hold on the written TEXT, one line per result (C12_cost_line_text_thl/_exh/_spfs/_uspfs).")
for _p in ("C01", "C02", "C03", "C04", "C05", "C10"):
    CLAIMED[_p]["text"] += (" The correspondence also replays histories on ONE input object (costs changed in place between calls) and "
        "builds its inputs under varying presentations (ancestors unnamed / all alike, multi-character family names, float inf).")
CLAIMED["C12"]["text"] += (" The composed theorems also hold for every colouring of the input trees by safe words (Properties/C12Colour.lean) and the naming hypothesis is derived from label_internal (Properties/C12Names.lean: label, solve, write).")
CLAIMED["C17"]["text"] += " Trees of every stream are named in four ways (unique / unnamed / all alike / two letters): names are not part of the definitions."


def main():
    checks = []
    for pid in PROPS:
        if pid not in CLAIMED:
            continue
        c = CLAIMED[pid]
        checks.append({
            "property_id": pid,
            "quick_cmd": f"./check {pid} --tier quick",
            "thorough_cmd": f"./check {pid} --tier thorough",
            "evidence_file": f"/verif/evidence/{pid}.json",
            "replay_cmd_template": f"./check {pid} --replay {{path}}",
            "engine": "lean-proof+correspondence",
            "level_claimed": {"category": "proof", "text": c["text"], "design_ref": "DESIGN.md section " + c["design"]},
            "level_note": c["note"],
            "technique": c["technique"],
        })
    manifest = {
        "version": 1,
        "setup_cmd": "cd lean && lake build",
        "hooks": {
            "guard": "SUPERREC2_VERIF",
            "enable": "no source hooks: the harness replaces tqdm and tex.measure in-process; SUPERREC2_VERIF=1 is set by the harness but read by no code in /repo",
            "baseline_off_cmd": "cd /repo && /venv/bin/python -m pytest -ra -q -p no:cacheprovider --timeout=900 --continue-on-collection-errors",
            "source_commits": [],
            "add_only": True,
        },
        "engines": [{
            "name": "lean-proof+correspondence",
            "path": "lean/ (lake project SRVerif + driver), harness/ (Python correspondence and search)",
            "serves_properties": [c["property_id"] for c in checks],
            "kind_free_text": "Lean 4 theorems about hand-written executable models; compiled model driven by a JSON line protocol and compared with the real code in-process; generated Lean obligations for static data",
        }],
        "checks": checks,
        "notes": "Genuine defects of the pinned tree were repaired by separate 'fix:' commits in /repo; see known_findings.json and DESIGN.md section 9.",
        "not_applicable": [{"property_id": p, "reason": PENDING} for p in PROPS if p not in CLAIMED],
    }
    (ROOT / "MANIFEST.json").write_text(json.dumps(manifest, indent=1) + "\n")


if __name__ == "__main__":
    main()
