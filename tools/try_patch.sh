#!/bin/sh
# usage: tools/try_patch.sh <patch-file> [-R] -- <check ids...>
# Applies a patch to /repo, runs the given checks (quick), and undoes it.
patch="$1"; shift
rev=""
if [ "$1" = "-R" ]; then rev="-R"; shift; fi
[ "$1" = "--" ] && shift
git -C /repo apply $rev "$patch" || { echo "patch does not apply"; exit 3; }
for id in "$@"; do
  out=$(cd /verif && ./check "$id" 2>&1 | grep -E "VIOLATION|^OK|INFRA" | head -3)
  echo "$id: $out"
done
git -C /repo checkout -- .
rm -f /verif/replays/*.json
