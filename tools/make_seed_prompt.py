#!/usr/bin/env python3
"""usage: tools/make_seed_prompt.py <property id> <tag>  -> creates worktree /tmp/seed/<tag>, prints the prompt."""
import json, subprocess, sys
from pathlib import Path
pid, tag = sys.argv[1:3]
wt = Path("/tmp/seed") / tag
wt.parent.mkdir(parents=True, exist_ok=True)
subprocess.run(f"git -C /repo worktree prune; git -C /repo worktree add -q --detach {wt} HEAD", shell=True, check=True)
props = {json.loads(l)["id"]: json.loads(l) for l in open("/verif/properties.jsonl")}
p = props[pid]
tpl = open("/verif/tools/seed_prompt.txt").read()
extra = sys.argv[3] if len(sys.argv) > 3 else ""
print(tpl.format(wt=wt, pid=pid, title=p["title"], statement=p["statement"], quant=p["quantifier"]["text"]) + ("\n" + extra if extra else ""))
