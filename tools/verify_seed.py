#!/usr/bin/env python3
"""Confirm a seeded change and record it under /verif/seeded/<name>/.

usage: tools/verify_seed.py <name> <property id> <worktree> "<what it needs to manifest>" [check ids...]
Steps (all run here, nothing trusted from the agent's report):
  1. the worktree's diff applies to /repo; pytest (pinned 55) passes in the worktree with the change;
  2. demo.py exits 1 with the change and 0 without it (git stash in the worktree);
  3. the listed checks are run against /repo with the patch applied (then undone) and their verdicts recorded.
"""
import json, os, shutil, subprocess, sys
from pathlib import Path

name, prop, wt, needs = sys.argv[1:5]
checks = sys.argv[5:] or [prop]
wt = Path(wt)
out = Path("/verif/seeded") / name
out.mkdir(parents=True, exist_ok=True)
env = dict(os.environ, PYTHONPATH=str(wt / "src"))
PY = "/venv/bin/python"


def sh(cmd, **kw):
    return subprocess.run(cmd, shell=True, capture_output=True, text=True, **kw)


diff = sh(f"git -C {wt} diff").stdout
assert diff.strip(), "no diff in worktree"
(out / "patch.diff").write_text(diff)
shutil.copy(wt / "demo.py", out / "demo.py")
ran = []
t = sh(f"cd {wt} && {PY} -m pytest -q -p no:cacheprovider tests --deselect tests/render/test_draw.py::test_fixtures "
       f"--deselect tests/utils/test_tex.py::test_measure 2>&1 | tail -1", env=env)
ran.append({"cmd": "pytest (with change)", "result": t.stdout.strip()})
tests_ok = "55 passed" in t.stdout
d1 = sh(f"cd {wt} && {PY} demo.py", env=env)
ran.append({"cmd": "demo.py with change", "exit": d1.returncode, "tail": d1.stdout[-300:]})
sh(f"git -C {wt} apply -R {out/'patch.diff'}")  # not `git stash`: the stash is shared by all worktrees
d0 = sh(f"cd {wt} && {PY} demo.py", env=env)
sh(f"git -C {wt} apply {out/'patch.diff'}")
ran.append({"cmd": "demo.py without change", "exit": d0.returncode})
demo_ok = d1.returncode != 0 and d0.returncode == 0
verdicts = {}
# Run the checks against the seeded tree.  Equivalent to `git -C /repo apply patch.diff` + run + undo,
# but through SUPERREC2_REPO so that /repo itself stays clean while other work is going on.
seeded = Path("/tmp/seeded_repo")
sh(f"rm -rf {seeded}; git -C /repo worktree prune; git -C /repo worktree add -q --detach {seeded} HEAD")
ap = sh(f"git -C {seeded} apply {out/'patch.diff'}")
assert ap.returncode == 0, ap.stderr
cenv = dict(os.environ, SUPERREC2_REPO=str(seeded))
try:
    for c in checks:
        r = sh(f"cd /verif && ./check {c}", timeout=3000, env=cenv)
        line = [l for l in r.stdout.splitlines() if l.startswith(("VIOLATION", "OK", "KNOWN"))]
        verdicts[c] = {"exit": r.returncode, "lines": line[-2:]}
        for l in line:
            if "replay=" in l:
                rp = l.split("replay=")[1].split()[0]
                try:
                    verdicts[c]["replay"] = json.loads(Path(rp).read_text()).get("what") or json.loads(Path(rp).read_text()).get("kind")
                except Exception:
                    pass
finally:
    sh(f"git -C /repo worktree remove --force {seeded}")
    sh("rm -f /verif/replays/*.json")
    for c in checks:  # evidence written against the patched tree is not evidence
        sh(f"git -C /verif checkout -- evidence/{c}.json")
    sh("/verif/tools/regen.sh")  # Generated/*.lean were regenerated from the seeded tree
meta = {
    "name": name, "property": prop, "needs_to_manifest": needs,
    "confirmed": {"existing_tests_pass_with_change": tests_ok, "demo_fails_with_change_passes_without": demo_ok},
    "ran": ran, "checks_against_patch": verdicts,
    "caught_by": [c for c, v in verdicts.items() if v["exit"] == 1],
}
(out / "meta.json").write_text(json.dumps(meta, indent=1))
print(json.dumps({"tests_ok": tests_ok, "demo_ok": demo_ok, "verdicts": verdicts}, indent=1))
