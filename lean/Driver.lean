/-
  Line-protocol driver: one JSON object per input line, one JSON value per
  output line.  `{"op": <name>, ...}` is dispatched to the model function of
  that name.  Imports models and specs only (no Mathlib), so it links.
-/
import SRVerif.Driver.C16
import SRVerif.Driver.C16Table
import SRVerif.Driver.C18
import SRVerif.Driver.Solve
import SRVerif.Driver.C17
import SRVerif.Driver.C19
import SRVerif.Driver.C06
import SRVerif.Driver.C20
import SRVerif.Driver.C08
import SRVerif.Driver.C13
import SRVerif.Driver.C15
import SRVerif.Driver.C11
import SRVerif.Driver.C12
import SRVerif.Driver.C05Any
import SRVerif.Driver.C01Code
import SRVerif.Driver.C02Code
import SRVerif.Driver.C03Code
import SRVerif.Driver.C11Newick
import SRVerif.Driver.C19Cycle
import SRVerif.Driver.C12Cli
import SRVerif.Driver.C15Draw
import SRVerif.Driver.C12Bridge
import SRVerif.Driver.C12Json

open Lean SR.Drv

def allHandlers : List (String × Handler) :=
  C16.handlers ++ C16T.handlers ++ C18.handlers ++ Solve.handlers ++ C17.handlers ++ C19.handlers ++ C06.handlers ++ C20.handlers ++ C08.handlers ++ C13.handlers ++ C15.handlers ++ C11.handlers ++ C12.handlers ++ C05Any.handlers ++ C01Code.handlers ++ C02Code.handlers ++ C03Code.handlers ++ C11Newick.handlers ++ C19Cycle.handlers ++ C12Cli.handlers ++ C15Draw.handlers ++ C12Bridge.handlers ++ C12Json.handlers

def handleLine (line : String) : String :=
  match Json.parse line with
  | .error e => (Json.mkObj [("driver_error", s!"parse: {e}")]).compress
  | .ok j =>
    match j.getObjVal? "op" >>= (·.getStr?) with
    | .error e => (Json.mkObj [("driver_error", s!"op: {e}")]).compress
    | .ok op =>
      match allHandlers.lookup op with
      | none => (Json.mkObj [("driver_error", s!"unknown op {op}")]).compress
      | some h =>
        match h j with
        | .ok r => r.compress
        | .error e => (Json.mkObj [("driver_error", e)]).compress

partial def loop (hin hout : IO.FS.Stream) : IO Unit := do
  let line ← hin.getLine
  if line.isEmpty then return ()
  let t := line.trimAscii.toString
  if t.isEmpty then loop hin hout else
  hout.putStrLn (handleLine t)
  loop hin hout

def main : IO Unit := do
  let hin ← IO.getStdin
  let hout ← IO.getStdout
  loop hin hout
  hout.flush
