/-
  Independent specification for `superrec2.utils.subsequences` (property C18).

  Nothing here follows the loops of the code: containment and the keep/lost
  pattern are defined from `Nat.testBit`, and the number of lost segments is
  defined by counting the positions at which a maximal run of lost positions
  ends.  Core Lean only (this file is linked into the driver so that the
  harness can evaluate the specification on concrete inputs).
-/

namespace SR.SubseqSpec

/-- The child mask is (bitwise) contained in the parent mask: every set bit of
    the child is a set bit of the parent (`child & ~parent == 0`). -/
def Contained (child parent : Nat) : Prop :=
  ∀ i, child.testBit i = true → parent.testBit i = true

/-- Executable form of `Contained` (only the bits up to the top bit of the
    child matter). -/
def containedB (child parent : Nat) : Bool :=
  (List.range (child.log2 + 1)).all fun i => !child.testBit i || parent.testBit i

/-- The keep/lost pattern: for the positions of the parent's set bits, in
    increasing order, whether the child also has that bit (`true` = kept,
    `false` = lost). -/
def keptPattern (child parent : Nat) : List Bool :=
  ((List.range (parent.log2 + 1)).filter fun i => parent.testBit i).map fun i => child.testBit i

/-- Position `i` is the last position of a maximal run of `false` that is
    counted:
    * with `edges = true` every maximal run counts: `l[i]` is lost and the next
      position is not lost (kept, or past the end);
    * with `edges = false` runs touching either end are ignored: the next
      position must exist and be kept, and some earlier position must be kept. -/
def isCountedRunEnd (edges : Bool) (l : List Bool) (i : Nat) : Bool :=
  l[i]? == some false &&
    (if edges then l[i + 1]? != some false
     else l[i + 1]? == some true && (l.take i).contains true)

/-- Number of maximal runs of lost positions (`false`) of a pattern; the runs
    touching the first or the last position are dropped when `edges = false`.
    Each maximal run has exactly one last position, so runs are counted by
    their last positions. -/
def lostRuns (edges : Bool) (l : List Bool) : Nat :=
  (List.range l.length).countP (isCountedRunEnd edges l)

/-! A second, literal formulation of the same count, proved equivalent in
    `Proofs/SubseqRuns.lean` (`C18_runs_groups`): split the pattern into its
    maximal constant groups and count the groups of lost positions, after
    stripping the lost positions at both ends when the ends are excluded. -/

/-- Number of maximal constant groups made of `false`. -/
def lostGroups (l : List Bool) : Nat :=
  ((l.splitBy (· == ·)).filter fun g => g.head? == some false).length

/-- Strip the trailing lost positions. -/
def rstripLost (l : List Bool) : List Bool := (l.reverse.dropWhile (!·)).reverse

/-- Strip the leading and the trailing lost positions. -/
def trimLost (l : List Bool) : List Bool := rstripLost (l.dropWhile (!·))

/-- The value the property prescribes for `subseq_segment_dist` on a non-empty
    child mask. -/
def segmentDist (child parent : Nat) (edges : Bool) : Int :=
  if containedB child parent then (lostRuns edges (keptPattern child parent) : Nat) else -1

/-- The same count on sequences: `child` is a subsequence of `parent`; the
    pattern says for each parent element whether the child kept it. -/
def lostRunsSeq {α : Type} [DecidableEq α] (edges : Bool) (child parent : List α) : Nat :=
  lostRuns edges (parent.map fun x => decide (x ∈ child))

end SR.SubseqSpec
