/-
  Specification of "topological ordering", independent of any algorithm.
  Core Lean only (linked into the driver for the `c19_is_topo` op).
-/
import SRVerif.Model.Toposort

namespace SR.Toposort

/-- A graph as the Python code expects it: distinct keys, successor *sets*,
    every successor is itself a key. -/
def WF (g : Graph) : Prop :=
  (keys g).Nodup ∧ ∀ p ∈ g, p.2.Nodup ∧ ∀ v ∈ p.2, v ∈ keys g

/-- `o` is a topological ordering of `g`: it lists every vertex exactly once
    and, for every edge `u → v`, `u` occurs strictly before `v`
    (`o.index(u) < o.index(v)`).  A self-loop therefore admits no ordering. -/
def IsTopo (g : Graph) (o : List Nat) : Prop :=
  o.Nodup ∧ (∀ v ∈ o, v ∈ keys g) ∧ (∀ v ∈ keys g, v ∈ o) ∧
  ∀ p ∈ g, ∀ v ∈ p.2, o.idxOf p.1 < o.idxOf v

instance (g : Graph) : Decidable (WF g) := by unfold WF; infer_instance
instance (g : Graph) (o : List Nat) : Decidable (IsTopo g o) := by unfold IsTopo; infer_instance

end SR.Toposort
