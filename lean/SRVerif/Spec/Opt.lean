/-
  Specification side of the solver properties (C01–C05, C08–C10):

  * `validSol`  — what a valid, complete (super-)reconciliation is (C04);
  * `optTable`  — the optimum over ALL valid solutions, computed by the plain
    tree recursion "minimum over the states of both children of the
    evaluator's local cost" (DESIGN 6.3).  It shares nothing with the
    optimisers' role classification: its local cost is the cost evaluator's.
-/
import SRVerif.Model.Solvers

namespace SR.Spec

open SR

/-- All subsequences of a list. -/
def sublists {β : Type} : List β → List (List β)
  | [] => [[]]
  | x :: xs => (sublists xs).flatMap (fun l => [l, x :: l])

/-- Per-mode data needed to enumerate labels and evaluate local costs. -/
inductive ModeData where
  | plain
  | ordered (order : List Nat)
  | unordered
  deriving Repr

def ModeData.mode : ModeData → LabelMode
  | .plain => .plain
  | .ordered _ => .ordered
  | .unordered => .unordered

/-- Families whose gain node is an ancestor-or-self of the object node `p`:
    the content a node may hold in the unordered model. -/
def allowedContent (whole : OTree) (p : Path) : List Nat :=
  let lp := leafPaths whole
  (families whole).filter fun f =>
    Path.isAnc (lcpAll ((lp.filter (fun q => q.2.contains f)).map (·.1))) p

/-- Families below `p` that are not gained strictly below `p`: the content a
    node must hold (`_compute_lca_sets`, restated through paths). -/
def requiredContent (whole : OTree) (p : Path) : List Nat :=
  let lp := leafPaths whole
  (allowedContent whole p).filter fun f =>
    lp.any (fun q => Path.isAnc p q.1 && q.2.contains f)

/-- The labels an internal object node at path `p` may carry. -/
def labelSpace (md : ModeData) (whole : OTree) (p : Path) : List (List Nat) :=
  match md with
  | .plain => [[]]
  | .ordered order => if p.isEmpty then [order] else sublists order
  | .unordered =>
    let req := requiredContent whole p
    let opt := (allowedContent whole p).filter (fun f => !req.contains f)
    (sublists opt).map (fun extra => sortNat (req ++ extra))

/-- Is the edge labelling parent → child admissible? -/
def edgeOk (md : ModeData) (whole : OTree) (pc : Path) (f fc : List Nat) : Bool :=
  match md with
  | .plain => true
  | .ordered _ => isSublist fc f
  | .unordered => fc.all (fun x => f.contains x || (gainsAt whole pc).contains x)

/-- The evaluator's cost local to one internal node, `inf` when the event is
    invalid or the labelling inadmissible. -/
def localCost (c : Costs) (md : ModeData) (whole : OTree) (p : Path)
    (s : Path) (f : List Nat) (a : Path) (fa : List Nat) (b : Path) (fb : List Nat) : Cost :=
  if !(edgeOk md whole (p ++ [0]) f fa && edgeOk md whole (p ++ [1]) f fb) then .inf
  else
    let ev := internalEvent s a b
    let keepLeft := Path.comparable s a
    let losses : Option Nat :=
      match md with
      | .plain => some 0
      | .ordered order =>
        localOrdLosses ev keepLeft (maskFromSubseq f order) (maskFromSubseq fa order)
          (maskFromSubseq fb order)
      | .unordered => localUnordLosses ev keepLeft f fa fb
    match losses with
    | some k => localRecCost c s a b + .fin (k * c.sloss)
    | none => .inf

structure OCell where
  sp : Path
  fam : List Nat
  cost : Cost
  sols : List Sol
  deriving Repr

/-- Optimum of the subtree at object path `p` for every root state:
    `min over (ql, qr) of localCost q ql qr + opt l ql + opt r qr`, with all
    arg-minima when `keep`.  Only finite cells are listed. -/
def optTable (c : Costs) (S : RTree) (md : ModeData) (base keep : Bool) (whole : OTree) :
    Path → OTree → List OCell
  | _, .leaf sp f =>
    let f' := match md with
      | .plain => []
      | .ordered _ => f
      | .unordered => sortNat (dedup f)
    [{ sp := sp, fam := f', cost := .fin 0, sols := if keep then [.leaf sp f'] else [] }]
  | p, .node l r =>
    let L := optTable c S md base keep whole (p ++ [0]) l
    let R := optTable c S md base keep whole (p ++ [1]) r
    -- `base`: only solutions that use the LCA species mapping
    (if base then [(lcaSol (.node l r)).sp] else allSpecies S).flatMap fun s =>
      (labelSpace md whole p).filterMap fun f =>
        let cands := L.flatMap fun cl => R.map fun cr =>
          (localCost c md whole p s f cl.sp cl.fam cr.sp cr.fam + (cl.cost + cr.cost), cl, cr)
        let best := Cost.minList (cands.map (·.1))
        if best.isInf then none
        else
          let sols := if keep then
              (cands.filter (fun x => x.1 = best)).flatMap fun x =>
                x.2.1.sols.flatMap fun sl => x.2.2.sols.map fun sr => Sol.node s f sl sr
            else []
          some { sp := s, fam := f, cost := best, sols := sols }

/-- Root orders of the ordered model, by definition. -/
def modeDatas (mode : LabelMode) (o : OTree) (prescribed : Option (List Nat)) : List ModeData :=
  match mode with
  | .plain => [.plain]
  | .unordered => [.unordered]
  | .ordered => (rootOrders o prescribed).map .ordered

/-- The optimum over all valid solutions and (when `keep`) the optimal set. -/
def optimum (c : Costs) (S : RTree) (mode : LabelMode) (base keep : Bool) (o : OTree)
    (prescribed : Option (List Nat)) : Cost × List Sol :=
  let cells := (modeDatas mode o prescribed).flatMap fun md => optTable c S md base keep o [] o
  let best := Cost.minList (cells.map (·.cost))
  (best, dedup ((cells.filter (fun d => d.cost = best)).flatMap (·.sols)))

/-! ### Validity of a returned solution (C04) -/

/-- Same shape as the input, leaves in their given species, no invalid event. -/
def validRec : OTree → Sol → Bool
  | .leaf given _, .leaf s _ => s == given
  | .node ol or, .node s _ l r =>
    internalEvent s l.sp r.sp != .invalid && validRec ol l && validRec or r
  | _, _ => false

def isPermOf (a b : List Nat) : Bool :=
  a.length == b.length && a.all (fun x => b.contains x) && b.all (fun x => a.contains x)

/-- Ordered labelling: leaf syntenies are the input's, every child is a
    subsequence of its parent. -/
def validOrdLabels : OTree → Sol → Bool
  | .leaf _ f, .leaf _ g => f == g
  | .node ol or, .node _ f l r =>
    isSublist l.fam f && isSublist r.fam f && validOrdLabels ol l && validOrdLabels or r
  | _, _ => false

/-- Unordered labelling: leaf sets are the input's; a family occurs only at or
    below its gain node, and below it never at a node whose parent lacks it. -/
def validUnLabels (whole : OTree) : Path → OTree → Sol → Bool
  | _, .leaf _ f, .leaf _ g => g == sortNat (dedup f)
  | p, .node ol or, .node _ f l r =>
    f.all (fun x => (allowedContent whole p).contains x) &&
    edgeOk .unordered whole (p ++ [0]) f l.fam && edgeOk .unordered whole (p ++ [1]) f r.fam &&
    validUnLabels whole (p ++ [0]) ol l && validUnLabels whole (p ++ [1]) or r
  | _, _, _ => false

/-- Every assignment of species to the internal nodes (leaves keep theirs). -/
def allMappings (S : RTree) : OTree → List Sol
  | .leaf sp f => [.leaf sp f]
  | .node l r =>
    (allMappings S l).flatMap fun ml => (allMappings S r).flatMap fun mr =>
      (allSpecies S).map fun s => Sol.node s [] ml mr

/-- All valid reconciliations, by filtering every mapping. -/
def allValid (S : RTree) (o : OTree) : List Sol := (allMappings S o).filter (validRec o)

/-- A canonical unordered labelling: every internal node holds either its
    required content or its parent's content plus its own gains. -/
def canonicalUn (whole : OTree) : Path → List Nat → Sol → Bool
  | _, _, .leaf _ _ => true
  | p, parent, .node _ f l r =>
    (f == sortNat (requiredContent whole p) ||
      (!p.isEmpty && f == sortNat (dedup (parent ++ gainsAt whole p)))) &&
    canonicalUn whole (p ++ [0]) f l && canonicalUn whole (p ++ [1]) f r

def validSol (mode : LabelMode) (o : OTree) (sol : Sol) : Bool :=
  validRec o sol &&
  match mode with
  | .plain => true
  | .ordered => validOrdLabels o sol && isPermOf sol.fam (families o) && sol.fam.length == (dedup sol.fam).length
  | .unordered => validUnLabels o [] o sol

end SR.Spec
