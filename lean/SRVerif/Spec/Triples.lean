/-
  Specification vocabulary for C20, independent of the algorithms:
  clades of a leaf-labelled tree, "the tree displays the rooted triple ab|c",
  binary trees, equality up to child order (= equal clade sets).
  Core Lean only (the driver evaluates these for the harness).
-/
import SRVerif.Model.Triples

namespace SR.Tri.Spec

open SR.Tri LTree

mutual
  /-- The leaf sets of all nodes of the tree (leaves included), pre-order. -/
  def clades : LTree → List (List Nat)
    | .leaf a => [[a]]
    | .node cs => leavesL cs :: cladesL cs
  def cladesL : List LTree → List (List Nat)
    | [] => []
    | c :: cs => clades c ++ cladesL cs
end

/-- Two lists have the same elements. -/
def sameSet (a b : List Nat) : Bool := a.all b.contains && b.all a.contains

/-- `ab|c` is displayed: the three leaves are leaves of the tree and some node
    is above `a` and `b` but not above `c` (with distinct leaf names this is
    "lca(a,b) is a strict descendant of lca(a,c) = lca(b,c)"). -/
def displays (t : LTree) (tr : Triple) : Bool :=
  t.leaves.contains tr.1 && t.leaves.contains tr.2.1 && t.leaves.contains tr.2.2 &&
  (clades t).any (fun c => c.contains tr.1 && c.contains tr.2.1 && !c.contains tr.2.2)

/-- A proper triple: three different leaves. -/
def proper (tr : Triple) : Bool := tr.1 != tr.2.1 && tr.1 != tr.2.2 && tr.2.1 != tr.2.2

/-- Every clade of `t` is (as a set) a clade of `u`. -/
def cladesSub (t u : LTree) : Bool := (clades t).all (fun c => (clades u).any (sameSet c))

/-- Equality up to child order (for trees with distinct leaf names). -/
def sameClades (t u : LTree) : Bool := cladesSub t u && cladesSub u t

/-- Every internal node has exactly two children. -/
def binary (t : LTree) : Bool := t.isBinary

/-- The tree's leaves are exactly the given ones, each once. -/
def hasLeaves (t : LTree) (ls : List Nat) : Prop := t.leaves.Perm ls

end SR.Tri.Spec
