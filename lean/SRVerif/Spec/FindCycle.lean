/-
  Specification vocabulary for directed cycles, independent of any
  algorithm.  Core Lean only (linked into the driver for `c19_is_cycle`).
-/
import SRVerif.Model.Toposort

namespace SR.Toposort

/-- `u → v` is an edge of `g` (`v in graph[u]`). -/
def Arc (g : Graph) (u v : Nat) : Prop := ∃ p ∈ g, p.1 = u ∧ v ∈ p.2

/-- Consecutive elements are related. -/
def Chain (R : Nat → Nat → Prop) : List Nat → Prop
  | [] => True
  | [_] => True
  | a :: b :: r => R a b ∧ Chain R (b :: r)

/-- `c = [c₀, …, cₖ]` (k ≥ 0) is a closed walk `c₀ → c₁ → … → cₖ → c₀`.
    A self-loop is the cycle `[v]`. -/
def IsCycle (g : Graph) : List Nat → Prop
  | [] => False
  | a :: l => Chain (Arc g) (a :: l ++ [a])

/-- No closed walk at all (in particular no self-loop). -/
def Acyclic (g : Graph) : Prop := ∀ c, ¬ IsCycle g c

/-- `WalkTo g i v w`: `w` is the vertex sequence, LAST vertex first, of a
    walk from `i` to `v` (`[i]` is the empty walk). -/
inductive WalkTo (g : Graph) (i : Nat) : Nat → List Nat → Prop
  | nil : WalkTo g i i [i]
  | snoc {u v : Nat} {w : List Nat} : WalkTo g i u w → Arc g u v → WalkTo g i v (v :: w)

/-- Every vertex is reached from `i` by at most one walk: the part of `g`
    reachable from `i` is an out-tree rooted at `i`. -/
def UniqueWalks (g : Graph) (i : Nat) : Prop :=
  ∀ v w₁ w₂, WalkTo g i v w₁ → WalkTo g i v w₂ → w₁ = w₂

instance (g : Graph) (u v : Nat) : Decidable (Arc g u v) := by unfold Arc; infer_instance

instance chainDec (R : Nat → Nat → Prop) [DecidableRel R] : (l : List Nat) → Decidable (Chain R l)
  | [] => isTrue trivial
  | [_] => isTrue trivial
  | a :: b :: r =>
    match (inferInstance : Decidable (R a b)), chainDec R (b :: r) with
    | isTrue h1, isTrue h2 => isTrue ⟨h1, h2⟩
    | isFalse h1, _ => isFalse (fun h => h1 h.1)
    | _, isFalse h2 => isFalse (fun h => h2 h.2)

instance (g : Graph) : (c : List Nat) → Decidable (IsCycle g c)
  | [] => isFalse (fun h => h)
  | a :: l => chainDec (Arc g) (a :: l ++ [a])

end SR.Toposort
