/-
  Validity of a returned solution when the root order is PRESCRIBED (ordered model).

  `Spec.validSol .ordered` asks the root synteny to be a duplicate-free arrangement of exactly the
  families the leaves carry — the right notion when the solver chooses the root order.  With a
  prescribed root order (a common supersequence of the leaf syntenies, possibly holding families
  that no leaf carries) the root must instead BE the prescribed order.
-/
import SRVerif.Spec.Opt

namespace SR.Spec

open SR

def validSolPre (mode : LabelMode) (o : OTree) (pre : Option (List Nat)) (sol : Sol) : Bool :=
  match mode, pre with
  | .ordered, some r =>
    validRec o sol && validOrdLabels o sol && sol.fam == r && r.length == (dedup r).length
  | _, _ => validSol mode o sol

end SR.Spec
