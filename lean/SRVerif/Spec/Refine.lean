/-
  Specification side of C08: what a binary refinement of a tree is, when two
  binary trees are the same up to the order of children, and how many binary
  refinements there are.  Nothing here mentions `graft` / `arrange`.

  * `IsRefinement b t`: `b` is binary, has the same leaves, and every clade
    (leaf set of an internal node) of `t` is a clade of `b`.
  * `KeepsAnn b t`: every internal node of `t` is found in `b` with the same
    clade and the same annotation (name/colour), and every annotated node of
    `b` comes from `t`.
  * `BTree.Equiv` / `BinT.Equiv`: equality up to child order (annotations
    ignored on `BinT`: it compares topologies).
  * `dfact`, `refCount`: (2k−3)!! per node with k children.
  * executable versions on sorted clades for the driver (`isRefinementB`,
    `keepsAnnB`), proved equivalent in `Proofs/BinarizeTree.lean`.

  Core Lean only.
-/
import SRVerif.Model.Binarize

namespace SR.Bin

/-! ### Same up to child order -/

/-- Equality of arrangements up to the order of the two children of any node. -/
inductive BTree.Equiv {α : Type} : BTree α → BTree α → Prop where
  | item (a : α) : BTree.Equiv (.item a) (.item a)
  | congr {l r l' r' : BTree α} : BTree.Equiv l l' → BTree.Equiv r r' →
      BTree.Equiv (.node l r) (.node l' r')
  | swap {l r l' r' : BTree α} : BTree.Equiv l r' → BTree.Equiv r l' →
      BTree.Equiv (.node l r) (.node l' r')

/-- The topology of a binary tree: leaves as items, annotations erased. -/
def BinT.skel : BinT → BTree Nat
  | .leaf i => .item i
  | .node _ l r => .node l.skel r.skel

/-- Two binary trees have the same topology up to child order. -/
def BinT.Equiv (a b : BinT) : Prop := BTree.Equiv a.skel b.skel

namespace Spec

/-- `n‼` (double factorial): `(2k−3)‼` is the number of rooted binary trees on
    `k ≥ 1` labelled leaves (truncated subtraction: `k = 1 ↦ 0‼ = 1`). -/
def dfact : Nat → Nat
  | 0 => 1
  | 1 => 1
  | n + 2 => (n + 2) * dfact n

mutual
  /-- Number of binary refinements: Π over internal nodes of (2k−3)‼. -/
  def refCount : NTree → Nat
    | .leaf _ => 1
    | .node _ cs => dfact (2 * cs.length - 3) * refCountList cs
  def refCountList : List NTree → Nat
    | [] => 1
    | c :: cs => refCount c * refCountList cs
end

/-- `b` is a binary refinement of `t`. -/
def IsRefinement (b t : NTree) : Prop :=
  b.isBinary = true ∧ b.leaves.Perm t.leaves ∧
    ∀ c ∈ t.inner, ∃ c' ∈ b.inner, c'.1.Perm c.1

/-- Names and colours of the original nodes sit on the node with the same
    clade; all other nodes are unannotated. -/
def KeepsAnn (b t : NTree) : Prop :=
  (∀ c ∈ t.inner, ∃ c' ∈ b.inner, c'.1.Perm c.1 ∧ c'.2 = c.2) ∧
  (∀ c' ∈ b.inner, c'.2 ≠ none → ∃ c ∈ t.inner, c'.1.Perm c.1 ∧ c'.2 = c.2)

/-! ### Executable versions (driver) -/

def sortIds (l : List Nat) : List Nat := l.mergeSort (fun a b => decide (a ≤ b))

def isRefinementB (b t : NTree) : Bool :=
  b.isBinary && sortIds b.leaves == sortIds t.leaves &&
    t.inner.all (fun c => b.inner.any (fun c' => sortIds c'.1 == sortIds c.1))

def keepsAnnB (b t : NTree) : Bool :=
  t.inner.all (fun c => b.inner.any (fun c' => sortIds c'.1 == sortIds c.1 && c'.2 == c.2)) &&
  b.inner.all (fun c' => c'.2 == none ||
    t.inner.any (fun c => sortIds c'.1 == sortIds c.1 && c'.2 == c.2))

/-- Canonical form of a binary tree for comparison up to child order: the
    internal nodes as (sorted clade, annotation).  (The harness sorts the list.) -/
def canon (b : BinT) : List (List Nat × Option Nat) :=
  b.inner.map (fun c => (sortIds c.1, c.2))

end Spec

end SR.Bin
