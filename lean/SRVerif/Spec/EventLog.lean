/-
  Independent recount of the cost of a (super-)reconciliation (property C06).

  Nothing here uses the evaluator's ingredients (`Path.isAnc`, `Path.lcp`,
  `Path.dist`, subsequence masks, `subseqSegmentDist`).  The documented event
  model is restated from first principles on species-as-paths:

  * `descend s a` *walks* from species `s` down to species `a` and returns the
    child indices followed (`none` when `a` is not in the subtree of `s`);
  * the event of an internal node mapped to `s` with children mapped to `a`, `b`
    is read off the two walks (`classify`);
  * a vertical branch from `s` down to `a` crosses the species listed by
    `vertical s a` (`s` itself included, `a` excluded); every crossed species
    is one full loss, except `s` itself at a speciation (there both lineages
    below `s` are legitimately populated);
  * segmental losses are counted on the synteny *sequences* (ordered model:
    maximal runs of consecutive parent families absent from the child,
    `SubseqSpec.lostRunsSeq`) or *sets* (unordered model: one per charged
    branch whose child lacks a parent family).

  The result is an explicit list of event records (`eventLog`); the recount is
  the sum of the unit costs of the records.  Core Lean only, executable.
-/
import SRVerif.Model.Rec
import SRVerif.Spec.Subseq

namespace SR.EventLog

open SR SR.SubseqSpec

/-- One record of the event log. -/
inductive Ev where
  /-- speciation / duplication / transfer at an object node mapped to `sp` -/
  | spec (sp : Path)
  | dup (sp : Path)
  | hgt (sp : Path)
  /-- a full loss: the vertical branch crossed species `sp` -/
  | floss (sp : Path)
  /-- one lost segment -/
  | sloss
  /-- the node (mapped to `sp`) fits no event of the model -/
  | invalid (sp : Path)
  deriving Repr, DecidableEq

/-- Walk down from `s` to `a`: the child indices to follow; `none` when `a`
    does not lie in the subtree of `s`. -/
def descend : Path → Path → Option (List Nat)
  | [], a => some a
  | _ :: _, [] => none
  | i :: s, j :: a => if i = j then descend s a else none

/-- `b` lies strictly above `s`: walking down from `b` reaches `s` in at least
    one step. -/
def strictlyAbove (b s : Path) : Bool :=
  match descend b s with
  | some (_ :: _) => true
  | _ => false

inductive Kind where
  | spec | dup | hgt | invalid
  deriving Repr, DecidableEq

/-- The event at an internal node mapped to `s` whose children are mapped to
    `a` and `b`:
    * both children below-or-at `s`, reached through two *different* child
      branches of `s`: speciation;
    * both below-or-at `s` otherwise (one stays in `s`, or both go down the
      same branch): duplication;
    * exactly one below-or-at `s` and the other not strictly above `s`: transfer
      (the child outside the subtree of `s` is the transferred one);
    * anything else does not fit the model. -/
def classify (s a b : Path) : Kind :=
  match descend s a, descend s b with
  | some wa, some wb =>
    match wa, wb with
    | i :: _, j :: _ => if i = j then .dup else .spec
    | _, _ => .dup
  | some _, none => if strictlyAbove b s then .invalid else .hgt
  | none, some _ => if strictlyAbove a s then .invalid else .hgt
  | none, none => .invalid

/-- The species visited when walking from `s` along the child indices `w`:
    the start included, the end excluded. -/
def visited (s : Path) : List Nat → List Path
  | [] => []
  | i :: w => s :: visited (s ++ [i]) w

/-- Species crossed by the vertical branch from `s` down to `a` (`s` included,
    `a` excluded); empty when `a` is not below `s` (no vertical branch). -/
def vertical (s a : Path) : List Path :=
  match descend s a with
  | some w => visited s w
  | none => []

/-- Records of the reconciliation part for one internal node. -/
def nodeRecLog (s a b : Path) : List Ev :=
  match classify s a b with
  | .spec => .spec s :: (((vertical s a).drop 1) ++ ((vertical s b).drop 1)).map .floss
  | .dup => .dup s :: (vertical s a ++ vertical s b).map .floss
  -- the transferred child has no vertical branch (`vertical` is empty for it)
  | .hgt => .hgt s :: (vertical s a ++ vertical s b).map .floss
  | .invalid => [.invalid s]

/-- Does the left child stay in the subtree of `s` (conserved child of a transfer)? -/
def leftConserved (s a : Path) : Bool := (descend s a).isSome

/-- Ordered model: lost segments at one internal node with synteny `f` whose
    children hold `fl`, `fr`.  A *full* copy is charged for every maximal run
    of consecutive families of `f` it lacks; the *partial* copy is not charged
    for the runs touching either end.  Speciation: two full copies.
    Duplication: one full and one partial copy, the cheaper choice.  Transfer:
    the conserved child is the full copy, the transferred child the partial one. -/
def nodeOrdLosses (k : Kind) (keepLeft : Bool) (f fl fr : List Nat) : Nat :=
  match k with
  | .spec => lostRunsSeq true fl f + lostRunsSeq true fr f
  | .dup =>
    Nat.min (lostRunsSeq true fl f + lostRunsSeq false fr f)
      (lostRunsSeq false fl f + lostRunsSeq true fr f)
  | .hgt =>
    if keepLeft then lostRunsSeq true fl f + lostRunsSeq false fr f
    else lostRunsSeq false fl f + lostRunsSeq true fr f
  | .invalid => 0

/-- Set view: the child lacks some family of the parent (`parent ⊄ child`). -/
def lacks (f child : List Nat) : Bool := f.any fun x => decide (x ∉ child)

/-- Unordered model: one loss per charged branch whose child lacks a family of
    the parent.  Speciation charges both branches, duplication the cheaper of
    the two, transfer only the conserved child. -/
def nodeUnordLosses (k : Kind) (keepLeft : Bool) (f fl fr : List Nat) : Nat :=
  let lc := if lacks f fl then 1 else 0
  let rc := if lacks f fr then 1 else 0
  match k with
  | .spec => lc + rc
  | .dup => Nat.min lc rc
  | .hgt => if keepLeft then lc else rc
  | .invalid => 0

def nodeLosses (mode : LabelMode) (s : Path) (f : List Nat) (l r : Sol) : Nat :=
  match mode with
  | .plain => 0
  | .ordered =>
    nodeOrdLosses (classify s l.sp r.sp) (leftConserved s l.sp) f l.fam r.fam
  | .unordered =>
    nodeUnordLosses (classify s l.sp r.sp) (leftConserved s l.sp) f l.fam r.fam

/-- The event log of a solution, node by node in pre-order; `mode = .plain`
    gives the reconciliation part alone. -/
def eventLog (mode : LabelMode) : Sol → List Ev
  | .leaf _ _ => []
  | .node s f l r =>
    nodeRecLog s l.sp r.sp ++ List.replicate (nodeLosses mode s f l r) .sloss
      ++ (eventLog mode l ++ eventLog mode r)

/-- The reconciliation part of the log. -/
def recLog (sol : Sol) : List Ev := eventLog .plain sol

/-- Number of segmental losses, summed over the internal nodes. -/
def segLosses (mode : LabelMode) : Sol → Nat
  | .leaf _ _ => 0
  | .node s f l r => nodeLosses mode s f l r + (segLosses mode l + segLosses mode r)

/-- Unit cost of a record. -/
def unit (c : Costs) : Ev → Cost
  | .spec _ => .fin c.spe
  | .dup _ => .fin c.dup
  | .hgt _ => c.hgt
  | .floss _ => .fin c.floss
  | .sloss => .fin c.sloss
  | .invalid _ => .inf

/-- The recount: sum of the unit costs of the records. -/
def recount (c : Costs) : List Ev → Cost
  | [] => .fin 0
  | e :: es => unit c e + recount c es

/-! ### Counts per kind (the summary returned by the driver) -/

def nSpec (log : List Ev) : Nat := log.countP fun e => match e with | .spec _ => true | _ => false
def nDup (log : List Ev) : Nat := log.countP fun e => match e with | .dup _ => true | _ => false
def nHgt (log : List Ev) : Nat := log.countP fun e => match e with | .hgt _ => true | _ => false
def nFloss (log : List Ev) : Nat := log.countP fun e => match e with | .floss _ => true | _ => false
def nSloss (log : List Ev) : Nat := log.countP fun e => match e with | .sloss => true | _ => false
def nInvalid (log : List Ev) : Nat :=
  log.countP fun e => match e with | .invalid _ => true | _ => false

/-- The species of the full-loss records, in log order. -/
def lossSpecies (log : List Ev) : List Path :=
  log.filterMap fun e => match e with | .floss p => some p | _ => none

/-- `n` transfers cost `n` times the transfer cost (`0` transfers cost nothing,
    even at an infinite unit cost). -/
def times (n : Nat) (x : Cost) : Cost := if n = 0 then .fin 0 else Cost.scale n x

/-- The recount as a linear form in the unit costs. -/
def linearForm (c : Costs) (log : List Ev) : Cost :=
  .fin (c.spe * nSpec log + c.dup * nDup log + c.floss * nFloss log + c.sloss * nSloss log)
    + (times (nHgt log) c.hgt + times (nInvalid log) .inf)

/-- Pre-order list of the event kinds of the internal nodes. -/
def kinds : Sol → List Kind
  | .leaf _ _ => []
  | .node s _ l r => classify s l.sp r.sp :: (kinds l ++ kinds r)

/-- Scaling and comparison of cost vectors (C06_linear, C09). -/
def scaleCosts (k : Nat) (c : Costs) : Costs :=
  { spe := k * c.spe, dup := k * c.dup, hgt := Cost.scale k c.hgt,
    floss := k * c.floss, sloss := k * c.sloss }

def leCosts (c d : Costs) : Prop :=
  c.spe ≤ d.spe ∧ c.dup ≤ d.dup ∧ Cost.le c.hgt d.hgt = true ∧ c.floss ≤ d.floss ∧ c.sloss ≤ d.sloss

/-- Guard of the ordered clause: every leaf synteny of the input is non-empty. -/
def leafFamsNonempty : OTree → Bool
  | .leaf _ f => !f.isEmpty
  | .node l r => leafFamsNonempty l && leafFamsNonempty r

end SR.EventLog
