/-
  Lemmas for C11: dictionaries, nodes of a named tree (pre-order and level
  order enumerate exactly the valid paths), lookup by name.
-/
import SRVerif.Model.Serialize

namespace SR.Ser

/-! ## Dictionaries -/

namespace Dict

variable {κ ν : Type} [BEq κ] [LawfulBEq κ]

theorem set_of_not_mem (d : List (κ × ν)) (k : κ) (v : ν) (h : k ∉ d.map (·.1)) :
    set d k v = d ++ [(k, v)] := by
  induction d with
  | nil => rfl
  | cons x r ih =>
    obtain ⟨k', v'⟩ := x
    simp only [List.map_cons, List.mem_cons, not_or] at h
    have hne : (k' == k) = false := by
      simp only [beq_eq_false_iff_ne, ne_eq]
      exact fun e => h.1 e.symm
    simp [set, hne, ih h.2]

theorem foldl_set_nodup (l acc : List (κ × ν)) (h : ((acc ++ l).map (·.1)).Nodup) :
    l.foldl (fun d kv => set d kv.1 kv.2) acc = acc ++ l := by
  induction l generalizing acc with
  | nil => simp
  | cons x r ih =>
    simp only [List.foldl_cons]
    have hx : x.1 ∉ acc.map (·.1) := by
      simp only [List.map_append, List.map_cons] at h
      have := (List.nodup_append.1 h).2.2
      intro hm
      exact this _ hm _ (List.mem_cons_self) rfl
    rw [set_of_not_mem acc x.1 x.2 hx, ih]
    · simp
    · simpa using h

/-- A comprehension whose keys are pairwise distinct is the list itself. -/
theorem ofList_nodup (l : List (κ × ν)) (h : (l.map (·.1)).Nodup) : ofList l = l := by
  unfold ofList
  rw [foldl_set_nodup l [] (by simpa using h)]
  simp

end Dict


/-! ## Nodes of a named tree -/

namespace NT

theorem nil_not_mem_preL (cs : List NT) (k : Nat) (s : NT) : ([], s) ∉ preL cs k := by
  induction cs generalizing k with
  | nil => simp [preL]
  | cons c cs ih => simp [preL, ih]

theorem sub_nil (t : NT) : t.sub [] = some t := by
  cases t; rfl

theorem sub_cons (t : NT) (i : Nat) (p : Path) :
    t.sub (i :: p) = (t.children[i]?).bind (fun c => c.sub p) := by
  cases t with
  | node n c cs =>
    simp only [sub, children]
    cases cs[i]? <;> rfl

mutual
  theorem mem_pre : ∀ (t : NT) (p : Path) (s : NT), (p, s) ∈ t.pre ↔ t.sub p = some s
    | .node n c cs, [], s => by
      simp [pre, sub, nil_not_mem_preL, eq_comm]
    | .node n c cs, i :: q, s => by
      have h := mem_preL cs 0 i q s
      simp only [pre, List.mem_cons, Prod.mk.injEq, reduceCtorEq, false_and, false_or, h,
        sub_cons, children]
      cases hc : cs[i]? <;> simp
  theorem mem_preL : ∀ (cs : List NT) (k i : Nat) (q : Path) (s : NT),
      (i :: q, s) ∈ preL cs k ↔ ∃ c, k ≤ i ∧ cs[i - k]? = some c ∧ c.sub q = some s
    | [], k, i, q, s => by simp [preL]
    | c :: cs, k, i, q, s => by
      have h1 := mem_pre c q s
      have h2 := mem_preL cs (k + 1) i q s
      simp only [preL, List.mem_append, List.mem_map, Prod.mk.injEq, List.cons.injEq, h2]
      constructor
      · rintro (⟨⟨q', s'⟩, hm, ⟨rfl, rfl⟩, rfl⟩ | ⟨c', hk, hc', hs⟩)
        · exact ⟨c, Nat.le_refl _, by simp, (mem_pre c _ _).1 hm⟩
        · refine ⟨c', by omega, ?_, hs⟩
          have : i - k = (i - (k + 1)) + 1 := by omega
          rw [this]; simpa using hc'
      · rintro ⟨c', hk, hc', hs⟩
        by_cases hik : i = k
        · subst hik
          simp only [Nat.sub_self, List.getElem?_cons_zero, Option.some.injEq] at hc'
          subst hc'
          exact Or.inl ⟨(q, s), h1.2 hs, ⟨rfl, rfl⟩, rfl⟩
        · refine Or.inr ⟨c', by omega, ?_, hs⟩
          have : i - k = (i - (k + 1)) + 1 := by omega
          rw [this] at hc'; simpa using hc'
end


theorem size_le_sizeL {c : NT} {cs : List NT} (h : c ∈ cs) : c.size ≤ sizeL cs := by
  induction cs with
  | nil => cases h
  | cons d ds ih =>
    simp only [sizeL]
    rcases List.mem_cons.1 h with rfl | h'
    · omega
    · have := ih h'; omega

theorem size_pos (t : NT) : 0 < t.size := by
  cases t; simp [size]; omega

theorem length_lt_size_of_sub : ∀ (p : Path) (t s : NT), t.sub p = some s → p.length < t.size
  | [], t, _, _ => by simpa using size_pos t
  | i :: q, t, s, h => by
    rw [sub_cons] at h
    cases hc : t.children[i]? with
    | none => simp [hc] at h
    | some c =>
      simp only [hc, Option.bind_some] at h
      have ih := length_lt_size_of_sub q c s h
      have hm : c ∈ t.children := List.mem_of_getElem? hc
      have := size_le_sizeL hm
      cases t with
      | node n col cs =>
        simp only [children] at this
        simp only [size, List.length_cons]
        omega

theorem mem_childrenP_go (p : Path) (cs : List NT) (k : Nat) (q : Path) (c : NT) :
    (q, c) ∈ childrenP.go p k cs ↔ ∃ j, q = p ++ [k + j] ∧ cs[j]? = some c := by
  induction cs generalizing k with
  | nil => simp [childrenP.go]
  | cons d ds ih =>
    simp only [childrenP.go, List.mem_cons, Prod.mk.injEq, ih]
    constructor
    · rintro (⟨rfl, rfl⟩ | ⟨j, rfl, hj⟩)
      · exact ⟨0, by simp, by simp⟩
      · exact ⟨j + 1, by simp; omega, by simpa using hj⟩
    · rintro ⟨j, rfl, hj⟩
      cases j with
      | zero => left; simpa using hj.symm
      | succ j => right; exact ⟨j, by simp; omega, by simpa using hj⟩

theorem mem_childrenP (x : Path × NT) (q : Path) (c : NT) :
    (q, c) ∈ childrenP x ↔ ∃ i, q = x.1 ++ [i] ∧ x.2.children[i]? = some c := by
  unfold childrenP
  rw [mem_childrenP_go]
  simp

/-- `k`-fold expansion of a level. -/
def iterC : Nat → List (Path × NT) → List (Path × NT)
  | 0, l => l
  | k + 1, l => iterC k (l.flatMap childrenP)

theorem iterC_nil (k : Nat) : iterC k [] = [] := by
  induction k with
  | zero => rfl
  | succ k ih => simpa [iterC] using ih

theorem mem_bfs (fuel : Nat) (lvl : List (Path × NT)) (x : Path × NT) :
    x ∈ bfs fuel lvl ↔ ∃ k, k < fuel ∧ x ∈ iterC k lvl := by
  induction fuel generalizing lvl with
  | zero => simp [bfs]
  | succ f ih =>
    cases lvl with
    | nil => simp [bfs, iterC_nil]
    | cons a l =>
      simp only [bfs, List.mem_append, ih]
      constructor
      · rintro (h | ⟨k, hk, h⟩)
        · exact ⟨0, by omega, h⟩
        · exact ⟨k + 1, by omega, h⟩
      · rintro ⟨k, hk, h⟩
        cases k with
        | zero => exact Or.inl h
        | succ k => exact Or.inr ⟨k, by omega, h⟩

theorem mem_iterC (k : Nat) (l : List (Path × NT)) (q : Path) (c : NT) :
    (q, c) ∈ iterC k l ↔
      ∃ x ∈ l, ∃ r : Path, r.length = k ∧ q = x.1 ++ r ∧ x.2.sub r = some c := by
  induction k generalizing l with
  | zero =>
    simp only [iterC]
    constructor
    · intro h
      exact ⟨(q, c), h, [], rfl, by simp, sub_nil c⟩
    · rintro ⟨⟨p, s⟩, hx, r, hr, rfl, hs⟩
      have : r = [] := List.eq_nil_of_length_eq_zero hr
      subst this
      simp only [sub_nil, Option.some.injEq] at hs
      subst hs
      simpa using hx
  | succ k ih =>
    simp only [iterC, ih, List.mem_flatMap]
    constructor
    · rintro ⟨⟨p', s'⟩, ⟨⟨p, s⟩, hx, hc⟩, r, hr, rfl, hs⟩
      obtain ⟨i, rfl, hi⟩ := (mem_childrenP _ _ _).1 hc
      refine ⟨(p, s), hx, i :: r, by simp [hr], by simp, ?_⟩
      simp only at hi
      simp [sub_cons, hi, hs]
    · rintro ⟨⟨p, s⟩, hx, r, hr, rfl, hs⟩
      cases r with
      | nil => simp at hr
      | cons i r =>
        rw [sub_cons] at hs
        cases hc : s.children[i]? with
        | none => simp [hc] at hs
        | some s' =>
          simp only [hc, Option.bind_some] at hs
          refine ⟨(p ++ [i], s'), ⟨(p, s), hx, (mem_childrenP _ _ _).2 ⟨i, rfl, hc⟩⟩, r, ?_, by simp, hs⟩
          simpa using hr

/-- Level order enumerates exactly the nodes. -/
theorem mem_levelOrder (t : NT) (p : Path) (s : NT) :
    (p, s) ∈ t.levelOrder ↔ t.sub p = some s := by
  unfold levelOrder
  rw [mem_bfs]
  constructor
  · rintro ⟨k, _, h⟩
    obtain ⟨x, hx, r, _, rfl, hs⟩ := (mem_iterC _ _ _ _).1 h
    simp only [List.mem_singleton] at hx
    subst hx
    simpa using hs
  · intro h
    exact ⟨p.length, length_lt_size_of_sub p t s h,
      (mem_iterC _ _ _ _).2 ⟨([], t), by simp, p, rfl, by simp, h⟩⟩

theorem eq_of_nodup_map {α β : Type} (f : α → β) :
    ∀ {l : List α}, (l.map f).Nodup → ∀ {a b : α}, a ∈ l → b ∈ l → f a = f b → a = b
  | [], _, _, _, ha, _, _ => by cases ha
  | x :: l, h, a, b, ha, hb, hf => by
    simp only [List.map_cons, List.nodup_cons, List.mem_map, not_exists, not_and] at h
    rcases List.mem_cons.1 ha with rfl | ha' <;> rcases List.mem_cons.1 hb with rfl | hb'
    · rfl
    · exact absurd hf.symm (h.1 b hb')
    · exact absurd hf (h.1 a ha')
    · exact eq_of_nodup_map f h.2 ha' hb' hf

/-- Under unique names, a name determines the node. -/
theorem path_eq_of_name_eq {t : NT} (hu : t.UniqueNames) {p q : Path} {a b : NT}
    (hp : t.sub p = some a) (hq : t.sub q = some b) (hn : a.name = b.name) : p = q := by
  have h1 := (mem_pre t p a).2 hp
  have h2 := (mem_pre t q b).2 hq
  have := eq_of_nodup_map (fun x : Path × NT => x.2.name) hu h1 h2 hn
  exact congrArg Prod.fst this

/-- `tree & name` finds the node carrying a name when names are unique. -/
theorem findPath_name {t : NT} (hu : t.UniqueNames) {p : Path} {s : NT}
    (hp : t.sub p = some s) : t.findPath s.name = some p := by
  unfold findPath
  have hm : (p, s) ∈ t.levelOrder := (mem_levelOrder t p s).2 hp
  cases hf : t.levelOrder.find? (fun x => x.2.name == s.name) with
  | none =>
    have := List.find?_eq_none.1 hf (p, s) hm
    simp at this
  | some y =>
    obtain ⟨q, b⟩ := y
    have hb : b.name = s.name := by simpa using List.find?_some hf
    have hq : t.sub q = some b := (mem_levelOrder t q b).1 (List.mem_of_find?_eq_some hf)
    simp only [Option.map_some, Option.some.injEq]
    exact path_eq_of_name_eq hu hq hp hb

theorem findPath_some_sub {t : NT} {nm : String} {p : Path} (h : t.findPath nm = some p) :
    ∃ s, t.sub p = some s ∧ s.name = nm := by
  unfold findPath at h
  cases hf : t.levelOrder.find? (fun x => x.2.name == nm) with
  | none => simp [hf] at h
  | some y =>
    obtain ⟨q, b⟩ := y
    simp only [hf, Option.map_some, Option.some.injEq] at h
    subst h
    exact ⟨b, (mem_levelOrder t q b).1 (List.mem_of_find?_eq_some hf),
      by simpa using List.find?_some hf⟩

theorem nameAt_of_sub {t : NT} {p : Path} {s : NT} (h : t.sub p = some s) :
    t.nameAt p = s.name := by
  simp [nameAt, h]

end NT

end SR.Ser
