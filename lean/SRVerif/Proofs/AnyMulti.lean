/-
  The result entry fed by all pairs of refinements, under ANY (`rankOutsAny`), against the
  same entry under ALL (`rankOuts`).

  Setting: `candsAll S o` are the per-input candidates of the ALL run (`spfsCands`,
  `uspfsCands`), `candsAny S o` what the same input offers under ANY.  `Covers` is all that
  is needed of one refined input: under ANY it offers only ALL candidates, and every ALL
  candidate is matched by an offered one that is not more expensive.

  * `covers_of_rep`     one output per root cell (`RepG`) + evaluated cost constant on every
                        cell (`Uniform`) give `Covers`  (the real code: tables under ANY);
  * `covers_of_ranked`  so does "the offered outputs are arg-minima of the ALL candidates,
                        and there is one whenever there is a candidate" (nested variant);
  * `rank_multi_any_sub`, `multiCands_nil_iff`, `rankOutsAny_*`  the consequences.
-/
import SRVerif.Model.AnyMulti
import SRVerif.Proofs.LabelDPAnyRank
import SRVerif.Proofs.BinarizeOptAllMulti

namespace SR.Bin

open SR Cost

/-- What one refined input `(S, o)` must satisfy. -/
def Covers (c : Costs) (mode : LabelMode) (o : OTree) (ca cl : List Sol) : Prop :=
  (∀ s ∈ ca, s ∈ cl) ∧ (∀ t ∈ cl, ∃ t' ∈ ca, totalCost c mode o t' ≼ totalCost c mode o t)

theorem covers_of_rep {c : Costs} {mode : LabelMode} {o : OTree} {ca cl : List Sol}
    {groups : List (List Sol)} (hcl : ∀ s, s ∈ cl ↔ ∃ g ∈ groups, s ∈ g) (hrep : RepG ca groups)
    (hu : Uniform (totalCost c mode o) groups) : Covers c mode o ca cl := by
  constructor
  · intro s hs
    exact (hcl s).mpr (hrep.1 s hs)
  · intro t ht
    obtain ⟨g, hg, htg⟩ := (hcl t).mp ht
    obtain ⟨t', ht', ht'g⟩ := hrep.2 g hg
    exact ⟨t', ht', Cost.le_of_eq (hu g hg t' ht'g t htg)⟩

theorem covers_of_ranked {c : Costs} {mode : LabelMode} {o : OTree} {ca cl : List Sol}
    (hsub : ∀ s ∈ ca, s ∈ rankByCost c mode o cl) (hne : cl ≠ [] → ca ≠ []) :
    Covers c mode o ca cl := by
  constructor
  · intro s hs
    exact ((mem_rankByCost c mode o cl s).mp (hsub s hs)).1
  · intro t ht
    obtain ⟨t', ht'⟩ := List.exists_mem_of_ne_nil _ (hne (List.ne_nil_of_mem ht))
    exact ⟨t', ht', ((mem_rankByCost c mode o cl t').mp (hsub t' ht')).2 t ht⟩

section

variable (c : Costs) (mode : LabelMode) (tO tS : NTree) (data : LeafData)
  (candsAny candsAll : RTree → OTree → List Sol)
  (hcov : ∀ bO ∈ binarize tO, ∀ bS ∈ binarize tS,
    Covers c mode (toOTree data bS bO) (candsAny (shape bS.toN) (toOTree data bS bO))
      (candsAll (shape bS.toN) (toOTree data bS bO)))
include hcov

/-- Arg-minima of what is offered under ANY are arg-minima of what is offered under ALL. -/
theorem rank_multi_any_sub {x : Out}
    (hx : x ∈ rankOuts c mode data (multiCands tO tS data candsAny)) :
    x ∈ rankOuts c mode data (multiCands tO tS data candsAll) := by
  obtain ⟨⟨hO, hS, hs⟩, hmin⟩ := (mem_rank_multi c mode tO tS data candsAny x).mp hx
  refine (mem_rank_multi c mode tO tS data candsAll x).mpr
    ⟨⟨hO, hS, (hcov _ hO _ hS).1 _ hs⟩, ?_⟩
  intro bO hbO bS hbS t ht
  obtain ⟨t', ht', hle⟩ := (hcov bO hbO bS hbS).2 t ht
  exact Cost.le_trans (hmin bO hbO bS hbS t' ht') hle

/-- Something is offered under ANY iff something is offered under ALL. -/
theorem multiCands_nil_iff :
    multiCands tO tS data candsAny = [] ↔ multiCands tO tS data candsAll = [] := by
  constructor
  · intro h
    apply List.eq_nil_iff_forall_not_mem.mpr
    intro y hy
    obtain ⟨hO, hS, hs⟩ := mem_multiCands.mp hy
    obtain ⟨t', ht', _⟩ := (hcov _ hO _ hS).2 _ hs
    have : ({ sTree := y.sTree, oTree := y.oTree, sol := t' } : Out) ∈
        multiCands tO tS data candsAny := mem_multiCands.mpr ⟨hO, hS, ht'⟩
    rw [h] at this; cases this
  · intro h
    apply List.eq_nil_iff_forall_not_mem.mpr
    intro y hy
    obtain ⟨hO, hS, hs⟩ := mem_multiCands.mp hy
    have : y ∈ multiCands tO tS data candsAll :=
      mem_multiCands.mpr ⟨hO, hS, (hcov _ hO _ hS).1 _ hs⟩
    rw [h] at this; cases this

end

/-! ### The result entry under ANY -/

theorem rankOuts_nil_iff (c : Costs) (mode : LabelMode) (data : LeafData) (outs : List Out) :
    rankOuts c mode data outs = [] ↔ outs = [] := by
  constructor
  · intro h
    by_cases hne : outs = []
    · exact hne
    · exact absurd h (rankOuts_ne_nil c mode data outs hne)
  · intro h; subst h; simp [rankOuts, dedup]

section

variable (pick : List Out → Option Out) (c : Costs) (mode : LabelMode) (data : LeafData)

theorem mem_rankOutsAny {outs : List Out} {x : Out} :
    x ∈ rankOutsAny pick c mode data outs ↔ pick (rankOuts c mode data outs) = some x := by
  simp only [rankOutsAny, Option.mem_toList]

theorem rankOutsAny_length_le (outs : List Out) : (rankOutsAny pick c mode data outs).length ≤ 1 := by
  unfold rankOutsAny
  cases pick (rankOuts c mode data outs) <;> simp

variable (hp : PickOk pick)
include hp

theorem rankOutsAny_sub {outs : List Out} {x : Out} (h : x ∈ rankOutsAny pick c mode data outs) :
    x ∈ rankOuts c mode data outs :=
  hp.mem ((mem_rankOutsAny pick c mode data).mp h)

theorem rankOutsAny_eq_nil_iff (outs : List Out) :
    rankOutsAny pick c mode data outs = [] ↔ outs = [] := by
  constructor
  · intro h
    by_cases hne : outs = []
    · exact hne
    · exfalso
      obtain ⟨x, hx⟩ := hp.some_of_ne_nil (rankOuts_ne_nil c mode data outs hne)
      simp [rankOutsAny, hx] at h
  · intro h; subst h
    have h1 : rankOuts c mode data [] = [] := by simp [rankOuts, dedup]
    have h2 : pick [] = none := by
      cases hq : pick [] with
      | none => rfl
      | some x => exact absurd (hp.mem hq) (by simp)
    simp [rankOutsAny, h1, h2]

theorem rankOutsAny_length_eq {outs : List Out} (hne : outs ≠ []) :
    (rankOutsAny pick c mode data outs).length = 1 := by
  obtain ⟨x, hx⟩ := hp.some_of_ne_nil (rankOuts_ne_nil c mode data outs hne)
  simp [rankOutsAny, hx]

end

/-- All members of a result entry have the same evaluated cost. -/
theorem rankOuts_same_cost (c : Costs) (mode : LabelMode) (data : LeafData) (outs : List Out)
    {x y : Out} (hx : x ∈ rankOuts c mode data outs) (hy : y ∈ rankOuts c mode data outs) :
    x.cost c mode data = y.cost c mode data := by
  rw [mem_rankOuts] at hx hy
  exact Cost.le_antisymm (hx.2 y hy.1) (hy.2 x hx.1)

end SR.Bin
