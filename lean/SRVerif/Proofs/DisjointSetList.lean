/-
  `to_list()` and the representative list used by `binary()`: closed forms
  and the facts that make them "the list of classes".
-/
import SRVerif.Proofs.DisjointSet

namespace SR.DS

/-- The representative returned by `find`. -/
def rep (d : DS) (i : Nat) : Nat := (d.find i).2

theorem rep_rootOf {d : DS} (hd : WF d) {i : Nat} (hi : i < d.size) : RootOf d.par i (rep d i) :=
  (find_spec hd hi).1

theorem rep_pres {d d' : DS} (hd : WF d) (hd' : WF d') (hP : Pres d d') {i : Nat} (hi : i < d.size) :
    rep d' i = rep d i :=
  RootOf.det ((hP.root _ _).mp (rep_rootOf hd' (hP.size ▸ hi))) (rep_rootOf hd hi)

theorem rep_eq_iff {d : DS} (hd : WF d) {x y : Nat} (hx : x < d.size) (hy : y < d.size) :
    rep d x = rep d y ↔ Same d x y := by
  constructor
  · intro h
    exact ⟨rep d x, rep_rootOf hd hx, h ▸ rep_rootOf hd hy⟩
  · rintro ⟨r, h1, h2⟩
    rw [RootOf.det (rep_rootOf hd hx) h1, RootOf.det (rep_rootOf hd hy) h2]

theorem rep_eq_of_rootOf {d : DS} (hd : WF d) {x r : Nat} (hx : x < d.size) (h : RootOf d.par x r) :
    rep d x = r := RootOf.det (rep_rootOf hd hx) h

theorem rep_lt {d : DS} (hd : WF d) {x : Nat} (hx : x < d.size) : rep d x < d.size :=
  (rep_rootOf hd hx).lt hd hx

theorem rep_self_iff {d : DS} (hd : WF d) {r : Nat} (hr : r < d.size) : rep d r = r ↔ d.par r = r := by
  constructor
  · intro h; have := (rep_rootOf hd hr).isRoot; rwa [h] at this
  · intro h; exact rep_eq_of_rootOf hd hr (RootOf.root h)

/-- The members of the class of root `r` among the first `k` elements. -/
def cls (d : DS) (k r : Nat) : List Nat := (List.range k).filter (fun i => rep d i = r)

theorem mem_cls {d : DS} {k r x : Nat} : x ∈ cls d k r ↔ x < k ∧ rep d x = r := by
  simp [cls]

theorem cls_succ (d : DS) (k r : Nat) :
    cls d (k + 1) r = cls d k r ++ (if rep d k = r then [k] else []) := by
  unfold cls
  rw [List.range_succ, List.filter_append]
  by_cases h : rep d k = r <;> simp [h]

theorem toList_fold {d : DS} (hd : WF d) : ∀ k, k ≤ d.size →
    Pres d ((List.range k).foldl toListStep (d, List.replicate d.size [])).1 ∧
    WF ((List.range k).foldl toListStep (d, List.replicate d.size [])).1 ∧
    ((List.range k).foldl toListStep (d, List.replicate d.size [])).2
      = (List.range d.size).map (cls d k) := by
  intro k
  induction k with
  | zero =>
    intro _
    refine ⟨Pres.refl d, hd, ?_⟩
    apply List.ext_getElem?
    intro j
    by_cases hj : j < d.size
    · simp [List.getElem?_replicate, hj, cls]
    · simp [List.getElem?_replicate, hj]
  | succ k ih =>
    intro hk
    obtain ⟨hP, hW, hres⟩ := ih (by omega)
    rw [List.range_succ, List.foldl_append, List.foldl_cons, List.foldl_nil]
    generalize (List.range k).foldl toListStep (d, List.replicate d.size []) = p at hP hW hres
    have hk' : k < p.1.size := by rw [hP.size]; omega
    obtain ⟨_, hP2, hW2⟩ := find_spec hW hk'
    have hrep : (p.1.find k).2 = rep d k := rep_pres hd hW hP (by omega)
    refine ⟨hP.trans hP2, hW2, ?_⟩
    show p.2.modify (p.1.find k).2 (· ++ [k]) = _
    rw [hrep, hres]
    apply List.ext_getElem?
    intro j
    rw [List.getElem?_modify]
    by_cases hj : j < d.size
    · simp only [List.getElem?_map, List.getElem?_range hj, Option.map_some, cls_succ]
      by_cases h : rep d k = j <;> simp [h]
    · simp [hj]

theorem toList_eq {d : DS} (hd : WF d) :
    Pres d d.toList.1 ∧ WF d.toList.1 ∧
    d.toList.2 = ((List.range d.size).map (cls d d.size)).filter (fun g => !g.isEmpty) := by
  obtain ⟨hP, hW, hres⟩ := toList_fold hd d.size (Nat.le_refl _)
  exact ⟨hP, hW, by simp only [toList, hres]⟩

theorem cls_nonempty_iff {d : DS} (hd : WF d) {r : Nat} (hr : r < d.size) :
    (!(cls d d.size r).isEmpty) = true ↔ d.par r = r := by
  rw [← rep_self_iff hd hr]
  constructor
  · intro h
    cases hc : cls d d.size r with
    | nil => simp [hc] at h
    | cons x xs =>
      have hx : x ∈ cls d d.size r := by rw [hc]; simp
      obtain ⟨hx1, hx2⟩ := mem_cls.mp hx
      have hroot := (rep_rootOf hd hx1).isRoot
      rw [hx2] at hroot
      exact rep_eq_of_rootOf hd hr (RootOf.root hroot)
  · intro h
    have : r ∈ cls d d.size r := mem_cls.mpr ⟨hr, h⟩
    cases hc : cls d d.size r with
    | nil => rw [hc] at this; cases this
    | cons x xs => simp

/-- What it means for `gs` to be the list of the classes of `d`. -/
structure IsClassList (d : DS) (gs : List (List Nat)) : Prop where
  /-- every group is the full class of some root -/
  isClass : ∀ g, g ∈ gs → ∃ r, r < d.size ∧ d.par r = r ∧ ∀ x, x ∈ g ↔ x < d.size ∧ RootOf d.par x r
  /-- every element is listed -/
  cover : ∀ x, x < d.size → ∃ g, g ∈ gs ∧ x ∈ g
  /-- members ascending (so no repetition inside a group) -/
  sorted : ∀ g, g ∈ gs → g.Pairwise (· < ·)
  /-- distinct positions hold disjoint groups: each class is listed once -/
  disjoint : gs.Pairwise (fun g h => ∀ x, x ∈ g → x ∉ h)
  /-- as many groups as roots -/
  length : gs.length = d.nroots

theorem toList_isClassList {d : DS} (hd : WF d) : IsClassList d d.toList.2 := by
  obtain ⟨_, _, hres⟩ := toList_eq hd
  rw [hres]
  have hmem : ∀ r, r < d.size → ∀ x, x ∈ cls d d.size r ↔ x < d.size ∧ RootOf d.par x r := by
    intro r _ x
    rw [mem_cls]
    constructor
    · rintro ⟨hx, h⟩; exact ⟨hx, h ▸ rep_rootOf hd hx⟩
    · rintro ⟨hx, h⟩; exact ⟨hx, rep_eq_of_rootOf hd hx h⟩
  refine ⟨?_, ?_, ?_, ?_, ?_⟩
  · intro g hg
    simp only [List.mem_filter, List.mem_map, List.mem_range] at hg
    obtain ⟨⟨r, hr, rfl⟩, hne⟩ := hg
    exact ⟨r, hr, (cls_nonempty_iff hd hr).mp hne, hmem r hr⟩
  · intro x hx
    have hr := rep_lt hd hx
    have hxin : x ∈ cls d d.size (rep d x) := mem_cls.mpr ⟨hx, rfl⟩
    refine ⟨cls d d.size (rep d x), ?_, hxin⟩
    simp only [List.mem_filter, List.mem_map, List.mem_range]
    refine ⟨⟨_, hr, rfl⟩, ?_⟩
    cases hc : cls d d.size (rep d x) with
    | nil => rw [hc] at hxin; cases hxin
    | cons _ _ => simp
  · intro g hg
    simp only [List.mem_filter, List.mem_map, List.mem_range] at hg
    obtain ⟨⟨r, _, rfl⟩, _⟩ := hg
    exact List.Pairwise.filter _ List.pairwise_lt_range
  · apply List.Pairwise.filter
    rw [List.pairwise_map]
    refine List.Pairwise.imp ?_ (List.pairwise_lt_range (n := d.size))
    intro r r' hlt x hx hx'
    have h1 := (mem_cls.mp hx).2
    have h2 := (mem_cls.mp hx').2
    omega
  · rw [← List.countP_eq_length_filter, List.countP_map]
    unfold nroots
    apply countP_range_congr
    intro r hr
    have := cls_nonempty_iff hd hr
    simp only [Function.comp]
    by_cases h : d.par r = r
    · simp only [h, decide_true]; exact this.mpr h
    · simp only [h, decide_false]
      cases hb : !(cls d d.size r).isEmpty with
      | false => rfl
      | true => exact absurd (this.mp hb) h

end SR.DS
