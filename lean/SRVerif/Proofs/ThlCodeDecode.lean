/-
  `_decode_thl_table` and the result entry of `reconcile_thl` (code-structured
  model, policy ALL) against the label-DP model:

  * `decode_ok`     the mappings generated from the tags of the cell (w, s) are
                    exactly the decoded solutions `sols` of the label-DP cell of
                    species `s` (as sets), for every object node;
  * `mem_thlCode`   what `thlCode` returns: the decoded outputs of minimum
                    evaluated cost;
  * `thlCode_eq_thl` same members as `thl`.
-/
import SRVerif.Proofs.ThlCodeTable

namespace SR

open Path Cost

namespace ThlCode

theorem findCell_iff {c : Costs} {S : RTree} {t : OTree} {x : Path} {d : DCell Unit} :
    findCell (thlCells c S true t) (x, ()) = some d ↔ d ∈ thlCells c S true t ∧ d.sp = x := by
  constructor
  · intro h
    obtain ⟨hm, ht⟩ := findCell_some h
    exact ⟨hm, (cellTag_eq.mp ht).1⟩
  · rintro ⟨hm, rfl⟩
    obtain ⟨d', hd'⟩ := findCell_of_mem hm
    rw [cellTag_unit] at hd'
    obtain ⟨hm', ht'⟩ := findCell_some hd'
    have : d' = d := cellTag_inj thlAlg c S true _ hm' hm (by rw [ht']; rfl)
    rw [hd', this]

/-- **Decoding**: following the tags of the code's table from the cell
    (object node `w`, species `s`) generates exactly the solutions stored in the
    label-DP cell of species `s` of that node. -/
theorem decode_ok (c : Costs) (S : RTree) (tbl : Table) : ∀ (t : OTree) (w : Path),
    (∀ p ∈ postorderNodes t w, RowOK c S tbl p.1 p.2) →
    ∀ s sol, sol ∈ decode tbl t w s ↔
      ∃ d ∈ thlCells c S true t, d.sp = s ∧ ∃ ls ∈ d.sols, plainSol t ls = sol := by
  intro t
  induction t with
  | leaf sp f =>
    intro w hrows s sol
    have hrow := hrows _ (root_mem_postorderNodes (.leaf sp f) w)
    have hcells : thlCells c S true (.leaf sp f) =
        [{ sp := sp, lab := (), cost := .fin 0, sols := [LSol.leaf sp ()] }] := rfl
    have hv := hrow.value s
    simp only [decode]
    by_cases hs : s = sp
    · subst hs
      have hc : cellCost (thlCells c S true (.leaf s f)) s = .fin 0 :=
        cellCost_of_mem (d := ⟨s, (), .fin 0, [LSol.leaf s ()]⟩) (by rw [hcells]; simp)
      rw [hv, hc]
      simp only [toExt_fin, ExtInt.isInfinite, Bool.false_eq_true, if_false, List.mem_singleton,
        hcells]
      constructor
      · rintro rfl
        exact ⟨_, rfl, rfl, LSol.leaf s (), by simp, rfl⟩
      · rintro ⟨d, rfl, _, ls, hls, rfl⟩
        simp only [List.mem_singleton] at hls
        subst hls; rfl
    · have hc : cellCost (thlCells c S true (.leaf sp f)) s = .inf := by
        by_contra hne
        obtain ⟨d, hd, hsp⟩ := cellCost_ne_inf hne
        rw [hcells, List.mem_singleton] at hd
        subst hd
        exact hs hsp.symm
      rw [hv, hc]
      simp only [toExt_inf, ExtInt.isInfinite, if_true, List.not_mem_nil, false_iff, hcells,
        List.mem_singleton]
      rintro ⟨d, rfl, hsp, _⟩
      exact hs hsp.symm
  | node l r ihl ihr =>
    intro w hrows s sol
    have hrow := hrows _ (root_mem_postorderNodes (.node l r) w)
    have hrl : ∀ p ∈ postorderNodes l (w ++ [0]), RowOK c S tbl p.1 p.2 :=
      fun p hp => hrows p (by simp [postorderNodes, hp])
    have hrr : ∀ p ∈ postorderNodes r (w ++ [1]), RowOK c S tbl p.1 p.2 :=
      fun p hp => hrows p (by simp [postorderNodes, hp])
    have IHl := ihl (w ++ [0]) hrl
    have IHr := ihr (w ++ [1]) hrr
    simp only [decode, List.mem_flatMap, List.mem_map]
    by_cases hx : ∃ d ∈ thlCells c S true (.node l r), d.sp = s
    · obtain ⟨d, hd, rfl⟩ := hx
      obtain ⟨e, he, _, htags⟩ := hrow.1 d hd
      have hinf : tbl.infos (w, d.sp) = e.infos := by simp [Table.infos, he, Cell.infos]
      obtain ⟨s0, hs0, hent⟩ := (mem_thlCells_node c S l r d).mp hd
      obtain ⟨hsp, _, hcost, _, hsols, _⟩ := entry_eq_some _ _ _ _ _ _ _ _ _ _ hent
      have hsols := hsols rfl
      rw [hinf]
      simp only [TagsOK] at htags
      constructor
      · rintro ⟨⟨x, y⟩, hinfo, ml, hml, mr, hmr, rfl⟩
        obtain ⟨dl, hdl, hdlsp, lx, hlx, rfl⟩ := (IHl x ml).mp hml
        obtain ⟨dr, hdr, hdrsp, ly, hly, rfl⟩ := (IHr y mr).mp hmr
        refine ⟨d, hd, rfl, LSol.node d.sp () lx ly, ?_, by simp [plainSol]⟩
        rw [hsols]
        refine ⟨(x, ()), (y, ()), dl, dr, lx, ly, ?_, findCell_iff.mpr ⟨hdl, hdlsp⟩,
          findCell_iff.mpr ⟨hdr, hdrsp⟩, hlx, hly, by rw [hsp]⟩
        have := (htags x y).mp hinfo
        rw [hcost, hsp] at this
        exact this
      · rintro ⟨d', hd', hsp', ls, hls, rfl⟩
        have hdd : d' = d := dp_functional thlAlg c S true _ hd' hd hsp' rfl
        subst hdd
        obtain ⟨⟨x, _⟩, ⟨y, _⟩, cl, cr, lx, ly, hc, hfl, hfr, hlx, hly, rfl⟩ := (hsols ls).mp hls
        obtain ⟨hcl, hclsp⟩ := findCell_iff.mp hfl
        obtain ⟨hcr, hcrsp⟩ := findCell_iff.mp hfr
        refine ⟨⟨x, y⟩, ?_, plainSol l lx, (IHl x _).mpr ⟨cl, hcl, hclsp, lx, hlx, rfl⟩,
          plainSol r ly, (IHr y _).mpr ⟨cr, hcr, hcrsp, ly, hly, rfl⟩, by simp [plainSol, hsp]⟩
        apply (htags x y).mpr
        rw [hcost, hsp]
        exact hc
    · have hnone := hrow.2 s (fun d hd hsp => hx ⟨d, hd, hsp⟩)
      have hinf : tbl.infos (w, s) = [] := by simp [Table.infos, hnone, Cell.infos]
      rw [hinf]
      constructor
      · rintro ⟨_, h, _⟩; cases h
      · rintro ⟨d, hd, hsp, _⟩; exact absurd ⟨d, hd, hsp⟩ hx

/-! ### The result entry -/

/-- All the outputs offered to the result entry. -/
def offered (c : Costs) (S : RTree) (o : OTree) : List Sol :=
  S.levelorder.flatMap (fun s => decode (computeTable .all c S o) o [] s)

theorem reconcile_eq (c : Costs) (S : RTree) (o : OTree) :
    reconcile .all c S o =
      Entry.update (Entry.init .min .all)
        ((offered c S o).map fun out => ⟨(recCost c o out).toExt, some out⟩) := by
  unfold reconcile offered
  generalize S.levelorder = ss
  generalize (Entry.init Merge.min Retain.all : Entry Sol) = e0
  induction ss generalizing e0 with
  | nil => rfl
  | cons s ss ih =>
    simp only [List.foldl_cons, List.flatMap_cons, List.map_append]
    rw [ih, Entry.update_append]

/-- The outputs offered to the result entry are the decoded solutions of the
    label-DP cells of the root. -/
theorem mem_offered (c : Costs) (S : RTree) (o : OTree)
    (hS : ∀ p ∈ leafSpecies o, S.isNode p = true) (sol : Sol) :
    sol ∈ offered c S o ↔
      sol ∈ (thlCells c S true o).flatMap (fun d => d.sols.map (plainSol o)) := by
  have hdec := decode_ok c S (computeTable .all c S o) o [] (computeTable_ok c S o hS)
  simp only [offered, List.mem_flatMap, List.mem_map, RTree.mem_levelorder]
  constructor
  · rintro ⟨s, _, h⟩
    obtain ⟨d, hd, _, ls, hls, rfl⟩ := (hdec s sol).mp h
    exact ⟨d, hd, ls, hls, rfl⟩
  · rintro ⟨d, hd, ls, hls, rfl⟩
    exact ⟨d.sp, cell_isNode hS hd, (hdec d.sp _).mpr ⟨d, hd, rfl, ls, hls, rfl⟩⟩

/-- What the result entry keeps under MIN / ALL: the offered outputs of minimum
    evaluated cost, each once; its value is their cost. -/
theorem result_spec (c : Costs) (S : RTree) (o : OTree) :
    let res := reconcile .all c S o
    (∀ sol, sol ∈ res.infos ↔ sol ∈ offered c S o ∧
      ∀ out ∈ offered c S o, recCost c o sol ≼ recCost c o out) ∧
    (∀ sol ∈ res.infos, res.value = (recCost c o sol).toExt) ∧
    res.infos.Nodup := by
  intro res
  have inv : Entry.Inv .min .all
      ((offered c S o).map fun out => (⟨(recCost c o out).toExt, some out⟩ : Cand Sol)) res := by
    have := Entry.inv_update (Entry.inv_init (τ := Sol) .min .all)
      ((offered c S o).map fun out => (⟨(recCost c o out).toExt, some out⟩ : Cand Sol))
    simpa [res, reconcile_eq] using this
  have hopt : ∀ out ∈ offered c S o, ExtInt.lt (recCost c o out).toExt res.value = false := by
    intro out hout
    simpa [Entry.better] using inv.optimal _ (List.mem_map.mpr ⟨out, hout, rfl⟩)
  have hmem : ∀ sol, sol ∈ res.infos ↔ sol ∈ offered c S o ∧ (recCost c o sol).toExt = res.value := by
    intro sol
    rw [inv.all rfl]
    constructor
    · rintro ⟨cnd, hc, h1, h2⟩
      obtain ⟨out, hout, rfl⟩ := List.mem_map.mp hc
      simp only [Option.some.injEq] at h1
      subst h1
      exact ⟨hout, h2⟩
    · rintro ⟨h1, h2⟩
      exact ⟨_, List.mem_map.mpr ⟨sol, h1, rfl⟩, rfl, h2⟩
  refine ⟨?_, fun sol hsol => ((hmem sol).mp hsol).2.symm, inv.nodup⟩
  intro sol
  rw [hmem sol]
  constructor
  · rintro ⟨h1, h2⟩
    refine ⟨h1, fun out hout => ?_⟩
    have := hopt out hout
    rw [← h2, toExt_lt] at this
    exact le_of_not_lt this
  · rintro ⟨h1, h2⟩
    refine ⟨h1, ?_⟩
    rcases inv.attained with h | ⟨cnd, hc, h⟩
    · have := hopt sol h1
      rw [h] at this ⊢
      simp only [Entry.sentinel, if_true] at this ⊢
      exact ExtInt.not_lt_posInf_iff.mp this
    · obtain ⟨out, hout, rfl⟩ := List.mem_map.mp hc
      simp only at h
      have h3 := hopt sol h1
      rw [← h, toExt_lt] at h3
      rw [← h, le_antisymm (h2 out hout) (le_of_not_lt h3)]

/-- **Refinement** (members): on every input whose leaf species are species of `S`,
    the code-structured model returns exactly the solutions of the label-DP model. -/
theorem thlCode_eq_thl (c : Costs) (S : RTree) (o : OTree)
    (hS : ∀ p ∈ leafSpecies o, S.isNode p = true) (sol : Sol) :
    sol ∈ thlCode c S o ↔ sol ∈ thl c S o := by
  unfold thlCode thl
  rw [(result_spec c S o).1 sol, mem_rankByCost]
  simp only [totalCost_plain, mem_offered c S o hS]

end ThlCode

end SR
