/-
  What one operation, and a history of operations, do to a table
  (`Model/Table.lean`): every operation leaves every cell alone except a
  write to a valid address, which acts on that cell as `Cell.update`; the
  dictionary keys only grow, by keys on the paths the operation mentions.
-/
import SRVerif.Proofs.Table

set_option linter.unusedSectionVars false

namespace SR.DP

variable {τ : Type} [DecidableEq τ]

theorem Ext.congr {P : List (List Key)} {F G : List Key → Cell τ → Cell τ} {t t' : Table τ}
    (h : Ext P F t t') (hFG : ∀ a c, F a c = G a c) : Ext P G t t' := by
  obtain ⟨h1, h2, h3, h4, h5⟩ := h
  exact ⟨h1, h2, h3, fun a => by rw [h4, hFG], h5⟩

namespace Table

/-! ### `index` in all cases -/

theorem index_noaxis (t : Table τ) (ks : List Key) (h : t.dims.length = 0) :
    t.index ks = (t, .ok (.proxy ks)) := by
  have : ∀ pre, ks.foldl indexStep (t, .ok (.proxy pre)) = (t, .ok (.proxy (pre ++ ks))) := by
    induction ks with
    | nil => simp
    | cons k ks ih =>
      intro pre
      simp only [List.foldl_cons, indexStep, getitem]
      rw [if_neg (by omega), ih]
      simp
  rw [index_eq]
  simpa using this []

/-- More keys than axes: indexing fails, after the walk of the prefix. -/
theorem index_long (t : Table τ) (ks : List Key) (k k' : Key) (rest : List Key)
    (h : ks.length + 1 = t.dims.length) :
    ∃ e, t.index (ks ++ k :: k' :: rest) = ((t.walk ks).1, .error e) := by
  have : ks ++ k :: k' :: rest = (ks ++ [k]) ++ (k' :: rest) := by simp
  rw [this, index_eq, List.foldl_append, ← index_eq, index_full t ks k h]
  cases addr t.dims ks with
  | error e => exact ⟨e, by simp only [Except.map, List.foldl_cons, indexStep, foldl_indexStep_error]⟩
  | ok a => exact ⟨.typeError, by simp only [Except.map, List.foldl_cons, indexStep, getitem, foldl_indexStep_error]⟩

/-- Summary of `index`. -/
theorem index_spec (t : Table τ) (ks : List Key) :
    ExtP (visited t.dims ks) t (t.index ks).1
    ∧ (∀ key, (t.index ks).2 = .ok (.entry key) → key = ks ∧ ks ≠ [] ∧ ks.length = t.dims.length)
    ∧ (∀ p, (t.index ks).2 = .ok (.proxy p) → p = ks ∧ ¬ (ks ≠ [] ∧ ks.length = t.dims.length)) := by
  by_cases h0 : t.dims.length = 0
  · rw [index_noaxis t ks h0]
    refine ⟨ExtP.refl _ _, by simp, ?_⟩
    intro p hp
    simp at hp
    refine ⟨hp.symm, ?_⟩
    rintro ⟨h1, h2⟩
    rw [h0] at h2
    exact h1 (List.eq_nil_of_length_eq_zero h2)
  by_cases hs : ks.length < t.dims.length
  · rw [index_short t ks hs]
    refine ⟨ExtP.refl _ _, by simp, ?_⟩
    intro p hp
    simp at hp
    exact ⟨hp.symm, by omega⟩
  · -- at least as many keys as axes
    have hsplit : ∃ ks' k rest, ks = ks' ++ k :: rest ∧ ks'.length + 1 = t.dims.length := by
      refine ⟨ks.take (t.dims.length - 1), ks[t.dims.length - 1]'(by omega),
        ks.drop (t.dims.length), ?_, ?_⟩
      · have h1 : t.dims.length = (t.dims.length - 1) + 1 := by omega
        conv => lhs; rw [← List.take_append_drop (t.dims.length - 1) ks]
        congr 1
        rw [List.drop_eq_getElem_cons (by omega)]
        congr 2
        omega
      · simp; omega
    obtain ⟨ks', k, rest, rfl, hlen⟩ := hsplit
    have hext : ExtP (visited t.dims (ks' ++ k :: rest)) t (t.walk ks').1 :=
      (walk_ext t ks').mono (visited_prefix t.dims ks' (k :: rest))
    cases rest with
    | nil =>
      rw [index_full t ks' k hlen]
      refine ⟨hext, ?_, ?_⟩
      · intro key hk
        cases ha : addr t.dims ks' with
        | error e => simp [ha, Except.map] at hk
        | ok a =>
          simp [ha, Except.map] at hk
          exact ⟨hk.symm, by simp, by simp; omega⟩
      · intro p hp
        cases ha : addr t.dims ks' <;> simp [ha, Except.map] at hp
    | cons k' rest =>
      obtain ⟨e, he⟩ := index_long t ks' k k' rest hlen
      rw [he]
      exact ⟨hext, by simp, by simp⟩

/-- Indexing a valid full address succeeds. -/
theorem index_valid (t : Table τ) (ks a : List Key) (hne : ks ≠ []) (hlen : ks.length = t.dims.length)
    (ha : addr t.dims ks = .ok a) :
    t.index ks = ((t.walk ks.dropLast).1, .ok (.entry ks)) := by
  obtain ⟨ks', k, rfl⟩ : ∃ ks' k, ks = ks' ++ [k] := ⟨ks.dropLast, ks.getLast hne, (List.dropLast_concat_getLast hne).symm⟩
  obtain ⟨a', ha'⟩ := addr_prefix_ok t.dims ks' [k] a ha
  rw [index_full t ks' k (by simpa using hlen), ha']
  simp [Except.map]

/-- Indexing a full-length path with an invalid prefix fails with the exception of the path. -/
theorem index_invalid (t : Table τ) (ks : List Key) (hne : ks ≠ []) (hlen : ks.length = t.dims.length) :
    (∃ a', addr t.dims ks.dropLast = .ok a' ∧ t.index ks = ((t.walk ks.dropLast).1, .ok (.entry ks)))
    ∨ (∃ e, addr t.dims ks = .error e ∧ t.index ks = ((t.walk ks.dropLast).1, .error e)) := by
  obtain ⟨ks', k, rfl⟩ : ∃ ks' k, ks = ks' ++ [k] := ⟨ks.dropLast, ks.getLast hne, (List.dropLast_concat_getLast hne).symm⟩
  rw [index_full t ks' k (by simpa using hlen)]
  cases ha : addr t.dims ks' with
  | ok a' => left; exact ⟨a', by simp [ha], by simp [Except.map]⟩
  | error e => right; exact ⟨e, addr_prefix_err t.dims ks' [k] e ha, by simp [Except.map]⟩

end Table

/-! ### One operation -/

/-- The raw paths an operation mentions. -/
def opPaths : Op τ → List (List Key)
  | .index ks => [ks]
  | .set pre k _ => [pre ++ [k]]
  | .update ks _ => [ks]
  | .value ks => [ks]
  | .infos ks => [ks]
  | .info ks => [ks]
  | .isInf ks => [ks]
  | .len ks => [ks]
  | .iter ks => [ks]
  | .keys ks => [ks]
  | .contains ks _ => [ks]
  | .eqEntry ks _ _ => [ks]
  | .eqCell ks ks' => [ks, ks']
  | .combine ks ks' _ => [ks, ks']

/-- The dictionary keys an operation may create: those on the paths it mentions. -/
def opVisits (ds : List Dim) (op : Op τ) : List (List Key) := (opPaths op).flatMap (visited ds)

/-- The batch an operation offers to the cell of normalised address `a`: only assignments and
    `update`s through a complete, valid chain of keys denoting `a` offer anything. -/
def writesTo (ds : List Dim) (a : List Key) : Op τ → Option (List (Cand τ))
  | .set pre k c => if (pre ++ [k]).length = ds.length ∧ isAddr ds (pre ++ [k]) a then some [c] else none
  | .update ks b => if ks ≠ [] ∧ ks.length = ds.length ∧ isAddr ds ks a then some b else none
  | _ => none

/-- The effect of an operation on the cell `a`. -/
def opCell (ds : List Dim) (m : Merge) (r : Retain) (op : Op τ) (a : List Key) (c : Cell τ) : Cell τ :=
  match writesTo ds a op with
  | some b => Cell.update m r c b
  | none => c

namespace Table

theorem withCell_ext (t : Table τ) (ks : List Key) (e : PyErr) (k : Table τ → Cell τ → Out τ) :
    ExtP (visited t.dims ks) t (t.withCell ks e k).1 := by
  obtain ⟨h1, h2, _⟩ := index_spec t ks
  unfold withCell
  cases hi : t.index ks with
  | mk t1 r =>
    rw [hi] at h1 h2
    cases r with
    | error e' => exact h1
    | ok ref =>
      cases ref with
      | proxy p => exact h1
      | entry key =>
        obtain ⟨rfl, _, _⟩ := h2 key rfl
        have hg := getReal_ext t1 key
        rw [h1.dims] at hg
        simp only
        cases hr : t1.getReal key with
        | mk t2 c =>
          rw [hr] at hg
          cases c <;> exact Ext.trans h1 hg

/-- Index `ks`, then (on a `TableProxy`) list the keys: no cell changes. -/
theorem index_keysAt_ext (t : Table τ) (ks : List Key) :
    ∀ t1 p, t.index ks = (t1, .ok (.proxy p)) → ExtP (visited t.dims ks) t (t1.keysAt p).1 := by
  intro t1 p hi
  obtain ⟨h1, _, h3⟩ := index_spec t ks
  rw [hi] at h1 h3
  obtain ⟨rfl, _⟩ := h3 p rfl
  have hk := keysAt_ext t1 p
  rw [h1.dims] at hk
  exact Ext.trans h1 hk

theorem index_getReal_ext (t : Table τ) (ks : List Key) :
    ∀ t1 key, t.index ks = (t1, .ok (.entry key)) → ExtP (visited t.dims ks) t (t1.getReal key).1 := by
  intro t1 key hi
  obtain ⟨h1, h2, _⟩ := index_spec t ks
  rw [hi] at h1 h2
  obtain ⟨rfl, _, _⟩ := h2 key rfl
  have hk := getReal_ext t1 key
  rw [h1.dims] at hk
  exact Ext.trans h1 hk

theorem opCell_id (ds : List Dim) (m : Merge) (r : Retain) (op : Op τ)
    (h : ∀ a, writesTo ds a op = none) : ∀ a c, (fun _ c => c) a c = opCell ds m r op a c := by
  intro a c; simp [opCell, h a]

theorem extP_two {t t1 t2 : Table τ} {ks ks' : List Key}
    (h1 : ExtP (visited t.dims ks) t t1) (h2 : ExtP (visited t.dims ks') t1 t2) :
    ExtP (visited t.dims ks ++ visited t.dims ks') t t2 :=
  Ext.trans (h1.mono (fun _ hp => List.mem_append_left _ hp)) (h2.mono (fun _ hp => List.mem_append_right _ hp))

theorem step_pure [Min τ] (t : Table τ) (op : Op τ) (P : List (List Key))
    (hw : ∀ a, writesTo t.dims a op = none) (hv : ∀ p ∈ P, p ∈ opVisits t.dims op)
    (h : ExtP P t (t.step op).1) :
    Ext (opVisits t.dims op) (opCell t.dims t.merge t.retain op) t (t.step op).1 :=
  (Ext.congr h (opCell_id _ _ _ _ hw)).mono hv

/-- Every operation other than a write to a valid address leaves every cell alone; a write acts
    on its cell as `Cell.update`; dictionary keys are only added, on the paths mentioned. -/
theorem step_ext [Min τ] (t : Table τ) (op : Op τ) :
    Ext (opVisits t.dims op) (opCell t.dims t.merge t.retain op) t (t.step op).1 := by
  cases op with
  | index ks =>
    obtain ⟨h1, _, _⟩ := index_spec t ks
    refine step_pure t (.index ks) (visited t.dims ks) (fun _ => rfl) (by simp [opVisits, opPaths]) ?_
    simp only [step]
    cases hi : t.index ks with
    | mk t1 r =>
      rw [hi] at h1
      cases r with
      | error e => exact h1
      | ok ref => cases ref <;> exact h1
  | set pre k c =>
    simp only [opVisits, opPaths, List.flatMap_cons, List.flatMap_nil, List.append_nil]
    obtain ⟨h1, h2, h3⟩ := index_spec t pre
    have hmono : ∀ p ∈ visited t.dims pre, p ∈ visited t.dims (pre ++ [k]) := visited_prefix _ _ _
    simp only [step]
    cases hi : t.index pre with
    | mk t1 r =>
      rw [hi] at h1 h2 h3
      have h1' := h1.mono hmono
      cases r with
      | error e =>
        refine Ext.congr h1' (opCell_id _ _ _ _ ?_)
        intro a
        simp only [writesTo]
        rw [if_neg]
        rintro ⟨hl, _⟩
        have : pre.length < t.dims.length := by simp at hl; omega
        rw [index_short t pre this] at hi
        simp at hi
      | ok ref =>
        cases ref with
        | entry key =>
          obtain ⟨rfl, _, hl⟩ := h2 key rfl
          simp only [setitem]
          refine Ext.congr h1' (opCell_id _ _ _ _ ?_)
          intro a
          simp only [writesTo]
          rw [if_neg]
          rintro ⟨hl', _⟩
          simp at hl'; omega
        | proxy p =>
          obtain ⟨rfl, _⟩ := h3 p rfl
          simp only [setitem]
          by_cases hl : p.length + 1 = t1.dims.length
          · rw [if_pos hl]
            have hu := updateAt_ext t1 (p ++ [k]) [c]
            rw [h1.dims, h1.merge, h1.retain] at hu
            have := Ext.trans h1' hu
            cases hup : t1.updateAt (p ++ [k]) [c] with
            | mk t2 r2 =>
              rw [hup] at this
              have hl' : (p ++ [k]).length = t.dims.length := by rw [← h1.dims]; simpa using hl
              have hcong : ∀ a cc, (if isAddr t.dims (p ++ [k]) a = true then Cell.update t.merge t.retain cc [c] else cc)
                  = opCell t.dims t.merge t.retain (.set p k c) a cc := by
                intro a cc
                simp only [opCell, writesTo, hl', true_and]
                split <;> simp
              cases r2 <;> exact Ext.congr this hcong
          · rw [if_neg hl]
            refine Ext.congr h1' (opCell_id _ _ _ _ ?_)
            intro a
            simp only [writesTo]
            rw [if_neg]
            rintro ⟨hl', _⟩
            rw [h1.dims] at hl
            simp at hl'; omega
  | update ks b =>
    simp only [opVisits, opPaths, List.flatMap_cons, List.flatMap_nil, List.append_nil]
    obtain ⟨h1, h2, h3⟩ := index_spec t ks
    simp only [step]
    cases hi : t.index ks with
    | mk t1 r =>
      rw [hi] at h1 h2 h3
      cases r with
      | error e =>
        refine Ext.congr h1 (opCell_id _ _ _ _ ?_)
        intro a
        simp only [writesTo]
        rw [if_neg]
        rintro ⟨hne, hl, ha⟩
        rw [index_valid t ks a hne hl ((isAddr_iff _ _ _).mp ha)] at hi
        simp at hi
      | ok ref =>
        cases ref with
        | proxy p =>
          obtain ⟨rfl, hn⟩ := h3 p rfl
          refine Ext.congr h1 (opCell_id _ _ _ _ ?_)
          intro a
          simp only [writesTo]
          rw [if_neg]
          rintro ⟨hne, hl, _⟩
          exact hn ⟨hne, hl⟩
        | entry key =>
          obtain ⟨rfl, hne, hl⟩ := h2 key rfl
          have hu := updateAt_ext t1 key b
          rw [h1.dims, h1.merge, h1.retain] at hu
          have := Ext.trans h1 hu
          simp only
          cases hup : t1.updateAt key b with
          | mk t2 r2 =>
            rw [hup] at this
            have hcong : ∀ a cc, (if isAddr t.dims key a = true then Cell.update t.merge t.retain cc b else cc)
                = opCell t.dims t.merge t.retain (.update key b) a cc := by
              intro a cc
              simp only [opCell, writesTo, hl, hne, ne_eq, not_false_eq_true, true_and]
              split <;> simp
            cases r2 <;> exact Ext.congr this hcong
  | value ks =>
    exact step_pure t _ (visited t.dims ks) (fun _ => rfl) (by simp [opVisits, opPaths]) (withCell_ext t ks _ _)
  | infos ks =>
    exact step_pure t _ (visited t.dims ks) (fun _ => rfl) (by simp [opVisits, opPaths]) (withCell_ext t ks _ _)
  | info ks =>
    exact step_pure t _ (visited t.dims ks) (fun _ => rfl) (by simp [opVisits, opPaths]) (withCell_ext t ks _ _)
  | isInf ks =>
    exact step_pure t _ (visited t.dims ks) (fun _ => rfl) (by simp [opVisits, opPaths]) (withCell_ext t ks _ _)
  | len ks =>
    exact step_pure t _ (visited t.dims ks) (fun _ => rfl) (by simp [opVisits, opPaths]) (withCell_ext t ks _ _)
  | iter ks =>
    refine step_pure t (.iter ks) (visited t.dims ks) (fun _ => rfl) (by simp [opVisits, opPaths]) ?_
    obtain ⟨h1, _, _⟩ := index_spec t ks
    have hk := index_keysAt_ext t ks
    have hg := index_getReal_ext t ks
    simp only [step]
    cases hi : t.index ks with
    | mk t1 r =>
      rw [hi] at h1
      cases r with
      | error e => exact h1
      | ok ref =>
        cases ref with
        | proxy p =>
          have := hk t1 p hi
          simp only
          cases hh : t1.keysAt p with
          | mk t2 r2 => rw [hh] at this; cases r2 <;> exact this
        | entry key =>
          have := hg t1 key hi
          simp only
          cases hh : t1.getReal key with
          | mk t2 r2 => rw [hh] at this; cases r2 <;> exact this
  | keys ks =>
    refine step_pure t (.keys ks) (visited t.dims ks) (fun _ => rfl) (by simp [opVisits, opPaths]) ?_
    obtain ⟨h1, _, _⟩ := index_spec t ks
    have hk := index_keysAt_ext t ks
    simp only [step]
    cases hi : t.index ks with
    | mk t1 r =>
      rw [hi] at h1
      cases r with
      | error e => exact h1
      | ok ref =>
        cases ref with
        | proxy p =>
          have := hk t1 p hi
          simp only
          cases hh : t1.keysAt p with
          | mk t2 r2 => rw [hh] at this; cases r2 <;> exact this
        | entry key => exact h1
  | contains ks k =>
    refine step_pure t (.contains ks k) (visited t.dims ks) (fun _ => rfl) (by simp [opVisits, opPaths]) ?_
    obtain ⟨h1, _, _⟩ := index_spec t ks
    have hk := index_keysAt_ext t ks
    have hg := index_getReal_ext t ks
    simp only [step]
    cases hi : t.index ks with
    | mk t1 r =>
      rw [hi] at h1
      cases r with
      | error e => exact h1
      | ok ref =>
        cases ref with
        | proxy p =>
          have := hk t1 p hi
          simp only
          cases hh : t1.keysAt p with
          | mk t2 r2 => rw [hh] at this; cases r2 <;> exact this
        | entry key =>
          have := hg t1 key hi
          simp only
          cases hh : t1.getReal key with
          | mk t2 r2 => rw [hh] at this; cases r2 <;> exact this
  | eqEntry ks v infos =>
    refine step_pure t (.eqEntry ks v infos) (visited t.dims ks) (fun _ => rfl) (by simp [opVisits, opPaths]) ?_
    obtain ⟨h1, _, _⟩ := index_spec t ks
    have hg := index_getReal_ext t ks
    simp only [step]
    cases hi : t.index ks with
    | mk t1 r =>
      rw [hi] at h1
      cases r with
      | error e => exact h1
      | ok ref =>
        cases ref with
        | proxy p => exact h1
        | entry key =>
          have := hg t1 key hi
          simp only
          cases hh : t1.getReal key with
          | mk t2 r2 => rw [hh] at this; cases r2 <;> exact this
  | eqCell ks ks' =>
    refine step_pure t (.eqCell ks ks') (visited t.dims ks ++ visited t.dims ks') (fun _ => rfl) (by simp [opVisits, opPaths]) ?_
    obtain ⟨h1, h2, _⟩ := index_spec t ks
    simp only [step]
    cases hi : t.index ks with
    | mk t1 r =>
      rw [hi] at h1 h2
      have h1' : ExtP (visited t.dims ks ++ visited t.dims ks') t t1 := h1.mono (fun p hp => List.mem_append_left _ hp)
      cases r with
      | error e => exact h1'
      | ok ref =>
        obtain ⟨g1, g2, _⟩ := index_spec t1 ks'
        rw [h1.dims] at g1
        simp only
        cases hi' : t1.index ks' with
        | mk t2 r' =>
          rw [hi'] at g1 g2
          have h12 := extP_two h1 g1
          cases r' with
          | error e => exact h12
          | ok ref' =>
            cases ref with
            | proxy p => cases ref' <;> exact h12
            | entry key =>
              obtain ⟨rfl, _, _⟩ := h2 key rfl
              cases ref' with
              | proxy p' => exact h12
              | entry key' =>
                obtain ⟨rfl, _, _⟩ := g2 key' rfl
                simp only
                have hr := getReal_ext t2 key
                rw [h12.dims] at hr
                have h3 := Ext.trans h12 (hr.mono (fun p hp => List.mem_append_left _ hp))
                cases hh : t2.getReal key with
                | mk t3 c3 =>
                  rw [hh] at h3
                  cases c3 with
                  | error e => exact h3
                  | ok c =>
                    simp only
                    have hr' := getReal_ext t3 key'
                    rw [h3.dims] at hr'
                    have h4 := Ext.trans h3 (hr'.mono (fun p hp => List.mem_append_right _ hp))
                    cases hh' : t3.getReal key' with
                    | mk t4 c4 => rw [hh'] at h4; cases c4 <;> exact h4
  | combine ks ks' f =>
    refine step_pure t (.combine ks ks' f) (visited t.dims ks ++ visited t.dims ks') (fun _ => rfl) (by simp [opVisits, opPaths]) ?_
    obtain ⟨h1, h2, _⟩ := index_spec t ks
    simp only [step]
    cases hi : t.index ks with
    | mk t1 r =>
      rw [hi] at h1 h2
      have h1' : ExtP (visited t.dims ks ++ visited t.dims ks') t t1 := h1.mono (fun p hp => List.mem_append_left _ hp)
      cases r with
      | error e => exact h1'
      | ok ref =>
        cases ref with
        | proxy p => exact h1'
        | entry key =>
          obtain ⟨rfl, _, _⟩ := h2 key rfl
          obtain ⟨g1, g2, _⟩ := index_spec t1 ks'
          rw [h1.dims] at g1
          simp only
          cases hi' : t1.index ks' with
          | mk t2 r' =>
            rw [hi'] at g1 g2
            have h12 := extP_two h1 g1
            cases r' with
            | error e => exact h12
            | ok ref' =>
              simp only
              have hr := getReal_ext t2 key
              rw [h12.dims] at hr
              have h3 := Ext.trans h12 (hr.mono (fun p hp => List.mem_append_left _ hp))
              cases hh : t2.getReal key with
              | mk t3 c3 =>
                rw [hh] at h3
                cases c3 with
                | error e => exact h3
                | ok c =>
                  cases c with
                  | none => exact h3
                  | some ea =>
                    cases ref' with
                    | proxy p' => exact h3
                    | entry key' =>
                      obtain ⟨rfl, _, _⟩ := g2 key' rfl
                      simp only
                      have hr' := getReal_ext t3 key'
                      rw [h3.dims] at hr'
                      have h4 := Ext.trans h3 (hr'.mono (fun p hp => List.mem_append_right _ hp))
                      cases hh' : t3.getReal key' with
                      | mk t4 c4 =>
                        rw [hh'] at h4
                        cases c4 with
                        | error e => exact h4
                        | ok c' =>
                          simp only
                          cases combineOpt ea (c'.getD (Entry.init t4.merge t4.retain)) f <;> exact h4

end Table

end SR.DP
