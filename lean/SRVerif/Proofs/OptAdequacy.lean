/-
  Adequacy of the specification oracle `Spec.optTable` / `Spec.optimum`
  (DESIGN 6.3, `naive_value` / `naive_sols`), generically in the `ModeData`
  (plain, ordered with a root order, unordered).

  `Feasible S md base whole p t sol` — `sol` is a labelled sub-solution the oracle
  ranges over at the object node `p` (subtree `t`): same shape as `t`, leaves in
  their given species with the mode's leaf label, every internal node in a species
  of `S` (the LCA species for `base`) with a label of `labelSpace md whole p`.
  `specCost c md whole p sol` — the sum over the internal nodes of the evaluator's
  local cost `Spec.localCost` (infinite when an edge labelling is inadmissible or
  an event invalid).

  Proved, by induction on the object tree, for every mode:
  * `optTable_lower`     every feasible `sol` of finite cost has a cell with its root
                         state whose value is at most `specCost sol`;
  * `optTable_attained`  every cell is finite and its value is the `specCost` of a
                         feasible solution with the cell's root state (kept in
                         `sols` when `keep`);
  * `optTable_sols_sound` / `optTable_sols_complete`  the `sols` of a cell are exactly
                         the feasible solutions with the cell's root state whose
                         `specCost` is the cell value;
  hence a cell value is the minimum of `specCost` over the feasible solutions with
  that root state (`optTable_cell_min`), and for `Spec.optimum`:
  * `optimum_le`, `optimum_attained`, `mem_optimum_sols`.
-/
import SRVerif.Proofs.Agg
import SRVerif.Spec.Opt

namespace SR.Spec

open SR Cost

/-- The label of a leaf in each mode. -/
def leafLabel (md : ModeData) (f : List Nat) : List Nat :=
  match md with
  | .plain => []
  | .ordered _ => f
  | .unordered => sortNat (dedup f)

/-- The species an internal node (subtree `t`) may be mapped to. -/
def speciesSpace (S : RTree) (base : Bool) (t : OTree) : List Path :=
  if base then [(lcaSol t).sp] else allSpecies S

/-- The labelled sub-solutions the oracle ranges over at `(p, t)`. -/
def Feasible (S : RTree) (md : ModeData) (base : Bool) (whole : OTree) : Path → OTree → Sol → Prop
  | _, .leaf sp f, .leaf s g => s = sp ∧ g = leafLabel md f
  | p, .node l r, .node s f sl sr =>
    s ∈ speciesSpace S base (.node l r) ∧ f ∈ labelSpace md whole p ∧
    Feasible S md base whole (p ++ [0]) l sl ∧ Feasible S md base whole (p ++ [1]) r sr
  | _, .leaf _ _, .node _ _ _ _ => False
  | _, .node _ _, .leaf _ _ => False

/-- Sum of the evaluator's local costs over the internal nodes. -/
def specCost (c : Costs) (md : ModeData) (whole : OTree) : Path → Sol → Cost
  | _, .leaf _ _ => .fin 0
  | p, .node s f sl sr =>
    localCost c md whole p s f sl.sp sl.fam sr.sp sr.fam +
      (specCost c md whole (p ++ [0]) sl + specCost c md whole (p ++ [1]) sr)

/-! ### One node of the recursion -/

/-- The candidates of a cell: one per pair of child cells. -/
def cands (c : Costs) (md : ModeData) (whole : OTree) (p s : Path) (f : List Nat)
    (L R : List OCell) : List (Cost × OCell × OCell) :=
  L.flatMap fun cl => R.map fun cr =>
    (localCost c md whole p s f cl.sp cl.fam cr.sp cr.fam + (cl.cost + cr.cost), cl, cr)

def bestOf (c : Costs) (md : ModeData) (whole : OTree) (p s : Path) (f : List Nat)
    (L R : List OCell) : Cost :=
  Cost.minList ((cands c md whole p s f L R).map (·.1))

def solsOf (c : Costs) (md : ModeData) (whole : OTree) (keep : Bool) (p s : Path) (f : List Nat)
    (L R : List OCell) : List Sol :=
  if keep then
    ((cands c md whole p s f L R).filter (fun x => x.1 = bestOf c md whole p s f L R)).flatMap
      fun x => x.2.1.sols.flatMap fun sl => x.2.2.sols.map fun sr => Sol.node s f sl sr
  else []

def adqNodeCell (c : Costs) (md : ModeData) (whole : OTree) (keep : Bool) (p s : Path) (f : List Nat)
    (L R : List OCell) : Option OCell :=
  if (bestOf c md whole p s f L R).isInf then none
  else some { sp := s, fam := f, cost := bestOf c md whole p s f L R,
              sols := solsOf c md whole keep p s f L R }

theorem optTable_leaf (c : Costs) (S : RTree) (md : ModeData) (base keep : Bool) (whole : OTree)
    (p : Path) (sp : Path) (f : List Nat) :
    optTable c S md base keep whole p (.leaf sp f) =
      [{ sp := sp, fam := leafLabel md f, cost := .fin 0,
         sols := if keep then [.leaf sp (leafLabel md f)] else [] }] := by
  cases md <;> rfl

theorem optTable_node_adq (c : Costs) (S : RTree) (md : ModeData) (base keep : Bool) (whole : OTree)
    (p : Path) (l r : OTree) :
    optTable c S md base keep whole p (.node l r) =
      (speciesSpace S base (.node l r)).flatMap fun s =>
        (labelSpace md whole p).filterMap fun f =>
          adqNodeCell c md whole keep p s f
            (optTable c S md base keep whole (p ++ [0]) l)
            (optTable c S md base keep whole (p ++ [1]) r) := rfl

theorem mem_optTable_node {c : Costs} {S : RTree} {md : ModeData} {base keep : Bool} {whole : OTree}
    {p : Path} {l r : OTree} {cell : OCell} :
    cell ∈ optTable c S md base keep whole p (.node l r) ↔
      ∃ s ∈ speciesSpace S base (.node l r), ∃ f ∈ labelSpace md whole p,
        bestOf c md whole p s f (optTable c S md base keep whole (p ++ [0]) l)
          (optTable c S md base keep whole (p ++ [1]) r) ≠ .inf ∧
        cell = { sp := s, fam := f,
                 cost := bestOf c md whole p s f (optTable c S md base keep whole (p ++ [0]) l)
                   (optTable c S md base keep whole (p ++ [1]) r),
                 sols := solsOf c md whole keep p s f (optTable c S md base keep whole (p ++ [0]) l)
                   (optTable c S md base keep whole (p ++ [1]) r) } := by
  rw [optTable_node_adq]
  simp only [List.mem_flatMap, List.mem_filterMap, adqNodeCell]
  constructor
  · rintro ⟨s, hs, f, hf, h⟩
    refine ⟨s, hs, f, hf, ?_⟩
    split at h
    · cases h
    · rename_i hb
      injection h with h
      exact ⟨isInf_eq_false.mp (by simpa using hb), h.symm⟩
  · rintro ⟨s, hs, f, hf, hb, rfl⟩
    refine ⟨s, hs, f, hf, ?_⟩
    rw [if_neg (by rw [isInf_eq_false.mpr hb]; simp)]

theorem mem_cands {c : Costs} {md : ModeData} {whole : OTree} {p s : Path} {f : List Nat}
    {L R : List OCell} {x : Cost × OCell × OCell} :
    x ∈ cands c md whole p s f L R ↔
      x.2.1 ∈ L ∧ x.2.2 ∈ R ∧
        x.1 = localCost c md whole p s f x.2.1.sp x.2.1.fam x.2.2.sp x.2.2.fam +
          (x.2.1.cost + x.2.2.cost) := by
  obtain ⟨v, cl, cr⟩ := x
  simp only [cands, List.mem_flatMap, List.mem_map, Prod.mk.injEq]
  constructor
  · rintro ⟨cl', hl, cr', hr, rfl, rfl, rfl⟩; exact ⟨hl, hr, rfl⟩
  · rintro ⟨hl, hr, rfl⟩; exact ⟨cl, hl, cr, hr, rfl, rfl, rfl⟩

theorem bestOf_le {c : Costs} {md : ModeData} {whole : OTree} {p s : Path} {f : List Nat}
    {L R : List OCell} {cl cr : OCell} (hl : cl ∈ L) (hr : cr ∈ R) :
    bestOf c md whole p s f L R ≼
      localCost c md whole p s f cl.sp cl.fam cr.sp cr.fam + (cl.cost + cr.cost) := by
  apply minList_le
  exact List.mem_map.mpr ⟨(_, cl, cr), mem_cands.mpr ⟨hl, hr, rfl⟩, rfl⟩

theorem bestOf_attained {c : Costs} {md : ModeData} {whole : OTree} {p s : Path} {f : List Nat}
    {L R : List OCell} (h : bestOf c md whole p s f L R ≠ .inf) :
    ∃ cl ∈ L, ∃ cr ∈ R, (bestOf c md whole p s f L R, cl, cr) ∈ cands c md whole p s f L R ∧
      bestOf c md whole p s f L R =
        localCost c md whole p s f cl.sp cl.fam cr.sp cr.fam + (cl.cost + cr.cost) := by
  rcases minList_mem_or_inf ((cands c md whole p s f L R).map (·.1)) with hinf | hmem
  · exact absurd hinf h
  · obtain ⟨⟨v, cl, cr⟩, hx, hv⟩ := List.mem_map.mp hmem
    have hv' : v = bestOf c md whole p s f L R := hv
    subst hv'
    obtain ⟨hl, hr, he⟩ := mem_cands.mp hx
    exact ⟨cl, hl, cr, hr, hx, he⟩

theorem mem_solsOf {c : Costs} {md : ModeData} {whole : OTree} {p s : Path} {f : List Nat}
    {L R : List OCell} {sol : Sol} :
    sol ∈ solsOf c md whole true p s f L R ↔
      ∃ cl ∈ L, ∃ cr ∈ R,
        localCost c md whole p s f cl.sp cl.fam cr.sp cr.fam + (cl.cost + cr.cost) =
          bestOf c md whole p s f L R ∧
        ∃ sl ∈ cl.sols, ∃ sr ∈ cr.sols, sol = .node s f sl sr := by
  simp only [solsOf, if_true, List.mem_flatMap, List.mem_filter, List.mem_map, decide_eq_true_eq]
  constructor
  · rintro ⟨x, ⟨hx, hbest⟩, sl, hsl, sr, hsr, rfl⟩
    obtain ⟨hl, hr, he⟩ := mem_cands.mp hx
    exact ⟨x.2.1, hl, x.2.2, hr, by rw [← he, hbest], sl, hsl, sr, hsr, rfl⟩
  · rintro ⟨cl, hl, cr, hr, he, sl, hsl, sr, hsr, rfl⟩
    exact ⟨(_, cl, cr), ⟨mem_cands.mpr ⟨hl, hr, rfl⟩, he⟩, sl, hsl, sr, hsr, rfl⟩

/-! ### The table -/

variable (c : Costs) (S : RTree) (md : ModeData) (base : Bool) (whole : OTree)

/-- **Lower bound**: the cell of the root state of a feasible solution of finite cost
    exists and its value is at most the cost of that solution. -/
theorem optTable_lower (keep : Bool) : ∀ (t : OTree) (p : Path) (sol : Sol),
    Feasible S md base whole p t sol → specCost c md whole p sol ≠ .inf →
    ∃ cell ∈ optTable c S md base keep whole p t, cell.sp = sol.sp ∧ cell.fam = sol.fam ∧
      cell.cost ≼ specCost c md whole p sol := by
  intro t
  induction t with
  | leaf sp f =>
    intro p sol hf _
    cases sol with
    | node s g sl sr => simp [Feasible] at hf
    | leaf s g =>
      simp only [Feasible] at hf
      obtain ⟨rfl, rfl⟩ := hf
      rw [optTable_leaf]
      exact ⟨_, List.mem_singleton.mpr rfl, rfl, rfl, le_refl _⟩
  | node l r ihl ihr =>
    intro p sol hf hfin
    cases sol with
    | leaf s g => simp [Feasible] at hf
    | node s g sl sr =>
      simp only [Feasible] at hf
      obtain ⟨hs, hg, hfl, hfr⟩ := hf
      simp only [specCost] at hfin ⊢
      obtain ⟨_, hfin'⟩ := add_ne_inf hfin
      obtain ⟨hfinl, hfinr⟩ := add_ne_inf hfin'
      obtain ⟨dl, hdl, spl, faml, lel⟩ := ihl (p ++ [0]) sl hfl hfinl
      obtain ⟨dr, hdr, spr, famr, ler⟩ := ihr (p ++ [1]) sr hfr hfinr
      have hle : bestOf c md whole p s g (optTable c S md base keep whole (p ++ [0]) l)
          (optTable c S md base keep whole (p ++ [1]) r) ≼
          localCost c md whole p s g sl.sp sl.fam sr.sp sr.fam +
            (specCost c md whole (p ++ [0]) sl + specCost c md whole (p ++ [1]) sr) := by
        refine le_trans (bestOf_le hdl hdr) ?_
        rw [spl, faml, spr, famr]
        exact add_le_add (le_refl _) (add_le_add lel ler)
      have hb : bestOf c md whole p s g (optTable c S md base keep whole (p ++ [0]) l)
          (optTable c S md base keep whole (p ++ [1]) r) ≠ .inf := by
        intro e; rw [e] at hle; exact hfin ((inf_le _).mp hle)
      exact ⟨_, mem_optTable_node.mpr ⟨s, hs, g, hg, hb, rfl⟩, rfl, rfl, hle⟩

/-- **Soundness of the kept solutions**. -/
theorem optTable_sols_sound (keep : Bool) : ∀ (t : OTree) (p : Path),
    ∀ cell ∈ optTable c S md base keep whole p t, ∀ sol ∈ cell.sols,
      Feasible S md base whole p t sol ∧ sol.sp = cell.sp ∧ sol.fam = cell.fam ∧
        specCost c md whole p sol = cell.cost := by
  intro t
  induction t with
  | leaf sp f =>
    intro p cell hcell sol hsol
    rw [optTable_leaf, List.mem_singleton] at hcell
    subst hcell
    cases keep with
    | false => simp at hsol
    | true =>
      simp only [if_true, List.mem_singleton] at hsol
      subst hsol
      exact ⟨by simp [Feasible], rfl, rfl, rfl⟩
  | node l r ihl ihr =>
    intro p cell hcell sol hsol
    obtain ⟨s, hs, f, hf, _, rfl⟩ := mem_optTable_node.mp hcell
    cases keep with
    | false => simp [solsOf] at hsol
    | true =>
      obtain ⟨cl, hl, cr, hr, he, sl, hsl, sr, hsr, rfl⟩ := mem_solsOf.mp hsol
      obtain ⟨fl, spl, faml, cstl⟩ := ihl (p ++ [0]) cl hl sl hsl
      obtain ⟨fr, spr, famr, cstr⟩ := ihr (p ++ [1]) cr hr sr hsr
      refine ⟨by simp only [Feasible]; exact ⟨hs, hf, fl, fr⟩, rfl, rfl, ?_⟩
      simp only [specCost]
      rw [spl, faml, spr, famr, cstl, cstr]
      exact he

/-- **Every cell is finite and attained** by a feasible solution with the cell's root
    state, which is among the kept solutions when `keep`. -/
theorem optTable_attained (keep : Bool) : ∀ (t : OTree) (p : Path),
    ∀ cell ∈ optTable c S md base keep whole p t,
      cell.cost ≠ .inf ∧
      ∃ sol, Feasible S md base whole p t sol ∧ sol.sp = cell.sp ∧ sol.fam = cell.fam ∧
        specCost c md whole p sol = cell.cost ∧ (keep = true → sol ∈ cell.sols) := by
  intro t
  induction t with
  | leaf sp f =>
    intro p cell hcell
    rw [optTable_leaf, List.mem_singleton] at hcell
    subst hcell
    refine ⟨by simp, .leaf sp (leafLabel md f), by simp [Feasible], rfl, rfl, rfl, ?_⟩
    intro hk; simp [hk]
  | node l r ihl ihr =>
    intro p cell hcell
    obtain ⟨s, hs, f, hf, hb, rfl⟩ := mem_optTable_node.mp hcell
    refine ⟨hb, ?_⟩
    obtain ⟨cl, hl, cr, hr, _, he⟩ := bestOf_attained hb
    obtain ⟨_, sl, fl, spl, faml, cstl, kl⟩ := ihl (p ++ [0]) cl hl
    obtain ⟨_, sr, fr, spr, famr, cstr, kr⟩ := ihr (p ++ [1]) cr hr
    refine ⟨.node s f sl sr, by simp only [Feasible]; exact ⟨hs, hf, fl, fr⟩, rfl, rfl, ?_, ?_⟩
    · simp only [specCost]
      rw [spl, faml, spr, famr, cstl, cstr]
      exact he.symm
    · intro hk
      subst hk
      exact mem_solsOf.mpr ⟨cl, hl, cr, hr, he.symm, sl, kl rfl, sr, kr rfl, rfl⟩

/-- **Completeness of the kept solutions**: a feasible solution whose cost is the
    value of the cell of its root state is kept in that cell. -/
theorem optTable_sols_complete : ∀ (t : OTree) (p : Path) (sol : Sol),
    Feasible S md base whole p t sol →
    ∀ cell ∈ optTable c S md base true whole p t, cell.sp = sol.sp → cell.fam = sol.fam →
      specCost c md whole p sol = cell.cost → sol ∈ cell.sols := by
  intro t
  induction t with
  | leaf sp f =>
    intro p sol hf cell hcell _ _ _
    cases sol with
    | node s g sl sr => simp [Feasible] at hf
    | leaf s g =>
      simp only [Feasible] at hf
      obtain ⟨rfl, rfl⟩ := hf
      rw [optTable_leaf, List.mem_singleton] at hcell
      subst hcell
      simp
  | node l r ihl ihr =>
    intro p sol hf cell hcell hsp hfam hcost
    cases sol with
    | leaf s g => simp [Feasible] at hf
    | node s g sl sr =>
      simp only [Feasible] at hf
      obtain ⟨hs, hg, hfl, hfr⟩ := hf
      obtain ⟨s', _, f', _, hb, rfl⟩ := mem_optTable_node.mp hcell
      simp only [Sol.sp, Sol.fam] at hsp hfam
      subst hsp hfam
      simp only [specCost] at hcost
      obtain ⟨n, hn⟩ := ne_inf_iff.mp hb
      have hfin : localCost c md whole p s' f' sl.sp sl.fam sr.sp sr.fam +
          (specCost c md whole (p ++ [0]) sl + specCost c md whole (p ++ [1]) sr) ≠ .inf := by
        rw [hcost]; exact hb
      obtain ⟨_, hfin'⟩ := add_ne_inf hfin
      obtain ⟨hfinl, hfinr⟩ := add_ne_inf hfin'
      obtain ⟨dl, hdl, spl, faml, lel⟩ := optTable_lower c S md base whole true l (p ++ [0]) sl hfl hfinl
      obtain ⟨dr, hdr, spr, famr, ler⟩ := optTable_lower c S md base whole true r (p ++ [1]) sr hfr hfinr
      have hle := bestOf_le (c := c) (md := md) (whole := whole) (p := p) (s := s') (f := f') hdl hdr
      rw [spl, faml, spr, famr, ← hcost] at hle
      have hn' : localCost c md whole p s' f' sl.sp sl.fam sr.sp sr.fam +
          specCost c md whole (p ++ [0]) sl + specCost c md whole (p ++ [1]) sr = .fin n := by
        rw [add_assoc, hcost, hn]
      have := eq_of_add_le lel ler hn' (by rw [add_assoc, add_assoc]; exact hle)
      obtain ⟨el, er⟩ := this
      have hinl := ihl (p ++ [0]) sl hfl dl hdl spl faml el.symm
      have hinr := ihr (p ++ [1]) sr hfr dr hdr spr famr er.symm
      refine mem_solsOf.mpr ⟨dl, hdl, dr, hdr, ?_, sl, hinl, sr, hinr, rfl⟩
      rw [spl, faml, spr, famr, el, er]
      exact hcost

/-- Two cells of a table with the same root state have the same value. -/
theorem optTable_cost_det (keep : Bool) (t : OTree) (p : Path) (d e : OCell)
    (hd : d ∈ optTable c S md base keep whole p t) (he : e ∈ optTable c S md base keep whole p t)
    (hsp : d.sp = e.sp) (hfam : d.fam = e.fam) : d.cost = e.cost := by
  cases t with
  | leaf sp f =>
    rw [optTable_leaf, List.mem_singleton] at hd he
    rw [hd, he]
  | node l r =>
    obtain ⟨s, _, f, _, _, rfl⟩ := mem_optTable_node.mp hd
    obtain ⟨s', _, f', _, _, rfl⟩ := mem_optTable_node.mp he
    simp only at hsp hfam
    subst hsp hfam
    rfl

/-- The value of a cell is the minimum of `specCost` over the feasible solutions with
    the cell's root state. -/
theorem optTable_cell_min (keep : Bool) (t : OTree) (p : Path) (cell : OCell)
    (hcell : cell ∈ optTable c S md base keep whole p t) :
    (∃ sol, Feasible S md base whole p t sol ∧ sol.sp = cell.sp ∧ sol.fam = cell.fam ∧
        specCost c md whole p sol = cell.cost) ∧
    ∀ sol, Feasible S md base whole p t sol → sol.sp = cell.sp → sol.fam = cell.fam →
      cell.cost ≼ specCost c md whole p sol := by
  obtain ⟨hfin, sol0, h0, sp0, fam0, c0, _⟩ := optTable_attained c S md base whole keep t p cell hcell
  refine ⟨⟨sol0, h0, sp0, fam0, c0⟩, ?_⟩
  intro sol hf hsp hfam
  by_cases hinf : specCost c md whole p sol = .inf
  · rw [hinf]; exact le_inf _
  · obtain ⟨d, hd, spd, famd, led⟩ := optTable_lower c S md base whole keep t p sol hf hinf
    rw [← optTable_cost_det c S md base whole keep t p d cell hd hcell (by rw [spd, hsp])
      (by rw [famd, hfam])]
    exact led

/-! ### The optimum -/

theorem mem_optimum_cells {mode : LabelMode} {keep : Bool} {o : OTree} {pre : Option (List Nat)}
    {md : ModeData} {cell : OCell} (hmd : md ∈ modeDatas mode o pre)
    (hcell : cell ∈ optTable c S md base keep o [] o) :
    (optimum c S mode base keep o pre).1 ≼ cell.cost := by
  apply minList_le
  exact List.mem_map.mpr ⟨cell, List.mem_flatMap.mpr ⟨md, hmd, hcell⟩, rfl⟩

/-- **The optimum is a lower bound** of the cost of every feasible solution of every
    mode datum (root order). -/
theorem optimum_le (mode : LabelMode) (keep : Bool) (o : OTree) (pre : Option (List Nat))
    (md : ModeData) (hmd : md ∈ modeDatas mode o pre) (sol : Sol)
    (hf : Feasible S md base o [] o sol) :
    (optimum c S mode base keep o pre).1 ≼ specCost c md o [] sol := by
  by_cases hinf : specCost c md o [] sol = .inf
  · rw [hinf]; exact le_inf _
  · obtain ⟨d, hd, _, _, led⟩ := optTable_lower c S md base o keep o [] sol hf hinf
    exact le_trans (mem_optimum_cells c S base hmd hd) led

/-- **The optimum is attained** when finite. -/
theorem optimum_attained (mode : LabelMode) (keep : Bool) (o : OTree) (pre : Option (List Nat))
    (h : (optimum c S mode base keep o pre).1 ≠ .inf) :
    ∃ md ∈ modeDatas mode o pre, ∃ sol, Feasible S md base o [] o sol ∧
      specCost c md o [] sol = (optimum c S mode base keep o pre).1 := by
  rcases minList_mem_or_inf
    (((modeDatas mode o pre).flatMap fun md => optTable c S md base keep o [] o).map (·.cost)) with
    hinf | hmem
  · exact absurd hinf h
  · obtain ⟨cell, hcell, hc⟩ := List.mem_map.mp hmem
    obtain ⟨md, hmd, hcell⟩ := List.mem_flatMap.mp hcell
    obtain ⟨_, sol, hf, _, _, hcost, _⟩ := optTable_attained c S md base o keep o [] cell hcell
    exact ⟨md, hmd, sol, hf, by rw [hcost]; exact hc⟩

/-- The optimal value does not depend on `keep`. -/
theorem optimum_fst_keep (mode : LabelMode) (keep keep' : Bool) (o : OTree) (pre : Option (List Nat)) :
    (optimum c S mode base keep o pre).1 = (optimum c S mode base keep' o pre).1 := by
  have key : ∀ k k' : Bool,
      (optimum c S mode base k o pre).1 ≼ (optimum c S mode base k' o pre).1 := by
    intro k k'
    by_cases hinf : (optimum c S mode base k' o pre).1 = .inf
    · rw [hinf]; exact le_inf _
    · obtain ⟨md, hmd, sol, hf, hc⟩ := optimum_attained c S base mode k' o pre hinf
      rw [← hc]
      exact optimum_le c S base mode k o pre md hmd sol hf
  exact le_antisymm (key keep keep') (key keep' keep)

/-- **The optimal set**: exactly the feasible solutions (of some mode datum) whose
    cost is the (finite) optimum. -/
theorem mem_optimum_sols (mode : LabelMode) (o : OTree) (pre : Option (List Nat)) (sol : Sol) :
    sol ∈ (optimum c S mode base true o pre).2 ↔
      ∃ md ∈ modeDatas mode o pre, Feasible S md base o [] o sol ∧
        specCost c md o [] sol = (optimum c S mode base true o pre).1 ∧
        (optimum c S mode base true o pre).1 ≠ .inf := by
  constructor
  · intro h
    simp only [optimum, mem_dedup, List.mem_flatMap, List.mem_filter, decide_eq_true_eq] at h
    obtain ⟨cell, ⟨⟨md, hmd, hcell⟩, hbest⟩, hsol⟩ := h
    obtain ⟨hf, _, _, hcost⟩ := optTable_sols_sound c S md base o true o [] cell hcell sol hsol
    have hfin := (optTable_attained c S md base o true o [] cell hcell).1
    refine ⟨md, hmd, hf, ?_, ?_⟩
    · rw [hcost]; exact hbest
    · intro e; apply hfin; rw [hbest]; exact e
  · rintro ⟨md, hmd, hf, hcost, hfin⟩
    obtain ⟨d, hd, spd, famd, led⟩ :=
      optTable_lower c S md base o true o [] sol hf (by rw [hcost]; exact hfin)
    have hdc : d.cost = (optimum c S mode base true o pre).1 :=
      le_antisymm (by rw [← hcost]; exact led) (mem_optimum_cells c S base hmd hd)
    have hin := optTable_sols_complete c S md base o o [] sol hf d hd spd famd (by rw [hcost, hdc])
    simp only [optimum, mem_dedup, List.mem_flatMap, List.mem_filter, decide_eq_true_eq]
    exact ⟨d, ⟨⟨md, hmd, hd⟩, hdc⟩, hin⟩

theorem nodup_optimum_sols (mode : LabelMode) (keep : Bool) (o : OTree) (pre : Option (List Nat)) :
    (optimum c S mode base keep o pre).2.Nodup := nodup_dedup _

end SR.Spec
