/-
  What each drawing call made on behalf of a branch looks like: its species and owner, its
  colour (the branch's), its label (the branch's name), and for a transfer arrow its target — the
  anchor of the transferred child in the layout of the species that child is mapped to.
-/
import SRVerif.Proofs.TikzDraw

namespace SR.TikzDraw

open SR SR.Layout SR.Tikz

/-- A call made by the loop iteration of branch `b` of the species layout `lay`. -/
structure BranchCall (deco : Deco) (all : List SubLayout) (spOf : Path → Option Path)
    (lay : SubLayout) (b : FBranch) (c : DrawCall) : Prop where
  sp : c.sp = lay.sp
  owner : c.owner = some b.key
  /-- every statement of a branch is drawn in the branch's colour -/
  colour : c.fills.head? = some (.color (deco.color lay.sp b.key))
  /-- which statements a branch of each kind makes -/
  stmt : c.stmt = 2 ∨ (b.kind = .leaf ∧ c.stmt = 3) ∨
    (b.kind = .loss ∧ (c.stmt = 4 ∨ c.stmt = 5 ∨ c.stmt = 6)) ∨
    (b.kind = .spec ∧ (c.stmt = 7 ∨ c.stmt = 8)) ∨
    (b.kind = .dup ∧ (c.stmt = 9 ∨ c.stmt = 10)) ∨
    (b.kind = .hgt ∧ (c.stmt = 11 ∨ c.stmt = 12 ∨ c.stmt = 13))
  /-- extant genes, speciations and duplications show the branch's label -/
  label : c.stmt = 3 ∨ c.stmt = 8 ∨ c.stmt = 10 → DFill.text (deco.name lay.sp b.key) ∈ c.fills
  /-- a transfer node shows the label, or `\phantom{-}` when it is empty -/
  hgtLabel : c.stmt = 13 →
    DFill.text (if (deco.name lay.sp b.key).isEmpty then phantomDash else deco.name lay.sp b.key)
      ∈ c.fills
  /-- a transfer arrow ends at the anchor of the transferred child `right_gene`, looked up in the
      layout of the species `mapping[right_gene]` -/
  arrow : c.stmt = 12 → ∃ g s fl p, b.right = some (.gene g) ∧ c.target = some (.gene g) ∧
    spOf g = some s ∧ slLookup all s = some fl ∧ lookupKey fl.anchors (.gene g) = some p ∧
    c.fills.getLast? = some (.coord p)
  noTarget : c.stmt ≠ 12 → c.target = none

theorem anchorCall_branchCall (deco : Deco) (all : List SubLayout) (spOf : Path → Option Path)
    (lay : SubLayout) (b : FBranch) :
    ∀ c ∈ anchorCall deco lay b, BranchCall deco all spOf lay b c := by
  intro c hc
  unfold anchorCall at hc
  split at hc
  · simp only [List.mem_singleton] at hc
    subst hc
    exact ⟨rfl, rfl, rfl, Or.inl rfl, by simp, by simp, by simp, by simp⟩
  · cases hc

theorem drawBranch_branchCall {o : Orientation} {dp : DParams} {deco : Deco}
    {all : List SubLayout} {spOf : Path → Option Path} {lay : SubLayout}
    {ll rl : Option SubLayout} {b : FBranch} {cs : List DrawCall}
    (h : drawBranch o dp deco all spOf lay ll rl b = .ok cs) :
    ∀ c ∈ cs, BranchCall deco all spOf lay b c := by
  have hpre := anchorCall_branchCall deco all spOf lay b
  unfold drawBranch at h
  cases hk : b.kind with
  | leaf =>
    simp only [hk, Except.ok.injEq] at h
    subst h
    intro c hc
    rcases List.mem_append.1 hc with hc | hc
    · exact hpre c hc
    · simp only [List.mem_singleton] at hc
      subst hc
      exact ⟨rfl, rfl, rfl, by simp [hk], by simp, by simp, by simp, by simp⟩
  | loss =>
    simp only [hk] at h
    split at h
    · cases h
    · simp only [Except.ok.injEq] at h
      subst h
      intro c hc
      rcases List.mem_append.1 hc with hc | hc
      · exact hpre c hc
      · simp only [List.mem_cons, List.not_mem_nil, or_false] at hc
        rcases hc with rfl | rfl | rfl <;>
          exact ⟨rfl, rfl, rfl, by simp [hk], by simp, by simp, by simp, by simp⟩
  | spec =>
    simp only [hk] at h
    split at h
    · simp only [Except.ok.injEq] at h
      subst h
      intro c hc
      rcases List.mem_append.1 hc with hc | hc
      · exact hpre c hc
      · simp only [List.mem_cons, List.not_mem_nil, or_false] at hc
        rcases hc with rfl | rfl <;>
          exact ⟨rfl, rfl, rfl, by simp [hk], by simp, by simp, by simp, by simp⟩
    · cases h
    · cases h
  | dup =>
    simp only [hk] at h
    split at h
    · simp only [Except.ok.injEq] at h
      subst h
      intro c hc
      rcases List.mem_append.1 hc with hc | hc
      · exact hpre c hc
      · simp only [List.mem_cons, List.not_mem_nil, or_false] at hc
        rcases hc with rfl | rfl <;>
          exact ⟨rfl, rfl, rfl, by simp [hk], by simp, by simp, by simp, by simp⟩
    · cases h
    · cases h
  | hgt =>
    simp only [hk] at h
    cases hr : b.right with
    | none => simp [hr] at h
    | some k =>
      cases k with
      | loss g s => simp [hr] at h
      | gene g =>
        simp only [hr] at h
        cases hs : spOf g with
        | none => simp [hs] at h
        | some s =>
          simp only [hs] at h
          cases hfl : slLookup all s with
          | none => simp [hfl] at h
          | some fl =>
            simp only [hfl] at h
            obtain hf | ⟨foreign, hf⟩ : lookupKey fl.anchors (Key.gene g) = none ∨
                ∃ p, lookupKey fl.anchors (Key.gene g) = some p := by
              cases lookupKey fl.anchors (Key.gene g) <;> simp
            · simp [hf] at h
            · simp only [hf] at h
              cases hla : branchParentAnchor lay b.left with
              | error e => simp [hla] at h
              | ok la =>
                simp only [hla, Except.ok.injEq] at h
                subst h
                intro c hc
                rcases List.mem_append.1 hc with hc | hc
                · exact hpre c hc
                · simp only [List.mem_cons, List.not_mem_nil, or_false] at hc
                  rcases hc with rfl | rfl | rfl
                  · exact ⟨rfl, rfl, rfl, by simp [hk], by simp, by simp, by simp, by simp⟩
                  · refine ⟨rfl, rfl, rfl, by simp [hk], by simp, by simp, ?_, by simp⟩
                    intro _
                    exact ⟨g, s, fl, foreign, hr, rfl, hs, hfl, hf, by simp⟩
                  · exact ⟨rfl, rfl, rfl, by simp [hk], by simp, by simp, by simp, by simp⟩

end SR.TikzDraw
