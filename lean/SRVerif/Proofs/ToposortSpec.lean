/-
  Spec-level facts for C19, independent of the model: "greedy" sequences
  (repeatedly remove a vertex all of whose predecessors are already removed)
  versus topological orderings.
-/
import SRVerif.Spec.Toposort
import Mathlib.Data.List.Basic
import Mathlib.Data.List.Nodup
import Mathlib.Data.List.Perm.Subperm

namespace SR.Toposort

/-- `v` can be removed next: it is a vertex, not yet removed, and all its
    predecessors have been removed. -/
def Ready (g : Graph) (done : List Nat) (v : Nat) : Prop :=
  v ∈ keys g ∧ v ∉ done ∧ ∀ p ∈ g, v ∈ p.2 → p.1 ∈ done

/-- `s` is a sequence of successive removals starting from `done`. -/
def Path (g : Graph) : List Nat → List Nat → Prop
  | _, [] => True
  | done, v :: s => Ready g done v ∧ Path g (v :: done) s

/-- A *maximal* sequence of successive removals. -/
def Greedy (g : Graph) : List Nat → List Nat → Prop
  | done, [] => ∀ v, ¬ Ready g done v
  | done, v :: s => Ready g done v ∧ Greedy g (v :: done) s

theorem ready_congr {g : Graph} {d d' : List Nat} (h : ∀ x, x ∈ d ↔ x ∈ d') (v : Nat) :
    Ready g d v ↔ Ready g d' v := by
  unfold Ready
  constructor
  · rintro ⟨a, b, c⟩; exact ⟨a, fun hh => b ((h _).2 hh), fun p hp hv => (h _).1 (c p hp hv)⟩
  · rintro ⟨a, b, c⟩; exact ⟨a, fun hh => b ((h _).1 hh), fun p hp hv => (h _).2 (c p hp hv)⟩

theorem greedy_iff (g : Graph) (s : List Nat) : ∀ done,
    Greedy g done s ↔ Path g done s ∧ ∀ v, ¬ Ready g (s.reverse ++ done) v := by
  induction s with
  | nil => intro done; simp [Greedy, Path]
  | cons a s ih =>
    intro done
    simp only [Greedy, Path, ih, List.reverse_cons, List.append_assoc, List.singleton_append]
    tauto

/-- Properties of a removal sequence, relative to a list `pre` listing
    `done`. -/
theorem path_sound (g : Graph) (s : List Nat) : ∀ done pre, Path g done s →
    (∀ x, x ∈ done ↔ x ∈ pre) → pre.Nodup →
    (pre ++ s).Nodup ∧ (∀ v ∈ s, v ∈ keys g) ∧
    ∀ p ∈ g, ∀ v ∈ p.2, v ∈ s → (pre ++ s).idxOf p.1 < (pre ++ s).idxOf v := by
  induction s with
  | nil => intro done pre _ _ hn; simpa using hn
  | cons a s ih =>
    intro done pre hp hd hn
    obtain ⟨⟨hak, had, hpred⟩, hp'⟩ := hp
    have hapre : a ∉ pre := fun h => had ((hd a).2 h)
    have hn' : (pre ++ [a]).Nodup := by
      rw [List.nodup_append]
      refine ⟨hn, by simp, ?_⟩
      intro x hx y hy
      simp at hy; subst hy
      intro h; subst h; exact hapre hx
    have hd' : ∀ x, x ∈ a :: done ↔ x ∈ pre ++ [a] := by
      intro x; simp [hd x]; tauto
    obtain ⟨h1, h2, h3⟩ := ih (a :: done) (pre ++ [a]) hp' hd' hn'
    have e : pre ++ [a] ++ s = pre ++ a :: s := by simp
    rw [e] at h1 h3
    refine ⟨h1, ?_, ?_⟩
    · intro v hv
      rcases List.mem_cons.1 hv with h | h
      · subst h; exact hak
      · exact h2 v h
    · intro p hp v hv hvs
      rcases List.mem_cons.1 hvs with h | h
      · subst h
        have hu : p.1 ∈ pre := (hd _).1 (hpred p hp hv)
        rw [List.idxOf_append, List.idxOf_append, if_pos hu, if_neg hapre, List.idxOf_cons_self]
        have := List.idxOf_lt_length_iff.2 hu
        omega
      · exact h3 p hp v hv h

/-- A removal sequence from the empty set that exhausts the vertices is a
    topological ordering. -/
theorem path_full_isTopo {g : Graph} (hsub : ∀ p ∈ g, ∀ v ∈ p.2, v ∈ keys g)
    {s : List Nat} (hp : Path g [] s) (hlen : s.length = g.length) : IsTopo g s := by
  obtain ⟨h1, h2, h3⟩ := path_sound g s [] [] hp (by simp) (by simp)
  simp only [List.nil_append] at h1 h3
  have hperm : s.Perm (keys g) :=
    (List.subperm_of_subset h1 h2).perm_of_length_le (by simp [keys, hlen])
  have hall : ∀ v ∈ keys g, v ∈ s := fun v hv => hperm.symm.subset hv
  exact ⟨h1, h2, hall, fun p hp v hv => h3 p hp v hv (hall v (hsub p hp v hv))⟩

/-- Every prefix-closed reading of a topological ordering is a removal
    sequence; a complete one is maximal. -/
theorem isTopo_greedy_aux (g : Graph) (s : List Nat) : ∀ pre done, IsTopo g (pre ++ s) →
    (∀ x, x ∈ done ↔ x ∈ pre) → Greedy g done s := by
  induction s with
  | nil =>
    intro pre done ht hd v hv
    obtain ⟨hvk, hvd, _⟩ := hv
    simp only [List.append_nil] at ht
    exact hvd ((hd v).2 (ht.2.2.1 v hvk))
  | cons a s ih =>
    intro pre done ht hd
    have hnd := ht.1
    have hapre : a ∉ pre := by
      intro h
      have := (List.nodup_append.1 hnd).2.2 a h a (by simp)
      exact this rfl
    refine ⟨⟨ht.2.1 a (by simp), fun h => hapre ((hd a).1 h), ?_⟩, ?_⟩
    · intro p hp hv
      have hlt := ht.2.2.2 p hp a hv
      rw [List.idxOf_append (a := a), if_neg hapre, List.idxOf_cons_self] at hlt
      rw [List.idxOf_append] at hlt
      by_cases hu : p.1 ∈ pre
      · exact (hd _).2 hu
      · rw [if_neg hu] at hlt; omega
    · apply ih (pre ++ [a]) (a :: done)
      · simpa using ht
      · intro x; simp [hd x]; tauto

theorem isTopo_greedy {g : Graph} {o : List Nat} (h : IsTopo g o) : Greedy g [] o :=
  isTopo_greedy_aux g o [] [] (by simpa using h) (by simp)

/-- If a topological ordering exists, a stuck removal sequence has removed
    every vertex. -/
theorem stuck_all {g : Graph} {o : List Nat} (ht : IsTopo g o) {done : List Nat}
    (hstuck : ∀ v, ¬ Ready g done v) : ∀ v ∈ keys g, v ∈ done := by
  intro v hv
  by_contra hvd
  have hvo : v ∈ o := ht.2.2.1 v hv
  cases hf : o.find? (fun x => decide (x ∉ done)) with
  | none =>
    rw [List.find?_eq_none] at hf
    have := hf v hvo
    simp at this
    exact hvd this
  | some w =>
    rw [List.find?_eq_some_iff_append] at hf
    obtain ⟨hw, as, bs, ho, has⟩ := hf
    simp only [decide_eq_true_eq] at hw
    have hwas : w ∉ as := by
      intro h
      have hnd := ht.1
      rw [ho] at hnd
      exact (List.nodup_append.1 hnd).2.2 w h w (by simp) rfl
    apply hstuck w
    refine ⟨ht.2.1 w (by rw [ho]; simp), hw, ?_⟩
    intro p hp hwp
    have hlt := ht.2.2.2 p hp w hwp
    rw [ho, List.idxOf_append (a := w), if_neg hwas, List.idxOf_cons_self, List.idxOf_append] at hlt
    by_cases hu : p.1 ∈ as
    · have := has _ hu
      simpa using this
    · rw [if_neg hu] at hlt; omega

/-- If a topological ordering exists, every maximal removal sequence from the
    empty set has full length. -/
theorem greedy_full {g : Graph} (hk : (keys g).Nodup) {o : List Nat} (ht : IsTopo g o)
    {s : List Nat} (hs : Greedy g [] s) : s.length = g.length := by
  rw [greedy_iff] at hs
  obtain ⟨hp, hstuck⟩ := hs
  obtain ⟨h1, h2, _⟩ := path_sound g s [] [] hp (by simp) (by simp)
  simp only [List.nil_append] at h1
  have hall := stuck_all ht hstuck
  have h3 : keys g ⊆ s := by
    intro v hv
    have := hall v hv
    simpa using this
  have l1 := h1.length_le_of_subset (l₂ := keys g) h2
  have l2 := hk.length_le_of_subset h3
  simp [keys] at l1 l2
  omega

/-- A full-length maximal removal sequence is a topological ordering. -/
theorem greedy_full_isTopo {g : Graph}
    (hsub : ∀ p ∈ g, ∀ v ∈ p.2, v ∈ keys g) {s : List Nat} (hs : Greedy g [] s)
    (hlen : s.length = g.length) : IsTopo g s :=
  path_full_isTopo hsub ((greedy_iff g s []).1 hs).1 hlen

end SR.Toposort
