/-
  C19: `_make_prec_graph`.  The graph built from the leaf syntenies has the
  families as vertices and the consecutive pairs as edges; its topological
  orderings are the duplicate-free arrangements of the families containing
  every leaf synteny as a subsequence.
-/
import SRVerif.Proofs.ToposortAlg

namespace SR.Toposort

/-- `zip(s[0:-1], s[1:])`. -/
def pairs (s : List Nat) : List (Nat × Nat) := s.dropLast.zip s.tail

@[simp] theorem pairs_nil : pairs [] = [] := rfl
@[simp] theorem pairs_single (a : Nat) : pairs [a] = [] := rfl
@[simp] theorem pairs_cons_cons (a b : Nat) (t : List Nat) :
    pairs (a :: b :: t) = (a, b) :: pairs (b :: t) := by simp [pairs]

theorem mem_iff_pairs_or_last : ∀ (s : List Nat) (v : Nat),
    v ∈ s ↔ (∃ p ∈ pairs s, p.1 = v) ∨ s.getLast? = some v
  | [], v => by simp
  | [a], v => by simp [eq_comm]
  | a :: b :: t, v => by
    have ih := mem_iff_pairs_or_last (b :: t) v
    rw [List.mem_cons, ih, pairs_cons_cons]
    simp only [List.mem_cons, exists_eq_or_imp, List.getLast?_cons_cons]
    constructor
    · rintro (h | h | h)
      · exact Or.inl (Or.inl h.symm)
      · exact Or.inl (Or.inr h)
      · exact Or.inr h
    · rintro ((h | h) | h)
      · exact Or.inl h.symm
      · exact Or.inr (Or.inl h)
      · exact Or.inr (Or.inr h)

theorem snd_mem_of_mem_pairs {s : List Nat} {p : Nat × Nat} (h : p ∈ pairs s) : p.2 ∈ s :=
  List.mem_of_mem_tail (List.of_mem_zip (a := p.1) (b := p.2) h).2

/-! ### The order-theoretic core: consecutive pairs versus subsequence -/

theorem pairwise_of_pairs (lt : Nat → Nat → Prop) (htr : ∀ a b c, lt a b → lt b c → lt a c) :
    ∀ s : List Nat, (∀ p ∈ pairs s, lt p.1 p.2) → s.Pairwise lt
  | [], _ => List.Pairwise.nil
  | [a], _ => by simp
  | a :: b :: t, h => by
    have ih := pairwise_of_pairs lt htr (b :: t) (fun p hp => h p (by simp [hp]))
    have hab : lt a b := h (a, b) (by simp)
    refine List.pairwise_cons.2 ⟨?_, ih⟩
    intro x hx
    rcases List.mem_cons.1 hx with e | e
    · exact e ▸ hab
    · exact htr a b x hab ((List.pairwise_cons.1 ih).1 x e)

theorem pairs_of_pairwise (lt : Nat → Nat → Prop) :
    ∀ s : List Nat, s.Pairwise lt → ∀ p ∈ pairs s, lt p.1 p.2
  | [], _ => by simp
  | [a], _ => by simp
  | a :: b :: t, h => by
    intro p hp
    rw [pairs_cons_cons, List.mem_cons] at hp
    rcases hp with e | e
    · subst e; exact (List.pairwise_cons.1 h).1 b (by simp)
    · exact pairs_of_pairwise lt (b :: t) (List.pairwise_cons.1 h).2 p e

theorem sublist_of_pairwise_idx : ∀ (o s : List Nat), (∀ x ∈ s, x ∈ o) →
    s.Pairwise (fun a b => o.idxOf a < o.idxOf b) → s.Sublist o := by
  intro o
  induction o with
  | nil =>
    intro s hs _
    cases s with
    | nil => exact List.Sublist.slnil
    | cons a s => exact absurd (hs a (by simp)) (by simp)
  | cons c o ih =>
    intro s hs hp
    cases s with
    | nil => exact List.nil_sublist _
    | cons a s =>
      obtain ⟨hhead, htail⟩ := List.pairwise_cons.1 hp
      have transfer : ∀ l : List Nat, (∀ x ∈ l, x ≠ c) →
          l.Pairwise (fun a b => (c :: o).idxOf a < (c :: o).idxOf b) →
          l.Pairwise (fun a b => o.idxOf a < o.idxOf b) := by
        intro l hl hpl
        refine hpl.imp_of_mem ?_
        intro x y hx hy hlt
        rw [List.idxOf_cons_ne _ (Ne.symm (hl x hx)), List.idxOf_cons_ne _ (Ne.symm (hl y hy))] at hlt
        omega
      by_cases e : a = c
      · subst e
        have hne : ∀ x ∈ s, x ≠ a := by
          intro x hx e; subst e
          exact absurd (hhead x hx) (by simp)
        have hso : ∀ x ∈ s, x ∈ o := by
          intro x hx
          rcases List.mem_cons.1 (hs x (by simp [hx])) with h | h
          · exact absurd h (hne x hx)
          · exact h
        exact (ih s hso (transfer s hne htail)).cons_cons a
      · have hne : ∀ x ∈ a :: s, x ≠ c := by
          intro x hx
          rcases List.mem_cons.1 hx with h | h
          · exact h ▸ e
          · intro ec; subst ec
            have := hhead x h
            rw [List.idxOf_cons_self] at this
            omega
        have hso : ∀ x ∈ a :: s, x ∈ o := by
          intro x hx
          rcases List.mem_cons.1 (hs x hx) with h | h
          · exact absurd h (hne x hx)
          · exact h
        exact (ih (a :: s) hso (transfer (a :: s) hne hp)).cons c

theorem pairwise_idx_of_nodup : ∀ o : List Nat, o.Nodup →
    o.Pairwise (fun a b => o.idxOf a < o.idxOf b) := by
  intro o
  induction o with
  | nil => intro _; exact List.Pairwise.nil
  | cons c o ih =>
    intro hn
    obtain ⟨hc, hn'⟩ := List.nodup_cons.1 hn
    refine List.pairwise_cons.2 ⟨?_, ?_⟩
    · intro x hx
      have : x ≠ c := fun e => hc (e ▸ hx)
      rw [List.idxOf_cons_self, List.idxOf_cons_ne _ (Ne.symm this)]
      omega
    · refine (ih hn').imp_of_mem ?_
      intro x y hx hy hlt
      have hxc : x ≠ c := fun e => hc (e ▸ hx)
      have hyc : y ≠ c := fun e => hc (e ▸ hy)
      rw [List.idxOf_cons_ne _ (Ne.symm hxc), List.idxOf_cons_ne _ (Ne.symm hyc)]
      omega

/-- In a duplicate-free arrangement `o` containing the elements of `s`, the
    consecutive pairs of `s` are in order iff `s` is a subsequence of `o`. -/
theorem pairs_ordered_iff_sublist {o s : List Nat} (hn : o.Nodup) (hs : ∀ x ∈ s, x ∈ o) :
    (∀ p ∈ pairs s, o.idxOf p.1 < o.idxOf p.2) ↔ s.Sublist o := by
  constructor
  · intro h
    exact sublist_of_pairwise_idx o s hs
      (pairwise_of_pairs (fun a b => o.idxOf a < o.idxOf b)
        (fun _ _ _ h1 h2 => Nat.lt_trans h1 h2) s h)
  · intro h
    exact pairs_of_pairwise _ s ((pairwise_idx_of_nodup o hn).sublist h)

/-! ### What `_make_prec_graph` builds -/

def Edge (g : Graph) (u v : Nat) : Prop := ∃ p ∈ g, p.1 = u ∧ v ∈ p.2

def Good (g : Graph) : Prop := (keys g).Nodup ∧ ∀ p ∈ g, p.2.Nodup

theorem keys_ensureKey (g : Graph) (a v : Nat) : v ∈ keys (ensureKey g a) ↔ v ∈ keys g ∨ v = a := by
  unfold ensureKey
  split
  · rename_i h
    constructor
    · exact Or.inl
    · rintro (h' | h')
      · exact h'
      · exact h' ▸ h
  · simp [keys]

theorem good_ensureKey (g : Graph) (a : Nat) (h : Good g) : Good (ensureKey g a) := by
  unfold ensureKey
  split
  · exact h
  · rename_i ha
    refine ⟨?_, ?_⟩
    · simp only [keys, List.map_append, List.map_cons, List.map_nil]
      rw [List.nodup_append]
      refine ⟨h.1, by simp, ?_⟩
      intro x hx y hy
      simp at hy; subst hy
      intro e; subst e; exact ha hx
    · intro p hp
      rcases List.mem_append.1 hp with h' | h'
      · exact h.2 p h'
      · simp at h'; subst h'; simp

theorem edge_ensureKey (g : Graph) (a u v : Nat) : Edge (ensureKey g a) u v ↔ Edge g u v := by
  unfold ensureKey
  split
  · rfl
  · simp only [Edge, List.mem_append, List.mem_singleton]
    constructor
    · rintro ⟨p, hp | hp, h1, h2⟩
      · exact ⟨p, hp, h1, h2⟩
      · subst hp; simp at h2
    · rintro ⟨p, hp, h1, h2⟩; exact ⟨p, Or.inl hp, h1, h2⟩

theorem keys_addSucc (g : Graph) (a b : Nat) : keys (addSucc g a b) = keys g := by
  simp only [keys, addSucc, List.map_map]
  apply List.map_congr_left
  intro p _
  by_cases e : p.1 = a <;> simp [e]

theorem nodup_setAdd (s : List Nat) (b : Nat) (h : s.Nodup) : (setAdd s b).Nodup := by
  unfold setAdd
  split
  · exact h
  · rename_i hb
    rw [List.nodup_append]
    refine ⟨h, by simp, ?_⟩
    intro x hx y hy
    simp at hy; subst hy
    intro e; subst e; exact hb hx

theorem mem_setAdd (s : List Nat) (b v : Nat) : v ∈ setAdd s b ↔ v ∈ s ∨ v = b := by
  unfold setAdd
  split
  · rename_i hb
    constructor
    · exact Or.inl
    · rintro (h | h)
      · exact h
      · exact h ▸ hb
  · simp

theorem good_addSucc (g : Graph) (a b : Nat) (h : Good g) : Good (addSucc g a b) := by
  refine ⟨by rw [keys_addSucc]; exact h.1, ?_⟩
  intro p hp
  simp only [addSucc, List.mem_map] at hp
  obtain ⟨q, hq, e⟩ := hp
  by_cases ea : q.1 = a
  · simp only [ea, if_true] at e
    subst e
    exact nodup_setAdd _ _ (h.2 q hq)
  · simp only [ea, if_false] at e
    subst e
    exact h.2 q hq

theorem edge_addSucc (g : Graph) (a b u v : Nat) (ha : a ∈ keys g) :
    Edge (addSucc g a b) u v ↔ Edge g u v ∨ (u = a ∧ v = b) := by
  simp only [Edge, addSucc, List.mem_map]
  constructor
  · rintro ⟨p, ⟨q, hq, e⟩, h1, h2⟩
    by_cases ea : q.1 = a
    · simp only [ea, if_true] at e
      subst e
      simp only at h1 h2
      rcases (mem_setAdd _ _ _).1 h2 with h | h
      · exact Or.inl ⟨q, hq, ea.trans h1, h⟩
      · exact Or.inr ⟨h1.symm, h⟩
    · simp only [ea, if_false] at e
      subst e
      exact Or.inl ⟨q, hq, h1, h2⟩
  · rintro (⟨q, hq, h1, h2⟩ | ⟨h1, h2⟩)
    · by_cases ea : q.1 = a
      · exact ⟨(q.1, setAdd q.2 b), ⟨q, hq, by simp [ea]⟩, h1, (mem_setAdd _ _ _).2 (Or.inl h2)⟩
      · exact ⟨q, ⟨q, hq, by simp [ea]⟩, h1, h2⟩
    · subst h1; subst h2
      simp only [keys, List.mem_map] at ha
      obtain ⟨q, hq, e⟩ := ha
      exact ⟨(q.1, setAdd q.2 v), ⟨q, hq, by simp [e]⟩, e, (mem_setAdd _ _ _).2 (Or.inr rfl)⟩

theorem good_addEdge (g : Graph) (e : Nat × Nat) (h : Good g) : Good (addEdge g e) :=
  good_addSucc _ _ _ (good_ensureKey _ _ h)

theorem keys_addEdge (g : Graph) (e : Nat × Nat) (v : Nat) :
    v ∈ keys (addEdge g e) ↔ v ∈ keys g ∨ v = e.1 := by
  unfold addEdge; rw [keys_addSucc, keys_ensureKey]

theorem edge_addEdge (g : Graph) (e : Nat × Nat) (u v : Nat) :
    Edge (addEdge g e) u v ↔ Edge g u v ∨ (u, v) = e := by
  unfold addEdge
  rw [edge_addSucc _ _ _ _ _ ((keys_ensureKey g e.1 e.1).2 (Or.inr rfl)), edge_ensureKey]
  obtain ⟨e1, e2⟩ := e
  simp

theorem foldl_addEdge (ps : List (Nat × Nat)) : ∀ g : Graph, Good g →
    Good (ps.foldl addEdge g) ∧
    (∀ v, v ∈ keys (ps.foldl addEdge g) ↔ v ∈ keys g ∨ ∃ p ∈ ps, p.1 = v) ∧
    (∀ u v, Edge (ps.foldl addEdge g) u v ↔ Edge g u v ∨ (u, v) ∈ ps) := by
  induction ps with
  | nil => intro g h; simp [h]
  | cons e ps ih =>
    intro g h
    obtain ⟨h1, h2, h3⟩ := ih (addEdge g e) (good_addEdge g e h)
    refine ⟨h1, ?_, ?_⟩
    · intro v
      rw [List.foldl_cons, h2 v, keys_addEdge]
      simp only [List.mem_cons, exists_eq_or_imp]
      constructor
      · rintro ((h | h) | h)
        · exact Or.inl h
        · exact Or.inr (Or.inl h.symm)
        · exact Or.inr (Or.inr h)
      · rintro (h | h | h)
        · exact Or.inl (Or.inl h)
        · exact Or.inl (Or.inr h.symm)
        · exact Or.inr h
    · intro u v
      rw [List.foldl_cons, h3 u v, edge_addEdge]
      simp only [List.mem_cons]
      tauto

/-- One leaf synteny. -/
theorem precOne_spec (g : Graph) (s : List Nat) (h : Good g) :
    (s = [] → precOne g s = .error .indexError) ∧
    (s ≠ [] → ∃ g', precOne g s = .ok g' ∧ Good g' ∧
      (∀ v, v ∈ keys g' ↔ v ∈ keys g ∨ v ∈ s) ∧
      (∀ u v, Edge g' u v ↔ Edge g u v ∨ (u, v) ∈ pairs s)) := by
  constructor
  · intro e; subst e; rfl
  · intro hne
    cases hl : s.getLast? with
    | none => exact absurd (List.getLast?_eq_none_iff.1 hl) hne
    | some l =>
      obtain ⟨h1, h2, h3⟩ := foldl_addEdge (pairs s) g h
      refine ⟨ensureKey ((pairs s).foldl addEdge g) l, ?_, good_ensureKey _ _ h1, ?_, ?_⟩
      · simp only [precOne, hl]; rfl
      · intro v
        rw [keys_ensureKey, h2 v, mem_iff_pairs_or_last s v, hl]
        simp only [Option.some.injEq]
        constructor
        · rintro ((h | h) | h)
          · exact Or.inl h
          · exact Or.inr (Or.inl h)
          · exact Or.inr (Or.inr h.symm)
        · rintro (h | h | h)
          · exact Or.inl (Or.inl h)
          · exact Or.inl (Or.inr h)
          · exact Or.inr h.symm
      · intro u v
        rw [edge_ensureKey, h3 u v]

theorem precFold_spec (syns : List (List Nat)) : ∀ (g0 g : Graph), Good g0 →
    syns.foldlM precOne g0 = .ok g →
    (∀ s ∈ syns, s ≠ []) ∧ Good g ∧
    (∀ v, v ∈ keys g ↔ v ∈ keys g0 ∨ ∃ s ∈ syns, v ∈ s) ∧
    (∀ u v, Edge g u v ↔ Edge g0 u v ∨ ∃ s ∈ syns, (u, v) ∈ pairs s) := by
  induction syns with
  | nil =>
    intro g0 g h0 h
    simp only [List.foldlM_nil, pure, Except.pure, Except.ok.injEq] at h
    subst h
    simp [h0]
  | cons s syns ih =>
    intro g0 g h0 h
    rw [List.foldlM_cons] at h
    obtain ⟨he, hok⟩ := precOne_spec g0 s h0
    by_cases hs : s = []
    · rw [he hs] at h; simp [bind, Except.bind] at h
    · obtain ⟨g1, e1, hg1, hk1, hE1⟩ := hok hs
      rw [e1] at h
      simp only [bind, Except.bind] at h
      obtain ⟨a, b, c, d⟩ := ih g1 g hg1 h
      refine ⟨?_, b, ?_, ?_⟩
      · intro t ht
        rcases List.mem_cons.1 ht with e | e
        · exact e ▸ hs
        · exact a t e
      · intro v
        rw [c v, hk1 v]
        simp only [List.mem_cons, exists_eq_or_imp]
        tauto
      · intro u v
        rw [d u v, hE1 u v]
        simp only [List.mem_cons, exists_eq_or_imp]
        tauto

theorem precFold_total (syns : List (List Nat)) : ∀ g0 : Graph, Good g0 →
    (∀ s ∈ syns, s ≠ []) → ∃ g, syns.foldlM precOne g0 = .ok g := by
  induction syns with
  | nil => intro g0 _ _; exact ⟨g0, rfl⟩
  | cons s syns ih =>
    intro g0 h0 hne
    obtain ⟨g1, e1, hg1, _, _⟩ := (precOne_spec g0 s h0).2 (hne s (by simp))
    obtain ⟨g, hg⟩ := ih g1 hg1 (fun t ht => hne t (by simp [ht]))
    exact ⟨g, by rw [List.foldlM_cons, e1]; exact hg⟩

theorem good_nil : Good [] := by simp [Good, keys]

/-- `_make_prec_graph` succeeds iff no leaf synteny is empty. -/
theorem precGraph_total (syns : List (List Nat)) :
    (∃ g, precGraph syns = .ok g) ↔ ∀ s ∈ syns, s ≠ [] :=
  ⟨fun ⟨g, h⟩ => (precFold_spec syns [] g good_nil h).1, precFold_total syns [] good_nil⟩

/-- Vertices and edges of the precedence graph. -/
theorem precGraph_spec {syns : List (List Nat)} {g : Graph} (h : precGraph syns = .ok g) :
    WF g ∧ (∀ v, v ∈ keys g ↔ ∃ s ∈ syns, v ∈ s) ∧
    (∀ u v, Edge g u v ↔ ∃ s ∈ syns, (u, v) ∈ pairs s) := by
  obtain ⟨_, hg, hk, hE⟩ := precFold_spec syns [] g good_nil h
  have hk' : ∀ v, v ∈ keys g ↔ ∃ s ∈ syns, v ∈ s := by
    intro v; rw [hk v]; simp [keys]
  have hE' : ∀ u v, Edge g u v ↔ ∃ s ∈ syns, (u, v) ∈ pairs s := by
    intro u v; rw [hE u v]; simp [Edge]
  refine ⟨⟨hg.1, fun p hp => ⟨hg.2 p hp, ?_⟩⟩, hk', hE'⟩
  intro v hv
  obtain ⟨s, hs, hp⟩ := (hE' p.1 v).1 ⟨p, hp, rfl, hv⟩
  exact (hk' v).2 ⟨s, hs, snd_mem_of_mem_pairs hp⟩

/-- The topological orderings of the precedence graph. -/
theorem precGraph_isTopo {syns : List (List Nat)} {g : Graph} (h : precGraph syns = .ok g)
    (o : List Nat) :
    IsTopo g o ↔ o.Nodup ∧ (∀ v, v ∈ o ↔ ∃ s ∈ syns, v ∈ s) ∧ ∀ s ∈ syns, s.Sublist o := by
  obtain ⟨_, hk, hE⟩ := precGraph_spec h
  constructor
  · rintro ⟨h1, h2, h3, h4⟩
    have hmem : ∀ v, v ∈ o ↔ ∃ s ∈ syns, v ∈ s := fun v =>
      ⟨fun hv => (hk v).1 (h2 v hv), fun hv => h3 v ((hk v).2 hv)⟩
    refine ⟨h1, hmem, ?_⟩
    intro s hs
    apply (pairs_ordered_iff_sublist h1 (fun x hx => (hmem x).2 ⟨s, hs, hx⟩)).1
    intro p hp
    obtain ⟨q, hq, e1, e2⟩ := (hE p.1 p.2).2 ⟨s, hs, hp⟩
    rw [← e1]
    exact h4 q hq p.2 e2
  · rintro ⟨h1, hmem, hsub⟩
    refine ⟨h1, fun v hv => (hk v).2 ((hmem v).1 hv), fun v hv => (hmem v).2 ((hk v).1 hv), ?_⟩
    intro q hq v hv
    obtain ⟨s, hs, hp⟩ := (hE q.1 v).1 ⟨q, hq, rfl, hv⟩
    exact (pairs_ordered_iff_sublist h1 (fun x hx => (hmem x).2 ⟨s, hs, hx⟩)).2 (hsub s hs) (q.1, v) hp

end SR.Toposort
