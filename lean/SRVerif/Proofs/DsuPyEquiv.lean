/-
  Equivalence of the MECHANICALLY TRANSLATED methods of
  `superrec2/utils/disjoint_set.py` (`SRVerif/Generated/DsuPy.lean`, written by
  `harness/translate_py.py` on every run of the check: the structure `DisjointSet`,
  `__init__`, the recursive `find` (`find.rec_` on a generated fuel), `unite`,
  `__len__`, `to_list` with its loop, `binary` with the lifted loop over the finds
  and the nested recursive `_binary` (`binary._binary.rec_`)) with the hand-written
  model `SRVerif/Model/DisjointSet.lean`.

  Hand-written, stated against the CURRENT generated normal form (see the
  docstring of translate_py.py).  The scripts unfold the generated definitions
  and let `simp` walk through the hoisted `match`es, so they do not depend on
  the names of the Python locals; they do depend on the shape of the loops and
  on which sub-expressions are hoisted.  `Generated/DsuPyEquiv.lean`
  instantiates the theorems for the definitions generated in the current run.

  * `toGen d` is the generated object holding the data of the model structure
    `d` (`groups` is a Python int: `Int`).  Every statement is about `toGen d`
    for a `d` satisfying the model's invariant `DS.WF` (Proofs/DisjointSet.lean:
    parents in range, `rank i < rank (parent i)` off the roots, `rank i + #roots
    ≤ n`, `groups = #roots`) and about elements in range: there the generated
    code raises nothing (every `IndexError` branch is dead).
  * `find_rec_eq` — THE FUEL SUFFICES: by induction on the fuel with the rank
    measure of `findAux_spec` (`n ≤ fuel + rank e + #roots`), `find.rec_ (fuel+1)`
    on `toGen d` is the model's `findAux fuel`, compression included; `find_eq`
    instantiates it at the generated fuel `len(self.parent) + 1`.  The marker
    `Diverged` is therefore never returned on a well-formed state.
  * `unite_eq` — two `find`s on successive states, the three-way rank test, the
    in-place updates; `groups - 1` on `Int` is the model's truncated subtraction
    because a well-formed state with a root has `groups ≥ 1` (`nroots_pos`).
  * `toList_loop_eq`, `to_list_eq` — loop invariant over the iterated list
    (`result.length = n`, roots in range): the generated item update is the
    model's `List.modify`.
  * `reps_loop_eq`, `binary_rec_eq`, `binary_eq` — the lifted comprehension is the
    model's `allReps`; `_binary.rec_` with more fuel than groups is `binGo`
    (induction on the groups, `unite` keeps `WF` and the size); the list handed
    to `_binary` is `Py.listOfSet ord reps`, a duplicate-free listing of the roots
    for EVERY set order `ord` (`listOfSet_listing`, from `dedup_nodup` / `mem_dedup`).
-/
import SRVerif.Generated.DsuPy
import SRVerif.Proofs.DisjointSetBinaryPerm

namespace SR.DsuPyProofs
open SR SR.Py SR.DS SR.Gen.Dsu

/-- The generated object that holds the data of a model structure (the counter is a Python int). -/
def toGen (d : DS) : DisjointSet := { parent := d.parent, rank := d.rank, groups := (d.groups : Int) }

@[simp] theorem toGen_parent (d : DS) : (toGen d).parent = d.parent := rfl
@[simp] theorem toGen_rank (d : DS) : (toGen d).rank = d.rank := rfl
@[simp] theorem toGen_groups (d : DS) : (toGen d).groups = (d.groups : Int) := rfl

theorem toGen_setParent (d : DS) (e r : Nat) :
    ({ toGen d with parent := d.parent.set e r } : DisjointSet) = toGen (d.setParent e r) := rfl

theorem parent_get {d : DS} {e : Nat} (he : e < d.size) : d.parent[e]? = some (d.par e) := by
  have he' : e < d.parent.length := he
  simp [DS.par, List.getD_eq_getElem?_getD, List.getElem?_eq_getElem he']

theorem rank_get {d : DS} (hd : WF d) {e : Nat} (he : e < d.size) : d.rank[e]? = some (d.rk e) := by
  have he' : e < d.rank.length := by rw [hd.lenR]; exact he
  simp [DS.rk, List.getD_eq_getElem?_getD, List.getElem?_eq_getElem he']

theorem init_eq (n : Nat) : DisjointSet.__init__ n = .ok (toGen (DS.init n)) := by
  simp [DisjointSet.__init__, toGen, DS.init]

/-- `find`: with fuel `k + 1` the generated recursion computes what the model computes with fuel `k`,
    whenever `k` bounds the length of the walk to the root (rank argument of `findAux_spec`). -/
theorem find_rec_eq {d : DS} (hd : WF d) : ∀ (fuel e : Nat), e < d.size →
    d.size ≤ fuel + d.rk e + d.nroots →
    DisjointSet.find.rec_ (fuel + 1) (toGen d) e
      = .ok (toGen (findAux fuel d e).1, (findAux fuel d e).2) := by
  intro fuel
  induction fuel with
  | zero =>
    intro e he hf
    have hroot : d.par e = e := by
      apply Classical.byContradiction
      intro hne
      have h1 := hd.inc e hne
      have h2 := hd.bound _ (hd.lt e he)
      omega
    simp [DisjointSet.find.rec_, parent_get he, hroot, findAux]
  | succ fuel ih =>
    intro e he hf
    rw [DisjointSet.find.rec_]
    simp only [toGen_parent, parent_get he]
    by_cases hroot : d.par e = e
    · simp [hroot, findAux]
    · have h1 := hd.inc e hroot
      have hpe := hd.lt e he
      obtain ⟨_, hP, hW⟩ := findAux_spec hd fuel (d.par e) hpe (by omega)
      have he' : e < (findAux fuel d (d.par e)).1.parent.length := by
        have := hP.size; unfold DS.size at this he; omega
      simp only [hroot, if_false, ih (d.par e) hpe (by omega), findAux, toGen_parent, Py.setNat?, he', if_true]
      simp [toGen, DS.setParent, List.getElem?_set_self he']

theorem find_eq {d : DS} (hd : WF d) {e : Nat} (he : e < d.size) :
    DisjointSet.find (toGen d) e = .ok (toGen (d.find e).1, (d.find e).2) := by
  unfold DisjointSet.find DS.find
  exact find_rec_eq hd d.size e he (by omega)

theorem nroots_pos {d : DS} {r : Nat} (hr : r < d.size) (hroot : d.par r = r) : 0 < d.nroots := by
  unfold nroots
  apply List.countP_pos_iff.mpr
  exact ⟨r, List.mem_range.mpr hr, by simp [hroot]⟩

theorem unite_eq {d : DS} (hd : WF d) {a b : Nat} (ha : a < d.size) (hb : b < d.size) :
    DisjointSet.unite (toGen d) a b = .ok (toGen (d.unite a b).1, (d.unite a b).2) := by
  obtain ⟨hra, hP1, hW1⟩ := find_spec hd ha
  have hb1 : b < (d.find a).1.size := by rw [hP1.size]; exact hb
  obtain ⟨hrb, hP2, hW2⟩ := find_spec hW1 hb1
  have hP := hP1.trans hP2
  have hra2 : RootOf ((d.find a).1.find b).1.par a (d.find a).2 := (hP.root _ _).mpr hra
  have hrb2 : RootOf ((d.find a).1.find b).1.par b ((d.find a).1.find b).2 :=
    (hP2.root _ _).mpr hrb
  have hla : (d.find a).2 < ((d.find a).1.find b).1.size := hra2.lt hW2 (by rw [hP.size]; exact ha)
  have hlb : ((d.find a).1.find b).2 < ((d.find a).1.find b).1.size :=
    hrb2.lt hW2 (by rw [hP.size]; exact hb)
  have hg : 0 < ((d.find a).1.find b).1.groups := by
    rw [hW2.grp]; exact nroots_pos hla hra2.isRoot
  unfold DisjointSet.unite DS.unite
  simp only [find_eq hd ha, find_eq hW1 hb1]
  generalize ((d.find a).1.find b).1 = d2 at *
  generalize (d.find a).2 = ra at *
  generalize ((d.find a).1.find b).2 = rb at *
  have hla' : ra < d2.parent.length := hla
  have hlb' : rb < d2.parent.length := hlb
  have hlar : ra < d2.rank.length := by rw [hW2.lenR]; exact hla
  have hcast : ((d2.groups : Int) - 1) = ((d2.groups - 1 : Nat) : Int) := by omega
  by_cases hab : ra = rb
  · simp [hab]
  · simp only [hab, if_false, toGen_rank, rank_get hW2 hla, rank_get hW2 hlb]
    by_cases h1 : d2.rk ra = d2.rk rb
    · simp [h1, Py.setNat?, hlar, hlb', toGen, hcast]
    · by_cases h2 : d2.rk ra > d2.rk rb
      · simp [h1, h2, Py.setNat?, hlb', toGen, DS.setParent, hcast]
      · simp [h1, h2, Py.setNat?, hla', toGen, DS.setParent, hcast]

theorem len_eq (d : DS) : DisjointSet.__len__ (toGen d) = .ok (d.groups : Int) := rfl

/-! ### `to_list` -/

theorem toList_loop_eq : ∀ (is : List Nat) (d : DS) (result : List (List Nat)), WF d →
    (∀ i, i ∈ is → i < d.size) → result.length = d.size →
    DisjointSet.to_list.loop1 is (toGen d, result)
      = .next (toGen (is.foldl toListStep (d, result)).1, (is.foldl toListStep (d, result)).2) := by
  intro is
  induction is with
  | nil => intro d result _ _ _; simp [DisjointSet.to_list.loop1]
  | cons i is ih =>
    intro d result hd hi hlen
    have hi0 : i < d.size := hi i (by simp)
    obtain ⟨hr, hP, hW⟩ := find_spec hd hi0
    have hlt : (d.find i).2 < result.length := by rw [hlen]; exact hr.lt hd hi0
    rw [DisjointSet.to_list.loop1]
    simp only [find_eq hd hi0, List.getElem?_eq_getElem hlt, Py.setNat?, hlt, if_true]
    rw [List.foldl_cons]
    have hstep : toListStep (d, result) i
        = ((d.find i).1, result.set (d.find i).2 (result[(d.find i).2] ++ [i])) := by
      simp only [toListStep]
      congr 1
      apply List.ext_getElem?
      intro j
      rw [List.getElem?_modify, List.getElem?_set]
      by_cases hj : (d.find i).2 = j
      · subst hj; simp [hlt]
      · simp [hj]
    rw [hstep]
    exact ih _ _ hW (fun j hj => by rw [hP.size]; exact hi j (by simp [hj])) (by simp [hP.size, hlen])

theorem to_list_eq {d : DS} (hd : WF d) :
    DisjointSet.to_list (toGen d) = .ok (toGen d.toList.1, d.toList.2) := by
  unfold DisjointSet.to_list DS.toList
  have hinit : (List.map (fun _ => ([] : List Nat)) (List.range (toGen d).parent.length))
      = List.replicate d.size [] := by
    simp [DS.size, List.map_const']
  simp only [hinit]
  rw [show (toGen d).parent.length = d.size from rfl,
    toList_loop_eq (List.range d.size) d _ hd (fun i hi => List.mem_range.mp hi) (by simp)]
  simp only
  congr 2
  apply List.filter_congr
  intro g _
  cases g <;> simp

/-! ### `binary` -/

theorem reps_loop_eq : ∀ (is : List Nat) (d : DS) (acc : List Nat), WF d →
    (∀ i, i ∈ is → i < d.size) →
    DisjointSet.binary.loop1 is (toGen d, acc)
      = .next (toGen (is.foldl repsStep (d, acc)).1, (is.foldl repsStep (d, acc)).2) := by
  intro is
  induction is with
  | nil => intro d acc _ _; simp [DisjointSet.binary.loop1]
  | cons i is ih =>
    intro d acc hd hi
    have hi0 : i < d.size := hi i (by simp)
    obtain ⟨_, hP, hW⟩ := find_spec hd hi0
    rw [DisjointSet.binary.loop1]
    simp only [find_eq hd hi0]
    rw [List.foldl_cons]
    exact ih _ _ hW (fun j hj => by rw [hP.size]; exact hi j (by simp [hj]))

theorem unite_keeps {p : DS} (hp : WF p) {a b : Nat} (ha : a < p.size) (hb : b < p.size) :
    WF (p.unite a b).1 ∧ (p.unite a b).1.size = p.size := by
  obtain ⟨h1, h2, _⟩ := unite_spec hp ha hb
  exact ⟨h1, h2⟩

/-- `_binary`: with more fuel than groups the generated recursion is the model's `binGo`. -/
theorem binary_rec_eq : ∀ (gs : List Nat) (fuel : Nat) (p : DS) (f s : Option Nat),
    gs.length < fuel → WF p → (∀ g, g ∈ gs → g < p.size) →
    (∀ x, f = some x → x < p.size) → (∀ x, s = some x → x < p.size) →
    DisjointSet.binary._binary.rec_ fuel (toGen p) gs f s = .ok ((binGo gs p f s).map toGen) := by
  intro gs
  induction gs with
  | nil =>
    intro fuel p f s hfuel _ _ _ _
    obtain ⟨k, rfl⟩ : ∃ k, fuel = k + 1 := ⟨fuel - 1, by simp at hfuel; omega⟩
    rw [DisjointSet.binary._binary.rec_]
    cases f <;> cases s <;> simp [binGo]
  | cons g gs ih =>
    intro fuel p f s hfuel hp hgs hf hs
    obtain ⟨k, rfl⟩ : ∃ k, fuel = k + 1 := ⟨fuel - 1, by simp at hfuel; omega⟩
    have hk : gs.length < k := by simp at hfuel; omega
    have hg : g < p.size := hgs g (by simp)
    have hgs' : ∀ q : DS, q.size = p.size → ∀ x, x ∈ gs → x < q.size :=
      fun q hq x hx => by rw [hq]; exact hgs x (by simp [hx])
    rw [DisjointSet.binary._binary.rec_]
    cases f with
    | some f =>
      have hf' : f < p.size := hf f rfl
      obtain ⟨hW1, hS1⟩ := unite_keeps hp hf' hg
      cases s with
      | some s =>
        have hs' : s < p.size := hs s rfl
        obtain ⟨hW2, hS2⟩ := unite_keeps hp hs' hg
        simp [binGo, unite_eq hp hf' hg, unite_eq hp hs' hg,
          ih k _ (some f) (some s) hk hW1 (hgs' _ hS1) (by simp [hS1, hf']) (by simp [hS1, hs']),
          ih k _ (some f) (some s) hk hW2 (hgs' _ hS2) (by simp [hS2, hf']) (by simp [hS2, hs'])]
      | none =>
        simp [binGo, unite_eq hp hf' hg,
          ih k _ (some f) none hk hW1 (hgs' _ hS1) (by simp [hS1, hf']) (by simp)]
        by_cases hgf : g > f
        · simp [hgf, ih k p (some f) (some g) hk hp (hgs' p rfl) (by simp [hf']) (by simp [hg])]
        · simp [hgf]
    | none =>
      cases s with
      | some s =>
        have hs' : s < p.size := hs s rfl
        obtain ⟨hW2, hS2⟩ := unite_keeps hp hs' hg
        by_cases hgs2 : g < s
        · simp [binGo, hgs2, unite_eq hp hs' hg,
            ih k p (some g) (some s) hk hp (hgs' p rfl) (by simp [hg]) (by simp [hs']),
            ih k _ none (some s) hk hW2 (hgs' _ hS2) (by simp) (by simp [hS2, hs'])]
        · simp [binGo, hgs2, unite_eq hp hs' hg,
            ih k _ none (some s) hk hW2 (hgs' _ hS2) (by simp) (by simp [hS2, hs'])]
      | none =>
        simp [binGo,
          ih k p (some g) none hk hp (hgs' p rfl) (by simp [hg]) (by simp),
          ih k p none (some g) hk hp (hgs' p rfl) (by simp) (by simp [hg])]

theorem dedup_fold (xs : List Nat) : ∀ acc : List Nat, acc.Nodup →
    (xs.foldl (fun acc x => if x ∈ acc then acc else acc ++ [x]) acc).Nodup ∧
    ∀ x, x ∈ xs.foldl (fun acc x => if x ∈ acc then acc else acc ++ [x]) acc ↔ x ∈ acc ∨ x ∈ xs := by
  induction xs with
  | nil => intro acc h; simp [h]
  | cons y ys ih =>
    intro acc h
    rw [List.foldl_cons]
    by_cases hy : y ∈ acc
    · simp only [hy, if_true]
      obtain ⟨h1, h2⟩ := ih acc h
      refine ⟨h1, fun x => ?_⟩
      rw [h2]
      constructor
      · rintro (h | h)
        · exact Or.inl h
        · exact Or.inr (by simp [h])
      · rintro (h | h)
        · exact Or.inl h
        · rcases List.mem_cons.mp h with rfl | h
          · exact Or.inl hy
          · exact Or.inr h
    · simp only [hy, if_false]
      have hn : (acc ++ [y]).Nodup := by
        rw [List.nodup_append]
        refine ⟨h, by simp, ?_⟩
        intro a ha b hb
        simp at hb
        subst hb
        intro hab; subst hab; exact hy ha
      obtain ⟨h1, h2⟩ := ih (acc ++ [y]) hn
      refine ⟨h1, fun x => ?_⟩
      rw [h2]
      simp only [List.mem_append, List.mem_cons, List.not_mem_nil, or_false]
      constructor
      · rintro ((h | h) | h)
        · exact Or.inl h
        · exact Or.inr (Or.inl h)
        · exact Or.inr (Or.inr h)
      · rintro (h | h | h)
        · exact Or.inl (Or.inl h)
        · exact Or.inl (Or.inr h)
        · exact Or.inr h

theorem dedup_nodup (xs : List Nat) : (Py.dedup xs).Nodup := (dedup_fold xs [] List.nodup_nil).1

theorem mem_dedup (xs : List Nat) (x : Nat) : x ∈ Py.dedup xs ↔ x ∈ xs := by
  have := (dedup_fold xs [] List.nodup_nil).2 x
  simpa [Py.dedup] using this

/-- Under ANY iteration order, `list(set(find(i) for i in range(n)))` is a duplicate-free listing
    of the roots. -/
theorem listOfSet_listing {ord : List Nat → List Nat} (hord : Py.SetOrder ord) {d : DS} (hd : WF d) :
    Listing d (Py.listOfSet ord d.allReps.2) := by
  have hp := hord _ (dedup_nodup d.allReps.2)
  refine ⟨hp.nodup_iff.mpr (dedup_nodup _), fun r => ?_⟩
  rw [Py.listOfSet, hp.mem_iff, mem_dedup, mem_allReps hd]

theorem binary_eq {ord : List Nat → List Nat} (hord : Py.SetOrder ord) {d : DS} (hd : WF d) :
    DisjointSet.binary ord (toGen d)
      = .ok (toGen d.allReps.1, (binaryOrd d (Py.listOfSet ord d.allReps.2)).map toGen) := by
  obtain ⟨hP, hW, _⟩ := allReps_fold hd d.size (Nat.le_refl _)
  have hL := listOfSet_listing hord hd
  unfold DisjointSet.binary
  simp only [show (toGen d).parent.length = d.size from rfl,
    reps_loop_eq (List.range d.size) d [] hd (fun i hi => List.mem_range.mp hi),
    DisjointSet.binary._binary]
  rw [binary_rec_eq _ _ _ none none (Nat.lt_succ_self _) hW ?_ (by simp) (by simp)]
  · rfl
  · intro g hg
    have := (mem_roots.mp ((hL.mem g).mp hg)).1
    show g < ((List.range d.size).foldl repsStep (d, [])).1.size
    rw [hP.size]; exact this

end SR.DsuPyProofs
