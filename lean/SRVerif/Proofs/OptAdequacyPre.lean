/-
  Oracle adequacy for the ordered mode under a PRESCRIBED root order `r`
  (`Spec.validSolPre .ordered o (some r)`, `Spec/ValidRoot.lean`).

  Without a prescribed order the root synteny of a valid solution is a permutation of
  `families o` (`validSol_iff_rootOrder`, `rootOrders_perm`, `isPermOf`).  With a prescribed
  order the root synteny is `r` itself, which only has to be duplicate-free and a common
  supersequence of the leaf syntenies: it may hold families that no leaf carries.  What
  replaces "permutation of the families" is

  * `validSolPre_iff`            `validSolPre` = valid events + "child ⊑ parent" labels + root
                                 synteny `= r` + `r.Nodup`;
  * `families_subset_of_sup`     `r ⊇ families o` (the generalisation of `rootOrders_perm`: a
                                 permutation is the special case `r ⊆ families o`);
  * `validSolPre_iff_validSol`   when `r` IS a duplicate-free arrangement of `families o`,
                                 `validSolPre (some r)` = `validSol` + root synteny `= r`;
  * `root_eq_of_validPre`        on a single-leaf input a valid solution exists only when
                                 `r` is the leaf synteny;
  * `valid_of_feasible_pre`      a feasible solution of the oracle with finite cost is valid
                                 under `r` (for a single-leaf input: when `r` is its synteny —
                                 the oracle's leaf cell ignores the root order);
  * `feasible_of_validPre`       and conversely.
  Nothing below asks `r ⊆ families o`.
-/
import SRVerif.Proofs.OptAdequacyMask
import SRVerif.Spec.ValidRoot

namespace SR.Spec

open SR Cost Path

/-! ### `validSolPre` unfolded -/

theorem length_dedup_iff_nodup (r : List Nat) :
    r.length = (dedup r).length ↔ r.Nodup := by
  constructor
  · intro h; exact nodup_of_length_dedup r h
  · intro h; rw [dedup_of_nodup r h]

/-- Validity under a prescribed root order. -/
theorem validSolPre_iff (o : OTree) (r : List Nat) (sol : Sol) :
    validSolPre .ordered o (some r) sol = true ↔
      validRec o sol = true ∧ validOrdLabels o sol = true ∧ sol.fam = r ∧ r.Nodup := by
  simp only [validSolPre, Bool.and_eq_true, beq_iff_eq, length_dedup_iff_nodup, and_assoc]

/-- Without a prescribed root order `validSolPre` is `validSol`. -/
theorem validSolPre_none (mode : LabelMode) (o : OTree) (sol : Sol) :
    validSolPre mode o none sol = validSol mode o sol := by
  cases mode <;> rfl

/-! ### `r ⊇ families o` replaces "`r` is a permutation of `families o`" -/

theorem mem_families {o : OTree} {x : Nat} : x ∈ families o ↔ ∃ f ∈ leafSyntenies o, x ∈ f := by
  simp only [families, mem_dedup, List.mem_flatten]

/-- A common supersequence of the leaf syntenies holds every family. -/
theorem families_subset_of_sup (o : OTree) (r : List Nat)
    (hsup : ∀ f ∈ leafSyntenies o, f.Sublist r) : ∀ x ∈ families o, x ∈ r := by
  intro x hx
  obtain ⟨f, hf, hxf⟩ := mem_families.mp hx
  exact (hsup f hf).subset hxf

/-- The root synteny of a solution valid under `r` is a duplicate-free common supersequence
    of the leaf syntenies, hence holds every family (possibly more). -/
theorem validPre_root_sup (o : OTree) (r : List Nat) (sol : Sol)
    (hv : validSolPre .ordered o (some r) sol = true) :
    r.Nodup ∧ (∀ f ∈ leafSyntenies o, f.Sublist r) ∧ ∀ x ∈ families o, x ∈ r := by
  obtain ⟨_, hl, hfam, hnd⟩ := (validSolPre_iff o r sol).mp hv
  have hsup : ∀ f ∈ leafSyntenies o, f.Sublist r := fun f hf => hfam ▸ leaf_sublist_root o sol hl f hf
  exact ⟨hnd, hsup, families_subset_of_sup o r hsup⟩

/-- When the prescribed order is an arrangement of exactly the families the leaves carry,
    validity under it is `validSol` with that root synteny. -/
theorem validSolPre_iff_validSol (o : OTree) (r : List Nat) (sol : Sol)
    (hsub : ∀ x ∈ r, x ∈ families o) :
    validSolPre .ordered o (some r) sol = true ↔ validSol .ordered o sol = true ∧ sol.fam = r := by
  constructor
  · intro hv
    obtain ⟨hnd, _, hfam'⟩ := validPre_root_sup o r sol hv
    obtain ⟨hvr, hl, hfam, _⟩ := (validSolPre_iff o r sol).mp hv
    refine ⟨?_, hfam⟩
    have hp : r.Perm (families o) :=
      (List.perm_ext_iff_of_nodup hnd (nodup_dedup _)).mpr (fun x => ⟨hsub x, hfam' x⟩)
    simp only [validSol, hvr, hl, hfam, Bool.true_and, Bool.and_eq_true, isPermOf, beq_iff_eq,
      List.all_eq_true, List.contains_iff_mem, length_dedup_iff_nodup]
    exact ⟨⟨⟨hp.length_eq, hsub⟩, hfam'⟩, hnd⟩
  · rintro ⟨hv, hfam⟩
    obtain ⟨hvr, hl, ho⟩ := (validSol_iff_rootOrder o sol).mp hv
    refine (validSolPre_iff o r sol).mpr ⟨hvr, hl, hfam, ?_⟩
    rw [← hfam]
    exact (length_dedup_iff_nodup _).mp (by simpa using (rootOrders_perm o _ ho).2)

/-! ### Single-leaf inputs -/

/-- On a single-leaf input the root IS the leaf: a solution valid under `r` exists only
    when `r` is the leaf synteny. -/
theorem root_eq_of_validPre (o : OTree) (r : List Nat) (sol : Sol)
    (hv : validSolPre .ordered o (some r) sol = true) : ∀ sp f, o = .leaf sp f → r = f := by
  intro sp f ho
  subst ho
  obtain ⟨_, hl, hfam, _⟩ := (validSolPre_iff _ r sol).mp hv
  cases sol with
  | node s g sl sr => simp [validOrdLabels] at hl
  | leaf s g =>
    simp only [validOrdLabels, beq_iff_eq] at hl
    rw [← hfam, hl]; rfl

/-! ### Feasible solutions of the oracle = solutions valid under `r` -/

/-- **Valid ⟹ feasible.** -/
theorem feasible_of_validPre (S : RTree) (base : Bool) (o : OTree) (r : List Nat) (sol : Sol)
    (hv : validSolPre .ordered o (some r) sol = true) (hs : SpeciesOk S base o sol) :
    Feasible S (.ordered r) base o [] o sol := by
  obtain ⟨hvr, hl, hfam, _⟩ := (validSolPre_iff o r sol).mp hv
  exact feasible_of_valid S base r o o [] sol hvr hl hs (by simpa using hfam)

/-- **Feasible of finite cost ⟹ valid under `r`** (`hleaf`: a single-leaf input has `r` as
    its synteny). -/
theorem valid_of_feasible_pre (c : Costs) (S : RTree) (base : Bool) (o : OTree) (r : List Nat)
    (hnd : r.Nodup) (hleaf : ∀ sp f, o = .leaf sp f → r = f) (sol : Sol)
    (hf : Feasible S (.ordered r) base o [] o sol)
    (hfin : specCost c (.ordered r) o [] sol ≠ .inf) :
    validSolPre .ordered o (some r) sol = true ∧ SpeciesOk S base o sol := by
  obtain ⟨hv, hl, hs⟩ := valid_of_feasible c S base r o o [] sol hf hfin
  have hfam : sol.fam = r := by
    cases o with
    | node l r' => exact feasible_root_fam hf
    | leaf sp f =>
      cases sol with
      | node s g sl sr => simp [Feasible] at hf
      | leaf s g =>
        simp only [Feasible, leafLabel] at hf
        rw [hleaf sp f rfl]; exact hf.2
  exact ⟨(validSolPre_iff o r sol).mpr ⟨hv, hl, hfam, hnd⟩, hs⟩

/-- The oracle's cost of a solution valid under `r` is the evaluator's total cost. -/
theorem specCost_eq_totalCost_pre (c : Costs) (o : OTree) (r : List Nat) (sol : Sol)
    (hv : validSolPre .ordered o (some r) sol = true) :
    specCost c (.ordered r) o [] sol = totalCost c .ordered o sol := by
  obtain ⟨hvr, hl, hfam, _⟩ := (validSolPre_iff o r sol).mp hv
  rw [← hfam, specCost_ordered c sol.fam o o [] sol hvr hl, totalCost_eq_ordEval]

/-! ### From a solution valid under `r` to a mask labelling (for the solver side) -/

/-- `maskSol r` of a solution valid under `r` (non-empty leaf syntenies): an admissible
    labelling of the ordered label DP, complete at the root, with non-empty masks, that
    decodes (`ordSol r`) to the solution. -/
theorem maskSol_of_validPre (c : Costs) (S : RTree) (base : Bool) (o : OTree) (r : List Nat)
    (hne : ∀ f ∈ leafSyntenies o, f ≠ []) (sol : Sol)
    (hv : validSolPre .ordered o (some r) sol = true) (hs : SpeciesOk S base o sol) :
    Adm (ordAlg c) (annOrd S base r true o) (maskSol r sol) ∧
      (maskSol r sol).lab = 2 ^ r.length - 1 ∧ NZ (maskSol r sol) ∧
      ordSol r (maskSol r sol) = sol := by
  obtain ⟨hvr, hl, hfam, _⟩ := (validSolPre_iff o r sol).mp hv
  have hsub : AllSub r sol := allSub_of_valid r o sol hl (by rw [hfam])
  refine ⟨adm_maskSol c S base r o true sol hvr hl hs (fun _ => hfam), ?_,
    nz_maskSol r sol hsub (noEmpty_of_valid o sol hl hne), ordSol_maskSol r sol hsub⟩
  rw [maskSol_lab, hfam, SubseqProofs.mask_self]; rfl

end SR.Spec
