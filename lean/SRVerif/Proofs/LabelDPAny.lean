/-
  The label DP under the retention policy ANY (`Model/LabelDPAny.lean`) against
  the label DP under ALL (`Model/LabelDP.lean`), for EVERY valid choice of the
  selection functions:

  * `Agg.foldl_updateAny`  folding the code's ANY update over a list of candidates
      is the ALL aggregate with `head?` applied to its tags — the code's own choice
      is an instance of the selection-function model;
  * `bestAny_eq`     a cell has the same value under ANY and under ALL;
  * `candsAny_sub`   the candidates a cell sees under ANY are candidates under ALL;
  * `dpTableAny_core`  the two tables list the same (species, label, value) triples;
  * `dpTableAny_sols`  a cell under ANY decodes to exactly ONE solution, and it is
      one of the solutions the corresponding cell decodes to under ALL.
-/
import SRVerif.Proofs.LabelDPKeep
import SRVerif.Model.LabelDPAny

namespace SR

open Cost Path

/-! ### Selection functions -/

theorem PickOk.mem {β : Type} {p : List β → Option β} (h : PickOk p) {l : List β} {x : β}
    (hx : p l = some x) : x ∈ l := h.1 l x hx

theorem PickOk.some_of_ne_nil {β : Type} {p : List β → Option β} (h : PickOk p) {l : List β}
    (hne : l ≠ []) : ∃ x, p l = some x := by
  cases hp : p l with
  | none => exact absurd (h.2 l hp) hne
  | some x => exact ⟨x, rfl⟩

theorem PickOk.some_of_mem {β : Type} {p : List β → Option β} (h : PickOk p) {l : List β} {y : β}
    (hy : y ∈ l) : ∃ x, p l = some x :=
  h.some_of_ne_nil (List.ne_nil_of_mem hy)

theorem pickOk_head? {β : Type} : PickOk (List.head? : List β → Option β) := by
  refine ⟨?_, ?_⟩
  · intro l x h; exact List.mem_of_mem_head? (by rw [h]; rfl)
  · intro l h; cases l with
    | nil => rfl
    | cons a l => simp at h

theorem pickOk_getLast? {β : Type} : PickOk (List.getLast? : List β → Option β) := by
  refine ⟨?_, ?_⟩
  · intro l x h; exact List.mem_of_getLast? h
  · intro l h; exact List.getLast?_eq_none_iff.mp h

theorem Picker.first_ok (Lab : Type) : (Picker.first Lab).Ok :=
  ⟨pickOk_head?, pickOk_head?, pickOk_head?⟩

theorem Picker.last_ok (Lab : Type) : (Picker.last Lab).Ok :=
  ⟨pickOk_getLast?, pickOk_getLast?, pickOk_getLast?⟩

/-! ### The code's ANY update is `head?` of the ALL tags -/

namespace Agg

variable {τ : Type} [DecidableEq τ]

theorem update_any_head (a b : Agg τ) (v : Cost) (t : τ)
    (h : b = a.any List.head?) : b.updateAny v t = (a.update v t).any List.head? := by
  subst h
  unfold updateAny update any
  by_cases hv : v = a.val
  · simp only [hv, if_true]
    cases htags : a.tags with
    | nil => simp
    | cons x xs =>
      by_cases ht : t ∈ x :: xs
      · simp [ht, htags]
      · simp [ht]
  · simp only [hv, if_false]
    by_cases hlt : Cost.lt v a.val = true
    · simp [hlt]
    · simp [hlt]

/-- Folding the ANY update of the code over any list of candidates yields the
    ALL aggregate of the same candidates with only its FIRST tag. -/
theorem foldl_updateAny (xs : List (Cost × τ)) (a b : Agg τ) (h : b = a.any List.head?) :
    xs.foldl (fun e p => e.updateAny p.1 p.2) b = (offerAll a xs).any List.head? := by
  induction xs generalizing a b with
  | nil => simpa [offerAll] using h
  | cons x xs ih =>
    simp only [List.foldl_cons, offerAll]
    exact ih _ _ (update_any_head a b x.1 x.2 h)

theorem ofList_updateAny (xs : List (Cost × τ)) :
    xs.foldl (fun e p => e.updateAny p.1 p.2) empty = (ofList xs).any List.head? :=
  foldl_updateAny xs empty empty (by simp [any, empty])

omit [DecidableEq τ] in
theorem mem_any_tags {p : List τ → Option τ} {a : Agg τ} {t : τ} :
    t ∈ (a.any p).tags ↔ p a.tags = some t := by
  simp only [any, Option.mem_toList]

end Agg

theorem Roles.any_get {τ : Type} (p : List τ → Option τ) (r : Roles τ) (ρ : RoleId) :
    (r.any p).get ρ = (r.get ρ).any p := by
  cases ρ <;> rfl

section

variable {α Lab : Type} [DecidableEq Lab]

/-- The candidate list of a cell under ANY. -/
def candsAny (P : Picker Lab) (A : LabelAlg α Lab) (c : Costs) (S : RTree) (a : α) (s : Path)
    (lab : Lab) (la ra : α) (L R : List (DCell Lab)) :
    List (Cost × ((Path × Lab) × (Path × Lab))) :=
  entryCands c ((roles A c S a s lab la L).any P.tag) ((roles A c S a s lab ra R).any P.tag)

def bestAny (P : Picker Lab) (A : LabelAlg α Lab) (c : Costs) (S : RTree) (a : α) (s : Path)
    (lab : Lab) (la ra : α) (L R : List (DCell Lab)) : Cost :=
  Cost.minList ((candsAny P A c S a s lab la ra L R).map (·.1))

theorem mem_candsAny {P : Picker Lab} {A : LabelAlg α Lab} {c : Costs} {S : RTree} {a : α}
    {s : Path} {lab : Lab} {la ra : α} {L R : List (DCell Lab)} {v : Cost} {t0 t1 : Path × Lab} :
    (v, (t0, t1)) ∈ candsAny P A c S a s lab la ra L R ↔
      ∃ ev ∈ events c,
        P.tag ((roles A c S a s lab la L).get ev.2.1).tags = some t0 ∧
        P.tag ((roles A c S a s lab ra R).get ev.2.2).tags = some t1 ∧
        v = ev.1 + ((roles A c S a s lab la L).get ev.2.1).val +
          ((roles A c S a s lab ra R).get ev.2.2).val := by
  simp only [candsAny, entryCands_eq, List.mem_flatMap, Agg.mem_comb, Roles.any_get,
    Agg.mem_any_tags]
  rfl

variable (P : Picker Lab) (hP : P.Ok) (A : LabelAlg α Lab) (c : Costs) (S : RTree) (a : α)
  (s : Path) (lab : Lab) (la ra : α) (L R : List (DCell Lab))

include hP

/-- Every candidate under ANY is a candidate under ALL. -/
theorem candsAny_sub {p : Cost × ((Path × Lab) × (Path × Lab))}
    (h : p ∈ candsAny P A c S a s lab la ra L R) : p ∈ cands A c S a s lab la ra L R := by
  obtain ⟨v, t0, t1⟩ := p
  obtain ⟨ev, hev, h0, h1, hv⟩ := mem_candsAny.mp h
  exact mem_cands.mpr ⟨ev, hev, hP.tag.mem h0, hP.tag.mem h1, hv⟩

/-- Every candidate under ALL has a candidate of the same value under ANY. -/
theorem candsAny_cover {v : Cost} {t0 t1 : Path × Lab}
    (h : (v, (t0, t1)) ∈ cands A c S a s lab la ra L R) :
    ∃ u0 u1, (v, (u0, u1)) ∈ candsAny P A c S a s lab la ra L R := by
  obtain ⟨ev, hev, h0, h1, hv⟩ := mem_cands.mp h
  obtain ⟨u0, e0⟩ := hP.tag.some_of_mem h0
  obtain ⟨u1, e1⟩ := hP.tag.some_of_mem h1
  exact ⟨u0, u1, mem_candsAny.mpr ⟨ev, hev, e0, e1, hv⟩⟩

/-- A cell has the same value under ANY and under ALL. -/
theorem bestAny_eq : bestAny P A c S a s lab la ra L R = best A c S a s lab la ra L R := by
  unfold bestAny
  apply minList_eq
  · intro x hx
    obtain ⟨p, hp, rfl⟩ := List.mem_map.mp hx
    exact minList_le (List.mem_map.mpr ⟨p, candsAny_sub P hP A c S a s lab la ra L R hp, rfl⟩)
  · by_cases hfin : best A c S a s lab la ra L R = inf
    · exact Or.inl hfin
    · obtain ⟨t0, t1, hc⟩ := best_attained A c S a s lab la ra L R hfin
      obtain ⟨u0, u1, hu⟩ := candsAny_cover P hP A c S a s lab la ra L R hc
      exact Or.inr (List.mem_map.mpr ⟨_, hu, rfl⟩)

omit hP in
theorem entryAny_eq_none :
    entryAny P A c S a s lab la ra L R = none ↔ bestAny P A c S a s lab la ra L R = inf := by
  unfold entryAny
  show (if (bestAny P A c S a s lab la ra L R).isInf = true then none else some _) = none ↔ _
  cases h : bestAny P A c S a s lab la ra L R <;> simp [isInf]

/-- A cell under ANY: state, value, and the single tag pair it decodes along. -/
theorem entryAny_eq_some {d : DCell Lab}
    (h : entryAny P A c S a s lab la ra L R = some d) :
    d.sp = s ∧ d.lab = lab ∧ d.cost = best A c S a s lab la ra L R ∧
    best A c S a s lab la ra L R ≠ inf ∧
    ∃ t0 t1, (best A c S a s lab la ra L R, (t0, t1)) ∈ candsAny P A c S a s lab la ra L R ∧
      d.sols = decodeTag s lab L R (t0, t1) := by
  have hbe := bestAny_eq P hP A c S a s lab la ra L R
  unfold entryAny at h
  change (if (bestAny P A c S a s lab la ra L R).isInf = true then none else some _) = some d at h
  by_cases hb : (bestAny P A c S a s lab la ra L R).isInf = true
  · rw [if_pos hb] at h; cases h
  · rw [if_neg hb] at h
    have hfin : best A c S a s lab la ra L R ≠ inf := by
      intro e; rw [hbe, e] at hb; simp [isInf] at hb
    injection h with h
    subst h
    refine ⟨rfl, rfl, hbe, hfin, ?_⟩
    -- the list of optimal tag pairs is not empty
    obtain ⟨t0, t1, hc⟩ := best_attained A c S a s lab la ra L R hfin
    obtain ⟨u0, u1, hu⟩ := candsAny_cover P hP A c S a s lab la ra L R hc
    have key : ∀ l : List ((Path × Lab) × (Path × Lab)), (u0, u1) ∈ l →
        (∀ w ∈ l, (best A c S a s lab la ra L R, w) ∈ candsAny P A c S a s lab la ra L R) →
        ∃ t0 t1, (best A c S a s lab la ra L R, (t0, t1)) ∈ candsAny P A c S a s lab la ra L R ∧
          (P.pair l).toList.flatMap (decodeTag s lab L R) = decodeTag s lab L R (t0, t1) := by
      intro l hmem hall
      obtain ⟨⟨w0, w1⟩, hw⟩ := hP.pair.some_of_mem hmem
      exact ⟨w0, w1, hall _ (hP.pair.mem hw), by rw [hw]; simp⟩
    apply key
    · rw [mem_dedup]
      exact List.mem_map.mpr ⟨_, List.mem_filter.mpr ⟨hu, by
        show decide (_ = bestAny P A c S a s lab la ra L R) = true
        simp [hbe]⟩, rfl⟩
    · intro w hw
      rw [mem_dedup] at hw
      obtain ⟨⟨v, w'⟩, hq, rfl⟩ := List.mem_map.mp hw
      obtain ⟨hq1, hqv⟩ := List.mem_filter.mp hq
      have hv : v = bestAny P A c S a s lab la ra L R := by simpa [bestAny, candsAny] using hqv
      rw [hv, hbe] at hq1
      exact hq1
end

/-! ### The two tables -/

section

variable {α Lab : Type} [DecidableEq Lab]

theorem mem_dpTableAny_node {P : Picker Lab} {A : LabelAlg α Lab} {c : Costs} {S : RTree} {a : α}
    {l r : ATree α} {d : DCell Lab} :
    d ∈ dpTableAny P A c S (.node a l r) ↔
      ∃ s ∈ A.allowed a, ∃ lab ∈ A.labs a,
        entryAny P A c S a s lab l.data r.data (dpTableAny P A c S l) (dpTableAny P A c S r) =
          some d := by
  simp only [dpTableAny, List.mem_flatMap, List.mem_filterMap]

theorem mem_dpTableAny_leaf {P : Picker Lab} {A : LabelAlg α Lab} {c : Costs} {S : RTree} {a : α}
    {sp : Path} {d : DCell Lab} :
    d ∈ dpTableAny P A c S (.leaf a sp) ↔
      d = { sp := sp, lab := A.leafLab a, cost := .fin 0, sols := [LSol.leaf sp (A.leafLab a)] } := by
  simp only [dpTableAny, List.mem_singleton]

theorem best_congr (A : LabelAlg α Lab) (c : Costs) (S : RTree) (a : α) (s : Path) (lab : Lab)
    (la ra : α) {L R L' R' : List (DCell Lab)} (hL : L.map DCell.core = L'.map DCell.core)
    (hR : R.map DCell.core = R'.map DCell.core) :
    best A c S a s lab la ra L R = best A c S a s lab la ra L' R' := by
  simp only [best, cands, roles_congr A c S a s lab la hL, roles_congr A c S a s lab ra hR]

theorem candsAny_congr (P : Picker Lab) (A : LabelAlg α Lab) (c : Costs) (S : RTree) (a : α)
    (s : Path) (lab : Lab)
    (la ra : α) {L R L' R' : List (DCell Lab)} (hL : L.map DCell.core = L'.map DCell.core)
    (hR : R.map DCell.core = R'.map DCell.core) :
    candsAny P A c S a s lab la ra L R = candsAny P A c S a s lab la ra L' R' := by
  simp only [candsAny, roles_congr A c S a s lab la hL, roles_congr A c S a s lab ra hR]

theorem entryAny_core (P : Picker Lab) (hP : P.Ok) (A : LabelAlg α Lab) (c : Costs) (S : RTree)
    (a : α) (s : Path) (lab : Lab)
    (la ra : α) {L R L' R' : List (DCell Lab)} (hL : L.map DCell.core = L'.map DCell.core)
    (hR : R.map DCell.core = R'.map DCell.core) :
    (entryAny P A c S a s lab la ra L R).map DCell.core =
      (entry A c S true a s lab la ra L' R').map DCell.core := by
  have hb := best_congr A c S a s lab la ra hL hR
  cases h1 : entryAny P A c S a s lab la ra L R with
  | none =>
    have := (entryAny_eq_none P A c S a s lab la ra L R).mp h1
    rw [bestAny_eq P hP, hb] at this
    rw [(entry_eq_none A c S a s lab la ra L' R').mpr this]
  | some d =>
    obtain ⟨p1, p2, p3, p4, _⟩ := entryAny_eq_some P hP A c S a s lab la ra L R h1
    cases h2 : entry A c S true a s lab la ra L' R' with
    | none =>
      have := (entry_eq_none A c S a s lab la ra L' R').mp h2
      rw [← hb] at this; exact absurd this p4
    | some d' =>
      obtain ⟨q1, q2, q3, _⟩ := entry_eq_some A c S a s lab la ra L' R' h2
      simp only [Option.map_some, DCell.core, Option.some.injEq, Prod.mk.injEq]
      exact ⟨p1.trans q1.symm, p2.trans q2.symm, by rw [p3, q3, hb]⟩

/-- The tables under ANY and under ALL list the same (species, label, value)
    triples, in the same order. -/
theorem dpTableAny_core (P : Picker Lab) (hP : P.Ok) (A : LabelAlg α Lab) (c : Costs) (S : RTree)
    (t : ATree α) :
    (dpTableAny P A c S t).map DCell.core = (dpTable A c S true t).map DCell.core := by
  induction t with
  | leaf a sp => simp [dpTable, dpTableAny, DCell.core]
  | node a l r ihl ihr =>
    simp only [dpTable, dpTableAny, List.map_flatMap, List.map_filterMap]
    congr 1
    funext s
    congr 1
    funext lab
    exact entryAny_core P hP A c S a s lab l.data r.data ihl ihr

omit [DecidableEq Lab] in
theorem mem_of_core_eq {L L' : List (DCell Lab)} (h : L.map DCell.core = L'.map DCell.core)
    {d : DCell Lab} (hd : d ∈ L) : ∃ d' ∈ L', d'.core = d.core := by
  have : d.core ∈ L'.map DCell.core := h ▸ List.mem_map.mpr ⟨d, hd, rfl⟩
  obtain ⟨d', hd', e⟩ := List.mem_map.mp this
  exact ⟨d', hd', e⟩

omit [DecidableEq Lab] in
theorem cellTag_of_core {d d' : DCell Lab} (h : d'.core = d.core) : cellTag d' = cellTag d := by
  simp only [DCell.core, Prod.mk.injEq] at h
  simp [cellTag, h.1, h.2.1]

/-- Looking a tag up in two tables with the same cores. -/
theorem findCell_core {L L' : List (DCell Lab)} (h : L.map DCell.core = L'.map DCell.core)
    {t : Path × Lab} {d : DCell Lab} (hf : findCell L t = some d) :
    ∃ d', findCell L' t = some d' := by
  obtain ⟨hd, ht⟩ := findCell_some hf
  obtain ⟨d', hd', e⟩ := mem_of_core_eq h hd
  obtain ⟨d'', hf'⟩ := findCell_of_mem hd'
  rw [cellTag_of_core e, ht] at hf'
  exact ⟨d'', hf'⟩

/-- **One solution per cell, and it is one of ALL's.**  A cell of the table under
    ANY decodes to exactly one solution; the cell of the table under ALL with the
    same state decodes (among others) to that solution. -/
theorem dpTableAny_sols (P : Picker Lab) (hP : P.Ok) (A : LabelAlg α Lab) (c : Costs) (S : RTree) :
    ∀ (t : ATree α), ∀ d ∈ dpTableAny P A c S t, ∀ d' ∈ dpTable A c S true t,
      cellTag d = cellTag d' → ∃ x, d.sols = [x] ∧ x ∈ d'.sols := by
  intro t
  induction t with
  | leaf a sp =>
    intro d hd d' hd' _
    rw [mem_dpTableAny_leaf] at hd
    rw [mem_dpTable_leaf] at hd'
    subst hd; subst hd'
    exact ⟨_, rfl, by simp⟩
  | node a l r ihl ihr =>
    intro d hd d' hd' htag
    obtain ⟨s, _, lab, _, e⟩ := mem_dpTableAny_node.mp hd
    obtain ⟨s', _, lab', _, e'⟩ := mem_dpTable_node.mp hd'
    have hcl := dpTableAny_core P hP A c S l
    have hcr := dpTableAny_core P hP A c S r
    obtain ⟨p1, p2, _, _, t0, t1, hc, hsols⟩ :=
      entryAny_eq_some P hP A c S a s lab l.data r.data _ _ e
    obtain ⟨q1, q2, _, _, hsols', _⟩ := entry_eq_some _ _ _ _ _ _ _ _ _ _ e'
    have hs : s' = s := by
      have := congrArg Prod.fst htag
      simp only [cellTag] at this
      rw [← q1, ← p1]; exact this.symm
    have hl : lab' = lab := by
      have := congrArg Prod.snd htag
      simp only [cellTag] at this
      rw [← q2, ← p2]; exact this.symm
    subst hs; subst hl
    -- the tag pair chosen under ANY is an optimal candidate under ALL
    have hb := best_congr A c S a s' lab' l.data r.data hcl hcr
    have hcAll : (best A c S a s' lab' l.data r.data (dpTable A c S true l) (dpTable A c S true r),
        (t0, t1)) ∈ cands A c S a s' lab' l.data r.data (dpTable A c S true l)
          (dpTable A c S true r) := by
      have h1 := candsAny_sub P hP A c S a s' lab' l.data r.data _ _ hc
      rw [hb] at h1
      simpa only [cands, roles_congr A c S a s' lab' l.data hcl,
        roles_congr A c S a s' lab' r.data hcr] using h1
    -- both tags name cells of the children's tables
    obtain ⟨ev, _, dl, hdl, dr, hdr, _, _, _, _, e0, e1, _⟩ :=
      entry_attained _ _ _ _ _ _ _ _ _ _ hcAll
    obtain ⟨cl', fl'⟩ := findCell_of_mem hdl
    obtain ⟨cr', fr'⟩ := findCell_of_mem hdr
    rw [e0] at fl'; rw [e1] at fr'
    obtain ⟨cl, fl⟩ := findCell_core hcl.symm fl'
    obtain ⟨cr, fr⟩ := findCell_core hcr.symm fr'
    obtain ⟨hcl1, hcl2⟩ := findCell_some fl
    obtain ⟨hcr1, hcr2⟩ := findCell_some fr
    obtain ⟨hcl1', hcl2'⟩ := findCell_some fl'
    obtain ⟨hcr1', hcr2'⟩ := findCell_some fr'
    obtain ⟨x, hx, hx'⟩ := ihl cl hcl1 cl' hcl1' (by rw [hcl2, hcl2'])
    obtain ⟨y, hy, hy'⟩ := ihr cr hcr1 cr' hcr1' (by rw [hcr2, hcr2'])
    refine ⟨LSol.node s' lab' x y, ?_, ?_⟩
    · rw [hsols]
      simp only [decodeTag, fl, fr, hx, hy]
      simp
    · exact (hsols' rfl _).mpr ⟨t0, t1, cl', cr', x, y, hcAll, fl', fr', hx', hy', rfl⟩

/-- The representation relation between a list of cells under ANY and the list
    of cells under ALL: same states, one decoded solution each, taken from the
    ALL cell with the same state. -/
def Rep (Tany Tall : List (DCell Lab)) : Prop :=
  (∀ d ∈ Tany, ∃ d' ∈ Tall, cellTag d = cellTag d' ∧ ∃ x, d.sols = [x] ∧ x ∈ d'.sols) ∧
  (∀ d' ∈ Tall, ∃ d ∈ Tany, cellTag d = cellTag d' ∧ ∃ x, d.sols = [x] ∧ x ∈ d'.sols)

theorem dpTableAny_rep (P : Picker Lab) (hP : P.Ok) (A : LabelAlg α Lab) (c : Costs) (S : RTree)
    (t : ATree α) : Rep (dpTableAny P A c S t) (dpTable A c S true t) := by
  have hcore := dpTableAny_core P hP A c S t
  constructor
  · intro d hd
    obtain ⟨d', hd', e⟩ := mem_of_core_eq hcore hd
    have ht := (cellTag_of_core e).symm
    exact ⟨d', hd', ht, dpTableAny_sols P hP A c S t d hd d' hd' ht⟩
  · intro d' hd'
    obtain ⟨d, hd, e⟩ := mem_of_core_eq hcore.symm hd'
    have ht := cellTag_of_core e
    exact ⟨d, hd, ht, dpTableAny_sols P hP A c S t d hd d' hd' ht⟩

omit [DecidableEq Lab] in
/-- Filtering both tables by a condition on the label keeps the relation. -/
theorem Rep.filter_lab {Tany Tall : List (DCell Lab)} (h : Rep Tany Tall) (f : Lab → Bool) :
    Rep (Tany.filter (fun d => f d.lab)) (Tall.filter (fun d => f d.lab)) := by
  constructor
  · intro d hd
    obtain ⟨hd, hf⟩ := List.mem_filter.mp hd
    obtain ⟨d', hd', ht, hx⟩ := h.1 d hd
    have : d.lab = d'.lab := congrArg Prod.snd ht
    exact ⟨d', List.mem_filter.mpr ⟨hd', by rw [← this]; exact hf⟩, ht, hx⟩
  · intro d' hd'
    obtain ⟨hd', hf⟩ := List.mem_filter.mp hd'
    obtain ⟨d, hd, ht, hx⟩ := h.2 d' hd'
    have : d.lab = d'.lab := congrArg Prod.snd ht
    exact ⟨d, List.mem_filter.mpr ⟨hd, by rw [this]; exact hf⟩, ht, hx⟩

end

end SR
