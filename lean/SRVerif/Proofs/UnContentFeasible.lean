/-
  Unordered super-reconciliation: the decoded solutions lie in the specification
  oracle's solution space (`Spec.Feasible … .unordered`, Proofs/OptAdequacy.lean), and on
  solutions with valid labels the oracle's cost `Spec.specCost` is the evaluator's.

  * `filter_mem_sublists`, `mem_labelSpace_of_between`   a strictly increasing list between
        required and allowed content is one of the labels the oracle enumerates;
  * `feasible_unSol`          every admissible kind labelling decodes into the oracle's space;
  * `specCost_eq_totalCostU`  `specCost = recCost + sloss · unordLosses` on valid solutions.
-/
import SRVerif.Proofs.UnContentExchange

namespace SR

open Path Cost Spec

theorem filter_mem_sublists {β : Type} (q : β → Bool) (l : List β) : l.filter q ∈ sublists l := by
  induction l with
  | nil => simp [sublists]
  | cons x xs ih =>
    simp only [sublists, List.mem_flatMap, List.mem_cons, List.not_mem_nil, or_false]
    refine ⟨xs.filter q, ih, ?_⟩
    cases h : q x <;> simp [h]

theorem nodup_allowedContent (whole : OTree) (p : Path) : (allowedContent whole p).Nodup := by
  unfold allowedContent
  exact (nodup_families whole).filter _

/-- A strictly increasing list between required and allowed content is a label of the
    oracle's label space. -/
theorem mem_labelSpace_of_between {whole : OTree} {p : Path} {f : List Nat}
    (hsorted : f.Pairwise (· < ·)) (hreq : ∀ x ∈ requiredContent whole p, x ∈ f)
    (hall : ∀ x ∈ f, x ∈ allowedContent whole p) : f ∈ labelSpace .unordered whole p := by
  simp only [labelSpace, List.mem_map]
  refine ⟨((allowedContent whole p).filter
    (fun z => !(requiredContent whole p).contains z)).filter (fun z => f.contains z),
    filter_mem_sublists _ _, ?_⟩
  refine eq_of_sorted (sortNat_sorted ?_) hsorted ?_
  · rw [List.nodup_append]
    refine ⟨nodup_requiredContent whole p, ((nodup_allowedContent whole p).filter _).filter _, ?_⟩
    intro a ha b hb e
    subst e
    simp only [List.mem_filter, Bool.not_eq_true', List.contains_eq_mem, decide_eq_false_iff_not] at hb
    exact hb.1.2 ha
  · intro x
    rw [mem_sortNat, List.mem_append]
    simp only [List.mem_filter, Bool.not_eq_true', List.contains_eq_mem, decide_eq_false_iff_not,
      decide_eq_true_eq]
    constructor
    · rintro (h | h)
      · exact hreq x h
      · exact h.2
    · intro hx
      by_cases hr : x ∈ requiredContent whole p
      · exact Or.inl hr
      · exact Or.inr ⟨⟨hall x hx, hr⟩, hx⟩

theorem unContent_sorted (S : RTree) (base : Bool) (whole : OTree) (p : Path) (sub : OTree)
    (anc : List Nat) (k : Kind) :
    (unContent (annUn S base whole p sub).data anc k).Pairwise (· < ·) := by
  cases k with
  | lca => exact lcaSet_sorted S base whole p sub
  | inh => exact unContent_inh_sorted _ _

theorem feasible_unSol (c : Costs) (S : RTree) (base : Bool) (whole : OTree) :
    ∀ (sub : OTree) (p : Path) (anc : List Nat) (ls : LSol Kind), IsSub whole p sub →
      Adm (unAlg c) (annUn S base whole p sub) ls →
      (∀ x ∈ anc, x ∈ allowedContent whole p) →
      (∀ x ∈ requiredContent whole p, x ∈ anc ∨ x ∈ gainsAt whole p) →
      Feasible S .unordered base whole p sub (unSol (annUn S base whole p sub) anc ls) := by
  intro sub
  induction sub with
  | leaf sp f0 =>
    intro p anc ls _ hadm _ _
    cases ls with
    | node => simp [annUn, Adm] at hadm
    | leaf s k =>
      simp only [annUn, Adm, unAlg] at hadm
      obtain ⟨rfl, rfl⟩ := hadm
      exact ⟨rfl, rfl⟩
  | node l r ihl ihr =>
    intro p anc ls hsub hadm hanc hreq
    obtain ⟨hl, hr⟩ := isSub_child hsub
    have ha := annAt_annUn S base whole _ p hsub
    have hsorted := fun k => unContent_sorted S base whole p (.node l r) anc k
    have hal := fun s => annUn_allowed (c := c) S base whole p l r s
    rw [annUn_node] at hadm ⊢
    cases ls with
    | leaf => simp [Adm] at hadm
    | node s k x y =>
      simp only [Adm] at hadm
      obtain ⟨hs, _, ax, ay⟩ := hadm
      rw [unSol_node]
      have hfa := content_allowed ha hanc k
      have hfr := content_required ha hreq k
      refine ⟨?_, mem_labelSpace_of_between (hsorted k) hfr hfa,
        ihl _ _ x hl ax (fun z hz => allowed_mono 0 (hfa z hz)) (child_required hfr),
        ihr _ _ y hr ay (fun z hz => allowed_mono 1 (hfa z hz)) (child_required hfr)⟩
      have := (hal s).mp hs
      cases base with
      | true => simpa [speciesSpace] using this
      | false =>
        simp only [speciesSpace, Bool.false_eq_true, if_false, allSpecies]
        exact (RTree.mem_preorder_iff s S).mpr (by simpa using this)

/-- The oracle's cost of a solution with valid labels is the evaluator's. -/
theorem specCost_eq_totalCostU (c : Costs) (whole : OTree) :
    ∀ (sub : OTree) (p : Path) (σ : Sol), Spec.validUnLabels whole p sub σ = true →
      Spec.validRec sub σ = true →
      specCost c .unordered whole p σ = totalCostU c sub σ := by
  intro sub
  induction sub with
  | leaf sp f0 =>
    intro p σ hv hr
    cases σ with
    | node => simp [Spec.validRec] at hr
    | leaf s g =>
      simp only [Spec.validRec, beq_iff_eq] at hr
      simp [specCost, totalCostU, unordLosses, recCost, hr]
  | node l r ihl ihr =>
    intro p σ hv hr
    cases σ with
    | leaf => simp [Spec.validRec] at hr
    | node s f x y =>
      simp only [Spec.validUnLabels, Bool.and_eq_true] at hv
      simp only [Spec.validRec, Bool.and_eq_true] at hr
      simp only [specCost]
      rw [ihl _ x hv.1.2 hr.1.2, ihr _ y hv.2 hr.2]
      have he : (!(edgeOk .unordered whole (p ++ [0]) f x.fam &&
          edgeOk .unordered whole (p ++ [1]) f y.fam)) = false := by
        simp [hv.1.1.1.2, hv.1.1.2]
      unfold localCost totalCostU
      rw [he]
      simp only [Bool.false_eq_true, if_false, unordLosses]
      cases h0 : localUnordLosses (internalEvent s x.sp y.sp) (Path.comparable s x.sp) f x.fam y.fam with
      | none => simp
      | some k0 =>
        cases hkl : unordLosses x with
        | none => simp
        | some kl =>
          cases hkr : unordLosses y with
          | none => simp
          | some kr =>
            simp only []
            rw [recCost_node]
            simp only [Nat.add_mul, ← fin_add_fin_eq]
            ac_rfl

end SR
