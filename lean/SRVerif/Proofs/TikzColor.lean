/-
  Colour propagation: the pre-order loop computes the nearest coloured ancestor-or-self.
-/
import SRVerif.Model.Tikz

namespace SR.Tikz.CTree

/-- The `color` feature the node at `q` was given by the user. -/
def ownAt (t : CTree) (q : List Bool) : Option Str := (sub t q).bind color

/-- Specification, independent of the traversal: the own colour of the longest prefix of the
    path that has one. -/
def nearestSpec (t : CTree) (p : List Bool) : Option Str :=
  (List.range (p.length + 1)).reverse.findSome? (fun k => ownAt t (p.take k))

theorem color_propagate (inh : Option Str) (t : CTree) : (propagate inh t).color = t.color.or inh := by
  cases t <;> rfl

/-- After the loop, the colour at a path is what a walk down the path remembers. -/
theorem sub_propagate (inh : Option Str) (t : CTree) (p : List Bool) :
    (sub (propagate inh t) p).map color = nearestFrom inh t p := by
  induction p generalizing inh t with
  | nil => simp [sub, nearestFrom, color_propagate]
  | cons b r ih =>
    cases t with
    | leaf c => simp [propagate, sub, nearestFrom]
    | node c l rt =>
      cases b
      · simpa [propagate, sub, nearestFrom] using ih (c.or inh) l
      · simpa [propagate, sub, nearestFrom] using ih (c.or inh) rt

theorem nearestFrom_isSome (last : Option Str) (t : CTree) (p : List Bool) :
    (nearestFrom last t p).isSome = (sub t p).isSome := by
  induction p generalizing last t with
  | nil => simp [sub, nearestFrom]
  | cons b r ih =>
    cases t with
    | leaf c => simp [sub, nearestFrom]
    | node c l rt => cases b <;> simp [sub, nearestFrom, ih]

theorem range_succ_reverse (n : Nat) :
    (List.range (n + 1)).reverse = ((List.range n).reverse.map Nat.succ) ++ [0] := by
  rw [List.range_succ_eq_map, List.reverse_cons, List.map_reverse]

theorem nearestSpec_nil (t : CTree) : nearestSpec t [] = t.color := by
  simp [nearestSpec, ownAt, sub]

theorem nearestSpec_cons (c : Option Str) (l r : CTree) (b : Bool) (p : List Bool) :
    nearestSpec (node c l r) (b :: p) = (nearestSpec (if b then r else l) p).or c := by
  simp only [nearestSpec, List.length_cons]
  rw [range_succ_reverse (p.length + 1), List.findSome?_append, List.findSome?_map]
  have hk : ∀ k, ownAt (node c l r) ((b :: p).take (k + 1)) = ownAt (if b then r else l) (p.take k) := by
    intro k; cases b <;> simp [ownAt, sub]
  have : ((fun k => ownAt (node c l r) ((b :: p).take k)) ∘ Nat.succ)
      = fun k => ownAt (if b then r else l) (p.take k) := by
    funext k; exact hk k
  rw [this]
  have h0' : ownAt (node c l r) [] = c := by simp [ownAt, sub, color]
  simp [h0']

/-- The walk agrees with the specification. -/
theorem nearestFrom_spec (last : Option Str) (t : CTree) (p : List Bool) (h : (sub t p).isSome = true) :
    nearestFrom last t p = some ((nearestSpec t p).or last) := by
  induction p generalizing last t with
  | nil => simp [nearestFrom, nearestSpec_nil]
  | cons b r ih =>
    cases t with
    | leaf c => simp [sub] at h
    | node c l rt =>
      have h' : (sub (if b then rt else l) r).isSome = true := by
        cases b <;> simpa [sub] using h
      rw [nearestFrom, ih _ _ h', nearestSpec_cons]
      cases nearestSpec (if b then rt else l) r <;> simp [Option.or]

/-- The colour found after propagation at any node of the tree. -/
theorem colorAt_propagate (t : CTree) (p : List Bool) (h : (sub t p).isSome = true) :
    (propagate none t).colorAt p = nearestSpec t p := by
  have h1 := sub_propagate none t p
  rw [nearestFrom_spec none t p h] at h1
  simp only [colorAt]
  cases hs : sub (propagate none t) p with
  | none => simp [hs] at h1
  | some s =>
    simp only [hs, Option.map_some, Option.some.injEq] at h1
    simp [h1]

end SR.Tikz.CTree
