/-
  The MIN / ALL aggregation used by the label DP (`Agg.update`, `Agg.comb`):

  * folding `Agg.update` over a list of (value, tag) candidates computes the
    minimum value (`Cost.minList`) and exactly the tags attaining it, each once
    (the MIN / ALL instance of C16 on `Cost`);
  * `Agg.comb` followed by taking the minimum is the *separable minimum*
    (DESIGN 6.2): `min over pairs of (e + f a + g b) = e + min f + min g`, and
    the minimising pairs are the product of the arg-minima.
-/
import SRVerif.Proofs.Cost

namespace SR

namespace Cost

/-- `a ≼ b` : the order of `Cost` as a proposition. -/
abbrev LE (a b : Cost) : Prop := Cost.le a b = true

@[inherit_doc] scoped infix:50 " ≼ " => Cost.LE

theorem add_def (a b : Cost) : a + b = Cost.add a b := rfl

instance : Std.Associative (α := Cost) (· + ·) := ⟨add_assoc⟩
instance : Std.Commutative (α := Cost) (· + ·) := ⟨add_comm⟩

@[simp] theorem fin_add_fin_eq (a b : Nat) : (fin a + fin b : Cost) = fin (a + b) := rfl
@[simp] theorem inf_add (a : Cost) : (inf + a : Cost) = inf := rfl
@[simp] theorem add_inf (a : Cost) : (a + inf : Cost) = inf := by cases a <;> rfl
@[simp] theorem add_zero (a : Cost) : a + fin 0 = a := by cases a <;> rfl
@[simp] theorem zero_add (a : Cost) : fin 0 + a = a := by cases a <;> simp [add_def, add]

@[simp] theorem fin_le_fin (a b : Nat) : (fin a ≼ fin b) ↔ a ≤ b := by
  simp [LE, le, lt]

@[simp] theorem le_inf' (a : Cost) : a ≼ inf := le_inf a

@[simp] theorem inf_le (a : Cost) : (inf ≼ a) ↔ a = inf := by
  cases a <;> simp [LE, le, lt]

theorem add_eq_fin {a b : Cost} {n : Nat} (h : a + b = fin n) :
    ∃ x y, a = fin x ∧ b = fin y ∧ x + y = n := by
  cases a <;> cases b <;> simp_all [add_def, add]

theorem add_ne_inf {a b : Cost} (h : a + b ≠ inf) : a ≠ inf ∧ b ≠ inf := by
  cases a <;> cases b <;> simp_all

theorem ne_inf_iff {a : Cost} : a ≠ inf ↔ ∃ n, a = fin n := by
  cases a <;> simp

theorem isInf_eq_false {a : Cost} : a.isInf = false ↔ a ≠ inf := by
  cases a <;> simp [isInf]

theorem le_of_lt {a b : Cost} (h : lt a b = true) : a ≼ b := by
  cases a <;> cases b <;> simp_all [LE, le, lt] <;> omega

theorem not_lt_of_le {a b : Cost} (h : a ≼ b) : lt b a = false := by
  simpa [LE, le] using h

theorem le_of_not_lt {a b : Cost} (h : lt b a = false) : a ≼ b := by
  simp [LE, le, h]

theorem le_add_right (a b : Cost) : a ≼ a + b := by
  cases a <;> cases b <;> simp [add_def, add, LE, le, lt]

theorem le_add_left (a b : Cost) : a ≼ b + a := by
  rw [add_comm]; exact le_add_right a b

theorem le_of_eq {a b : Cost} (h : a = b) : a ≼ b := h ▸ le_refl a

theorem min_le_iff {a b m : Cost} : (m ≼ min a b) ↔ (m ≼ a ∧ m ≼ b) := by
  constructor
  · intro h; exact ⟨le_trans h (min_le_left a b), le_trans h (min_le_right a b)⟩
  · rintro ⟨h1, h2⟩; rcases min_eq_or a b with h | h <;> rw [h] <;> assumption

/-- Componentwise `≤` with equal finite sums forces componentwise equality. -/
theorem eq_of_add_le {a a' b b' e : Cost} {n : Nat} (ha : a ≼ a') (hb : b ≼ b')
    (hfin : e + a' + b' = fin n) (hle : e + a' + b' ≼ e + a + b) : a = a' ∧ b = b' := by
  cases e <;> cases a <;> cases a' <;> cases b <;> cases b' <;>
    simp_all [add_def, add] <;> omega

/-- The minimum of a list is characterised by being a lower bound that is attained
    (or infinite). -/
theorem minList_eq {l : List Cost} {m : Cost} (hlb : ∀ x ∈ l, m ≼ x) (hatt : m = inf ∨ m ∈ l) :
    minList l = m := by
  apply le_antisymm
  · rcases hatt with h | h
    · rw [h]; exact le_inf _
    · exact minList_le h
  · rcases minList_mem_or_inf l with h | h
    · rw [h]; exact le_inf _
    · exact hlb _ h

theorem le_minList {l : List Cost} {m : Cost} (hlb : ∀ x ∈ l, m ≼ x) : m ≼ minList l := by
  rcases minList_mem_or_inf l with h | h
  · rw [h]; exact le_inf _
  · exact hlb _ h

end Cost

open Cost

namespace Agg

set_option linter.unusedSectionVars false

variable {τ : Type} [DecidableEq τ]

/-- Offer a list of candidates, one after the other. -/
def offerAll (a : Agg τ) (xs : List (Cost × τ)) : Agg τ :=
  xs.foldl (fun a p => a.update p.1 p.2) a

def ofList (xs : List (Cost × τ)) : Agg τ := offerAll empty xs

/-- What an aggregate must satisfy after having been offered exactly `xs`. -/
structure Inv (xs : List (Cost × τ)) (a : Agg τ) : Prop where
  lower : ∀ p ∈ xs, a.val ≼ p.1
  attained : (xs = [] ∧ a.val = inf) ∨ ∃ p ∈ xs, p.1 = a.val
  tags : ∀ t, t ∈ a.tags ↔ ∃ p ∈ xs, p.2 = t ∧ p.1 = a.val
  nodup : a.tags.Nodup

theorem inv_empty : Inv ([] : List (Cost × τ)) empty :=
  ⟨by simp, Or.inl ⟨rfl, rfl⟩, by simp [empty], by simp [empty]⟩

theorem inv_update {xs : List (Cost × τ)} {a : Agg τ} (h : Inv xs a) (v : Cost) (t : τ) :
    Inv (xs ++ [(v, t)]) (a.update v t) := by
  unfold update
  by_cases hv : v = a.val
  · subst hv
    rw [if_pos rfl]
    by_cases ht : t ∈ a.tags
    · rw [if_pos ht]
      refine ⟨?_, Or.inr ⟨(a.val, t), by simp, rfl⟩, ?_, h.nodup⟩
      · intro p hp
        rcases List.mem_append.mp hp with hp | hp
        · exact h.lower p hp
        · simp at hp; subst hp; exact le_refl _
      · intro u
        rw [h.tags u]
        constructor
        · rintro ⟨p, hp, h1, h2⟩; exact ⟨p, by simp [hp], h1, h2⟩
        · rintro ⟨p, hp, h1, h2⟩
          rcases List.mem_append.mp hp with hp | hp
          · exact ⟨p, hp, h1, h2⟩
          · simp at hp; subst hp; simp at h1; subst h1; exact (h.tags _).mp ht
    · rw [if_neg ht]
      refine ⟨?_, Or.inr ⟨(a.val, t), by simp, rfl⟩, ?_, ?_⟩
      · intro p hp
        rcases List.mem_append.mp hp with hp | hp
        · exact h.lower p hp
        · simp at hp; subst hp; exact le_refl _
      · intro u
        simp only [List.mem_append, List.mem_singleton, h.tags u]
        constructor
        · rintro (⟨p, hp, h1, h2⟩ | rfl)
          · exact ⟨p, Or.inl hp, h1, h2⟩
          · exact ⟨(a.val, u), Or.inr rfl, rfl, rfl⟩
        · rintro ⟨p, hp | hp, h1, h2⟩
          · exact Or.inl ⟨p, hp, h1, h2⟩
          · subst hp; exact Or.inr h1.symm
      · rw [List.nodup_append]
        refine ⟨h.nodup, by simp, ?_⟩
        intro x hx y hy hxy
        simp at hy; subst hy; subst hxy; exact ht hx
  · rw [if_neg hv]
    by_cases hlt : Cost.lt v a.val = true
    · rw [if_pos hlt]
      refine ⟨?_, Or.inr ⟨(v, t), by simp, rfl⟩, ?_, by simp⟩
      · intro p hp
        rcases List.mem_append.mp hp with hp | hp
        · exact le_trans (le_of_lt hlt) (h.lower p hp)
        · simp at hp; subst hp; exact le_refl _
      · intro u
        simp only [List.mem_singleton, List.mem_append]
        constructor
        · rintro rfl; exact ⟨(v, u), Or.inr rfl, rfl, rfl⟩
        · rintro ⟨p, hp | hp, h1, h2⟩
          · exfalso
            have := not_lt_of_le (h.lower p hp)
            rw [h2] at this; simp [this] at hlt
          · subst hp; exact h1.symm
    · rw [if_neg hlt]
      have hlt' : Cost.lt v a.val = false := by simpa using hlt
      refine ⟨?_, ?_, ?_, h.nodup⟩
      · intro p hp
        rcases List.mem_append.mp hp with hp | hp
        · exact h.lower p hp
        · simp at hp; subst hp; exact le_of_not_lt hlt'
      · rcases h.attained with ⟨h1, h2⟩ | ⟨p, hp, h1⟩
        · exfalso
          rw [h2] at hv hlt'
          cases v <;> simp_all [Cost.lt]
        · exact Or.inr ⟨p, by simp [hp], h1⟩
      · intro u
        rw [h.tags u]
        constructor
        · rintro ⟨p, hp, h1, h2⟩; exact ⟨p, by simp [hp], h1, h2⟩
        · rintro ⟨p, hp, h1, h2⟩
          rcases List.mem_append.mp hp with hp | hp
          · exact ⟨p, hp, h1, h2⟩
          · simp at hp; subst hp; exact absurd h2 hv

theorem inv_offerAll {pre : List (Cost × τ)} {a : Agg τ} (h : Inv pre a) (xs : List (Cost × τ)) :
    Inv (pre ++ xs) (offerAll a xs) := by
  induction xs generalizing pre a with
  | nil => simpa [offerAll] using h
  | cons x xs ih =>
    have := ih (inv_update h x.1 x.2)
    simpa [offerAll] using this

theorem inv_ofList (xs : List (Cost × τ)) : Inv xs (ofList xs) := by
  simpa [ofList] using inv_offerAll inv_empty xs

/-- The value of an aggregate is the minimum of the offered values. -/
theorem Inv.val_eq {xs : List (Cost × τ)} {a : Agg τ} (h : Inv xs a) :
    a.val = Cost.minList (xs.map (·.1)) := by
  symm
  apply minList_eq
  · intro x hx
    obtain ⟨p, hp, rfl⟩ := List.mem_map.mp hx
    exact h.lower p hp
  · rcases h.attained with ⟨_, h2⟩ | ⟨p, hp, h1⟩
    · exact Or.inl h2
    · exact Or.inr (List.mem_map.mpr ⟨p, hp, h1⟩)

/-- Some tag is kept as soon as something was offered. -/
theorem Inv.tags_ne_nil {xs : List (Cost × τ)} {a : Agg τ} (h : Inv xs a) (hne : xs ≠ []) :
    ∃ t, t ∈ a.tags := by
  rcases h.attained with ⟨h1, _⟩ | ⟨p, hp, h1⟩
  · exact absurd h1 hne
  · exact ⟨p.2, (h.tags _).mpr ⟨p, hp, rfl, h1⟩⟩

/-- **Goal 1a** (MIN / ALL instance of C16 on `Cost`): after offering `xs`, the
    value is `minList` of the values, the tags are exactly the tags of the
    candidates attaining it, and no tag is repeated. -/
theorem ofList_spec (xs : List (Cost × τ)) :
    (ofList xs).val = Cost.minList (xs.map (·.1)) ∧
    (∀ t, t ∈ (ofList xs).tags ↔ ∃ p ∈ xs, p.2 = t ∧ p.1 = Cost.minList (xs.map (·.1))) ∧
    (ofList xs).tags.Nodup := by
  have h := inv_ofList xs
  refine ⟨h.val_eq, ?_, h.nodup⟩
  intro t; rw [h.tags t, h.val_eq]

theorem mem_comb {σ : Type} {e : Cost} {a : Agg τ} {b : Agg σ} {v : Cost} {x : τ} {y : σ} :
    (v, (x, y)) ∈ comb e a b ↔ x ∈ a.tags ∧ y ∈ b.tags ∧ v = e + a.val + b.val := by
  simp only [comb, List.mem_flatMap, List.mem_map, Prod.mk.injEq]
  constructor
  · rintro ⟨x', hx', y', hy', h1, h2, h3⟩
    subst h2; subst h3; exact ⟨hx', hy', h1.symm⟩
  · rintro ⟨hx, hy, h⟩
    exact ⟨x, hx, y, hy, h.symm, rfl, rfl⟩

end Agg

/-- **Separable minimum** (DESIGN 6.2), value part: the minimum over all pairs of
    `e + f a + g b` is `e + min f + min g` (both sides are `inf` when a list is
    empty). -/
theorem sepMin_value (e : Cost) (xs ys : List Cost) :
    Cost.minList (xs.flatMap fun a => ys.map fun b => e + a + b) =
      e + Cost.minList xs + Cost.minList ys := by
  apply minList_eq
  · intro v hv
    simp only [List.mem_flatMap, List.mem_map] at hv
    obtain ⟨a, ha, b, hb, rfl⟩ := hv
    exact add_le_add (add_le_add (le_refl e) (minList_le ha)) (minList_le hb)
  · rcases minList_mem_or_inf xs with hx | hx
    · left; rw [hx]; simp
    · rcases minList_mem_or_inf ys with hy | hy
      · left; rw [hy]; simp
      · right
        simp only [List.mem_flatMap, List.mem_map]
        exact ⟨_, hx, _, hy, rfl⟩

/-- Separable minimum, arg-min part: a pair attains a *finite* minimum iff each
    component attains the minimum of its list. -/
theorem sepMin_argmin (e : Cost) (xs ys : List Cost) (a b : Cost) (ha : a ∈ xs) (hb : b ∈ ys)
    (hfin : e + Cost.minList xs + Cost.minList ys ≠ inf) :
    e + a + b = e + Cost.minList xs + Cost.minList ys ↔
      a = Cost.minList xs ∧ b = Cost.minList ys := by
  constructor
  · intro h
    obtain ⟨n, hn⟩ := ne_inf_iff.mp hfin
    have := eq_of_add_le (e := e) (minList_le ha) (minList_le hb) (h.trans hn) (le_of_eq h)
    exact ⟨this.1.symm, this.2.symm⟩
  · rintro ⟨rfl, rfl⟩; rfl

/-- **Goal 1b**: what `Agg.comb` of two folded aggregates offers.  Its minimum
    is the separable minimum `e + min f + min g`; the tag pairs it offers are
    exactly the product of the arg-minima, and they all carry that value. -/
theorem Agg.comb_spec {τ σ : Type} [DecidableEq τ] [DecidableEq σ] (e : Cost)
    (xs : List (Cost × τ)) (ys : List (Cost × σ)) :
    let m := e + Cost.minList (xs.map (·.1)) + Cost.minList (ys.map (·.1))
    (∀ v t u, (v, (t, u)) ∈ Agg.comb e (Agg.ofList xs) (Agg.ofList ys) ↔
      v = m ∧ (∃ p ∈ xs, p.2 = t ∧ p.1 = Cost.minList (xs.map (·.1))) ∧
        (∃ q ∈ ys, q.2 = u ∧ q.1 = Cost.minList (ys.map (·.1)))) ∧
    (xs ≠ [] → ys ≠ [] →
      Cost.minList ((Agg.comb e (Agg.ofList xs) (Agg.ofList ys)).map (·.1)) = m) ∧
    m = Cost.minList (xs.flatMap fun p => ys.map fun q => e + p.1 + q.1) := by
  intro m
  have hx := Agg.ofList_spec xs
  have hy := Agg.ofList_spec ys
  refine ⟨?_, ?_, ?_⟩
  · intro v t u
    rw [Agg.mem_comb, hx.2.1, hy.2.1, hx.1, hy.1]
    constructor
    · rintro ⟨h1, h2, h3⟩; exact ⟨h3, h1, h2⟩
    · rintro ⟨h1, h2, h3⟩; exact ⟨h2, h3, h1⟩
  · intro hxne hyne
    obtain ⟨t, ht⟩ := (Agg.inv_ofList xs).tags_ne_nil hxne
    obtain ⟨u, hu⟩ := (Agg.inv_ofList ys).tags_ne_nil hyne
    apply minList_eq
    · intro v hv
      obtain ⟨⟨v', t', u'⟩, hp, rfl⟩ := List.mem_map.mp hv
      rw [Agg.mem_comb, hx.1, hy.1] at hp
      exact le_of_eq hp.2.2.symm
    · right
      refine List.mem_map.mpr ⟨(m, (t, u)), ?_, rfl⟩
      rw [Agg.mem_comb, hx.1, hy.1]
      exact ⟨ht, hu, rfl⟩
  · have := sepMin_value e (xs.map (·.1)) (ys.map (·.1))
    show e + Cost.minList (xs.map (·.1)) + Cost.minList (ys.map (·.1)) = _
    rw [← this]
    congr 1
    simp [List.flatMap_map, List.map_map, Function.comp_def]

/-! Non-vacuity: two ties for the minimum are both kept, once each. -/
example : (Agg.ofList [(Cost.fin 3, 'a'), (.fin 2, 'b'), (.inf, 'c'), (.fin 2, 'd'), (.fin 2, 'b')]).val = .fin 2 ∧
    (Agg.ofList [(Cost.fin 3, 'a'), (.fin 2, 'b'), (.inf, 'c'), (.fin 2, 'd'), (.fin 2, 'b')]).tags = ['b', 'd'] := by
  decide

example : (Agg.comb (.fin 1) (Agg.ofList [(Cost.fin 3, 'a'), (.fin 2, 'b')])
    (Agg.ofList [(Cost.fin 5, 0), (.fin 5, 1)])) = [(.fin 8, ('b', 0)), (.fin 8, ('b', 1))] := by
  decide

end SR
