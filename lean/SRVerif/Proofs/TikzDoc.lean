/-
  Admissible inputs of the `render` model over the GENERATED templates, and the facts about the
  generated values the document-level theorems of C15 use.
-/
import SRVerif.Generated.TikzObligations
import SRVerif.Proofs.TikzBraces
import SRVerif.Proofs.TikzWrap
import SRVerif.Proofs.TikzRender

namespace SR.Tikz

/-- The drawing calls `render` can receive: a statement template of the source with one admissible
    request per hole. -/
def CallOK (c : Call) : Prop :=
  (c.layer, c.tmpl) ∈ Generated.statements ∧ reqsOK c.tmpl.holes c.fills = true

/-- The definitions block: one of the two generated templates with admissible fillings. -/
def DefsOK (defs : Str) : Prop :=
  ∃ t fills, (t = Generated.tmpl_defs_vertical ∨ t = Generated.tmpl_defs_horizontal) ∧
    fillsOK t.holes fills = true ∧ defs = t.instantiate fills

theorem skeleton_std :
    Generated.renderSkeleton = stdSkeleton Generated.colorPrefix Generated.layerNames := by
  rw [Generated.skeleton_shape, Generated.definecolor_shape, Generated.begin_line,
    Generated.end_line, Generated.last_line, Generated.layer_comment_shape]
  rfl

theorem defs_holesOK :
    Generated.tmpl_defs_vertical.holesOK = true ∧ Generated.tmpl_defs_horizontal.holesOK = true := by
  decide +kernel

theorem colorPrefix_alnum : Generated.colorPrefix.all isAlnum = true := by decide +kernel

theorem layerNames_braceFree : Generated.layerNames.all braceFree = true := by decide +kernel

theorem defs_balanced (defs : Str) (h : DefsOK defs) : isBalanced defs = true := by
  obtain ⟨t, fills, ht, hf, rfl⟩ := h
  rcases ht with rfl | rfl
  · exact isBalanced_instantiate _ fills Generated.tmpl_defs_vertical_balanced defs_holesOK.1 hf
  · exact isBalanced_instantiate _ fills Generated.tmpl_defs_horizontal_balanced defs_holesOK.2 hf

theorem rcall_fillsOK (calls : List Call) (hc : ∀ c ∈ calls, CallOK c) :
    ∀ o ∈ (resolveCalls [] calls).2,
      (o.layer, o.tmpl) ∈ Generated.statements ∧
      fillsOK o.tmpl.holes (o.fills.map (RFill.str Generated.colorPrefix)) = true := by
  have h := (resolveCalls_spec [] calls).2
  generalize (resolveCalls [] calls).1 = tbl at h
  generalize (resolveCalls [] calls).2 = out at h
  intro o ho
  induction h with
  | nil => cases ho
  | @cons c o' _ _ hco _ ih =>
    rcases List.mem_cons.1 ho with e | e
    · subst e
      obtain ⟨hl, ht, hf⟩ := hco
      have hc' := hc c (by simp)
      rw [hl, ht]
      exact ⟨hc'.1, fillsOK_resolved tbl _ colorPrefix_alnum hf _ hc'.2⟩
    · exact ih (fun c hc' => hc c (List.mem_cons_of_mem _ hc')) e

theorem splitSpaces_ne_nil (s : Str) : splitSpaces s ≠ [] := by
  induction s with
  | nil => simp [splitSpaces]
  | cons c r ih =>
    simp only [splitSpaces]
    split
    · simp
    · split <;> simp

/-- Splitting at spaces and joining with spaces is the identity. -/
theorem lineText_splitSpaces (s : Str) : lineText (splitSpaces s) = s := by
  induction s with
  | nil => rfl
  | cons c r ih =>
    simp only [splitSpaces]
    split
    · rename_i hc
      cases hs : splitSpaces r with
      | nil => exact absurd hs (splitSpaces_ne_nil r)
      | cons w ws =>
        rw [hs] at ih
        simp only [lineText] at ih ⊢
        rw [intercalate_cons_cons, ih, hc]; rfl
    · cases hs : splitSpaces r with
      | nil => exact absurd hs (splitSpaces_ne_nil r)
      | cons w ws =>
        rw [hs] at ih
        simp only [lineText] at ih ⊢
        cases ws with
        | nil => simp [List.intercalate] at ih ⊢; exact ih
        | cons v vs =>
          rw [intercalate_cons_cons] at ih ⊢
          simp [← ih]

end SR.Tikz
