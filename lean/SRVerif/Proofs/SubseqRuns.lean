/-
  Helper lemmas for property C18, part D: the counting specification
  `lostRuns` agrees with the literal formulation by maximal constant groups
  (`List.splitBy`) and by stripping the lost positions at both ends.
-/
import SRVerif.Proofs.Subseq

namespace SR.SubseqProofs
open SR.SubseqSpec

theorem rstripLost_nil : rstripLost [] = [] := rfl

theorem rstripLost_cons (b : Bool) (t : List Bool) :
    rstripLost (b :: t) = if rstripLost t = [] ∧ b = false then [] else b :: rstripLost t := by
  unfold rstripLost
  rw [List.reverse_cons, List.dropWhile_append]
  by_cases h : (List.dropWhile (fun x => !x) t.reverse) = []
  · cases b <;> simp [h]
  · simp [h]

theorem startsWith_rstripLost (b : Bool) (t : List Bool) (h : rstripLost t ≠ []) :
    startsWith b (rstripLost t) = startsWith b t := by
  cases t with
  | nil => rfl
  | cons a t =>
    rw [rstripLost_cons] at h ⊢
    split at h
    · exact absurd rfl h
    · rename_i hc
      rw [if_neg hc]
      simp [startsWith]

theorem startsWith_true_of_rstripLost_nil (t : List Bool) (h : rstripLost t = []) :
    startsWith true t = 0 := by
  cases t with
  | nil => rfl
  | cons a t =>
    rw [rstripLost_cons] at h
    split at h
    · rename_i hc; rw [hc.2]; simp
    · simp at h

theorem cnt_false_true_eq (t : List Bool) :
    cnt false true t = cnt true false (rstripLost t) := by
  induction t with
  | nil => simp [rstripLost_nil]
  | cons b t ih =>
    have e : ((cnt false true (b :: t) : Nat) : Int) = (cnt true false (rstripLost (b :: t)) : Nat) := by
      rw [rstripLost_cons]
      cases b
      · rw [cnt_false_cons_false]
        by_cases h : rstripLost t = []
        · have h0 := startsWith_true_of_rstripLost_nil t h
          rw [h] at ih
          simp [h, h0, ih]
        · have h1 := startsWith_rstripLost true t h
          have h2 := startsWith_rstripLost false t h
          have h3 : startsWith true t + startsWith false t = 1 := by
            rcases t with _ | ⟨a, t⟩
            · exact absurd rfl h
            · cases a <;> simp
          simp only [h, false_and, if_false, cnt_true_cons_false, h2, ih, b2i_true]
          omega
      · simp [cnt_false_cons_true, cnt_true_cons_true, ih]
    exact_mod_cast e

theorem cnt_false_false_dropWhile (l : List Bool) :
    cnt false false l = cnt false false (l.dropWhile (!·)) := by
  induction l with
  | nil => rfl
  | cons b t ih =>
    cases b
    · have e : ((cnt false false (false :: t) : Nat) : Int) = (cnt false false t : Nat) := by
        rw [cnt_false_cons_false]; simp
      have e' : cnt false false (false :: t) = cnt false false t := by exact_mod_cast e
      simp [e', ih]
    · simp

/-- Ignoring the runs that touch an end = counting all runs after stripping
    the lost positions at both ends. -/
theorem lostRuns_false_eq_trim (l : List Bool) :
    lostRuns false l = lostRuns true (trimLost l) := by
  rw [lostRuns_eq_cnt, lostRuns_eq_cnt, cnt_false_false_dropWhile]
  unfold trimLost
  rcases h : l.dropWhile (!·) with _ | ⟨b, t⟩
  · simp [rstripLost_nil]
  · have hb : b = true := by
      have := List.head_dropWhile_not (p := (!·)) (l := l) (by rw [h]; simp)
      simpa [h] using this
    subst hb
    rw [cnt_false_cons_true, cnt_false_true_eq, rstripLost_cons]
    simp [cnt_true_cons_true]

section
variable {α : Type} (r : α → α → Bool)

theorem splitBy_loop_acc (l : List α) : ∀ (a : α) (g : List α) (gs : List (List α)),
    List.splitBy.loop r l a g gs = gs.reverse ++ List.splitBy.loop r l a g [] := by
  induction l with
  | nil => intro a g gs; simp [List.splitBy.loop]
  | cons x xs ih =>
    intro a g gs
    unfold List.splitBy.loop
    cases r a x
    · simp only
      rw [ih x [] ((a :: g).reverse :: gs), ih x [] [(a :: g).reverse]]
      simp
    · simp only
      exact ih x (a :: g) gs

theorem splitBy_loop_group (l : List α) : ∀ (a : α),
    ∃ hd tl, ∀ g, List.splitBy.loop r l a g [] = (g.reverse ++ a :: hd) :: tl := by
  induction l with
  | nil => intro a; exact ⟨[], [], fun g => by simp [List.splitBy.loop]⟩
  | cons x xs ih =>
    intro a
    obtain ⟨hd, tl, h⟩ := ih x
    cases hr : r a x
    · refine ⟨[], (x :: hd) :: tl, fun g => ?_⟩
      unfold List.splitBy.loop
      simp only [hr]
      rw [splitBy_loop_acc, h []]
      simp
    · refine ⟨x :: hd, tl, fun g => ?_⟩
      unfold List.splitBy.loop
      simp only [hr]
      rw [h (a :: g)]
      simp

theorem splitBy_cons_cons (a b : α) (t : List α) :
    ∃ hd tl, List.splitBy r (b :: t) = (b :: hd) :: tl ∧
      List.splitBy r (a :: b :: t) =
        if r a b then (a :: b :: hd) :: tl else [a] :: (b :: hd) :: tl := by
  obtain ⟨hd, tl, h⟩ := splitBy_loop_group r t b
  refine ⟨hd, tl, ?_, ?_⟩
  · have := h []
    simpa [List.splitBy] using this
  · unfold List.splitBy List.splitBy.loop
    cases hr : r a b
    · simp only [hr]
      rw [splitBy_loop_acc, h []]
      simp
    · simp only [hr]
      rw [h [a]]
      simp
end

theorem lostGroups_eq (l : List Bool) : lostGroups l = cnt true false l := by
  induction l with
  | nil => simp [lostGroups, List.splitBy]
  | cons a t ih =>
    cases t with
    | nil => cases a <;> simp [lostGroups, List.splitBy, List.splitBy.loop, cnt_cons]
    | cons b t =>
      obtain ⟨hd, tl, h1, h2⟩ := splitBy_cons_cons (· == ·) a b t
      unfold lostGroups at ih ⊢
      rw [h1] at ih
      rw [h2, cnt_cons, cnt_true_seen _ false, ← ih]
      cases a <;> cases b <;> simp <;> omega

/-- The two formulations of the specification agree. -/
theorem lostRuns_eq_groups (edges : Bool) (l : List Bool) :
    lostRuns edges l = lostGroups (if edges then l else trimLost l) := by
  cases edges
  · rw [lostRuns_false_eq_trim, lostRuns_eq_cnt, lostGroups_eq]; rfl
  · rw [lostRuns_eq_cnt, lostGroups_eq]; rfl

end SR.SubseqProofs
