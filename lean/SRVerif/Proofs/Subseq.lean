/-
  Helper lemmas for property C18 (`superrec2.utils.subsequences`).

  Part A: the counting specification `lostRuns` satisfies a recursion, and
          the state machine of the loop of `subseq_segment_dist` computes it.
  Part B: the loop over the two masks is that state machine on the keep/lost
          pattern; the early exits are exactly non-containment.
-/
import SRVerif.Spec.Subseq
import SRVerif.Model.Subseq

namespace SR.SubseqProofs
open SR.SubseqSpec

/-! ## Part A — runs of lost positions -/

/-- Generalisation of `lostRuns` with a flag "a kept position has already been seen". -/
def cnt (edges seen : Bool) (l : List Bool) : Nat :=
  (List.range l.length).countP fun i =>
    l[i]? == some false &&
      (if edges then l[i + 1]? != some false
       else l[i + 1]? == some true && (seen || (l.take i).contains true))

theorem lostRuns_eq_cnt (edges : Bool) (l : List Bool) : lostRuns edges l = cnt edges false l := by
  unfold lostRuns cnt
  congr 1

@[simp] theorem cnt_nil (edges seen : Bool) : cnt edges seen [] = 0 := by simp [cnt]

theorem cnt_cons (edges seen a : Bool) (t : List Bool) :
    cnt edges seen (a :: t) =
      (if a = false ∧ (if edges then t.head? ≠ some false else t.head? = some true ∧ seen = true)
        then 1 else 0) + cnt edges (seen || a) t := by
  unfold cnt
  rw [List.length_cons, List.range_succ_eq_map, List.countP_cons, List.countP_map, Nat.add_comm]
  congr 1
  · cases a <;> cases edges <;> cases seen <;> cases t <;> simp
  · congr 1
    funext i
    cases a <;> cases edges <;> cases seen <;> simp [Function.comp]

/-- With `edges = true` the flag is irrelevant. -/
theorem cnt_true_seen (s s' : Bool) (l : List Bool) : cnt true s l = cnt true s' l := by
  unfold cnt; simp

/-- `1` if the list starts with `b`, else `0`. -/
def startsWith (b : Bool) (l : List Bool) : Int := if l.head? = some b then 1 else 0

def b2i (b : Bool) : Int := if b then 1 else 0
@[simp] theorem b2i_true : b2i true = 1 := rfl
@[simp] theorem b2i_false : b2i false = 0 := rfl

theorem cnt_true_cons_true (s : Bool) (t : List Bool) :
    cnt true s (true :: t) = cnt true false t := by
  rw [cnt_cons]; simp [cnt_true_seen _ false]

theorem cnt_true_cons_false (s : Bool) (t : List Bool) :
    (cnt true s (false :: t) : Int) = 1 - startsWith false t + cnt true false t := by
  rw [cnt_cons, cnt_true_seen _ false]
  unfold startsWith
  by_cases h : t.head? = some false <;> simp [h]

theorem cnt_false_cons_true (s : Bool) (t : List Bool) :
    cnt false s (true :: t) = cnt false true t := by
  rw [cnt_cons]; simp

theorem cnt_false_cons_false (s : Bool) (t : List Bool) :
    (cnt false s (false :: t) : Int) = b2i s * startsWith true t + cnt false s t := by
  rw [cnt_cons]
  unfold startsWith
  by_cases h : t.head? = some true <;> cases s <;> simp [h]

/-- The loop of `subseq_segment_dist` seen on the keep/lost pattern
    (state: `in_segm`, `dist`). -/
def walk : Bool → Int → List Bool → Int × Bool
  | s, d, [] => (d, s)
  | _, d, true :: t => walk false d t
  | s, d, false :: t => walk true (if s then d else d + 1) t

@[simp] theorem walk_nil (s : Bool) (d : Int) : walk s d [] = (d, s) := rfl
@[simp] theorem walk_cons_true (s : Bool) (d : Int) (t : List Bool) :
    walk s d (true :: t) = walk false d t := rfl
@[simp] theorem walk_cons_false_t (d : Int) (t : List Bool) :
    walk true d (false :: t) = walk true d t := rfl
@[simp] theorem walk_cons_false_f (d : Int) (t : List Bool) :
    walk false d (false :: t) = walk true (d + 1) t := rfl

/-- Result of the function given the pattern (final `dist -= 1` included). -/
def walkResult (edges : Bool) (l : List Bool) : Int :=
  if (walk (!edges) 0 l).2 && !edges then (walk (!edges) 0 l).1 - 1 else (walk (!edges) 0 l).1

@[simp] theorem startsWith_nil (b : Bool) : startsWith b [] = 0 := rfl
@[simp] theorem startsWith_cons_self (b : Bool) (t : List Bool) : startsWith b (b :: t) = 1 := by
  simp [startsWith]
@[simp] theorem startsWith_true_false (t : List Bool) : startsWith true (false :: t) = 0 := by
  simp [startsWith]
@[simp] theorem startsWith_false_true (t : List Bool) : startsWith false (true :: t) = 0 := by
  simp [startsWith]

theorem walk_edges (l : List Bool) : ∀ d : Int,
    (walk false d l).1 = d + cnt true false l ∧
    (walk true d l).1 + startsWith false l = d + cnt true false l := by
  induction l with
  | nil => intro d; simp
  | cons b t ih =>
    intro d
    cases b
    · have h1 := (ih (d + 1)).2
      have h2 := (ih d).2
      rw [cnt_true_cons_false]
      simp only [walk_cons_false_f, walk_cons_false_t, startsWith_cons_self]
      omega
    · have h1 := (ih d).1
      rw [cnt_true_cons_true]
      simp only [walk_cons_true, startsWith_false_true]
      omega

theorem walk_inner (l : List Bool) : ∀ d : Int,
    ((walk false d l).1 - b2i (walk false d l).2 = d + cnt false true l) ∧
    (1 + (walk true d l).1 - b2i (walk true d l).2 = d + startsWith true l + cnt false true l) := by
  induction l with
  | nil => intro d; simp; omega
  | cons b t ih =>
    intro d
    cases b
    · have h1 := (ih (d + 1)).2
      have h2 := (ih d).2
      rw [cnt_false_cons_false]
      simp only [walk_cons_false_f, walk_cons_false_t, startsWith_true_false, b2i_true]
      omega
    · have h1 := (ih d).1
      rw [cnt_false_cons_true]
      simp only [walk_cons_true, startsWith_cons_self]
      omega

theorem walk_inner_unseen (l : List Bool) (h : true ∈ l) : ∀ d : Int,
    (walk true d l).1 - b2i (walk true d l).2 = d + cnt false false l := by
  induction l with
  | nil => simp at h
  | cons b t ih =>
    intro d
    cases b
    · have ht : true ∈ t := by simpa using h
      have := ih ht d
      rw [cnt_false_cons_false]
      simp only [walk_cons_false_t, b2i_false]
      omega
    · have := (walk_inner t d).1
      rw [cnt_false_cons_true]
      simpa using this

theorem walk_all_lost (l : List Bool) (h : true ∉ l) (d : Int) : walk true d l = (d, true) := by
  induction l with
  | nil => rfl
  | cons b t ih =>
    cases b
    · simp at h
      simp [ih h]
    · simp at h

/-- The state machine computes the specified number of runs whenever some
    position is kept. -/
theorem walkResult_eq (edges : Bool) (l : List Bool) (h : true ∈ l) :
    walkResult edges l = (lostRuns edges l : Nat) := by
  rw [lostRuns_eq_cnt]
  cases edges
  · have := walk_inner_unseen l h 0
    unfold walkResult
    simp only [Bool.not_false, Bool.and_true]
    cases hs : (walk true 0 l).2 <;> simp [hs] at this ⊢ <;> omega
  · have := (walk_edges l 0).1
    simp [walkResult, this]

theorem cnt_true_all_lost (l : List Bool) (h : true ∉ l) :
    cnt true false l = if l = [] then 0 else 1 := by
  induction l with
  | nil => simp
  | cons b t ih =>
    cases b
    · have ht : true ∉ t := by simpa using h
      have := ih ht
      rw [cnt_cons, cnt_true_seen _ false, this]
      rcases t with _ | ⟨b', t'⟩
      · simp
      · have hb : b' = false := by
          cases b'
          · rfl
          · simp at ht
        subst hb
        simp
    · simp at h

/-- No kept position, ends included: one run unless the pattern is empty. -/
theorem walkResult_all_lost_edges (l : List Bool) (h : true ∉ l) :
    walkResult true l = if l = [] then 0 else 1 := by
  have := (walk_edges l 0).1
  simp only [walkResult, Bool.not_true, Bool.and_false]
  simp [this, cnt_true_all_lost l h]
  split <;> rfl

/-- No kept position, ends excluded: the code returns `-1`. -/
theorem walkResult_all_lost_inner (l : List Bool) (h : true ∉ l) :
    walkResult false l = -1 := by
  simp [walkResult, walk_all_lost l h]

/-! ## Part B — the loop over the masks -/

/-- Keep/lost pattern obtained by halving both masks `n` times. -/
def pat : Nat → Nat → Nat → List Bool
  | 0, _, _ => []
  | n + 1, c, p =>
    if p % 2 = 1 then decide (c % 2 = 1) :: pat n (c / 2) (p / 2) else pat n (c / 2) (p / 2)

/-- Some of the `n` low positions has the child bit set and the parent bit clear. -/
def bad : Nat → Nat → Nat → Bool
  | 0, _, _ => false
  | n + 1, c, p => (decide (c % 2 = 1) && !decide (p % 2 = 1)) || bad n (c / 2) (p / 2)

theorem segLoop_eq (n : Nat) : ∀ (c p : Nat) (s : Bool) (d : Int),
    (segLoop n { child := c, parent := p, inSegm := s, dist := d }).map
        (fun st => (st.dist, st.inSegm))
      = if bad n c p then none else some (walk s d (pat n c p)) := by
  induction n with
  | zero => intro c p s d; simp [segLoop, bad, pat]
  | succ n ih =>
    intro c p s d
    unfold segLoop segStep
    by_cases hc : c % 2 = 1 <;> by_cases hp : p % 2 = 1 <;> cases s <;>
      simp [hc, hp, bad, pat, ih]

theorem pat_eq_filter (n : Nat) : ∀ c p : Nat,
    ((List.range n).filter fun i => p.testBit i).map (fun i => c.testBit i) = pat n c p := by
  induction n with
  | zero => intro c p; simp [pat]
  | succ n ih =>
    intro c p
    rw [List.range_succ_eq_map, List.filter_cons, List.filter_map]
    have h := ih (c / 2) (p / 2)
    by_cases hp : p % 2 = 1
    · simp [Nat.testBit_zero, hp, pat, ← h, Function.comp_def, Nat.testBit_succ]
    · simp [Nat.testBit_zero, hp, pat, ← h, Function.comp_def, Nat.testBit_succ]

theorem bad_iff (n : Nat) : ∀ c p : Nat,
    bad n c p = true ↔ ∃ i, i < n ∧ c.testBit i = true ∧ p.testBit i = false := by
  induction n with
  | zero => intro c p; simp [bad]
  | succ n ih =>
    intro c p
    simp only [bad, Bool.or_eq_true, Bool.and_eq_true, ih, decide_eq_true_eq,
      Bool.not_eq_true', decide_eq_false_iff_not]
    constructor
    · rintro (⟨h1, h2⟩ | ⟨i, hi, h1, h2⟩)
      · exact ⟨0, by omega, by simp [Nat.testBit_zero, h1], by simp [Nat.testBit_zero, h2]⟩
      · exact ⟨i + 1, by omega, by simpa [Nat.testBit_succ] using h1,
          by simpa [Nat.testBit_succ] using h2⟩
    · rintro ⟨i, hi, h1, h2⟩
      cases i with
      | zero =>
        left
        simpa [Nat.testBit_zero] using And.intro h1 h2
      | succ i =>
        right
        exact ⟨i, by omega, by simpa [Nat.testBit_succ] using h1,
          by simpa [Nat.testBit_succ] using h2⟩

@[simp] theorem bitLength_zero : bitLength 0 = 0 := by simp [bitLength]

theorem bitLength_eq (n : Nat) (h : n ≠ 0) : bitLength n = n.log2 + 1 := by
  induction n using Nat.strongRecOn with
  | ind n ih =>
    cases n with
    | zero => exact absurd rfl h
    | succ m =>
      rw [bitLength, Nat.log2_def]
      by_cases h2 : 2 ≤ m + 1
      · have : (m + 1) / 2 ≠ 0 := by omega
        rw [ih _ (by omega) this]
        simp [h2]; omega
      · have : (m + 1) / 2 = 0 := by omega
        simp [this, h2]

theorem lt_two_pow_bitLength (n : Nat) : n < 2 ^ bitLength n := by
  by_cases h : n = 0
  · subst h; simp
  · rw [bitLength_eq n h]; exact Nat.lt_log2_self

theorem testBit_false_of_bitLength_le {n i : Nat} (h : bitLength n ≤ i) : n.testBit i = false :=
  Nat.testBit_lt_two_pow
    (Nat.lt_of_lt_of_le (lt_two_pow_bitLength n) (Nat.pow_le_pow_right (by omega) h))

theorem lt_bitLength_of_testBit {n i : Nat} (h : n.testBit i = true) : i < bitLength n := by
  apply Nat.lt_of_not_le
  intro hle
  simp [testBit_false_of_bitLength_le hle] at h

theorem testBit_top {n : Nat} (h : n ≠ 0) : n.testBit (bitLength n - 1) = true := by
  rw [bitLength_eq n h]; exact Nat.testBit_log2 h

theorem bitLength_pos {n : Nat} (h : n ≠ 0) : 0 < bitLength n := by
  rw [bitLength_eq n h]; omega

theorem containedB_iff (c p : Nat) : containedB c p = true ↔ Contained c p := by
  unfold containedB Contained
  simp only [List.all_eq_true, List.mem_range, Bool.or_eq_true, Bool.not_eq_true']
  constructor
  · intro h i hi
    have hlt : i < bitLength c := lt_bitLength_of_testBit hi
    have hc : c ≠ 0 := by rintro rfl; simp at hi
    rw [bitLength_eq c hc] at hlt
    rcases h i hlt with h' | h'
    · simp [h'] at hi
    · exact h'
  · intro h i _
    cases hi : c.testBit i
    · left; rfl
    · right; exact h i hi

instance (c p : Nat) : Decidable (Contained c p) :=
  decidable_of_iff _ (containedB_iff c p)

theorem contained_iff_loop (c p : Nat) :
    Contained c p ↔ ¬ bitLength p < bitLength c ∧ bad (bitLength p) c p = false := by
  constructor
  · intro h
    constructor
    · intro hlt
      have hc : c ≠ 0 := by rintro rfl; simp at hlt
      have := h _ (testBit_top hc)
      rw [testBit_false_of_bitLength_le (by omega)] at this
      exact absurd this (by simp)
    · cases hb : bad (bitLength p) c p
      · rfl
      · obtain ⟨i, _, h1, h2⟩ := (bad_iff _ _ _).1 hb
        rw [h i h1] at h2
        exact absurd h2 (by simp)
  · rintro ⟨hlen, hb⟩ i hi
    have hlt : i < bitLength p := Nat.lt_of_lt_of_le (lt_bitLength_of_testBit hi) (by omega)
    cases hp : p.testBit i
    · have : bad (bitLength p) c p = true := (bad_iff _ _ _).2 ⟨i, hlt, hi, hp⟩
      rw [hb] at this
      exact absurd this (by simp)
    · rfl

theorem keptPattern_eq_pat (c p : Nat) : keptPattern c p = pat (bitLength p) c p := by
  unfold keptPattern
  by_cases h : p = 0
  · subst h; simp [pat]
  · rw [bitLength_eq p h, pat_eq_filter]

theorem mem_keptPattern_of_contained {c p : Nat} (hc : c ≠ 0) (h : Contained c p) :
    true ∈ keptPattern c p := by
  unfold keptPattern
  have h1 := testBit_top hc
  have h2 := h _ h1
  have hp : p ≠ 0 := by rintro rfl; simp at h2
  have := lt_bitLength_of_testBit h2
  rw [bitLength_eq p hp] at this
  simp only [List.mem_map, List.mem_filter, List.mem_range]
  exact ⟨_, ⟨this, h2⟩, h1⟩

theorem not_mem_keptPattern_zero (p : Nat) : true ∉ keptPattern 0 p := by
  simp [keptPattern]

theorem keptPattern_zero_eq_nil_iff (p : Nat) : keptPattern 0 p = [] ↔ p = 0 := by
  constructor
  · intro h
    apply Classical.byContradiction
    intro hp
    have h1 := testBit_top hp
    have hmem : false ∈ keptPattern 0 p := by
      unfold keptPattern
      simp only [List.mem_map, List.mem_filter, List.mem_range]
      refine ⟨bitLength p - 1, ⟨?_, h1⟩, by simp⟩
      rw [bitLength_eq p hp]; omega
    rw [h] at hmem
    simp at hmem
  · rintro rfl
    simp [keptPattern]

/-- The function in terms of the state machine on the pattern. -/
theorem subseqSegmentDist_eq (c p : Nat) (e : Bool) :
    subseqSegmentDist c p e =
      if Contained c p then walkResult e (keptPattern c p) else -1 := by
  unfold subseqSegmentDist
  have hC := contained_iff_loop c p
  rw [keptPattern_eq_pat]
  by_cases hlen : bitLength p < bitLength c
  · have : ¬ Contained c p := fun h => (hC.1 h).1 hlen
    simp [hlen, this]
  · have hloop := segLoop_eq (bitLength p) c p (!e) 0
    simp only [hlen, if_false]
    cases hb : bad (bitLength p) c p
    · have hc : Contained c p := hC.2 ⟨hlen, hb⟩
      rw [hb] at hloop
      simp only [Bool.false_eq_true, if_false] at hloop
      cases hs : segLoop (bitLength p) { child := c, parent := p, inSegm := !e, dist := 0 } with
      | none => rw [hs] at hloop; simp at hloop
      | some st =>
        rw [hs] at hloop
        simp only [Option.map_some, Option.some.injEq] at hloop
        simp only [hc, if_true, walkResult, ← hloop]
    · have hc : ¬ Contained c p := fun h => by
        have := (hC.1 h).2
        rw [hb] at this
        exact absurd this (by simp)
      rw [hb] at hloop
      simp only [if_true, Option.map_eq_none_iff] at hloop
      simp [hloop, hc]

end SR.SubseqProofs
