/-
  Walks through a cycle: a vertex reachable from `i` that lies on a closed
  walk is reached by two different walks.
-/
import SRVerif.Proofs.FindCycleAlg

namespace SR.Toposort

/-- Following a chain of edges extends a walk. -/
theorem walk_extend {g : Graph} {i : Nat} : ∀ (l : List Nat) (v z : Nat) (w : List Nat),
    Chain (Arc g) (v :: l ++ [z]) → WalkTo g i v w →
    ∃ w', WalkTo g i z w' ∧ w.length < w'.length
  | [], _, z, w, h, hw => ⟨z :: w, .snoc hw h.1, by simp⟩
  | b :: l, _, z, w, h, hw => by
    obtain ⟨w', hw', hlen⟩ := walk_extend l b z (b :: w) h.2 (.snoc hw h.1)
    exact ⟨w', hw', by simp at hlen; omega⟩

/-- A closed walk can be entered at any of its vertices. -/
theorem cycle_rotate {g : Graph} {c : List Nat} (hc : IsCycle g c) {v : Nat} (hv : v ∈ c) :
    ∃ l, Chain (Arc g) (v :: l ++ [v]) := by
  cases c with
  | nil => exact absurd hc (by simp [IsCycle])
  | cons a t =>
    obtain ⟨l₁, l₂, e⟩ := List.append_of_mem hv
    cases l₁ with
    | nil =>
      simp only [List.nil_append, List.cons.injEq] at e
      obtain ⟨e1, e2⟩ := e
      subst e1; subst e2
      exact ⟨_, hc⟩
    | cons a' l₁ =>
      simp only [List.cons_append, List.cons.injEq] at e
      obtain ⟨e1, e2⟩ := e
      subst e1; subst e2
      -- hc : Chain (a :: (l₁ ++ v :: l₂) ++ [a])
      have h1 : Chain (Arc g) ((a :: l₁) ++ (v :: l₂ ++ [a])) := by
        have : (a :: (l₁ ++ v :: l₂) ++ [a]) = (a :: l₁) ++ (v :: l₂ ++ [a]) := by simp
        rw [← this]; exact hc
      have hsuf : Chain (Arc g) (v :: l₂ ++ [a]) := chain_append_right _ _ h1
      have hpre : Chain (Arc g) (a :: l₁ ++ [v]) := by
        have : (a :: l₁) ++ (v :: l₂ ++ [a]) = (a :: l₁ ++ [v]) ++ (l₂ ++ [a]) := by simp
        rw [this] at h1
        exact chain_append_left _ _ h1
      -- glue: v :: l₂ ++ [a] then a :: l₁ ++ [v]
      refine ⟨l₂ ++ a :: l₁, ?_⟩
      have e2 : v :: (l₂ ++ a :: l₁) ++ [v] = (v :: l₂) ++ (a :: l₁ ++ [v]) := by simp
      rw [e2]
      clear h1 hc hv e2
      -- general gluing of two chains sharing the middle vertex
      have glue : ∀ (x : List Nat), Chain (Arc g) (x ++ [a]) → Chain (Arc g) (x ++ (a :: l₁ ++ [v])) := by
        intro x
        induction x with
        | nil => intro _; exact hpre
        | cons y x ih =>
          intro h
          cases x with
          | nil => exact ⟨h.1, hpre⟩
          | cons y' x => exact ⟨h.1, ih h.2⟩
      exact glue (v :: l₂) hsuf

/-- If walks from `i` are unique, no closed walk passes through a vertex
    reachable from `i`. -/
theorem no_reachable_cycle {g : Graph} {i : Nat} (hu : UniqueWalks g i) {c : List Nat}
    (hc : IsCycle g c) {v : Nat} (hv : v ∈ c) {w : List Nat} (hw : WalkTo g i v w) : False := by
  obtain ⟨l, hl⟩ := cycle_rotate hc hv
  obtain ⟨w', hw', hlen⟩ := walk_extend l v v w hl hw
  have := hu v w w' hw hw'
  rw [this] at hlen
  exact Nat.lt_irrefl _ hlen

end SR.Toposort
