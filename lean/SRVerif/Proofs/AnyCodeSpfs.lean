/-
  `_spfs` (code-structured model `Model/SpfsCode.lean`) under `RetentionPolicy.ANY`
  against the same model under `RetentionPolicy.ALL`.

  * `CellsAL` / `TabAL`   the dicts of the two runs: same keys in the same order, the
        entries related by `AnyCode.AnySub` (same value, the ANY tag is one of the ALL
        tags, present when ALL has one);
  * `role_anySub`      the five role entries are offered THE SAME candidates in the two
        runs (they depend on the keys and VALUES of the child cells only);
  * `computeTable_al`  the two tables are related, object node by object node;
  * `decode_sub`       every output decoded from the ANY table is decoded from the ALL
        table (same object node, species, mask);
  * `decode_ne_nil`    an instantiated cell decodes to at least one output (every
        tag-retaining policy);
  * `results_rel`      the result entries.
-/
import SRVerif.Proofs.AnyCodeEntry
import SRVerif.Proofs.SpfsCodeTop

namespace SR.SpfsCode

open Cost Path AnyCode

/-! ### Related dicts -/

inductive CellsAL : List TCell → List TCell → Prop
  | nil : CellsAL [] []
  | cons {a l : TCell} {as ls : List TCell} : a.sp = l.sp → a.syn = l.syn →
      AnySub .min a.entry l.entry → CellsAL as ls → CellsAL (a :: as) (l :: ls)

theorem CellsAL.append {a l a' l' : List TCell} (h : CellsAL a l) (h' : CellsAL a' l') :
    CellsAL (a ++ a') (l ++ l') := by
  induction h with
  | nil => exact h'
  | cons h1 h2 h3 _ ih => exact .cons h1 h2 h3 ih

theorem CellsAL.filter (p : Path → Nat → Bool) {a l : List TCell} (h : CellsAL a l) :
    CellsAL (a.filter fun d => p d.sp d.syn) (l.filter fun d => p d.sp d.syn) := by
  induction h with
  | nil => exact .nil
  | cons h1 h2 h3 _ ih =>
    simp only [List.filter_cons, h1, h2]
    split
    · exact .cons h1 h2 h3 ih
    · exact ih

theorem CellsAL.flatMap {α : Type} (xs : List α) (f g : α → List TCell)
    (h : ∀ x ∈ xs, CellsAL (f x) (g x)) : CellsAL (xs.flatMap f) (xs.flatMap g) := by
  induction xs with
  | nil => exact .nil
  | cons x xs ih =>
    simp only [List.flatMap_cons]
    exact (h x (by simp)).append (ih fun y hy => h y (by simp [hy]))

theorem CellsAL.childCells (S : RTree) {a l : List TCell} (h : CellsAL a l) :
    CellsAL (childCells S a) (childCells S l) :=
  CellsAL.flatMap _ _ _ fun x _ => h.filter (fun sp _ => sp == x)

/-- What `table[obj][s][m]` reads in the two runs. -/
theorem lookup_al {a l : List TCell} (h : CellsAL a l) (sp : Path) (syn : Nat) :
    (lookup a sp syn = none ∧ lookup l sp syn = none) ∨
    ∃ eA eL, lookup a sp syn = some eA ∧ lookup l sp syn = some eL ∧ AnySub .min eA eL := by
  induction h with
  | nil => exact Or.inl ⟨rfl, rfl⟩
  | cons h1 h2 h3 _ ih =>
    simp only [lookup, List.find?_cons, h1, h2]
    split
    · exact Or.inr ⟨_, _, rfl, rfl, h3⟩
    · exact ih

theorem lookup_al_isNone {a l : List TCell} (h : CellsAL a l) (sp : Path) (syn : Nat) :
    lookup a sp syn = none ↔ lookup l sp syn = none := by
  rcases lookup_al h sp syn with ⟨h1, h2⟩ | ⟨eA, eL, h1, h2, _⟩ <;> simp [h1, h2]

theorem lookup_al_value {a l : List TCell} (h : CellsAL a l) (sp : Path) (syn : Nat) :
    Cell.value .min (lookup a sp syn) = Cell.value .min (lookup l sp syn) := by
  rcases lookup_al h sp syn with ⟨h1, h2⟩ | ⟨eA, eL, h1, h2, h3⟩
  · rw [h1, h2]
  · rw [h1, h2]; exact h3.value

theorem lookup_al_infos {a l : List TCell} (h : CellsAL a l) (sp : Path) (syn : Nat) :
    ∀ t ∈ Cell.infos (lookup a sp syn), t ∈ Cell.infos (lookup l sp syn) := by
  rcases lookup_al h sp syn with ⟨h1, h2⟩ | ⟨eA, eL, h1, h2, h3⟩
  · rw [h1, h2]; exact fun _ h => h
  · rw [h1, h2]; exact h3.sub

/-! ### The role entries -/

section roles

variable (c : Costs) (S : RTree) (s : Path) (m : Nat)

theorem cv_congr (ρ : RoleId) {a l : TCell} (h1 : a.sp = l.sp) (h2 : a.syn = l.syn)
    (h3 : a.entry.value = l.entry.value) : cv c S s m ρ a = cv c S s m ρ l := by
  unfold cv; rw [h1, h2, h3]

theorem codeCands_al (ρ : RoleId) {a l : List TCell} (h : CellsAL a l) :
    codeCands c S s m ρ a = codeCands c S s m ρ l := by
  induction h with
  | nil => rfl
  | cons h1 h2 h3 _ ih =>
    simp only [codeCands, List.filterMap_cons] at ih ⊢
    rw [cv_congr c S s m ρ h1 h2 h3.value, ih]
    simp only [cellAsg, h1, h2]

theorem choices_invR (ret : Retain) (ρ : RoleId) (cells : List TCell) :
    Entry.Inv .min ret (codeCands c S s m ρ (childCells S cells))
      ((choices c S ret s m cells).get ρ) := by
  unfold choices
  rw [foldl_visit_get]
  have := Entry.inv_update (Entry.inv_init (τ := OAsg) .min ret)
    (codeCands c S s m ρ (childCells S cells))
  cases ρ <;> simpa [Choices.init, Choices.get] using this

/-- **The role entries of the two runs**: offered the same candidates. -/
theorem role_anySub (ρ : RoleId) {a l : List TCell} (h : CellsAL a l) :
    AnySub .min ((choices c S .any s m a).get ρ) ((choices c S .all s m l).get ρ) := by
  have iA := choices_invR c S s m .any ρ a
  have iL := choices_invR c S s m .all ρ l
  rw [codeCands_al c S s m ρ (h.childCells S)] at iA
  exact Inv.anySub iA iL (BRel.refl _)

/-- The tags of a role entry are keys of child cells. -/
theorem role_tag_cell (ret : Retain) (ρ : RoleId) (cells : List TCell) :
    ∀ t ∈ ((choices c S ret s m cells).get ρ).infos, ∃ cell ∈ cells, t = (cell.sp, cell.syn) := by
  intro t ht
  obtain ⟨x, hx, hi, _⟩ := Inv.sound (choices_invR c S s m ret ρ cells) t ht
  obtain ⟨cell, hc, w, _, rfl⟩ := mem_codeCands.mp hx
  simp only [Option.some.injEq] at hi
  exact ⟨cell, ((mem_childCells S cells cell).mp hc).1, hi.symm⟩

end roles

/-! ### The batch and the cell -/

theorem comb_bRel {A A' B B' : Entry OAsg} (hA : AnySub .min A A') (hB : AnySub .min B B')
    (ev : ExtInt) : BRel (A.combine B (eventComb ev)).cands (A'.combine B' (eventComb ev)).cands :=
  cands_bRel (combine_anySub hA hB (eventComb ev) (fun a b => ev + a + b) Prod.mk
    (fun _ _ _ _ => rfl))

theorem batch_bRel (c : Costs) {s0 s0' s1 s1' : Choices}
    (h0 : ∀ ρ, AnySub .min (s0.get ρ) (s0'.get ρ)) (h1 : ∀ ρ, AnySub .min (s1.get ρ) (s1'.get ρ)) :
    BRel (batch c s0 s1) (batch c s0' s1') := by
  unfold batch
  exact (((((comb_bRel (h0 .left) (h1 .right) _).append (comb_bRel (h0 .right) (h1 .left) _)).append
    (comb_bRel (h0 .cons) (h1 .seg) _)).append (comb_bRel (h0 .seg) (h1 .cons) _)).append
    (comb_bRel (h0 .cons) (h1 .sep) _)).append (comb_bRel (h0 .sep) (h1 .cons) _)

theorem computeEntry_al (c : Costs) (S : RTree) (s : Path) (m : Nat) {L L' R R' : List TCell}
    (hL : CellsAL L L') (hR : CellsAL R R') :
    AnyCode.CellRel .min (computeEntry c S .any s m L R) (computeEntry c S .all s m L' R') :=
  cellRel_update .none
    (batch_bRel c (fun ρ => role_anySub c S s m ρ hL) (fun ρ => role_anySub c S s m ρ hR))

theorem mkCells_al (sp : Path) (syn : Nat) {cA cL : Cell CAsg} (h : AnyCode.CellRel .min cA cL) :
    CellsAL (mkCells sp syn cA) (mkCells sp syn cL) := by
  cases h with
  | none => exact .nil
  | some iA iL hr => exact .cons rfl rfl (Inv.anySub iA iL hr) .nil

/-! ### The two tables -/

inductive TabAL : Tab → Tab → Prop
  | leaf {a l : List TCell} : CellsAL a l → TabAL (.leaf a) (.leaf l)
  | node {a l : List TCell} {la ll ra rl : Tab} : CellsAL a l → TabAL la ll → TabAL ra rl →
      TabAL (.node a la ra) (.node l ll rl)

theorem TabAL.cells {tA tL : Tab} (h : TabAL tA tL) : CellsAL tA.cells tL.cells := by
  cases h <;> assumption

/-- **The tables of the two runs are related**, object node by object node. -/
theorem computeTable_al (c : Costs) (S : RTree) (base : Bool) (order : List Nat) (o : OTree) :
    ∀ isRoot, TabAL (computeTable c S base .any order isRoot o)
      (computeTable c S base .all order isRoot o) := by
  induction o with
  | leaf sp f =>
    intro isRoot
    exact .leaf (mkCells_al _ _ (cellRel_update .none (BRel.refl _)))
  | node l r ihl ihr =>
    intro isRoot
    rw [computeTable_node, computeTable_node]
    refine .node ?_ (ihl false) (ihr false)
    apply CellsAL.flatMap
    intro rootSp _
    apply CellsAL.flatMap
    intro rootSyn _
    exact mkCells_al _ _ (computeEntry_al c S rootSp rootSyn (ihl false).cells (ihr false).cells)

/-- Every output decoded from the ANY table is decoded from the ALL table. -/
theorem decode_sub (order : List Nat) {tA tL : Tab} (h : TabAL tA tL) :
    ∀ sp syn, ∀ sol ∈ decodeTable order tA sp syn, sol ∈ decodeTable order tL sp syn := by
  induction h with
  | leaf hc =>
    intro sp syn sol hsol
    simp only [decodeTable] at hsol ⊢
    rw [← lookup_al_value hc sp syn]; exact hsol
  | node hc _ _ ihl ihr =>
    intro sp syn sol hsol
    rw [mem_decode_node] at hsol ⊢
    obtain ⟨info, hi, ml, hml, mr, hmr, rfl⟩ := hsol
    exact ⟨info, lookup_al_infos hc sp syn info hi, ml, ihl _ _ ml hml, mr, ihr _ _ mr hmr, rfl⟩

theorem lookup_ne_none_of_decode (order : List Nat) (t : Tab) (sp : Path) (syn : Nat)
    (h : decodeTable order t sp syn ≠ []) : lookup t.cells sp syn ≠ none := by
  intro hn
  apply h
  cases t with
  | leaf cells =>
    simp only [Tab.cells] at hn
    simp [decodeTable, hn, Cell.value, ExtInt.isInfinite]
  | node cells l r =>
    simp only [Tab.cells] at hn
    simp [decodeTable, hn, Cell.infos]

/-! ### An instantiated cell decodes to something -/

theorem cands_prov {A B : Entry OAsg} {ev : ExtInt} {x : Cand CAsg}
    (h : x ∈ (A.combine B (eventComb ev)).cands) :
    ∃ t0 ∈ A.infos, ∃ t1 ∈ B.infos, x.info = some (t0, t1) := by
  obtain ⟨t, ht, rfl⟩ := List.mem_map.mp h
  obtain ⟨t0, h0, t1, h1, rfl, _⟩ := combine_sound A B (eventComb ev) (fun a b => ev + a + b)
    Prod.mk (fun _ _ _ _ => rfl) t ht
  exact ⟨t0, h0, t1, h1, rfl⟩

/-- Every candidate written to a cell of an internal node carries a pair of keys of
    cells of the two children. -/
theorem batch_prov (c : Costs) (S : RTree) (ret : Retain) (s : Path) (m : Nat) (L R : List TCell) :
    ∀ x ∈ batch c (choices c S ret s m L) (choices c S ret s m R),
      ∃ t0 t1, x.info = some (t0, t1) ∧ (∃ cell ∈ L, t0 = (cell.sp, cell.syn)) ∧
        (∃ cell ∈ R, t1 = (cell.sp, cell.syn)) := by
  intro x hx
  have key : ∀ (ρ0 ρ1 : RoleId) (ev : ExtInt),
      x ∈ (((choices c S ret s m L).get ρ0).combine ((choices c S ret s m R).get ρ1)
        (eventComb ev)).cands →
      ∃ t0 t1, x.info = some (t0, t1) ∧ (∃ cell ∈ L, t0 = (cell.sp, cell.syn)) ∧
        (∃ cell ∈ R, t1 = (cell.sp, cell.syn)) := by
    intro ρ0 ρ1 ev h
    obtain ⟨t0, h0, t1, h1, hi⟩ := cands_prov h
    exact ⟨t0, t1, hi, role_tag_cell c S s m ret ρ0 L t0 h0, role_tag_cell c S s m ret ρ1 R t1 h1⟩
  simp only [batch, List.mem_append] at hx
  rcases hx with ((((h | h) | h) | h) | h) | h
  · exact key .left .right _ h
  · exact key .right .left _ h
  · exact key .cons .seg _ h
  · exact key .seg .cons _ h
  · exact key .cons .sep _ h
  · exact key .sep .cons _ h

theorem computeEntry_some {c : Costs} {S : RTree} {ret : Retain} {s : Path} {m : Nat}
    {L R : List TCell} {e : Entry CAsg} (h : computeEntry c S ret s m L R = some e) :
    Entry.Inv .min ret (batch c (choices c S ret s m L) (choices c S ret s m R)) e ∧
    ∃ c0 ∈ batch c (choices c S ret s m L) (choices c S ret s m R),
      c0.value.isInfinite = false := by
  unfold computeEntry Cell.update at h
  split at h
  · rename_i hw
    simp only [Option.getD_none, Option.some.injEq] at h
    subst h
    refine ⟨by simpa using Entry.inv_update (Entry.inv_init (τ := CAsg) .min ret) _, ?_⟩
    obtain ⟨c0, hc0, hf⟩ := List.any_eq_true.mp hw
    exact ⟨c0, hc0, by simpa using hf⟩
  · cases h

theorem leafCellR (ret : Retain) (sp : Path) (m : Nat) :
    mkCells sp m (Cell.update .min ret none [⟨.fin 0, none⟩]) =
      [⟨sp, m, { value := .fin 0, infos := [], merge := .min, retain := ret }⟩] := by
  cases ret <;> rfl

/-- **An instantiated cell decodes to at least one output** (policies ANY and ALL). -/
theorem decode_ne_nil (c : Costs) (S : RTree) (base : Bool) (ret : Retain) (hr : ret ≠ .none)
    (order : List Nat) (o : OTree) : ∀ isRoot sp syn,
    lookup (computeTable c S base ret order isRoot o).cells sp syn ≠ none →
    decodeTable order (computeTable c S base ret order isRoot o) sp syn ≠ [] := by
  induction o with
  | leaf sp0 f =>
    intro isRoot sp syn h
    obtain ⟨e, he⟩ := Option.ne_none_iff_exists'.mp h
    have hcells : computeTable c S base ret order isRoot (.leaf sp0 f) =
        .leaf [⟨sp0, maskFromSubseq f order,
          { value := .fin 0, infos := [], merge := .min, retain := ret }⟩] := by
      simp only [computeTable, leafCellR]
    rw [hcells] at he ⊢
    obtain ⟨cc, hcc, _, _, rfl⟩ := lookup_some he
    simp only [Tab.cells, List.mem_singleton] at hcc
    subst hcc
    simp only [Tab.cells] at he
    simp [decodeTable, he, Cell.value, ExtInt.isInfinite]
  | node l r ihl ihr =>
    intro isRoot sp syn h
    obtain ⟨e, he⟩ := Option.ne_none_iff_exists'.mp h
    have hnode := lookup_node c S base order ret isRoot l r sp syn
    rw [he] at hnode
    split at hnode
    swap
    · cases hnode
    obtain ⟨inv, c0, hc0, hfin⟩ := computeEntry_some hnode.symm
    have hprov := batch_prov c S ret sp syn (computeTable c S base ret order false l).cells
      (computeTable c S base ret order false r).cells
    have hmemb : ∀ x, x ∈ batch c (choices c S ret sp syn (computeTable c S base ret order false l).cells)
          (choices c S ret sp syn (computeTable c S base ret order false r).cells) →
        x ∈ batch c (choices c S ret sp syn (computeTable c S base ret order false l).cells)
          (choices c S ret sp syn (computeTable c S base ret order false r).cells) := fun _ h => h
    have htag : ∀ x ∈ batch c (choices c S ret sp syn (computeTable c S base ret order false l).cells)
          (choices c S ret sp syn (computeTable c S base ret order false r).cells),
        x.info.isSome := by
      intro x hx
      obtain ⟨t0, t1, hi, _⟩ := hprov x hx
      simp [hi]
    obtain ⟨t, ht⟩ := List.exists_mem_of_ne_nil _
      (Inv.nonempty_of_tagged inv hr htag (List.ne_nil_of_mem hc0))
    obtain ⟨x, hx, hi, _⟩ := Inv.sound inv t ht
    obtain ⟨t0, t1, hi', ⟨cl, hcl, rfl⟩, ⟨cr, hcr, rfl⟩⟩ := hprov x (hmemb x hx)
    rw [hi] at hi'
    simp only [Option.some.injEq] at hi'
    subst hi'
    have hl : lookup (computeTable c S base ret order false l).cells cl.sp cl.syn ≠ none :=
      fun hn => lookup_none hn cl hcl ⟨rfl, rfl⟩
    have hrr : lookup (computeTable c S base ret order false r).cells cr.sp cr.syn ≠ none :=
      fun hn => lookup_none hn cr hcr ⟨rfl, rfl⟩
    obtain ⟨ml, hml⟩ := List.exists_mem_of_ne_nil _ (ihl false _ _ hl)
    obtain ⟨mr, hmr⟩ := List.exists_mem_of_ne_nil _ (ihr false _ _ hrr)
    apply List.ne_nil_of_mem (a := Sol.node sp ((subseqFromMask syn order).getD []) ml mr)
    rw [computeTable_node, mem_decode_node]
    refine ⟨((cl.sp, cl.syn), (cr.sp, cr.syn)), ?_, ml, hml, mr, hmr, rfl⟩
    show ((cl.sp, cl.syn), (cr.sp, cr.syn)) ∈
      Cell.infos (lookup (computeTable c S base ret order isRoot (.node l r)).cells sp syn)
    rw [he]
    exact ht

/-! ### The result entry -/

/-- The (root order, root species) pairs visited by the loops of `_spfs`. -/
def rootKeys (S : RTree) (orders : List (List Nat)) : List (List Nat × Path) :=
  orders.flatMap fun order => (levelorder S).map fun sp => (order, sp)

/-- The outputs decoded for one (root order, root species). -/
def rootDecode (c : Costs) (S : RTree) (base : Bool) (ret : Retain) (o : OTree)
    (k : List Nat × Path) : List Sol :=
  decodeTable k.1 (computeTable c S base ret k.1 true o) k.2 (subseqComplete k.1)

theorem allOutputs_eq (c : Costs) (S : RTree) (base : Bool) (ret : Retain) (o : OTree)
    (orders : List (List Nat)) :
    allOutputs c S base ret o orders =
      outCands (fun out => (totalCost c .ordered o out).toExt) (rootKeys S orders)
        (rootDecode c S base ret o) := by
  unfold allOutputs outCands rootKeys
  rw [List.flatMap_assoc]
  congr 1
  funext order
  rw [List.flatMap_map]
  rfl

theorem results_inv (c : Costs) (S : RTree) (base : Bool) (ret : Retain) (o : OTree)
    (orders : List (List Nat)) :
    Entry.Inv .min ret
      (outCands (fun out => (totalCost c .ordered o out).toExt) (rootKeys S orders)
        (rootDecode c S base ret o))
      (results c S base ret o orders) := by
  rw [results_eq, allOutputs_eq]
  simpa using Entry.inv_update (Entry.inv_init (τ := Sol) .min ret) _

theorem root_decodings (c : Costs) (S : RTree) (base : Bool) (o : OTree) (k : List Nat × Path) :
    (∀ sol ∈ rootDecode c S base .any o k, sol ∈ rootDecode c S base .all o k) ∧
    (rootDecode c S base .all o k ≠ [] → rootDecode c S base .any o k ≠ []) := by
  have hal := computeTable_al c S base k.1 o true
  refine ⟨decode_sub k.1 hal _ _, fun h => ?_⟩
  apply decode_ne_nil c S base .any (by simp) k.1 o true
  intro hn
  exact lookup_ne_none_of_decode k.1 _ _ _ h ((lookup_al_isNone hal.cells _ _).mp hn)

/-- **The two result entries.** -/
theorem results_rel (c : Costs) (S : RTree) (base : Bool) (o : OTree) (orders : List (List Nat)) :
    (results c S base .any o orders).infos.length ≤ 1 ∧
    ((results c S base .any o orders).infos = [] ↔ (results c S base .all o orders).infos = []) ∧
    ((∀ k ∈ rootKeys S orders, ∀ x ∈ rootDecode c S base .all o k,
        ∀ y ∈ rootDecode c S base .all o k,
        totalCost c .ordered o x = totalCost c .ordered o y) →
      (results c S base .any o orders).value = (results c S base .all o orders).value ∧
      ∀ sol ∈ (results c S base .any o orders).infos,
        sol ∈ (results c S base .all o orders).infos) := by
  obtain ⟨h1, h2, h3⟩ := result_rel (fun out => (totalCost c .ordered o out).toExt)
    (rootKeys S orders) (rootDecode c S base .any o) (rootDecode c S base .all o)
    (fun k _ => (root_decodings c S base o k).1) (fun k _ => (root_decodings c S base o k).2)
    _ _ (results_inv c S base .any o orders) (results_inv c S base .all o orders)
  refine ⟨h1, h2, fun hu => h3 ?_⟩
  intro k hk x hx y hy
  rw [hu k hk x hx y hy]

end SR.SpfsCode
