/-
  The members of `all_trees_from_triples` are pairwise different up to child
  order (different clade sets).
-/
import SRVerif.Proofs.Triples

namespace SR.Tri

open SR SR.DS LTree Spec

/-! ### Clade sets -/

theorem sameSet_iff (a b : List Nat) : sameSet a b = true ↔ ∀ x, x ∈ a ↔ x ∈ b := by
  simp only [sameSet, Bool.and_eq_true, List.all_eq_true, List.contains_iff_mem]
  constructor
  · rintro ⟨h1, h2⟩ x; exact ⟨h1 x, h2 x⟩
  · intro h; exact ⟨fun x hx => (h x).mp hx, fun x hx => (h x).mpr hx⟩

theorem cladesSub_iff (t u : LTree) :
    cladesSub t u = true ↔ ∀ C, C ∈ clades t → ∃ C', C' ∈ clades u ∧ ∀ x, x ∈ C ↔ x ∈ C' := by
  simp only [cladesSub, List.all_eq_true, List.any_eq_true, sameSet_iff]

mutual
  theorem clade_sub_leaves : ∀ (t : LTree) (C : List Nat), C ∈ clades t → ∀ x, x ∈ C → x ∈ t.leaves
    | .leaf a, C, hC, x, hx => by
      simp only [clades, List.mem_singleton] at hC
      subst hC; simpa [leaves] using hx
    | .node cs, C, hC, x, hx => by
      simp only [clades, List.mem_cons] at hC
      rcases hC with rfl | hC
      · exact hx
      · exact cladeL_sub_leaves cs C hC x hx
  theorem cladeL_sub_leaves : ∀ (cs : List LTree) (C : List Nat), C ∈ cladesL cs → ∀ x, x ∈ C → x ∈ leavesL cs
    | [], C, hC, x, hx => by simp [cladesL] at hC
    | c :: cs, C, hC, x, hx => by
      simp only [cladesL, List.mem_append] at hC
      simp only [leavesL, List.mem_append]
      rcases hC with hC | hC
      · exact Or.inl (clade_sub_leaves c C hC x hx)
      · exact Or.inr (cladeL_sub_leaves cs C hC x hx)
end

theorem binary_leaves_ne : ∀ (t : LTree), t.isBinary = true → t.leaves ≠ []
  | .leaf a, _ => by simp [leaves]
  | .node [a, b], h => by
    simp only [isBinary, Bool.and_eq_true] at h
    have := binary_leaves_ne a h.1
    simp [leaves, leavesL, this]
  | .node [], h => by simp [isBinary] at h
  | .node [_], h => by simp [isBinary] at h
  | .node (_ :: _ :: _ :: _), h => by simp [isBinary] at h

theorem binary_clade_ne : ∀ (t : LTree), t.isBinary = true → ∀ C, C ∈ clades t → C ≠ []
  | .leaf a, _, C, hC => by
    simp only [clades, List.mem_singleton] at hC
    subst hC; simp
  | .node [a, b], h, C, hC => by
    have hb := h
    simp only [isBinary, Bool.and_eq_true] at h
    simp only [clades, cladesL, List.append_nil, List.mem_cons, List.mem_append] at hC
    rcases hC with rfl | hC | hC
    · exact binary_leaves_ne (.node [a, b]) hb
    · exact binary_clade_ne a h.1 C hC
    · exact binary_clade_ne b h.2 C hC
  | .node [], h, _, _ => by simp [isBinary] at h
  | .node [_], h, _, _ => by simp [isBinary] at h
  | .node (_ :: _ :: _ :: _), h, _, _ => by simp [isBinary] at h

theorem mem_clades_node2 (a b : LTree) (C : List Nat) :
    C ∈ clades (.node [a, b]) ↔ C = a.leaves ++ b.leaves ∨ C ∈ clades a ∨ C ∈ clades b := by
  simp [clades, cladesL, leavesL]

/-- A non-empty set inside the left child that is a clade of the whole is a
    clade of the left child. -/
theorem clade_in_left {a b : LTree} {C C' : List Nat} (hC' : C' ∈ clades (.node [a, b]))
    (heq : ∀ x, x ∈ C ↔ x ∈ C') (hne : C ≠ []) (hsub : ∀ x, x ∈ C → x ∈ a.leaves)
    (hdis : ∀ x, x ∈ a.leaves → x ∉ b.leaves) (hb : b.leaves ≠ []) : C' ∈ clades a := by
  rcases (mem_clades_node2 a b C').mp hC' with rfl | h | h
  · exfalso
    obtain ⟨y, hy⟩ := List.exists_mem_of_ne_nil _ hb
    have : y ∈ C := (heq y).mpr (List.mem_append.mpr (Or.inr hy))
    exact hdis y (hsub y this) hy
  · exact h
  · exfalso
    obtain ⟨x, hx⟩ := List.exists_mem_of_ne_nil _ hne
    exact hdis x (hsub x hx) (clade_sub_leaves b C' h x ((heq x).mp hx))

theorem clade_in_right {a b : LTree} {C C' : List Nat} (hC' : C' ∈ clades (.node [a, b]))
    (heq : ∀ x, x ∈ C ↔ x ∈ C') (hne : C ≠ []) (hsub : ∀ x, x ∈ C → x ∈ b.leaves)
    (hdis : ∀ x, x ∈ a.leaves → x ∉ b.leaves) (ha : a.leaves ≠ []) : C' ∈ clades b := by
  rcases (mem_clades_node2 a b C').mp hC' with rfl | h | h
  · exfalso
    obtain ⟨y, hy⟩ := List.exists_mem_of_ne_nil _ ha
    have : y ∈ C := (heq y).mpr (List.mem_append.mpr (Or.inl hy))
    exact hdis y hy (hsub y this)
  · exfalso
    obtain ⟨x, hx⟩ := List.exists_mem_of_ne_nil _ hne
    exact hdis x (clade_sub_leaves a C' h x ((heq x).mp hx)) (hsub x hx)
  · exact h

/-- Two-child trees on the same pair of leaf sets: equal clade sets force
    equal clade sets of the children. -/
theorem sameClades_children {a b a' b' : LTree}
    (hA : ∀ x, x ∈ a.leaves ↔ x ∈ a'.leaves) (hB : ∀ x, x ∈ b.leaves ↔ x ∈ b'.leaves)
    (hdis : ∀ x, x ∈ a.leaves → x ∉ b.leaves)
    (ha : a.isBinary = true) (hb : b.isBinary = true) (ha' : a'.isBinary = true) (hb' : b'.isBinary = true)
    (h : sameClades (.node [a, b]) (.node [a', b']) = true) :
    sameClades a a' = true ∧ sameClades b b' = true := by
  simp only [sameClades, Bool.and_eq_true, cladesSub_iff] at h ⊢
  obtain ⟨h1, h2⟩ := h
  have hdis' : ∀ x, x ∈ a'.leaves → x ∉ b'.leaves :=
    fun x hx hx' => hdis x ((hA x).mpr hx) ((hB x).mpr hx')
  refine ⟨⟨?_, ?_⟩, ⟨?_, ?_⟩⟩
  · intro C hC
    obtain ⟨C', hC', heq⟩ := h1 C ((mem_clades_node2 a b C).mpr (Or.inr (Or.inl hC)))
    exact ⟨C', clade_in_left hC' heq (binary_clade_ne a ha C hC)
      (fun x hx => (hA x).mp (clade_sub_leaves a C hC x hx)) hdis' (binary_leaves_ne b' hb'), heq⟩
  · intro C hC
    obtain ⟨C', hC', heq⟩ := h2 C ((mem_clades_node2 a' b' C).mpr (Or.inr (Or.inl hC)))
    exact ⟨C', clade_in_left hC' heq (binary_clade_ne a' ha' C hC)
      (fun x hx => (hA x).mpr (clade_sub_leaves a' C hC x hx)) hdis (binary_leaves_ne b hb), heq⟩
  · intro C hC
    obtain ⟨C', hC', heq⟩ := h1 C ((mem_clades_node2 a b C).mpr (Or.inr (Or.inr hC)))
    exact ⟨C', clade_in_right hC' heq (binary_clade_ne b hb C hC)
      (fun x hx => (hB x).mp (clade_sub_leaves b C hC x hx)) hdis' (binary_leaves_ne a' ha'), heq⟩
  · intro C hC
    obtain ⟨C', hC', heq⟩ := h2 C ((mem_clades_node2 a' b' C).mpr (Or.inr (Or.inr hC)))
    exact ⟨C', clade_in_right hC' heq (binary_clade_ne b' hb' C hC)
      (fun x hx => (hB x).mpr (clade_sub_leaves b' C hC x hx)) hdis (binary_leaves_ne a ha), heq⟩

/-- A child of the first tree lies inside one child of the second one. -/
theorem child_inside {a b a' b' : LTree} {c : LTree}
    (hc : c = a ∨ c = b) (hcne : c.leaves ≠ [])
    (hall : ∀ x, x ∈ a.leaves ∨ x ∈ b.leaves ↔ x ∈ a'.leaves ∨ x ∈ b'.leaves)
    (hdis : ∀ x, x ∈ a.leaves → x ∉ b.leaves) (ha : a.leaves ≠ []) (hb : b.leaves ≠ [])
    (h : cladesSub (.node [a, b]) (.node [a', b']) = true) :
    (∀ x, x ∈ c.leaves → x ∈ a'.leaves) ∨ (∀ x, x ∈ c.leaves → x ∈ b'.leaves) := by
  rw [cladesSub_iff] at h
  have hcin : c.leaves ∈ clades (.node [a, b]) := by
    rw [mem_clades_node2]
    rcases hc with rfl | rfl
    · exact Or.inr (Or.inl (leaves_mem_clades _))
    · exact Or.inr (Or.inr (leaves_mem_clades _))
  obtain ⟨C', hC', heq⟩ := h _ hcin
  rcases (mem_clades_node2 a' b' C').mp hC' with rfl | h' | h'
  · exfalso
    -- `c` would contain every leaf, in particular those of the other child
    have hfull : ∀ x, x ∈ a.leaves ∨ x ∈ b.leaves → x ∈ c.leaves := by
      intro x hx
      rw [heq, List.mem_append]
      exact (hall x).mp hx
    rcases hc with rfl | rfl
    · obtain ⟨y, hy⟩ := List.exists_mem_of_ne_nil _ hb
      exact hdis y (hfull y (Or.inr hy)) hy
    · obtain ⟨y, hy⟩ := List.exists_mem_of_ne_nil _ ha
      exact hdis y hy (hfull y (Or.inl hy))
  · exact Or.inl (fun x hx => clade_sub_leaves a' C' h' x ((heq x).mp hx))
  · exact Or.inr (fun x hx => clade_sub_leaves b' C' h' x ((heq x).mp hx))

/-- Equal clade sets force the same root bipartition. -/
theorem same_bipartition {a b a' b' : LTree}
    (hall : ∀ x, x ∈ a.leaves ∨ x ∈ b.leaves ↔ x ∈ a'.leaves ∨ x ∈ b'.leaves)
    (hdis : ∀ x, x ∈ a.leaves → x ∉ b.leaves) (hdis' : ∀ x, x ∈ a'.leaves → x ∉ b'.leaves)
    (ha : a.leaves ≠ []) (hb : b.leaves ≠ []) (ha' : a'.leaves ≠ []) (hb' : b'.leaves ≠ [])
    (h : cladesSub (.node [a, b]) (.node [a', b']) = true) :
    ∀ x y, (x ∈ a.leaves ∨ x ∈ b.leaves) → (y ∈ a.leaves ∨ y ∈ b.leaves) →
      ((x ∈ a.leaves ↔ y ∈ a.leaves) ↔ (x ∈ a'.leaves ↔ y ∈ a'.leaves)) := by
  have hA := child_inside (c := a) (Or.inl rfl) ha hall hdis ha hb h
  have hB := child_inside (c := b) (Or.inr rfl) hb hall hdis ha hb h
  -- membership in `a` is membership in `a'`, or in `b'`
  have key : (∀ x, (x ∈ a.leaves ∨ x ∈ b.leaves) → (x ∈ a.leaves ↔ x ∈ a'.leaves)) ∨
             (∀ x, (x ∈ a.leaves ∨ x ∈ b.leaves) → (x ∈ a.leaves ↔ x ∉ a'.leaves)) := by
    rcases hA with hA | hA <;> rcases hB with hB | hB
    · exfalso
      obtain ⟨y, hy⟩ := List.exists_mem_of_ne_nil _ hb'
      rcases (hall y).mpr (Or.inr hy) with h1 | h1
      · exact hdis' y (hA y h1) hy
      · exact hdis' y (hB y h1) hy
    · left
      intro x hx
      constructor
      · exact hA x
      · intro hx'
        rcases hx with h1 | h1
        · exact h1
        · exact absurd (hB x h1) (hdis' x hx')
    · right
      intro x hx
      constructor
      · intro h1 hx'; exact hdis' x hx' (hA x h1)
      · intro hx'
        rcases hx with h1 | h1
        · exact h1
        · exact absurd (hB x h1) hx'
    · exfalso
      obtain ⟨y, hy⟩ := List.exists_mem_of_ne_nil _ ha'
      rcases (hall y).mpr (Or.inl hy) with h1 | h1
      · exact hdis' y hy (hA y h1)
      · exact hdis' y hy (hB y h1)
  intro x y hx hy
  rcases key with k | k
  · rw [k x hx, k y hy]
  · rw [k x hx, k y hy]
    constructor
    · intro h1; constructor
      · intro hx'; exact Classical.byContradiction fun hn => (h1.mpr hn) hx'
      · intro hy'; exact Classical.byContradiction fun hn => (h1.mp hn) hy'
    · intro h1; constructor
      · intro hx' hy'; exact hx' (h1.mpr hy')
      · intro hy' hx'; exact hy' (h1.mp hx')

/-! ### The members of AllTrees are pairwise different -/

theorem level_same {l : List Nat} {trs : List Triple} (hl : l.Nodup) (hk : Known l trs)
    {bp : DS} (hbp : bp ∈ (partitionOf l trs).binary) {g0 g1 : List Nat}
    (hgs : bp.toList.2 = [g0, g1]) :
    ∀ i j, i < l.length → j < l.length →
      (Same bp i j ↔ (l.getD i 0 ∈ groupLeaves l g0 ↔ l.getD j 0 ∈ groupLeaves l g0)) := by
  have hI := partitionOf_inv hk
  obtain ⟨hW, hs, _, _⟩ := (binary_main hI).1 bp hbp
  have hC := toList_isClassList hW
  rw [hgs] at hC
  obtain ⟨r0, _, _, hm0⟩ := hC.isClass g0 (by simp)
  obtain ⟨r1, _, _, hm1⟩ := hC.isClass g1 (by simp)
  have hcov : ∀ i, i < l.length → i ∈ g0 ∨ i ∈ g1 := by
    intro i hi
    obtain ⟨g, hg, hig⟩ := hC.cover i (hs ▸ hi)
    simp only [List.mem_cons, List.not_mem_nil, or_false] at hg
    rcases hg with rfl | rfl
    · exact Or.inl hig
    · exact Or.inr hig
  have hmemg : ∀ i, i < l.length → (l.getD i 0 ∈ groupLeaves l g0 ↔ i ∈ g0) := by
    intro i hi
    rw [mem_groupLeaves]
    constructor
    · rintro ⟨k, hk0, hki⟩
      have hkn : k < l.length := hs ▸ ((hm0 k).mp hk0).1
      have : k = i := by rw [← idxOf_getD hl hkn, hki, idxOf_getD hl hi]
      exact this ▸ hk0
    · intro h; exact ⟨i, h, rfl⟩
  intro i j hi hj
  rw [hmemg i hi, hmemg j hj]
  have hsame0 : ∀ i j, i ∈ g0 → Same bp i j → j < l.length → j ∈ g0 := by
    intro i j hi0 ⟨ρ, h1, h2⟩ hj
    rw [RootOf.det h1 ((hm0 i).mp hi0).2] at h2
    exact (hm0 j).mpr ⟨hs ▸ hj, h2⟩
  constructor
  · intro hsm
    exact ⟨fun h => hsame0 i j h hsm hj, fun h => hsame0 j i h hsm.symm hi⟩
  · intro hiff
    by_cases h0 : i ∈ g0
    · exact ⟨r0, ((hm0 i).mp h0).2, ((hm0 j).mp (hiff.mp h0)).2⟩
    · have hi1 : i ∈ g1 := (hcov i hi).resolve_left h0
      have hj1 : j ∈ g1 := (hcov j hj).resolve_left (fun h => h0 (hiff.mpr h))
      exact ⟨r1, ((hm1 i).mp hi1).2, ((hm1 j).mp hj1).2⟩

/-- "Different up to child order". -/
def Differ (t u : LTree) : Prop := sameClades t u = false

theorem differ_of_not {t u : LTree} (h : ¬ sameClades t u = true) : Differ t u := by
  unfold Differ; cases hs : sameClades t u
  · rfl
  · exact absurd hs h

theorem allTrees_distinct : ∀ (fuel : Nat) (l : List Nat) (trs : List Triple),
    l.Nodup → Known l trs → Proper trs → (allTrees fuel l trs).Pairwise Differ := by
  intro fuel
  induction fuel with
  | zero => intro l trs _ _ _; simp [allTrees]
  | succ fuel ih =>
    intro l trs hl hk hp
    match l, hl, hk with
    | [], _, _ => simp [allTrees]
    | [a], _, _ => simp [allTrees]
    | [a, b], _, _ => simp [allTrees]
    | a :: b :: c :: rest, hl, hk =>
      simp only [allTrees]
      generalize hl' : a :: b :: c :: rest = l at *
      -- description of the block of one member of `binary()`
      have hblock : ∀ bp, bp ∈ (partitionOf l trs).binary → ∃ g0 g1, bp.toList.2 = [g0, g1] ∧
          ∀ t, t ∈ joinAll
              (allTrees fuel (groupLeaves l (bp.toList.2.getD 0 []))
                (trs.filter (inside (groupLeaves l (bp.toList.2.getD 0 [])))))
              (allTrees fuel (groupLeaves l (bp.toList.2.getD 1 []))
                (trs.filter (inside (groupLeaves l (bp.toList.2.getD 1 []))))) →
            ∃ t0 t1, t = .node [t0, t1] ∧
              t0 ∈ allTrees fuel (groupLeaves l g0) (trs.filter (inside (groupLeaves l g0))) ∧
              t1 ∈ allTrees fuel (groupLeaves l g1) (trs.filter (inside (groupLeaves l g1))) ∧
              (∀ x, x ∈ t0.leaves ↔ x ∈ groupLeaves l g0) ∧
              (∀ x, x ∈ t1.leaves ↔ x ∈ groupLeaves l g1) ∧
              t0.isBinary = true ∧ t1.isBinary = true ∧
              (∀ x, x ∈ groupLeaves l g0 → x ∉ groupLeaves l g1) ∧
              (∀ x, x ∈ l ↔ x ∈ groupLeaves l g0 ∨ x ∈ groupLeaves l g1) := by
        intro bp hbp
        obtain ⟨g0, g1, hgs, hdis, hcov, _, hn0, hn1⟩ := level_binary hl hk hbp
        refine ⟨g0, g1, hgs, ?_⟩
        intro t ht
        simp only [hgs, List.getD_cons_zero, List.getD_cons_succ] at ht
        obtain ⟨t0, ht0, t1, ht1, rfl⟩ := mem_joinAll.mp ht
        obtain ⟨hG0, hB0⟩ := allTrees_good _ _ _ t0 hn0 (known_filter _ _) (proper_filter hp _) ht0
        obtain ⟨hG1, hB1⟩ := allTrees_good _ _ _ t1 hn1 (known_filter _ _) (proper_filter hp _) ht1
        exact ⟨t0, t1, rfl, ht0, ht1, hG0.mem, hG1.mem, hB0, hB1, hdis, hcov⟩
      rw [List.pairwise_flatMap]
      constructor
      · -- inside one block
        intro bp hbp
        obtain ⟨g0, g1, hgs, hdis, hcov, _, hn0, hn1⟩ := level_binary hl hk hbp
        simp only [hgs, List.getD_cons_zero, List.getD_cons_succ]
        have hA := ih _ (trs.filter (inside (groupLeaves l g0))) hn0 (known_filter _ _) (proper_filter hp _)
        have hB := ih _ (trs.filter (inside (groupLeaves l g1))) hn1 (known_filter _ _) (proper_filter hp _)
        have hgood0 := fun t ht => allTrees_good fuel _ _ t hn0 (known_filter _ _) (proper_filter hp (inside (groupLeaves l g0))) ht
        have hgood1 := fun t ht => allTrees_good fuel _ _ t hn1 (known_filter _ _) (proper_filter hp (inside (groupLeaves l g1))) ht
        have hch : ∀ t0 t0' t1 t1', t0 ∈ allTrees fuel (groupLeaves l g0) (trs.filter (inside (groupLeaves l g0))) →
            t0' ∈ allTrees fuel (groupLeaves l g0) (trs.filter (inside (groupLeaves l g0))) →
            t1 ∈ allTrees fuel (groupLeaves l g1) (trs.filter (inside (groupLeaves l g1))) →
            t1' ∈ allTrees fuel (groupLeaves l g1) (trs.filter (inside (groupLeaves l g1))) →
            sameClades (.node [t0, t1]) (.node [t0', t1']) = true →
            sameClades t0 t0' = true ∧ sameClades t1 t1' = true := by
          intro t0 t0' t1 t1' h0 h0' h1 h1' hs
          obtain ⟨G0, B0⟩ := hgood0 t0 h0
          obtain ⟨G0', B0'⟩ := hgood0 t0' h0'
          obtain ⟨G1, B1⟩ := hgood1 t1 h1
          obtain ⟨G1', B1'⟩ := hgood1 t1' h1'
          exact sameClades_children (fun x => (G0.mem x).trans (G0'.mem x).symm)
            (fun x => (G1.mem x).trans (G1'.mem x).symm)
            (fun x hx hx' => hdis x ((G0.mem x).mp hx) ((G1.mem x).mp hx')) B0 B1 B0' B1' hs
        unfold joinAll
        rw [List.pairwise_flatMap]
        constructor
        · intro t0 ht0
          rw [List.pairwise_map]
          refine List.Pairwise.imp_of_mem ?_ hB
          intro t1 t1' h1 h1' hd
          apply differ_of_not
          intro hs
          have := (hch t0 t0 t1 t1' ht0 ht0 h1 h1' hs).2
          rw [Differ] at hd; rw [hd] at this; cases this
        · refine List.Pairwise.imp_of_mem ?_ hA
          intro t0 t0' h0 h0' hd x hx y hy
          obtain ⟨t1, h1, rfl⟩ := List.mem_map.mp hx
          obtain ⟨t1', h1', rfl⟩ := List.mem_map.mp hy
          apply differ_of_not
          intro hs
          have := (hch t0 t0' t1 t1' h0 h0' h1 h1' hs).1
          rw [Differ] at hd; rw [hd] at this; cases this
      · -- across blocks
        have hI := partitionOf_inv hk
        refine List.Pairwise.imp_of_mem ?_ (binary_main hI).2.1
        intro bp bp' hbp hbp' ⟨i, j, hi, hj, hne⟩ x hx y hy
        obtain ⟨g0, g1, hgs, hb⟩ := hblock bp hbp
        obtain ⟨g0', g1', hgs', hb'⟩ := hblock bp' hbp'
        obtain ⟨t0, t1, rfl, _, _, m0, m1, B0, B1, hdis, hcov⟩ := hb x hx
        obtain ⟨t0', t1', rfl, _, _, m0', m1', B0', B1', hdis', hcov'⟩ := hb' y hy
        apply differ_of_not
        intro hs
        simp only [sameClades, Bool.and_eq_true] at hs
        have hall : ∀ x, x ∈ t0.leaves ∨ x ∈ t1.leaves ↔ x ∈ t0'.leaves ∨ x ∈ t1'.leaves := by
          intro x; rw [m0, m1, m0', m1', ← hcov, ← hcov']
        have hbi := same_bipartition hall
          (fun x hx hx' => hdis x ((m0 x).mp hx) ((m1 x).mp hx'))
          (fun x hx hx' => hdis' x ((m0' x).mp hx) ((m1' x).mp hx'))
          (binary_leaves_ne _ B0) (binary_leaves_ne _ B1) (binary_leaves_ne _ B0')
          (binary_leaves_ne _ B1') hs.1
        apply hne
        rw [level_same hl hk hbp hgs i j hi hj, level_same hl hk hbp' hgs' i j hi hj]
        have hxi : l.getD i 0 ∈ t0.leaves ∨ l.getD i 0 ∈ t1.leaves := by
          rw [m0, m1, ← hcov]; exact getD_mem hi
        have hxj : l.getD j 0 ∈ t0.leaves ∨ l.getD j 0 ∈ t1.leaves := by
          rw [m0, m1, ← hcov]; exact getD_mem hj
        have := hbi _ _ hxi hxj
        rw [m0, m0, m0', m0'] at this
        exact this

theorem allTreesFromTriples_distinct {l : List Nat} {trs : List Triple}
    (hl : l.Nodup) (hk : Known l trs) (hp : Proper trs) :
    (allTreesFromTriples l trs).Pairwise Differ := by
  unfold allTreesFromTriples
  split
  · exact List.Pairwise.nil
  · exact allTrees_distinct _ l trs hl hk hp

end SR.Tri
