/-
  BUILD is complete: if some tree with distinct leaf names displays every
  triple, `tree_from_triples` returns a tree.
-/
import Batteries.Data.List.Perm
import SRVerif.Proofs.TriplesSuper

namespace SR.Tri

open SR SR.DS LTree Spec

theorem nodup_lt_length {g : List Nat} {n j : Nat} (hg : g.Nodup) (hlt : ∀ x, x ∈ g → x < n)
    (hj : j < n) (hjg : j ∉ g) : g.length < n := by
  have hnd : (j :: g).Nodup := List.nodup_cons.mpr ⟨hjg, hg⟩
  have hsub : (j :: g) ⊆ List.range n := by
    intro x hx
    rcases List.mem_cons.mp hx with rfl | hx
    · exact List.mem_range.mpr hj
    · exact List.mem_range.mpr (hlt x hx)
  have := (List.subperm_of_subset hnd hsub).length_le
  simp at this
  omega

/-- With distinct leaf names a leaf lies in only one child. -/
theorem child_unique : ∀ {cs : List LTree}, (leavesL cs).Nodup → ∀ {c c' : LTree} {b : Nat},
    c ∈ cs → c' ∈ cs → b ∈ c.leaves → b ∈ c'.leaves → c = c' := by
  intro cs
  induction cs with
  | nil => intro _ c c' b h; cases h
  | cons h tl ih =>
    intro hn c c' b hc hc' hb hb'
    simp only [leavesL] at hn
    obtain ⟨_, hn2, hd⟩ := List.nodup_append.mp hn
    rcases List.mem_cons.mp hc with e1 | k1 <;> rcases List.mem_cons.mp hc' with e2 | k2
    · rw [e1, e2]
    · subst e1; exact absurd rfl (hd b hb b (mem_leavesL.mpr ⟨c', k2, hb'⟩))
    · subst e2; exact absurd rfl (hd b hb' b (mem_leavesL.mpr ⟨c, k1, hb⟩))
    · exact ih hn2 k1 k2 hb hb'

theorem nodup_child {cs : List LTree} (hn : (leavesL cs).Nodup) {c : LTree} (hc : c ∈ cs) :
    c.leaves.Nodup := by
  induction cs with
  | nil => cases hc
  | cons h tl ih =>
    simp only [leavesL] at hn
    obtain ⟨h1, h2, _⟩ := List.nodup_append.mp hn
    rcases List.mem_cons.mp hc with rfl | hc
    · exact h1
    · exact ih h2 hc

/-- Some equivalence separates two of the leaves of `l` but never the first
    two leaves of a triple displayed by `t`. -/
theorem separation (t : LTree) (ht : t.leaves.Nodup) (l : List Nat) (hl2 : 2 ≤ l.length) (hln : l.Nodup)
    (hsub : ∀ x, x ∈ l → x ∈ t.leaves) :
    ∃ R : Nat → Nat → Prop, (∀ x, R x x) ∧ (∀ x y, R x y → R y x) ∧ (∀ x y z, R x y → R y z → R x z) ∧
      (∃ x y, x ∈ l ∧ y ∈ l ∧ ¬ R x y) ∧
      ∀ a b c, a ∈ l → b ∈ l → c ∈ l → (∃ C, C ∈ clades t ∧ a ∈ C ∧ b ∈ C ∧ c ∉ C) → R a b := by
  match t, ht, hsub with
  | .leaf a, _, hsub =>
    exfalso
    match l, hl2, hln with
    | x :: y :: _, _, hln =>
      have hx : x = a := by simpa [leaves] using hsub x (by simp)
      have hy : y = a := by simpa [leaves] using hsub y (by simp)
      simp [hx, hy] at hln
  | .node cs, ht, hsub =>
    have ht' : (leavesL cs).Nodup := ht
    by_cases hall : ∃ c, c ∈ cs ∧ ∀ x, x ∈ l → x ∈ c.leaves
    · obtain ⟨c, hc, hcl⟩ := hall
      have _hdec : sizeOf c < sizeOf (LTree.node cs) := by
        have := List.sizeOf_lt_of_mem hc
        simp only [LTree.node.sizeOf_spec]; omega
      obtain ⟨R, r1, r2, r3, r4, r5⟩ := separation c (nodup_child ht' hc) l hl2 hln hcl
      refine ⟨R, r1, r2, r3, r4, ?_⟩
      intro a b d ha hb hd ⟨C, hC, haC, hbC, hdC⟩
      rcases (mem_clades_node cs C).mp hC with rfl | ⟨c', hc', hCc'⟩
      · exact absurd (hsub d hd) hdC
      · have : c' = c := child_unique ht' hc' hc (clade_sub_leaves c' C hCc' a haC) (hcl a ha)
        subst this
        exact r5 a b d ha hb hd ⟨C, hCc', haC, hbC, hdC⟩
    · refine ⟨fun x y => x = y ∨ ∃ c, c ∈ cs ∧ x ∈ c.leaves ∧ y ∈ c.leaves, fun x => Or.inl rfl, ?_, ?_, ?_, ?_⟩
      · rintro x y (h | ⟨c, hc, h1, h2⟩)
        · exact Or.inl h.symm
        · exact Or.inr ⟨c, hc, h2, h1⟩
      · rintro x y z (rfl | ⟨c, hc, h1, h2⟩) (rfl | ⟨c', hc', h3, h4⟩)
        · exact Or.inl rfl
        · exact Or.inr ⟨c', hc', h3, h4⟩
        · exact Or.inr ⟨c, hc, h1, h2⟩
        · have : c = c' := child_unique ht' hc hc' h2 h3
          subst this
          exact Or.inr ⟨c, hc, h1, h4⟩
      · match l, hl2, hln with
        | x :: y :: rest, _, hln =>
          obtain ⟨c, hc, hxc⟩ := mem_leavesL.mp (hsub x (by simp))
          have : ∃ z, z ∈ x :: y :: rest ∧ z ∉ c.leaves := by
            apply Classical.byContradiction
            intro hcon
            apply hall
            refine ⟨c, hc, fun z hz => Classical.byContradiction fun hn => hcon ⟨z, hz, hn⟩⟩
          obtain ⟨z, hz, hzc⟩ := this
          refine ⟨x, z, by simp, hz, ?_⟩
          rintro (rfl | ⟨c', hc', h1, h2⟩)
          · exact hzc hxc
          · have : c' = c := child_unique ht' hc' hc h1 hxc
            subst this
            exact hzc h2
      · intro a b d ha hb hd ⟨C, hC, haC, hbC, hdC⟩
        rcases (mem_clades_node cs C).mp hC with rfl | ⟨c', hc', hCc'⟩
        · exact absurd (hsub d hd) hdC
        · exact Or.inr ⟨c', hc', clade_sub_leaves c' C hCc' a haC, clade_sub_leaves c' C hCc' b hbC⟩
termination_by sizeOf t

theorem two_le_length {l : List Nat} {a b : Nat} (ha : a ∈ l) (hb : b ∈ l) (hab : a ≠ b) :
    2 ≤ l.length := by
  match l, ha, hb with
  | [z], ha, hb =>
    simp only [List.mem_singleton] at ha hb
    exact absurd (ha.trans hb.symm) hab
  | _ :: _ :: _, _, _ => simp

theorem build_complete : ∀ (fuel : Nat) (l : List Nat) (trs : List Triple) (t : LTree),
    l.Nodup → l ≠ [] → l.length ≤ fuel → t.leaves.Nodup → (∀ x, x ∈ l → x ∈ t.leaves) →
    (∀ tr, tr ∈ trs → inside l tr = true ∧ displays t tr = true) →
    (build fuel l trs).isSome = true := by
  intro fuel
  induction fuel with
  | zero =>
    intro l trs t _ hne hlen _ _ _
    exact absurd (List.eq_nil_of_length_eq_zero (Nat.le_zero.mp hlen)) hne
  | succ fuel ih =>
    intro l trs t hl hne hlen ht hsub htrs
    match l, hl, hne, hlen, hsub, htrs with
    | [], _, hne, _, _, _ => exact absurd rfl hne
    | [a], _, _, _, _, _ => simp [build]
    | [a, b], _, _, _, _, _ => simp [build]
    | a :: b :: c :: rest, hl, _, hlen, hsub, htrs =>
      simp only [build]
      generalize hl' : a :: b :: c :: rest = l at *
      have hl3 : 3 ≤ l.length := by rw [← hl']; simp
      have hk : Known l trs := fun tr htr =>
        let h := (inside_iff l tr).mp (htrs tr htr).1; ⟨h.1, h.2.1⟩
      have hI := partitionOf_inv hk
      have hW := hI.wf
      have hn := hI.size
      obtain ⟨R, r1, r2, r3, ⟨x, y, hx, hy, hxy⟩, r5⟩ := separation t ht l (by omega) hl hsub
      have hker : ∀ i j, Conn (trs.map (fun t => (l.idxOf t.1, l.idxOf t.2.1))) i j →
          R (l.getD i 0) (l.getD j 0) := by
        intro i j h
        induction h with
        | base hm =>
          obtain ⟨tr, htr, heq⟩ := List.mem_map.mp hm
          simp only [Prod.mk.injEq] at heq
          obtain ⟨rfl, rfl⟩ := heq
          obtain ⟨hin, hd⟩ := htrs tr htr
          obtain ⟨i1, i2, i3⟩ := (inside_iff l tr).mp hin
          obtain ⟨_, _, _, hC⟩ := (displays_iff t tr).mp hd
          rw [getD_idxOf i1, getD_idxOf i2]
          exact r5 _ _ _ i1 i2 i3 hC
        | refl a => exact r1 _
        | symm _ ih => exact r2 _ _ ih
        | trans _ _ ih1 ih2 => exact r3 _ _ _ ih1 ih2
      have hix : l.idxOf x < l.length := List.idxOf_lt_length_iff.mpr hx
      have hiy : l.idxOf y < l.length := List.idxOf_lt_length_iff.mpr hy
      have hns : ¬ Same (partitionOf l trs) (l.idxOf x) (l.idxOf y) := by
        intro h
        have := hker _ _ ((hI.same _ _).mp h)
        rw [getD_idxOf hx, getD_idxOf hy] at this
        exact hxy this
      have hroots : 2 ≤ (partitionOf l trs).nroots := by
        rw [← roots_length]
        exact two_le_length (rep_mem_roots hW (hn ▸ hix)) (rep_mem_roots hW (hn ▸ hiy))
          (fun h => hns ((same_iff_rep hW _ _).mpr h))
      have hgroups : ¬ (partitionOf l trs).groups ≤ 1 := by rw [hW.grp]; omega
      simp only [hgroups, if_false]
      have hC := toList_isClassList hW
      obtain ⟨_, q2, _, q4⟩ := classList_names hl hn hC
      have hsome : ∀ g, g ∈ (partitionOf l trs).toList.2 → ∃ u,
          build fuel (groupLeaves l g) (trs.filter (inside (groupLeaves l g))) = some u := by
        intro g hg
        obtain ⟨r, hr, hroot, hm⟩ := hC.isClass g hg
        have hgl : ∀ i, i ∈ g → i < l.length := fun i hi => hn ▸ ((hm i).mp hi).1
        have hsubl : ∀ w, w ∈ groupLeaves l g → w ∈ l := by
          intro w hw
          obtain ⟨i, hi, rfl⟩ := mem_groupLeaves.mp hw
          exact getD_mem (hgl i hi)
        have hrg : r ∈ g := (hm r).mpr ⟨hr, RootOf.root hroot⟩
        have hne' : groupLeaves l g ≠ [] := by
          intro h
          have : l.getD r 0 ∈ groupLeaves l g := mem_groupLeaves.mpr ⟨r, hrg, rfl⟩
          rw [h] at this; cases this
        have hout : ∃ j, j < l.length ∧ j ∉ g := by
          by_cases hxg : l.idxOf x ∈ g
          · refine ⟨l.idxOf y, hiy, fun hyg => hns ?_⟩
            exact ⟨r, ((hm _).mp hxg).2, ((hm _).mp hyg).2⟩
          · exact ⟨_, hix, hxg⟩
        obtain ⟨j, hj, hjg⟩ := hout
        have hglen : (groupLeaves l g).length ≤ fuel := by
          have : g.length < l.length :=
            nodup_lt_length ((hC.sorted g hg).imp (fun h => Nat.ne_of_lt h)) hgl hj hjg
          simp only [groupLeaves, List.length_map]
          omega
        have := ih (groupLeaves l g) (trs.filter (inside (groupLeaves l g))) t (q4 g hg) hne' hglen ht
          (fun w hw => hsub w (hsubl w hw))
          (fun tr htr => ⟨(List.mem_filter.mp htr).2, (htrs tr (List.mem_filter.mp htr).1).2⟩)
        exact Option.isSome_iff_exists.mp this
      obtain ⟨us, hus⟩ := mapM_of_forall (f := fun g =>
          build fuel (groupLeaves l g) (trs.filter (inside (groupLeaves l g)))) hsome
      rw [hus]; rfl

theorem treeFromTriples_complete {l : List Nat} {trs : List Triple} {t : LTree}
    (hl : l.Nodup) (hne : l ≠ []) (ht : t.leaves.Nodup) (hsub : ∀ x, x ∈ l → x ∈ t.leaves)
    (htrs : ∀ tr, tr ∈ trs → inside l tr = true ∧ displays t tr = true) :
    (treeFromTriples l trs).isSome = true :=
  build_complete _ l trs t hl hne (Nat.le_refl _) ht hsub htrs

end SR.Tri
