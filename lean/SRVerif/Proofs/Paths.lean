/-
  Basic lemmas on paths: `isAnc` is the prefix relation, `lcp` is the greatest
  common prefix.
-/
import SRVerif.Model.Paths

namespace SR.Path

theorem isAnc_iff_prefix (p q : Path) : isAnc p q = true ↔ p <+: q := by
  induction p generalizing q with
  | nil => simp [isAnc]
  | cons a p ih =>
    cases q with
    | nil => simp [isAnc]
    | cons b q =>
      simp only [isAnc, Bool.and_eq_true, beq_iff_eq, ih, List.cons_prefix_cons]

theorem isAnc_refl (p : Path) : isAnc p p = true := by
  rw [isAnc_iff_prefix]; exact List.prefix_refl p

theorem isAnc_nil (p : Path) : isAnc [] p = true := by simp [isAnc]

theorem isAnc_trans {p q r : Path} (h1 : isAnc p q = true) (h2 : isAnc q r = true) :
    isAnc p r = true := by
  rw [isAnc_iff_prefix] at *; exact List.IsPrefix.trans h1 h2

theorem isAnc_antisymm {p q : Path} (h1 : isAnc p q = true) (h2 : isAnc q p = true) : p = q := by
  rw [isAnc_iff_prefix] at *
  exact List.IsPrefix.eq_of_length_le h1 h2.length_le

theorem lcp_isAnc_left (p q : Path) : isAnc (lcp p q) p = true := by
  induction p generalizing q with
  | nil => cases q <;> simp [lcp, isAnc]
  | cons a p ih =>
    cases q with
    | nil => simp [lcp, isAnc]
    | cons b q =>
      simp only [lcp]
      split
      · simp [isAnc, ih]
      · simp [isAnc]

theorem lcp_comm (p q : Path) : lcp p q = lcp q p := by
  induction p generalizing q with
  | nil => cases q <;> simp [lcp]
  | cons a p ih =>
    cases q with
    | nil => simp [lcp]
    | cons b q =>
      simp only [lcp]
      by_cases h : a = b
      · subst h; simp [ih]
      · have h' : ¬ b = a := fun e => h e.symm
        simp [h, h']

theorem lcp_isAnc_right (p q : Path) : isAnc (lcp p q) q = true := by
  rw [lcp_comm]; exact lcp_isAnc_left q p

/-- `lcp` is the *greatest* common ancestor. -/
theorem isAnc_lcp {r p q : Path} (h1 : isAnc r p = true) (h2 : isAnc r q = true) :
    isAnc r (lcp p q) = true := by
  induction r generalizing p q with
  | nil => simp [isAnc]
  | cons a r ih =>
    cases p with
    | nil => simp [isAnc] at h1
    | cons b p =>
      cases q with
      | nil => simp [isAnc] at h2
      | cons c q =>
        simp only [isAnc, Bool.and_eq_true, beq_iff_eq] at h1 h2
        obtain ⟨rfl, h1⟩ := h1
        obtain ⟨rfl, h2⟩ := h2
        simp [lcp, isAnc, ih h1 h2]

theorem lcp_self (p : Path) : lcp p p = p := by
  induction p with
  | nil => simp [lcp]
  | cons a p ih => simp [lcp, ih]

theorem lcp_eq_left_of_isAnc {p q : Path} (h : isAnc p q = true) : lcp p q = p := by
  apply isAnc_antisymm (lcp_isAnc_left p q)
  exact isAnc_lcp (isAnc_refl p) h

theorem isStrictAnc_iff (p q : Path) : isStrictAnc p q = true ↔ isAnc p q = true ∧ p ≠ q := by
  simp [isStrictAnc]

theorem length_le_of_isAnc {p q : Path} (h : isAnc p q = true) : p.length ≤ q.length := by
  rw [isAnc_iff_prefix] at h; exact h.length_le

/-- The distance from an ancestor is the difference of levels. -/
theorem dist_of_isAnc {p q : Path} (h : isAnc p q = true) : dist p q = q.length - p.length := by
  simp only [dist, lcp_eq_left_of_isAnc h]
  have := length_le_of_isAnc h
  omega

end SR.Path
