/-
  C08, part 4: no two members of `binarize t` have the same topology up to
  child order (for a well-formed tree with distinct leaves).

  The topology of `subst σ` is the *join* of the skeleton `σ` with the
  topologies of its items.  Because the items have pairwise disjoint,
  non-empty leaf sets, an equivalence between two joins can only match an
  item with an item (`equivR_of_join`), so it induces an equivalence of the
  skeletons whose matched items are equivalent.
-/
import SRVerif.Proofs.BinarizeTree

namespace SR.Bin

open BTree

variable {α β : Type}

/-! ### Join -/

def join : BTree (BTree α) → BTree α
  | .item t => t
  | .node l r => .node (join l) (join r)

theorem BTree.items_map (f : β → α) (s : BTree β) : (s.map f).items = s.items.map f := by
  induction s with
  | item a => rfl
  | node l r ihl ihr => simp [BTree.map, BTree.items, ihl, ihr]

theorem items_join (σ : BTree (BTree α)) : (join σ).items = σ.items.flatMap BTree.items := by
  induction σ with
  | item t => simp [join, BTree.items]
  | node l r ihl ihr => simp [join, BTree.items, ihl, ihr]

theorem mem_items_join_map {f : β → BTree α} {σ : BTree β} {a : α} :
    a ∈ (join (σ.map f)).items ↔ ∃ d ∈ σ.items, a ∈ (f d).items := by
  rw [items_join, BTree.items_map]
  simp only [List.mem_flatMap, List.mem_map]
  constructor
  · rintro ⟨_, ⟨d, hd, rfl⟩, ha⟩; exact ⟨d, hd, ha⟩
  · rintro ⟨d, hd, ha⟩; exact ⟨_, ⟨d, hd, rfl⟩, ha⟩

theorem BinT.items_skel (b : BinT) : b.skel.items = b.leaves := by
  induction b with
  | leaf i => rfl
  | node a l r ihl ihr => simp [BinT.skel, BTree.items, BinT.leaves, ihl, ihr]

theorem skel_subst (s : BTree BinT) : (subst s).skel = join (s.map BinT.skel) := by
  induction s with
  | item d => rfl
  | node l r ihl ihr => simp [subst, BinT.skel, BTree.map, join, ihl, ihr]

theorem BinT.skel_setAnn (a : Option Nat) (b : BinT) : (b.setAnn a).skel = b.skel := by
  cases b <;> rfl

theorem BinT.Equiv.leaves_perm {b b' : BinT} (h : BinT.Equiv b b') : b.leaves.Perm b'.leaves := by
  have := BTree.Equiv.items_perm h
  rwa [BinT.items_skel, BinT.items_skel] at this

theorem BinT.leaves_ne_nil (b : BinT) : b.leaves ≠ [] := by
  rw [← BinT.items_skel]; exact BTree.items_ne_nil _

theorem join_map_item (s : BTree α) : join (s.map BTree.item) = s := by
  induction s with
  | item a => rfl
  | node l r ihl ihr => simp [BTree.map, join, ihl, ihr]

theorem equiv_join_map (f : β → BTree α) {s s' : BTree β} (h : BTree.Equiv s s') :
    BTree.Equiv (join (s.map f)) (join (s'.map f)) := by
  induction h with
  | item a => exact .refl _
  | congr _ _ ih1 ih2 => exact .congr ih1 ih2
  | swap _ _ ih1 ih2 => exact .swap ih1 ih2

theorem binarizeChildren_leaves (ids : List Nat) :
    binarizeChildren (ids.map NTree.leaf) = [ids.map BinT.leaf] := by
  induction ids with
  | nil => simp [binarizeChildren]
  | cons i rest ih => simp [binarizeChildren, binarize, ih]

/-! ### Equivalence with related items -/

inductive EquivR (R : β → β → Prop) : BTree β → BTree β → Prop where
  | item {a b : β} : R a b → EquivR R (.item a) (.item b)
  | congr {l r l' r' : BTree β} : EquivR R l l' → EquivR R r r' → EquivR R (.node l r) (.node l' r')
  | swap {l r l' r' : BTree β} : EquivR R l r' → EquivR R r l' → EquivR R (.node l r) (.node l' r')

theorem EquivR.imp_of_mem {R S : β → β → Prop} {σ σ' : BTree β} (h : EquivR R σ σ')
    (hRS : ∀ d ∈ σ.items, ∀ d' ∈ σ'.items, R d d' → S d d') : EquivR S σ σ' := by
  induction h with
  | item h => exact .item (hRS _ (by simp [BTree.items]) _ (by simp [BTree.items]) h)
  | congr _ _ ih1 ih2 =>
    exact .congr
      (ih1 fun d hd d' hd' => hRS d (by simp [BTree.items, hd]) d' (by simp [BTree.items, hd']))
      (ih2 fun d hd d' hd' => hRS d (by simp [BTree.items, hd]) d' (by simp [BTree.items, hd']))
  | swap _ _ ih1 ih2 =>
    exact .swap
      (ih1 fun d hd d' hd' => hRS d (by simp [BTree.items, hd]) d' (by simp [BTree.items, hd']))
      (ih2 fun d hd d' hd' => hRS d (by simp [BTree.items, hd]) d' (by simp [BTree.items, hd']))

theorem EquivR.exists_right {R : β → β → Prop} {σ σ' : BTree β} (h : EquivR R σ σ') :
    ∀ d ∈ σ.items, ∃ d' ∈ σ'.items, R d d' := by
  induction h with
  | item h => intro d hd; simp only [BTree.items, List.mem_singleton] at hd; subst hd
              exact ⟨_, by simp [BTree.items], h⟩
  | congr _ _ ih1 ih2 =>
    intro d hd
    simp only [BTree.items, List.mem_append] at hd
    rcases hd with hd | hd
    · obtain ⟨d', hd', h⟩ := ih1 d hd; exact ⟨d', by simp [BTree.items, hd'], h⟩
    · obtain ⟨d', hd', h⟩ := ih2 d hd; exact ⟨d', by simp [BTree.items, hd'], h⟩
  | swap _ _ ih1 ih2 =>
    intro d hd
    simp only [BTree.items, List.mem_append] at hd
    rcases hd with hd | hd
    · obtain ⟨d', hd', h⟩ := ih1 d hd; exact ⟨d', by simp [BTree.items, hd'], h⟩
    · obtain ⟨d', hd', h⟩ := ih2 d hd; exact ⟨d', by simp [BTree.items, hd'], h⟩

theorem EquivR.to_equiv {σ σ' : BTree β} (h : EquivR (· = ·) σ σ') : BTree.Equiv σ σ' := by
  induction h with
  | item h => subst h; exact .item _
  | congr _ _ ih1 ih2 => exact .congr ih1 ih2
  | swap _ _ ih1 ih2 => exact .swap ih1 ih2

/-- Pairwise disjointness of the item sets of a family. -/
def DisjFam (f : β → BTree α) (l : List β) : Prop :=
  l.Pairwise (fun d d' => ∀ a ∈ (f d).items, a ∉ (f d').items)

/-- An equivalence of two joins whose items are pairwise disjoint and, across
    the two sides, equal as sets as soon as they meet, matches items with items. -/
theorem equivR_of_join (f : β → BTree α) (σ σ' : BTree β)
    (hsep : ∀ d ∈ σ.items, ∀ d' ∈ σ'.items, (∃ a, a ∈ (f d).items ∧ a ∈ (f d').items) →
      ∀ a, a ∈ (f d).items ↔ a ∈ (f d').items)
    (hd : DisjFam f σ.items) (hd' : DisjFam f σ'.items)
    (he : BTree.Equiv (join (σ.map f)) (join (σ'.map f))) :
    EquivR (fun d d' => BTree.Equiv (f d) (f d')) σ σ' := by
  induction σ generalizing σ' with
  | item d =>
    cases σ' with
    | item d' => exact .item he
    | node l' r' =>
      exfalso
      obtain ⟨d1, hd1⟩ := BTree.exists_mem_items l'
      obtain ⟨d2, hd2⟩ := BTree.exists_mem_items r'
      obtain ⟨a1, ha1⟩ := BTree.exists_mem_items (f d1)
      obtain ⟨a2, ha2⟩ := BTree.exists_mem_items (f d2)
      have hm1 : d1 ∈ (BTree.node l' r').items := by simp [BTree.items, hd1]
      have hm2 : d2 ∈ (BTree.node l' r').items := by simp [BTree.items, hd2]
      have hin : ∀ d' ∈ (BTree.node l' r').items, ∀ a ∈ (f d').items, a ∈ (f d).items := by
        intro d' hd' a ha
        have : a ∈ (join ((BTree.node l' r').map f)).items := mem_items_join_map.mpr ⟨d', hd', ha⟩
        simpa [BTree.map, join] using (he.mem_items_iff a).mpr this
      have e1 := hsep d (by simp [BTree.items]) d1 hm1 ⟨a1, hin d1 hm1 a1 ha1, ha1⟩
      have e2 := hsep d (by simp [BTree.items]) d2 hm2 ⟨a2, hin d2 hm2 a2 ha2, ha2⟩
      have : a1 ∈ (f d2).items := (e2 a1).mp ((e1 a1).mpr ha1)
      simp only [DisjFam, BTree.items, List.pairwise_append] at hd'
      exact hd'.2.2 d1 hd1 d2 hd2 a1 ha1 this
  | node l r ihl ihr =>
    have hdl : DisjFam f l.items := by
      simp only [DisjFam, BTree.items, List.pairwise_append] at hd; exact hd.1
    have hdr : DisjFam f r.items := by
      simp only [DisjFam, BTree.items, List.pairwise_append] at hd; exact hd.2.1
    cases σ' with
    | item d' =>
      exfalso
      obtain ⟨d1, hd1⟩ := BTree.exists_mem_items l
      obtain ⟨d2, hd2⟩ := BTree.exists_mem_items r
      obtain ⟨a1, ha1⟩ := BTree.exists_mem_items (f d1)
      obtain ⟨a2, ha2⟩ := BTree.exists_mem_items (f d2)
      have hm1 : d1 ∈ (BTree.node l r).items := by simp [BTree.items, hd1]
      have hm2 : d2 ∈ (BTree.node l r).items := by simp [BTree.items, hd2]
      have hin : ∀ d0 ∈ (BTree.node l r).items, ∀ a ∈ (f d0).items, a ∈ (f d').items := by
        intro d0 hd0 a ha
        have : a ∈ (join ((BTree.node l r).map f)).items := mem_items_join_map.mpr ⟨d0, hd0, ha⟩
        simpa [BTree.map, join] using (he.mem_items_iff a).mp this
      have e1 := hsep d1 hm1 d' (by simp [BTree.items]) ⟨a1, ha1, hin d1 hm1 a1 ha1⟩
      have e2 := hsep d2 hm2 d' (by simp [BTree.items]) ⟨a2, ha2, hin d2 hm2 a2 ha2⟩
      have : a1 ∈ (f d2).items := (e2 a1).mpr ((e1 a1).mp ha1)
      simp only [DisjFam, BTree.items, List.pairwise_append] at hd
      exact hd.2.2 d1 hd1 d2 hd2 a1 ha1 this
    | node l' r' =>
      have hdl' : DisjFam f l'.items := by
        simp only [DisjFam, BTree.items, List.pairwise_append] at hd'; exact hd'.1
      have hdr' : DisjFam f r'.items := by
        simp only [DisjFam, BTree.items, List.pairwise_append] at hd'; exact hd'.2.1
      simp only [BTree.map, join] at he
      cases he with
      | congr h1 h2 =>
        exact .congr
          (ihl l' (fun d hd0 d' hd0' => hsep d (by simp [BTree.items, hd0]) d'
            (by simp [BTree.items, hd0'])) hdl hdl' h1)
          (ihr r' (fun d hd0 d' hd0' => hsep d (by simp [BTree.items, hd0]) d'
            (by simp [BTree.items, hd0'])) hdr hdr' h2)
      | swap h1 h2 =>
        exact .swap
          (ihl r' (fun d hd0 d' hd0' => hsep d (by simp [BTree.items, hd0]) d'
            (by simp [BTree.items, hd0'])) hdl hdr' h1)
          (ihr l' (fun d hd0 d' hd0' => hsep d (by simp [BTree.items, hd0]) d'
            (by simp [BTree.items, hd0'])) hdr hdl' h2)

/-! ### Tuples of refinements of the children -/

/-- Position-wise relation between two lists. -/
inductive All2 {β γ : Type} (R : β → γ → Prop) : List β → List γ → Prop where
  | nil : All2 R [] []
  | cons {a : β} {b : γ} {as : List β} {bs : List γ} : R a b → All2 R as bs →
      All2 R (a :: as) (b :: bs)

theorem pairwise_disjoint_of_nodup_flatMap {γ : Type} {f : β → List γ} {l : List β}
    (h : (l.flatMap f).Nodup) : l.Pairwise (fun a b => ∀ x ∈ f a, x ∉ f b) := by
  induction l with
  | nil => simp
  | cons a rest ih =>
    rw [List.flatMap_cons, List.nodup_append] at h
    rw [List.pairwise_cons]
    refine ⟨?_, ih h.2.1⟩
    intro b hb x hx hxb
    exact h.2.2 x hx x (List.mem_flatMap.mpr ⟨b, hb, hxb⟩) rfl

/-- Position-wise same leaves. -/
def SameLeaves (l l' : List BinT) : Prop := All2 (fun d d' => d.leaves.Perm d'.leaves) l l'

theorem SameLeaves.exists_left {l l' : List BinT} (h : SameLeaves l l') :
    ∀ d' ∈ l', ∃ d ∈ l, d.leaves.Perm d'.leaves := by
  induction h with
  | nil => simp
  | cons hh _ ih =>
    intro d' hd'
    rcases List.mem_cons.mp hd' with rfl | hd'
    · exact ⟨_, by simp, hh⟩
    · obtain ⟨d, hd, h⟩ := ih d' hd'; exact ⟨d, by simp [hd], h⟩

/-- Two members of aligned tuples that share a leaf sit at the same position. -/
theorem SameLeaves.perm_of_share {l l' : List BinT} (h : SameLeaves l l')
    (hnd : (l.flatMap BinT.leaves).Nodup) {d d' : BinT} (hd : d ∈ l) (hd' : d' ∈ l') {a : Nat}
    (ha : a ∈ d.leaves) (ha' : a ∈ d'.leaves) : d.leaves.Perm d'.leaves := by
  induction h with
  | nil => cases hd
  | @cons x y xs ys hh ht ih =>
    rw [List.flatMap_cons, List.nodup_append] at hnd
    rcases List.mem_cons.mp hd with rfl | hd <;> rcases List.mem_cons.mp hd' with rfl | hd'
    · exact hh
    · exfalso
      obtain ⟨d0, hd0, hp⟩ := SameLeaves.exists_left ht d' hd'
      exact hnd.2.2 a ha a (List.mem_flatMap.mpr ⟨d0, hd0, hp.mem_iff.mpr ha'⟩) rfl
    · exfalso
      exact hnd.2.2 a (hh.mem_iff.mpr ha') a (List.mem_flatMap.mpr ⟨d, hd, ha⟩) rfl
    · exact ih hnd.2.1 hd hd'

/-- If every member of the first tuple is equivalent to some member of the
    second, the tuples are equivalent position by position. -/
theorem SameLeaves.forall2_equiv {l l' : List BinT} (h : SameLeaves l l')
    (hnd : (l.flatMap BinT.leaves).Nodup)
    (hm : ∀ d ∈ l, ∃ d' ∈ l', BinT.Equiv d d') : All2 BinT.Equiv l l' := by
  induction h with
  | nil => exact All2.nil
  | @cons x y xs ys hh ht ih =>
    rw [List.flatMap_cons, List.nodup_append] at hnd
    obtain ⟨a, ha⟩ : ∃ a, a ∈ x.leaves := by
      cases hx : x.leaves with
      | nil => exact absurd hx (BinT.leaves_ne_nil x)
      | cons a _ => exact ⟨a, by simp⟩
    refine All2.cons ?_ (ih hnd.2.1 ?_)
    · obtain ⟨d', hd', he⟩ := hm x (by simp)
      rcases List.mem_cons.mp hd' with rfl | hd'
      · exact he
      · exfalso
        obtain ⟨d0, hd0, hp⟩ := SameLeaves.exists_left ht d' hd'
        exact hnd.2.2 a ha a
          (List.mem_flatMap.mpr ⟨d0, hd0, hp.mem_iff.mpr (he.leaves_perm.mem_iff.mp ha)⟩) rfl
    · intro d hd
      obtain ⟨d', hd', he⟩ := hm d (by simp [hd])
      rcases List.mem_cons.mp hd' with rfl | hd'
      · exfalso
        obtain ⟨b, hb⟩ : ∃ b, b ∈ d.leaves := by
          cases hx : d.leaves with
          | nil => exact absurd hx (BinT.leaves_ne_nil d)
          | cons b _ => exact ⟨b, by simp⟩
        exact hnd.2.2 b (hh.mem_iff.mpr (he.leaves_perm.mem_iff.mp hb)) b
          (List.mem_flatMap.mpr ⟨d, hd, hb⟩) rfl
      · exact ⟨d', hd', he⟩

/-- A tuple of the product is aligned with the children. -/
def Aligned (descs : List BinT) (cs : List NTree) : Prop :=
  All2 (fun d c => d.leaves.Perm c.leaves) descs cs

theorem aligned_of_mem : ∀ (cs : List NTree), NTree.WFList cs = true →
    ∀ descs ∈ binarizeChildren cs, Aligned descs cs
  | [], _, descs, hd => by
    rw [mem_binarizeChildren_nil] at hd; subst hd; exact All2.nil
  | c :: cs, hwf, descs, hd => by
    rw [NTree.WFList, Bool.and_eq_true] at hwf
    obtain ⟨d, ds, rfl, hdc, hds⟩ := mem_binarizeChildren_cons.mp hd
    exact All2.cons (binarize_sound c hwf.1 d hdc).1 (aligned_of_mem cs hwf.2 ds hds)

theorem Aligned.sameLeaves {l l' : List BinT} {cs : List NTree} (h : Aligned l cs)
    (h' : Aligned l' cs) : SameLeaves l l' := by
  induction h generalizing l' with
  | nil => cases h'; exact All2.nil
  | cons hh _ ih =>
    cases h' with
    | cons hh' ht' => exact All2.cons (hh.trans hh'.symm) (ih ht')

/-! ### The node case -/

theorem skel_F (a : Option Nat) (σ : BTree BinT) :
    ((subst σ).setAnn a).skel = join (σ.map BinT.skel) := by
  rw [BinT.skel_setAnn, skel_subst]

theorem disjFam_of_perm {l l' : List BinT} (hp : l.Perm l') (h : DisjFam BinT.skel l') :
    DisjFam BinT.skel l := by
  unfold DisjFam at *
  refine (hp.pairwise_iff ?_).mpr h
  intro d d' hdd a ha ha'
  exact hdd a ha' ha

/-- Equivalent results built from two aligned tuples: the skeletons match
    item by item. -/
theorem equivR_of_results {descs descs' : List BinT} (hsl : SameLeaves descs descs')
    (hnd : (descs.flatMap BinT.leaves).Nodup) (hnd' : (descs'.flatMap BinT.leaves).Nodup)
    {σ σ' : BTree BinT} (hσ : σ ∈ arrange descs) (hσ' : σ' ∈ arrange descs') (a : Option Nat)
    (he : BinT.Equiv ((subst σ).setAnn a) ((subst σ').setAnn a)) :
    EquivR BinT.Equiv σ σ' := by
  have hp := items_arrange hσ
  have hp' := items_arrange hσ'
  unfold BinT.Equiv at he
  rw [skel_F, skel_F] at he
  refine equivR_of_join BinT.skel σ σ' ?_ ?_ ?_ he
  · rintro d hd d' hd' ⟨x, hx, hx'⟩
    rw [BinT.items_skel] at hx hx'
    have := hsl.perm_of_share hnd (hp.mem_iff.mp hd) (hp'.mem_iff.mp hd') hx hx'
    intro y; rw [BinT.items_skel, BinT.items_skel]; exact this.mem_iff
  · refine disjFam_of_perm hp ?_
    have := pairwise_disjoint_of_nodup_flatMap hnd
    unfold DisjFam
    refine this.imp ?_
    intro d d' h x hx; rw [BinT.items_skel] at hx ⊢; exact h x hx
  · refine disjFam_of_perm hp' ?_
    have := pairwise_disjoint_of_nodup_flatMap hnd'
    unfold DisjFam
    refine this.imp ?_
    intro d d' h x hx; rw [BinT.items_skel] at hx ⊢; exact h x hx

theorem SameLeaves.refl (l : List BinT) : SameLeaves l l := by
  induction l with
  | nil => exact All2.nil
  | cons x xs ih => exact All2.cons (.refl _) ih

/-- Members of a leaf-disjoint tuple are equal as soon as they are equivalent. -/
theorem eq_of_equiv_of_mem {descs : List BinT} (hnd : (descs.flatMap BinT.leaves).Nodup)
    {d d' : BinT} (hd : d ∈ descs) (hd' : d' ∈ descs) (he : BinT.Equiv d d') : d = d' := by
  have hpw := pairwise_disjoint_of_nodup_flatMap hnd
  obtain ⟨a, ha⟩ : ∃ a, a ∈ d.leaves := by
    cases hx : d.leaves with
    | nil => exact absurd hx (BinT.leaves_ne_nil d)
    | cons a _ => exact ⟨a, by simp⟩
  have ha' := he.leaves_perm.mem_iff.mp ha
  clear hnd
  induction descs with
  | nil => cases hd
  | cons x xs ih =>
    rw [List.pairwise_cons] at hpw
    rcases List.mem_cons.mp hd with rfl | hd1 <;> rcases List.mem_cons.mp hd' with rfl | hd1'
    · rfl
    · exact absurd ha' (hpw.1 d' hd1' a ha)
    · exact absurd ha (hpw.1 d hd1 a ha')
    · exact ih hd1 hd1' hpw.2

theorem nodup_of_leaves_nodup {descs : List BinT} (hnd : (descs.flatMap BinT.leaves).Nodup) :
    descs.Nodup := by
  refine (pairwise_disjoint_of_nodup_flatMap hnd).imp ?_
  intro d d' h hdd
  subst hdd
  cases hx : d.leaves with
  | nil => exact absurd hx (BinT.leaves_ne_nil d)
  | cons a _ => exact h a (by simp [hx]) (by simp [hx])

/-! ### Main theorem -/

mutual
  theorem binarize_pairwise : ∀ (t : NTree), t.WF = true → t.leaves.Nodup →
      (binarize t).Pairwise (fun b b' => ¬ BinT.Equiv b b')
    | .leaf i, _, _ => by simp [binarize]
    | .node a cs, hwf, hnd => by
      have hwf0 := hwf
      rw [NTree.WF, Bool.and_eq_true, decide_eq_true_eq] at hwf
      rw [NTree.leaves] at hnd
      have hlv : ∀ descs ∈ binarizeChildren cs, (descs.flatMap BinT.leaves).Nodup := fun descs hd =>
        (binarizeChildren_sound cs hwf.2 descs hd).2.1.nodup_iff.mpr hnd
      rw [binarize, List.pairwise_flatMap]
      refine ⟨?_, ?_⟩
      · intro descs hd
        rw [List.pairwise_map]
        refine (pairwise_arrange descs (nodup_of_leaves_nodup (hlv descs hd))).imp_of_mem ?_
        intro σ σ' hσ hσ' hne he
        apply hne
        have hR := equivR_of_results (SameLeaves.refl descs) (hlv descs hd) (hlv descs hd) hσ hσ' a he
        refine (hR.imp_of_mem ?_).to_equiv
        intro d hd0 d' hd0' hdd
        exact eq_of_equiv_of_mem (hlv descs hd) ((items_arrange hσ).mem_iff.mp hd0)
          ((items_arrange hσ').mem_iff.mp hd0') hdd
      · refine (binarizeChildren_pairwise cs hwf.2 hnd).imp_of_mem ?_
        intro descs descs' hd hd' hne b hb b' hb' he
        rw [List.mem_map] at hb hb'
        obtain ⟨σ, hσ, rfl⟩ := hb
        obtain ⟨σ', hσ', rfl⟩ := hb'
        apply hne
        have hsl := (aligned_of_mem cs hwf.2 descs hd).sameLeaves (aligned_of_mem cs hwf.2 descs' hd')
        have hR := equivR_of_results hsl (hlv descs hd) (hlv descs' hd') hσ hσ' a he
        refine hsl.forall2_equiv (hlv descs hd) ?_
        intro d hd0
        obtain ⟨d', hd0', h⟩ := hR.exists_right d ((items_arrange hσ).mem_iff.mpr hd0)
        exact ⟨d', (items_arrange hσ').mem_iff.mp hd0', h⟩
  theorem binarizeChildren_pairwise : ∀ (cs : List NTree), NTree.WFList cs = true →
      (NTree.leavesList cs).Nodup →
      (binarizeChildren cs).Pairwise (fun ds ds' => ¬ All2 BinT.Equiv ds ds')
    | [], _, _ => by simp [binarizeChildren]
    | c :: cs, hwf, hnd => by
      rw [NTree.WFList, Bool.and_eq_true] at hwf
      rw [NTree.leavesList, List.nodup_append] at hnd
      rw [binarizeChildren, List.pairwise_flatMap]
      refine ⟨?_, ?_⟩
      · intro d _
        rw [List.pairwise_map]
        refine (binarizeChildren_pairwise cs hwf.2 hnd.2.1).imp ?_
        intro ds ds' hne h
        cases h with
        | cons _ ht => exact hne ht
      · refine (binarize_pairwise c hwf.1 hnd.1).imp ?_
        intro d d' hne x hx y hy h
        rw [List.mem_map] at hx hy
        obtain ⟨ds, _, rfl⟩ := hx
        obtain ⟨ds', _, rfl⟩ := hy
        cases h with
        | cons hh _ => exact hne hh
end

/-! ### The literal `ignore` test agrees with opaque items -/

theorem sameSet_refl (l : List Nat) : sameSet l l = true := by
  simp [sameSet, List.all_eq_true]

theorem mem_of_sameSet {a b : List Nat} (h : sameSet a b = true) {x : Nat} (hx : x ∈ a) : x ∈ b := by
  simp only [sameSet, Bool.and_eq_true, List.all_eq_true, List.contains_iff_mem] at h
  exact h.1 x hx

/-- Two members of a leaf-disjoint family that share a leaf are the same member. -/
theorem eq_of_share {l : List BinT} (hd : DisjFam BinT.skel l) {d d' : BinT} (h : d ∈ l)
    (h' : d' ∈ l) {a : Nat} (ha : a ∈ d.leaves) (ha' : a ∈ d'.leaves) : d = d' := by
  unfold DisjFam at hd
  induction l with
  | nil => cases h
  | cons x xs ih =>
    rw [List.pairwise_cons] at hd
    rcases List.mem_cons.mp h with rfl | h1 <;> rcases List.mem_cons.mp h' with rfl | h1'
    · rfl
    · exact absurd (by rw [BinT.items_skel]; exact ha') (hd.1 d' h1' a (by rw [BinT.items_skel]; exact ha))
    · exact absurd (by rw [BinT.items_skel]; exact ha) (hd.1 d h1 a (by rw [BinT.items_skel]; exact ha'))
    · exact ih hd.2 h1 h1'

theorem disjFam_of_nodup {l : List BinT} (hnd : (l.flatMap BinT.leaves).Nodup) :
    DisjFam BinT.skel l := by
  unfold DisjFam
  refine (pairwise_disjoint_of_nodup_flatMap hnd).imp ?_
  intro d d' h x hx; rw [BinT.items_skel] at hx ⊢; exact h x hx

/-- `graft` with the `ignore` set of `arrange_leaves` (the leaf sets of the
    items being arranged), run on the actual tree, produces exactly the trees
    of the item-level `graft`: the test stops at every item and at no
    skeleton node, because the items have pairwise disjoint leaf sets. -/
theorem graftIgn_subst (x : BinT) (S : BTree BinT) (hS : DisjFam BinT.skel S.items) (s : BTree BinT)
    (hsub : ∀ d ∈ s.items, d ∈ S.items) (hs : DisjFam BinT.skel s.items) :
    graftIgn (S.items.map BinT.leaves) x (subst s) = (graft x s).map subst := by
  induction s with
  | item d =>
    cases d with
    | leaf i => simp [subst, graftIgn, graft]
    | node a l r =>
      have : (S.items.map BinT.leaves).any (sameSet (l.leaves ++ r.leaves)) = true := by
        rw [List.any_eq_true]
        exact ⟨(BinT.node a l r).leaves,
          List.mem_map.mpr ⟨BinT.node a l r, hsub _ (by simp [BTree.items]), rfl⟩, by
            show sameSet (l.leaves ++ r.leaves) (l.leaves ++ r.leaves) = true
            exact sameSet_refl _⟩
      simp [subst, graftIgn, graft, this]
  | node l r ihl ihr =>
    have hsl : ∀ d ∈ l.items, d ∈ S.items := fun d hd => hsub d (by simp [BTree.items, hd])
    have hsr : ∀ d ∈ r.items, d ∈ S.items := fun d hd => hsub d (by simp [BTree.items, hd])
    have hs' := hs
    simp only [DisjFam, BTree.items, List.pairwise_append] at hs'
    have hno : (S.items.map BinT.leaves).any
        (sameSet ((subst l).leaves ++ (subst r).leaves)) = false := by
      rw [Bool.eq_false_iff]
      intro hany
      rw [List.any_eq_true] at hany
      obtain ⟨L, hL, hsame⟩ := hany
      obtain ⟨d, hd, rfl⟩ := List.mem_map.mp hL
      obtain ⟨d1, hd1⟩ := BTree.exists_mem_items l
      obtain ⟨d2, hd2⟩ := BTree.exists_mem_items r
      obtain ⟨a1, ha1⟩ : ∃ a, a ∈ d1.leaves := by
        cases hx : d1.leaves with
        | nil => exact absurd hx (BinT.leaves_ne_nil d1)
        | cons a _ => exact ⟨a, by simp⟩
      have hin1 : a1 ∈ (subst l).leaves ++ (subst r).leaves := by
        rw [leaves_subst, leaves_subst, List.mem_append]
        exact Or.inl (List.mem_flatMap.mpr ⟨d1, hd1, ha1⟩)
      have e1 : d1 = d := eq_of_share hS (hsl d1 hd1) hd ha1 (mem_of_sameSet hsame hin1)
      obtain ⟨a2, ha2⟩ : ∃ a, a ∈ d2.leaves := by
        cases hx : d2.leaves with
        | nil => exact absurd hx (BinT.leaves_ne_nil d2)
        | cons a _ => exact ⟨a, by simp⟩
      have hin2 : a2 ∈ (subst l).leaves ++ (subst r).leaves := by
        rw [leaves_subst, leaves_subst, List.mem_append]
        exact Or.inr (List.mem_flatMap.mpr ⟨d2, hd2, ha2⟩)
      have e2 : d2 = d := eq_of_share hS (hsr d2 hd2) hd ha2 (mem_of_sameSet hsame hin2)
      subst e1
      subst e2
      exact hs'.2.2 _ hd1 _ hd2 a1 (by rw [BinT.items_skel]; exact ha1)
        (by rw [BinT.items_skel]; exact ha1)
    have hl := ihl hsl hs'.1
    have hr := ihr hsr hs'.2.1
    simp only [subst, graftIgn, hno, graft, List.map_cons, List.map_append, List.map_map, hl, hr]
    simp [Function.comp_def, subst]

end SR.Bin
