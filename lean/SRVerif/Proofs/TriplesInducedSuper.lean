/-
  Supertrees display every induced triple of every input tree
  (`supertree`, `all_supertrees`), and `supertree` succeeds whenever the input
  trees are compatible.
-/
import SRVerif.Proofs.TriplesInduced

namespace SR.Tri

open SR SR.DS LTree Spec

/-- What `trees_to_triples` returns on binary trees: a duplicate-free list of
    the leaves of all trees and a duplicate-free list of all their BreakUp
    triples. -/
theorem treesToTriples_spec {ts : List LTree} (hb : ∀ t, t ∈ ts → t.isBinary = true) :
    ∃ L trs, treesToTriples ts = some (L, trs) ∧ L.Nodup ∧
      (∀ x, x ∈ L ↔ ∃ t, t ∈ ts ∧ x ∈ t.leaves) ∧
      (∀ tr, tr ∈ trs ↔ ∃ t, t ∈ ts ∧ tr ∈ innerTr t) := by
  refine ⟨dedup (ts.flatMap (fun t => t.leaves)), dedup (ts.flatMap (fun t => innerTr t)), ?_,
    nodup_dedup _, ?_, ?_⟩
  · simp only [treesToTriples, mapM_treeToTriples hb, Option.map_some, List.flatMap_map]
  · intro x; rw [mem_dedup, List.mem_flatMap]
  · intro tr; rw [mem_dedup, List.mem_flatMap]

/-- The triples handed to BUILD / AllTrees by `supertree` / `all_supertrees`
    are in scope. -/
theorem treesToTriples_scope {ts : List LTree} (hb : ∀ t, t ∈ ts → t.isBinary = true)
    (hn : ∀ t, t ∈ ts → t.leaves.Nodup) {L : List Nat} {trs : List Triple}
    (hL : ∀ x, x ∈ L ↔ ∃ t, t ∈ ts ∧ x ∈ t.leaves)
    (hT : ∀ tr, tr ∈ trs ↔ ∃ t, t ∈ ts ∧ tr ∈ innerTr t) :
    (∀ tr, tr ∈ trs → tr.1 ∈ L ∧ tr.2.1 ∈ L ∧ tr.2.2 ∈ L) ∧ Proper trs := by
  constructor
  · intro tr htr
    obtain ⟨t, ht, hti⟩ := (hT tr).mp htr
    obtain ⟨a, b, c⟩ := innerTr_inside t (hb t ht) tr hti
    exact ⟨(hL _).mpr ⟨t, ht, a⟩, (hL _).mpr ⟨t, ht, b⟩, (hL _).mpr ⟨t, ht, c⟩⟩
  · intro tr htr
    obtain ⟨t, ht, hti⟩ := (hT tr).mp htr
    exact (innerTr_displayed t (hb t ht) (hn t ht) tr hti).1

/-- A tree that is `Good` for the triples of `trees_to_triples` displays every
    induced triple of every input tree. -/
theorem good_displays_all {ts : List LTree} (hb : ∀ t, t ∈ ts → t.isBinary = true)
    (hn : ∀ t, t ∈ ts → t.leaves.Nodup) {L : List Nat} {trs : List Triple}
    (hL : ∀ x, x ∈ L ↔ ∃ t, t ∈ ts ∧ x ∈ t.leaves)
    (hT : ∀ tr, tr ∈ trs ↔ ∃ t, t ∈ ts ∧ tr ∈ innerTr t) {S : LTree} (hg : Good trs L S) :
    S.leaves.Nodup ∧ (∀ x, x ∈ S.leaves ↔ ∃ t, t ∈ ts ∧ x ∈ t.leaves) ∧
    ∀ t, t ∈ ts → ∀ tr, proper tr = true → displays t tr = true → displays S tr = true := by
  obtain ⟨hin, _⟩ := treesToTriples_scope hb hn hL hT
  refine ⟨hg.nodup, fun x => (hg.mem x).trans (hL x), ?_⟩
  intro t ht
  apply induced_displayed hg.nodup t (hb t ht) (hn t ht)
  · intro x hx; exact (hg.mem x).mpr ((hL x).mpr ⟨t, ht, hx⟩)
  · intro tr htr
    have htrs : tr ∈ trs := (hT tr).mpr ⟨t, ht, htr⟩
    exact hg.disp tr htrs ((inside_iff L tr).mpr (hin tr htrs))

/-- `supertree`: the returned tree displays every induced triple. -/
theorem supertree_displays_all {ts : List LTree} (hb : ∀ t, t ∈ ts → t.isBinary = true)
    (hn : ∀ t, t ∈ ts → t.leaves.Nodup) {S : LTree} (h : supertree ts = some (some S)) :
    S.leaves.Nodup ∧ (∀ x, x ∈ S.leaves ↔ ∃ t, t ∈ ts ∧ x ∈ t.leaves) ∧
    ∀ t, t ∈ ts → ∀ tr, proper tr = true → displays t tr = true → displays S tr = true := by
  obtain ⟨L, trs, hE, hLn, hL, hT⟩ := treesToTriples_spec hb
  obtain ⟨hin, hp⟩ := treesToTriples_scope hb hn hL hT
  simp only [supertree, hE, Option.map_some, Option.some.injEq] at h
  exact good_displays_all hb hn hL hT
    (treeFromTriples_good hLn (fun tr htr => ⟨(hin tr htr).1, (hin tr htr).2.1⟩) hp h)

/-- `all_supertrees`: every returned tree is binary and displays every induced
    triple; the returned trees are pairwise different. -/
theorem allSupertrees_displays_all {ts : List LTree} (hb : ∀ t, t ∈ ts → t.isBinary = true)
    (hn : ∀ t, t ∈ ts → t.leaves.Nodup) {Ss : List LTree} (h : allSupertrees ts = some Ss) :
    (∀ S, S ∈ Ss → S.isBinary = true ∧ S.leaves.Nodup ∧
      (∀ x, x ∈ S.leaves ↔ ∃ t, t ∈ ts ∧ x ∈ t.leaves) ∧
      ∀ t, t ∈ ts → ∀ tr, proper tr = true → displays t tr = true → displays S tr = true) ∧
    Ss.Pairwise (fun t u => sameClades t u = false) := by
  obtain ⟨L, trs, hE, hLn, hL, hT⟩ := treesToTriples_spec hb
  obtain ⟨hin, hp⟩ := treesToTriples_scope hb hn hL hT
  have hk : Known L trs := fun tr htr => ⟨(hin tr htr).1, (hin tr htr).2.1⟩
  simp only [allSupertrees, hE, Option.map_some, Option.some.injEq] at h
  subst h
  refine ⟨?_, allTreesFromTriples_distinct hLn hk hp⟩
  intro S hS
  obtain ⟨hg, hbin⟩ := allTreesFromTriples_good hLn hk hp hS
  exact ⟨hbin, good_displays_all hb hn hL hT hg⟩

/-- `supertree` succeeds on compatible inputs: if some tree on the union of
    the leaves displays every (BreakUp, hence every induced) triple of every
    input tree, `supertree` returns a tree. -/
theorem supertree_complete {ts : List LTree} (hb : ∀ t, t ∈ ts → t.isBinary = true)
    (hn : ∀ t, t ∈ ts → t.leaves.Nodup) (hne : ts ≠ []) {U : LTree} (hU : U.leaves.Nodup)
    (hUl : ∀ t, t ∈ ts → ∀ x, x ∈ t.leaves → x ∈ U.leaves)
    (hUd : ∀ t, t ∈ ts → ∀ tr, proper tr = true → displays t tr = true → displays U tr = true) :
    ∃ S, supertree ts = some (some S) := by
  obtain ⟨L, trs, hE, hLn, hL, hT⟩ := treesToTriples_spec hb
  obtain ⟨hin, hp⟩ := treesToTriples_scope hb hn hL hT
  have hLne : L ≠ [] := by
    cases ts with
    | nil => exact absurd rfl hne
    | cons t ts =>
      have hbt := hb t (by simp)
      obtain ⟨x, hx⟩ := List.exists_mem_of_ne_nil _ (binary_leaves_ne t hbt)
      have : x ∈ L := (hL x).mpr ⟨t, by simp, hx⟩
      intro h; rw [h] at this; cases this
  have hsome : (treeFromTriples L trs).isSome = true := by
    apply treeFromTriples_complete hLn hLne hU
    · intro x hx
      obtain ⟨t, ht, hxt⟩ := (hL x).mp hx
      exact hUl t ht x hxt
    · intro tr htr
      obtain ⟨t, ht, hti⟩ := (hT tr).mp htr
      obtain ⟨hpr, hdt⟩ := innerTr_displayed t (hb t ht) (hn t ht) tr hti
      exact ⟨(inside_iff L tr).mpr (hin tr htr), hUd t ht tr hpr hdt⟩
  obtain ⟨S, hS⟩ := Option.isSome_iff_exists.mp hsome
  exact ⟨S, by simp only [supertree, hE, Option.map_some, hS]⟩

end SR.Tri
