/-
  C09, monotonicity clause: raising unit costs (pointwise, the transfer cost in
  the extended order) never lowers a cell of the specification's table
  `Spec.optTable`, hence never lowers `Spec.optimum`.  A cell that is finite
  under the cheaper vector may disappear (become infinite) under the dearer one
  — when the transfer cost becomes infinite — so the tables are related by
  domination, not cell by cell.  Also: the evaluator itself is monotone, for
  EVERY solution (`totalCost_mono`).
-/
import SRVerif.Proofs.OptScale

namespace SR

open SR.EventLog

/-! ### The evaluator is monotone in the unit costs -/

theorem localRecCost_mono {c d : Costs} (h : leCosts c d) (s a b : Path) :
    Cost.le (localRecCost c s a b) (localRecCost d s a b) = true := by
  obtain ⟨h1, h2, h3, h4, _⟩ := h
  unfold localRecCost
  cases internalEvent s a b <;> simp only []
  · exact Cost.le_refl _
  · exact Cost.le_refl _
  · exact fin_le_fin (Nat.add_le_add h1 (Nat.mul_le_mul_right _ h4))
  · exact fin_le_fin (Nat.add_le_add h2 (Nat.mul_le_mul_right _ h4))
  · exact Cost.add_le_add h3 (fin_le_fin (Nat.mul_le_mul_right _ h4))

theorem recCost_mono {c d : Costs} (h : leCosts c d) (o : OTree) (sol : Sol) :
    Cost.le (recCost c o sol) (recCost d o sol) = true := by
  induction o generalizing sol with
  | leaf given f =>
    cases sol with
    | leaf s g => simp only [recCost]; exact Cost.le_refl _
    | node s g l r => exact Cost.le_refl _
  | node ol or ihl ihr =>
    cases sol with
    | leaf s g => exact Cost.le_refl _
    | node s g l r =>
      simp only [recCost]
      cases internalEvent s l.sp r.sp <;> simp only []
      · exact Cost.add_le_add (localRecCost_mono h _ _ _) (Cost.add_le_add (ihl l) (ihr r))
      · exact Cost.le_refl _
      · exact Cost.add_le_add (localRecCost_mono h _ _ _) (Cost.add_le_add (ihl l) (ihr r))
      · exact Cost.add_le_add (localRecCost_mono h _ _ _) (Cost.add_le_add (ihl l) (ihr r))
      · exact Cost.add_le_add (localRecCost_mono h _ _ _) (Cost.add_le_add (ihl l) (ihr r))

/-- **Monotonicity of the evaluator, for every solution** (no validity
    hypothesis; `C06_linear_mono` is the instance for valid solutions). -/
theorem totalCost_mono {c d : Costs} (h : leCosts c d) (mode : LabelMode) (o : OTree) (sol : Sol) :
    Cost.le (totalCost c mode o sol) (totalCost d mode o sol) = true := by
  have h5 := h.2.2.2.2
  unfold totalCost
  cases mode with
  | plain =>
    simp only [labelingCost]
    exact Cost.add_le_add (recCost_mono h o sol) (Cost.le_refl _)
  | ordered =>
    simp only [labelingCost]
    cases ordLosses sol.fam (subseqComplete sol.fam) sol with
    | none => exact Cost.le_refl _
    | some n =>
      exact Cost.add_le_add (recCost_mono h o sol) (fin_le_fin (Nat.mul_le_mul_left n h5))
  | unordered =>
    simp only [labelingCost]
    cases unordLosses sol with
    | none => exact Cost.le_refl _
    | some n =>
      exact Cost.add_le_add (recCost_mono h o sol) (fin_le_fin (Nat.mul_le_mul_left n h5))

namespace Spec

theorem localCost_mono {c d : Costs} (h : leCosts c d) (md : ModeData) (whole : OTree) (p s : Path)
    (f : List Nat) (a : Path) (fa : List Nat) (b : Path) (fb : List Nat) :
    Cost.le (localCost c md whole p s f a fa b fb) (localCost d md whole p s f a fa b fb) = true := by
  unfold localCost
  split
  · exact Cost.le_refl _
  · simp only []
    split
    · exact Cost.add_le_add (localRecCost_mono h _ _ _)
        (fin_le_fin (Nat.mul_le_mul_left _ h.2.2.2.2))
    · exact Cost.le_refl _

/-- Table `T` dominates table `T'`: every cell of `T'` has a cell of `T` with the
    same root state and no larger value. -/
def Dominates (T T' : List OCell) : Prop :=
  ∀ d' ∈ T', ∃ d ∈ T, d.sp = d'.sp ∧ d.fam = d'.fam ∧ Cost.le d.cost d'.cost = true

theorem Dominates.refl (T : List OCell) : Dominates T T :=
  fun d hd => ⟨d, hd, rfl, rfl, Cost.le_refl _⟩

theorem nodeCell_sp_fam {lc : OCell → OCell → Cost} {keep : Bool} {s : Path} {f : List Nat}
    {L R : List OCell} {d : OCell} (h : nodeCell lc keep s f L R = some d) :
    d.sp = s ∧ d.fam = f := by
  unfold nodeCell at h
  simp only [] at h
  split at h
  · cases h
  · injection h with h; subst h; exact ⟨rfl, rfl⟩

theorem nodeCell_mono (lc lc' : OCell → OCell → Cost)
    (hlc : ∀ cl cr cl' cr', cl.sp = cl'.sp → cl.fam = cl'.fam → cr.sp = cr'.sp → cr.fam = cr'.fam →
      Cost.le (lc cl cr) (lc' cl' cr') = true)
    (keep keep' : Bool) (s : Path) (f : List Nat) (L R L' R' : List OCell)
    (hL : Dominates L L') (hR : Dominates R R') (d' : OCell)
    (h : nodeCell lc' keep' s f L' R' = some d') :
    ∃ d, nodeCell lc keep s f L R = some d ∧ Cost.le d.cost d'.cost = true := by
  unfold nodeCell at h ⊢
  simp only [] at h ⊢
  generalize hc' : (L'.flatMap fun cl => R'.map fun cr =>
    (lc' cl cr + (cl.cost + cr.cost), cl, cr)) = cands' at h
  generalize hc : (L.flatMap fun cl => R.map fun cr =>
    (lc cl cr + (cl.cost + cr.cost), cl, cr)) = cands
  split at h
  · cases h
  · rename_i hfin
    injection h with h
    have hd' : d'.cost = Cost.minList (cands'.map (·.1)) := by rw [← h]
    -- the minimum under the dearer costs is attained by some pair of cells
    rcases Cost.minList_mem_or_inf (cands'.map (·.1)) with hinf | hmem
    · rw [hinf] at hfin; exact absurd rfl hfin
    · obtain ⟨x, hx, hx1⟩ := List.mem_map.mp hmem
      rw [← hc'] at hx
      obtain ⟨cl', hcl', hx⟩ := List.mem_flatMap.mp hx
      obtain ⟨cr', hcr', hx⟩ := List.mem_map.mp hx
      obtain ⟨cl, hcl, e1, e2, l1⟩ := hL cl' hcl'
      obtain ⟨cr, hcr, e3, e4, l2⟩ := hR cr' hcr'
      have hy : (lc cl cr + (cl.cost + cr.cost), cl, cr) ∈ cands := by
        rw [← hc]
        exact List.mem_flatMap.mpr ⟨cl, hcl, List.mem_map.mpr ⟨cr, hcr, rfl⟩⟩
      have hle : Cost.le (Cost.minList (cands.map (·.1))) (Cost.minList (cands'.map (·.1))) = true := by
        refine Cost.le_trans (Cost.minList_le (List.mem_map.mpr ⟨_, hy, rfl⟩)) ?_
        rw [← hx1, ← hx]
        exact Cost.add_le_add (hlc cl cr cl' cr' e1 e2 e3 e4) (Cost.add_le_add l1 l2)
      have hfin2 : ¬ (Cost.minList (cands.map (·.1))).isInf = true := by
        intro e
        cases hm : Cost.minList (cands.map (·.1)) with
        | fin n => rw [hm] at e; cases e
        | inf =>
          rw [hm] at hle
          cases hm' : Cost.minList (cands'.map (·.1)) with
          | fin n => rw [hm'] at hle; simp [Cost.le, Cost.lt] at hle
          | inf => rw [hm'] at hfin; exact hfin rfl
      rw [if_neg hfin2]
      exact ⟨_, rfl, by rw [hd']; exact hle⟩

/-- **The table under the cheaper costs dominates the table under the dearer
    ones** (any `keep` flags: solutions are not compared). -/
theorem optTable_mono {c d : Costs} (h : leCosts c d) (S : RTree) (md : ModeData)
    (base keep keep' : Bool) (whole : OTree) (p : Path) (o : OTree) :
    Dominates (optTable c S md base keep whole p o) (optTable d S md base keep' whole p o) := by
  induction o generalizing p with
  | leaf sp f =>
    intro d' hd'
    simp only [optTable, List.mem_singleton] at hd'
    subst hd'
    exact ⟨_, List.mem_singleton.mpr rfl, rfl, rfl, Cost.le_refl _⟩
  | node l r ihl ihr =>
    intro d' hd'
    rw [optTable_node] at hd' ⊢
    obtain ⟨s, hs, hd'⟩ := List.mem_flatMap.mp hd'
    obtain ⟨f, hf, hd'⟩ := List.mem_filterMap.mp hd'
    obtain ⟨d0, hd0, hle⟩ := nodeCell_mono
      (fun cl cr => localCost c md whole p s f cl.sp cl.fam cr.sp cr.fam)
      (fun cl cr => localCost d md whole p s f cl.sp cl.fam cr.sp cr.fam)
      (by
        intro cl cr cl' cr' e1 e2 e3 e4
        simp only [e1, e2, e3, e4]
        exact localCost_mono h _ _ _ _ _ _ _ _ _)
      keep keep' s f _ _ _ _ (ihl (p ++ [0])) (ihr (p ++ [1])) d' hd'
    obtain ⟨a1, a2⟩ := nodeCell_sp_fam hd0
    obtain ⟨b1, b2⟩ := nodeCell_sp_fam hd'
    exact ⟨d0, List.mem_flatMap.mpr ⟨s, hs, List.mem_filterMap.mpr ⟨f, hf, hd0⟩⟩,
      by rw [a1, b1], by rw [a2, b2], hle⟩

/-- **Raising unit costs never lowers the optimum.** -/
theorem optimum_mono {c d : Costs} (h : leCosts c d) (S : RTree) (mode : LabelMode)
    (base keep keep' : Bool) (o : OTree) (pre : Option (List Nat)) :
    Cost.le (optimum c S mode base keep o pre).1 (optimum d S mode base keep' o pre).1 = true := by
  unfold optimum
  simp only []
  rcases Cost.minList_mem_or_inf
    (((modeDatas mode o pre).flatMap fun md => optTable d S md base keep' o [] o).map (·.cost))
    with hinf | hmem
  · rw [hinf]; exact Cost.le_inf _
  · obtain ⟨d', hd', e⟩ := List.mem_map.mp hmem
    obtain ⟨md, hmd, hd'⟩ := List.mem_flatMap.mp hd'
    obtain ⟨d0, hd0, _, _, hle⟩ := optTable_mono h S md base keep keep' o [] o d' hd'
    rw [← e]
    refine Cost.le_trans (Cost.minList_le (List.mem_map.mpr ⟨d0, ?_, rfl⟩)) hle
    exact List.mem_flatMap.mpr ⟨md, hmd, hd0⟩

end Spec

end SR
