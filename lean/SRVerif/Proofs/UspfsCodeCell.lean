/-
  One table cell of the code model against one `entry` of the label DP.

  * `corr_combine`   `Entry.combine` of two role entries with `_make_event_combinator`
      offers (on finite values) what `Agg.comb` of the two role aggregates offers;
  * `corr_entryBatch` hence the batch of six `combine` results handed to
      `table[root_object][root_species][kind].update(…)` agrees with `entryCands`;
  * `cell_of_corr`   `EntryProxy.update` of a fresh cell: not instantiated iff the minimum
      is infinite; otherwise value = minimum and tags = the tag pairs attaining it;
  * `cellSpec`       the cell of the code model as a function of the object subtree
      (no threaded table): `cellSpec_rowOk` — by induction on the object tree — its
      values are the values of `dpTable (unAlg c)`, cell by cell (`RowOk`), and
      `cellSpec_node` relates its tags to the candidates of `entry`.
-/
import SRVerif.Proofs.UspfsCodeRoles
import SRVerif.Proofs.LabelDPMain

namespace SR.UspfsCode

open SR Cost Path

/-! ### `combine` -/

theorem corr_combine {a b : Entry OAsg} {A B : Agg OAsg} (ha : Rel a A) (hb : Rel b B) (e : Cost) :
    Corr (entryCands (a.combine b (evComb (Cost.toExt e)))) (Agg.comb e A B) := by
  -- the combined entry and its invariant
  let pairs := a.infos.flatMap (fun x => b.infos.map (fun y => (x, y)))
  let cs := pairs.map (fun p => evComb (Cost.toExt e) a.value p.1 b.value p.2)
  have hE : a.combine b (evComb (Cost.toExt e)) = Entry.update (Entry.init .min .all) cs := by
    simp only [Entry.combine, ha.merge, ha.retain, cs, pairs]
  have hI : Entry.Inv .min .all cs (a.combine b (evComb (Cost.toExt e))) := by
    rw [hE]; simpa using Entry.inv_update (Entry.inv_init .min .all) cs
  have hv : Cost.toExt e + a.value + b.value = Cost.toExt (e + A.val + B.val) := by
    rw [ha.value, hb.value, toExt_add, toExt_add]
  have hcs : ∀ cd, cd ∈ cs ↔ ∃ x ∈ a.infos, ∃ y ∈ b.infos,
      cd = { value := Cost.toExt (e + A.val + B.val), info := some (x, y) } := by
    intro cd
    simp only [cs, pairs, List.mem_map, List.mem_flatMap, evComb, hv]
    constructor
    · rintro ⟨p, ⟨x, hx, y, hy, rfl⟩, rfl⟩; exact ⟨x, hx, y, hy, rfl⟩
    · rintro ⟨x, hx, y, hy, rfl⟩; exact ⟨(x, y), ⟨x, hx, y, hy, rfl⟩, rfl⟩
  constructor
  · intro cd hcd
    simp only [entryCands, List.mem_map] at hcd
    obtain ⟨t, ht, rfl⟩ := hcd
    obtain ⟨c0, hc0, _, hval⟩ := (hI.all rfl t).mp ht
    obtain ⟨x, _, y, _, rfl⟩ := (hcs c0).mp hc0
    exact ⟨_, t, by rw [← hval]⟩
  · intro n t
    obtain ⟨x, y⟩ := t
    rw [Agg.mem_comb]
    simp only [entryCands, List.mem_map, Cand.mk.injEq, Option.some.injEq]
    constructor
    · rintro ⟨t, ht, hval, rfl⟩
      obtain ⟨c0, hc0, hi, hval0⟩ := (hI.all rfl _).mp ht
      obtain ⟨x', hx', y', hy', rfl⟩ := (hcs c0).mp hc0
      simp only [Option.some.injEq, Prod.mk.injEq] at hi
      obtain ⟨rfl, rfl⟩ := hi
      simp only at hval0
      rw [hval] at hval0
      have hsum : e + A.val + B.val = .fin n := toExt_eq_fin.mp hval0
      obtain ⟨_, _, hAB, hB, _⟩ := add_eq_fin hsum
      obtain ⟨_, _, _, hA, _⟩ := add_eq_fin hAB
      exact ⟨(ha.tags (by rw [hA]; simp) _).mp hx', (hb.tags (by rw [hB]; simp) _).mp hy',
        hsum.symm⟩
    · rintro ⟨hx, hy, hsum⟩
      obtain ⟨_, _, hAB, hB, _⟩ := add_eq_fin hsum.symm
      obtain ⟨_, _, _, hA, _⟩ := add_eq_fin hAB
      have hx' := (ha.tags (by rw [hA]; simp) _).mpr hx
      have hy' := (hb.tags (by rw [hB]; simp) _).mpr hy
      have hc0 : ({ value := Cost.toExt (e + A.val + B.val), info := some (x, y) } : Cand CAsg) ∈ cs :=
        (hcs _).mpr ⟨x, hx', y, hy', rfl⟩
      -- the combined value is the common value of the candidates
      have hval : (a.combine b (evComb (Cost.toExt e))).value = .fin (n : Int) := by
        have hopt := hI.optimal _ hc0
        simp only [Entry.better, ← hsum, toExt_fin] at hopt
        rcases hI.attained with h | ⟨c1, hc1, h1⟩
        · rw [h] at hopt; simp [Entry.sentinel, ExtInt.lt] at hopt
        · obtain ⟨_, _, _, _, rfl⟩ := (hcs c1).mp hc1
          rw [← h1, ← hsum]; rfl
      refine ⟨(x, y), (hI.all rfl _).mpr ⟨_, hc0, rfl, ?_⟩, hval, rfl⟩
      rw [hval, ← hsum]; rfl

/-- `Choices` in relation with `Roles`, role by role. -/
def ChoicesRel (ch : Choices) (r : Roles OAsg) : Prop := ∀ ρ, Rel (ch.get ρ) (r.get ρ)

theorem corr_entryBatch (c : Costs) {a b : Choices} {r0 r1 : Roles OAsg} (ha : ChoicesRel a r0)
    (hb : ChoicesRel b r1) : Corr (entryBatch c a b) (SR.entryCands c r0 r1) := by
  unfold entryBatch SR.entryCands
  have h1 := corr_combine (ha .left) (hb .right) (.fin c.spe)
  have h2 := corr_combine (ha .right) (hb .left) (.fin c.spe)
  have h3 := corr_combine (ha .cons) (hb .seg) (.fin c.dup)
  have h4 := corr_combine (ha .seg) (hb .cons) (.fin c.dup)
  have h5 := corr_combine (ha .cons) (hb .sep) c.hgt
  have h6 := corr_combine (ha .sep) (hb .cons) c.hgt
  exact ((((h1.append h2).append h3).append h4).append h5).append h6

/-! ### `EntryProxy.update` of a fresh cell -/

theorem cell_of_corr {τ : Type} [DecidableEq τ] {batch : List (Cand τ)} {xs : List (Cost × τ)}
    (hC : Corr batch xs) :
    (minList (xs.map (·.1)) = .inf → Cell.update .min .all none batch = none) ∧
    (minList (xs.map (·.1)) ≠ .inf →
      ∃ e, Cell.update .min .all none batch = some e ∧
        e.value = Cost.toExt (minList (xs.map (·.1))) ∧
        ∀ t, t ∈ e.infos ↔ (minList (xs.map (·.1)), t) ∈ xs) := by
  have hany : batch.any (fun x => !x.value.isInfinite) = true ↔ minList (xs.map (·.1)) ≠ .inf := by
    rw [List.any_eq_true, Ne, minList_eq_inf_iff]
    constructor
    · rintro ⟨cd, hcd, hfin⟩ hall
      obtain ⟨v, t, rfl⟩ := hC.shape cd hcd
      cases v with
      | inf => simp [ExtInt.isInfinite] at hfin
      | fin n =>
        have := hall _ (List.mem_map.mpr ⟨_, (hC.fin n t).mp hcd, rfl⟩)
        cases this
    · intro hne
      have : ∃ x ∈ xs.map (·.1), x ≠ .inf := by
        apply Classical.byContradiction
        intro h; apply hne; intro x hx
        apply Classical.byContradiction
        intro hx'; exact h ⟨x, hx, hx'⟩
      obtain ⟨x, hx, hxne⟩ := this
      obtain ⟨⟨v, t⟩, hp, rfl⟩ := List.mem_map.mp hx
      obtain ⟨n, rfl⟩ := ne_inf_iff.mp hxne
      exact ⟨_, (hC.fin n t).mpr hp, by simp [ExtInt.isInfinite]⟩
  constructor
  · intro hm
    have : batch.any (fun x => !x.value.isInfinite) = false := by
      cases h : batch.any (fun x => !x.value.isInfinite)
      · rfl
      · exact absurd hm (hany.mp h)
    simp [Cell.update, this]
  · intro hm
    have hI : Entry.Inv .min .all batch (Entry.update (Entry.init .min .all) batch) := by
      simpa using Entry.inv_update (Entry.inv_init .min .all) batch
    obtain ⟨hv, ht⟩ := minall_of_corr hI hC
    refine ⟨_, ?_, hv, ht hm⟩
    simp [Cell.update, hany.mpr hm]

/-! ### A cell of the code as a function of the object subtree -/

/-- The batch offered to `table[root_object][s][k]` when the children's rows are `rowL`, `rowR`. -/
def nodeBatch (c : Costs) (S : RTree) (a la ra : UnAnn) (rowL rowR : Row) (s : Path) (k : Kind) :
    List (Cand CAsg) :=
  entryBatch c ((childSub .all c S rowL s a.lcaSet la.lcaSet).get k)
    ((childSub .all c S rowR s a.lcaSet ra.lcaSet).get k)

/-- `table[object]` after `_compute_uspfs_table` (policy ALL), as a function of the object
    subtree alone (`Proofs/UspfsCodeTable.lean` shows that the threaded table holds it). -/
def cellSpec (c : Costs) (S : RTree) : ATree UnAnn → Row
  | .leaf _ sp => fun s k =>
    if s = sp ∧ k = .lca then Cell.update .min .all none [{ value := .fin 0, info := none }] else none
  | .node a l r => fun s k =>
    if s ∈ a.allowed then
      Cell.update .min .all none (nodeBatch c S a l.data r.data (cellSpec c S l) (cellSpec c S r) s k)
    else none

/-- The shape-and-data relation between the code's annotated tree and the label DP's:
    same `lca_sets`, `gain_sets`, leaf species; the same allowed species as SETS. -/
def Sim : ATree UnAnn → ATree UnAnn → Prop
  | .leaf a sp, .leaf b sq => sp = sq ∧ a.lcaSet = b.lcaSet ∧ a.gain = b.gain
  | .node a l r, .node b l' r' =>
    a.lcaSet = b.lcaSet ∧ a.gain = b.gain ∧ (∀ s, s ∈ a.allowed ↔ s ∈ b.allowed) ∧
      Sim l l' ∧ Sim r r'
  | _, _ => False

theorem Sim.data {t' t : ATree UnAnn} (h : Sim t' t) :
    t'.data.lcaSet = t.data.lcaSet ∧ t'.data.gain = t.data.gain := by
  cases t' <;> cases t <;> simp only [Sim] at h
  · exact ⟨h.2.1, h.2.2⟩
  · exact ⟨h.1, h.2.1⟩

/-- `unAlg` only looks at the `lcaSet` of the annotations. -/
theorem unAlg_congr (c : Costs) {a a' b b' : UnAnn} (h1 : a.lcaSet = a'.lcaSet)
    (h2 : b.lcaSet = b'.lcaSet) (k kc : Kind) :
    (unAlg c).conserv a k b kc = (unAlg c).conserv a' k b' kc ∧
    (unAlg c).segment a k b kc = (unAlg c).segment a' k b' kc := by
  simp only [unAlg, h1, h2, and_self]

theorem roles_congr_ann (c : Costs) (S : RTree) {a a' b b' : UnAnn} (h1 : a.lcaSet = a'.lcaSet)
    (h2 : b.lcaSet = b'.lcaSet) (s : Path) (k : Kind) (L : List (DCell Kind)) :
    roles (unAlg c) c S a s k b L = roles (unAlg c) c S a' s k b' L := by
  unfold roles
  congr 1
  funext r cell
  simp only [offer, (unAlg_congr c h1 h2 k cell.lab).1, (unAlg_congr c h1 h2 k cell.lab).2]

/-! ### `findCell` on `dpTable` -/

theorem findCell_eq_none {L : List (DCell Kind)} {t : Path × Kind} :
    findCell L t = none ↔ ∀ d ∈ L, cellTag d ≠ t := by
  unfold findCell
  rw [List.find?_eq_none]
  constructor
  · intro h d hd heq
    have := h d hd
    rw [cellTag_eq] at heq
    simp [heq.1, heq.2] at this
  · intro h d hd
    have := h d hd
    rw [Ne, cellTag_eq] at this
    simpa using this

theorem findCell_dpTable_leaf (c : Costs) (S : RTree) (keep : Bool) (a : UnAnn) (sp s : Path) (k : Kind) :
    findCell (dpTable (unAlg c) c S keep (.leaf a sp)) (s, k) =
      if s = sp ∧ k = .lca then
        some { sp := sp, lab := .lca, cost := .fin 0,
               sols := if keep then [LSol.leaf sp .lca] else [] }
      else none := by
  simp only [dpTable, findCell, unAlg, List.find?_cons, List.find?_nil]
  by_cases h : s = sp ∧ k = .lca
  · obtain ⟨rfl, rfl⟩ := h; simp
  · rw [if_neg h]
    have : (sp == s && Kind.lca == k) = false := by
      cases hh : (sp == s && Kind.lca == k)
      · rfl
      · simp only [Bool.and_eq_true, beq_iff_eq] at hh
        exact absurd ⟨hh.1.symm, hh.2.symm⟩ h
    simp [this]

theorem findCell_dpTable_node (c : Costs) (S : RTree) (keep : Bool) (a : UnAnn) (l r : ATree UnAnn)
    (s : Path) (k : Kind) :
    findCell (dpTable (unAlg c) c S keep (.node a l r)) (s, k) =
      if s ∈ a.allowed then
        entry (unAlg c) c S keep a s k l.data r.data (dpTable (unAlg c) c S keep l)
          (dpTable (unAlg c) c S keep r)
      else none := by
  have hlabs : k ∈ (unAlg c).labs a := by cases k <;> simp [unAlg]
  cases hf : findCell (dpTable (unAlg c) c S keep (.node a l r)) (s, k) with
  | some d =>
    obtain ⟨hd, htag⟩ := findCell_some hf
    obtain ⟨s', hs', k', _, he⟩ := mem_dpTable_node.mp hd
    have p := entry_eq_some _ _ _ _ _ _ _ _ _ _ he
    rw [cellTag_eq] at htag
    have e1 : s' = s := by rw [← p.1, htag.1]
    have e2 : k' = k := by rw [← p.2.1, htag.2]
    subst e1; subst e2
    have hs'' : s' ∈ a.allowed := hs'
    rw [if_pos hs'', he]
  | none =>
    rw [findCell_eq_none] at hf
    by_cases hs : s ∈ a.allowed
    · rw [if_pos hs]
      cases he : entry (unAlg c) c S keep a s k l.data r.data (dpTable (unAlg c) c S keep l)
        (dpTable (unAlg c) c S keep r) with
      | none => rfl
      | some d =>
        have p := entry_eq_some _ _ _ _ _ _ _ _ _ _ he
        exact absurd (cellTag_eq.mpr ⟨p.1, p.2.1⟩) (hf d (mem_dpTable_node.mpr ⟨s, hs, k, hlabs, he⟩))
    · rw [if_neg hs]

theorem dp_isNode (c : Costs) (S : RTree) (keep : Bool) (t : ATree UnAnn) (hok : SpOk (unAlg c) S t)
    {d : DCell Kind} (hd : d ∈ dpTable (unAlg c) c S keep t) : S.isNode d.sp = true := by
  cases t with
  | leaf a sp => rw [mem_dpTable_leaf] at hd; rw [hd]; exact hok
  | node a l r =>
    obtain ⟨s, hs, k, _, he⟩ := mem_dpTable_node.mp hd
    have p := entry_eq_some _ _ _ _ _ _ _ _ _ _ he
    rw [p.1]; exact hok.1 s hs

/-! ### Cell by cell -/

/-- One internal node, given the children's rows: the code's cell against `entry`. -/
theorem node_cell (c : Costs) (S : RTree) (a b la ra lb rb : UnAnn)
    (h0 : a.lcaSet = b.lcaSet) (hl : la.lcaSet = lb.lcaSet) (hr : ra.lcaSet = rb.lcaSet)
    (rowL rowR : Row) (L R : List (DCell Kind)) (hL : RowOk S rowL L) (hR : RowOk S rowR R)
    (s : Path) (k : Kind) :
    let cell := Cell.update .min .all none (nodeBatch c S a la ra rowL rowR s k)
    (best (unAlg c) c S b s k lb rb L R = .inf → cell = none) ∧
    (best (unAlg c) c S b s k lb rb L R ≠ .inf →
      ∃ e, cell = some e ∧ e.value = Cost.toExt (best (unAlg c) c S b s k lb rb L R) ∧
        ∀ t, t ∈ e.infos ↔
          (best (unAlg c) c S b s k lb rb L R, t) ∈ cands (unAlg c) c S b s k lb rb L R) := by
  have hC : Corr (nodeBatch c S a la ra rowL rowR s k) (cands (unAlg c) c S b s k lb rb L R) := by
    unfold nodeBatch cands
    rw [← roles_congr_ann c S h0 hl, ← roles_congr_ann c S h0 hr]
    exact corr_entryBatch c (fun ρ => roles_rel c S rowL L hL a la s k ρ)
      (fun ρ => roles_rel c S rowR R hR a ra s k ρ)
  exact cell_of_corr hC

/-- **Cell-by-cell equality of the table values**: the row of the code's table at an object
    node carries the values of the label DP's cells of that node. -/
theorem cellSpec_rowOk (c : Costs) (S : RTree) (keep : Bool) :
    ∀ (t' t : ATree UnAnn), Sim t' t → SpOk (unAlg c) S t →
      RowOk S (cellSpec c S t') (dpTable (unAlg c) c S keep t) := by
  intro t'
  induction t' with
  | leaf a sp =>
    intro t hsim hok
    cases t with
    | node _ _ _ => simp [Sim] at hsim
    | leaf b sq =>
      obtain ⟨rfl, _, _⟩ := hsim
      refine ⟨?_, fun d hd => dp_isNode c S keep _ hok hd,
        fun d1 h1 d2 h2 h => cellTag_inj _ c S keep _ h1 h2 h⟩
      intro x kc
      simp only [cellSpec, cellCost, findCell_dpTable_leaf]
      by_cases h : x = sp ∧ kc = .lca
      · simp [h, Cell.update, Cell.value, ExtInt.isInfinite, Entry.update, Entry.update1, Entry.init,
          Entry.better, ExtInt.lt]
      · simp [h, Cell.value]
  | node a l' r' ihl ihr =>
    intro t hsim hok
    cases t with
    | leaf _ _ => simp [Sim] at hsim
    | node b l r =>
      obtain ⟨h0, _, hal, hsl, hsr⟩ := hsim
      have hL := ihl l hsl hok.2.1
      have hR := ihr r hsr hok.2.2
      refine ⟨?_, fun d hd => dp_isNode c S keep _ hok hd,
        fun d1 h1 d2 h2 h => cellTag_inj _ c S keep _ h1 h2 h⟩
      intro x kc
      simp only [cellSpec, cellCost, findCell_dpTable_node]
      by_cases hx : x ∈ a.allowed
      · rw [if_pos hx, if_pos ((hal x).mp hx)]
        have hn := node_cell c S a b l'.data r'.data l.data r.data h0 hsl.data.1 hsr.data.1
          _ _ _ _ hL hR x kc
        cases he : entry (unAlg c) c S keep b x kc l.data r.data (dpTable (unAlg c) c S keep l)
          (dpTable (unAlg c) c S keep r) with
        | none =>
          have := (entry_eq_none (unAlg c) c S b x kc l.data r.data _ _).mp he
          rw [hn.1 this]; rfl
        | some d =>
          have p := entry_eq_some _ _ _ _ _ _ _ _ _ _ he
          obtain ⟨e, hce, hv, _⟩ := hn.2 p.2.2.2.1
          rw [hce]; simp only [Cell.value]; rw [p.2.2.1]; exact hv
      · rw [if_neg hx, if_neg (fun h => hx ((hal x).mpr h))]; rfl

/-- The tags of an internal cell are the tag pairs attaining the value of `entry`. -/
theorem cellSpec_node (c : Costs) (S : RTree) (keep : Bool) (a b : UnAnn) (l' r' l r : ATree UnAnn)
    (hsim : Sim (.node a l' r') (.node b l r)) (hok : SpOk (unAlg c) S (.node b l r))
    (s : Path) (k : Kind) :
    let L := dpTable (unAlg c) c S keep l
    let R := dpTable (unAlg c) c S keep r
    (findCell (dpTable (unAlg c) c S keep (.node b l r)) (s, k) = none →
      cellSpec c S (.node a l' r') s k = none) ∧
    (∀ d, findCell (dpTable (unAlg c) c S keep (.node b l r)) (s, k) = some d →
      ∃ e, cellSpec c S (.node a l' r') s k = some e ∧ e.value = Cost.toExt d.cost ∧
        ∀ t, t ∈ e.infos ↔
          (best (unAlg c) c S b s k l.data r.data L R, t) ∈
            cands (unAlg c) c S b s k l.data r.data L R) := by
  intro L R
  obtain ⟨h0, _, hal, hsl, hsr⟩ := hsim
  have hL := cellSpec_rowOk c S keep l' l hsl hok.2.1
  have hR := cellSpec_rowOk c S keep r' r hsr hok.2.2
  have hn := node_cell c S a b l'.data r'.data l.data r.data h0 hsl.data.1 hsr.data.1
    _ _ _ _ hL hR s k
  simp only [findCell_dpTable_node, cellSpec]
  by_cases hs : s ∈ a.allowed
  · rw [if_pos hs, if_pos ((hal s).mp hs)]
    constructor
    · intro he
      exact hn.1 ((entry_eq_none (unAlg c) c S b s k l.data r.data _ _).mp he)
    · intro d he
      have p := entry_eq_some _ _ _ _ _ _ _ _ _ _ he
      obtain ⟨e, hce, hv, ht⟩ := hn.2 p.2.2.2.1
      exact ⟨e, hce, by rw [hv, p.2.2.1], ht⟩
  · rw [if_neg hs, if_neg (fun h => hs ((hal s).mpr h))]
    exact ⟨fun _ => rfl, fun d h => by cases h⟩

end SR.UspfsCode
