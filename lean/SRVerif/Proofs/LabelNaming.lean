/-
  C12 (bridge, names): from `label_internal` to `Naming.Ok`.

  `Naming.Ok` (`Proofs/SolOutput.lean`: names pairwise distinct and safe on the nodes of both
  trees) is the interface hypothesis of the cost-line theorems.  The CLI runs
  `label_internal` on the input before solving; this file derives `Naming.Ok` of the names
  AFTER that pass from what the input file gives.

  * `setNames_keeps`: renaming keeps the shape and the colours of the tree.
  * `paths_shapeNT`, `mem_shape_iff`: the nodes of a named tree are the paths of its shape.
  * `safeStr_mkName`: a generated name `prefix ++ k` is a word when the prefix is.
  * `labelNames_safe`: after the pass every name is safe as soon as the GIVEN names are.
  * `naming_of_tree`: a uniquely and safely named tree gives the two clauses of `Naming.Ok`
    for its own name function `nameFn`.
  * `labelTree_self`: the labelled tree is `ntOfC` of its own names / colours on the shape
    of the INPUT tree.
-/
import SRVerif.Proofs.SolOutputColour
import SRVerif.Proofs.CliRefineNewick

namespace SR.SolOut

open SR SR.Ser SR.Cli

/-! ### Renaming keeps shape and colours -/

def tagCol (x : Path × NT) : Path × Option String := (x.1, x.2.color)

mutual
  theorem setNames_keeps : ∀ (t : NT) (l : List String),
      shapeNT (setNames t l).1 = shapeNT t ∧ (setNames t l).1.pre.map tagCol = t.pre.map tagCol
    | .node n c cs, [] => by simp only [setNames, and_self]
    | .node n c cs, x :: r => by
      have h := setNamesL_keeps cs r
      simp only [setNames, shapeNT, NT.pre, List.map_cons, h.1, h.2 0]
      exact ⟨trivial, rfl⟩
  theorem setNamesL_keeps : ∀ (cs : List NT) (l : List String),
      shapeL (setNamesL cs l).1 = shapeL cs ∧
      ∀ k, (NT.preL (setNamesL cs l).1 k).map tagCol = (NT.preL cs k).map tagCol
    | [], l => by simp only [setNamesL, and_self, implies_true]
    | c :: cs, l => by
      have h1 := setNames_keeps c l
      have h2 := setNamesL_keeps cs (setNames c l).2
      refine ⟨by simp only [setNamesL, shapeL, h1.1, h2.1], fun k => ?_⟩
      simp only [setNamesL, NT.preL, List.map_append, List.map_map, h2.2 (k + 1)]
      congr 1
      have e : (tagCol ∘ fun x : Path × NT => (k :: x.1, x.2))
          = (fun y : Path × Option String => (k :: y.1, y.2)) ∘ tagCol := rfl
      rw [e, ← List.map_map, h1.2, List.map_map]
end

theorem shape_labelTree (pfx : String) (t : NT) : shapeNT (labelTree pfx t) = shapeNT t :=
  (setNames_keeps t _).1

theorem colours_labelTree (pfx : String) (t : NT) :
    (labelTree pfx t).pre.map tagCol = t.pre.map tagCol := (setNames_keeps t _).2

/-! ### Nodes of a named tree -/

theorem paths_shapeNT (t : NT) : t.pre.map (·.1) = (shapeNT t).preorder := by
  have h := paths_recol (colFn t) (ntOf (nameFn t) (shapeNT t))
  rw [recolNT_ntOf, ntOfC_self, paths_ntOf] at h
  exact h

theorem mem_shape_iff (t : NT) (p : Path) :
    p ∈ (shapeNT t).preorder ↔ (t.sub p).isSome = true := by
  rw [← paths_shapeNT, sub_isSome_iff_mem_paths]

theorem nameFn_mem_names {t : NT} {p : Path} (h : (t.sub p).isSome = true) :
    nameFn t p ∈ t.names := by
  obtain ⟨s, hs⟩ := Option.isSome_iff_exists.1 h
  unfold nameFn
  rw [NT.nameAt_of_sub hs]
  exact List.mem_map.mpr ⟨(p, s), (NT.mem_pre _ _ _).mpr hs, rfl⟩

theorem colFn_of_mem_pre {t : NT} {x : Path × NT} (h : x ∈ t.pre) : colFn t x.1 = x.2.color := by
  have := (NT.mem_pre t x.1 x.2).mp h
  simp only [colFn, this]

/-- A uniquely and safely named tree: its own name function is injective and safe on the
    nodes of its shape — the two clauses of `Naming.Ok` for that tree. -/
theorem naming_of_tree {t : NT} (hu : t.UniqueNames) (hs : ∀ x ∈ t.names, NT.safeStr x = true) :
    (∀ p ∈ (shapeNT t).preorder, ∀ q ∈ (shapeNT t).preorder, nameFn t p = nameFn t q → p = q) ∧
    (∀ p ∈ (shapeNT t).preorder, NT.safeStr (nameFn t p) = true) :=
  ⟨fun p hp q hq h => nameAt_inj hu ((mem_shape_iff t p).mp hp) ((mem_shape_iff t q).mp hq) h,
   fun p hp => hs _ (nameFn_mem_names ((mem_shape_iff t p).mp hp))⟩

/-- The colours a tree carries are `ColSafe` for its own colour function as soon as each is
    a safe word. -/
theorem colSafe_self {t : NT} (h : ∀ x ∈ t.pre, ∀ c, x.2.color = some c → NT.safeStr c = true) :
    ∀ p ∈ (shapeNT t).preorder, ∀ c, colFn t p = some c → NT.safeStr c = true := by
  intro p hp c hc
  obtain ⟨s, hs⟩ := Option.isSome_iff_exists.1 ((mem_shape_iff t p).mp hp)
  have hm : (p, s) ∈ t.pre := (NT.mem_pre _ _ _).mpr hs
  rw [colFn_of_mem_pre hm] at hc
  exact h _ hm c hc

/-! ### Generated names are words -/

theorem safeStr_mkName {pfx : String} (hp : pfx.toList.all NT.safeChar = true) (k : Nat) :
    NT.safeStr (mkName pfx k) = true := by
  have hne : Nat.toDigits 10 k ≠ [] := Nat.toDigits_ne_nil
  simp only [NT.safeStr, toList_mkName, Bool.and_eq_true, Bool.not_eq_true', List.all_append,
    List.isEmpty_eq_false_iff, ne_eq, List.append_eq_nil_iff, not_and]
  refine ⟨fun _ => hne, hp, ?_⟩
  rw [List.all_eq_true]
  intro c hc
  have := Nat.isDigit_of_mem_toDigits (by decide) (by decide) hc
  simp [NT.safeChar, Char.isAlphanum, this]

/-- After `label_internal` every name is a word, as soon as every GIVEN name is. -/
theorem labelNames_safe {pfx : String} (hp : pfx.toList.all NT.safeChar = true) (l : List String)
    (hs : ∀ x ∈ l, isUnnamed x = false → NT.safeStr x = true) :
    ∀ x ∈ labelNames pfx l, NT.safeStr x = true := by
  intro x hx
  rw [labelNames_eq] at hx
  rcases mem_of_rel (labelGoI_rel pfx l [] 0) hx with ⟨hm, hu⟩ | ⟨k, _, rfl⟩
  · exact hs x hm hu
  · exact safeStr_mkName hp k

/-- The labelled tree is the coloured named tree of its own names and colours on the shape of
    the input tree. -/
theorem labelTree_self (pfx : String) (t : NT) :
    labelTree pfx t
      = ntOfC (nameFn (labelTree pfx t)) (colFn (labelTree pfx t)) (shapeNT t) := by
  rw [← shape_labelTree pfx t, ntOfC_self]

/-- The colours of the labelled tree are those of the input tree. -/
theorem colours_labelTree_safe (pfx : String) {t : NT}
    (h : ∀ x ∈ t.pre, ∀ c, x.2.color = some c → NT.safeStr c = true) :
    ∀ x ∈ (labelTree pfx t).pre, ∀ c, x.2.color = some c → NT.safeStr c = true := by
  intro x hx c hc
  have hm : tagCol x ∈ (labelTree pfx t).pre.map tagCol := List.mem_map.mpr ⟨x, hx, rfl⟩
  rw [colours_labelTree] at hm
  obtain ⟨y, hy, he⟩ := List.mem_map.mp hm
  simp only [tagCol, Prod.mk.injEq] at he
  exact h y hy c (by rw [he.2]; exact hc)

end SR.SolOut
