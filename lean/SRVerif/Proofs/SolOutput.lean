/-
  C12 (bridge), part 1: the embedding of `Model/SolOutput.lean` lands in the domain of the
  C11 round-trip theorems (`RecOutput.WF` / `SRecOutput.WF`) as soon as the names are
  pairwise distinct and safe on the nodes of the two trees (`Naming.Ok`) and the solution
  is a valid reconciliation of the input (`Spec.validRec`: same shape, leaves in their
  species, no invalid event — what C04 proves of every returned solution).

  * `strCode_inj`: the family code of the evaluator is injective.
  * `pre_ntOf`: the nodes of `ntOf nm t` in pre-order are the paths of `t`, named by `nm`,
    without colour; hence unique names, safe names, `sub` = `isNode`.
  * `nodeMap_keys`, `leafMap_keys_sublist`: the keys of the embedded mappings are the nodes
    (the leaves) of the tree, each once.
  * `embInput_wf`, `embSInput_wf`, `embPlain_wf`, `embSuper_wf`.
-/
import SRVerif.Model.SolOutput
import SRVerif.Proofs.SerializeClasses
import SRVerif.Proofs.RTree
import SRVerif.Proofs.Enum

namespace SR.SolOut

open SR SR.Ser

/-! ### The family code -/

theorem char_toNat_lt (c : Char) : c.toNat < 4294967296 := c.val.toNat_lt

theorem charsCode_inj : ∀ a b : List Char, charsCode a = charsCode b → a = b
  | [], [], _ => rfl
  | [], d :: ds, h => by simp only [charsCode] at h; omega
  | c :: cs, [], h => by simp only [charsCode] at h; omega
  | c :: cs, d :: ds, h => by
    simp only [charsCode] at h
    have h1 := char_toNat_lt c
    have h2 := char_toNat_lt d
    have : c.toNat = d.toNat ∧ charsCode cs = charsCode ds := by omega
    rw [Char.toNat_inj.mp this.1, charsCode_inj cs ds this.2]

theorem strCode_inj (a b : String) (h : strCode a = strCode b) : a = b :=
  String.toList_inj.mp (charsCode_inj _ _ h)

/-! ### `ntOf` -/

def tagNT (x : Path × NT) : Path × String × Option String := (x.1, x.2.name, x.2.color)

def tagP (nm : Path → String) (q : Path) : Path × String × Option String := (q, nm q, none)

mutual
  theorem pre_ntOf : ∀ (nm : Path → String) (t : RTree),
      (ntOf nm t).pre.map tagNT = t.preorder.map (tagP nm)
    | nm, .node cs => by
      simp only [ntOf, NT.pre, RTree.preorder, List.map_cons]
      rw [preL_ntOfL nm cs 0]
      rfl
  theorem preL_ntOfL : ∀ (nm : Path → String) (cs : List RTree) (i : Nat),
      (NT.preL (ntOfL nm cs i) i).map tagNT = (RTree.preorderList cs i).map (tagP nm)
    | nm, [], i => by simp [ntOfL, NT.preL, RTree.preorderList]
    | nm, c :: cs, i => by
      simp only [ntOfL, NT.preL, RTree.preorderList, List.map_append, List.map_map]
      rw [preL_ntOfL nm cs (i + 1)]
      congr 1
      have h := pre_ntOf (fun q => nm (i :: q)) c
      have e1 : (tagNT ∘ fun x : Path × NT => (i :: x.1, x.2))
          = (fun y : Path × String × Option String => (i :: y.1, y.2)) ∘ tagNT := rfl
      rw [e1, ← List.map_map, h, List.map_map]
      rfl
end

theorem paths_ntOf (nm : Path → String) (t : RTree) :
    (ntOf nm t).pre.map (·.1) = t.preorder := by
  have h := congrArg (List.map (fun y : Path × String × Option String => y.1)) (pre_ntOf nm t)
  simpa [List.map_map, Function.comp_def, tagNT, tagP] using h

theorem names_ntOf (nm : Path → String) (t : RTree) :
    (ntOf nm t).names = t.preorder.map nm := by
  have h := congrArg (List.map (fun y : Path × String × Option String => y.2.1)) (pre_ntOf nm t)
  simpa [NT.names, List.map_map, Function.comp_def, tagNT, tagP] using h

theorem sub_ntOf_isSome (nm : Path → String) (t : RTree) (q : Path) :
    ((ntOf nm t).sub q).isSome = true ↔ t.isNode q = true := by
  rw [← RTree.mem_preorder_iff, ← paths_ntOf nm t]
  constructor
  · intro h
    obtain ⟨s, hs⟩ := Option.isSome_iff_exists.1 h
    exact List.mem_map.mpr ⟨(q, s), (NT.mem_pre _ _ _).mpr hs, rfl⟩
  · intro h
    obtain ⟨x, hx, rfl⟩ := List.mem_map.mp h
    have := (NT.mem_pre (ntOf nm t) x.1 x.2).mp hx
    rw [this]; rfl

theorem unique_ntOf {nm : Path → String} {t : RTree}
    (hinj : ∀ p ∈ t.preorder, ∀ q ∈ t.preorder, nm p = nm q → p = q) :
    (ntOf nm t).UniqueNames := by
  unfold NT.UniqueNames
  rw [names_ntOf]
  exact nodup_map_of_inj_on nm (RTree.nodup_preorder t) hinj

theorem safe_ntOf {nm : Path → String} {t : RTree}
    (hsafe : ∀ p ∈ t.preorder, NT.safeStr (nm p) = true) : (ntOf nm t).SafeNames := by
  intro x hx
  have h1 : tagNT x ∈ (ntOf nm t).pre.map tagNT := List.mem_map.mpr ⟨x, hx, rfl⟩
  rw [pre_ntOf] at h1
  obtain ⟨q, hq, he⟩ := List.mem_map.mp h1
  simp only [tagNT, tagP, Prod.mk.injEq] at he
  refine ⟨by rw [← he.2.1]; exact hsafe q hq, fun c hc => ?_⟩
  rw [← he.2.2] at hc
  cases hc

theorem keysIn_ntOf {ν : Type} (nm : Path → String) (t : RTree) {m : List (Path × ν)}
    (hn : (m.map (·.1)).Nodup) (hs : ∀ k ∈ m.map (·.1), k ∈ t.preorder) :
    KeysIn (ntOf nm t) m :=
  ⟨hn, fun x hx => (sub_ntOf_isSome nm t x.1).mpr
    ((RTree.mem_preorder_iff _ _).mp (hs x.1 (List.mem_map.mpr ⟨x, hx, rfl⟩)))⟩

/-! ### The embedded mappings -/

theorem map_fst_cons2 {β : Type} (i : Nat) (l : List (Path × β)) :
    (l.map (cons2 i)).map (·.1) = (l.map (·.1)).map (i :: ·) := by
  simp [List.map_map, Function.comp_def, cons2]

theorem nodeMap_keys {β : Type} (f : Path → List Nat → β) :
    ∀ s : Sol, (nodeMap f s).map (·.1) = s.shape.preorder
  | .leaf _ _ => by simp [nodeMap, Sol.shape, RTree.preorder, RTree.preorderList]
  | .node _ _ l r => by
    simp only [nodeMap, Sol.shape, RTree.preorder, RTree.preorderList, List.map_cons,
      List.map_append, map_fst_cons2, nodeMap_keys f l, nodeMap_keys f r, List.append_nil]

theorem leafMap_keys_sublist {β : Type} (f : Path → List Nat → β) :
    ∀ o : OTree, ((leafMap f o).map (·.1)).Sublist o.shape.preorder
  | .leaf _ _ => by simp [leafMap, OTree.shape, RTree.preorder, RTree.preorderList]
  | .node l r => by
    simp only [leafMap, OTree.shape, RTree.preorder, RTree.preorderList, List.map_append,
      map_fst_cons2, List.append_nil]
    exact List.Sublist.cons _ (List.Sublist.append ((leafMap_keys_sublist f l).map _)
      ((leafMap_keys_sublist f r).map _))

theorem nodeMap_map {β γ : Type} (f : Path → List Nat → β) (g : β → γ) :
    ∀ s : Sol, (nodeMap f s).map (fun x => (x.1, g x.2)) = nodeMap (fun a b => g (f a b)) s
  | .leaf _ _ => rfl
  | .node _ _ l r => by
    simp only [nodeMap, List.map_cons, List.map_append, List.map_map, ← nodeMap_map f g l,
      ← nodeMap_map f g r]
    rfl

theorem shape_of_validRec : ∀ (o : OTree) (s : Sol), Spec.validRec o s = true → s.shape = o.shape
  | .leaf _ _, .leaf _ _, _ => rfl
  | .leaf _ _, .node _ _ _ _, h => by simp [Spec.validRec] at h
  | .node _ _, .leaf _ _, h => by simp [Spec.validRec] at h
  | .node ol or, .node _ _ l r, h => by
    simp only [Spec.validRec, Bool.and_eq_true] at h
    simp only [Sol.shape, OTree.shape, shape_of_validRec ol l h.1.2, shape_of_validRec or r h.2]

/-- In a valid reconciliation over a species tree containing the leaf species, every node
    sits in a species of the tree. -/
theorem nodeMap_sp_isNode (S : RTree) : ∀ (o : OTree) (s : Sol),
    (∀ q ∈ leafSpecies o, S.isNode q = true) → Spec.validRec o s = true →
    ∀ x ∈ nodeMap (fun sp _ => sp) s, S.isNode x.2 = true := by
  intro o
  induction o with
  | leaf sp f =>
    intro s hS hv x hx
    cases s with
    | node _ _ _ _ => simp [Spec.validRec] at hv
    | leaf v g =>
      simp only [Spec.validRec, beq_iff_eq] at hv
      simp only [nodeMap, List.mem_singleton] at hx
      subst hx hv
      exact hS _ (by simp [leafSpecies])
  | node ol or ihl ihr =>
    intro s hS hv x hx
    obtain ⟨q, hq, hqa⟩ := validRec_sp_anc_leaf _ s hv
    cases s with
    | leaf _ _ => simp [Spec.validRec] at hv
    | node v g l r =>
      simp only [Spec.validRec, Bool.and_eq_true] at hv
      simp only [nodeMap, List.mem_cons, List.mem_append, List.mem_map] at hx
      rcases hx with rfl | ⟨y, hy, rfl⟩ | ⟨y, hy, rfl⟩
      · exact RTree.isNode_of_isAnc hqa (hS q hq)
      · exact ihl l (fun q hq => hS q (by simp [leafSpecies, hq])) hv.1.2 y hy
      · exact ihr r (fun q hq => hS q (by simp [leafSpecies, hq])) hv.2 y hy

theorem leafMap_sp_mem : ∀ (o : OTree), ∀ x ∈ leafMap (fun sp _ => sp) o, x.2 ∈ leafSpecies o
  | .leaf _ _, x, hx => by
    simp only [leafMap, List.mem_singleton] at hx
    subst hx; simp [leafSpecies]
  | .node l r, x, hx => by
    simp only [leafMap, List.mem_append, List.mem_map] at hx
    rcases hx with ⟨y, hy, rfl⟩ | ⟨y, hy, rfl⟩
    · simp [leafSpecies, cons2, leafMap_sp_mem l y hy]
    · simp [leafSpecies, cons2, leafMap_sp_mem r y hy]

/-! ### Well-formedness of the embedded objects -/

/-- Names: pairwise distinct and safe (non-empty words over letters, digits, underscore)
    on the nodes of the species tree and on the nodes of the object tree; distinct
    families have distinct names. -/
structure Naming.Ok (nm : Naming) (S : RTree) (o : OTree) : Prop where
  sInj : ∀ p ∈ S.preorder, ∀ q ∈ S.preorder, nm.sname p = nm.sname q → p = q
  sSafe : ∀ p ∈ S.preorder, NT.safeStr (nm.sname p) = true
  oInj : ∀ p ∈ o.shape.preorder, ∀ q ∈ o.shape.preorder, nm.oname p = nm.oname q → p = q
  oSafe : ∀ p ∈ o.shape.preorder, NT.safeStr (nm.oname p) = true
  fInj : ∀ a b, nm.fname a = nm.fname b → a = b

theorem costTable_wf (c : Costs) : CostsWF (costTable c) := by
  constructor
  · simp only [costTable, List.map_cons, List.map_nil]; decide
  · intro x hx
    simp only [costTable, List.mem_cons, List.not_mem_nil, or_false] at hx
    rcases hx with rfl | rfl | rfl | rfl | rfl <;> simp only <;> decide

theorem leafMap_keysIn {β : Type} (nmf : Path → String) (f : Path → List Nat → β) (o : OTree) :
    KeysIn (ntOf nmf o.shape) (leafMap f o) :=
  keysIn_ntOf nmf o.shape ((leafMap_keys_sublist f o).nodup (RTree.nodup_preorder _))
    (fun _ hk => (leafMap_keys_sublist f o).subset hk)

theorem nodeMap_keysIn {β : Type} (nmf : Path → String) (f : Path → List Nat → β) {o : OTree}
    {s : Sol} (hv : Spec.validRec o s = true) : KeysIn (ntOf nmf o.shape) (nodeMap f s) := by
  have hk := nodeMap_keys f s
  rw [shape_of_validRec o s hv] at hk
  exact keysIn_ntOf nmf o.shape (by rw [hk]; exact RTree.nodup_preorder _)
    (fun k h => by rw [hk] at h; exact h)

variable {nm : Naming} {S : RTree} {o : OTree}

theorem embInput_wf (c : Costs) (h : nm.Ok S o) (hS : ∀ p ∈ leafSpecies o, S.isNode p = true) :
    (embInput nm c S o).WF where
  objUnique := unique_ntOf h.oInj
  objSafe := safe_ntOf h.oSafe
  speUnique := unique_ntOf h.sInj
  speSafe := safe_ntOf h.sSafe
  leaf := ⟨leafMap_keysIn _ _ o, fun x hx =>
    (sub_ntOf_isSome _ _ _).mpr (hS _ (leafMap_sp_mem o x hx))⟩
  costs := costTable_wf c

theorem embSInput_wf (c : Costs) (h : nm.Ok S o) (hS : ∀ p ∈ leafSpecies o, S.isNode p = true) :
    (embSInput nm c S o).WF :=
  ⟨embInput_wf c h hS, leafMap_keysIn _ _ o⟩

theorem embAnyInput_wf (c : Costs) (h : nm.Ok S o) (hS : ∀ p ∈ leafSpecies o, S.isNode p = true)
    (withSyn : Bool) : (embAnyInput nm c S o withSyn).WF := by
  cases withSyn
  · exact embInput_wf c h hS
  · exact embSInput_wf c h hS

theorem embAnyInput_base (c : Costs) (withSyn : Bool) :
    (embAnyInput nm c S o withSyn).base = embInput nm c S o := by
  cases withSyn <;> rfl

theorem embPlain_wf (c : Costs) (h : nm.Ok S o) (hS : ∀ p ∈ leafSpecies o, S.isNode p = true)
    (withSyn : Bool) {s : Sol} (hv : Spec.validRec o s = true) :
    (embPlain nm c S o withSyn s).WF where
  input := embAnyInput_wf c h hS withSyn
  map := by
    show TreeMappingWF (embAnyInput nm c S o withSyn).base.objectTree
      (embAnyInput nm c S o withSyn).base.speciesTree _
    rw [embAnyInput_base]
    exact ⟨nodeMap_keysIn _ _ hv, fun x hx =>
      (sub_ntOf_isSome _ _ _).mpr (nodeMap_sp_isNode S o s hS hv x hx)⟩

theorem embSuper_wf (arr : List String → List String) (c : Costs) (h : nm.Ok S o)
    (hS : ∀ p ∈ leafSpecies o, S.isNode p = true) (ordered : Bool) {s : Sol}
    (hv : Spec.validRec o s = true) : (embSuper nm arr c S o ordered s).WF where
  input := embSInput_wf c h hS
  map := ⟨nodeMap_keysIn _ _ hv, fun x hx =>
    (sub_ntOf_isSome _ _ _).mpr (nodeMap_sp_isNode S o s hS hv x hx)⟩
  syn := nodeMap_keysIn _ _ hv

end SR.SolOut
