/-
  C12 ∘ C08, part 2: the bridge between the name trees of the command-line model
  (`SR.Ser.NT`: name, colour, children) and the annotated trees of the refinement
  model (`SR.Bin.NTree` / `BinT`: leaf ids, annotation codes).

  * `Dec`: what the codes stand for — (name, colour) of every leaf id and of every
    annotation code; the empty annotation `none` is the unnamed, uncoloured node
    (what a freshly created `Tree()` is).  `decN` / `decB` read a coded tree back
    as a name tree.  No injectivity is asked of a `Dec`.
  * `mem_cn_decB` / `mem_cn_decN`: the nodes (clade, name) of the decoded tree are
    the leaves and the `inner` nodes of the coded tree, decoded.
  * for `b ∈ binarize t` (every internal node of `t` has ≥ 2 children):
    `binarize_given` — the GIVEN names of the refinement are, as a multiset, the given
    names of `t` (nothing is lost, nothing is duplicated, the new nodes are unnamed);
    `binarize_keeps_cn` — every node of `t` is found with the same clade and name;
    `binarize_named_from` — every named node of the refinement comes from `t`;
    `isBin_decB`, `binarize_lvs` — it is binary with the leaves of `t`.
-/
import SRVerif.Proofs.CliRefineTree
import SRVerif.Proofs.BinarizeTree

namespace SR.Cli

open SR.Ser SR.Bin

/-- Meaning of the codes of a `Bin.NTree`: name and colour of a leaf id, of an annotation. -/
structure Dec where
  leaf : Nat → String × Option String
  ann : Nat → String × Option String

namespace Dec

/-- `none` is the annotation of a freshly created node: no name, no colour. -/
def annOf (d : Dec) : Option Nat → String × Option String
  | none => ("", none)
  | some k => d.ann k

/-- Leaf name. -/
def ln (d : Dec) (i : Nat) : String := (d.leaf i).1

/-- Name of an annotation. -/
def an (d : Dec) (a : Option Nat) : String := (d.annOf a).1

theorem an_none (d : Dec) : d.an none = "" := rfl

end Dec

mutual
  /-- A coded multifurcating tree as a name tree. -/
  def decN (d : Dec) : NTree → NT
    | .leaf i => .node (d.leaf i).1 (d.leaf i).2 []
    | .node a cs => .node (d.annOf a).1 (d.annOf a).2 (decNL d cs)
  def decNL (d : Dec) : List NTree → List NT
    | [] => []
    | c :: cs => decN d c :: decNL d cs
end

/-- A coded binary tree as a name tree. -/
def decB (d : Dec) : BinT → NT
  | .leaf i => .node (d.leaf i).1 (d.leaf i).2 []
  | .node a l r => .node (d.annOf a).1 (d.annOf a).2 [decB d l, decB d r]

/-- A node (clade, name) of a coded tree, decoded. -/
def Dec.leafNode (d : Dec) (i : Nat) : List String × String := ([d.ln i], d.ln i)
def Dec.innerNode (d : Dec) (c : List Nat × Option Nat) : List String × String :=
  (c.1.map d.ln, d.an c.2)

/-! ### Binary trees -/

theorem lvs_decB (d : Dec) : ∀ b : BinT, lvs (decB d b) = b.leaves.map d.ln
  | .leaf i => rfl
  | .node a l r => by
    simp only [decB, lvs, lvsL, BinT.leaves, List.map_append, lvs_decB d l, lvs_decB d r,
      List.append_nil]

theorem cn_decB_node (d : Dec) (a : Option Nat) (l r : BinT) :
    cn (decB d (.node a l r)) =
      d.innerNode (l.leaves ++ r.leaves, a) :: (cn (decB d l) ++ cn (decB d r)) := by
  have h := lvs_decB d (.node a l r)
  simp only [decB] at h
  simp only [decB, cn, cnL, List.append_nil, h, BinT.leaves]
  rfl

theorem mem_cn_decB (d : Dec) : ∀ (b : BinT) (x : List String × String),
    x ∈ cn (decB d b) ↔
      (∃ i ∈ b.leaves, x = d.leafNode i) ∨ (∃ c ∈ b.inner, x = d.innerNode c)
  | .leaf i, x => by
    simp [decB, cn, lvs, cnL, BinT.leaves, BinT.inner, Dec.leafNode, Dec.ln]
  | .node a l r, x => by
    rw [cn_decB_node, List.mem_cons, List.mem_append, mem_cn_decB d l, mem_cn_decB d r]
    simp only [BinT.leaves, BinT.inner, List.mem_append, List.mem_cons]
    constructor
    · rintro (h | (⟨i, hi, h⟩ | ⟨c, hc, h⟩) | (⟨i, hi, h⟩ | ⟨c, hc, h⟩))
      · exact Or.inr ⟨_, Or.inl rfl, h⟩
      · exact Or.inl ⟨i, Or.inl hi, h⟩
      · exact Or.inr ⟨c, Or.inr (Or.inl hc), h⟩
      · exact Or.inl ⟨i, Or.inr hi, h⟩
      · exact Or.inr ⟨c, Or.inr (Or.inr hc), h⟩
    · rintro (⟨i, hi | hi, h⟩ | ⟨c, rfl | hc | hc, h⟩)
      · exact Or.inr (Or.inl (Or.inl ⟨i, hi, h⟩))
      · exact Or.inr (Or.inr (Or.inl ⟨i, hi, h⟩))
      · exact Or.inl h
      · exact Or.inr (Or.inl (Or.inr ⟨c, hc, h⟩))
      · exact Or.inr (Or.inr (Or.inr ⟨c, hc, h⟩))

theorem isBin_decB (d : Dec) : ∀ b : BinT, isBin (decB d b) = true
  | .leaf i => rfl
  | .node a l r => by simp [decB, isBin, isBinL, isBin_decB d l, isBin_decB d r]

theorem names_decB_node (d : Dec) (a : Option Nat) (l r : BinT) :
    (decB d (.node a l r)).names = d.an a :: ((decB d l).names ++ (decB d r).names) := by
  simp only [names_eq_cn, cn_decB_node, List.map_cons, List.map_append]
  rfl

/-! ### Multifurcating trees -/

mutual
  theorem lvs_decN (d : Dec) : ∀ t : NTree, t.WF = true → lvs (decN d t) = t.leaves.map d.ln
    | .leaf i, _ => rfl
    | .node a [], h => by simp [NTree.WF] at h
    | .node a (c :: cs), h => by
      rw [NTree.WF, Bool.and_eq_true] at h
      have := lvsL_decNL d (c :: cs) h.2
      simp only [decNL] at this
      simp only [decN, decNL, lvs, NTree.leaves, this]
  theorem lvsL_decNL (d : Dec) : ∀ cs : List NTree, NTree.WFList cs = true →
      lvsL (decNL d cs) = (NTree.leavesList cs).map d.ln
    | [], _ => rfl
    | c :: cs, h => by
      rw [NTree.WFList, Bool.and_eq_true] at h
      simp only [decNL, lvsL, NTree.leavesList, List.map_append, lvs_decN d c h.1,
        lvsL_decNL d cs h.2]
end

theorem cn_decN_node (d : Dec) (a : Option Nat) (cs : List NTree)
    (h : (NTree.node a cs).WF = true) :
    cn (decN d (.node a cs)) = d.innerNode (NTree.leavesList cs, a) :: cnL (decNL d cs) := by
  have hl := lvs_decN d (.node a cs) h
  simp only [decN] at hl
  simp only [decN, cn, hl, NTree.leaves]
  rfl

mutual
  theorem mem_cn_decN (d : Dec) : ∀ (t : NTree), t.WF = true → ∀ (x : List String × String),
      x ∈ cn (decN d t) ↔
        (∃ i ∈ t.leaves, x = d.leafNode i) ∨ (∃ c ∈ t.inner, x = d.innerNode c)
    | .leaf i, _, x => by
      simp [decN, cn, lvs, cnL, NTree.leaves, NTree.inner, Dec.leafNode, Dec.ln]
    | .node a cs, h, x => by
      rw [cn_decN_node d a cs h, List.mem_cons]
      rw [NTree.WF, Bool.and_eq_true] at h
      rw [mem_cnL_decNL d cs h.2]
      simp only [NTree.leaves, NTree.inner, List.mem_cons]
      constructor
      · rintro (h | ⟨i, hi, h⟩ | ⟨c, hc, h⟩)
        · exact Or.inr ⟨_, Or.inl rfl, h⟩
        · exact Or.inl ⟨i, hi, h⟩
        · exact Or.inr ⟨c, Or.inr hc, h⟩
      · rintro (⟨i, hi, h⟩ | ⟨c, rfl | hc, h⟩)
        · exact Or.inr (Or.inl ⟨i, hi, h⟩)
        · exact Or.inl h
        · exact Or.inr (Or.inr ⟨c, hc, h⟩)
  theorem mem_cnL_decNL (d : Dec) : ∀ (cs : List NTree), NTree.WFList cs = true →
      ∀ (x : List String × String),
      x ∈ cnL (decNL d cs) ↔
        (∃ i ∈ NTree.leavesList cs, x = d.leafNode i) ∨ (∃ c ∈ NTree.innerList cs, x = d.innerNode c)
    | [], _, x => by simp [decNL, cnL, NTree.leavesList, NTree.innerList]
    | c :: cs, h, x => by
      rw [NTree.WFList, Bool.and_eq_true] at h
      simp only [decNL, cnL, List.mem_append, mem_cn_decN d c h.1, mem_cnL_decNL d cs h.2,
        NTree.leavesList, NTree.innerList]
      constructor
      · rintro ((⟨i, hi, h⟩ | ⟨c, hc, h⟩) | (⟨i, hi, h⟩ | ⟨c, hc, h⟩))
        · exact Or.inl ⟨i, Or.inl hi, h⟩
        · exact Or.inr ⟨c, Or.inl hc, h⟩
        · exact Or.inl ⟨i, Or.inr hi, h⟩
        · exact Or.inr ⟨c, Or.inr hc, h⟩
      · rintro (⟨i, hi | hi, h⟩ | ⟨c, hc | hc, h⟩)
        · exact Or.inl (Or.inl ⟨i, hi, h⟩)
        · exact Or.inr (Or.inl ⟨i, hi, h⟩)
        · exact Or.inl (Or.inr ⟨c, hc, h⟩)
        · exact Or.inr (Or.inr ⟨c, hc, h⟩)
end

/-! ### A refinement against the tree it refines -/

section
variable (d : Dec)

/-- Every node of `t` is found in a refinement with the same clade and the same name. -/
theorem binarize_keeps_cn {t : NTree} (hwf : t.WF = true) {b : BinT} (hb : b ∈ binarize t)
    {x : List String × String} (hx : x ∈ cn (decN d t)) :
    ∃ y ∈ cn (decB d b), y.1.Perm x.1 ∧ y.2 = x.2 := by
  obtain ⟨h1, h2, _⟩ := binarize_sound t hwf b hb
  rcases (mem_cn_decN d t hwf x).mp hx with ⟨i, hi, rfl⟩ | ⟨c, hc, rfl⟩
  · exact ⟨d.leafNode i, (mem_cn_decB d b _).mpr (Or.inl ⟨i, h1.mem_iff.mpr hi, rfl⟩),
      List.Perm.refl _, rfl⟩
  · obtain ⟨c', hc', hp, ha⟩ := h2 c hc
    refine ⟨d.innerNode c', (mem_cn_decB d b _).mpr (Or.inr ⟨c', hc', rfl⟩), hp.map _, ?_⟩
    simp only [Dec.innerNode, ha]

/-- Every NAMED node of a refinement is a node of `t`, with the same clade and name. -/
theorem binarize_named_from {t : NTree} (hwf : t.WF = true) {b : BinT} (hb : b ∈ binarize t)
    {y : List String × String} (hy : y ∈ cn (decB d b)) (hn : isUnnamed y.2 = false) :
    ∃ x ∈ cn (decN d t), y.1.Perm x.1 ∧ y.2 = x.2 := by
  obtain ⟨h1, _, h3⟩ := binarize_sound t hwf b hb
  rcases (mem_cn_decB d b y).mp hy with ⟨i, hi, rfl⟩ | ⟨c', hc', rfl⟩
  · exact ⟨d.leafNode i, (mem_cn_decN d t hwf _).mpr (Or.inl ⟨i, h1.mem_iff.mp hi, rfl⟩),
      List.Perm.refl _, rfl⟩
  · have hne : c'.2 ≠ none := by
      intro h
      simp only [Dec.innerNode, h, Dec.an_none] at hn
      exact absurd hn (by decide)
    obtain ⟨c, hc, hp, ha⟩ := h3 c' hc' hne
    refine ⟨d.innerNode c, (mem_cn_decN d t hwf _).mpr (Or.inr ⟨c, hc, rfl⟩), hp.map _, ?_⟩
    simp only [Dec.innerNode, ha]

/-- A refinement has the leaves of `t`. -/
theorem binarize_lvs {t : NTree} (hwf : t.WF = true) {b : BinT} (hb : b ∈ binarize t) :
    (lvs (decB d b)).Perm (lvs (decN d t)) := by
  rw [lvs_decB, lvs_decN d t hwf]
  exact (binarize_sound t hwf b hb).1.map _

/-! ### The given names of a refinement: those of the tree, as a multiset -/

/-- Filter of the given names. -/
def givenOf (l : List String) : List String := l.filter (fun nm => !isUnnamed nm)

theorem givenOf_append (l l' : List String) : givenOf (l ++ l') = givenOf l ++ givenOf l' :=
  List.filter_append ..

theorem given_eq (t : NT) : given t = givenOf t.names := rfl

theorem given_decB_node (a : Option Nat) (l r : BinT) :
    given (decB d (.node a l r)) =
      givenOf [d.an a] ++ (given (decB d l) ++ given (decB d r)) := by
  rw [given_eq, names_decB_node, given_eq, given_eq, ← givenOf_append, ← givenOf_append]
  rfl

theorem given_subst (s : BTree BinT) :
    given (decB d (subst s)) = s.items.flatMap (fun b => given (decB d b)) := by
  induction s with
  | item b => simp [subst, BTree.items]
  | node l r ihl ihr =>
    rw [subst, given_decB_node, ihl, ihr, Dec.an_none]
    simp [BTree.items, givenOf, isUnnamed]

/-- Given names of a list of coded trees. -/
def givenL (cs : List NTree) : List String := givenOf ((cnL (decNL d cs)).map (·.2))

theorem givenL_cons (c : NTree) (cs : List NTree) :
    givenL d (c :: cs) = given (decN d c) ++ givenL d cs := by
  simp only [givenL, decNL, cnL, List.map_append, givenOf_append, given_eq, names_eq_cn]

theorem given_decN_node (a : Option Nat) (cs : List NTree) :
    given (decN d (.node a cs)) = givenOf [d.an a] ++ givenL d cs := by
  rw [given_eq, decN, names_node, givenL, ← givenOf_append]
  rfl

mutual
  /-- The given names of a refinement are, as a multiset, those of the tree. -/
  theorem binarize_given : ∀ (t : NTree), t.WF = true → ∀ b ∈ binarize t,
      (given (decB d b)).Perm (given (decN d t))
    | .leaf i, _, b, hb => by
      rw [binarize, List.mem_singleton] at hb
      subst hb
      exact List.Perm.refl _
    | .node a cs, hwf, b, hb => by
      rw [NTree.WF, Bool.and_eq_true, decide_eq_true_eq] at hwf
      obtain ⟨descs, hd, s, hs, rfl⟩ := mem_binarize_node.mp hb
      have hL := binarizeChildren_given cs hwf.2 descs hd
      have hlen := (binarizeChildren_sound cs hwf.2 descs hd).1
      have hp := items_arrange hs
      obtain ⟨l, r, rfl⟩ := BTree.eq_node_of_two_le s (by rw [hp.length_eq, hlen]; exact hwf.1)
      have h1 : given (decB d ((subst (.node l r)).setAnn a)) =
          givenOf [d.an a] ++ (BTree.node l r).items.flatMap (fun b => given (decB d b)) := by
        rw [subst, BinT.setAnn, given_decB_node, given_subst, given_subst]
        simp [BTree.items]
      rw [h1, given_decN_node]
      exact ((hp.flatMap_right _).trans hL).append_left _
  theorem binarizeChildren_given : ∀ (cs : List NTree), NTree.WFList cs = true →
      ∀ descs ∈ binarizeChildren cs,
      (descs.flatMap (fun b => given (decB d b))).Perm (givenL d cs)
    | [], _, descs, hd => by
      rw [mem_binarizeChildren_nil] at hd
      subst hd
      exact List.Perm.refl _
    | c :: cs, hwf, descs, hd => by
      rw [NTree.WFList, Bool.and_eq_true] at hwf
      obtain ⟨b, ds, rfl, hb, hds⟩ := mem_binarizeChildren_cons.mp hd
      rw [List.flatMap_cons, givenL_cons]
      exact (binarize_given c hwf.1 b hb).append (binarizeChildren_given cs hwf.2 ds hds)
end

end

end SR.Cli
