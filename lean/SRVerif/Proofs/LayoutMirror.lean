/-
  The HORIZONTAL code path of the layout model is the transposed image of the
  VERTICAL one (used by `SR.C14.C14_mirror`).

  Transposition (`tr`) exchanges the two coordinates of every position and
  rectangle; the measured sizes are exchanged (`Size.swap`).  One lemma per
  phase of `layout.compute`.
-/
import SRVerif.Model.Layout

namespace SR.Layout

/-! ## Transposition -/

def Pos.tr (p : Pos) : Pos := ⟨p.y, p.x⟩
def Rect.tr (r : Rect) : Rect := ⟨r.y, r.x, r.h, r.w⟩
def Size.swap (s : Size) : Size := ⟨s.h, s.w⟩

def trRects (l : List (Key × Rect)) : List (Key × Rect) := l.map fun e => (e.1, e.2.tr)
def trAnchors (l : List (Key × Pos)) : List (Key × Pos) := l.map fun e => (e.1, e.2.tr)

def BState.tr (b : BState) : BState := ⟨b.na, b.ns, trRects b.rects, trAnchors b.anchors⟩
def SpLayout.tr (l : SpLayout) : SpLayout := ⟨l.branches, trRects l.rects, trAnchors l.anchors⟩

def Info.tr (i : Info) : Info :=
  ⟨i.sp, i.lay.tr, i.size.swap, i.trunk.tr, i.fork, i.leftPos.tr, i.rightPos.tr⟩

def ITree.tr : ITree → ITree
  | .leaf i => .leaf i.tr
  | .node i l r => .node i.tr l.tr r.tr

/-- Same-named anchor fields correspond (V parent = top ↔ H parent = left,
    V left = left ↔ H left = top, V right = right ↔ H right = bottom,
    V child = bottom ↔ H child = right): every point is transposed. -/
def FBranch.tr (b : FBranch) : FBranch :=
  ⟨b.key, b.kind, b.left, b.right, b.rect.tr, b.aParent.tr, b.aLeft.tr, b.aRight.tr, b.aChild.tr⟩

def SubLayout.tr (l : SubLayout) : SubLayout :=
  ⟨l.sp, l.rect.tr, l.trunk.tr, l.fork, trAnchors l.anchors, l.branches.map FBranch.tr⟩

@[simp] theorem Pos.tr_tr (p : Pos) : p.tr.tr = p := rfl
@[simp] theorem Rect.tr_tr (r : Rect) : r.tr.tr = r := rfl
@[simp] theorem Size.swap_swap (s : Size) : s.swap.swap = s := rfl

@[simp] theorem ITree.tr_info (t : ITree) : t.tr.info = t.info.tr := by
  cases t <;> rfl

@[simp] theorem Except.map_ok' {ε α β : Type} (f : α → β) (a : α) :
    Except.map f (.ok a : Except ε α) = .ok (f a) := rfl
@[simp] theorem Except.map_error' {ε α β : Type} (f : α → β) (e : ε) :
    Except.map f (.error e : Except ε α) = .error e := rfl

/-! ## Phase 1: the branch loop -/

theorem lookupKey_trRects (l : List (Key × Rect)) (k : Key) :
    lookupKey (trRects l) k = (lookupKey l k).map Rect.tr := by
  induction l with
  | nil => rfl
  | cons a t ih =>
    obtain ⟨k', v⟩ := a
    simp only [trRects, List.map_cons, lookupKey] at ih ⊢
    split
    · rfl
    · exact ih

theorem rectOf_trRects (l : List (Key × Rect)) (k : Option Key) :
    rectOf (trRects l) k = (rectOf l k).map Rect.tr := by
  cases k with
  | none => rfl
  | some k =>
    simp only [rectOf, lookupKey_trRects]
    cases lookupKey l k <;> rfl

theorem trRects_append (a b : List (Key × Rect)) : trRects (a ++ b) = trRects a ++ trRects b := by
  simp [trRects]

theorem trAnchors_append (a b : List (Key × Pos)) :
    trAnchors (a ++ b) = trAnchors a ++ trAnchors b := by
  simp [trAnchors]

/-- One iteration: `stepH` on the transposed state is the transposed `stepV`
    with exchanged sizes. -/
theorem stepH_tr (P : Params) (sizes : Key → Size) (an : List Key) (bs : BState) (b : Branch) :
    stepH P sizes an bs.tr b =
      (stepV P (fun k => (sizes k).swap) an bs b).map BState.tr := by
  obtain ⟨key, kind, left, right⟩ := b
  obtain ⟨na, ns, rects, anchors⟩ := bs
  cases kind
  case leaf =>
    by_cases h : key ∈ an <;>
      simp [stepH, stepV, BState.tr, Size.swap, Rect.makeFrom, Rect.center, Rect.tr, Pos.tr,
        trRects, trAnchors, h]
  case spec =>
    by_cases h : key ∈ an <;>
      simp [stepH, stepV, BState.tr, Size.swap, Rect.makeFrom, Rect.center, Rect.tr, Pos.tr,
        trRects, trAnchors, h]
  case loss =>
    by_cases h : key ∈ an <;>
      simp [stepH, stepV, BState.tr, Size.swap, Rect.makeFrom, Rect.center, Rect.tr, Pos.tr,
        trRects, trAnchors, h]
  case dup =>
    simp only [stepH, stepV, BState.tr, rectOf_trRects]
    cases rectOf rects left <;> cases rectOf rects right <;>
    by_cases h : key ∈ an <;>
      simp [BState.tr, Size.swap, Rect.makeFrom, Rect.center, Rect.tr, Pos.tr, Pos.add,
        trRects, trAnchors, h]
  case hgt =>
    simp only [stepH, stepV, BState.tr, rectOf_trRects]
    cases rectOf rects left <;>
    by_cases h : key ∈ an <;>
      simp [BState.tr, Size.swap, Rect.makeFrom, Rect.center, Rect.tr, Pos.tr,
        trRects, trAnchors, h]

theorem foldE_step_tr (P : Params) (sizes : Key → Size) (an : List Key) (bl : List Branch)
    (bs : BState) :
    foldE (stepH P sizes an) bl bs.tr =
      (foldE (stepV P (fun k => (sizes k).swap) an) bl bs).map BState.tr := by
  induction bl generalizing bs with
  | nil => rfl
  | cons b t ih =>
    simp only [foldE, stepH_tr]
    cases stepV P (fun k => (sizes k).swap) an bs b with
    | error e => rfl
    | ok bs' => simpa using ih bs'

/-! ## Phase 2: padding shift, `_layout_branches` -/

theorem shiftRects_tr (p : Pos) (l : List (Key × Rect)) :
    shiftRects p.tr (trRects l) = trRects (shiftRects p l) := by
  simp [shiftRects, trRects, Rect.shift, Rect.tr, Pos.tr]

theorem shiftAnchors_tr (p : Pos) (l : List (Key × Pos)) :
    shiftAnchors p.tr (trAnchors l) = trAnchors (shiftAnchors p l) := by
  simp [shiftAnchors, trAnchors, Pos.add, Pos.tr]

/-- The list whose minimum gives the padding shift is the same list. -/
theorem shiftList_tr (l : List (Key × Rect)) :
    ((trRects l).map fun e => -(e.2.bottom.y)) = l.map fun e => -(e.2.right.x) := by
  simp [trRects, Rect.bottom, Rect.right, Rect.tr]

theorem layoutBranchesH_tr (P : Params) (sizes : Key → Size) (st : SpState) :
    layoutBranchesH P sizes st =
      (layoutBranchesV P (fun k => (sizes k).swap) st).map SpLayout.tr := by
  have h := foldE_step_tr P sizes st.anchors st.branches ⟨0, P.pad, [], []⟩
  have h0 : (BState.tr ⟨0, P.pad, [], []⟩) = ⟨0, P.pad, [], []⟩ := rfl
  rw [h0] at h
  simp only [layoutBranchesH, layoutBranchesV, h]
  cases foldE (stepV P (fun k => (sizes k).swap) st.anchors) st.branches ⟨0, P.pad, [], []⟩ with
  | error e => rfl
  | ok bs =>
    simp only [Except.map_ok']
    split
    · rfl
    · simp only [Except.map_ok', SpLayout.tr, BState.tr, shiftList_tr]
      rw [← shiftRects_tr, ← shiftAnchors_tr]
      rfl

/-! ## Phase 3: all species -/

def trLays (l : List (Path × SpLayout)) : List (Path × SpLayout) := l.map fun e => (e.1, e.2.tr)

theorem layoutAllH_tr (P : Params) (sizes : Key → Size) (st : LState) :
    layoutAllH P sizes st = (layoutAllV P (fun k => (sizes k).swap) st).map trLays := by
  induction st with
  | nil => rfl
  | cons a t ih =>
    obtain ⟨s, sp⟩ := a
    simp only [layoutAllH, layoutAllV, ih, layoutBranchesH_tr]
    cases layoutBranchesV P (fun k => (sizes k).swap) sp <;>
      cases layoutAllV P (fun k => (sizes k).swap) t <;> rfl

theorem lookupSp_trLays (l : List (Path × SpLayout)) (p : Path) :
    lookupSp (trLays l) p = (lookupSp l p).map SpLayout.tr := by
  induction l with
  | nil => rfl
  | cons a t ih =>
    obtain ⟨k, v⟩ := a
    simp only [trLays, List.map_cons, lookupSp] at ih ⊢
    split
    · rfl
    · exact ih

/-! ## Phase 4: trunk dimensions, size pass -/

theorem trunkDimsH_tr (P : Params) (rects : List (Key × Rect)) :
    trunkDimsH P (trRects rects) =
      ((trunkDimsV P rects).2.1, (trunkDimsV P rects).1, (trunkDimsV P rects).2.2) := by
  unfold trunkDimsH trunkDimsV
  by_cases h : rects.isEmpty
  · simp [trRects, h]
  · simp [trRects, h, Rect.topLeft, Rect.bottomRight, Rect.tr, Function.comp_def]

theorem sizesH_tr (P : Params) (laysV laysH : Path → Option SpLayout)
    (hl : ∀ p, laysH p = (laysV p).map SpLayout.tr) (B : BTree) (p : Path) :
    sizesH P laysH B p = (sizesV P laysV B p).map ITree.tr := by
  induction B generalizing p with
  | leaf =>
    simp only [sizesH, sizesV, hl]
    cases laysV p with
    | none => rfl
    | some lay =>
      simp [SpLayout.tr, trunkDimsH_tr, ITree.tr, Info.tr, Size.swap, Rect.makeFrom, Rect.tr,
        Pos.tr]
  | node a b iha ihb =>
    simp only [sizesH, sizesV, hl, iha, ihb]
    cases sizesV P laysV a (p ++ [0]) with
    | error e => rfl
    | ok lt =>
      cases sizesV P laysV b (p ++ [1]) with
      | error e => rfl
      | ok rt =>
        cases laysV p with
        | none => rfl
        | some lay =>
          simp [SpLayout.tr, trunkDimsH_tr, ITree.tr, Info.tr, Size.swap, Rect.makeFrom, Rect.tr,
            Pos.tr, Rect.bottom, Rect.top, Rect.left, Rect.right]

/-! ## Phase 5: absolute positions -/

theorem finishBranchH_tr (off : Pos) (b : Branch) (r : Rect) :
    finishBranchH off.tr b r.tr = (finishBranchV off b r).tr := by
  obtain ⟨key, kind, left, right⟩ := b
  cases kind <;>
    simp [finishBranchH, finishBranchV, FBranch.tr, Rect.shift, Rect.tr, Pos.tr, Rect.center,
      Rect.left, Rect.top, Rect.bottom, Rect.right]

theorem finishH_tr (i : Info) (r : Rect) : finishH i.tr r.tr = (finishV i r).tr := by
  simp only [finishH, finishV, SubLayout.tr, Info.tr, SpLayout.tr]
  congr 1
  · exact shiftAnchors_tr (i.trunk.shift r.topLeft).topRight i.lay.anchors
  · simp only [trRects, List.zip_map_right, List.map_map]
    apply List.map_congr_left
    intro e _
    exact finishBranchH_tr (i.trunk.shift r.topLeft).bottomRight e.1 e.2.2

theorem placeH_tr (t : ITree) (r : Rect) :
    placeH t.tr r.tr = (placeV t r).map SubLayout.tr := by
  induction t generalizing r with
  | leaf i => simp [placeH, placeV, ITree.tr, finishH_tr]
  | node i lt rt ihl ihr =>
    simp only [placeH, placeV, ITree.tr, finishH_tr, List.map_cons, List.map_append,
      ITree.tr_info, ← ihl, ← ihr]
    rfl

/-! ## Assembly -/

theorem computeH_tr (P : Params) (sizes : Key → Size) (S : RTree) (sol : Sol) :
    computeH P sizes S sol =
      (computeV P (fun k => (sizes k).swap) S sol).map (List.map SubLayout.tr) := by
  simp only [computeH, computeV]
  cases computeBranches S sol with
  | error e => rfl
  | ok st =>
    simp only [layoutAllH_tr]
    cases layoutAllV P (fun k => (sizes k).swap) st with
    | error e => rfl
    | ok lays =>
      simp only [Except.map_ok']
      cases toBTree S with
      | none => rfl
      | some B =>
        simp only [sizesH_tr P (lookupSp lays) (lookupSp (trLays lays)) (lookupSp_trLays lays)]
        cases sizesV P (lookupSp lays) B [] with
        | error e => rfl
        | ok t =>
          simp only [Except.map_ok', ITree.tr_info, ← placeH_tr]
          rfl

end SR.Layout
