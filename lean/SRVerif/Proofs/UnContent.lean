/-
  Unordered super-reconciliation: what `_compute_lca_sets` / `_compute_gain_sets`
  (`annUn`, `gainsAt`) compute, in terms of the paths of the leaves that carry a
  family (`leafPaths`).

  * `gainNode whole x`   the LCA of the leaves of `whole` carrying family `x`;
  * `IsSub whole p sub`  `sub` is the subtree of `whole` at object path `p`
                         (stated through `leafPaths` only);
  * `mem_lcaSet`         the `lcaSet` that `annUn` attaches to the node at `p` is,
                         as a set, `Spec.requiredContent whole p`: the families
                         carried by a leaf below `p` whose gain node is an
                         ancestor-or-self of `p`;
  * the containment lemmas used by C04 (`required ⊆ allowed`,
    `required child ⊆ required parent ∪ gains child`, monotonicity of `allowed`).
-/
import SRVerif.Proofs.LabelDPInst
import SRVerif.Proofs.LcaMapOpt

namespace SR

open Path

/-! ### `sortNat` is a permutation as far as membership goes -/

theorem mem_sortNat_step (acc : List Nat) (y x : Nat) :
    x ∈ (acc.takeWhile (· < y)) ++ [y] ++ (acc.dropWhile (· < y)) ↔ x ∈ acc ∨ x = y := by
  have h := List.takeWhile_append_dropWhile (p := (· < y)) (l := acc)
  constructor
  · intro hx
    simp only [List.append_assoc, List.mem_append, List.mem_cons, List.not_mem_nil, or_false] at hx
    rcases hx with hx | hx | hx
    · exact Or.inl ((List.takeWhile_sublist _).subset hx)
    · exact Or.inr hx
    · exact Or.inl ((List.dropWhile_sublist _).subset hx)
  · rintro (hx | hx)
    · rw [← h] at hx
      simp only [List.mem_append] at hx
      simp only [List.append_assoc, List.mem_append, List.mem_cons, List.not_mem_nil, or_false]
      rcases hx with hx | hx
      · exact Or.inl hx
      · exact Or.inr (Or.inr hx)
    · simp [hx]

theorem mem_sortNat_foldl (l acc : List Nat) (x : Nat) :
    x ∈ l.foldl (fun acc x => (acc.takeWhile (· < x)) ++ [x] ++ (acc.dropWhile (· < x))) acc ↔
      x ∈ acc ∨ x ∈ l := by
  induction l generalizing acc with
  | nil => simp
  | cons y ys ih =>
    rw [List.foldl_cons, ih, mem_sortNat_step]
    simp only [List.mem_cons]
    constructor
    · rintro ((h | h) | h)
      · exact Or.inl h
      · exact Or.inr (Or.inl h)
      · exact Or.inr (Or.inr h)
    · rintro (h | h | h)
      · exact Or.inl (Or.inl h)
      · exact Or.inl (Or.inr h)
      · exact Or.inr h

theorem mem_sortNat {l : List Nat} {x : Nat} : x ∈ sortNat l ↔ x ∈ l := by
  unfold sortNat
  rw [mem_sortNat_foldl]
  simp

/-! ### Gain nodes -/

/-- The LCA (longest common prefix of the object paths) of the leaves carrying `x`. -/
def gainNode (whole : OTree) (x : Nat) : Path :=
  lcpAll (((leafPaths whole).filter (fun p => p.2.contains x)).map (·.1))

theorem mem_gainsAt {whole : OTree} {p : Path} {x : Nat} :
    x ∈ gainsAt whole p ↔ x ∈ families whole ∧ gainNode whole x = p := by
  simp [gainsAt, gainNode, List.mem_filter]

theorem mem_allowedContent {whole : OTree} {p : Path} {x : Nat} :
    x ∈ Spec.allowedContent whole p ↔ x ∈ families whole ∧ isAnc (gainNode whole x) p = true := by
  simp [Spec.allowedContent, gainNode, List.mem_filter]

theorem mem_requiredContent {whole : OTree} {p : Path} {x : Nat} :
    x ∈ Spec.requiredContent whole p ↔
      x ∈ families whole ∧ isAnc (gainNode whole x) p = true ∧
      ∃ q f, (q, f) ∈ leafPaths whole ∧ isAnc p q = true ∧ x ∈ f := by
  simp only [Spec.requiredContent, List.mem_filter, mem_allowedContent, List.any_eq_true,
    Bool.and_eq_true, List.contains_iff_mem, Prod.exists]
  constructor
  · rintro ⟨⟨h1, h2⟩, q, f, h3, h4, h5⟩
    exact ⟨h1, h2, q, f, h3, h4, h5⟩
  · rintro ⟨h1, h2, q, f, h3, h4, h5⟩
    exact ⟨⟨h1, h2⟩, q, f, h3, h4, h5⟩

theorem leafSyn_of_leafPaths {o : OTree} {q : Path} {f : List Nat} (h : (q, f) ∈ leafPaths o) :
    f ∈ leafSyntenies o := by
  induction o generalizing q with
  | leaf sp g =>
    simp only [leafPaths, List.mem_singleton, Prod.mk.injEq] at h
    simp [leafSyntenies, h.2]
  | node l r ihl ihr =>
    simp only [leafPaths, List.mem_append, List.mem_map, Prod.mk.injEq, Prod.exists] at h
    simp only [leafSyntenies, List.mem_append]
    rcases h with ⟨q', f', hm, _, rfl⟩ | ⟨q', f', hm, _, rfl⟩
    · exact Or.inl (ihl hm)
    · exact Or.inr (ihr hm)

/-- A family carried by a leaf is a family of the input, and its gain node is an
    ancestor-or-self of that leaf. -/
theorem family_of_leaf {whole : OTree} {q : Path} {f : List Nat} {x : Nat}
    (h : (q, f) ∈ leafPaths whole) (hx : x ∈ f) :
    x ∈ families whole ∧ isAnc (gainNode whole x) q = true := by
  constructor
  · simp only [families, mem_dedup, List.mem_flatten]
    exact ⟨f, leafSyn_of_leafPaths h, hx⟩
  · have hq : q ∈ ((leafPaths whole).filter (fun p => p.2.contains x)).map (·.1) := by
      simp only [List.mem_map, List.mem_filter, List.contains_iff_mem, Prod.exists]
      exact ⟨q, f, ⟨h, hx⟩, rfl⟩
    have hne : ((leafPaths whole).filter (fun p => p.2.contains x)).map (·.1) ≠ [] :=
      List.ne_nil_of_mem hq
    exact (isAnc_lcpAll _ hne).mp (isAnc_refl _) q hq

/-! ### Subtrees, through `leafPaths` -/

/-- `sub` is the subtree of `whole` at the object path `p`. -/
def IsSub (whole : OTree) (p : Path) (sub : OTree) : Prop :=
  ∀ q f, ((q, f) ∈ leafPaths whole ∧ isAnc p q = true) ↔
    ∃ q', q = p ++ q' ∧ (q', f) ∈ leafPaths sub

theorem isSub_root (whole : OTree) : IsSub whole [] whole := by
  intro q f
  simp [isAnc_nil]

theorem isAnc_snoc_of {p q : Path} {i : Nat} (h : isAnc (p ++ [i]) q = true) : isAnc p q = true :=
  isAnc_trans (isAnc_append p [i]) h

theorem isSub_child {whole : OTree} {p : Path} {l r : OTree} (h : IsSub whole p (.node l r)) :
    IsSub whole (p ++ [0]) l ∧ IsSub whole (p ++ [1]) r := by
  constructor
  · intro q f
    constructor
    · rintro ⟨hm, ha⟩
      obtain ⟨q', rfl, hq'⟩ := (h q f).mp ⟨hm, isAnc_snoc_of ha⟩
      simp only [leafPaths, List.mem_append, List.mem_map, Prod.mk.injEq, Prod.exists] at hq'
      rcases hq' with ⟨q'', f', hm', rfl, rfl⟩ | ⟨q'', f', hm', rfl, rfl⟩
      · exact ⟨q'', by simp, hm'⟩
      · rw [isAnc_append_append] at ha
        simp [isAnc] at ha
    · rintro ⟨q', rfl, hq'⟩
      have : (0 :: q', f) ∈ leafPaths (.node l r) := by
        simp only [leafPaths, List.mem_append, List.mem_map, Prod.mk.injEq, Prod.exists]
        exact Or.inl ⟨q', f, hq', rfl, rfl⟩
      have h2 := (h (p ++ 0 :: q') f).mpr ⟨0 :: q', rfl, this⟩
      refine ⟨by simpa using h2.1, ?_⟩
      exact isAnc_append _ _
  · intro q f
    constructor
    · rintro ⟨hm, ha⟩
      obtain ⟨q', rfl, hq'⟩ := (h q f).mp ⟨hm, isAnc_snoc_of ha⟩
      simp only [leafPaths, List.mem_append, List.mem_map, Prod.mk.injEq, Prod.exists] at hq'
      rcases hq' with ⟨q'', f', hm', rfl, rfl⟩ | ⟨q'', f', hm', rfl, rfl⟩
      · rw [isAnc_append_append] at ha
        simp [isAnc] at ha
      · exact ⟨q'', by simp, hm'⟩
    · rintro ⟨q', rfl, hq'⟩
      have : (1 :: q', f) ∈ leafPaths (.node l r) := by
        simp only [leafPaths, List.mem_append, List.mem_map, Prod.mk.injEq, Prod.exists]
        exact Or.inr ⟨q', f, hq', rfl, rfl⟩
      have h2 := (h (p ++ 1 :: q') f).mpr ⟨1 :: q', rfl, this⟩
      refine ⟨by simpa using h2.1, ?_⟩
      exact isAnc_append _ _

/-- A leaf below an internal node is below one of its two children. -/
theorem below_child {whole : OTree} {p : Path} {l r : OTree} (h : IsSub whole p (.node l r))
    {q : Path} {f : List Nat} (hm : (q, f) ∈ leafPaths whole) (ha : isAnc p q = true) :
    isAnc (p ++ [0]) q = true ∨ isAnc (p ++ [1]) q = true := by
  obtain ⟨q', rfl, hq'⟩ := (h q f).mp ⟨hm, ha⟩
  simp only [leafPaths, List.mem_append, List.mem_map, Prod.mk.injEq, Prod.exists] at hq'
  rcases hq' with ⟨q'', f', _, rfl, rfl⟩ | ⟨q'', f', _, rfl, rfl⟩
  · left
    have : p ++ 0 :: q'' = (p ++ [0]) ++ q'' := by simp
    rw [this]; exact isAnc_append _ _
  · right
    have : p ++ 1 :: q'' = (p ++ [1]) ++ q'' := by simp
    rw [this]; exact isAnc_append _ _

/-- The only leaf at or below a leaf node is that leaf. -/
theorem below_leaf {whole : OTree} {p : Path} {sp : Path} {f0 : List Nat}
    (h : IsSub whole p (.leaf sp f0)) (q : Path) (f : List Nat) :
    ((q, f) ∈ leafPaths whole ∧ isAnc p q = true) ↔ (q = p ∧ f = f0) := by
  rw [h q f]
  simp only [leafPaths, List.mem_singleton, Prod.mk.injEq]
  constructor
  · rintro ⟨q', rfl, rfl, rfl⟩
    simp
  · rintro ⟨rfl, rfl⟩
    exact ⟨[], by simp, rfl, rfl⟩

/-! ### Path facts -/

theorem isAnc_snoc_cases {g p : Path} {i : Nat} (h : isAnc g (p ++ [i]) = true) :
    g = p ++ [i] ∨ isAnc g p = true := by
  rw [isAnc_iff_prefix] at h
  rcases List.prefix_concat_iff.mp h with h | h
  · exact Or.inl h
  · exact Or.inr ((isAnc_iff_prefix _ _).mpr h)

theorem ne_snoc_of_isAnc {g p : Path} {i : Nat} (h : isAnc g p = true) : g ≠ p ++ [i] := by
  intro e
  have := length_le_of_isAnc h
  rw [e] at this
  simp at this
  omega

/-! ### `annUn` computes the required content -/

theorem annUn_gain (S : RTree) (base : Bool) (whole : OTree) (p : Path) (sub : OTree) :
    (annUn S base whole p sub).data.gain = gainsAt whole p := by
  cases sub <;> rfl

theorem annUn_node_lcaSet (S : RTree) (base : Bool) (whole : OTree) (p : Path) (l r : OTree) :
    (annUn S base whole p (.node l r)).data.lcaSet =
      sortNat ((dedup ((annUn S base whole (p ++ [0]) l).data.lcaSet ++
          (annUn S base whole (p ++ [1]) r).data.lcaSet)).filter
        (fun f => !((annUn S base whole (p ++ [0]) l).data.gain ++
          (annUn S base whole (p ++ [1]) r).data.gain).contains f)) := rfl

theorem annUn_leaf_lcaSet (S : RTree) (base : Bool) (whole : OTree) (p : Path) (sp : Path)
    (f : List Nat) : (annUn S base whole p (.leaf sp f)).data.lcaSet = sortNat (dedup f) := rfl

/-- **`_compute_lca_sets` = required content.** -/
theorem mem_lcaSet (S : RTree) (base : Bool) (whole : OTree) :
    ∀ (sub : OTree) (p : Path), IsSub whole p sub → ∀ x,
      x ∈ (annUn S base whole p sub).data.lcaSet ↔ x ∈ Spec.requiredContent whole p := by
  intro sub
  induction sub with
  | leaf sp f0 =>
    intro p hsub x
    simp only [annUn_leaf_lcaSet, mem_sortNat, mem_dedup, mem_requiredContent]
    have hself := (below_leaf hsub p f0).mpr ⟨rfl, rfl⟩
    constructor
    · intro hx
      obtain ⟨h1, h2⟩ := family_of_leaf hself.1 hx
      exact ⟨h1, h2, p, f0, hself.1, hself.2, hx⟩
    · rintro ⟨_, _, q, f, hm, ha, hx⟩
      obtain ⟨_, rfl⟩ := (below_leaf hsub q f).mp ⟨hm, ha⟩
      exact hx
  | node l r ihl ihr =>
    intro p hsub x
    obtain ⟨hl, hr⟩ := isSub_child hsub
    rw [annUn_node_lcaSet, annUn_gain, annUn_gain]
    simp only [mem_sortNat, List.mem_filter, mem_dedup, List.mem_append,
      Bool.not_eq_true', List.contains_eq_mem, decide_eq_false_iff_not, not_or]
    rw [ihl _ hl, ihr _ hr]
    simp only [mem_requiredContent, mem_gainsAt]
    constructor
    · rintro ⟨h | h, hg0, hg1⟩
      · obtain ⟨hf, hanc, q, f, hm, ha, hx⟩ := h
        refine ⟨hf, ?_, q, f, hm, isAnc_snoc_of ha, hx⟩
        rcases isAnc_snoc_cases hanc with e | e
        · exact absurd ⟨hf, e⟩ hg0
        · exact e
      · obtain ⟨hf, hanc, q, f, hm, ha, hx⟩ := h
        refine ⟨hf, ?_, q, f, hm, isAnc_snoc_of ha, hx⟩
        rcases isAnc_snoc_cases hanc with e | e
        · exact absurd ⟨hf, e⟩ hg1
        · exact e
    · rintro ⟨hf, hanc, q, f, hm, ha, hx⟩
      refine ⟨?_, fun h => ne_snoc_of_isAnc hanc h.2, fun h => ne_snoc_of_isAnc hanc h.2⟩
      rcases below_child hsub hm ha with h0 | h1
      · exact Or.inl ⟨hf, isAnc_trans hanc (isAnc_append p [0]), q, f, hm, h0, hx⟩
      · exact Or.inr ⟨hf, isAnc_trans hanc (isAnc_append p [1]), q, f, hm, h1, hx⟩

/-! ### Containments used by C04 -/

theorem required_sub_allowed {whole : OTree} {p : Path} {x : Nat}
    (h : x ∈ Spec.requiredContent whole p) : x ∈ Spec.allowedContent whole p := by
  rw [mem_requiredContent] at h
  exact mem_allowedContent.mpr ⟨h.1, h.2.1⟩

theorem gains_sub_allowed {whole : OTree} {p : Path} {x : Nat}
    (h : x ∈ gainsAt whole p) : x ∈ Spec.allowedContent whole p := by
  rw [mem_gainsAt] at h
  exact mem_allowedContent.mpr ⟨h.1, by rw [h.2]; exact isAnc_refl _⟩

theorem allowed_mono {whole : OTree} {p : Path} (i : Nat) {x : Nat}
    (h : x ∈ Spec.allowedContent whole p) : x ∈ Spec.allowedContent whole (p ++ [i]) := by
  rw [mem_allowedContent] at h ⊢
  exact ⟨h.1, isAnc_trans h.2 (isAnc_append p [i])⟩

/-- The required content of a child is required at the parent or gained at the child. -/
theorem required_child {whole : OTree} {p : Path} {i : Nat} {x : Nat}
    (h : x ∈ Spec.requiredContent whole (p ++ [i])) :
    x ∈ Spec.requiredContent whole p ∨ x ∈ gainsAt whole (p ++ [i]) := by
  rw [mem_requiredContent] at h
  obtain ⟨hf, hanc, q, f, hm, ha, hx⟩ := h
  rcases isAnc_snoc_cases hanc with e | e
  · exact Or.inr (mem_gainsAt.mpr ⟨hf, e⟩)
  · exact Or.inl (mem_requiredContent.mpr ⟨hf, e, q, f, hm, isAnc_snoc_of ha, hx⟩)

/-- A family required at a node but not at its child is carried by no leaf below the
    child. -/
theorem no_leaf_of_not_required {whole : OTree} {p : Path} {i : Nat} {x : Nat}
    (h : x ∈ Spec.requiredContent whole p) (hn : x ∉ Spec.requiredContent whole (p ++ [i])) :
    ∀ q f, (q, f) ∈ leafPaths whole → isAnc (p ++ [i]) q = true → x ∉ f := by
  intro q f hm ha hx
  rw [mem_requiredContent] at h
  exact hn (mem_requiredContent.mpr
    ⟨h.1, isAnc_trans h.2.1 (isAnc_append p [i]), q, f, hm, ha, hx⟩)

/-- A family carried by no leaf below a node is not required there. -/
theorem not_required_of_no_leaf {whole : OTree} {p : Path} {x : Nat}
    (h : ∀ q f, (q, f) ∈ leafPaths whole → isAnc p q = true → x ∉ f) :
    x ∉ Spec.requiredContent whole p := by
  intro hr
  rw [mem_requiredContent] at hr
  obtain ⟨_, _, q, f, hm, ha, hx⟩ := hr
  exact h q f hm ha hx

end SR
