/-
  One table cell of the code-structured model (`Model/ThlCode.lean`) against one
  `entry` of the label DP (`Model/LabelDP.lean`), generically:

  * the aggregate entries of `_compute_thl_try_*` are `aggOf` (an `Entry.update`
    of one tagged candidate per species) — the fused loops are split (`fold_*`);
  * `agg_agree`   a MIN / ALL aggregate `Entry` over ALL species (infinite values
                  included) and the `Agg` of the label DP over the FINITE child
                  cells have the same value, and the same tags when it is finite;
  * `comb_agree`  the finite candidates of `Entry.combine` + `__iter__` are the
                  finite candidates of `Agg.comb`;
  * `cell_agree`  a cell written through `EntryProxy.update` with batches whose
                  finite candidates are those of a candidate list `CD` is absent
                  iff `minList CD = inf`, and otherwise holds `minList CD` and the
                  tags attaining it.
-/
import SRVerif.Proofs.ThlCodeBase
import SRVerif.Properties.C16

namespace SR

open Path Cost

namespace ThlCode

/-- An aggregate entry: default-initialised, then offered `Candidate(w x, x)` for
    every `x` of `xs` in turn. -/
def aggOf (r : Retain) (xs : List Path) (w : Path → ExtInt) : Entry Path :=
  Entry.update (Entry.init .min r) (xs.map fun x => ⟨w x, some x⟩)

theorem foldl_offer (xs : List Path) (w : Path → ExtInt) (e : Entry Path) :
    xs.foldl (fun e x => offer e (w x) x) e = Entry.update e (xs.map fun x => ⟨w x, some x⟩) := by
  unfold Entry.update
  rw [List.foldl_map]
  rfl

theorem foldl_offer_if (xs : List Path) (p : Path → Bool) (w : Path → ExtInt) (e : Entry Path) :
    xs.foldl (fun e x => if p x then offer e (w x) x else e) e =
      Entry.update e ((xs.filter p).map fun x => ⟨w x, some x⟩) := by
  induction xs generalizing e with
  | nil => rfl
  | cons x xs ih =>
    simp only [List.foldl_cons, ih, List.filter_cons]
    cases p x <;> simp [offer, Entry.update]

theorem aggOf_congr (r : Retain) (xs : List Path) {w w' : Path → ExtInt}
    (h : ∀ x ∈ xs, w x = w' x) : aggOf r xs w = aggOf r xs w' := by
  unfold aggOf
  congr 1
  apply List.map_congr_left
  intro x hx; rw [h x hx]

theorem aggOf_inv (r : Retain) (xs : List Path) (w : Path → ExtInt) :
    Entry.Inv .min r (xs.map fun x => ⟨w x, some x⟩) (aggOf r xs w) := by
  simpa [aggOf] using Entry.inv_update (Entry.inv_init (τ := Path) .min r) (xs.map fun x => ⟨w x, some x⟩)

/-! ### The batches as functions of the child rows -/

/-- The batch written by `_compute_thl_try_speciation`, given the value rows
    `gl`, `gr` of the two child nodes. -/
def speBatch (r : Retain) (c : Costs) (S : RTree) (s : Path) (gl gr : Path → ExtInt) :
    List (Cand MappingInfo) :=
  let skip := fun x => ExtInt.fin ((c.floss : Int) * ((dist s x : Int) - 1))
  let l0 := S.traverseAt (s ++ [0])
  let l1 := S.traverseAt (s ++ [1])
  cands ((aggOf r l0 fun x => gl x + skip x).combine (aggOf r l1 fun x => gr x + skip x)
    (combinator (.fin (c.spe : Int)))) ++
  cands ((aggOf r l1 fun x => gl x + skip x).combine (aggOf r l0 fun x => gr x + skip x)
    (combinator (.fin (c.spe : Int))))

def belowOf (S : RTree) (s : Path) : List Path := S.levelorder.filter (fun x => isAnc s x)

def sepOf (S : RTree) (s : Path) : List Path :=
  S.levelorder.filter (fun x => !isAnc s x && !isAnc x s)

/-- The batch written by `_compute_thl_try_duplication_transfer`. -/
def dtBatch (r : Retain) (c : Costs) (S : RTree) (s : Path) (gl gr : Path → ExtInt) :
    List (Cand MappingInfo) :=
  let skip := fun x => ExtInt.fin ((c.floss : Int) * (dist s x : Int))
  let ltc := aggOf r (belowOf S s) fun x => gl x + skip x
  let rtc := aggOf r (belowOf S s) fun x => gr x + skip x
  let lts := aggOf r (sepOf S s) gl
  let rts := aggOf r (sepOf S s) gr
  cands (ltc.combine rtc (combinator (.fin (c.dup : Int)))) ++
  cands (lts.combine rtc (combinator c.hgt.toExt)) ++
  cands (ltc.combine rts (combinator c.hgt.toExt))

section folds

variable (wa wb : Path → ExtInt)

theorem fold_spe_left (xs : List Path) (st : SpeAggs) :
    xs.foldl (fun st x => { st with minLtl := offer st.minLtl (wa x) x,
                                    minRtl := offer st.minRtl (wb x) x }) st =
      { st with minLtl := xs.foldl (fun e x => offer e (wa x) x) st.minLtl,
                minRtl := xs.foldl (fun e x => offer e (wb x) x) st.minRtl } := by
  induction xs generalizing st with
  | nil => rfl
  | cons x xs ih => simp only [List.foldl_cons, ih]

theorem fold_spe_right (xs : List Path) (st : SpeAggs) :
    xs.foldl (fun st x => { st with minLtr := offer st.minLtr (wa x) x,
                                    minRtr := offer st.minRtr (wb x) x }) st =
      { st with minLtr := xs.foldl (fun e x => offer e (wa x) x) st.minLtr,
                minRtr := xs.foldl (fun e x => offer e (wb x) x) st.minRtr } := by
  induction xs generalizing st with
  | nil => rfl
  | cons x xs ih => simp only [List.foldl_cons, ih]

theorem fold_dt (p q : Path → Bool) (wc wd : Path → ExtInt) (xs : List Path) (st : DtAggs) :
    xs.foldl (fun st x =>
      if p x then { st with minLtc := offer st.minLtc (wa x) x, minRtc := offer st.minRtc (wb x) x }
      else if q x then { st with minLts := offer st.minLts (wc x) x, minRts := offer st.minRts (wd x) x }
      else st) st =
      { minLtc := xs.foldl (fun e x => if p x then offer e (wa x) x else e) st.minLtc,
        minRtc := xs.foldl (fun e x => if p x then offer e (wb x) x else e) st.minRtc,
        minLts := xs.foldl (fun e x => if (!p x && q x) then offer e (wc x) x else e) st.minLts,
        minRts := xs.foldl (fun e x => if (!p x && q x) then offer e (wd x) x else e) st.minRts } := by
  induction xs generalizing st with
  | nil => rfl
  | cons x xs ih =>
    simp only [List.foldl_cons, ih]
    cases p x <;> cases q x <;> simp

end folds

theorem trySpeciation_eq (r : Retain) (c : Costs) (S : RTree) (s v : Path) (tbl : Table) :
    trySpeciation r c S s v tbl =
      tbl.update r (v, s) (speBatch r c S s (fun x => tbl.value (v ++ [0], x))
        (fun x => tbl.value (v ++ [1], x))) := by
  unfold trySpeciation speBatch
  simp only [fold_spe_left, fold_spe_right, foldl_offer, aggOf]

theorem tryDuplicationTransfer_eq (r : Retain) (c : Costs) (S : RTree) (s v : Path) (tbl : Table) :
    tryDuplicationTransfer r c S s v tbl =
      tbl.update r (v, s) (dtBatch r c S s (fun x => tbl.value (v ++ [0], x))
        (fun x => tbl.value (v ++ [1], x))) := by
  unfold tryDuplicationTransfer dtBatch
  simp only [fold_dt, foldl_offer_if, aggOf, belowOf, sepOf]

/-! ### Aggregates under MIN / ALL -/

theorem ExtInt.not_lt_posInf_iff {a : ExtInt} : ExtInt.lt a .posInf = false ↔ a = .posInf := by
  cases a <;> simp [ExtInt.lt]

/-- Value and tags of a MIN / ALL aggregate whose offered values are costs. -/
theorem aggOf_all_spec (xs : List Path) (w : Path → Cost) :
    let A := aggOf .all xs (fun x => (w x).toExt)
    A.value = (Cost.minList (xs.map w)).toExt ∧
    (∀ x, x ∈ A.infos ↔ x ∈ xs ∧ w x = Cost.minList (xs.map w)) ∧
    A.merge = .min ∧ A.retain = .all := by
  intro A
  have inv := aggOf_inv .all xs (fun x => (w x).toExt)
  have hopt : ∀ x ∈ xs, ExtInt.lt (w x).toExt A.value = false := by
    intro x hx
    have := inv.optimal ⟨(w x).toExt, some x⟩ (List.mem_map.mpr ⟨x, hx, rfl⟩)
    simpa [Entry.better] using this
  -- the value is the image of a cost
  have hval : ∃ a : Cost, A.value = a.toExt ∧ (a = .inf ∨ a ∈ xs.map w) := by
    rcases inv.attained with h | ⟨cnd, hc, h⟩
    · exact ⟨.inf, by simpa [Entry.sentinel] using h, Or.inl rfl⟩
    · obtain ⟨x, hx, rfl⟩ := List.mem_map.mp hc
      exact ⟨w x, h.symm, Or.inr (List.mem_map.mpr ⟨x, hx, rfl⟩)⟩
  obtain ⟨a, ha, hatt⟩ := hval
  have hmin : Cost.minList (xs.map w) = a := by
    apply minList_eq
    · intro v hv
      obtain ⟨x, hx, rfl⟩ := List.mem_map.mp hv
      have := hopt x hx
      rw [ha, toExt_lt] at this
      exact le_of_not_lt this
    · exact hatt
  refine ⟨by rw [hmin, ha], ?_, inv.merge, inv.retain⟩
  intro x
  rw [inv.all rfl x, hmin]
  constructor
  · rintro ⟨cnd, hc, h1, h2⟩
    obtain ⟨x', hx', rfl⟩ := List.mem_map.mp hc
    simp only [Option.some.injEq] at h1
    subst h1
    exact ⟨hx', toExt_inj (by rw [← ha]; exact h2)⟩
  · rintro ⟨hx, hw⟩
    exact ⟨⟨(w x).toExt, some x⟩, List.mem_map.mpr ⟨x, hx, rfl⟩, rfl, by rw [ha, hw]⟩

/-- **Aggregate agreement**: the code's aggregate over all the species `xs`
    (value `w x`, possibly infinite) against the label DP's aggregate over a list
    `R` of (value, tag) that contains exactly the finite ones. -/
theorem agg_agree (xs : List Path) (w : Path → Cost) (R : List (Cost × (Path × Unit)))
    (h1 : ∀ p ∈ R, p.2.1 ∈ xs ∧ w p.2.1 = p.1)
    (h2 : ∀ x ∈ xs, w x ≠ .inf → (w x, (x, ())) ∈ R) :
    let A := aggOf .all xs (fun x => (w x).toExt)
    A.value = (Agg.ofList R).val.toExt ∧
    ((Agg.ofList R).val ≠ .inf → ∀ x, x ∈ A.infos ↔ (x, ()) ∈ (Agg.ofList R).tags) := by
  intro A
  obtain ⟨hv, hi, _, _⟩ := aggOf_all_spec xs w
  obtain ⟨gv, gt, _⟩ := Agg.ofList_spec R
  have hm : Cost.minList (R.map (·.1)) = Cost.minList (xs.map w) := by
    apply minList_eq
    · intro v hv'
      obtain ⟨p, hp, rfl⟩ := List.mem_map.mp hv'
      obtain ⟨hx, hw⟩ := h1 p hp
      rw [← hw]; exact minList_le (List.mem_map.mpr ⟨_, hx, rfl⟩)
    · rcases minList_mem_or_inf (xs.map w) with h | h
      · exact Or.inl h
      · by_cases hinf : Cost.minList (xs.map w) = .inf
        · exact Or.inl hinf
        · obtain ⟨x, hx, hwx⟩ := List.mem_map.mp h
          right
          refine List.mem_map.mpr ⟨(w x, (x, ())), h2 x hx (by rw [hwx]; exact hinf), ?_⟩
          exact hwx
  refine ⟨by rw [hv, gv, hm], ?_⟩
  intro hfin x
  rw [hi x, gt (x, ()), hm]
  rw [gv, hm] at hfin
  constructor
  · rintro ⟨hx, hw⟩
    exact ⟨(w x, (x, ())), h2 x hx (by rw [hw]; exact hfin), rfl, hw⟩
  · rintro ⟨p, hp, hp2, hp1⟩
    obtain ⟨hx, hw⟩ := h1 p hp
    rw [hp2] at hx hw
    exact ⟨hx, by rw [hw, hp1]⟩

/-! ### `combine` followed by `__iter__` -/

/-- The candidates obtained by unpacking `a.combine(b, combinator)` under MIN / ALL:
    one per pair of retained tags, all with the value `k + a.value + b.value`. -/
theorem mem_cands_combine (A B : Entry Path) (hm : A.merge = .min) (hr : A.retain = .all)
    (k : ExtInt) (cnd : Cand MappingInfo) :
    cnd ∈ cands (A.combine B (combinator k)) ↔
      ∃ x ∈ A.infos, ∃ y ∈ B.infos, cnd = ⟨k + A.value + B.value, some ⟨x, y⟩⟩ := by
  have inv : Entry.Inv .min .all (C16.pairCands A B (combinator k)) (A.combine B (combinator k)) := by
    have := Entry.inv_update (Entry.inv_init (τ := MappingInfo) A.merge A.retain)
      (C16.pairCands A B (combinator k))
    rw [hm, hr] at this
    simpa [Entry.combine, C16.pairCands, hm, hr] using this
  have hpc : ∀ pc, pc ∈ C16.pairCands A B (combinator k) ↔
      ∃ x ∈ A.infos, ∃ y ∈ B.infos, pc = ⟨k + A.value + B.value, some ⟨x, y⟩⟩ := by
    intro pc; rw [C16.mem_pairCands]; rfl
  simp only [cands, List.mem_map]
  constructor
  · rintro ⟨t, ht, rfl⟩
    obtain ⟨pc, hpc', h1, h2⟩ := (inv.all rfl t).mp ht
    obtain ⟨x, hx, y, hy, rfl⟩ := (hpc pc).mp hpc'
    simp only [Option.some.injEq] at h1
    exact ⟨x, hx, y, hy, by rw [← h2, ← h1]⟩
  · rintro ⟨x, hx, y, hy, rfl⟩
    have hmem : (⟨k + A.value + B.value, some ⟨x, y⟩⟩ : Cand MappingInfo) ∈
        C16.pairCands A B (combinator k) := (hpc _).mpr ⟨x, hx, y, hy, rfl⟩
    have hval : (A.combine B (combinator k)).value = k + A.value + B.value := by
      rcases inv.attained with h | ⟨pc, hpc', h⟩
      · have := inv.optimal _ hmem
        simp only [Entry.better] at this
        rw [h] at this ⊢
        simp only [Entry.sentinel, if_true] at this ⊢
        exact (ExtInt.not_lt_posInf_iff.mp this).symm
      · obtain ⟨x', _, y', _, rfl⟩ := (hpc pc).mp hpc'
        exact h.symm
    refine ⟨⟨x, y⟩, (inv.all rfl _).mpr ⟨_, hmem, rfl, hval.symm⟩, ?_⟩
    rw [hval]

/-- **Combination agreement**: finite candidates of the code's combination =
    finite candidates of `Agg.comb`. -/
theorem comb_agree (A B : Entry Path) (GA GB : Agg (Path × Unit))
    (hm : A.merge = .min) (hr : A.retain = .all)
    (hav : A.value = GA.val.toExt) (hat : GA.val ≠ .inf → ∀ x, x ∈ A.infos ↔ (x, ()) ∈ GA.tags)
    (hbv : B.value = GB.val.toExt) (hbt : GB.val ≠ .inf → ∀ x, x ∈ B.infos ↔ (x, ()) ∈ GB.tags)
    (k : Cost) :
    (∀ cnd ∈ cands (A.combine B (combinator k.toExt)), ∃ V t, cnd = ⟨Cost.toExt V, some t⟩) ∧
    (∀ v : Cost, v ≠ .inf → ∀ x y,
      (⟨v.toExt, some ⟨x, y⟩⟩ : Cand MappingInfo) ∈ cands (A.combine B (combinator k.toExt)) ↔
        (v, ((x, ()), (y, ()))) ∈ Agg.comb k GA GB) := by
  have hsum : k.toExt + A.value + B.value = (k + GA.val + GB.val).toExt := by
    rw [hav, hbv, toExt_add, toExt_add]
  constructor
  · intro cnd h
    obtain ⟨x, _, y, _, rfl⟩ := (mem_cands_combine A B hm hr _ cnd).mp h
    exact ⟨_, _, by rw [hsum]⟩
  · intro v hv x y
    rw [mem_cands_combine A B hm hr, Agg.mem_comb, hsum]
    constructor
    · rintro ⟨x', hx', y', hy', h⟩
      injection h with h1 h2
      injection h2 with h2
      injection h2 with h3 h4
      subst h3; subst h4
      have hveq := toExt_inj h1
      have hfin := add_ne_inf (hveq ▸ hv)
      have hfin' := add_ne_inf hfin.1
      exact ⟨(hat hfin'.2 _).mp hx', (hbt hfin.2 _).mp hy', hveq⟩
    · rintro ⟨hx, hy, hveq⟩
      have hfin := add_ne_inf (hveq ▸ hv)
      have hfin' := add_ne_inf hfin.1
      exact ⟨x, (hat hfin'.2 _).mpr hx, y, (hbt hfin.2 _).mpr hy, by rw [hveq]⟩

/-! ### A cell written through `EntryProxy.update` -/

theorem mem_written {bs : List (List (Cand MappingInfo))} {cnd : Cand MappingInfo}
    (hfin : cnd.value.isInfinite = false) :
    cnd ∈ (bs.filter C16.writes).flatten ↔ cnd ∈ bs.flatten := by
  simp only [List.mem_flatten, List.mem_filter]
  constructor
  · rintro ⟨b, ⟨hb, _⟩, hc⟩; exact ⟨b, hb, hc⟩
  · rintro ⟨b, hb, hc⟩
    refine ⟨b, ⟨hb, ?_⟩, hc⟩
    simp only [C16.writes, List.any_eq_true]
    exact ⟨cnd, hc, by simp [hfin]⟩

/-- **Cell agreement**: batches whose candidates carry cost values and whose
    finite candidates are exactly those of the candidate list `CD`. -/
theorem cell_agree (bs : List (List (Cand MappingInfo)))
    (CD : List (Cost × ((Path × Unit) × (Path × Unit))))
    (hform : ∀ cnd ∈ bs.flatten, ∃ V t, cnd = ⟨Cost.toExt V, some t⟩)
    (hfin : ∀ v : Cost, v ≠ .inf → ∀ x y,
      (⟨v.toExt, some ⟨x, y⟩⟩ : Cand MappingInfo) ∈ bs.flatten ↔ (v, ((x, ()), (y, ()))) ∈ CD) :
    let cell := bs.foldl (Cell.update .min .all) (none : Cell MappingInfo)
    let best := Cost.minList (CD.map (·.1))
    (best = .inf → cell = none) ∧
    (best ≠ .inf → ∃ e, cell = some e ∧ e.value = best.toExt ∧ e.merge = .min ∧ e.retain = .all ∧
      ∀ x y, (⟨x, y⟩ : MappingInfo) ∈ e.infos ↔ (best, ((x, ()), (y, ()))) ∈ CD) := by
  intro cell best
  have hcell : cell = _ := C16.cell_fold .min .all none bs
  constructor
  · intro hb
    rw [hcell, if_pos]
    -- no batch writes
    rw [List.filter_eq_nil_iff]
    intro b hb' hw
    simp only [C16.writes, List.any_eq_true, Bool.not_eq_true', ] at hw
    obtain ⟨cnd, hc, hcf⟩ := hw
    have hmem : cnd ∈ bs.flatten := List.mem_flatten.mpr ⟨b, hb', hc⟩
    obtain ⟨V, t, rfl⟩ := hform cnd hmem
    obtain ⟨x, y⟩ := t
    have hV : V ≠ .inf := by
      intro e; rw [e] at hcf; simp [ExtInt.isInfinite] at hcf
    have := (hfin V hV x y).mp hmem
    have hle : best ≼ V := minList_le (List.mem_map.mpr ⟨_, this, rfl⟩)
    rw [hb] at hle
    exact hV ((inf_le _).mp hle)
  · intro hb
    -- the minimum of `CD` is attained, by a finite candidate of the code
    obtain ⟨⟨v0, ⟨x0, _⟩, ⟨y0, _⟩⟩, hp0, hv0⟩ : ∃ p ∈ CD, p.1 = best := by
      rcases minList_mem_or_inf (CD.map (·.1)) with h | h
      · exact absurd h hb
      · obtain ⟨p, hp, h'⟩ := List.mem_map.mp h; exact ⟨p, hp, h'⟩
    simp only at hv0
    subst hv0
    have hc0 := (hfin _ hb x0 y0).mpr hp0
    have hfin0 : (⟨Cost.toExt best, some ⟨x0, y0⟩⟩ : Cand MappingInfo).value.isInfinite = false := by
      show (Cost.toExt best).isInfinite = false
      rw [toExt_isInfinite]; exact isInf_eq_false.mpr hb
    have hw0 := (mem_written hfin0).mpr hc0
    have hne : bs.filter C16.writes ≠ [] := by
      intro e; rw [e] at hw0; simp at hw0
    rw [hcell, if_neg hne]
    refine ⟨_, rfl, ?_⟩
    have inv : Entry.Inv .min .all (bs.filter C16.writes).flatten
        (Entry.update (Entry.init .min .all) (bs.filter C16.writes).flatten) := by
      simpa using Entry.inv_update (Entry.inv_init (τ := MappingInfo) .min .all)
        (bs.filter C16.writes).flatten
    simp only [Option.getD_none]
    generalize Entry.update (Entry.init .min .all) (bs.filter C16.writes).flatten = e at inv
    have hopt0 : ExtInt.lt (Cost.toExt best) e.value = false := by
      simpa [Entry.better] using inv.optimal _ hw0
    -- the value is attained by a candidate, which is a finite cost `V`
    have hval : e.value = best.toExt := by
      rcases inv.attained with h | ⟨cnd, hc, h⟩
      · rw [h] at hopt0
        simp only [Entry.sentinel, if_true] at hopt0
        have := toExt_eq_posInf.mp (ExtInt.not_lt_posInf_iff.mp hopt0)
        exact absurd this hb
      · have hmem : cnd ∈ bs.flatten := by
          simp only [List.mem_flatten, List.mem_filter] at hc ⊢
          obtain ⟨b, ⟨hb', _⟩, hc'⟩ := hc; exact ⟨b, hb', hc'⟩
        obtain ⟨V, ⟨x, y⟩, rfl⟩ := hform cnd hmem
        simp only at h
        rw [← h, toExt_lt] at hopt0
        have hVb : V ≼ best := le_of_not_lt hopt0
        have hV : V ≠ .inf := by
          intro e'; rw [e'] at hVb; exact hb ((inf_le _).mp hVb)
        have hbV : best ≼ V :=
          minList_le (List.mem_map.mpr ⟨_, (hfin V hV x y).mp hmem, rfl⟩)
        rw [← h, le_antisymm hVb hbV]
    refine ⟨hval, inv.merge, inv.retain, ?_⟩
    intro x y
    rw [inv.all rfl, ← hfin _ hb x y]
    constructor
    · rintro ⟨cnd, hc, h1, h2⟩
      have hmem : cnd ∈ bs.flatten := by
        simp only [List.mem_flatten, List.mem_filter] at hc ⊢
        obtain ⟨b, ⟨hb', _⟩, hc'⟩ := hc; exact ⟨b, hb', hc'⟩
      obtain ⟨V, t, rfl⟩ := hform cnd hmem
      simp only [Option.some.injEq] at h1
      simp only at h2
      rw [hval] at h2
      rw [← h1, ← toExt_inj h2]; exact hmem
    · intro hmem
      have hf : (⟨Cost.toExt best, some ⟨x, y⟩⟩ : Cand MappingInfo).value.isInfinite = false := hfin0
      exact ⟨_, (mem_written hf).mpr hmem, rfl, hval.symm⟩

end ThlCode

end SR
