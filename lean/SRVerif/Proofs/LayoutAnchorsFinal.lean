/-
  C14, anchors — part 3: what the final `layout_state` of a valid
  reconciliation (binary species tree) guarantees to the later stages:
  every key referenced by a branch is where `_layout_branches` /
  `_tikz_draw_branches` look it up, and is still an anchor when it must be.
-/
import SRVerif.Proofs.LayoutAnchorsGene

namespace SR.Layout

open SR

/-- Everything the later stages look up. -/
structure FinalOK (S : RTree) (sol : Sol) (st : LState) : Prop where
  keys : skeys st = S.postorder
  /-- duplication / transfer branches refer to EARLIER branches of the species -/
  ord : ∀ t, OrdOK (brs st t)
  /-- the key kept by a loss branch is an anchor of the child species -/
  loss : ∀ t b, b ∈ brs st t → b.kind = .loss →
    ∃ i k, (i = 0 ∨ i = 1) ∧ S.isNode (t ++ [i]) = true ∧
      b.left = (if i = 0 then some k else none) ∧ b.right = (if i = 1 then some k else none) ∧
      k ∈ keysOf (brs st (t ++ [i])) ∧ k ∈ ancs st (t ++ [i])
  /-- the two children of a speciation branch are anchors of the two child species -/
  spec : ∀ t b, b ∈ brs st t → b.kind = .spec →
    ∃ k1 k2, b.left = some k1 ∧ b.right = some k2 ∧ S.isNode (t ++ [0]) = true ∧
      k1 ∈ keysOf (brs st (t ++ [0])) ∧ k1 ∈ ancs st (t ++ [0]) ∧
      k2 ∈ keysOf (brs st (t ++ [1])) ∧ k2 ∈ ancs st (t ++ [1])
  /-- the target of a transfer is an anchor of the species it is mapped to -/
  hgt : ∀ t b, b ∈ brs st t → b.kind = .hgt →
    ∃ gf sf, b.right = some (.gene gf) ∧ spOfSol sol gf = some sf ∧ S.isNode sf = true ∧
      Key.gene gf ∈ keysOf (brs st sf) ∧ Key.gene gf ∈ ancs st sf

theorem ev_hgt_not_both {s a b : Path} (h : internalEvent s a b = .hgt) :
    ¬ (Path.isAnc s a = true ∧ Path.isAnc s b = true) := by
  unfold internalEvent at h
  split at h
  · cases h
  · split at h
    · split at h <;> cases h
    · rename_i h2
      simpa using h2

/-- A key at the top of the lineage `q ++ [c]` in a species `u` other than the
    species of `q` is never removed from the anchors of `u`. -/
theorem topKey_anchor {sol : Sol} {st : LState} (inv : PInv st) (typ : Typed sol st)
    (done : ∀ q subq, subAt sol q = some subq → .gene q ∈ keysOf (brs st subq.sp))
    {q u : Path} {c : Nat} {k : Key} (h : TopKey sol st (q ++ [c]) u k)
    (hq : ∀ subq, subAt sol q = some subq → subq.sp ≠ u) :
    k ∈ keysOf (brs st u) ∧ k ∈ ancs st u := by
  have hkeys : k ∈ keysOf (brs st u) := by
    rcases h with ⟨rfl, hsp⟩ | ⟨_, hk⟩
    · rw [spOfSol_eq] at hsp
      cases hs : subAt sol (q ++ [c]) with
      | none => simp [hs] at hsp
      | some subg =>
        simp only [hs, Option.map_some, Option.some.injEq] at hsp
        rw [← hsp]
        exact done _ _ hs
    · exact hk
  refine ⟨hkeys, inv.anch u k hkeys ?_⟩
  intro b' hb' hcons
  obtain ⟨j, hj⟩ := inv.cons u b' hb' k hcons
  rw [h.lin] at hj
  have hown : b'.key.owner = q := ((List.append_inj' hj rfl).1).symm
  obtain ⟨p', sub', hsub', hl | ⟨_, hu, hkey, _⟩⟩ := typ u b' hb'
  · simp [consumes, hl.1] at hcons
  · rw [hkey] at hown
    simp only [Key.owner] at hown
    subst hown
    exact hq sub' hsub' hu.symm

theorem computeBranches_final {S : RTree} {sol : Sol} (hbin : S.isBinary = true)
    (hgood : Good S sol) : ∃ st, computeBranches S sol = .ok st ∧ FinalOK S sol st := by
  obtain ⟨st, ok, hk, inv, typ, done⟩ := computeBranches_ok hgood
  have hJ := computeBranches_J hbin hgood ok
  refine ⟨st, ok, hk, hJ.ord, ?_, ?_, ?_⟩
  · -- loss branches
    intro t b hb hkind
    have hl := hJ.link t b hb
    unfold Linked at hl
    simp only [hkind] at hl
    obtain ⟨g, i, k, hkey, hnode, hleft, hright, htop⟩ := hl
    obtain ⟨p, sub, hsub, ⟨_, i', a, _, hkey', _, _, hanc, _⟩ | ⟨hne, _⟩⟩ := typ t b hb
    · rw [hkey] at hkey'
      simp only [Key.loss.injEq, and_true] at hkey'
      subst hkey'
      obtain ⟨h1, h2⟩ := topKey_anchor inv typ done htop (by
        intro subq hq heq
        rw [hsub] at hq
        cases hq
        rw [heq, Path.isAnc_iff_prefix] at hanc
        have := hanc.length_le
        simp only [List.length_append, List.length_singleton] at this
        omega)
      exact ⟨i, k, (RTree.binary_child hbin hnode).1, hnode, hleft, hright, h1, h2⟩
    · exact absurd hkind hne
  · -- speciation branches
    intro t b hb hkind
    have hl := hJ.link t b hb
    unfold Linked at hl
    simp only [hkind] at hl
    obtain ⟨p0, c1, c2, k1, k2, hkey, hleft, hright, hnode, htop1, htop2⟩ := hl
    obtain ⟨p, sub, hsub, ⟨hlk, _⟩ | ⟨_, ht, hkey', _⟩⟩ := typ t b hb
    · rw [hkind] at hlk; cases hlk
    · rw [hkey] at hkey'
      simp only [Key.gene.injEq] at hkey'
      subst hkey'
      have hq : ∀ (j : Nat) subq, subAt sol p0 = some subq → subq.sp ≠ t ++ [j] := by
        intro j subq hq heq
        rw [hsub] at hq
        cases hq
        rw [← ht] at heq
        have := congrArg List.length heq
        simp at this
      obtain ⟨a1, a2⟩ := topKey_anchor inv typ done htop1 (hq 0)
      obtain ⟨b1, b2⟩ := topKey_anchor inv typ done htop2 (hq 1)
      exact ⟨k1, k2, hleft, hright, hnode, a1, a2, b1, b2⟩
  · -- transfer branches
    intro t b hb hkind
    obtain ⟨p, sub, hsub, ⟨hlk, _⟩ | ⟨_, ht, hkey, hnb⟩⟩ := typ t b hb
    · rw [hkind] at hlk; cases hlk
    · cases sub with
      | leaf s f => simp only [NodeBranch] at hnb; rw [hkind] at hnb; cases hnb
      | node s f l r =>
        simp only [Sol.sp] at ht hnb
        subst ht
        obtain ⟨hl, hr⟩ := subAt_child hsub
        obtain ⟨hspl, hspr⟩ := spOfSol_child hsub
        simp only [NodeBranch] at hnb
        cases hE : internalEvent t l.sp r.sp with
        | leaf => simp only [hE] at hnb
        | invalid => simp only [hE] at hnb
        | spec => simp only [hE] at hnb; rw [hkind] at hnb; cases hnb
        | dup => simp only [hE] at hnb; rw [hkind] at hnb; cases hnb
        | hgt =>
          simp only [hE] at hnb
          obtain ⟨_, k1, _, hside⟩ := hnb
          have hq : ∀ sf, sf ≠ t → ∀ subq, subAt sol p = some subq → subq.sp ≠ sf := by
            intro sf hne subq hq heq
            rw [hsub] at hq
            cases hq
            exact hne heq.symm
          rcases hside with ⟨hkeep, _, hright⟩ | ⟨hkeep, _, hright⟩
          · have hne : r.sp ≠ t := by
              intro heq
              exact ev_hgt_not_both hE ⟨hkeep, by rw [heq]; exact Path.isAnc_refl t⟩
            obtain ⟨a1, a2⟩ := topKey_anchor inv typ done
              (.inl ⟨rfl, hspr⟩ : TopKey sol st (p ++ [1]) r.sp (.gene (p ++ [1]))) (hq _ hne)
            exact ⟨p ++ [1], r.sp, hright, hspr, (hgood _ r hr).1, a1, a2⟩
          · have hne : l.sp ≠ t := by
              intro heq
              rw [heq, Path.isAnc_refl] at hkeep
              cases hkeep
            obtain ⟨a1, a2⟩ := topKey_anchor inv typ done
              (.inl ⟨rfl, hspl⟩ : TopKey sol st (p ++ [0]) l.sp (.gene (p ++ [0]))) (hq _ hne)
            exact ⟨p ++ [0], l.sp, hright, hspl, (hgood _ l hl).1, a1, a2⟩

end SR.Layout
