/-
  Soundness of BUILD (`tree_from_triples`) and AllTrees
  (`all_trees_from_triples`): every returned tree has the given leaves and
  displays every triple lying inside the leaf set.
-/
import SRVerif.Proofs.DisjointSetBinary
import SRVerif.Spec.Triples

namespace SR.Tri

open SR SR.DS LTree Spec

/-! ### Trees -/

theorem mem_leavesL {cs : List LTree} {x : Nat} : x ∈ leavesL cs ↔ ∃ c, c ∈ cs ∧ x ∈ c.leaves := by
  induction cs with
  | nil => simp [leavesL]
  | cons c cs ih => simp [leavesL, ih]

theorem mem_cladesL {cs : List LTree} {C : List Nat} : C ∈ cladesL cs ↔ ∃ c, c ∈ cs ∧ C ∈ clades c := by
  induction cs with
  | nil => simp [cladesL]
  | cons c cs ih => simp [cladesL, ih]

theorem leaves_mem_clades (t : LTree) : t.leaves ∈ clades t := by
  cases t <;> simp [clades, leaves]

theorem displays_iff (t : LTree) (tr : Triple) :
    displays t tr = true ↔ tr.1 ∈ t.leaves ∧ tr.2.1 ∈ t.leaves ∧ tr.2.2 ∈ t.leaves ∧
      ∃ C, C ∈ clades t ∧ tr.1 ∈ C ∧ tr.2.1 ∈ C ∧ tr.2.2 ∉ C := by
  simp [displays, and_assoc]

theorem inside_iff (ls : List Nat) (tr : Triple) :
    inside ls tr = true ↔ tr.1 ∈ ls ∧ tr.2.1 ∈ ls ∧ tr.2.2 ∈ ls := by
  simp [inside, and_assoc]

/-! ### Assembling a node from subtrees built on a partition of the leaves -/

/-- Pointwise relation between two lists. -/
inductive All2 {α β : Type} (R : α → β → Prop) : List α → List β → Prop
  | nil : All2 R [] []
  | cons {a : α} {b : β} {as : List α} {bs : List β} : R a b → All2 R as bs → All2 R (a :: as) (b :: bs)

theorem All2.left {α β : Type} {R : α → β → Prop} {as : List α} {bs : List β} (h : All2 R as bs)
    {a : α} (ha : a ∈ as) : ∃ b, b ∈ bs ∧ R a b := by
  induction h with
  | nil => cases ha
  | cons hr _ ih =>
    rcases List.mem_cons.mp ha with rfl | ha
    · exact ⟨_, by simp, hr⟩
    · obtain ⟨b, hb, hrb⟩ := ih ha
      exact ⟨b, by simp [hb], hrb⟩

theorem All2.right {α β : Type} {R : α → β → Prop} {as : List α} {bs : List β} (h : All2 R as bs)
    {b : β} (hb : b ∈ bs) : ∃ a, a ∈ as ∧ R a b := by
  induction h with
  | nil => cases hb
  | cons hr _ ih =>
    rcases List.mem_cons.mp hb with rfl | hb
    · exact ⟨_, by simp, hr⟩
    · obtain ⟨a, ha, hra⟩ := ih hb
      exact ⟨a, by simp [ha], hra⟩

theorem all2_of_mapM {α β : Type} {f : α → Option β} : ∀ {as : List α} {bs : List β},
    as.mapM f = some bs → All2 (fun a b => f a = some b) as bs := by
  intro as
  induction as with
  | nil => intro bs h; simp at h; subst h; exact All2.nil
  | cons a as ih =>
    intro bs h
    rw [List.mapM_cons] at h
    cases hfa : f a with
    | none => simp [hfa] at h
    | some b =>
      cases hrest : as.mapM f with
      | none => simp [hfa, hrest] at h
      | some bs' =>
        simp [hfa, hrest] at h
        subst h
        exact All2.cons hfa (ih hrest)

/-- `t` is a correct answer for the leaf list `ls`. -/
structure Good (triples : List Triple) (ls : List Nat) (t : LTree) : Prop where
  nodup : t.leaves.Nodup
  mem : ∀ x, x ∈ t.leaves ↔ x ∈ ls
  disp : ∀ tr, tr ∈ triples → inside ls tr = true → displays t tr = true

theorem node_good {triples : List Triple} {l : List Nat} {Ls : List (List Nat)} {cs : List LTree}
    (hdis : Ls.Pairwise (fun A B => ∀ x, x ∈ A → x ∉ B))
    (hcov : ∀ x, x ∈ l ↔ ∃ L, L ∈ Ls ∧ x ∈ L)
    (hpair : ∀ tr, tr ∈ triples → inside l tr = true → ∃ L, L ∈ Ls ∧ tr.1 ∈ L ∧ tr.2.1 ∈ L)
    (hcs : All2 (Good triples) Ls cs) : Good triples l (.node cs) := by
  have hmem : ∀ x, x ∈ leavesL cs ↔ x ∈ l := by
    intro x
    rw [mem_leavesL, hcov]
    constructor
    · rintro ⟨c, hc, hx⟩
      obtain ⟨L, hL, hg⟩ := hcs.right hc
      exact ⟨L, hL, (hg.mem x).mp hx⟩
    · rintro ⟨L, hL, hx⟩
      obtain ⟨c, hc, hg⟩ := hcs.left hL
      exact ⟨c, hc, (hg.mem x).mpr hx⟩
  refine ⟨?_, hmem, ?_⟩
  · show (leavesL cs).Nodup
    clear hcov hpair hmem
    induction hcs with
    | nil => simp [leavesL]
    | @cons L c Ls cs hg _ ih =>
      rw [List.pairwise_cons] at hdis
      simp only [leavesL]
      rw [List.nodup_append]
      refine ⟨hg.nodup, ih hdis.2, ?_⟩
      intro a ha b hb hab
      subst hab
      obtain ⟨c', hc', hx⟩ := mem_leavesL.mp hb
      rename_i hrest
      obtain ⟨L', hL', hg'⟩ := hrest.right hc'
      exact hdis.1 L' hL' a ((hg.mem a).mp ha) ((hg'.mem a).mp hx)
  · intro tr htr hin
    obtain ⟨ha, hb, hc⟩ := (inside_iff l tr).mp hin
    obtain ⟨L, hL, haL, hbL⟩ := hpair tr htr hin
    obtain ⟨c, hcm, hg⟩ := hcs.left hL
    rw [displays_iff]
    refine ⟨(hmem _).mpr ha, (hmem _).mpr hb, (hmem _).mpr hc, ?_⟩
    by_cases hcL : tr.2.2 ∈ L
    · have := hg.disp tr htr ((inside_iff L tr).mpr ⟨haL, hbL, hcL⟩)
      obtain ⟨_, _, _, C, hC, h1, h2, h3⟩ := (displays_iff c tr).mp this
      exact ⟨C, by simp only [clades]; exact List.mem_cons_of_mem _ (mem_cladesL.mpr ⟨c, hcm, hC⟩), h1, h2, h3⟩
    · refine ⟨c.leaves, ?_, (hg.mem _).mpr haL, (hg.mem _).mpr hbL, fun h => hcL ((hg.mem _).mp h)⟩
      simp only [clades]
      exact List.mem_cons_of_mem _ (mem_cladesL.mpr ⟨c, hcm, leaves_mem_clades c⟩)

theorem All2.imp_mem {α β : Type} {R S : α → β → Prop} {as : List α} {bs : List β}
    (h : All2 R as bs) (himp : ∀ a, a ∈ as → ∀ b, R a b → S a b) : All2 S as bs := by
  induction h with
  | nil => exact All2.nil
  | cons hr _ ih =>
    exact All2.cons (himp _ (by simp) _ hr) (ih (fun a ha b hab => himp a (by simp [ha]) b hab))

theorem All2.map_left {α β γ : Type} {R : γ → β → Prop} {f : α → γ} {as : List α} {bs : List β}
    (h : All2 (fun a b => R (f a) b) as bs) : All2 R (as.map f) bs := by
  induction h with
  | nil => exact All2.nil
  | cons hr _ ih => exact All2.cons hr ih

theorem All2.length_eq {α β : Type} {R : α → β → Prop} {as : List α} {bs : List β}
    (h : All2 R as bs) : as.length = bs.length := by
  induction h with
  | nil => rfl
  | cons _ _ ih => simp [ih]

/-! ### From index groups to leaf groups -/

theorem getD_idxOf {l : List Nat} {a : Nat} (h : a ∈ l) : l.getD (l.idxOf a) 0 = a := by
  have hlt : l.idxOf a < l.length := List.idxOf_lt_length_iff.mpr h
  rw [List.getD_eq_getElem?_getD, List.getElem?_eq_getElem hlt]
  simp [List.getElem_idxOf hlt]

theorem idxOf_getD {l : List Nat} (hl : l.Nodup) {i : Nat} (h : i < l.length) :
    l.idxOf (l.getD i 0) = i := by
  rw [List.getD_eq_getElem?_getD, List.getElem?_eq_getElem h]
  simp [hl.idxOf_getElem i h]

theorem getD_mem {l : List Nat} {i : Nat} (h : i < l.length) : l.getD i 0 ∈ l := by
  rw [List.getD_eq_getElem?_getD, List.getElem?_eq_getElem h]
  simp

theorem mem_groupLeaves {l g : List Nat} {x : Nat} :
    x ∈ groupLeaves l g ↔ ∃ i, i ∈ g ∧ l.getD i 0 = x := by
  simp [groupLeaves]

/-- The leaf groups of a class list partition the leaves. -/
theorem classList_names {d : DS} {gs : List (List Nat)} {l : List Nat} (hl : l.Nodup)
    (hsz : d.size = l.length) (hC : IsClassList d gs) :
    (gs.map (groupLeaves l)).Pairwise (fun A B => ∀ x, x ∈ A → x ∉ B) ∧
    (∀ x, x ∈ l ↔ ∃ L, L ∈ gs.map (groupLeaves l) ∧ x ∈ L) ∧
    (∀ a b, a ∈ l → b ∈ l → Same d (l.idxOf a) (l.idxOf b) →
      ∃ L, L ∈ gs.map (groupLeaves l) ∧ a ∈ L ∧ b ∈ L) ∧
    (∀ g, g ∈ gs → (groupLeaves l g).Nodup) := by
  have hlt : ∀ g, g ∈ gs → ∀ i, i ∈ g → i < l.length := by
    intro g hg i hi
    obtain ⟨r, _, _, hm⟩ := hC.isClass g hg
    exact hsz ▸ ((hm i).mp hi).1
  refine ⟨?_, ?_, ?_, ?_⟩
  · rw [List.pairwise_map]
    refine List.Pairwise.imp_of_mem ?_ hC.disjoint
    intro g g' hg hg' hd x hx hx'
    obtain ⟨i, hi, rfl⟩ := mem_groupLeaves.mp hx
    obtain ⟨j, hj, hij⟩ := mem_groupLeaves.mp hx'
    have : j = i := by
      rw [← idxOf_getD hl (hlt g' hg' j hj), hij, idxOf_getD hl (hlt g hg i hi)]
    subst this
    exact hd j hi hj
  · intro x
    constructor
    · intro hx
      have hi : l.idxOf x < d.size := hsz ▸ List.idxOf_lt_length_iff.mpr hx
      obtain ⟨g, hg, hig⟩ := hC.cover _ hi
      exact ⟨groupLeaves l g, List.mem_map.mpr ⟨g, hg, rfl⟩,
        mem_groupLeaves.mpr ⟨_, hig, getD_idxOf hx⟩⟩
    · rintro ⟨L, hL, hx⟩
      obtain ⟨g, hg, rfl⟩ := List.mem_map.mp hL
      obtain ⟨i, hi, rfl⟩ := mem_groupLeaves.mp hx
      exact getD_mem (hlt g hg i hi)
  · intro a b ha hb hs
    have hi : l.idxOf a < d.size := hsz ▸ List.idxOf_lt_length_iff.mpr ha
    have hj : l.idxOf b < d.size := hsz ▸ List.idxOf_lt_length_iff.mpr hb
    obtain ⟨g, hg, hig⟩ := hC.cover _ hi
    obtain ⟨r, _, _, hm⟩ := hC.isClass g hg
    have hra := ((hm _).mp hig).2
    obtain ⟨ρ, h1, h2⟩ := hs
    rw [RootOf.det h1 hra] at h2
    have hjg : l.idxOf b ∈ g := (hm _).mpr ⟨hj, h2⟩
    exact ⟨groupLeaves l g, List.mem_map.mpr ⟨g, hg, rfl⟩,
      mem_groupLeaves.mpr ⟨_, hig, getD_idxOf ha⟩, mem_groupLeaves.mpr ⟨_, hjg, getD_idxOf hb⟩⟩
  · intro g hg
    unfold groupLeaves
    rw [List.Nodup, List.pairwise_map]
    refine List.Pairwise.imp_of_mem ?_ (hC.sorted g hg)
    intro i j hi hj hij heq
    have : i = j := by
      rw [← idxOf_getD hl (hlt g hg i hi), heq, idxOf_getD hl (hlt g hg j hj)]
    omega

/-! ### The partition of one level -/

def tripleOp (l : List Nat) (t : Triple) : Op := .unite (l.idxOf t.1) (l.idxOf t.2.1)

theorem partitionOf_eq_run (l : List Nat) (trs : List Triple) :
    partitionOf l trs = run l.length (trs.map (tripleOp l)) := by
  simp only [partitionOf, run, List.foldl_map]
  rfl

theorem pairsOf_tripleOps (l : List Nat) (trs : List Triple) :
    pairsOf (trs.map (tripleOp l)) = trs.map (fun t => (l.idxOf t.1, l.idxOf t.2.1)) := by
  induction trs with
  | nil => rfl
  | cons t trs ih => simp [tripleOp, pairsOf, ← ih]

/-- The triples never name an unknown leaf in first or second position
    (otherwise the Python code raises `KeyError`). -/
def Known (l : List Nat) (trs : List Triple) : Prop := ∀ tr, tr ∈ trs → tr.1 ∈ l ∧ tr.2.1 ∈ l

theorem partitionOf_inv {l : List Nat} {trs : List Triple} (hk : Known l trs) :
    Inv l.length (partitionOf l trs) (trs.map (fun t => (l.idxOf t.1, l.idxOf t.2.1))) := by
  rw [partitionOf_eq_run, ← pairsOf_tripleOps]
  apply inv_run
  intro op hop
  obtain ⟨t, ht, rfl⟩ := List.mem_map.mp hop
  exact ⟨List.idxOf_lt_length_iff.mpr (hk t ht).1, List.idxOf_lt_length_iff.mpr (hk t ht).2⟩

theorem partitionOf_same {l : List Nat} {trs : List Triple} (hk : Known l trs) {tr : Triple}
    (h : tr ∈ trs) : Same (partitionOf l trs) (l.idxOf tr.1) (l.idxOf tr.2.1) :=
  ((partitionOf_inv hk).same _ _).mpr (Conn.base (List.mem_map.mpr ⟨tr, h, rfl⟩))

/-! ### BUILD is sound -/

def Proper (trs : List Triple) : Prop := ∀ tr, tr ∈ trs → proper tr = true

theorem proper_iff (tr : Triple) : proper tr = true ↔ tr.1 ≠ tr.2.1 ∧ tr.1 ≠ tr.2.2 ∧ tr.2.1 ≠ tr.2.2 := by
  simp [proper, and_assoc]

theorem good_leaf {trs : List Triple} (hp : Proper trs) (a : Nat) : Good trs [a] (.leaf a) := by
  refine ⟨by simp [leaves], fun x => by simp [leaves], ?_⟩
  intro tr htr hin
  obtain ⟨h1, h2, h3⟩ := (proper_iff tr).mp (hp tr htr)
  obtain ⟨i1, i2, i3⟩ := (inside_iff _ tr).mp hin
  simp only [List.mem_singleton] at i1 i2 i3
  omega

theorem good_cherry {trs : List Triple} (hp : Proper trs) {a b : Nat} (hab : a ≠ b) :
    Good trs [a, b] (.node [.leaf a, .leaf b]) := by
  refine ⟨by simp [leaves, leavesL, hab], fun x => by simp [leaves, leavesL], ?_⟩
  intro tr htr hin
  obtain ⟨h1, h2, h3⟩ := (proper_iff tr).mp (hp tr htr)
  obtain ⟨i1, i2, i3⟩ := (inside_iff _ tr).mp hin
  simp only [List.mem_cons, List.not_mem_nil, or_false] at i1 i2 i3
  omega

/-- Restricting the triples to a group keeps the hypotheses. -/
theorem known_filter (L : List Nat) (trs : List Triple) : Known L (trs.filter (inside L)) := by
  intro tr htr
  have := (inside_iff L tr).mp (List.mem_filter.mp htr).2
  exact ⟨this.1, this.2.1⟩

theorem proper_filter {trs : List Triple} (hp : Proper trs) (q : Triple → Bool) :
    Proper (trs.filter q) := fun tr htr => hp tr (List.mem_filter.mp htr).1

theorem good_of_filter {trs : List Triple} {L : List Nat} {t : LTree}
    (h : Good (trs.filter (inside L)) L t) : Good trs L t :=
  ⟨h.nodup, h.mem, fun tr htr hin => h.disp tr (List.mem_filter.mpr ⟨htr, hin⟩) hin⟩

theorem build_good : ∀ (fuel : Nat) (l : List Nat) (trs : List Triple) (t : LTree),
    l.Nodup → Known l trs → Proper trs → build fuel l trs = some t → Good trs l t := by
  intro fuel
  induction fuel with
  | zero => intro l trs t _ _ _ h; simp [build] at h
  | succ fuel ih =>
    intro l trs t hl hk hp h
    match l, hl, hk, h with
    | [], _, _, h => simp [build] at h
    | [a], _, _, h =>
      simp only [build, Option.some.injEq] at h
      subst h; exact good_leaf hp a
    | [a, b], hl, _, h =>
      simp only [build, Option.some.injEq] at h
      subst h
      exact good_cherry hp (by simpa using hl)
    | a :: b :: c :: rest, hl, hk, h =>
      simp only [build] at h
      generalize hl' : a :: b :: c :: rest = l at *
      by_cases hg : (partitionOf l trs).groups ≤ 1
      · simp [hg] at h
      · simp only [hg, if_false, Option.map_eq_some_iff] at h
        obtain ⟨cs, hcs, rfl⟩ := h
        have hI := partitionOf_inv hk
        have hC := toList_isClassList hI.wf
        obtain ⟨q1, q2, q3, q4⟩ := classList_names hl hI.size hC
        apply node_good q1 q2
        · intro tr htr hin
          obtain ⟨ha, hb, _⟩ := (inside_iff l tr).mp hin
          exact q3 _ _ ha hb (partitionOf_same hk htr)
        · apply All2.map_left
          refine (all2_of_mapM hcs).imp_mem ?_
          intro g hgm c hc
          exact good_of_filter (ih _ _ c (q4 g hgm) (known_filter _ _) (proper_filter hp _) hc)

theorem treeFromTriples_good {l : List Nat} {trs : List Triple} {t : LTree}
    (hl : l.Nodup) (hk : Known l trs) (hp : Proper trs) (h : treeFromTriples l trs = some t) :
    Good trs l t := build_good _ l trs t hl hk hp h

/-! ### AllTrees is sound -/

theorem nroots_two {b : DS} {n : Nat} (hW : WF b) (hs : b.size = n)
    (h : ∃ u v, u < n ∧ v < n ∧ ¬ Same b u v ∧ ∀ x, x < n → Same b x u ∨ Same b x v) :
    b.nroots = 2 := by
  obtain ⟨u, v, hu, hv, huv, hall⟩ := h
  have hne : rep b u ≠ rep b v := fun h => huv ((same_iff_rep hW u v).mpr h)
  have hmem : ∀ r, r ∈ roots b ↔ r ∈ [rep b u, rep b v] := by
    intro r
    simp only [List.mem_cons, List.not_mem_nil, or_false]
    constructor
    · intro hr
      have hrn : r < n := hs ▸ (mem_roots.mp hr).1
      have hrr := rep_of_mem_roots hW hr
      rcases hall r hrn with h | h
      · left; rw [← hrr]; exact (same_iff_rep hW r u).mp h
      · right; rw [← hrr]; exact (same_iff_rep hW r v).mp h
    · rintro (rfl | rfl)
      · exact rep_mem_roots hW (hs ▸ hu)
      · exact rep_mem_roots hW (hs ▸ hv)
  have hperm : (roots b).Perm [rep b u, rep b v] :=
    (List.perm_ext_iff_of_nodup (roots_nodup b) (by simp [hne])).mpr hmem
  rw [← roots_length, hperm.length_eq]
  rfl

theorem mem_joinAll {ls rs : List LTree} {t : LTree} :
    t ∈ joinAll ls rs ↔ ∃ a, a ∈ ls ∧ ∃ b, b ∈ rs ∧ t = .node [a, b] := by
  simp only [joinAll, List.mem_flatMap, List.mem_map]
  constructor
  · rintro ⟨a, ha, b, hb, rfl⟩; exact ⟨a, ha, b, hb, rfl⟩
  · rintro ⟨a, ha, b, hb, rfl⟩; exact ⟨a, ha, b, hb, rfl⟩

/-- What is known about a member `bp` of `binary()` at one level of AllTrees. -/
theorem level_binary {l : List Nat} {trs : List Triple} (hl : l.Nodup) (hk : Known l trs)
    {bp : DS} (hbp : bp ∈ (partitionOf l trs).binary) :
    ∃ g0 g1, bp.toList.2 = [g0, g1] ∧
      (∀ x, x ∈ groupLeaves l g0 → x ∉ groupLeaves l g1) ∧
      (∀ x, x ∈ l ↔ x ∈ groupLeaves l g0 ∨ x ∈ groupLeaves l g1) ∧
      (∀ tr, tr ∈ trs → inside l tr = true →
        (tr.1 ∈ groupLeaves l g0 ∧ tr.2.1 ∈ groupLeaves l g0) ∨
        (tr.1 ∈ groupLeaves l g1 ∧ tr.2.1 ∈ groupLeaves l g1)) ∧
      (groupLeaves l g0).Nodup ∧ (groupLeaves l g1).Nodup := by
  have hI := partitionOf_inv hk
  obtain ⟨hW, hs, hco, htwo⟩ := (binary_main hI).1 bp hbp
  have hC := toList_isClassList hW
  have hlen : bp.toList.2.length = 2 := by rw [hC.length]; exact nroots_two hW hs htwo
  match hgs : bp.toList.2, hlen with
  | [g0, g1], _ =>
    rw [hgs] at hC
    obtain ⟨q1, q2, q3, q4⟩ := classList_names hl hs hC
    refine ⟨g0, g1, rfl, ?_, ?_, ?_, q4 g0 (by simp), q4 g1 (by simp)⟩
    · simp only [List.map_cons, List.map_nil, List.pairwise_cons, List.mem_singleton,
        forall_eq] at q1
      exact q1.1
    · intro x; rw [q2]; simp
    · intro tr htr hin
      obtain ⟨ha, hb, _⟩ := (inside_iff l tr).mp hin
      obtain ⟨L, hL, h1, h2⟩ := q3 _ _ ha hb (hco _ _ (partitionOf_same hk htr))
      simp only [List.map_cons, List.map_nil, List.mem_cons, List.not_mem_nil, or_false] at hL
      rcases hL with rfl | rfl
      · exact Or.inl ⟨h1, h2⟩
      · exact Or.inr ⟨h1, h2⟩

theorem allTrees_good : ∀ (fuel : Nat) (l : List Nat) (trs : List Triple) (t : LTree),
    l.Nodup → Known l trs → Proper trs → t ∈ allTrees fuel l trs →
    Good trs l t ∧ t.isBinary = true := by
  intro fuel
  induction fuel with
  | zero => intro l trs t _ _ _ h; simp [allTrees] at h
  | succ fuel ih =>
    intro l trs t hl hk hp h
    match l, hl, hk, h with
    | [], _, _, h => simp [allTrees] at h
    | [a], _, _, h =>
      simp only [allTrees, List.mem_singleton] at h
      subst h; exact ⟨good_leaf hp a, rfl⟩
    | [a, b], hl, _, h =>
      simp only [allTrees, List.mem_singleton] at h
      subst h
      exact ⟨good_cherry hp (by simpa using hl), rfl⟩
    | a :: b :: c :: rest, hl, hk, h =>
      simp only [allTrees] at h
      generalize hl' : a :: b :: c :: rest = l at *
      obtain ⟨bp, hbp, ht⟩ := List.mem_flatMap.mp h
      obtain ⟨g0, g1, hgs, hdis, hcov, hpair, hn0, hn1⟩ := level_binary hl hk hbp
      simp only [hgs, List.getD_cons_zero, List.getD_cons_succ] at ht
      obtain ⟨t0, ht0, t1, ht1, rfl⟩ := mem_joinAll.mp ht
      obtain ⟨hG0, hB0⟩ := ih _ _ t0 hn0 (known_filter _ _) (proper_filter hp _) ht0
      obtain ⟨hG1, hB1⟩ := ih _ _ t1 hn1 (known_filter _ _) (proper_filter hp _) ht1
      refine ⟨?_, by simp [isBinary, hB0, hB1]⟩
      apply node_good (Ls := [groupLeaves l g0, groupLeaves l g1])
      · simp only [List.pairwise_cons, List.mem_singleton, forall_eq, List.not_mem_nil,
          false_imp_iff, implies_true, List.Pairwise.nil, and_true]
        exact hdis
      · intro x; rw [hcov]; simp
      · intro tr htr hin
        rcases hpair tr htr hin with h | h
        · exact ⟨_, by simp, h⟩
        · exact ⟨_, by simp, h⟩
      · exact All2.cons (good_of_filter hG0) (All2.cons (good_of_filter hG1) All2.nil)

theorem allTreesFromTriples_good {l : List Nat} {trs : List Triple} {t : LTree}
    (hl : l.Nodup) (hk : Known l trs) (hp : Proper trs) (h : t ∈ allTreesFromTriples l trs) :
    Good trs l t ∧ t.isBinary = true := by
  unfold allTreesFromTriples at h
  split at h
  · cases h
  · exact allTrees_good _ l trs t hl hk hp h

end SR.Tri
