/-
  The enumerator `generateAll` (`generate_all` of `compute/exhaustive.py`):
  the placements it tries for a parent over children placed at `a`, `b`
  (ancestors of the LCA; the two upward walks that stop before the LCA) are
  exactly the species whose event is not INVALID, each once; hence
  `generateAll` lists exactly the valid plain reconciliations, each once.
-/
import SRVerif.Model.Solvers
import SRVerif.Spec.Opt
import SRVerif.Proofs.Paths
import SRVerif.Proofs.RTree
import Mathlib.Data.List.Induction
import Mathlib.Data.List.Nodup

namespace SR

open Path

/-! ### The chain of ancestors and the upward walk -/

theorem ancestorsInclusive_nil : ancestorsInclusive [] = [[]] := by decide

theorem ancestorsInclusive_concat (p : Path) (x : Nat) :
    ancestorsInclusive (p ++ [x]) = (p ++ [x]) :: ancestorsInclusive p := by
  simp only [ancestorsInclusive, List.length_append, List.length_singleton]
  rw [List.range_succ, List.reverse_append, List.reverse_singleton, List.singleton_append,
    List.map_cons]
  congr 1
  · apply List.take_of_length_le; simp
  · apply List.map_congr_left
    intro k hk
    have hk' : k ≤ p.length := by
      simp only [List.mem_reverse, List.mem_range] at hk; omega
    exact List.take_append_of_le_length hk'

/-- `s, s.up, …, root` are exactly the ancestors-or-self of `s`. -/
theorem mem_ancestorsInclusive (s p : Path) : s ∈ ancestorsInclusive p ↔ isAnc s p = true := by
  rw [isAnc_iff_prefix]
  simp only [ancestorsInclusive, List.mem_map, List.mem_reverse, List.mem_range]
  constructor
  · rintro ⟨k, _, rfl⟩; exact List.take_prefix _ _
  · intro h
    exact ⟨s.length, by have := h.length_le; omega, (List.prefix_iff_eq_take.mp h).symm⟩

theorem nodup_ancestorsInclusive (p : Path) : (ancestorsInclusive p).Nodup := by
  induction p using List.reverseRecOn with
  | nil => simp [ancestorsInclusive_nil]
  | append_singleton p x ih =>
    rw [ancestorsInclusive_concat, List.nodup_cons]
    refine ⟨?_, ih⟩
    intro h
    have := length_le_of_isAnc ((mem_ancestorsInclusive _ _).mp h)
    simp only [List.length_append, List.length_singleton] at this
    omega

theorem walkUpTo_concat (stop p : Path) (x : Nat) :
    walkUpTo stop (p ++ [x]) = if p ++ [x] = stop then [] else (p ++ [x]) :: walkUpTo stop p := by
  simp only [walkUpTo, ancestorsInclusive_concat, List.takeWhile_cons]
  by_cases h : p ++ [x] = stop <;> simp [h]

/-- The walk `t, t.up, …` that stops before the ancestor `stop` of `t` visits
    exactly the nodes of the path from `t` up to `stop`, `stop` excluded. -/
theorem mem_walkUpTo_prefix (stop : Path) : ∀ (t : Path), stop <+: t → ∀ s : Path,
    (s ∈ walkUpTo stop t ↔ s <+: t ∧ stop <+: s ∧ s ≠ stop) := by
  intro t
  induction t using List.reverseRecOn with
  | nil =>
    intro h s
    have hstop : stop = [] := List.prefix_nil.mp h
    subst hstop
    have : walkUpTo [] [] = [] := by decide
    rw [this]
    constructor
    · intro h; cases h
    · rintro ⟨h1, _, h3⟩; exact absurd (List.prefix_nil.mp h1) h3
  | append_singleton t x ih =>
    intro h s
    rw [walkUpTo_concat]
    by_cases hst : t ++ [x] = stop
    · rw [if_pos hst]
      constructor
      · intro h; cases h
      · rintro ⟨h1, h2, h3⟩
        rw [hst] at h1
        exact absurd (List.IsPrefix.eq_of_length_le h1 h2.length_le) h3
    · rw [if_neg hst]
      have hpre : stop <+: t := by
        rcases List.prefix_concat_iff.mp h with h' | h'
        · exact absurd h'.symm hst
        · exact h'
      rw [List.mem_cons, ih hpre s, List.prefix_concat_iff]
      constructor
      · rintro (rfl | ⟨h1, h2, h3⟩)
        · exact ⟨Or.inl rfl, h, hst⟩
        · exact ⟨Or.inr h1, h2, h3⟩
      · rintro ⟨h1 | h1, h2, h3⟩
        · exact Or.inl h1
        · exact Or.inr ⟨h1, h2, h3⟩

theorem mem_walkUpTo {stop t : Path} (h : isAnc stop t = true) (s : Path) :
    s ∈ walkUpTo stop t ↔ isAnc s t = true ∧ isAnc stop s = true ∧ s ≠ stop := by
  simp only [isAnc_iff_prefix] at *
  exact mem_walkUpTo_prefix stop t h s

theorem nodup_walkUpTo (stop t : Path) : (walkUpTo stop t).Nodup :=
  (List.takeWhile_sublist _).nodup (nodup_ancestorsInclusive t)

/-- Two ancestors of the same node are comparable. -/
theorem isAnc_total_of_isAnc {p q r : Path} (hp : isAnc p r = true) (hq : isAnc q r = true) :
    isAnc p q = true ∨ isAnc q p = true := by
  simp only [isAnc_iff_prefix] at *
  exact List.prefix_or_prefix_of_prefix hp hq

theorem isStrictAnc_false_of_isAnc {s a : Path} (h : isAnc s a = true) :
    isStrictAnc a s = false := by
  cases hs : isStrictAnc a s
  · rfl
  · rw [isStrictAnc_iff] at hs
    exact absurd (isAnc_antisymm hs.1 h) hs.2

/-! ### The placements tried for one internal node -/

/-- The species `generate_all` tries for a node whose children sit at `a`, `b`. -/
def placements (a b : Path) : List Path :=
  ancestorsInclusive (lcp a b) ++ (if isAnc b a then [] else walkUpTo (lcp a b) a) ++
    (if isAnc a b then [] else walkUpTo (lcp a b) b)

theorem generateAll_node (l r : OTree) :
    generateAll (.node l r) =
      (generateAll l).flatMap fun ml => (generateAll r).flatMap fun mr =>
        (placements ml.sp mr.sp).map fun s => Sol.node s [] ml mr := rfl

/-- When the event of a node is not INVALID, by the ancestry relations only:
    neither child sits strictly above the node, and the node is an
    ancestor-or-self of at least one child. -/
theorem internalEvent_ne_invalid_iff (s a b : Path) :
    internalEvent s a b ≠ .invalid ↔
      isStrictAnc a s = false ∧ isStrictAnc b s = false ∧
        (isAnc s a = true ∨ isAnc s b = true) := by
  unfold internalEvent
  by_cases hc : (s == lcp a b && !comparable a b) = true <;>
    cases h1 : isStrictAnc a s <;> cases h2 : isStrictAnc b s <;> cases h3 : isAnc s a <;>
    cases h4 : isAnc s b <;> simp [hc]

/-- The transfer walk from `a` (skipped when `b` is an ancestor-or-self of `a`):
    the nodes above-or-equal `a` that are not above-or-equal `b` and not
    strictly below `b`. -/
theorem mem_transferWalk (s a b : Path) :
    s ∈ (if isAnc b a then [] else walkUpTo (lcp a b) a) ↔
      isAnc s a = true ∧ isAnc s b = false ∧ isStrictAnc b s = false := by
  have hla := lcp_isAnc_left a b
  have hlb := lcp_isAnc_right a b
  constructor
  · intro h
    split at h
    · cases h
    · rename_i hba
      obtain ⟨sa, ls, hne⟩ := (mem_walkUpTo hla s).mp h
      refine ⟨sa, ?_, ?_⟩
      · cases sb : isAnc s b
        · rfl
        · exact absurd (isAnc_antisymm (isAnc_lcp sa sb) ls) hne
      · cases hbs : isStrictAnc b s
        · rfl
        · rw [isStrictAnc_iff] at hbs
          exact absurd (isAnc_trans hbs.1 sa) hba
  · rintro ⟨sa, sb, hbs⟩
    have hba : ¬ isAnc b a = true := by
      intro hba
      rcases isAnc_total_of_isAnc hba sa with h | h
      · by_cases heq : b = s
        · subst heq; rw [isAnc_refl] at sb; cases sb
        · have : isStrictAnc b s = true := (isStrictAnc_iff b s).mpr ⟨h, heq⟩
          rw [this] at hbs; cases hbs
      · rw [h] at sb; cases sb
    rw [if_neg hba, mem_walkUpTo hla]
    refine ⟨sa, ?_, ?_⟩
    · rcases isAnc_total_of_isAnc hla sa with h | h
      · exact h
      · rw [isAnc_trans h hlb] at sb; cases sb
    · rintro rfl
      rw [hlb] at sb; cases sb

/-- **The placements are exactly the valid ones**: a species `s` is tried for
    a node over children at `a`, `b` iff the event of the node is not INVALID. -/
theorem mem_placements (s a b : Path) : s ∈ placements a b ↔ internalEvent s a b ≠ .invalid := by
  rw [internalEvent_ne_invalid_iff]
  have h2 := mem_transferWalk s b a
  rw [lcp_comm b a] at h2
  simp only [placements, List.mem_append, mem_ancestorsInclusive, mem_transferWalk s a b, h2]
  have hl : isAnc s (lcp a b) = true ↔ isAnc s a = true ∧ isAnc s b = true :=
    ⟨fun h => ⟨isAnc_trans h (lcp_isAnc_left a b), isAnc_trans h (lcp_isAnc_right a b)⟩,
     fun h => isAnc_lcp h.1 h.2⟩
  rw [hl]
  have ha : isAnc s a = true → isStrictAnc a s = false := isStrictAnc_false_of_isAnc
  have hb : isAnc s b = true → isStrictAnc b s = false := isStrictAnc_false_of_isAnc
  revert ha hb
  cases isAnc s a <;> cases isAnc s b <;> cases isStrictAnc a s <;> cases isStrictAnc b s <;> simp

/-- The placements, as the code generates them: the ancestors-or-self of the
    LCA of the children; and, from each child that the other child is not an
    ancestor-or-self of, the nodes from that child upwards strictly below the LCA. -/
theorem mem_placements_explicit (s a b : Path) :
    s ∈ placements a b ↔
      isAnc s (lcp a b) = true ∨
      (isAnc b a = false ∧ isAnc s a = true ∧ isStrictAnc (lcp a b) s = true) ∨
      (isAnc a b = false ∧ isAnc s b = true ∧ isStrictAnc (lcp a b) s = true) := by
  have hla := lcp_isAnc_left a b
  have hlb := lcp_isAnc_right a b
  have hne : s ≠ lcp a b ↔ lcp a b ≠ s := ⟨Ne.symm, Ne.symm⟩
  simp only [placements, List.mem_append, mem_ancestorsInclusive, isStrictAnc_iff, or_assoc]
  cases hba : isAnc b a <;> cases hab : isAnc a b <;>
    simp [mem_walkUpTo hla, mem_walkUpTo hlb, hne]

/-- No species is tried twice for the same pair of children placements. -/
theorem nodup_placements (a b : Path) : (placements a b).Nodup := by
  have h2 : ∀ s, s ∈ (if isAnc a b then [] else walkUpTo (lcp a b) b) ↔
      isAnc s b = true ∧ isAnc s a = false ∧ isStrictAnc a s = false := by
    intro s
    have := mem_transferWalk s b a
    rw [lcp_comm b a] at this
    exact this
  have hl : ∀ s, isAnc s (lcp a b) = true → isAnc s a = true ∧ isAnc s b = true :=
    fun s h => ⟨isAnc_trans h (lcp_isAnc_left a b), isAnc_trans h (lcp_isAnc_right a b)⟩
  unfold placements
  rw [List.nodup_append, List.nodup_append]
  refine ⟨⟨nodup_ancestorsInclusive _, ?_, ?_⟩, ?_, ?_⟩
  · split
    · simp
    · exact nodup_walkUpTo _ _
  · intro x hx y hy hxy
    subst hxy
    have h1 := hl x ((mem_ancestorsInclusive _ _).mp hx)
    have h3 := (mem_transferWalk x a b).mp hy
    rw [h1.2] at h3; cases h3.2.1
  · split
    · simp
    · exact nodup_walkUpTo _ _
  · intro x hx y hy hxy
    subst hxy
    have h3 := (h2 x).mp hy
    rcases List.mem_append.mp hx with hx | hx
    · have h1 := hl x ((mem_ancestorsInclusive _ _).mp hx)
      rw [h1.1] at h3; cases h3.2.1
    · have h1 := (mem_transferWalk x a b).mp hx
      rw [h1.1] at h3; cases h3.2.1

/-! ### `generateAll` = the valid plain reconciliations, each once -/

/-- The annotations of a plain reconciliation of `o`: same shape as `o`, leaf
    data as given, no synteny at internal nodes. -/
def plainLabels : OTree → Sol → Bool
  | .leaf _ f, .leaf _ g => g == f
  | .node ol or, .node _ g l r => g == [] && plainLabels ol l && plainLabels or r
  | _, _ => false

/-- The species of the leaves of an input. -/
def leafSpecies : OTree → List Path
  | .leaf sp _ => [sp]
  | .node l r => leafSpecies l ++ leafSpecies r

theorem mem_generateAll (o : OTree) : ∀ sol : Sol,
    sol ∈ generateAll o ↔ Spec.validRec o sol = true ∧ plainLabels o sol = true := by
  induction o with
  | leaf sp f =>
    intro sol
    cases sol with
    | leaf s g => simp [generateAll, Spec.validRec, plainLabels]
    | node s g sl sr => simp [generateAll, Spec.validRec, plainLabels]
  | node l r ihl ihr =>
    intro sol
    rw [generateAll_node]
    simp only [List.mem_flatMap, List.mem_map]
    cases sol with
    | leaf s g => simp [Spec.validRec, plainLabels]
    | node s g sl sr =>
      simp only [Spec.validRec, plainLabels, Bool.and_eq_true, bne_iff_ne, beq_iff_eq,
        Sol.node.injEq]
      constructor
      · rintro ⟨ml, hml, mr, hmr, s', hs', rfl, rfl, rfl, rfl⟩
        have h1 := (ihl ml).mp hml
        have h2 := (ihr mr).mp hmr
        exact ⟨⟨⟨(mem_placements _ _ _).mp hs', h1.1⟩, h2.1⟩, ⟨rfl, h1.2⟩, h2.2⟩
      · rintro ⟨⟨⟨hev, hvl⟩, hvr⟩, ⟨hg, hpl⟩, hpr⟩
        exact ⟨sl, (ihl sl).mpr ⟨hvl, hpl⟩, sr, (ihr sr).mpr ⟨hvr, hpr⟩, s,
          (mem_placements _ _ _).mpr hev, rfl, hg.symm, rfl, rfl⟩

theorem nodup_generateAll (o : OTree) : (generateAll o).Nodup := by
  induction o with
  | leaf sp f => simp [generateAll]
  | node l r ihl ihr =>
    rw [generateAll_node, List.nodup_flatMap]
    refine ⟨fun ml _ => ?_, ?_⟩
    · rw [List.nodup_flatMap]
      refine ⟨fun mr _ => ?_, ?_⟩
      · rw [List.Nodup, List.pairwise_map]
        exact (nodup_placements _ _).imp (fun hne heq => hne (by injection heq))
      · refine List.Pairwise.imp ?_ ihr
        intro mr mr' hne x hx hx'
        simp only [List.mem_map] at hx hx'
        obtain ⟨s, _, rfl⟩ := hx
        obtain ⟨s', _, heq⟩ := hx'
        injection heq with _ _ _ h
        exact hne h.symm
    · refine List.Pairwise.imp ?_ ihl
      intro ml ml' hne x hx hx'
      simp only [List.mem_flatMap, List.mem_map] at hx hx'
      obtain ⟨mr, _, s, _, rfl⟩ := hx
      obtain ⟨mr', _, s', _, heq⟩ := hx'
      injection heq with _ _ h _
      exact hne h.symm

/-! ### Relation with the species tree: `Spec.allValid` -/

/-- In a valid reconciliation every node sits at an ancestor-or-self of the
    species of some leaf below it. -/
theorem validRec_sp_anc_leaf (o : OTree) : ∀ sol : Sol, Spec.validRec o sol = true →
    ∃ p ∈ leafSpecies o, isAnc sol.sp p = true := by
  induction o with
  | leaf sp f =>
    intro sol h
    cases sol with
    | leaf s g =>
      simp only [Spec.validRec, beq_iff_eq] at h
      subst h
      exact ⟨s, by simp [leafSpecies], isAnc_refl _⟩
    | node s g sl sr => simp [Spec.validRec] at h
  | node l r ihl ihr =>
    intro sol h
    cases sol with
    | leaf s g => simp [Spec.validRec] at h
    | node s g sl sr =>
      simp only [Spec.validRec, Bool.and_eq_true, bne_iff_ne] at h
      obtain ⟨⟨hev, hvl⟩, hvr⟩ := h
      obtain ⟨_, _, hanc⟩ := (internalEvent_ne_invalid_iff _ _ _).mp hev
      rcases hanc with hanc | hanc
      · obtain ⟨p, hp, hpa⟩ := ihl sl hvl
        exact ⟨p, by simp [leafSpecies, hp], isAnc_trans hanc hpa⟩
      · obtain ⟨p, hp, hpa⟩ := ihr sr hvr
        exact ⟨p, by simp [leafSpecies, hp], isAnc_trans hanc hpa⟩

theorem plainLabels_of_mem_allMappings (S : RTree) (o : OTree) : ∀ sol : Sol,
    sol ∈ Spec.allMappings S o → plainLabels o sol = true := by
  induction o with
  | leaf sp f =>
    intro sol h
    simp only [Spec.allMappings, List.mem_singleton] at h
    subst h
    simp [plainLabels]
  | node l r ihl ihr =>
    intro sol h
    simp only [Spec.allMappings, List.mem_flatMap, List.mem_map] at h
    obtain ⟨ml, hml, mr, hmr, s, _, rfl⟩ := h
    simp [plainLabels, ihl ml hml, ihr mr hmr]

theorem mem_allMappings_of_valid (S : RTree) (o : OTree) : ∀ sol : Sol,
    (∀ p ∈ leafSpecies o, S.isNode p = true) →
    Spec.validRec o sol = true → plainLabels o sol = true → sol ∈ Spec.allMappings S o := by
  induction o with
  | leaf sp f =>
    intro sol _ hv hp
    cases sol with
    | leaf s g =>
      simp only [Spec.validRec, plainLabels, beq_iff_eq] at hv hp
      subst hv hp
      simp [Spec.allMappings]
    | node s g sl sr => simp [Spec.validRec] at hv
  | node l r ihl ihr =>
    intro sol hS hv hp
    obtain ⟨p, hpl, hpa⟩ := validRec_sp_anc_leaf _ sol hv
    cases sol with
    | leaf s g => simp [Spec.validRec] at hv
    | node s g sl sr =>
      simp only [Spec.validRec, plainLabels, Bool.and_eq_true, beq_iff_eq] at hv hp
      obtain ⟨⟨_, hvl⟩, hvr⟩ := hv
      obtain ⟨⟨hg, hpll⟩, hplr⟩ := hp
      subst hg
      simp only [Spec.allMappings, List.mem_flatMap, List.mem_map]
      refine ⟨sl, ihl sl (fun q hq => hS q (by simp [leafSpecies, hq])) hvl hpll,
        sr, ihr sr (fun q hq => hS q (by simp [leafSpecies, hq])) hvr hplr, s, ?_, rfl⟩
      exact (RTree.mem_preorder_iff s S).mpr (RTree.isNode_of_isAnc hpa (hS p hpl))

/-- Over a species tree containing the leaf species, the enumerator lists
    exactly the specification's "filter of all mappings". -/
theorem mem_generateAll_iff_allValid (S : RTree) (o : OTree)
    (hS : ∀ p ∈ leafSpecies o, S.isNode p = true) (sol : Sol) :
    sol ∈ generateAll o ↔ sol ∈ Spec.allValid S o := by
  rw [mem_generateAll, Spec.allValid, List.mem_filter]
  constructor
  · rintro ⟨hv, hp⟩; exact ⟨mem_allMappings_of_valid S o sol hS hv hp, hv⟩
  · rintro ⟨hm, hv⟩; exact ⟨hv, plainLabels_of_mem_allMappings S o sol hm⟩

theorem nodup_allMappings (S : RTree) (o : OTree) : (Spec.allMappings S o).Nodup := by
  induction o with
  | leaf sp f => simp [Spec.allMappings]
  | node l r ihl ihr =>
    simp only [Spec.allMappings]
    rw [List.nodup_flatMap]
    refine ⟨fun ml _ => ?_, ?_⟩
    · rw [List.nodup_flatMap]
      refine ⟨fun mr _ => ?_, ?_⟩
      · rw [List.Nodup, List.pairwise_map]
        exact (RTree.nodup_preorder S).imp (fun hne heq => hne (by injection heq))
      · refine List.Pairwise.imp ?_ ihr
        intro mr mr' hne x hx hx'
        simp only [List.mem_map] at hx hx'
        obtain ⟨s, _, rfl⟩ := hx
        obtain ⟨s', _, heq⟩ := hx'
        injection heq with _ _ _ h
        exact hne h.symm
    · refine List.Pairwise.imp ?_ ihl
      intro ml ml' hne x hx hx'
      simp only [List.mem_flatMap, List.mem_map] at hx hx'
      obtain ⟨mr, _, s, _, rfl⟩ := hx
      obtain ⟨mr', _, s', _, heq⟩ := hx'
      injection heq with _ _ h _
      exact hne h.symm

theorem nodup_allValid (S : RTree) (o : OTree) : (Spec.allValid S o).Nodup :=
  (List.filter_sublist).nodup (nodup_allMappings S o)

/-! ### The LCA reconciliation is enumerated -/

theorem lcaSol_mem_generateAll (o : OTree) : lcaSol o ∈ generateAll o := by
  induction o with
  | leaf sp f => simp [lcaSol, generateAll]
  | node l r ihl ihr =>
    rw [generateAll_node]
    simp only [List.mem_flatMap, List.mem_map]
    refine ⟨lcaSol l, ihl, lcaSol r, ihr, lcp (lcaSol l).sp (lcaSol r).sp, ?_, rfl⟩
    simp only [placements, List.mem_append, mem_ancestorsInclusive, isAnc_refl, true_or]

/-- At the LCA of its children a node is a speciation or a duplication. -/
theorem internalEvent_lcp (a b : Path) :
    internalEvent (lcp a b) a b = .spec ∨ internalEvent (lcp a b) a b = .dup := by
  have ha := lcp_isAnc_left a b
  have hb := lcp_isAnc_right a b
  simp only [internalEvent, isStrictAnc_false_of_isAnc ha, isStrictAnc_false_of_isAnc hb, ha, hb,
    Bool.or_self, Bool.false_eq_true, if_false, Bool.and_self, if_true]
  split <;> simp

theorem Cost.fin_add_fin (x y : Nat) : (Cost.fin x + Cost.fin y) = Cost.fin (x + y) := rfl

/-- The LCA reconciliation has a finite cost whatever the unit costs (it uses
    no transfer). -/
theorem totalCost_lcaSol_fin (c : Costs) (o : OTree) :
    ∃ n, totalCost c .plain o (lcaSol o) = .fin n := by
  have h : ∃ n, recCost c o (lcaSol o) = .fin n := by
    induction o with
    | leaf sp f => exact ⟨0, by simp [recCost, lcaSol]⟩
    | node l r ihl ihr =>
      obtain ⟨x, hx⟩ := ihl
      obtain ⟨y, hy⟩ := ihr
      rcases internalEvent_lcp (lcaSol l).sp (lcaSol r).sp with h | h
      · simp only [recCost, lcaSol, localRecCost, h, hx, hy, Cost.fin_add_fin]
        exact ⟨_, rfl⟩
      · simp only [recCost, lcaSol, localRecCost, h, hx, hy, Cost.fin_add_fin]
        exact ⟨_, rfl⟩
  obtain ⟨n, hn⟩ := h
  exact ⟨n + 0, by simp only [totalCost, labelingCost, hn, Cost.fin_add_fin]⟩

end SR
