/-
  C11 (Newick codec) — `Tree(tree.write(format=8, format_root_node=True, features=["color"]), format=1)`
  on the model: the preliminary tests of `read_newick` pass on a written text, and
  the result is the tree (`read_write`).  Also: the predicate of `Properties/C11.lean`
  (`NT.SafeNames`, words over letters, digits, underscore) implies `safeTree`, and on such
  trees the writer is the one the driver of C11 already compares with `to_dict()`.
-/
import SRVerif.Proofs.NewickRoundtrip

namespace SR.Newick

open SR.Ser (NT Err)

/-! ### Parentheses match, nothing is deleted -/

def Bal (s : Chars) : Prop :=
  (∀ ch ∈ s, ch ≠ '\n' ∧ ch ≠ '\r' ∧ ch ≠ '\t') ∧ s.count '(' = s.count ')'

theorem bal_plain {s : Chars} (h : Plain s) : Bal s := by
  refine ⟨fun ch hch => (h ch hch).2.2.2, ?_⟩
  have h1 : s.count '(' = 0 := List.count_eq_zero.2 (fun hm => (h _ hm).1 rfl)
  have h2 : s.count ')' = 0 := List.count_eq_zero.2 (fun hm => (h _ hm).2.1 rfl)
  rw [h1, h2]

theorem bal_append {a b : Chars} (ha : Bal a) (hb : Bal b) : Bal (a ++ b) := by
  refine ⟨?_, by rw [List.count_append, List.count_append, ha.2, hb.2]⟩
  intro ch hch
  rcases List.mem_append.1 hch with h | h
  · exact ha.1 ch h
  · exact hb.1 ch h

theorem bal_wrap {a b : Chars} (ha : Bal a) (hb : Bal b) : Bal ('(' :: (a ++ ')' :: b)) := by
  refine ⟨?_, ?_⟩
  · intro ch hch
    simp only [List.mem_cons, List.mem_append] at hch
    rcases hch with rfl | h | rfl | h
    · exact ⟨by decide, by decide, by decide⟩
    · exact ha.1 ch h
    · exact ⟨by decide, by decide, by decide⟩
    · exact hb.1 ch h
  · simp [List.count_cons, List.count_append, ha.2, hb.2]
    omega

theorem bal_comma {a b : Chars} (ha : Bal a) (hb : Bal b) : Bal (a ++ ',' :: b) := by
  refine ⟨?_, ?_⟩
  · intro ch hch
    simp only [List.mem_cons, List.mem_append] at hch
    rcases hch with h | rfl | h
    · exact ha.1 ch h
    · exact ⟨by decide, by decide, by decide⟩
    · exact hb.1 ch h
  · simp [List.count_cons, List.count_append, ha.2, hb.2]

mutual
  theorem bal_writeNode : ∀ (t : NT), safeTree t = true → Bal (writeNode t)
    | .node n c [], ht => by
      simp only [writeNode]
      exact bal_plain (plain_atom (safeTree_node ht).1)
    | .node n c (k :: ks), ht => by
      simp only [writeNode]
      exact bal_wrap (bal_writeKids (k :: ks) (safeTree_node ht).2)
        (bal_plain (plain_atom (safeTree_node ht).1))
  theorem bal_writeKids : ∀ (ks : List NT), safeTrees ks = true → Bal (writeKids ks)
    | [], _ => by simp [writeKids, Bal]
    | [k], h => by
      simp only [safeTrees, Bool.and_eq_true] at h
      simp only [writeKids]
      exact bal_writeNode k h.1
    | k :: k' :: ks, h => by
      simp only [safeTrees, Bool.and_eq_true] at h
      simp only [writeKids]
      exact bal_comma (bal_writeNode k h.1)
        (bal_writeKids (k' :: ks) (by simp [safeTrees, h.2.1, h.2.2]))
end

/-! ### The reader on a written text -/

theorem getLast?_snoc (s : Chars) (z : Char) : (s ++ [z]).getLast? = some z := by simp

theorem readChars_leaf {n : String} {c : Option String} (h : SafeNode n c) :
    readChars (atom n c ++ [';']) = .ok (RT.ofNT (.node n c [])) := by
  obtain ⟨x, m, h1, h2, h3⟩ := atom_start h
  have hstrip : strip (atom n c ++ [';']) = atom n c ++ [';'] :=
    strip_self _ ⟨x, m ++ [';'], by simp [h1], h2⟩ ⟨atom n c, ';', rfl, by decide⟩
  have hhead : (atom n c ++ [';']).head? = some x := by simp [h1]
  have hx : (some x != some '(') = true := by simpa using h3
  unfold readChars
  simp only [hstrip, hhead, getLast?_snoc, hx, beq_self_eq_true, Bool.and_self, if_true]
  unfold readFromString
  simp only [hhead, getLast?_snoc, hx, beq_self_eq_true, Bool.and_self, if_true,
    List.dropLast_concat, readData_atom h, bind, Except.bind, pure, Except.pure, Option.getD_some,
    lab_toRT_leaf]

theorem readChars_inner {n : String} {c : Option String} {k : NT} {ks : List NT}
    (ht : safeTree (.node n c (k :: ks)) = true) :
    readChars (writeNode (.node n c (k :: ks)) ++ [';']) = .ok (RT.ofNT (.node n c (k :: ks))) := by
  obtain ⟨hs, hks⟩ := safeTree_node ht
  have hC : SafeLbls [(n, c)] := by
    intro a ha
    simp only [List.mem_singleton] at ha
    subst ha
    exact hs
  have e : writeNode (.node n c (k :: ks)) ++ [';']
      = '(' :: (writeKids (k :: ks) ++ (render [(n, c)] ++ [';'])) := by
    simp [writeNode, render]
  have hbal : Bal (writeNode (.node n c (k :: ks)) ++ [';']) :=
    bal_append (bal_writeNode _ ht) ⟨by intro ch hch; simp at hch; subst hch; decide, by decide⟩
  have hlast : (writeNode (.node n c (k :: ks)) ++ [';']).getLast? = some ';' := getLast?_snoc _ _
  rw [e] at hbal hlast ⊢
  generalize hY : writeKids (k :: ks) ++ (render [(n, c)] ++ [';']) = Y at hbal hlast
  have hstrip : strip ('(' :: Y) = '(' :: Y := by
    obtain ⟨m, hm⟩ := List.getLast?_eq_some_iff.1 hlast
    exact strip_self _ ⟨'(', Y, rfl, by decide⟩ ⟨m, ';', hm, by decide⟩
  have hfilter : ('(' :: Y).filter (fun c => !(c == '\n' || c == '\r' || c == '\t')) = '(' :: Y := by
    apply List.filter_eq_self.2
    intro ch hch
    have := hbal.1 ch hch
    simp [this.1, this.2.1, this.2.2]
  have hcount : (('(' :: Y).count '(' != ('(' :: Y).count ')') = false := by
    simp [hbal.2]
  have hsplit : splitOn '(' ('(' :: Y) = [] :: splitOn '(' Y := by simp [splitOn, splitAux]
  have hok : chunkOk Y = true := by
    rw [← hY]
    exact chunkOk_kids k ks hks _ [';'] (noOpen_render hC) (Or.inl rfl)
  have hrun : (splitOn '(' Y).foldlM procChunk (St.closed {})
      = .ok (St.closed (lab n c (addKids {} (RT.ofNTs (k :: ks))))) := by
    have := runChunks_eq_scan (St.closed {}) Y
    unfold runChunks at this
    rw [this, hok]
    simp only [if_true, St.openChunk]
    rw [← hY, scan_kids (k :: ks) hks (by simp) {} [] [(n, c)] [';'] hC (Or.inl rfl) (by simp)]
    simp [closeStep, readClosing_atom hs, St.up, contT, bind, Except.bind, pure, Except.pure]
  unfold readChars
  simp only [hstrip, List.head?_cons, hlast, bne_self_eq_false, Bool.false_and, Bool.false_eq_true,
    if_false, Bool.or_self]
  unfold readFromString
  simp only [List.head?_cons, bne_self_eq_false, Bool.false_and, Bool.false_eq_true, if_false,
    hcount, hfilter, hsplit, hrun, bind, Except.bind, pure, Except.pure, St.result, lab_toRT]

theorem readChars_write (t : NT) (ht : safeTree t = true) :
    readChars (writeChars t) = .ok (RT.ofNT t) := by
  unfold writeChars
  match t, ht with
  | .node n c [], ht =>
    simp only [writeNode]
    exact readChars_leaf (safeTree_node ht).1
  | .node n c (k :: ks), ht => exact readChars_inner ht

mutual
  theorem toNT_ofNT : ∀ (t : NT), (RT.ofNT t).toNT = t
    | .node n c ks => by
      cases c <;> simp [RT.ofNT, RT.toNT, toNTs_ofNTs ks, List.lookup]
  theorem toNTs_ofNTs : ∀ (ks : List NT), RT.toNTs (RT.ofNTs ks) = ks
    | [] => rfl
    | k :: ks => by simp [RT.ofNTs, RT.toNTs, toNT_ofNT k, toNTs_ofNTs ks]
end

/-- The round trip of the model codec. -/
theorem read_write (t : NT) (ht : safeTree t = true) : read (write t) = .ok (RT.ofNT t) := by
  unfold read write
  rw [String.toList_ofList]
  exact readChars_write t ht

theorem readNT_write (t : NT) (ht : safeTree t = true) : readNT (write t) = .ok t := by
  unfold readNT
  rw [read_write t ht]
  simp [Except.map, toNT_ofNT]

end SR.Newick
