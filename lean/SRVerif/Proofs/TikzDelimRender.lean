/-
  C15: exactly one `\begin{tikzpicture}` and one `\end{tikzpicture}` in the ASSEMBLED text of
  `render` (not only in the list of blocks it joins), for call sequences whose text fillings are
  safe (`CallSafe`: `noD` of `Proofs/TikzDelim.lean`).
-/
import SRVerif.Proofs.TikzDelim

namespace SR.Tikz

/-- Every text filling of the call is safe: no `n{`, no `d{`, no `{` in front. -/
def CallSafe (c : Call) : Prop := ∀ s, Fill.text s ∈ c.fills → noD s = true

theorem noD_of_alnum {s : Str} (h : s.all isAlnum = true) : noD s = true :=
  noD_of_braceFree (braceFree_of_all _ (by decide) (by decide) s h)

theorem rfills_noD {tbl : List Str} {pre : Str} (hpre : pre.all isAlnum = true) {fs : List Fill}
    {os : List RFill} (h : All₂ (FillRes tbl) fs os) (hs : ∀ s, Fill.text s ∈ fs → noD s = true) :
    ∀ f ∈ os.map (RFill.str pre), noD f = true := by
  induction h with
  | nil => intro f hf; cases hf
  | @cons a b l m hab _ ih =>
    intro f hf
    rcases List.mem_cons.1 hf with rfl | hf
    · cases a with
      | text s =>
        cases b with
        | text s' =>
          simp only [FillRes] at hab
          subst hab
          exact hs s (by simp)
        | color i => simp [FillRes] at hab
      | color hh =>
        cases b with
        | text s' => simp [FillRes] at hab
        | color i =>
          apply noD_of_alnum
          simp only [RFill.str, colorName, List.all_append, Bool.and_eq_true]
          exact ⟨hpre, natStr_alnum i⟩
    · exact ih (fun s hs' => hs s (List.mem_cons_of_mem _ hs')) f hf

/-- The fillings of every resolved call are safe. -/
theorem rcall_noD (calls : List Call) (hs : ∀ c ∈ calls, CallSafe c) :
    ∀ o ∈ (resolveCalls [] calls).2,
      ∀ f ∈ o.fills.map (RFill.str Generated.colorPrefix), noD f = true := by
  have h := (resolveCalls_spec [] calls).2
  generalize (resolveCalls [] calls).1 = tbl at h
  generalize (resolveCalls [] calls).2 = out at h
  intro o ho
  induction h with
  | nil => cases ho
  | @cons c o' _ _ hco _ ih =>
    rcases List.mem_cons.1 ho with e | e
    · subst e
      exact rfills_noD colorPrefix_alnum hco.2.2 (hs c (by simp))
    · exact ih (fun c hc' => hs c (List.mem_cons_of_mem _ hc')) e

/-- Occurrences of a delimiter `pat` in the blocks other than the two delimiter lines. -/
theorem block_free (defs : Str) (calls : List Call) (hd : DefsOK defs)
    (hc : ∀ c ∈ calls, CallOK c) (hs : ∀ c ∈ calls, CallSafe c) :
    let colors := (resolveCalls [] calls).1
    let out := (resolveCalls [] calls).2
    let body := bodyBlocks Generated.layerNames Generated.colorPrefix out
    let head := [defs] ++ (enumFrom 0 colors).map (colorDefLine Generated.colorPrefix)
    ∀ b ∈ head ++ body, countOcc beginPicture b = 0 ∧ countOcc endPicture b = 0 := by
  intro colors out body head b hb
  rcases List.mem_append.1 hb with hb | hb
  · rcases List.mem_append.1 hb with hb | hb
    · -- the definitions
      simp only [List.mem_singleton] at hb
      subst hb
      obtain ⟨t, fills, ht, hf, rfl⟩ := hd
      rcases ht with rfl | rfl
      · refine countOcc_instantiate Generated.defs_delimFree.1 (noD_of_fillsOK ?_ hf)
        intro k hk
        have := List.all_eq_true.1 Generated.defs_no_label.1 k hk
        simpa using this
      · refine countOcc_instantiate Generated.defs_delimFree.2 (noD_of_fillsOK ?_ hf)
        intro k hk
        have := List.all_eq_true.1 Generated.defs_no_label.2 k hk
        simpa using this
    · -- a colour definition line
      obtain ⟨p, hp, rfl⟩ := List.mem_map.1 hb
      have hmem : p.2 ∈ colors := by
        have : ∀ (k : Nat) (l : List Str) (q : Nat × Str), q ∈ enumFrom k l → q.2 ∈ l := by
          intro k l
          induction l generalizing k with
          | nil => intro q hq; cases hq
          | cons x xs ih =>
            intro q hq
            rcases List.mem_cons.1 hq with e' | e'
            · subst e'; simp
            · exact List.mem_cons_of_mem _ (ih _ q e')
        exact this 0 _ p hp
      have hal : p.2.all isAlnum = true := by
        rcases resolveCalls_table_mem [] calls p.2 hmem with h0 | ⟨c, hcm, hx⟩
        · cases h0
        · exact reqsOK_color_alnum _ _ (hc c hcm).2 _ hx
      have e : colorDefLine Generated.colorPrefix p =
          (stdDefinecolor Generated.colorPrefix).instantiate [natStr p.1, p.2] := by
        simp [colorDefLine, stdDefinecolor, Template.instantiate, colorName, List.append_assoc]
      rw [e]
      apply countOcc_instantiate Generated.definecolor_delimFree
      intro f hf
      simp only [List.mem_cons, List.not_mem_nil, or_false] at hf
      rcases hf with rfl | rfl
      · exact noD_of_alnum (natStr_alnum _)
      · exact noD_of_alnum hal
  · rcases mem_bodyBlocks _ _ _ b hb with ⟨name, hn, rfl⟩ | ⟨o, ho, rfl⟩
    · -- a layer comment
      have hbf : braceFree (commentLine name) = true := by
        have := List.all_eq_true.1 layerNames_braceFree name hn
        simpa [commentLine, braceFree, isBrace] using this
      obtain ⟨st', h, _⟩ := drun_of_noD (st := .z) (by decide) (noD_of_braceFree hbf)
      exact countOcc_eq_zero_of_drun h
    · -- a statement
      obtain ⟨hst, _⟩ := rcall_fillsOK calls hc o ho
      have ht := List.all_eq_true.1 Generated.statements_delimFree _ hst
      exact countOcc_instantiate ht (rcall_noD calls hs o ho)

theorem delims_disjoint :
    countOcc beginPicture beginPicture = 1 ∧ countOcc beginPicture endPicture = 0 ∧
    countOcc endPicture beginPicture = 0 ∧ countOcc endPicture endPicture = 1 ∧
    '\n' ∉ beginPicture ∧ '\n' ∉ endPicture ∧ beginPicture ≠ [] ∧ endPicture ≠ [] := by
  decide

/-- **Exactly one occurrence of each delimiter in the assembled text.** -/
theorem render_delims_once (defs : Str) (calls : List Call) (hd : DefsOK defs)
    (hc : ∀ c ∈ calls, CallOK c) (hs : ∀ c ∈ calls, CallSafe c) :
    countOcc beginPicture (render Generated.renderSkeleton Generated.layerNames
      Generated.colorPrefix Generated.joiner defs calls) = 1 ∧
    countOcc endPicture (render Generated.renderSkeleton Generated.layerNames
      Generated.colorPrefix Generated.joiner defs calls) = 1 := by
  obtain ⟨d1, d2, d3, d4, n1, n2, e1, e2⟩ := delims_disjoint
  have hfree := block_free defs calls hd hc hs
  simp only at hfree
  rw [render, Generated.joiner_newline, skeleton_std, renderBlocks_std]
  rw [countOcc_intercalate n1 e1, countOcc_intercalate n2 e2]
  have hb0 : ∀ pat, (∀ b ∈ [defs] ++ (enumFrom 0 (resolveCalls [] calls).1).map
        (colorDefLine Generated.colorPrefix) ++
        bodyBlocks Generated.layerNames Generated.colorPrefix (resolveCalls [] calls).2,
        countOcc pat b = 0) →
      ((([defs] ++ (enumFrom 0 (resolveCalls [] calls).1).map (colorDefLine Generated.colorPrefix)
        ++ [beginPicture] ++ bodyBlocks Generated.layerNames Generated.colorPrefix
          (resolveCalls [] calls).2 ++ [endPicture, []]).map (countOcc pat)).sum
        = countOcc pat beginPicture + countOcc pat endPicture) := by
    intro pat h0
    simp only [List.map_append, List.sum_append, List.map_cons, List.map_nil, List.sum_cons,
      List.sum_nil]
    have z1 : (([defs].map (countOcc pat)).sum = 0) :=
      sum_map_eq_zero _ _ (fun x hx => h0 x (by simp only [List.mem_append]; exact Or.inl (Or.inl hx)))
    have z2 : ((((enumFrom 0 (resolveCalls [] calls).1).map
        (colorDefLine Generated.colorPrefix)).map (countOcc pat)).sum = 0) :=
      sum_map_eq_zero _ _ (fun x hx => h0 x (by simp only [List.mem_append]; exact Or.inl (Or.inr hx)))
    have z3 : (((bodyBlocks Generated.layerNames Generated.colorPrefix
        (resolveCalls [] calls).2).map (countOcc pat)).sum = 0) :=
      sum_map_eq_zero _ _ (fun x hx => h0 x (by simp only [List.mem_append]; exact Or.inr hx))
    simp only [List.map_cons, List.map_nil, List.sum_cons, List.sum_nil] at z1
    rw [z2, z3]
    simp only [countOcc]
    omega
  rw [hb0 beginPicture (fun b hb => (hfree b hb).1), hb0 endPicture (fun b hb => (hfree b hb).2),
    d1, d2, d3, d4]
  exact ⟨rfl, rfl⟩

end SR.Tikz
