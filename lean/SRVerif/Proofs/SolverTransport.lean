/-
  Helpers for transferring the C09 presentation theorems (object-child swap, species-child
  swap, outgroup) to the label solvers `spfs` / `uspfs` through their exactness theorems
  (`C02_ext_exact`, `C02_base_exact`, `C03_ext_exact`, `C03_base_exact`):

  * the LCA mapping commutes with the induced maps (`lcaSol_flip`, `lcaSol_mapSp`) and
    `Spec.sameMapping` is invariant (`sameMapping_flip`, `sameMapping_mapSp`), so the
    "uses the LCA mapping" side condition of the base solvers is transported;
  * a solution with the LCA mapping of an input embedded below a new root is itself an
    embedded solution (`og_unog_of_sameMapping`);
  * `Spec.canonicalUn` (the unordered solvers' label restriction) is invariant under a
    relabelling of the species (`canonicalUn_mapSp`) and under a flip of the object tree
    (`canonicalUn_flip`: required content and gains move with the positions,
    `Path.flipPos`).

  NOTE: this file imports both `Proofs/SwapObj.lean` and (through
  `Proofs/UnContentCanon.lean`) `Proofs/LcaMapOpt.lean`, which both declared
  `SR.isAnc_foldl_lcp` / `SR.isAnc_lcpAll`; the copies of `SwapObj.lean` are renamed
  `isAnc_foldl_lcp'` / `isAnc_lcpAll'`.
-/
import SRVerif.Proofs.SwapObj
import SRVerif.Proofs.Outgroup
import SRVerif.Proofs.OptAdequacyOrd
import SRVerif.Proofs.UnContentCanon

namespace SR

open Path Spec

/-! ### The LCA mapping under the induced maps -/

theorem lcaSol_flip : ∀ (o : OTree) (F : Path → Bool), lcaSol (o.flip F) = (lcaSol o).flip F := by
  intro o
  induction o with
  | leaf sp f => intro F; rfl
  | node l r ihl ihr =>
    intro F
    simp only [OTree.flip]
    cases hF : F []
    · simp only [Bool.false_eq_true, if_false, lcaSol, Sol.flip, hF, ihl, ihr, Sol.flip_sp]
    · simp only [if_true, lcaSol, Sol.flip, hF, ihl, ihr, Sol.flip_sp]
      rw [Path.lcp_comm]

theorem sameMapping_flip : ∀ (a b : Sol) (F : Path → Bool),
    sameMapping (a.flip F) (b.flip F) = sameMapping a b := by
  intro a
  induction a with
  | leaf s g =>
    intro b F
    cases b with
    | leaf s' g' => rfl
    | node s' g' l' r' => simp only [Sol.flip]; split <;> rfl
  | node s g l r ihl ihr =>
    intro b F
    cases b with
    | leaf s' g' => simp only [Sol.flip]; split <;> rfl
    | node s' g' l' r' =>
      simp only [Sol.flip]
      cases F []
      · simp only [Bool.false_eq_true, if_false, sameMapping, ihl, ihr]
      · simp only [if_true, sameMapping, ihl, ihr]
        cases (s == s') <;> cases sameMapping l l' <;> cases sameMapping r r' <;> rfl

theorem lcaSol_mapSp {φ : Path → Path} (h : PathEmb φ) : ∀ o : OTree,
    lcaSol (o.mapSp φ) = (lcaSol o).mapSp φ := by
  intro o
  induction o with
  | leaf sp f => rfl
  | node l r ihl ihr => simp only [OTree.mapSp, lcaSol, Sol.mapSp, ihl, ihr, Sol.mapSp_sp, h.lcp]

theorem sameMapping_mapSp {φ : Path → Path} (h : PathEmb φ) : ∀ a b : Sol,
    sameMapping (a.mapSp φ) (b.mapSp φ) = sameMapping a b := by
  intro a
  induction a with
  | leaf s g => intro b; cases b <;> simp only [Sol.mapSp, sameMapping, h.beq]
  | node s g l r ihl ihr =>
    intro b
    cases b with
    | leaf s' g' => rfl
    | node s' g' l' r' => simp only [Sol.mapSp, sameMapping, h.beq, ihl, ihr]

/-- A solution whose species mapping is that of an embedded solution is embedded. -/
theorem og_unog_of_sameMapping : ∀ a b : Sol, sameMapping a (b.mapSp Path.og) = true →
    (a.mapSp Path.unog).mapSp Path.og = a := by
  intro a
  induction a with
  | leaf s g =>
    intro b h
    cases b with
    | node => simp [Sol.mapSp, sameMapping] at h
    | leaf s' g' =>
      simp only [Sol.mapSp, sameMapping, beq_iff_eq] at h
      subst h
      rfl
  | node s g l r ihl ihr =>
    intro b h
    cases b with
    | leaf => simp [Sol.mapSp, sameMapping] at h
    | node s' g' l' r' =>
      simp only [Sol.mapSp, sameMapping, Bool.and_eq_true, beq_iff_eq] at h
      obtain ⟨⟨rfl, hl⟩, hr⟩ := h
      simp only [Sol.mapSp, ihl l' hl, ihr r' hr]
      rfl

/-! ### Canonical labellings under a relabelling of the species -/

theorem requiredContent_mapSp (φ : Path → Path) (o : OTree) (p : Path) :
    requiredContent (o.mapSp φ) p = requiredContent o p := by
  simp [requiredContent, allowedContent_mapSp, leafPaths_mapSp]

theorem canonicalUn_mapSp (φ : Path → Path) (o : OTree) : ∀ (σ : Sol) (p : Path) (parent : List Nat),
    canonicalUn (o.mapSp φ) p parent (σ.mapSp φ) = canonicalUn o p parent σ := by
  intro σ
  induction σ with
  | leaf s g => intro p parent; rfl
  | node s g l r ihl ihr =>
    intro p parent
    simp only [Sol.mapSp, canonicalUn, requiredContent_mapSp, gainsAt_mapSp, ihl, ihr]

/-! ### Canonical labellings under a flip of the object tree -/

theorem mem_requiredContent_flip (o : OTree) (F : Path → Bool) (p : Path) (x : Nat) :
    x ∈ requiredContent (o.flip F) (Path.flipPos F p) ↔ x ∈ requiredContent o p := by
  simp only [requiredContent, List.mem_filter, mem_allowedContent_flip, List.any_eq_true,
    Bool.and_eq_true, List.contains_iff_mem, Prod.exists, mem_leafPaths_flip]
  constructor
  · rintro ⟨ha, q', fam, ⟨q, hq, rfl⟩, hanc, hx⟩
    rw [(Path.flipPos_emb F).isAnc] at hanc
    exact ⟨ha, q, fam, hq, hanc, hx⟩
  · rintro ⟨ha, q, fam, hq, hanc, hx⟩
    exact ⟨ha, _, fam, ⟨q, hq, rfl⟩, by rw [(Path.flipPos_emb F).isAnc]; exact hanc, hx⟩

theorem sortNat_required_flip (o : OTree) (F : Path → Bool) (p : Path) :
    sortNat (requiredContent (o.flip F) (Path.flipPos F p)) = sortNat (requiredContent o p) :=
  sortNat_congr (nodup_requiredContent _ _) (nodup_requiredContent _ _)
    (mem_requiredContent_flip o F p)

theorem sortNat_inherit_flip (o : OTree) (F : Path → Bool) (p : Path) (parent : List Nat) :
    sortNat (dedup (parent ++ gainsAt (o.flip F) (Path.flipPos F p))) =
      sortNat (dedup (parent ++ gainsAt o p)) :=
  sortNat_congr (nodup_dedup _) (nodup_dedup _) (fun x => by
    simp only [mem_dedup, List.mem_append, mem_gainsAt_flip])

theorem flipPos_isEmpty (F : Path → Bool) (p : Path) : (Path.flipPos F p).isEmpty = p.isEmpty := by
  cases p <;> rfl

/-- **`canonicalUn` is invariant under a flip of the whole input.** -/
theorem canonicalUn_flip (whole : OTree) (G : Path → Bool) : ∀ (σ : Sol) (p : Path) (parent : List Nat),
    canonicalUn (whole.flip G) (Path.flipPos G p) parent (σ.flip (fun q => G (p ++ q))) =
      canonicalUn whole p parent σ := by
  intro σ
  induction σ with
  | leaf s g => intro p parent; rfl
  | node s g l r ihl ihr =>
    intro p parent
    have e0' : ∀ t : Sol, t.flip (fun q => G (p ++ 0 :: q)) = t.flip (fun q => G ((p ++ [0]) ++ q)) :=
      fun t => Sol.flip_congr t _ _ (fun q => by simp)
    have e1' : ∀ t : Sol, t.flip (fun q => G (p ++ 1 :: q)) = t.flip (fun q => G ((p ++ [1]) ++ q)) :=
      fun t => Sol.flip_congr t _ _ (fun q => by simp)
    have il := ihl (p ++ [0]) g
    have ir := ihr (p ++ [1]) g
    rw [Path.flipPos_append] at il ir
    simp only [Sol.flip, List.append_nil, e0', e1']
    cases hG : G p
    · simp only [hG, Bool.false_eq_true, if_false] at il ir ⊢
      simp only [canonicalUn, sortNat_required_flip, sortNat_inherit_flip, flipPos_isEmpty]
      rw [il, ir]
    · simp only [hG, if_true] at il ir ⊢
      have s0 : Path.swapNat 0 1 0 = 1 := rfl
      have s1 : Path.swapNat 0 1 1 = 0 := rfl
      rw [s0] at il
      rw [s1] at ir
      simp only [canonicalUn, sortNat_required_flip, sortNat_inherit_flip, flipPos_isEmpty]
      rw [il, ir]
      cases (g == sortNat (requiredContent whole p) ||
          !p.isEmpty && g == sortNat (dedup (parent ++ gainsAt whole p))) <;>
        cases canonicalUn whole (p ++ [0]) g l <;> cases canonicalUn whole (p ++ [1]) g r <;> rfl

theorem canonicalUn_flip_root (o : OTree) (F : Path → Bool) (σ : Sol) :
    canonicalUn (o.flip F) [] [] (σ.flip F) = canonicalUn o [] [] σ := by
  have := canonicalUn_flip o F σ [] []
  simpa only [List.nil_append, Path.flipPos] using this

end SR
