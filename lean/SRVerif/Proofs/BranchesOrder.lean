/-
  Order of the branches inside one species: whenever `_compute_branches`
  succeeds, the children of every duplication branch and the kept child of
  every transfer branch are keys of EARLIER branches of the same species —
  this is what `_layout_branches` needs to find `layout["branches"][k]["rect"]`.
  Hypothesis-free (read off a successful run: `anchor_nodes.remove(k)` only
  succeeds on keys of branches already present).
-/
import SRVerif.Proofs.BranchesNodup

namespace SR.Layout

open SR

/-- What `_layout_branches` looks up for a branch among the keys `ks` of the
    branches laid out so far. -/
def BNeeds (b : Branch) (ks : List Key) : Prop :=
  match b.kind with
  | .dup => ∃ k1 k2, b.left = some k1 ∧ b.right = some k2 ∧ k1 ∈ ks ∧ k2 ∈ ks
  | .hgt => ∃ k1, b.left = some k1 ∧ k1 ∈ ks
  | _ => True

def Ordered (l : List Branch) : Prop := ∀ pre b post, l = pre ++ b :: post → BNeeds b (keysOf pre)

theorem Ordered.nil : Ordered [] := by
  intro pre b post h
  cases pre <;> cases h

theorem Ordered.snoc {l : List Branch} {b : Branch} (h : Ordered l) (hb : BNeeds b (keysOf l)) :
    Ordered (l ++ [b]) := by
  intro pre x post e
  rcases List.eq_nil_or_concat post with rfl | ⟨post', y, rfl⟩
  · have := List.append_inj' e rfl
    obtain ⟨rfl, hx⟩ := this
    cases hx
    exact hb
  · rw [List.concat_eq_append, ← List.cons_append, ← List.append_assoc] at e
    have := List.append_inj' e rfl
    exact h pre x post' this.1

theorem Ordered.append_loss {l l2 : List Branch} (h : Ordered l) (h2 : ∀ b ∈ l2, b.kind = .loss) :
    Ordered (l ++ l2) := by
  induction l2 generalizing l with
  | nil => simpa using h
  | cons b l2 ih =>
    have : l ++ b :: l2 = (l ++ [b]) ++ l2 := by simp
    rw [this]
    apply ih
    · apply h.snoc
      simp [BNeeds, h2 b (List.mem_cons_self ..)]
    · intro x hx; exact h2 x (List.mem_cons_of_mem _ hx)

/-- anchors are keys of branches -/
def AK (st : LState) : Prop := ∀ t k, k ∈ ancs st t → k ∈ keysOf (brs st t)

def Ord (st : LState) : Prop := ∀ t, Ordered (brs st t)

theorem Did.ak {st st' : LState} {pl : List (Path × Branch)} (d : Did st st' pl) (h : AK st) :
    AK st' := by
  intro t k hk
  rw [d.brs, keysOf_append, List.mem_append]
  rcases d.ancs t k hk with h1 | h1
  · exact Or.inl (h t k h1)
  · exact Or.inr h1

/-! ### Shape of a step's plan -/

/-- The key returned by a chain is its initial key or a pseudo-gene. -/
theorem chainPlan_top (g : Path) (end_ : Option Path) :
    ∀ (rp : List Nat) (prev : Key) (pl : List (Path × Branch)) (k : Key),
      chainPlan g end_ rp prev = some (pl, k) → k = prev ∨ ∃ t, k = .loss g t := by
  intro rp
  induction rp with
  | nil =>
    intro prev pl k h
    simp only [chainPlan] at h
    split at h
    · simp only [Option.some.injEq, Prod.mk.injEq] at h
      exact Or.inl h.2.symm
    · cases h
  | cons i rest ih =>
    intro prev pl k h
    simp only [chainPlan] at h
    by_cases he : some rest.reverse = end_
    · simp only [he, if_true, Option.some.injEq, Prod.mk.injEq] at h
      exact Or.inl h.2.symm
    · simp only [he, if_false] at h
      cases hc : chainPlan g end_ rest (.loss g rest.reverse) with
      | none => simp [hc] at h
      | some x =>
        obtain ⟨l, k'⟩ := x
        simp only [hc, Option.some.injEq, Prod.mk.injEq] at h
        obtain ⟨_, rfl⟩ := h
        rcases ih _ _ _ hc with h1 | ⟨t, h1⟩
        · exact Or.inr ⟨_, h1⟩
        · exact Or.inr ⟨t, h1⟩

theorem chainPlan_top_ne {g : Path} {end_ : Option Path} {rp : List Nat} {j : Nat} {p : Path}
    {pl : List (Path × Branch)} {k : Key}
    (h : chainPlan (p ++ [j]) end_ rp (.gene (p ++ [j])) = some (pl, k)) (_ : g = p ++ [j]) :
    k ≠ .gene p := by
  rcases chainPlan_top _ _ _ _ _ _ h with rfl | ⟨t, rfl⟩
  · intro e
    simp only [Key.gene.injEq] at e
    have := congrArg List.length e
    simp at this
  · simp

/-- The plan of a step: loss branches, then the node's own branch, whose
    consumed keys are what `BNeeds` asks for. -/
structure Shape (s p : Path) (pl : List (Path × Branch)) (cons : List Key) : Prop where
  split : ∃ pl' nb, pl = pl' ++ [(s, nb)] ∧ (∀ e ∈ pl', e.2.kind = .loss) ∧ nb.key = .gene p ∧
    (∀ ks, (∀ k ∈ cons, k ∈ ks) → BNeeds nb ks)
  ne : ∀ k ∈ cons, k ≠ .gene p

theorem nodePlan_shape {s p : Path} {sub : Sol} {pl : List (Path × Branch)} {cons : List Key}
    (h : nodePlan s p sub = some (pl, cons)) : Shape s p pl cons := by
  cases sub with
  | leaf sp f =>
    simp only [nodePlan, Option.some.injEq, Prod.mk.injEq] at h
    obtain ⟨rfl, rfl⟩ := h
    exact ⟨⟨[], _, rfl, by simp, rfl, fun _ _ => by simp [BNeeds]⟩, by simp⟩
  | node sp f l r =>
    simp only [nodePlan] at h
    cases hev : internalEvent s l.sp r.sp with
    | leaf => simp [hev] at h
    | invalid => simp [hev] at h
    | spec =>
      simp only [hev] at h
      by_cases hsw : Path.isAnc (s ++ [0]) r.sp = true
      · simp only [hsw, if_true] at h
        cases h1 : chainPlan (p ++ [1]) (some s) r.sp.reverse (.gene (p ++ [1])) with
        | none => simp [h1] at h
        | some x1 =>
          obtain ⟨pl1, k1⟩ := x1
          cases h2 : chainPlan (p ++ [0]) (some s) l.sp.reverse (.gene (p ++ [0])) with
          | none => simp [h1, h2] at h
          | some x2 =>
            obtain ⟨pl2, k2⟩ := x2
            simp only [h1, h2, Option.some.injEq, Prod.mk.injEq] at h
            obtain ⟨rfl, rfl⟩ := h
            refine ⟨⟨pl1 ++ pl2, ⟨.gene p, .spec, some k1, some k2⟩, by simp, ?_, rfl,
              fun _ _ => by simp [BNeeds]⟩, by simp⟩
            intro e he
            rcases List.mem_append.1 he with he | he
            · exact (chain_pkeys_form h1 e he).2
            · exact (chain_pkeys_form h2 e he).2
      · have hsw' : Path.isAnc (s ++ [0]) r.sp = false := by simpa using hsw
        simp only [hsw', Bool.false_eq_true, if_false] at h
        cases h1 : chainPlan (p ++ [0]) (some s) l.sp.reverse (.gene (p ++ [0])) with
        | none => simp [h1] at h
        | some x1 =>
          obtain ⟨pl1, k1⟩ := x1
          cases h2 : chainPlan (p ++ [1]) (some s) r.sp.reverse (.gene (p ++ [1])) with
          | none => simp [h1, h2] at h
          | some x2 =>
            obtain ⟨pl2, k2⟩ := x2
            simp only [h1, h2, Option.some.injEq, Prod.mk.injEq] at h
            obtain ⟨rfl, rfl⟩ := h
            refine ⟨⟨pl1 ++ pl2, ⟨.gene p, .spec, some k1, some k2⟩, by simp, ?_, rfl,
              fun _ _ => by simp [BNeeds]⟩, by simp⟩
            intro e he
            rcases List.mem_append.1 he with he | he
            · exact (chain_pkeys_form h1 e he).2
            · exact (chain_pkeys_form h2 e he).2
    | dup =>
      simp only [hev] at h
      cases h1 : chainPlan (p ++ [0]) (Path.up s) l.sp.reverse (.gene (p ++ [0])) with
      | none => simp [h1] at h
      | some x1 =>
        obtain ⟨pl1, k1⟩ := x1
        cases h2 : chainPlan (p ++ [1]) (Path.up s) r.sp.reverse (.gene (p ++ [1])) with
        | none => simp [h1, h2] at h
        | some x2 =>
          obtain ⟨pl2, k2⟩ := x2
          simp only [h1, h2, Option.some.injEq, Prod.mk.injEq] at h
          obtain ⟨rfl, rfl⟩ := h
          refine ⟨⟨pl1 ++ pl2, ⟨.gene p, .dup, some k1, some k2⟩, by simp, ?_, rfl, ?_⟩, ?_⟩
          · intro e he
            rcases List.mem_append.1 he with he | he
            · exact (chain_pkeys_form h1 e he).2
            · exact (chain_pkeys_form h2 e he).2
          · intro ks hks
            exact ⟨k1, k2, rfl, rfl, hks k1 (by simp), hks k2 (by simp)⟩
          · intro k hk
            simp only [List.mem_cons, List.not_mem_nil, or_false] at hk
            rcases hk with rfl | rfl
            · exact chainPlan_top_ne h1 rfl
            · exact chainPlan_top_ne h2 rfl
    | hgt =>
      simp only [hev] at h
      by_cases hk : Path.isAnc s l.sp = true
      · simp only [hk, if_true] at h
        cases h1 : chainPlan (p ++ [0]) (Path.up s) l.sp.reverse (.gene (p ++ [0])) with
        | none => simp [h1] at h
        | some x1 =>
          obtain ⟨pl1, k1⟩ := x1
          simp only [h1, Option.some.injEq, Prod.mk.injEq] at h
          obtain ⟨rfl, rfl⟩ := h
          refine ⟨⟨pl1, _, rfl, fun e he => (chain_pkeys_form h1 e he).2, rfl, ?_⟩, ?_⟩
          · intro ks hks
            exact ⟨k1, rfl, hks k1 (by simp)⟩
          · intro k hk'
            simp only [List.mem_singleton] at hk'
            subst hk'
            exact chainPlan_top_ne h1 rfl
      · have hk' : Path.isAnc s l.sp = false := by simpa using hk
        simp only [hk', Bool.false_eq_true, if_false] at h
        cases h1 : chainPlan (p ++ [1]) (Path.up s) r.sp.reverse (.gene (p ++ [1])) with
        | none => simp [h1] at h
        | some x1 =>
          obtain ⟨pl1, k1⟩ := x1
          simp only [h1, Option.some.injEq, Prod.mk.injEq] at h
          obtain ⟨rfl, rfl⟩ := h
          refine ⟨⟨pl1, _, rfl, fun e he => (chain_pkeys_form h1 e he).2, rfl, ?_⟩, ?_⟩
          · intro ks hks
            exact ⟨k1, rfl, hks k1 (by simp)⟩
          · intro k hk''
            simp only [List.mem_singleton] at hk''
            subst hk''
            exact chainPlan_top_ne h1 rfl

/-! ### The loops -/

theorem processGene_ord {st st' : LState} {s p : Path} {sub : Sol}
    (h : processGene st s p sub = .ok st') (hs : s ∈ skeys st) (hak : AK st) (hord : Ord st) :
    AK st' ∧ Ord st' := by
  obtain ⟨pl, cons, hpl, d, av⟩ := processGene_inv h hs
  refine ⟨d.ak hak, ?_⟩
  obtain ⟨⟨pl', nb, rfl, hloss, hkey, hneeds⟩, hne⟩ := nodePlan_shape hpl
  intro t
  rw [d.brs t, planAt_append, ← List.append_assoc]
  have h1 : Ordered (brs st t ++ planAt t pl') :=
    (hord t).append_loss (fun b hb => hloss (t, b) (mem_planAt.1 hb))
  by_cases hts : s = t
  · subst hts
    simp only [planAt_cons, if_true, planAt_nil]
    apply h1.snoc
    apply hneeds
    intro k hk
    rw [keysOf_append, List.mem_append]
    rcases av k hk with h2 | h2
    · exact Or.inl (hak s k h2)
    · rw [planAt_append, keysOf_append, List.mem_append] at h2
      rcases h2 with h2 | h2
      · exact Or.inr h2
      · simp only [planAt_cons, if_true, planAt_nil, keysOf, List.map_cons, List.map_nil,
          List.mem_singleton] at h2
        exact absurd (h2.trans hkey) (hne k hk)
  · simpa [planAt_cons, hts] using h1

theorem processGenes_ord (s : Path) : ∀ (G : List (Path × Sol)) (st st' : LState),
    processGenes s G st = .ok st' → s ∈ skeys st → AK st → Ord st → AK st' ∧ Ord st' := by
  intro G
  induction G with
  | nil =>
    intro st st' h _ hak hord
    simp only [processGenes, Except.ok.injEq] at h
    subst h
    exact ⟨hak, hord⟩
  | cons g G ih =>
    intro st st' h hs hak hord
    obtain ⟨p, sub⟩ := g
    simp only [processGenes] at h
    by_cases hsp : sub.sp = s
    · simp only [hsp, if_true] at h
      cases h1 : processGene st s p sub with
      | error e => simp [h1] at h
      | ok st1 =>
        simp only [h1] at h
        obtain ⟨_, _, _, d1, _⟩ := processGene_inv h1 hs
        obtain ⟨a1, o1⟩ := processGene_ord h1 hs hak hord
        exact ih st1 st' h (by rw [d1.keys]; exact hs) a1 o1
    · simp only [hsp, if_false] at h
      exact ih st st' h hs hak hord

theorem processSpecies_ord (sol : Sol) : ∀ (L : List Path) (st st' : LState),
    processSpecies sol L st = .ok st' → L.Nodup → (∀ s ∈ L, s ∉ skeys st) → AK st → Ord st →
    AK st' ∧ Ord st' := by
  intro L
  induction L with
  | nil =>
    intro st st' h _ _ hak hord
    simp only [processSpecies, Except.ok.injEq] at h
    subst h
    exact ⟨hak, hord⟩
  | cons s L ih =>
    intro st st' h hnd hnot hak hord
    simp only [processSpecies] at h
    cases h1 : processGenes s (genesPost sol []) (st ++ [(s, ⟨[], []⟩)]) with
    | error e => simp [h1] at h
    | ok st1 =>
      simp only [h1] at h
      have hsnot : s ∉ skeys st := hnot s (List.mem_cons_self ..)
      have hk0 : skeys (st ++ [(s, (⟨[], []⟩ : SpState))]) = skeys st ++ [s] := by simp [skeys]
      have d1 := processGenes_inv s _ _ _ h1 (by rw [hk0]; simp)
      have hk1 : skeys st1 = skeys st ++ [s] := by rw [d1.keys, hk0]
      have hak0 : AK (st ++ [(s, (⟨[], []⟩ : SpState))]) := by
        intro t k hk
        rw [ancs_create hsnot] at hk
        rw [brs_create hsnot]
        exact hak t k hk
      have hord0 : Ord (st ++ [(s, (⟨[], []⟩ : SpState))]) := by
        intro t; rw [brs_create hsnot]; exact hord t
      obtain ⟨a1, o1⟩ := processGenes_ord s _ _ _ h1 (by rw [hk0]; simp) hak0 hord0
      rw [List.nodup_cons] at hnd
      exact ih st1 st' h hnd.2 (by
        intro u hu
        rw [hk1]
        simp only [List.mem_append, List.mem_singleton, not_or]
        exact ⟨hnot u (List.mem_cons_of_mem _ hu), fun e => hnd.1 (e ▸ hu)⟩) a1 o1

/-- After a successful `_compute_branches` every anchor is the key of a
    branch of its species, and every species' branch list is ordered. -/
theorem computeBranches_ord {S : RTree} {sol : Sol} {st : LState}
    (h : computeBranches S sol = .ok st) : AK st ∧ Ord st :=
  processSpecies_ord sol S.postorder [] st h (postorder_nodup S) (by simp [skeys])
    (by intro t k hk; simp [ancs, getSp] at hk)
    (by intro t; simp only [brs, getSp]; exact Ordered.nil)

end SR.Layout
