/-
  Unordered super-reconciliation: canonical labellings versus kind labellings.

  A *canonical* labelling (`Spec.canonicalUn`) gives every internal node either its
  required content or its parent's content plus its own gains — the two choices
  `_compute_uspfs_entry` searches.  This file shows that the canonical valid
  solutions are exactly what `unSol` decodes from admissible kind labellings WITHOUT a
  forbidden edge (LCA → INHERIT with `lcaSet parent ⊆ lcaSet child`), and that on those
  the generic cost `labCost (unAlg c)` is the evaluated cost, infinite cases included.

  * `sortNat_sorted`, `eq_of_sorted`   `sortNat` of a duplicate-free list is strictly
        increasing; strictly increasing lists with the same members are equal — so
        `lcaSet = sortNat (requiredContent …)` as LISTS (`lcaSet_eq_required`);
  * `faithful_gen`     `totalCostU (unSol t anc ls) = labCost (unAlg c) c t ls` for every
        admissible `ls` all of whose edges have finite DP charge;
  * `kindOf`           the kind labelling read off a labelled solution;
  * `adm_kindOf`, `unSol_kindOf`, `edgesFinite_kindOf`   for a valid canonical solution
        with admissible species, `kindOf` is admissible, decodes back to the solution,
        and has no forbidden edge;
  * `canonical_unSol`  conversely every decoded solution is canonical.
-/
import SRVerif.Proofs.UnContentDecode

namespace SR

open Path Cost

/-! ### `sortNat` sorts -/

theorem sortNat_step_sorted (acc : List Nat) (x : Nat) (h : acc.Pairwise (· < ·)) (hx : x ∉ acc) :
    ((acc.takeWhile (· < x)) ++ [x] ++ (acc.dropWhile (· < x))).Pairwise (· < ·) := by
  induction acc with
  | nil => simp
  | cons a t ih =>
    rw [List.pairwise_cons] at h
    simp only [List.mem_cons, not_or] at hx
    by_cases hax : a < x
    · simp only [List.takeWhile_cons, List.dropWhile_cons, hax, decide_true, if_true,
        List.cons_append]
      rw [List.pairwise_cons]
      refine ⟨?_, ih h.2 hx.2⟩
      intro y hy
      rcases (mem_sortNat_step t x y).mp hy with hy | hy
      · exact h.1 y hy
      · rw [hy]; exact hax
    · simp only [List.takeWhile_cons, List.dropWhile_cons, hax, decide_false, Bool.false_eq_true,
        if_false, List.nil_append, List.cons_append]
      rw [List.pairwise_cons, List.pairwise_cons]
      have hxa : x < a := by
        have : x ≠ a := hx.1
        omega
      refine ⟨?_, h.1, h.2⟩
      intro y hy
      rcases List.mem_cons.mp hy with rfl | hy
      · exact hxa
      · exact Nat.lt_trans hxa (h.1 y hy)

theorem sortNat_foldl_sorted (l acc : List Nat) (h : acc.Pairwise (· < ·)) (hl : l.Nodup)
    (hd : ∀ y ∈ l, y ∉ acc) :
    (l.foldl (fun acc x => (acc.takeWhile (· < x)) ++ [x] ++ (acc.dropWhile (· < x))) acc).Pairwise
      (· < ·) := by
  induction l generalizing acc with
  | nil => simpa
  | cons x xs ih =>
    rw [List.nodup_cons] at hl
    rw [List.foldl_cons]
    refine ih _ (sortNat_step_sorted acc x h (hd x (by simp))) hl.2 ?_
    intro y hy hmem
    rcases (mem_sortNat_step acc x y).mp hmem with h1 | h1
    · exact hd y (by simp [hy]) h1
    · rw [h1] at hy; exact hl.1 hy

theorem sortNat_sorted {l : List Nat} (h : l.Nodup) : (sortNat l).Pairwise (· < ·) := by
  unfold sortNat
  exact sortNat_foldl_sorted l [] (by simp) h (by simp)

/-- Strictly increasing lists with the same members are equal. -/
theorem eq_of_sorted : ∀ {l1 l2 : List Nat}, l1.Pairwise (· < ·) → l2.Pairwise (· < ·) →
    (∀ x, x ∈ l1 ↔ x ∈ l2) → l1 = l2
  | [], [], _, _, _ => rfl
  | [], b :: _, _, _, h => by have := (h b).mpr (by simp); simp at this
  | a :: _, [], _, _, h => by have := (h a).mp (by simp); simp at this
  | a :: t1, b :: t2, h1, h2, h => by
    rw [List.pairwise_cons] at h1 h2
    have hab : a = b := by
      have ha := (h a).mp (by simp)
      have hb := (h b).mpr (by simp)
      rcases List.mem_cons.mp ha with e | ha'
      · exact e
      · rcases List.mem_cons.mp hb with e | hb'
        · exact e.symm
        · have := h2.1 a ha'
          have := h1.1 b hb'
          omega
    subst hab
    congr 1
    refine eq_of_sorted h1.2 h2.2 ?_
    intro x
    constructor
    · intro hx
      have := (h x).mp (List.mem_cons_of_mem _ hx)
      rcases List.mem_cons.mp this with e | hx'
      · have := h1.1 x hx; omega
      · exact hx'
    · intro hx
      have := (h x).mpr (List.mem_cons_of_mem _ hx)
      rcases List.mem_cons.mp this with e | hx'
      · have := h2.1 x hx; omega
      · exact hx'

theorem sortNat_congr {l1 l2 : List Nat} (h1 : l1.Nodup) (h2 : l2.Nodup)
    (h : ∀ x, x ∈ l1 ↔ x ∈ l2) : sortNat l1 = sortNat l2 :=
  eq_of_sorted (sortNat_sorted h1) (sortNat_sorted h2)
    (fun x => by rw [mem_sortNat, mem_sortNat]; exact h x)

theorem nodup_families (o : OTree) : (families o).Nodup := nodup_dedup _

theorem nodup_requiredContent (whole : OTree) (p : Path) : (Spec.requiredContent whole p).Nodup := by
  unfold Spec.requiredContent Spec.allowedContent
  exact ((nodup_families whole).filter _).filter _

theorem lcaSet_sorted (S : RTree) (base : Bool) (whole : OTree) (p : Path) (sub : OTree) :
    (annUn S base whole p sub).data.lcaSet.Pairwise (· < ·) := by
  cases sub with
  | leaf sp f => rw [annUn_leaf_lcaSet]; exact sortNat_sorted (nodup_dedup _)
  | node l r => rw [annUn_node_lcaSet]; exact sortNat_sorted ((nodup_dedup _).filter _)

/-- `_compute_lca_sets` yields the sorted required content, as a list. -/
theorem lcaSet_eq_required (S : RTree) (base : Bool) (whole : OTree) (sub : OTree) (p : Path)
    (h : IsSub whole p sub) :
    (annUn S base whole p sub).data.lcaSet = sortNat (Spec.requiredContent whole p) :=
  eq_of_sorted (lcaSet_sorted S base whole p sub) (sortNat_sorted (nodup_requiredContent whole p))
    (fun x => by rw [mem_sortNat]; exact mem_lcaSet S base whole sub p h x)

theorem unContent_inh_sorted (a : UnAnn) (anc : List Nat) :
    (unContent a anc .inh).Pairwise (· < ·) := sortNat_sorted (nodup_dedup _)

/-! ### The generic cost is the evaluated cost when no edge is forbidden -/

/-- Every edge has a finite DP charge (no LCA → INHERIT edge with
    `lcaSet parent ⊆ lcaSet child`). -/
def EdgesFinite (c : Costs) : ATree UnAnn → LSol Kind → Prop
  | .node a tl tr, .node _ k l r =>
    (unAlg c).conserv a k tl.data l.lab ≠ .inf ∧ (unAlg c).conserv a k tr.data r.lab ≠ .inf ∧
      EdgesFinite c tl l ∧ EdgesFinite c tr r
  | _, _ => True

/-- `totalCost c .unordered`, relative to a subtree. -/
def totalCostU (c : Costs) (sub : OTree) (sol : Sol) : Cost :=
  match unordLosses sol with
  | some k => recCost c sub sol + .fin (k * c.sloss)
  | none => .inf

theorem totalCostU_eq (c : Costs) (o : OTree) (sol : Sol) :
    totalCostU c o sol = totalCost c .unordered o sol := by
  unfold totalCostU totalCost labelingCost
  cases unordLosses sol <;> rfl

/-- The local lemma without a finiteness hypothesis. -/
theorem gl_unord_gen (c : Costs) (s x y : Path) (lc rc : Nat) :
    gl c s x (.fin (lc * c.sloss)) (.fin 0) y (.fin (rc * c.sloss)) (.fin 0) =
      match unLoss (internalEvent s x y) (comparable s x) lc rc with
      | some k0 => localRecCost c s x y + .fin (k0 * c.sloss)
      | none => .inf := by
  rw [gl_shift]
  cases hev : internalEvent s x y with
  | leaf => rfl
  | invalid => rfl
  | spec => simp only [unLoss, Nat.add_mul]
  | dup => simp only [unLoss, Nat.add_zero, Nat.zero_add, un_min_mul]
  | hgt =>
    simp only [unLoss]
    rw [comparable_eq_isAnc_of_hgt hev]
    cases isAnc s x <;> simp

theorem recCost_node_invalid (c : Costs) (ol or : OTree) (s : Path) (f : List Nat) (l r : Sol)
    (h : internalEvent s l.sp r.sp = .invalid) :
    recCost c (.node ol or) (.node s f l r) = .inf := by
  simp [recCost, h]

theorem faithful_gen (c : Costs) (S : RTree) (base : Bool) (whole : OTree) :
    ∀ (sub : OTree) (p : Path) (anc : List Nat) (ls : LSol Kind),
      IsSub whole p sub → Adm (unAlg c) (annUn S base whole p sub) ls →
      EdgesFinite c (annUn S base whole p sub) ls →
      (ls.lab = .inh →
        InhWitness whole p (unContent (annUn S base whole p sub).data anc .inh)) →
      totalCostU c sub (unSol (annUn S base whole p sub) anc ls) =
        labCost (unAlg c) c (annUn S base whole p sub) ls := by
  intro sub
  induction sub with
  | leaf sp f0 =>
    intro p anc ls _ hadm _ _
    cases ls with
    | node => simp [annUn, Adm] at hadm
    | leaf s k =>
      simp only [annUn, Adm] at hadm
      obtain ⟨rfl, _⟩ := hadm
      simp [annUn, unSol, totalCostU, unordLosses, recCost, labCost]
  | node l r ihl ihr =>
    intro p anc ls hsub hadm hedges hw
    obtain ⟨hl, hr⟩ := isSub_child hsub
    have ha := annAt_annUn S base whole _ p hsub
    have hla := annAt_annUn S base whole _ _ hl
    have hra := annAt_annUn S base whole _ _ hr
    rw [annUn_node] at hadm hedges ⊢
    cases ls with
    | leaf => simp [Adm] at hadm
    | node s k x y =>
      simp only [Adm] at hadm
      obtain ⟨_, _, ax, ay⟩ := hadm
      simp only [EdgesFinite] at hedges
      obtain ⟨fx, fy, edx, edy⟩ := hedges
      generalize hA : (annUn S base whole p (.node l r)).data = a at *
      have ex := un_edge c ha hla anc k x.lab hw
      have ey := un_edge c ha hra anc k y.lab hw
      simp only [ATree.data] at fx fy
      rcases ex with ⟨e1, _⟩ | ⟨ex1, ex2⟩
      · exact absurd e1 fx
      rcases ey with ⟨e1, _⟩ | ⟨ey1, ey2⟩
      · exact absurd e1 fy
      have wx : x.lab = .inh → InhWitness whole (p ++ [0])
          (unContent (annUn S base whole (p ++ [0]) l).data (unContent a anc k) .inh) := by
        intro e; rw [e] at fx
        exact un_witness_child c ha hla anc k hw fx
      have wy : y.lab = .inh → InhWitness whole (p ++ [1])
          (unContent (annUn S base whole (p ++ [1]) r).data (unContent a anc k) .inh) := by
        intro e; rw [e] at fy
        exact un_witness_child c ha hra anc k hw fy
      have hcl := ihl _ (unContent a anc k) x hl ax edx wx
      have hcr := ihr _ (unContent a anc k) y hr ay edy wy
      simp only [labCost, genLocal]
      rw [ex1, ex2, ey1, ey2, gl_unord_gen, ← hcl, ← hcr, unSol_node]
      unfold totalCostU
      simp only [unordLosses, unSol_sp, localUnordLosses_eq]
      rw [unSol_fam c _ _ _ ax, unSol_fam c _ _ _ ay]
      cases hk0 : unLoss (internalEvent s x.sp y.sp) (comparable s x.sp)
          (if subsetB (unContent a anc k)
            (unContent (annUn S base whole (p ++ [0]) l).data (unContent a anc k) x.lab) then 0 else 1)
          (if subsetB (unContent a anc k)
            (unContent (annUn S base whole (p ++ [1]) r).data (unContent a anc k) y.lab) then 0 else 1) with
      | none => simp
      | some k0 =>
        cases hkl : unordLosses (unSol (annUn S base whole (p ++ [0]) l) (unContent a anc k) x) with
        | none => simp
        | some kl =>
          cases hkr : unordLosses (unSol (annUn S base whole (p ++ [1]) r) (unContent a anc k) y) with
          | none => simp
          | some kr =>
            simp only []
            rw [recCost_node, unSol_sp, unSol_sp]
            simp only [Nat.add_mul, ← fin_add_fin_eq]
            ac_rfl

/-! ### From a labelled solution back to kinds -/

/-- The kind labelling of a labelled solution: LCA where the node holds exactly its
    `lcaSet`, INHERIT elsewhere (leaves are LCA). -/
def kindOf : ATree UnAnn → Sol → LSol Kind
  | .node a tl tr, .node s f l r =>
    .node s (if f = a.lcaSet then .lca else .inh) (kindOf tl l) (kindOf tr r)
  | _, sol => .leaf sol.sp .lca

/-- The species a solver may use at the internal nodes. -/
def spAllowed (S : RTree) (base : Bool) : OTree → Sol → Prop
  | .node ol or, .node s _ l r =>
    (if base then s = (lcaSol (.node ol or)).sp else S.isNode s = true) ∧
      spAllowed S base ol l ∧ spAllowed S base or r
  | _, _ => True

theorem annUn_allowed {c : Costs} (S : RTree) (base : Bool) (whole : OTree) (p : Path) (l r : OTree) (s : Path) :
    s ∈ (unAlg c).allowed (annUn S base whole p (.node l r)).data ↔
      (if base then s = (lcaSol (.node l r)).sp else S.isNode s = true) := by
  cases base with
  | true => simp [unAlg, annUn, ATree.data]
  | false =>
    simp only [unAlg, annUn, ATree.data, Bool.false_eq_true, if_false, List.mem_reverse]
    exact RTree.mem_preorder_iff s S

theorem adm_kindOf (c : Costs) (S : RTree) (base : Bool) (whole : OTree) :
    ∀ (sub : OTree) (p : Path) (sol : Sol), Spec.validRec sub sol = true → spAllowed S base sub sol →
      Adm (unAlg c) (annUn S base whole p sub) (kindOf (annUn S base whole p sub) sol) ∧
      (kindOf (annUn S base whole p sub) sol).sp = sol.sp := by
  intro sub
  induction sub with
  | leaf sp f0 =>
    intro p sol hv _
    cases sol with
    | node => simp [Spec.validRec] at hv
    | leaf s f =>
      simp only [Spec.validRec, beq_iff_eq] at hv
      simp [annUn, kindOf, Adm, unAlg, Sol.sp, LSol.sp, hv]
  | node l r ihl ihr =>
    intro p sol hv hs
    cases sol with
    | leaf => simp [Spec.validRec] at hv
    | node s f x y =>
      simp only [Spec.validRec, Bool.and_eq_true] at hv
      simp only [spAllowed] at hs
      have hxa := ihl (p ++ [0]) x hv.1.2 hs.2.1
      have hya := ihr (p ++ [1]) y hv.2 hs.2.2
      rw [annUn_node]
      simp only [kindOf, Adm, LSol.sp, Sol.sp, and_true]
      refine ⟨(annUn_allowed (c := c) S base whole p l r s).mpr hs.1, ?_, hxa.1, hya.1⟩
      simp only [unAlg]
      split <;> simp

/-- What validity and canonicity give at each node, relative to the parent's content. -/
theorem unSol_kindOf (S : RTree) (base : Bool) (whole : OTree) :
    ∀ (sub : OTree) (p : Path) (anc : List Nat) (sol : Sol), IsSub whole p sub →
      Spec.validUnLabels whole p sub sol = true → Spec.canonicalUn whole p anc sol = true →
      unSol (annUn S base whole p sub) anc (kindOf (annUn S base whole p sub) sol) = sol := by
  intro sub
  induction sub with
  | leaf sp f0 =>
    intro p anc sol _ hv _
    cases sol with
    | node => simp [Spec.validUnLabels] at hv
    | leaf s f =>
      simp only [Spec.validUnLabels, beq_iff_eq] at hv
      simp [annUn, kindOf, unSol, Sol.sp, hv]
  | node l r ihl ihr =>
    intro p anc sol hsub hv hc
    obtain ⟨hl, hr⟩ := isSub_child hsub
    cases sol with
    | leaf => simp [Spec.validUnLabels] at hv
    | node s f x y =>
      simp only [Spec.validUnLabels, Bool.and_eq_true] at hv
      simp only [Spec.canonicalUn, Bool.and_eq_true, Bool.or_eq_true, beq_iff_eq,
        Bool.not_eq_true', List.isEmpty_eq_false_iff] at hc
      have hreq := lcaSet_eq_required S base whole (.node l r) p hsub
      have hgain := annUn_gain S base whole p (.node l r)
      rw [annUn_node]
      generalize hA : (annUn S base whole p (.node l r)).data = a at *
      simp only [kindOf]
      rw [unSol_node]
      have hcontent : unContent a anc (if f = a.lcaSet then .lca else .inh) = f := by
        by_cases hf : f = a.lcaSet
        · simp [hf, unContent]
        · simp only [hf, if_false, unContent]
          rcases hc.1.1 with e | ⟨_, e⟩
          · exact absurd (e.trans hreq.symm) hf
          · rw [hgain]; exact e.symm
      rw [hcontent]
      rw [ihl _ f x hl hv.1.2 hc.1.2, ihr _ f y hr hv.2 hc.2]

theorem kindOf_lab_node (a : UnAnn) (tl tr : ATree UnAnn) (s : Path) (f : List Nat) (l r : Sol) :
    (kindOf (.node a tl tr) (.node s f l r)).lab = (if f = a.lcaSet then .lca else .inh) := rfl

/-- The families gained at a node of the tree are carried below it. -/
theorem gains_sub_required {whole : OTree} {p : Path} {x : Nat} (h : x ∈ gainsAt whole p) :
    x ∈ Spec.requiredContent whole p := by
  obtain ⟨hf, hg⟩ := mem_gainsAt.mp h
  -- some leaf carries `x`
  have : ∃ q f, (q, f) ∈ leafPaths whole ∧ x ∈ f := by
    simp only [families, mem_dedup, List.mem_flatten] at hf
    obtain ⟨f, hfm, hx⟩ := hf
    have : ∀ o : OTree, f ∈ leafSyntenies o → ∃ q, (q, f) ∈ leafPaths o := by
      intro o
      induction o with
      | leaf sp g =>
        intro h
        simp only [leafSyntenies, List.mem_singleton] at h
        exact ⟨[], by simp [leafPaths, h]⟩
      | node l r ihl ihr =>
        intro h
        simp only [leafSyntenies, List.mem_append] at h
        rcases h with h | h
        · obtain ⟨q, hq⟩ := ihl h
          refine ⟨0 :: q, ?_⟩
          simp only [leafPaths, List.mem_append, List.mem_map, Prod.mk.injEq, Prod.exists]
          exact Or.inl ⟨q, f, hq, rfl, rfl⟩
        · obtain ⟨q, hq⟩ := ihr h
          refine ⟨1 :: q, ?_⟩
          simp only [leafPaths, List.mem_append, List.mem_map, Prod.mk.injEq, Prod.exists]
          exact Or.inr ⟨q, f, hq, rfl, rfl⟩
    obtain ⟨q, hq⟩ := this whole hfm
    exact ⟨q, f, hq, hx⟩
  obtain ⟨q, f, hm, hx⟩ := this
  have hanc := (family_of_leaf hm hx).2
  rw [hg] at hanc
  exact mem_requiredContent.mpr ⟨hf, by rw [hg]; exact isAnc_refl _, q, f, hm, hanc, hx⟩

theorem edgesFinite_kindOf (c : Costs) (S : RTree) (base : Bool) (whole : OTree) :
    ∀ (sub : OTree) (p : Path) (anc : List Nat) (sol : Sol), IsSub whole p sub →
      Spec.validUnLabels whole p sub sol = true → Spec.canonicalUn whole p anc sol = true →
      EdgesFinite c (annUn S base whole p sub) (kindOf (annUn S base whole p sub) sol) := by
  intro sub
  induction sub with
  | leaf sp f0 =>
    intro p anc sol _ hv _
    cases sol with
    | node => simp [Spec.validUnLabels] at hv
    | leaf s f => simp [annUn, kindOf, EdgesFinite]
  | node l r ihl ihr =>
    intro p anc sol hsub hv hc
    obtain ⟨hl, hr⟩ := isSub_child hsub
    cases sol with
    | leaf => simp [Spec.validUnLabels] at hv
    | node s f x y =>
      simp only [Spec.validUnLabels, Bool.and_eq_true] at hv
      simp only [Spec.canonicalUn, Bool.and_eq_true] at hc
      have ha := annAt_annUn S base whole _ p hsub
      rw [annUn_node]
      generalize hA : (annUn S base whole p (.node l r)).data = a at *
      simp only [kindOf, EdgesFinite]
      -- one edge: parent content `f`, child subtree `ch` at `p ++ [i]`
      have edge : ∀ (i : Nat) (ch : OTree) (z : Sol), IsSub whole (p ++ [i]) ch →
          Spec.validUnLabels whole (p ++ [i]) ch z = true →
          Spec.canonicalUn whole (p ++ [i]) f z = true →
          (unAlg c).conserv a (if f = a.lcaSet then .lca else .inh)
            (annUn S base whole (p ++ [i]) ch).data
            (kindOf (annUn S base whole (p ++ [i]) ch) z).lab ≠ .inf := by
        intro i ch z hch hvz hcz
        by_cases hf : f = a.lcaSet
        swap
        · simp only [hf, if_false, unAlg]
          cases (kindOf (annUn S base whole (p ++ [i]) ch) z).lab <;> simp
        simp only [hf, if_true]
        cases ch with
        | leaf sp g =>
          cases z with
          | node => simp [Spec.validUnLabels] at hvz
          | leaf => simp only [annUn, kindOf, LSol.lab, unAlg]; split <;> simp
        | node cl cr =>
          cases z with
          | leaf => simp [Spec.validUnLabels] at hvz
          | node sz fz zl zr =>
            rw [annUn_node, kindOf_lab_node]
            have hca := annAt_annUn S base whole _ _ hch
            have hreqc := lcaSet_eq_required S base whole (.node cl cr) _ hch
            have hsorted := lcaSet_sorted S base whole (p ++ [i]) (.node cl cr)
            generalize (annUn S base whole (p ++ [i]) (.node cl cr)).data = ca at *
            simp only [ATree.data]
            by_cases hfz : fz = ca.lcaSet
            · simp only [hfz, if_true, unAlg]; split <;> simp
            · simp only [hfz, if_false, unAlg]
              cases hs : subsetB a.lcaSet ca.lcaSet with
              | false => simp
              | true =>
                exfalso
                simp only [Spec.canonicalUn, Bool.and_eq_true, Bool.or_eq_true, beq_iff_eq] at hcz
                rcases hcz.1.1 with e | ⟨_, e⟩
                · exact hfz (e.trans hreqc.symm)
                · apply hfz
                  rw [e, ← hca.gain]
                  refine eq_of_sorted (unContent_inh_sorted ca f) hsorted ?_
                  intro w
                  show w ∈ unContent ca f .inh ↔ _
                  rw [mem_unContent_inh]
                  constructor
                  · rintro (hw | hw)
                    · rw [hf] at hw; exact subsetB_iff.mp hs w hw
                    · rw [hca.gain] at hw
                      exact (hca.lca w).mpr (gains_sub_required hw)
                  · intro hw
                    rcases required_child ((hca.lca w).mp hw) with h1 | h1
                    · left; rw [hf]; exact (ha.lca w).mpr h1
                    · right; rw [hca.gain]; exact h1
      exact ⟨edge 0 l x hl hv.1.2 hc.1.2, edge 1 r y hr hv.2 hc.2,
        ihl _ f x hl hv.1.2 hc.1.2, ihr _ f y hr hv.2 hc.2⟩

/-! ### Decoded solutions are canonical -/

theorem canonical_unSol (c : Costs) (S : RTree) (base : Bool) (whole : OTree) :
    ∀ (sub : OTree) (p : Path) (anc : List Nat) (ls : LSol Kind), IsSub whole p sub →
      Adm (unAlg c) (annUn S base whole p sub) ls → (p = [] → ls.lab = .lca) →
      Spec.canonicalUn whole p anc (unSol (annUn S base whole p sub) anc ls) = true := by
  intro sub
  induction sub with
  | leaf sp f0 =>
    intro p anc ls _ hadm _
    cases ls with
    | node => simp [annUn, Adm] at hadm
    | leaf s k => simp [annUn, unSol, Spec.canonicalUn]
  | node l r ihl ihr =>
    intro p anc ls hsub hadm hroot
    obtain ⟨hl, hr⟩ := isSub_child hsub
    have hreq := lcaSet_eq_required S base whole (.node l r) p hsub
    have hgain := annUn_gain S base whole p (.node l r)
    rw [annUn_node] at hadm ⊢
    cases ls with
    | leaf => simp [Adm] at hadm
    | node s k x y =>
      simp only [Adm] at hadm
      obtain ⟨_, _, ax, ay⟩ := hadm
      generalize hA : (annUn S base whole p (.node l r)).data = a at *
      rw [unSol_node]
      simp only [Spec.canonicalUn, Bool.and_eq_true, Bool.or_eq_true, beq_iff_eq,
        Bool.not_eq_true', List.isEmpty_eq_false_iff]
      refine ⟨⟨?_, ihl _ _ x hl ax (by simp)⟩, ihr _ _ y hr ay (by simp)⟩
      cases k with
      | lca => left; exact hreq
      | inh =>
        right
        refine ⟨?_, by simp only [unContent, hgain]⟩
        intro e
        have := hroot e
        simp [LSol.lab] at this

end SR
