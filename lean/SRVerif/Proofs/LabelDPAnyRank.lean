/-
  The result entry under ANY (`rankAny`) against the result entry under ALL
  (`rankByCost`), and the set of outputs reachable under ANY (`reachAny`).

  Setting: `groups` lists, per finite root cell, the outputs that cell decodes to
  under ALL; `ca` lists the outputs decoded under ANY.  `RepG ca groups`: every
  output of `ca` belongs to a group and every group has a member in `ca`
  (from `dpTableAny_rep`: one representative per cell).

  * `rankAny_reach`    the ANY result is in `reachAny` — no hypothesis on the costs;
  * `rankAny_mem_all`  if the evaluated cost is constant on each group (`Uniform`),
                       the ANY result is a member of the ALL result;
  * `rankAny_nil_iff`  the ANY result is empty iff the ALL result is;
  * `reachAny_eq_all`  under `Uniform`, `reachAny` is exactly the ALL result
                       (`all_sub_reachAny` needs no hypothesis).
-/
import SRVerif.Proofs.LabelDPAny
import SRVerif.Proofs.LabelDPThl

namespace SR

open Cost

/-- Every decoded ANY output belongs to a group, every group is represented. -/
def RepG (ca : List Sol) (groups : List (List Sol)) : Prop :=
  (∀ s ∈ ca, ∃ g ∈ groups, s ∈ g) ∧ (∀ g ∈ groups, ∃ s ∈ ca, s ∈ g)

/-- The evaluated cost is constant on every group. -/
def Uniform (cost : Sol → Cost) (groups : List (List Sol)) : Prop :=
  ∀ g ∈ groups, ∀ x ∈ g, ∀ y ∈ g, cost x = cost y

theorem RepG.flatMap {ι : Type} (idx : List ι) (fa : ι → List Sol) (fg : ι → List (List Sol))
    (h : ∀ i ∈ idx, RepG (fa i) (fg i)) : RepG (idx.flatMap fa) (idx.flatMap fg) := by
  constructor
  · intro s hs
    obtain ⟨i, hi, hs⟩ := List.mem_flatMap.mp hs
    obtain ⟨g, hg, hsg⟩ := (h i hi).1 s hs
    exact ⟨g, List.mem_flatMap.mpr ⟨i, hi, hg⟩, hsg⟩
  · intro g hg
    obtain ⟨i, hi, hg⟩ := List.mem_flatMap.mp hg
    obtain ⟨s, hs, hsg⟩ := (h i hi).2 g hg
    exact ⟨s, List.mem_flatMap.mpr ⟨i, hi, hs⟩, hsg⟩

theorem Uniform.flatMap {ι : Type} (cost : Sol → Cost) (idx : List ι) (fg : ι → List (List Sol))
    (h : ∀ i ∈ idx, Uniform cost (fg i)) : Uniform cost (idx.flatMap fg) := by
  intro g hg
  obtain ⟨i, hi, hg⟩ := List.mem_flatMap.mp hg
  exact h i hi g hg

section

variable {Lab : Type}

/-- From cells to groups. -/
theorem Rep.repG {Tany Tall : List (DCell Lab)} (h : Rep Tany Tall) (dec : LSol Lab → Sol) :
    RepG (Tany.flatMap (fun d => d.sols.map dec)) (Tall.map (fun d => d.sols.map dec)) := by
  constructor
  · intro s hs
    obtain ⟨d, hd, hs⟩ := List.mem_flatMap.mp hs
    obtain ⟨d', hd', _, x, hx, hx'⟩ := h.1 d hd
    rw [hx] at hs
    simp only [List.map_cons, List.map_nil, List.mem_singleton] at hs
    subst hs
    exact ⟨_, List.mem_map.mpr ⟨d', hd', rfl⟩, List.mem_map.mpr ⟨x, hx', rfl⟩⟩
  · intro g hg
    obtain ⟨d', hd', rfl⟩ := List.mem_map.mp hg
    obtain ⟨d, hd, _, x, hx, hx'⟩ := h.2 d' hd'
    refine ⟨dec x, List.mem_flatMap.mpr ⟨d, hd, by rw [hx]; simp⟩, List.mem_map.mpr ⟨x, hx', rfl⟩⟩

theorem mem_flatMap_groups {cells : List (DCell Lab)} {dec : LSol Lab → Sol} {s : Sol} :
    s ∈ cells.flatMap (fun d => d.sols.map dec) ↔
      ∃ g ∈ cells.map (fun d => d.sols.map dec), s ∈ g := by
  constructor
  · intro h
    obtain ⟨d, hd, hs⟩ := List.mem_flatMap.mp h
    exact ⟨_, List.mem_map.mpr ⟨d, hd, rfl⟩, hs⟩
  · rintro ⟨g, hg, hs⟩
    obtain ⟨d, hd, rfl⟩ := List.mem_map.mp hg
    exact List.mem_flatMap.mpr ⟨d, hd, hs⟩

end

/-! ### `reachAny` -/

theorem mem_reachAny {cost : Sol → Cost} {groups : List (List Sol)} {s : Sol} :
    s ∈ reachAny cost groups ↔
      ∃ g ∈ groups, s ∈ g ∧ ∀ g' ∈ groups, ∃ y ∈ g', cost s ≼ cost y := by
  simp only [reachAny, mem_dedup, List.mem_flatMap, List.mem_filter, List.all_eq_true,
    List.any_eq_true]

theorem nodup_reachAny (cost : Sol → Cost) (groups : List (List Sol)) :
    (reachAny cost groups).Nodup := nodup_dedup _

/-! ### The result entry -/

variable (pick : List Sol → Option Sol) (c : Costs) (mode : LabelMode) (o : OTree)

theorem mem_rankAny {ca : List Sol} {s : Sol} :
    s ∈ rankAny pick c mode o ca ↔ pick (rankByCost c mode o ca) = some s := by
  simp only [rankAny, Option.mem_toList]

theorem rankAny_length_le (ca : List Sol) : (rankAny pick c mode o ca).length ≤ 1 := by
  unfold rankAny
  cases pick (rankByCost c mode o ca) <;> simp

variable (hp : PickOk pick)
include hp

/-- The ANY result is one of the outputs of minimum evaluated cost among the
    outputs decoded under ANY. -/
theorem rankAny_sub {ca : List Sol} {s : Sol} (h : s ∈ rankAny pick c mode o ca) :
    s ∈ rankByCost c mode o ca :=
  hp.mem ((mem_rankAny pick c mode o).mp h)

theorem rankAny_eq_nil_iff (ca : List Sol) : rankAny pick c mode o ca = [] ↔ ca = [] := by
  constructor
  · intro h
    by_cases hca : ca = []
    · exact hca
    · exfalso
      obtain ⟨x, hx⟩ := hp.some_of_ne_nil (rankByCost_ne_nil c mode o hca)
      simp [rankAny, hx] at h
  · intro h; subst h
    have : rankByCost c mode o [] = [] := by simp [rankByCost, dedup]
    have h2 : pick [] = none := by
      cases hq : pick [] with
      | none => rfl
      | some x => exact absurd (hp.mem hq) (by simp)
    simp [rankAny, this, h2]

/-- Exactly one output as soon as something was decoded. -/
theorem rankAny_length_eq {ca : List Sol} (hne : ca ≠ []) :
    (rankAny pick c mode o ca).length = 1 := by
  obtain ⟨x, hx⟩ := hp.some_of_ne_nil (rankByCost_ne_nil c mode o hne)
  simp [rankAny, hx]

variable {ca cl : List Sol} {groups : List (List Sol)}
  (hcl : ∀ s, s ∈ cl ↔ ∃ g ∈ groups, s ∈ g) (hrep : RepG ca groups)
include hcl hrep

omit hp in
theorem repG_nil_iff : ca = [] ↔ cl = [] := by
  constructor
  · intro h
    apply List.eq_nil_iff_forall_not_mem.mpr
    intro s hs
    obtain ⟨g, hg, _⟩ := (hcl s).mp hs
    obtain ⟨x, hx, _⟩ := hrep.2 g hg
    rw [h] at hx; cases hx
  · intro h
    apply List.eq_nil_iff_forall_not_mem.mpr
    intro s hs
    obtain ⟨g, hg, hsg⟩ := hrep.1 s hs
    have := (hcl s).mpr ⟨g, hg, hsg⟩
    rw [h] at this; cases this

/-- **Empty results coincide.** -/
theorem rankAny_nil_iff : rankAny pick c mode o ca = [] ↔ rankByCost c mode o cl = [] := by
  rw [rankAny_eq_nil_iff pick c mode o hp, repG_nil_iff hcl hrep]
  constructor
  · intro h; subst h; simp [rankByCost, dedup]
  · intro h
    by_cases hne : cl = []
    · exact hne
    · exact absurd h (rankByCost_ne_nil c mode o hne)

omit hcl in
/-- **The ANY result is reachable** (no hypothesis on the costs). -/
theorem rankAny_reach {s : Sol} (h : s ∈ rankAny pick c mode o ca) :
    s ∈ reachAny (totalCost c mode o) groups := by
  obtain ⟨hs, hmin⟩ := (mem_rankByCost c mode o ca s).mp (rankAny_sub pick c mode o hp h)
  obtain ⟨g, hg, hsg⟩ := hrep.1 s hs
  refine mem_reachAny.mpr ⟨g, hg, hsg, ?_⟩
  intro g' hg'
  obtain ⟨y, hy, hyg⟩ := hrep.2 g' hg'
  exact ⟨y, hyg, hmin y hy⟩

omit hp hrep in
/-- Under `Uniform`, every reachable output is in the ALL result. -/
theorem reachAny_sub_all (hu : Uniform (totalCost c mode o) groups) {s : Sol}
    (h : s ∈ reachAny (totalCost c mode o) groups) : s ∈ rankByCost c mode o cl := by
  obtain ⟨g, hg, hsg, hall⟩ := mem_reachAny.mp h
  refine (mem_rankByCost c mode o cl s).mpr ⟨(hcl s).mpr ⟨g, hg, hsg⟩, ?_⟩
  intro s' hs'
  obtain ⟨g', hg', hs'g⟩ := (hcl s').mp hs'
  obtain ⟨y, hy, hle⟩ := hall g' hg'
  rw [hu g' hg' s' hs'g y hy]; exact hle

omit hp in
/-- Every output of the ALL result is reachable under ANY (no hypothesis on the costs). -/
theorem all_sub_reachAny {s : Sol} (h : s ∈ rankByCost c mode o cl) :
    s ∈ reachAny (totalCost c mode o) groups := by
  obtain ⟨hs, hmin⟩ := (mem_rankByCost c mode o cl s).mp h
  obtain ⟨g, hg, hsg⟩ := (hcl s).mp hs
  refine mem_reachAny.mpr ⟨g, hg, hsg, ?_⟩
  intro g' hg'
  obtain ⟨y, _, hyg⟩ := hrep.2 g' hg'
  exact ⟨y, hyg, hmin y ((hcl y).mpr ⟨g', hg', hyg⟩)⟩

omit hp in
theorem reachAny_eq_all (hu : Uniform (totalCost c mode o) groups) (s : Sol) :
    s ∈ reachAny (totalCost c mode o) groups ↔ s ∈ rankByCost c mode o cl :=
  ⟨reachAny_sub_all c mode o hcl hu, all_sub_reachAny c mode o hcl hrep⟩

/-- **The ANY result is a member of the ALL result** when the evaluated cost is
    constant on the outputs of each root cell. -/
theorem rankAny_mem_all (hu : Uniform (totalCost c mode o) groups) {s : Sol}
    (h : s ∈ rankAny pick c mode o ca) : s ∈ rankByCost c mode o cl :=
  reachAny_sub_all c mode o hcl hu (rankAny_reach pick c mode o hp hrep h)

end SR
