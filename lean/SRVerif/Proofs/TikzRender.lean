/-
  `get_color` interning and the assembly of `render`.
-/
import SRVerif.Proofs.TikzBraces

namespace SR.Tikz

/-- Two lists related element by element (core Lean has no `Forall₂`). -/
inductive All₂ {α β : Type} (R : α → β → Prop) : List α → List β → Prop
  | nil : All₂ R [] []
  | cons {a b l m} : R a b → All₂ R l m → All₂ R (a :: l) (b :: m)

/-! ### Interning -/

theorem getElem?_idxOf (cs : List Str) (h : Str) (hlt : cs.idxOf h < cs.length) :
    cs[cs.idxOf h]? = some h := by
  induction cs with
  | nil => simp at hlt
  | cons a r ih =>
    rw [List.idxOf_cons] at hlt ⊢
    cases e : (a == h) with
    | true =>
      simp only [cond_true, List.getElem?_cons_zero]
      simpa using e
    | false =>
      simp only [e, cond_false, List.length_cons, Nat.add_lt_add_iff_right] at hlt
      simpa using ih hlt

theorem intern_spec (cs : List Str) (h : Str) :
    cs <+: (intern cs h).1 ∧ (intern cs h).2 < (intern cs h).1.length ∧
      (intern cs h).1[(intern cs h).2]? = some h := by
  simp only [intern]
  split
  · rename_i hlt
    exact ⟨List.prefix_refl _, hlt, getElem?_idxOf cs h hlt⟩
  · exact ⟨List.prefix_append _ _, by simp, by simp⟩

theorem getElem?_of_prefix {cs cs' : List Str} (hp : cs <+: cs') {i : Nat} {h : Str}
    (hi : cs[i]? = some h) : cs'[i]? = some h := by
  obtain ⟨t, rfl⟩ := hp
  have : i < cs.length := by
    rcases Nat.lt_or_ge i cs.length with h' | h'
    · exact h'
    · simp [List.getElem?_eq_none h'] at hi
  rw [List.getElem?_append_left this]; exact hi

/-- What a resolved filling has to do with the requested one, relative to the final table. -/
def FillRes (table : List Str) : Fill → RFill → Prop
  | .text s, .text s' => s = s'
  | .color h, .color i => table[i]? = some h
  | _, _ => False

theorem FillRes.mono {cs cs' : List Str} (hp : cs <+: cs') {f : Fill} {o : RFill}
    (h : FillRes cs f o) : FillRes cs' f o := by
  cases f <;> cases o <;> simp only [FillRes] at h ⊢
  · exact h
  · exact getElem?_of_prefix hp h

theorem resolveFills_spec (cs : List Str) (fs : List Fill) :
    cs <+: (resolveFills cs fs).1 ∧
      All₂ (FillRes (resolveFills cs fs).1) fs (resolveFills cs fs).2 := by
  induction fs generalizing cs with
  | nil => exact ⟨List.prefix_refl _, All₂.nil⟩
  | cons f r ih =>
    cases f with
    | text s =>
      simp only [resolveFills]
      exact ⟨(ih cs).1, All₂.cons rfl (ih cs).2⟩
    | color h =>
      simp only [resolveFills]
      have h1 := intern_spec cs h
      have h2 := ih (intern cs h).1
      exact ⟨List.IsPrefix.trans h1.1 h2.1,
        All₂.cons (getElem?_of_prefix h2.1 h1.2.2) h2.2⟩

/-- A resolved call against the call that was made. -/
def CallRes (table : List Str) (c : Call) (o : RCall) : Prop :=
  o.layer = c.layer ∧ o.tmpl = c.tmpl ∧ All₂ (FillRes table) c.fills o.fills

theorem forall₂_mono {α β : Type} {R S : α → β → Prop} (h : ∀ a b, R a b → S a b) {l : List α}
    {m : List β} (hl : All₂ R l m) : All₂ S l m := by
  induction hl with
  | nil => exact All₂.nil
  | cons hab _ ih => exact All₂.cons (h _ _ hab) ih

theorem resolveCalls_spec (cs : List Str) (calls : List Call) :
    cs <+: (resolveCalls cs calls).1 ∧
      All₂ (CallRes (resolveCalls cs calls).1) calls (resolveCalls cs calls).2 := by
  induction calls generalizing cs with
  | nil => exact ⟨List.prefix_refl _, All₂.nil⟩
  | cons c r ih =>
    simp only [resolveCalls]
    have h1 := resolveFills_spec cs c.fills
    have h2 := ih (resolveFills cs c.fills).1
    refine ⟨List.IsPrefix.trans h1.1 h2.1, All₂.cons ⟨rfl, rfl, ?_⟩ h2.2⟩
    exact forall₂_mono (fun a b hab => FillRes.mono h2.1 hab) h1.2

/-- Every colour index handed out is below the number of colours finally defined. -/
theorem resolveCalls_index_lt (calls : List Call) :
    ∀ o ∈ (resolveCalls [] calls).2, ∀ i, RFill.color i ∈ o.fills →
      i < (resolveCalls [] calls).1.length := by
  have h := (resolveCalls_spec [] calls).2
  generalize (resolveCalls [] calls).1 = table at h
  generalize (resolveCalls [] calls).2 = out at h
  intro o ho i hi
  induction h with
  | nil => cases ho
  | @cons c o' _ _ hco _ ih =>
    rcases List.mem_cons.1 ho with e | e
    · subst e
      have hf := hco.2.2
      generalize c.fills = fs at hf
      generalize o.fills = os at hf hi
      induction hf with
      | nil => cases hi
      | @cons f x _ _ hfx _ ih2 =>
        rcases List.mem_cons.1 hi with e2 | e2
        · subst e2
          cases f with
          | text s => simp [FillRes] at hfx
          | color hh =>
            simp only [FillRes] at hfx
            rcases Nat.lt_or_ge i table.length with h' | h'
            · exact h'
            · simp [List.getElem?_eq_none h'] at hfx
        · exact ih2 e2
    · exact ih e

/-! ### Shape of the result list -/

def stdDefinecolor (pre : Str) : Template :=
  [.lit (definecolorHead ++ pre), .hole .index, .lit definecolorMid, .hole .html, .lit ['}']]

def stdComment (names : List Str) : Template := [.lit ['%', ' '], .hole (.kw names)]

/-- The assembly order the generated `skeleton_shape` obligation pins down. -/
def stdSkeleton (pre : Str) (names : List Str) : List Skel :=
  [.defs, .perColor (stdDefinecolor pre), .line [.lit beginPicture], .perLayer (stdComment names),
   .line [.lit endPicture], .line []]

def colorDefLine (pre : Str) (p : Nat × Str) : Str :=
  definecolorHead ++ colorName pre p.1 ++ definecolorMid ++ p.2 ++ ['}']

def commentLine (name : Str) : Str := '%' :: ' ' :: name

def bodyBlocks (names : List Str) (pre : Str) (out : List RCall) : List Str :=
  (enumFrom 0 names).flatMap fun p => commentLine p.2 :: layerLines pre out p.1

theorem renderBlocks_std (pre : Str) (names : List Str) (defs : Str) (calls : List Call) :
    renderBlocks (stdSkeleton pre names) names pre defs calls =
      [defs] ++ (enumFrom 0 (resolveCalls [] calls).1).map (colorDefLine pre) ++ [beginPicture]
        ++ bodyBlocks names pre (resolveCalls [] calls).2 ++ [endPicture, []] := by
  simp [renderBlocks, stdSkeleton, skelBlocks, stdDefinecolor, stdComment, Template.instantiate,
    colorDefLine, colorName, bodyBlocks, commentLine, List.append_assoc]

theorem mem_bodyBlocks (names : List Str) (pre : Str) (out : List RCall) (b : Str)
    (h : b ∈ bodyBlocks names pre out) :
    (∃ name ∈ names, b = commentLine name) ∨ (∃ c ∈ out, b = c.text pre) := by
  simp only [bodyBlocks, List.mem_flatMap] at h
  obtain ⟨p, hp, hb⟩ := h
  rcases List.mem_cons.1 hb with e | e
  · left
    refine ⟨p.2, ?_, e⟩
    have : ∀ (k : Nat) (l : List Str) (q : Nat × Str), q ∈ enumFrom k l → q.2 ∈ l := by
      intro k l
      induction l generalizing k with
      | nil => intro q hq; cases hq
      | cons x xs ih =>
        intro q hq
        rcases List.mem_cons.1 hq with e' | e'
        · subst e'; simp
        · exact List.mem_cons_of_mem _ (ih _ q e')
    exact this 0 names p hp
  · right
    simp only [layerLines, List.mem_map, List.mem_filter] at e
    obtain ⟨c, hc, rfl⟩ := e
    exact ⟨c, hc.1, rfl⟩

theorem getLast?_cons_of_ne_nil {α : Type} (a : α) (l : List α) (h : l ≠ []) :
    (a :: l).getLast? = l.getLast? := by
  cases l with
  | nil => exact absurd rfl h
  | cons b r => simp [List.getLast?_cons_cons]

/-- A terminated template ends in `;` whatever fills its holes. -/
theorem instantiate_getLast (t : Template) (fills : List Str) (h : t.terminated = true) :
    (t.instantiate fills).getLast? = some ';' := by
  induction t generalizing fills with
  | nil => simp [Template.terminated] at h
  | cons p r ih =>
    by_cases hr : r = []
    · subst hr
      cases p with
      | lit s =>
        simp only [Template.terminated, List.getLast?_singleton, beq_iff_eq] at h
        simpa [Template.instantiate] using h
      | hole k => simp [Template.terminated] at h
    · have hterm : Template.terminated r = true := by
        simp only [Template.terminated] at h ⊢
        rwa [getLast?_cons_of_ne_nil p r hr] at h
      cases p with
      | lit s =>
        simp [Template.instantiate, List.getLast?_append, ih fills hterm]
      | hole k =>
        cases fills with
        | nil => simpa [Template.instantiate] using ih [] hterm
        | cons f fs =>
          simp [Template.instantiate, List.getLast?_append, ih fs hterm]

theorem isPrefixOf_append (pre s t : Str) (h : isPrefixOf pre s = true) :
    isPrefixOf pre (s ++ t) = true := by
  induction pre generalizing s with
  | nil => simp [isPrefixOf]
  | cons a p ih =>
    cases s with
    | nil => simp [isPrefixOf] at h
    | cons b r =>
      simp only [isPrefixOf, Bool.and_eq_true] at h
      simp only [List.cons_append, isPrefixOf, Bool.and_eq_true]
      exact ⟨h.1, ih r h.2⟩

theorem instantiate_startsWith (t : Template) (pre : Str) (fills : List Str)
    (h : t.startsWith pre = true) : isPrefixOf pre (t.instantiate fills) = true := by
  cases t with
  | nil => simp [Template.startsWith] at h
  | cons p r =>
    cases p with
    | lit s => exact isPrefixOf_append _ _ _ (by simpa [Template.startsWith] using h)
    | hole k => simp [Template.startsWith] at h

/-! ### Admissible drawing calls -/

/-- A requested filling fits a hole: colours go to colour holes, everything else is text of the
    hole's filling space. -/
def reqOK : HoleKind → Fill → Bool
  | .color, .color h => h.all isAlnum
  | .color, .text _ => false
  | _, .color _ => false
  | k, .text s => fillOK k s

def reqsOK : List HoleKind → List Fill → Bool
  | [], [] => true
  | k :: ks, f :: fs => reqOK k f && reqsOK ks fs
  | _, _ => false

theorem isAlnum_of_isDigit (c : Char) (h : c.isDigit = true) : isAlnum c = true := by
  simp only [Char.isDigit, Bool.and_eq_true, decide_eq_true_eq] at h
  simp only [isAlnum, isDigit, Bool.or_eq_true, Bool.and_eq_true, decide_eq_true_eq]
  left; left
  exact ⟨by simpa [Char.le_def, UInt32.le_iff_toNat_le] using h.1,
    by simpa [Char.le_def, UInt32.le_iff_toNat_le] using h.2⟩

theorem natStr_alnum (n : Nat) : (natStr n).all isAlnum = true := by
  simp only [natStr, Nat.repr, String.toList_ofList, List.all_eq_true]
  intro c hc
  exact isAlnum_of_isDigit c (Nat.isDigit_of_mem_toDigits (by decide) (by decide) hc)

theorem fillsOK_resolved (tbl : List Str) (pre : Str) (hpre : pre.all isAlnum = true)
    {fs : List Fill} {os : List RFill} (h : All₂ (FillRes tbl) fs os) (ks : List HoleKind)
    (hk : reqsOK ks fs = true) : fillsOK ks (os.map (RFill.str pre)) = true := by
  induction h generalizing ks with
  | nil => cases ks <;> simp_all [reqsOK, fillsOK]
  | @cons f o _ _ hfo _ ih =>
    cases ks with
    | nil => simp [reqsOK] at hk
    | cons k ks =>
      simp only [reqsOK, Bool.and_eq_true] at hk
      simp only [List.map_cons, fillsOK, Bool.and_eq_true]
      refine ⟨?_, ih ks hk.2⟩
      cases f with
      | text s =>
        cases o with
        | text s' =>
          simp only [FillRes] at hfo
          subst hfo
          cases k <;> simp_all [reqOK, RFill.str]
        | color i => simp [FillRes] at hfo
      | color hh =>
        cases o with
        | text s' => simp [FillRes] at hfo
        | color i =>
          cases k with
          | color =>
            simp only [fillOK, RFill.str, colorName, List.all_append, Bool.and_eq_true]
            exact ⟨hpre, natStr_alnum i⟩
          | _ => simp [reqOK] at hk

theorem resolveFills_table_mem (cs : List Str) (fs : List Fill) :
    ∀ h ∈ (resolveFills cs fs).1, h ∈ cs ∨ Fill.color h ∈ fs := by
  induction fs generalizing cs with
  | nil => intro h hh; exact Or.inl hh
  | cons f r ih =>
    intro h hh
    cases f with
    | text s =>
      simp only [resolveFills] at hh
      rcases ih cs h hh with h1 | h1
      · exact Or.inl h1
      · exact Or.inr (List.mem_cons_of_mem _ h1)
    | color x =>
      simp only [resolveFills] at hh
      rcases ih _ h hh with h1 | h1
      · simp only [intern] at h1
        split at h1
        · exact Or.inl h1
        · rcases List.mem_append.1 h1 with h2 | h2
          · exact Or.inl h2
          · simp only [List.mem_singleton] at h2
            subst h2
            exact Or.inr (by simp)
      · exact Or.inr (List.mem_cons_of_mem _ h1)

theorem resolveCalls_table_mem (cs : List Str) (calls : List Call) :
    ∀ h ∈ (resolveCalls cs calls).1, h ∈ cs ∨ ∃ c ∈ calls, Fill.color h ∈ c.fills := by
  induction calls generalizing cs with
  | nil => intro h hh; exact Or.inl hh
  | cons c r ih =>
    intro h hh
    simp only [resolveCalls] at hh
    rcases ih _ h hh with h1 | ⟨c', hc', h1⟩
    · rcases resolveFills_table_mem cs c.fills h h1 with h2 | h2
      · exact Or.inl h2
      · exact Or.inr ⟨c, by simp, h2⟩
    · exact Or.inr ⟨c', List.mem_cons_of_mem _ hc', h1⟩

theorem reqsOK_color_alnum (ks : List HoleKind) (fs : List Fill) (h : reqsOK ks fs = true) :
    ∀ x, Fill.color x ∈ fs → x.all isAlnum = true := by
  induction fs generalizing ks with
  | nil => intro x hx; cases hx
  | cons f r ih =>
    cases ks with
    | nil => simp [reqsOK] at h
    | cons k ks =>
      simp only [reqsOK, Bool.and_eq_true] at h
      intro x hx
      rcases List.mem_cons.1 hx with e | e
      · subst e
        cases k <;> simp_all [reqOK]
      · exact ih ks h.2 x e

end SR.Tikz
