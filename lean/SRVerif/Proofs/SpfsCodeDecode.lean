/-
  `_decode_spfs_table` of the code-structured model (following the tags of the table)
  against the decoded solutions stored in the cells of the label DP:

  * `decode_rel`   for every object subtree, species `s` and mask `m`, the outputs decoded
      from `table[obj][s][m]` are exactly the `ordSol order ls` for the solutions `ls` of
      the DP cell `(s, m)` — and there are none when the DP has no such cell.
-/
import SRVerif.Proofs.SpfsCodeTable

namespace SR.SpfsCode

open Cost Path SubseqSpec

variable (c : Costs) (S : RTree) (base : Bool) (order : List Nat)

theorem mem_decode_node (cells : List TCell) (l r : Tab) (s : Path) (m : Nat) (sol : Sol) :
    sol ∈ decodeTable order (.node cells l r) s m ↔
      ∃ info ∈ Cell.infos (lookup cells s m),
        ∃ ml ∈ decodeTable order l info.1.1 info.1.2,
          ∃ mr ∈ decodeTable order r info.2.1 info.2.2,
            sol = .node s ((subseqFromMask m order).getD []) ml mr := by
  simp only [decodeTable, List.mem_flatMap, List.mem_map]
  constructor
  · rintro ⟨info, hi, ml, hl, mr, hr, rfl⟩; exact ⟨info, hi, ml, hl, mr, hr, rfl⟩
  · rintro ⟨info, hi, ml, hl, mr, hr, rfl⟩; exact ⟨info, hi, ml, hl, mr, hr, rfl⟩

theorem mem_decode_computeTable_node (isRoot : Bool) (l r : OTree) (s : Path) (m : Nat) (sol : Sol) :
    sol ∈ decodeTable order (computeTable c S base .all order isRoot (.node l r)) s m ↔
      ∃ info ∈ Cell.infos (lookup (computeTable c S base .all order isRoot (.node l r)).cells s m),
        ∃ ml ∈ decodeTable order (computeTable c S base .all order false l) info.1.1 info.1.2,
          ∃ mr ∈ decodeTable order (computeTable c S base .all order false r) info.2.1 info.2.2,
            sol = .node s ((subseqFromMask m order).getD []) ml mr := by
  rw [computeTable_node]
  exact mem_decode_node order _ _ _ s m sol

/-- **Decoding.**  The outputs decoded from `table[obj][s][m]` are the `ordSol` images of the
    solutions of the DP cell with that key (none if there is no such cell). -/
theorem decode_rel (o : OTree) (hS : ∀ p ∈ leafSpecies o, S.isNode p = true)
    (hlv : LeavesOk order o) : ∀ (isRoot : Bool) (s : Path) (m : Nat) (sol : Sol),
    sol ∈ decodeTable order (computeTable c S base .all order isRoot o) s m ↔
      ∃ d ∈ dpTable (ordAlg c) c S true (annOrd S base order isRoot o),
        d.sp = s ∧ d.lab = m ∧ ∃ ls ∈ d.sols, ordSol order ls = sol := by
  induction o with
  | leaf sp f =>
    intro isRoot s m sol
    have hcells : computeTable c S base .all order isRoot (.leaf sp f) =
        .leaf [⟨sp, maskFromSubseq f order,
          { value := .fin 0, infos := [], merge := .min, retain := .all }⟩] := by
      simp only [computeTable, leafCell]
    rw [hcells]
    simp only [annOrd, mem_dpTable_leaf, exists_eq_left, ordAlg, if_true, List.mem_singleton,
      ordSol, decodeTable, lookup, List.find?_cons, List.find?_nil]
    by_cases hk : sp = s ∧ maskFromSubseq f order = m
    · obtain ⟨rfl, rfl⟩ := hk
      simp [Cell.value, ExtInt.isInfinite, eq_comm]
    · have : (sp == s && maskFromSubseq f order == m) = false := by
        simp only [Bool.and_eq_false_iff, beq_eq_false_iff_ne, ne_eq]
        by_cases h1 : sp = s
        · right; intro h2; exact hk ⟨h1, h2⟩
        · left; exact h1
      simp only [this, Option.map_none, Cell.value, if_true, ExtInt.isInfinite]
      constructor
      · intro h; simp at h
      · rintro ⟨h1, h2, _⟩; exact absurd ⟨h1, h2⟩ hk
  | node l r ihl ihr =>
    intro isRoot s m sol
    have hSl : ∀ p ∈ leafSpecies l, S.isNode p = true := fun p hp => hS p (by simp [leafSpecies, hp])
    have hSr : ∀ p ∈ leafSpecies r, S.isNode p = true := fun p hp => hS p (by simp [leafSpecies, hp])
    have hL := table_rel c S base order l hSl hlv.1 true false
    have hR := table_rel c S base order r hSr hlv.2 true false
    have hrel := computeEntry_rel c S (nodeAnn S base order isRoot l r)
      (annOrd S base order false l).data (annOrd S base order false r).data s m hL hR
    rw [mem_decode_computeTable_node, annOrd_node, lookup_node]
    constructor
    · rintro ⟨info, hinfo, ml, hml, mr, hmr, rfl⟩
      by_cases hk : s ∈ allowedSpecies S base (.node l r) ∧ m ∈ allowedSyntenies order isRoot
      · rw [if_pos hk] at hinfo
        cases hce : computeEntry c S .all s m (computeTable c S base .all order false l).cells
            (computeTable c S base .all order false r).cells with
        | none => rw [hce] at hinfo; simp [Cell.infos] at hinfo
        | some e =>
          rw [hce] at hinfo
          simp only [Cell.infos] at hinfo
          have hfin : best (ordAlg c) c S (nodeAnn S base order isRoot l r) s m
              (annOrd S base order false l).data (annOrd S base order false r).data
              (dpTable (ordAlg c) c S true (annOrd S base order false l))
              (dpTable (ordAlg c) c S true (annOrd S base order false r)) ≠ .inf := by
            intro e'; rw [hrel.1.mpr e'] at hce; cases hce
          have hcand := ((hrel.2 e hce).2 info).mp hinfo
          cases hd : entry (ordAlg c) c S true (nodeAnn S base order isRoot l r) s m
              (annOrd S base order false l).data (annOrd S base order false r).data
              (dpTable (ordAlg c) c S true (annOrd S base order false l))
              (dpTable (ordAlg c) c S true (annOrd S base order false r)) with
          | none => exact absurd ((entry_eq_none _ _ _ _ _ _ _ _ _ _).mp hd) hfin
          | some d =>
            have p := entry_eq_some _ _ _ _ _ _ _ _ _ _ hd
            obtain ⟨dl, hdl, hdl1, hdl2, x, hx, rfl⟩ := (ihl hSl hlv.1 false _ _ ml).mp hml
            obtain ⟨dr, hdr, hdr1, hdr2, y, hy, rfl⟩ := (ihr hSr hlv.2 false _ _ mr).mp hmr
            obtain ⟨cl, hcl⟩ := findCell_of_mem hdl
            obtain ⟨cr, hcr⟩ := findCell_of_mem hdr
            have ecl : cl = dl := cellTag_inj _ _ _ _ _ (findCell_some hcl).1 hdl (findCell_some hcl).2
            have ecr : cr = dr := cellTag_inj _ _ _ _ _ (findCell_some hcr).1 hdr (findCell_some hcr).2
            subst ecl ecr
            have et0 : cellTag cl = info.1 := by simp [cellTag, hdl1, hdl2]
            have et1 : cellTag cr = info.2 := by simp [cellTag, hdr1, hdr2]
            refine ⟨d, mem_dpTable_node.mpr ⟨s, (mem_allowed c S base order isRoot l r _).mp hk.1, m,
              by rw [← syntenies_eq c S base order isRoot l r]; exact hk.2, hd⟩, p.1, p.2.1,
              .node s m x y, ?_, rfl⟩
            refine (p.2.2.2.2.1 rfl _).mpr ⟨info.1, info.2, cl, cr, x, y, hcand, ?_, ?_, hx, hy, rfl⟩
            · rw [← et0]; exact hcl
            · rw [← et1]; exact hcr
      · rw [if_neg hk] at hinfo; simp [Cell.infos] at hinfo
    · rintro ⟨d, hd, rfl, rfl, ls, hls, rfl⟩
      obtain ⟨s, hs, m, hm, he⟩ := mem_dpTable_node.mp hd
      have p := entry_eq_some _ _ _ _ _ _ _ _ _ _ he
      obtain ⟨t0, t1, cl, cr, x, y, hcand, hcl, hcr, hx, hy, rfl⟩ := (p.2.2.2.2.1 rfl ls).mp hls
      have hrel' := computeEntry_rel c S (nodeAnn S base order isRoot l r)
        (annOrd S base order false l).data (annOrd S base order false r).data s m hL hR
      have hk : d.sp ∈ allowedSpecies S base (.node l r) ∧ d.lab ∈ allowedSyntenies order isRoot := by
        rw [p.1, p.2.1]
        exact ⟨(mem_allowed c S base order isRoot l r _).mpr hs,
          by rw [syntenies_eq c S base order isRoot l r]; exact hm⟩
      rw [if_pos hk, p.1, p.2.1]
      cases hce : computeEntry c S .all s m (computeTable c S base .all order false l).cells
          (computeTable c S base .all order false r).cells with
      | none => exact absurd (hrel'.1.mp hce) p.2.2.2.1
      | some e =>
        have hinfo : (t0, t1) ∈ e.infos := ((hrel'.2 e hce).2 (t0, t1)).mpr hcand
        have h0 := findCell_some hcl
        have h1 := findCell_some hcr
        refine ⟨(t0, t1), hinfo, ordSol order x, ?_, ordSol order y, ?_, ?_⟩
        · exact (ihl hSl hlv.1 false _ _ _).mpr
            ⟨cl, h0.1, (cellTag_eq.mp h0.2).1, (cellTag_eq.mp h0.2).2, x, hx, rfl⟩
        · exact (ihr hSr hlv.2 false _ _ _).mpr
            ⟨cr, h1.1, (cellTag_eq.mp h1.2).1, (cellTag_eq.mp h1.2).2, y, hy, rfl⟩
        · simp [ordSol]

end SR.SpfsCode
