/-
  C10 (unordered ≤ ordered): the set labelling induced by a sequence-labelled solution.

  `setSol whole p σ` keeps the species of `σ` and replaces every sequence label by the
  sorted SET of its families, pruned at an internal node at object path `p` to the families
  whose gain node is an ancestor-or-self of `p` (`Spec.allowedContent whole p`); a leaf
  keeps all its families (they are all allowed there).

  `setSol_main` — by induction on the object tree, for every solution `σ` of the ORDERED
  oracle's solution space (`Spec.Feasible … (.ordered order)`, duplicate-free root order)
  with finite oracle cost:
    * `setSol σ` lies in the UNORDERED oracle's solution space (`Spec.Feasible … .unordered`:
      each pruned set is between the required and the allowed content, because the families
      of the leaves below a node propagate up through the subsequence edges);
    * its unordered oracle cost is at most the ordered oracle cost of `σ`: same events, every
      edge labelling stays admissible (a family of the child is a family of the parent; if it
      is not allowed at the parent it is gained at the child), and node by node the unordered
      charge is at most the ordered one (`localLoss_le`: a family of the pruned parent set
      missing from the pruned child set is missing from the child's sequence, which costs at
      least one lost run on a side whose end runs are counted);
    * every family of a leaf below the node occurs in the node's sequence.
-/
import SRVerif.Proofs.UnLeOrdDist
import SRVerif.Proofs.UnContentFeasible
import SRVerif.Proofs.OptAdequacyOrd

namespace SR

open Path Cost Spec

/-- The set of families of a sequence label, pruned to the allowed content, sorted. -/
def setLabel (whole : OTree) (p : Path) (f : List Nat) : List Nat :=
  sortNat ((dedup f).filter fun x => (allowedContent whole p).contains x)

/-- The set labelling induced by a sequence labelling (same species mapping). -/
def setSol (whole : OTree) : Path → Sol → Sol
  | _, .leaf s g => .leaf s (sortNat (dedup g))
  | p, .node s f l r =>
    .node s (setLabel whole p f) (setSol whole (p ++ [0]) l) (setSol whole (p ++ [1]) r)

@[simp] theorem setSol_sp (whole : OTree) (p : Path) (σ : Sol) : (setSol whole p σ).sp = σ.sp := by
  cases σ <;> rfl

theorem mem_setLabel {whole : OTree} {p : Path} {f : List Nat} {x : Nat} :
    x ∈ setLabel whole p f ↔ x ∈ f ∧ x ∈ allowedContent whole p := by
  simp [setLabel, mem_sortNat, List.mem_filter, mem_dedup]

theorem setLabel_sorted (whole : OTree) (p : Path) (f : List Nat) :
    (setLabel whole p f).Pairwise (· < ·) :=
  sortNat_sorted ((nodup_dedup f).filter _)

/-- The families of the induced set label: those of the sequence label that are allowed. -/
theorem mem_setSol_fam {S : RTree} {base : Bool} {order : List Nat} {whole : OTree} {sub : OTree}
    {p : Path} {σ : Sol} (hsub : IsSub whole p sub)
    (hf : Feasible S (.ordered order) base whole p sub σ) (x : Nat) :
    x ∈ (setSol whole p σ).fam ↔ x ∈ σ.fam ∧ x ∈ allowedContent whole p := by
  cases sub with
  | leaf sp f0 =>
    cases σ with
    | node => simp [Feasible] at hf
    | leaf s g =>
      simp only [Feasible, leafLabel] at hf
      obtain ⟨rfl, rfl⟩ := hf
      simp only [setSol, Sol.fam, mem_sortNat, mem_dedup]
      constructor
      · intro hx
        refine ⟨hx, ?_⟩
        have hm := ((below_leaf hsub p g).mpr ⟨rfl, rfl⟩).1
        obtain ⟨h1, h2⟩ := family_of_leaf hm hx
        exact mem_allowedContent.mpr ⟨h1, h2⟩
      · exact fun h => h.1
  | node l r =>
    cases σ with
    | leaf => simp [Feasible] at hf
    | node s f a b => exact mem_setLabel

theorem exists_of_subsetB_false {a b : List Nat} (h : subsetB a b = false) : ∃ x ∈ a, x ∉ b := by
  apply Classical.byContradiction
  intro hn
  have : subsetB a b = true := by
    simp only [subsetB, List.all_eq_true, List.contains_iff_mem]
    intro x hx
    apply Classical.byContradiction
    intro hxb
    exact hn ⟨x, hx, hxb⟩
  rw [this] at h
  cases h

theorem localCost_ordered_fin {c : Costs} {order : List Nat} {whole : OTree} {p s : Path}
    {f : List Nat} {a : Path} {fa : List Nat} {b : Path} {fb : List Nat}
    (h : localCost c (.ordered order) whole p s f a fa b fb ≠ .inf) :
    ∃ k0, localOrdLosses (internalEvent s a b) (comparable s a) (maskFromSubseq f order)
        (maskFromSubseq fa order) (maskFromSubseq fb order) = some k0 ∧
      localCost c (.ordered order) whole p s f a fa b fb =
        localRecCost c s a b + .fin (k0 * c.sloss) := by
  unfold localCost at h ⊢
  split at h
  · exact absurd rfl h
  · rename_i he
    rw [if_neg he]
    cases hk : localOrdLosses (internalEvent s a b) (comparable s a) (maskFromSubseq f order)
        (maskFromSubseq fa order) (maskFromSubseq fb order) with
    | none => simp [hk] at h
    | some k0 =>
      refine ⟨k0, rfl, ?_⟩
      simp only [hk]

/-- An edge of the induced set labelling is admissible. -/
theorem edgeOk_set {whole : OTree} {p : Path} {i : Nat} {f fa f' fa' : List Nat}
    (hsub : fa.Sublist f)
    (hm : ∀ z, z ∈ f' ↔ z ∈ f ∧ z ∈ allowedContent whole p)
    (hma : ∀ z, z ∈ fa' ↔ z ∈ fa ∧ z ∈ allowedContent whole (p ++ [i])) :
    edgeOk .unordered whole (p ++ [i]) f' fa' = true := by
  simp only [edgeOk, List.all_eq_true, Bool.or_eq_true, List.contains_iff_mem]
  intro z hz
  obtain ⟨hza, hzall⟩ := (hma z).mp hz
  obtain ⟨hfam, hanc⟩ := mem_allowedContent.mp hzall
  rcases isAnc_snoc_cases hanc with e | e
  · exact Or.inr (mem_gainsAt.mpr ⟨hfam, e⟩)
  · exact Or.inl ((hm z).mpr ⟨hsub.subset hza, mem_allowedContent.mpr ⟨hfam, e⟩⟩)

/-- **One node**: the unordered local cost of the induced set labels is at most the
    ordered local cost. -/
theorem localCost_set_le (c : Costs) {order : List Nat} (hnd : order.Nodup) {whole : OTree}
    {p s : Path} {f : List Nat} {a : Path} {fa : List Nat} {b : Path} {fb : List Nat}
    {f' fa' fb' : List Nat} (hford : f.Sublist order)
    (hm : ∀ z, z ∈ f' ↔ z ∈ f ∧ z ∈ allowedContent whole p)
    (hma : ∀ z, z ∈ fa' ↔ z ∈ fa ∧ z ∈ allowedContent whole (p ++ [0]))
    (hmb : ∀ z, z ∈ fb' ↔ z ∈ fb ∧ z ∈ allowedContent whole (p ++ [1]))
    (h : localCost c (.ordered order) whole p s f a fa b fb ≠ .inf) :
    localCost c .unordered whole p s f' a fa' b fb' ≼
      localCost c (.ordered order) whole p s f a fa b fb := by
  obtain ⟨hsa, hsb, _⟩ := localCost_ordered_ne_inf h
  have hsa' := (isSublist_iff _ _).mp hsa
  have hsb' := (isSublist_iff _ _).mp hsb
  obtain ⟨k, hk, hcost⟩ := localCost_ordered_fin h
  have key : ∀ (i : Nat) (fc fc' : List Nat), fc.Sublist f →
      (∀ z, z ∈ fc' ↔ z ∈ fc ∧ z ∈ allowedContent whole (p ++ [i])) →
      subsetB f' fc' = false →
      1 ≤ subseqSegmentDist (maskFromSubseq fc order) (maskFromSubseq f order) true := by
    intro i fc fc' hs hmc hb
    obtain ⟨z, hz, hzc⟩ := exists_of_subsetB_false hb
    obtain ⟨hzf, hzall⟩ := (hm z).mp hz
    have hzfc : z ∉ fc := fun hc => hzc ((hmc z).mpr ⟨hc, allowed_mono i hzall⟩)
    exact dist_true_pos hnd hford hs hzf hzfc
  obtain ⟨k', hk', hle⟩ := localLoss_le (f := f') (fl := fa') (fr := fb')
    (key 0 fa fa' hsa' hma) (key 1 fb fb' hsb' hmb) hk
  rw [hcost]
  unfold localCost
  rw [edgeOk_set hsa' hm hma, edgeOk_set hsb' hm hmb]
  simp only [Bool.and_self, Bool.not_true, Bool.false_eq_true, if_false, hk']
  exact add_le_add (le_refl _) ((fin_le_fin _ _).mpr (Nat.mul_le_mul_right _ hle))

/-- **The induced set labelling is feasible and no dearer** (see the file header). -/
theorem setSol_main (c : Costs) (S : RTree) (base : Bool) (whole : OTree) (order : List Nat)
    (hnd : order.Nodup) :
    ∀ (sub : OTree) (p : Path) (σ : Sol), IsSub whole p sub → σ.fam.Sublist order →
      Feasible S (.ordered order) base whole p sub σ →
      specCost c (.ordered order) whole p σ ≠ .inf →
      Feasible S .unordered base whole p sub (setSol whole p σ) ∧
      specCost c .unordered whole p (setSol whole p σ) ≼ specCost c (.ordered order) whole p σ ∧
      (∀ q g z, (q, g) ∈ leafPaths whole → isAnc p q = true → z ∈ g → z ∈ σ.fam) := by
  intro sub
  induction sub with
  | leaf sp f0 =>
    intro p σ hsub _ hf _
    cases σ with
    | node => simp [Feasible] at hf
    | leaf s g =>
      simp only [Feasible, leafLabel] at hf
      obtain ⟨rfl, rfl⟩ := hf
      refine ⟨⟨rfl, rfl⟩, le_refl _, ?_⟩
      intro q f z hm ha hz
      obtain ⟨_, rfl⟩ := (below_leaf hsub q f).mp ⟨hm, ha⟩
      exact hz
  | node l r ihl ihr =>
    intro p σ hsub hord hf hfin
    cases σ with
    | leaf => simp [Feasible] at hf
    | node s f x y =>
      have hfx := hf
      simp only [Feasible] at hf
      obtain ⟨hs, _, hfl, hfr⟩ := hf
      simp only [specCost] at hfin
      obtain ⟨hloc, hfin'⟩ := add_ne_inf hfin
      obtain ⟨hfinl, hfinr⟩ := add_ne_inf hfin'
      obtain ⟨hsl, hsr, _⟩ := localCost_ordered_ne_inf hloc
      have hsl' := (isSublist_iff _ _).mp hsl
      have hsr' := (isSublist_iff _ _).mp hsr
      obtain ⟨hsubl, hsubr⟩ := isSub_child hsub
      simp only [Sol.fam] at hord
      obtain ⟨fl, cl, ll⟩ := ihl (p ++ [0]) x hsubl (hsl'.trans hord) hfl hfinl
      obtain ⟨fr, cr, lr⟩ := ihr (p ++ [1]) y hsubr (hsr'.trans hord) hfr hfinr
      have hleaf : ∀ q g z, (q, g) ∈ leafPaths whole → isAnc p q = true → z ∈ g → z ∈ f := by
        intro q g z hm ha hz
        rcases below_child hsub hm ha with h0 | h1
        · exact hsl'.subset (ll q g z hm h0 hz)
        · exact hsr'.subset (lr q g z hm h1 hz)
      refine ⟨?_, ?_, hleaf⟩
      · simp only [setSol, Feasible]
        refine ⟨hs, mem_labelSpace_of_between (setLabel_sorted whole p f) ?_ ?_, fl, fr⟩
        · intro z hz
          refine mem_setLabel.mpr ⟨?_, required_sub_allowed hz⟩
          obtain ⟨_, _, q, g, hm, ha, hzg⟩ := mem_requiredContent.mp hz
          exact hleaf q g z hm ha hzg
        · intro z hz
          exact (mem_setLabel.mp hz).2
      · simp only [setSol, specCost, setSol_sp]
        exact add_le_add
          (localCost_set_le c hnd hord (fun _ => mem_setLabel) (mem_setSol_fam hsubl hfl)
            (mem_setSol_fam hsubr hfr) hloc)
          (add_le_add cl cr)

end SR
