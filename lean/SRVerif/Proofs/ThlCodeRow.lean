/-
  One species `s` at one internal object node: the cell the code writes
  (`trySpeciation` then `tryDuplicationTransfer`) against the label DP's
  `entry thlAlg … s ()`, given that the rows of the two child nodes agree with the
  child tables (`ChildRel`).

  * `role_agree`   each aggregate entry of the code (min_ltl, …) agrees with the
                   role aggregate of the label DP (left, right, conserved =
                   segment, separate);
  * `row_cell`     the written cell is absent iff `entry` is `none`; otherwise it
                   holds the entry's cost and exactly its tag pairs.
-/
import SRVerif.Proofs.ThlCodeCell
import SRVerif.Proofs.LabelDPRoles
import SRVerif.Proofs.LabelDPLocal

namespace SR

open Path Cost

namespace ThlCode

/-- The row `fl` (value per species, `inf` when absent) of a child node agrees
    with the child's label-DP table `L`. -/
def ChildRel (S : RTree) (L : List (DCell Unit)) (fl : Path → Cost) : Prop :=
  (∀ d ∈ L, fl d.sp = d.cost ∧ S.isNode d.sp = true) ∧ (∀ x, fl x ≠ .inf → ∃ d ∈ L, d.sp = x)

/-- The species offered to a role of `s` by the code. -/
def roleList (S : RTree) (s : Path) : RoleId → List Path
  | .left => S.traverseAt (s ++ [0])
  | .right => S.traverseAt (s ++ [1])
  | .cons => belowOf S s
  | .seg => belowOf S s
  | .sep => sepOf S s

/-- The value with which the code offers the child placed at `x` to a role of `s`. -/
def roleW (c : Costs) (s : Path) (fl : Path → Cost) : RoleId → Path → Cost
  | .left => fun x => fl x + .fin (c.floss * (dist s x - 1))
  | .right => fun x => fl x + .fin (c.floss * (dist s x - 1))
  | .cons => fun x => fl x + .fin (c.floss * dist s x)
  | .seg => fun x => fl x + .fin (c.floss * dist s x)
  | .sep => fl

theorem roleVal_thl (c : Costs) (S : RTree) (a : List Path) (s : Path) (ca : List Path) (ρ : RoleId)
    (cell : DCell Unit) :
    roleVal thlAlg c S a s () ca ρ cell = rv c S s ρ cell.sp cell.cost (.fin 0) (.fin 0) := rfl

theorem mem_belowOf {S : RTree} {s x : Path} :
    x ∈ belowOf S s ↔ isAnc s x = true ∧ S.isNode x = true := by
  simp [belowOf, RTree.mem_levelorder, and_comm]

theorem mem_sepOf {S : RTree} {s x : Path} :
    x ∈ sepOf S s ↔ (isAnc s x = false ∧ isAnc x s = false) ∧ S.isNode x = true := by
  simp [sepOf, RTree.mem_levelorder, and_comm]

theorem isAnc_child_of {s x : Path} {i : Nat} (h : isAnc (s ++ [i]) x = true) : isAnc s x = true :=
  isAnc_trans (isAnc_append s [i]) h

theorem not_isAnc_child0_of_child1 {s x : Path} (h : isAnc (s ++ [1]) x = true) :
    isAnc (s ++ [0]) x = false := by
  obtain ⟨t, rfl⟩ := isAnc_iff_append.mp h
  rw [List.append_assoc, isAnc_append_append]
  simp [isAnc]

theorem dist_child_pos {s x : Path} {i : Nat} (h : isAnc (s ++ [i]) x = true) :
    ∃ k, dist s x = k + 1 := by
  obtain ⟨t, rfl⟩ := isAnc_iff_append.mp h
  rw [List.append_assoc, dist_append]
  exact ⟨t.length, by simp⟩

section roles

variable (c : Costs) (S : RTree) (a ca : List Path) (s : Path) (L : List (DCell Unit))
  (fl : Path → Cost)

/-- What the label DP offers to role `ρ` is what the code offers, restricted to
    the finite child cells. -/
theorem role_h (hrel : ChildRel S L fl) (ρ : RoleId)
    (hleaf : (ρ = .left ∨ ρ = .right) → S.isLeafAt s = false) :
    (∀ p ∈ roleCands thlAlg c S a s () ca ρ L,
      p.2.1 ∈ roleList S s ρ ∧ roleW c s fl ρ p.2.1 = p.1) ∧
    (∀ x ∈ roleList S s ρ, roleW c s fl ρ x ≠ .inf →
      (roleW c s fl ρ x, (x, ())) ∈ roleCands thlAlg c S a s () ca ρ L) := by
  obtain ⟨h1, h2⟩ := hrel
  constructor
  · intro p hp
    obtain ⟨cell, hc, hv, ht⟩ := mem_roleCands.mp hp
    obtain ⟨hcost, hnode⟩ := h1 cell hc
    rw [roleVal_thl] at hv
    have hsp : p.2.1 = cell.sp := by rw [← ht]; rfl
    rw [hsp]
    cases ρ with
    | left =>
      obtain ⟨ha, hveq⟩ := rv_left_some hv
      refine ⟨(RTree.mem_traverseAt S _ _).mpr ⟨ha, hnode⟩, ?_⟩
      simp only [roleW, hcost, hveq, add_zero]; exact add_comm _ _
    | right =>
      obtain ⟨ha, hveq⟩ := rv_right_some hv
      refine ⟨(RTree.mem_traverseAt S _ _).mpr ⟨ha, hnode⟩, ?_⟩
      simp only [roleW, hcost, hveq, add_zero]; exact add_comm _ _
    | cons =>
      obtain ⟨ha, hveq⟩ := rv_cons_some hv
      refine ⟨mem_belowOf.mpr ⟨ha, hnode⟩, ?_⟩
      simp only [roleW, hcost, hveq, add_zero]; exact add_comm _ _
    | seg =>
      obtain ⟨ha, hveq⟩ := rv_seg_some hv
      refine ⟨mem_belowOf.mpr ⟨ha, hnode⟩, ?_⟩
      simp only [roleW, hcost, hveq, add_zero]; exact add_comm _ _
    | sep =>
      obtain ⟨ha, ha', hveq⟩ := rv_sep_some hv
      refine ⟨mem_sepOf.mpr ⟨⟨ha, ha'⟩, hnode⟩, ?_⟩
      simp only [roleW, hcost, hveq, add_zero]
  · intro x hx hfin
    have hflx : fl x ≠ .inf := by
      cases ρ <;> simp only [roleW] at hfin
      · exact (add_ne_inf hfin).1
      · exact (add_ne_inf hfin).1
      · exact (add_ne_inf hfin).1
      · exact (add_ne_inf hfin).1
      · exact hfin
    obtain ⟨cell, hc, rfl⟩ := h2 x hflx
    obtain ⟨hcost, _⟩ := h1 cell hc
    refine mem_roleCands.mpr ⟨cell, hc, ?_, rfl⟩
    rw [roleVal_thl]
    cases ρ with
    | left =>
      obtain ⟨ha, _⟩ := (RTree.mem_traverseAt S _ _).mp hx
      rw [rv_left_of (isAnc_child_of ha) (hleaf (Or.inl rfl)) ha]
      simp only [roleW, hcost, add_zero]; rw [add_comm]
    | right =>
      obtain ⟨ha, _⟩ := (RTree.mem_traverseAt S _ _).mp hx
      rw [rv_right_of (isAnc_child_of ha) (hleaf (Or.inr rfl)) (not_isAnc_child0_of_child1 ha) ha]
      simp only [roleW, hcost, add_zero]; rw [add_comm]
    | cons =>
      obtain ⟨ha, _⟩ := mem_belowOf.mp hx
      rw [rv_cons_of ha]
      simp only [roleW, hcost, add_zero]; rw [add_comm]
    | seg =>
      obtain ⟨ha, _⟩ := mem_belowOf.mp hx
      rw [rv_seg_of ha]
      simp only [roleW, hcost, add_zero]; rw [add_comm]
    | sep =>
      obtain ⟨⟨ha, ha'⟩, _⟩ := mem_sepOf.mp hx
      rw [rv_sep_of ha ha']
      simp only [roleW, hcost, add_zero]

/-- **Role agreement**: the code's aggregate entry for role `ρ` of `s` and the
    label DP's role aggregate have the same value, and the same tags when finite. -/
theorem role_agree (hrel : ChildRel S L fl) (ρ : RoleId)
    (hleaf : (ρ = .left ∨ ρ = .right) → S.isLeafAt s = false) :
    let A := aggOf .all (roleList S s ρ) (fun x => (roleW c s fl ρ x).toExt)
    let G := (roles thlAlg c S a s () ca L).get ρ
    A.value = G.val.toExt ∧ (G.val ≠ .inf → ∀ x, x ∈ A.infos ↔ (x, ()) ∈ G.tags) := by
  intro A G
  have hG : G = Agg.ofList (roleCands thlAlg c S a s () ca ρ L) := roles_get ..
  obtain ⟨h1, h2⟩ := role_h c S a ca s L fl hrel ρ hleaf
  rw [hG]
  exact agg_agree _ _ _ h1 h2

/-- For unit labels the conserved and the segment aggregates coincide. -/
theorem roles_seg_eq_cons :
    (roles thlAlg c S a s () ca L).get .seg = (roles thlAlg c S a s () ca L).get .cons := by
  rw [roles_get, roles_get]
  congr 1

/-- At a leaf species nothing is offered to the roles `left` / `right`. -/
theorem roles_leaf (hleaf : S.isLeafAt s = true) (ρ : RoleId) (hρ : ρ = .left ∨ ρ = .right) :
    ((roles thlAlg c S a s () ca L).get ρ).tags = [] := by
  rw [roles_get]
  have : roleCands thlAlg c S a s () ca ρ L = [] := by
    unfold roleCands
    rw [List.filterMap_eq_nil_iff]
    intro cell _
    have hl : speciesIsLeaf S s = true := hleaf
    rcases hρ with rfl | rfl <;> simp [roleVal, rv, hl]
  rw [this]; rfl

end roles

/-! ### The code's aggregates, in terms of `roleList` / `roleW` -/

section batch

variable (c : Costs) (S : RTree) (s : Path) (fl fr : Path → Cost) (gl gr : Path → ExtInt)

theorem skip1_eq {x : Path} {i : Nat} (h : isAnc (s ++ [i]) x = true) :
    ExtInt.fin ((c.floss : Int) * ((dist s x : Int) - 1)) =
      (Cost.fin (c.floss * (dist s x - 1))).toExt := by
  obtain ⟨k, hk⟩ := dist_child_pos h
  rw [hk]
  simp

theorem skip_eq (x : Path) :
    ExtInt.fin ((c.floss : Int) * (dist s x : Int)) = (Cost.fin (c.floss * dist s x)).toExt := by
  simp

theorem agg_left (g : Path → ExtInt) (f : Path → Cost) (hg : ∀ x, g x = (f x).toExt) (i : Nat)
    (ρ : RoleId) (hρ : (ρ = .left ∧ i = 0) ∨ (ρ = .right ∧ i = 1)) :
    aggOf .all (S.traverseAt (s ++ [i]))
        (fun x => g x + ExtInt.fin ((c.floss : Int) * ((dist s x : Int) - 1))) =
      aggOf .all (roleList S s ρ) (fun x => (roleW c s f ρ x).toExt) := by
  have hl : roleList S s ρ = S.traverseAt (s ++ [i]) := by
    rcases hρ with ⟨rfl, rfl⟩ | ⟨rfl, rfl⟩ <;> rfl
  rw [hl]
  apply aggOf_congr
  intro x hx
  obtain ⟨ha, _⟩ := (RTree.mem_traverseAt S _ _).mp hx
  rw [skip1_eq c s ha, hg]
  rcases hρ with ⟨rfl, rfl⟩ | ⟨rfl, rfl⟩ <;> simp only [roleW, toExt_add]

theorem agg_below (g : Path → ExtInt) (f : Path → Cost) (hg : ∀ x, g x = (f x).toExt) :
    aggOf .all (belowOf S s) (fun x => g x + ExtInt.fin ((c.floss : Int) * (dist s x : Int))) =
      aggOf .all (roleList S s .cons) (fun x => (roleW c s f .cons x).toExt) := by
  apply aggOf_congr
  intro x _
  rw [skip_eq, hg]
  simp only [roleW, toExt_add]

theorem agg_sep (g : Path → ExtInt) (f : Path → Cost) (hg : ∀ x, g x = (f x).toExt) :
    aggOf .all (sepOf S s) g =
      aggOf .all (roleList S s .sep) (fun x => (roleW c s f .sep x).toExt) := by
  apply aggOf_congr
  intro x _
  rw [hg]; rfl

end batch

/-- The batches the code writes to the cell of species `s`. -/
def batches (r : Retain) (c : Costs) (S : RTree) (s : Path) (gl gr : Path → ExtInt) :
    List (List (Cand MappingInfo)) :=
  (if S.isLeafAt s then [] else [speBatch r c S s gl gr]) ++ [dtBatch r c S s gl gr]

/-- **The batches against the label DP's candidates**: every candidate carries a
    cost, and the finite ones are exactly the candidates of `entryCands`. -/
theorem batches_agree (c : Costs) (S : RTree) (a la ra : List Path) (s : Path)
    (L R : List (DCell Unit)) (fl fr : Path → Cost) (gl gr : Path → ExtInt)
    (hl : ChildRel S L fl) (hr : ChildRel S R fr)
    (hgl : ∀ x, gl x = (fl x).toExt) (hgr : ∀ x, gr x = (fr x).toExt) :
    (∀ cnd ∈ (batches .all c S s gl gr).flatten, ∃ V t, cnd = ⟨Cost.toExt V, some t⟩) ∧
    (∀ v : Cost, v ≠ .inf → ∀ x y,
      (⟨v.toExt, some ⟨x, y⟩⟩ : Cand MappingInfo) ∈ (batches .all c S s gl gr).flatten ↔
        (v, ((x, ()), (y, ()))) ∈ SR.cands thlAlg c S a s () la ra L R) := by
  -- the label DP's role aggregates
  let RL := roles thlAlg c S a s () la L
  let RR := roles thlAlg c S a s () ra R
  -- dup / transfer combinations
  have cL := role_agree c S a la s L fl hl .cons (by simp)
  have cR := role_agree c S a ra s R fr hr .cons (by simp)
  have sL := role_agree c S a la s L fl hl .sep (by simp)
  have sR := role_agree c S a ra s R fr hr .sep (by simp)
  have specL := aggOf_all_spec (roleList S s .cons) (roleW c s fl .cons)
  have specLs := aggOf_all_spec (roleList S s .sep) (roleW c s fl .sep)
  have dupA := comb_agree _ _ (RL.get .cons) (RR.get .cons) specL.2.2.1 specL.2.2.2
    cL.1 cL.2 cR.1 cR.2 (.fin c.dup)
  have hgtA1 := comb_agree _ _ (RL.get .sep) (RR.get .cons) specLs.2.2.1 specLs.2.2.2
    sL.1 sL.2 cR.1 cR.2 c.hgt
  have hgtA2 := comb_agree _ _ (RL.get .cons) (RR.get .sep) specL.2.2.1 specL.2.2.2
    cL.1 cL.2 sR.1 sR.2 c.hgt
  have hdt : dtBatch .all c S s gl gr =
      ThlCode.cands ((aggOf .all (roleList S s .cons) fun x => (roleW c s fl .cons x).toExt).combine
        (aggOf .all (roleList S s .cons) fun x => (roleW c s fr .cons x).toExt)
        (combinator (Cost.toExt (.fin c.dup)))) ++
      ThlCode.cands ((aggOf .all (roleList S s .sep) fun x => (roleW c s fl .sep x).toExt).combine
        (aggOf .all (roleList S s .cons) fun x => (roleW c s fr .cons x).toExt)
        (combinator c.hgt.toExt)) ++
      ThlCode.cands ((aggOf .all (roleList S s .cons) fun x => (roleW c s fl .cons x).toExt).combine
        (aggOf .all (roleList S s .sep) fun x => (roleW c s fr .sep x).toExt)
        (combinator c.hgt.toExt)) := by
    unfold dtBatch
    simp only [agg_below c S s gl fl hgl, agg_below c S s gr fr hgr, agg_sep c S s gl fl hgl,
      agg_sep c S s gr fr hgr, toExt_fin]
  have hcands : ∀ p, p ∈ SR.cands thlAlg c S a s () la ra L R ↔
      p ∈ Agg.comb (.fin c.spe) (RL.get .left) (RR.get .right) ∨
      p ∈ Agg.comb (.fin c.spe) (RL.get .right) (RR.get .left) ∨
      p ∈ Agg.comb (.fin c.dup) (RL.get .cons) (RR.get .cons) ∨
      p ∈ Agg.comb c.hgt (RL.get .cons) (RR.get .sep) ∨
      p ∈ Agg.comb c.hgt (RL.get .sep) (RR.get .cons) := by
    intro p
    have e1 : RL.get .seg = RL.get .cons := roles_seg_eq_cons ..
    have e2 : RR.get .seg = RR.get .cons := roles_seg_eq_cons ..
    simp only [SR.cands, entryCands, List.mem_append]
    change ((((_ ∈ Agg.comb _ (RL.get .left) (RR.get .right) ∨ _ ∈ Agg.comb _ (RL.get .right) (RR.get .left)) ∨
      _ ∈ Agg.comb _ (RL.get .cons) (RR.get .seg)) ∨ _ ∈ Agg.comb _ (RL.get .seg) (RR.get .cons)) ∨
      _ ∈ Agg.comb _ (RL.get .cons) (RR.get .sep)) ∨ _ ∈ Agg.comb _ (RL.get .sep) (RR.get .cons) ↔ _
    rw [e1, e2]
    grind
  by_cases hleaf : S.isLeafAt s = true
  · -- leaf species: no speciation batch, and the label DP's speciation combinations are empty
    have hb : (batches .all c S s gl gr).flatten = dtBatch .all c S s gl gr := by
      simp [batches, hleaf]
    have hl0 : (RL.get .left).tags = [] := roles_leaf c S a la s L hleaf .left (Or.inl rfl)
    have hl1 : (RL.get .right).tags = [] := roles_leaf c S a la s L hleaf .right (Or.inr rfl)
    have hs1 : Agg.comb (.fin c.spe) (RL.get .left) (RR.get .right) = [] := by simp [Agg.comb, hl0]
    have hs2 : Agg.comb (.fin c.spe) (RL.get .right) (RR.get .left) = [] := by simp [Agg.comb, hl1]
    rw [hb, hdt]
    constructor
    · intro cnd hc
      simp only [List.mem_append] at hc
      rcases hc with (hc | hc) | hc
      · exact dupA.1 cnd hc
      · exact hgtA1.1 cnd hc
      · exact hgtA2.1 cnd hc
    · intro v hv x y
      rw [hcands, hs1, hs2]
      simp only [List.mem_append, dupA.2 v hv x y, hgtA1.2 v hv x y, hgtA2.2 v hv x y]
      simp only [List.not_mem_nil, false_or]
      grind
  · have hleaf' : S.isLeafAt s = false := by simpa using hleaf
    have lL := role_agree c S a la s L fl hl .left (fun _ => hleaf')
    have lR := role_agree c S a ra s R fr hr .left (fun _ => hleaf')
    have rL := role_agree c S a la s L fl hl .right (fun _ => hleaf')
    have rR := role_agree c S a ra s R fr hr .right (fun _ => hleaf')
    have specLl := aggOf_all_spec (roleList S s .left) (roleW c s fl .left)
    have specLr := aggOf_all_spec (roleList S s .right) (roleW c s fl .right)
    have speA1 := comb_agree _ _ (RL.get .left) (RR.get .right) specLl.2.2.1 specLl.2.2.2
      lL.1 lL.2 rR.1 rR.2 (.fin c.spe)
    have speA2 := comb_agree _ _ (RL.get .right) (RR.get .left) specLr.2.2.1 specLr.2.2.2
      rL.1 rL.2 lR.1 lR.2 (.fin c.spe)
    have hspe : speBatch .all c S s gl gr =
        ThlCode.cands ((aggOf .all (roleList S s .left) fun x => (roleW c s fl .left x).toExt).combine
          (aggOf .all (roleList S s .right) fun x => (roleW c s fr .right x).toExt)
          (combinator (Cost.toExt (.fin c.spe)))) ++
        ThlCode.cands ((aggOf .all (roleList S s .right) fun x => (roleW c s fl .right x).toExt).combine
          (aggOf .all (roleList S s .left) fun x => (roleW c s fr .left x).toExt)
          (combinator (Cost.toExt (.fin c.spe)))) := by
      unfold speBatch
      simp only [agg_left c S s gl fl hgl 0 .left (Or.inl ⟨rfl, rfl⟩),
        agg_left c S s gr fr hgr 1 .right (Or.inr ⟨rfl, rfl⟩),
        agg_left c S s gl fl hgl 1 .right (Or.inr ⟨rfl, rfl⟩),
        agg_left c S s gr fr hgr 0 .left (Or.inl ⟨rfl, rfl⟩), toExt_fin]
    have hb : (batches .all c S s gl gr).flatten = speBatch .all c S s gl gr ++ dtBatch .all c S s gl gr := by
      simp [batches, hleaf']
    rw [hb, hspe, hdt]
    constructor
    · intro cnd hc
      simp only [List.mem_append] at hc
      rcases hc with (hc | hc) | (hc | hc) | hc
      · exact speA1.1 cnd hc
      · exact speA2.1 cnd hc
      · exact dupA.1 cnd hc
      · exact hgtA1.1 cnd hc
      · exact hgtA2.1 cnd hc
    · intro v hv x y
      rw [hcands]
      simp only [List.mem_append, speA1.2 v hv x y, speA2.2 v hv x y, dupA.2 v hv x y,
        hgtA1.2 v hv x y, hgtA2.2 v hv x y]
      grind

end ThlCode

end SR
