/-
  From sequence labellings to mask labellings (the converse of `ordSol`): `maskSol order`
  replaces every synteny by its mask relative to `order`.  For a valid sequence-labelled
  solution whose root synteny is `order` (duplicate-free), `maskSol` is an admissible
  labelling of the ordered label DP with non-empty masks and complete root mask, and
  `ordSol order (maskSol order sol) = sol` (C18 round trip).  This carries the
  completeness of the ordered solver among mask labellings (`C02_spfs_all_masks`) over
  to sequence labellings.
-/
import SRVerif.Proofs.OptAdequacyOrd

namespace SR.Spec

open SR Cost Path SubseqProofs

def maskSol (order : List Nat) : Sol → LSol Nat
  | .leaf s f => .leaf s (maskFromSubseq f order)
  | .node s f l r => .node s (maskFromSubseq f order) (maskSol order l) (maskSol order r)

/-- Every synteny is a subsequence of `order`. -/
def AllSub (order : List Nat) : Sol → Prop
  | .leaf _ f => f.Sublist order
  | .node _ f l r => f.Sublist order ∧ AllSub order l ∧ AllSub order r

/-- No synteny is empty. -/
def NoEmpty : Sol → Prop
  | .leaf _ f => f ≠ []
  | .node _ f l r => f ≠ [] ∧ NoEmpty l ∧ NoEmpty r

theorem maskSol_lab (order : List Nat) (sol : Sol) :
    (maskSol order sol).lab = maskFromSubseq sol.fam order := by
  cases sol <;> rfl

theorem ordSol_maskSol (order : List Nat) : ∀ sol : Sol, AllSub order sol →
    ordSol order (maskSol order sol) = sol := by
  intro sol
  induction sol with
  | leaf s f =>
    intro h
    simp only [AllSub] at h
    simp [maskSol, ordSol, roundtrip_seq order f h]
  | node s f l r ihl ihr =>
    intro h
    simp only [AllSub] at h
    simp [maskSol, ordSol, roundtrip_seq order f h.1, ihl h.2.1, ihr h.2.2]

theorem nz_maskSol (order : List Nat) : ∀ sol : Sol, AllSub order sol → NoEmpty sol →
    NZ (maskSol order sol) := by
  intro sol
  induction sol with
  | leaf s f =>
    intro h hn
    exact mask_ne_zero order f hn h
  | node s f l r ihl ihr =>
    intro h hn
    exact ⟨mask_ne_zero order f hn.1 h.1, ihl h.2.1 hn.2.1, ihr h.2.2 hn.2.2⟩

theorem allSub_of_valid (order : List Nat) : ∀ (t : OTree) (sol : Sol),
    validOrdLabels t sol = true → sol.fam.Sublist order → AllSub order sol := by
  intro t
  induction t with
  | leaf sp f =>
    intro sol hl hs
    cases sol with
    | node s g sl sr => simp [validOrdLabels] at hl
    | leaf s g => exact hs
  | node l r ihl ihr =>
    intro sol hl hs
    cases sol with
    | leaf s g => simp [validOrdLabels] at hl
    | node s g sl sr =>
      simp only [validOrdLabels, Bool.and_eq_true] at hl
      obtain ⟨⟨⟨hsl, hsr⟩, hll⟩, hlr⟩ := hl
      exact ⟨hs, ihl sl hll (((isSublist_iff _ _).mp hsl).trans hs),
        ihr sr hlr (((isSublist_iff _ _).mp hsr).trans hs)⟩

theorem exists_leaf_syn : ∀ t : OTree, ∃ f, f ∈ leafSyntenies t := by
  intro t
  induction t with
  | leaf sp f => exact ⟨f, by simp [leafSyntenies]⟩
  | node l r ihl _ =>
    obtain ⟨f, hf⟩ := ihl
    exact ⟨f, by simp [leafSyntenies, hf]⟩

theorem noEmpty_of_valid : ∀ (t : OTree) (sol : Sol), validOrdLabels t sol = true →
    (∀ f ∈ leafSyntenies t, f ≠ []) → NoEmpty sol := by
  intro t
  induction t with
  | leaf sp f =>
    intro sol hl hne
    cases sol with
    | node s g sl sr => simp [validOrdLabels] at hl
    | leaf s g =>
      simp only [validOrdLabels, beq_iff_eq] at hl
      subst hl
      exact hne f (by simp [leafSyntenies])
  | node l r ihl ihr =>
    intro sol hl hne
    have hroot : sol.fam ≠ [] := by
      obtain ⟨f, hf⟩ := exists_leaf_syn (.node l r)
      have hs := leaf_sublist_root _ sol hl f hf
      intro e
      rw [e] at hs
      exact hne f hf (List.sublist_nil.mp hs)
    cases sol with
    | leaf s g => simp [validOrdLabels] at hl
    | node s g sl sr =>
      simp only [validOrdLabels, Bool.and_eq_true] at hl
      exact ⟨hroot, ihl sl hl.1.2 (fun f hf => hne f (by simp [leafSyntenies, hf])),
        ihr sr hl.2 (fun f hf => hne f (by simp [leafSyntenies, hf]))⟩

/-- `maskSol` of a valid solution is admissible for the ordered label DP. -/
theorem adm_maskSol (c : Costs) (S : RTree) (base : Bool) (order : List Nat) :
    ∀ (t : OTree) (isRoot : Bool) (sol : Sol), validRec t sol = true →
      validOrdLabels t sol = true → SpeciesOk S base t sol → (isRoot = true → sol.fam = order) →
      Adm (ordAlg c) (annOrd S base order isRoot t) (maskSol order sol) := by
  intro t
  induction t with
  | leaf sp f =>
    intro isRoot sol hv hl _ _
    cases sol with
    | node s g sl sr => simp [validRec] at hv
    | leaf s g =>
      simp only [validRec, validOrdLabels, beq_iff_eq] at hv hl
      simp [annOrd, maskSol, Adm, ordAlg, hv, hl]
  | node l r ihl ihr =>
    intro isRoot sol hv hl hs hroot
    cases sol with
    | leaf s g => simp [validRec] at hv
    | node s g sl sr =>
      simp only [validRec, Bool.and_eq_true] at hv
      simp only [validOrdLabels, Bool.and_eq_true] at hl
      obtain ⟨hs0, hsl, hsr⟩ := hs
      simp only [annOrd, maskSol, Adm]
      refine ⟨?_, ?_, ihl false sl hv.1.2 hl.1.2 hsl (by simp), ihr false sr hv.2 hl.2 hsr (by simp)⟩
      · cases base with
        | true => simpa [ordAlg, speciesSpace] using hs0
        | false => simpa [ordAlg, speciesSpace] using hs0
      · simp only [ordAlg]
        cases isRoot with
        | true =>
          have : g = order := hroot rfl
          subst this
          simp only [if_true, List.mem_singleton]
          rw [mask_self]; rfl
        | false =>
          simp only [Bool.false_eq_true, if_false, List.mem_range]
          exact mask_lt order g

end SR.Spec
