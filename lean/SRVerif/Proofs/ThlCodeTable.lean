/-
  `_compute_thl_table` (code-structured model, policy ALL) against the label-DP
  table of every object node:

  * `RowOK tbl w t`  the row `tbl[w]` of the object node `w` (subtree `t`) has an
                     entry exactly at the species where `thlCells … t` has a cell,
                     with the same value, and (internal nodes) with exactly the
                     tag pairs of the label DP's optimal candidates;
  * `computeTable_ok` every row of `computeTable .all c S o` is `RowOK`
                     (post-order induction with a frame argument: processing a
                     subtree only writes the rows of its own nodes).
-/
import SRVerif.Proofs.ThlCodeRow
import SRVerif.Proofs.LabelDPThl
import SRVerif.Proofs.LayoutState

namespace SR

open Path Cost

namespace ThlCode

/-- The value of the cell at species `x` (`inf` when there is none). -/
def cellCost (cells : List (DCell Unit)) (x : Path) : Cost :=
  match findCell cells (x, ()) with
  | some d => d.cost
  | none => .inf

/-- Tags of an entry of an internal node against the label DP. -/
def TagsOK (c : Costs) (S : RTree) : OTree → Path → Entry MappingInfo → Cost → Prop
  | .leaf _ _, _, _, _ => True
  | .node l r, s, e, best =>
    ∀ x y, (⟨x, y⟩ : MappingInfo) ∈ e.infos ↔
      (best, ((x, ()), (y, ()))) ∈
        SR.cands thlAlg c S (allSpecies S) s () (allSpecies S) (allSpecies S)
          (thlCells c S true l) (thlCells c S true r)

/-- The row of object node `w` (subtree `t`) agrees with the label-DP table of `t`. -/
def RowOK (c : Costs) (S : RTree) (tbl : Table) (w : Path) (t : OTree) : Prop :=
  (∀ d ∈ thlCells c S true t, ∃ e, tbl.get (w, d.sp) = some e ∧ e.value = d.cost.toExt ∧
      TagsOK c S t d.sp e d.cost) ∧
  (∀ s, (∀ d ∈ thlCells c S true t, d.sp ≠ s) → tbl.get (w, s) = none)

theorem RowOK_congr {c : Costs} {S : RTree} {tbl tbl' : Table} {w : Path} {t : OTree}
    (h : ∀ s, tbl'.get (w, s) = tbl.get (w, s)) (hr : RowOK c S tbl w t) : RowOK c S tbl' w t := by
  obtain ⟨h1, h2⟩ := hr
  refine ⟨?_, ?_⟩
  · intro d hd; rw [h]; exact h1 d hd
  · intro s hs; rw [h]; exact h2 s hs

theorem cellTag_unit (d : DCell Unit) : cellTag d = (d.sp, ()) := rfl

theorem cellCost_of_mem {c : Costs} {S : RTree} {t : OTree} {d : DCell Unit}
    (hd : d ∈ thlCells c S true t) : cellCost (thlCells c S true t) d.sp = d.cost := by
  unfold cellCost
  obtain ⟨d', hd'⟩ := findCell_of_mem hd
  rw [cellTag_unit] at hd'
  rw [hd']
  obtain ⟨hm, ht⟩ := findCell_some hd'
  have : d' = d := cellTag_inj thlAlg c S true _ hm hd (by rw [ht]; rfl)
  rw [this]

theorem cellCost_ne_inf {cells : List (DCell Unit)} {x : Path} (h : cellCost cells x ≠ .inf) :
    ∃ d ∈ cells, d.sp = x := by
  unfold cellCost at h
  cases hf : findCell cells (x, ()) with
  | none => rw [hf] at h; exact absurd rfl h
  | some d =>
    obtain ⟨hm, ht⟩ := findCell_some hf
    exact ⟨d, hm, (cellTag_eq.mp ht).1⟩

theorem cell_isNode {c : Costs} {S : RTree} {t : OTree} (hS : ∀ p ∈ leafSpecies t, S.isNode p = true)
    {d : DCell Unit} (hd : d ∈ thlCells c S true t) : S.isNode d.sp = true := by
  cases t with
  | leaf sp f =>
    have := mem_dpTable_leaf.mp hd
    rw [this]; exact hS sp (by simp [leafSpecies])
  | node l r =>
    obtain ⟨s, hs, lab, _, e⟩ := mem_dpTable_node.mp hd
    obtain ⟨h1, _⟩ := entry_eq_some _ _ _ _ _ _ _ _ _ _ e
    rw [h1]
    exact (RTree.mem_preorder_iff s S).mp hs

/-- The row function of a child agrees with the child's table. -/
theorem childRel_cells {c : Costs} {S : RTree} {t : OTree}
    (hS : ∀ p ∈ leafSpecies t, S.isNode p = true) :
    ChildRel S (thlCells c S true t) (cellCost (thlCells c S true t)) :=
  ⟨fun _ hd => ⟨cellCost_of_mem hd, cell_isNode hS hd⟩, fun _ h => cellCost_ne_inf h⟩

/-- A row that is `RowOK` reads as the cell costs. -/
theorem RowOK.value {c : Costs} {S : RTree} {tbl : Table} {w : Path} {t : OTree}
    (h : RowOK c S tbl w t) (x : Path) :
    tbl.value (w, x) = (cellCost (thlCells c S true t) x).toExt := by
  by_cases hx : ∃ d ∈ thlCells c S true t, d.sp = x
  · obtain ⟨d, hd, rfl⟩ := hx
    obtain ⟨e, he, hv, _⟩ := h.1 d hd
    rw [cellCost_of_mem hd, Table.value, he]; exact hv
  · have hnone := h.2 x (fun d hd hsp => hx ⟨d, hd, hsp⟩)
    have : cellCost (thlCells c S true t) x = .inf := by
      by_contra hne; exact hx (cellCost_ne_inf hne)
    rw [this, Table.value, hnone]; rfl

/-- The label-DP cells of an internal object node: one per species whose `entry` is finite. -/
theorem mem_thlCells_node (c : Costs) (S : RTree) (l r : OTree) (d : DCell Unit) :
    d ∈ thlCells c S true (.node l r) ↔
      ∃ s ∈ allSpecies S,
        entry thlAlg c S true (allSpecies S) s () (allSpecies S) (allSpecies S)
          (thlCells c S true l) (thlCells c S true r) = some d := by
  have := mem_dpTable_node (A := thlAlg) (c := c) (S := S) (keep := true)
    (a := allSpecies S) (l := annPlain S l) (r := annPlain S r) (d := d)
  simp only [annPlain_data] at this
  simp only [thlCells, annPlain]
  rw [this]
  constructor
  · rintro ⟨s, hs, lab, _, e⟩; exact ⟨s, hs, e⟩
  · rintro ⟨s, hs, e⟩; exact ⟨s, hs, (), by simp [thlAlg], e⟩

/-! ### The loop over the species at one internal object node -/

/-- The body of the species loop. -/
def step (c : Costs) (S : RTree) (v : Path) (tbl : Table) (s : Path) : Table :=
  tryDuplicationTransfer .all c S s v
    (if !S.isLeafAt s then trySpeciation .all c S s v tbl else tbl)

theorem ne_child (v : Path) (i : Nat) : v ++ [i] ≠ v := by
  intro h
  have := congrArg List.length h
  simp at this

theorem step_get (c : Costs) (S : RTree) (v : Path) (tbl : Table) (s : Path) (k : Key) :
    (step c S v tbl s).get k =
      if k = (v, s) then
        (batches .all c S s (fun x => tbl.value (v ++ [0], x)) (fun x => tbl.value (v ++ [1], x))).foldl
          (Cell.update .min .all) (tbl.get (v, s))
      else tbl.get k := by
  unfold step
  rw [tryDuplicationTransfer_eq, Table.get_update]
  by_cases hleaf : S.isLeafAt s = true
  · simp only [hleaf, Bool.not_true, Bool.false_eq_true, if_false, batches, if_true, List.nil_append,
      List.foldl_cons, List.foldl_nil]
  · have hleaf' : S.isLeafAt s = false := by simpa using hleaf
    simp only [hleaf', Bool.not_false, if_true, batches, Bool.false_eq_true, if_false,
      List.cons_append, List.nil_append, List.foldl_cons, List.foldl_nil]
    rw [trySpeciation_eq]
    have h0 : ∀ x, (v ++ [0], x) ≠ (v, s) := fun x h => ne_child v 0 (Prod.mk.inj h).1
    have h1 : ∀ x, (v ++ [1], x) ≠ (v, s) := fun x h => ne_child v 1 (Prod.mk.inj h).1
    simp only [Table.value_update_ne _ _ _ (h0 _), Table.value_update_ne _ _ _ (h1 _)]
    by_cases hk : k = (v, s)
    · subst hk; simp only [if_true, Table.get_update]
    · simp only [hk, if_false, Table.get_update]

/-- The species loop writes, for every species of the list, the fold of its
    batches, and nothing else. -/
theorem loop_get (c : Costs) (S : RTree) (v : Path) (gl gr : Path → ExtInt) :
    ∀ (ss : List Path), ss.Nodup → ∀ (tbl : Table),
      (∀ x, tbl.value (v ++ [0], x) = gl x) → (∀ x, tbl.value (v ++ [1], x) = gr x) →
      ∀ k, (ss.foldl (step c S v) tbl).get k =
        if k.1 = v ∧ k.2 ∈ ss then
          (batches .all c S k.2 gl gr).foldl (Cell.update .min .all) (tbl.get k)
        else tbl.get k := by
  intro ss
  induction ss with
  | nil => intro _ tbl _ _ k; simp
  | cons s ss ih =>
    intro hnd tbl hgl hgr k
    obtain ⟨hs, hnd'⟩ := List.nodup_cons.mp hnd
    have hgl' : ∀ x, (step c S v tbl s).value (v ++ [0], x) = gl x := by
      intro x
      rw [Table.value, step_get, if_neg (fun h => ne_child v 0 (Prod.mk.inj h).1), ← hgl x]; rfl
    have hgr' : ∀ x, (step c S v tbl s).value (v ++ [1], x) = gr x := by
      intro x
      rw [Table.value, step_get, if_neg (fun h => ne_child v 1 (Prod.mk.inj h).1), ← hgr x]; rfl
    rw [List.foldl_cons, ih hnd' _ hgl' hgr' k, step_get]
    have hfl : (fun x => tbl.value (v ++ [0], x)) = gl := funext hgl
    have hfr : (fun x => tbl.value (v ++ [1], x)) = gr := funext hgr
    rw [hfl, hfr]
    obtain ⟨kw, ks⟩ := k
    by_cases hw : kw = v
    · subst hw
      by_cases hks : ks = s
      · subst hks
        simp [hs]
      · have : (kw, ks) ≠ (kw, s) := fun h => hks (Prod.mk.inj h).2
        simp [hks, this]
    · have : (kw, ks) ≠ (v, s) := fun h => hw (Prod.mk.inj h).1
      simp [hw, this]

/-! ### Post-order over the object tree -/

theorem prefix_of_mem_postorderNodes : ∀ (t : OTree) (v : Path) (p : Path × OTree),
    p ∈ postorderNodes t v → v <+: p.1
  | .leaf _ _, v, p, h => by
    simp only [postorderNodes, List.mem_singleton] at h; rw [h]; exact List.prefix_refl v
  | .node l r, v, p, h => by
    simp only [postorderNodes, List.mem_append, List.mem_singleton] at h
    rcases h with (h | h) | h
    · exact (List.prefix_append v [0]).trans (prefix_of_mem_postorderNodes l _ p h)
    · exact (List.prefix_append v [1]).trans (prefix_of_mem_postorderNodes r _ p h)
    · rw [h]; exact List.prefix_refl v

theorem root_mem_postorderNodes (t : OTree) (v : Path) : (v, t) ∈ postorderNodes t v := by
  cases t <;> simp [postorderNodes]

theorem not_prefix_sibling {v w : Path} {i j : Nat} (hij : i ≠ j) (h : v ++ [i] <+: w) :
    ¬ v ++ [j] <+: w := by
  rintro ⟨t', rfl⟩
  obtain ⟨t, ht⟩ := h
  rw [List.append_assoc, List.append_assoc, List.append_cancel_left_eq] at ht
  simp only [List.cons_append, List.nil_append, List.cons.injEq] at ht
  exact hij ht.1

theorem not_child_prefix_self (v : Path) (i : Nat) : ¬ v ++ [i] <+: v := by
  intro h
  have := h.length_le
  simp at this
  omega

theorem leaf_cell_update :
    Cell.update .min .all (none : Cell MappingInfo) [⟨.fin 0, none⟩] =
      some { value := .fin 0, infos := [], merge := .min, retain := .all } := by
  rfl

/-- **The table computed for a subtree**: processing the nodes of the subtree `t`
    hanging at `v`, starting from a table with nothing at or below `v`, leaves every
    other row untouched and makes every row of the subtree `RowOK`. -/
theorem process_ok (c : Costs) (S : RTree) : ∀ (t : OTree) (v : Path) (tbl0 : Table),
    (∀ p ∈ leafSpecies t, S.isNode p = true) →
    (∀ w s, v <+: w → tbl0.get (w, s) = none) →
    (∀ w s, ¬ v <+: w →
      ((postorderNodes t v).foldl (processNode .all c S) tbl0).get (w, s) = tbl0.get (w, s)) ∧
    (∀ p ∈ postorderNodes t v,
      RowOK c S ((postorderNodes t v).foldl (processNode .all c S) tbl0) p.1 p.2) := by
  intro t
  induction t with
  | leaf sp f =>
    intro v tbl0 _ hfresh
    simp only [postorderNodes, List.foldl_cons, List.foldl_nil, processNode]
    constructor
    · intro w s hw
      rw [Table.get_update, if_neg]
      intro h; exact hw ((Prod.mk.inj h).1 ▸ List.prefix_refl _)
    · intro p hp
      simp only [List.mem_singleton] at hp
      subst hp
      have hcells : thlCells c S true (.leaf sp f) =
          [{ sp := sp, lab := (), cost := .fin 0, sols := [LSol.leaf sp ()] }] := rfl
      refine ⟨?_, ?_⟩
      · intro d hd
        rw [hcells, List.mem_singleton] at hd
        subst hd
        refine ⟨{ value := .fin 0, infos := [], merge := .min, retain := .all }, ?_, rfl, trivial⟩
        rw [Table.get_update, if_pos rfl, hfresh v sp (List.prefix_refl v), leaf_cell_update]
      · intro s hs
        have hne : s ≠ sp := by
          intro h
          exact hs ⟨sp, (), .fin 0, [LSol.leaf sp ()]⟩ (by rw [hcells]; simp) h.symm
        rw [Table.get_update, if_neg (fun h => hne (Prod.mk.inj h).2)]
        exact hfresh v s (List.prefix_refl v)
  | node l r ihl ihr =>
    intro v tbl0 hS hfresh
    have hSl : ∀ p ∈ leafSpecies l, S.isNode p = true :=
      fun p hp => hS p (by simp [leafSpecies, hp])
    have hSr : ∀ p ∈ leafSpecies r, S.isNode p = true :=
      fun p hp => hS p (by simp [leafSpecies, hp])
    simp only [postorderNodes, List.foldl_append, List.foldl_cons, List.foldl_nil]
    -- left subtree
    obtain ⟨frL, rowsL⟩ := ihl (v ++ [0]) tbl0 hSl
      (fun w s hw => hfresh w s ((List.prefix_append v [0]).trans hw))
    generalize hL : (postorderNodes l (v ++ [0])).foldl (processNode .all c S) tbl0 = tblL at frL rowsL
    -- right subtree
    have hfreshR : ∀ w s, v ++ [1] <+: w → tblL.get (w, s) = none := by
      intro w s hw
      rw [frL w s (not_prefix_sibling (by decide) hw)]
      exact hfresh w s ((List.prefix_append v [1]).trans hw)
    obtain ⟨frR, rowsR⟩ := ihr (v ++ [1]) tblL hSr hfreshR
    generalize hR : (postorderNodes r (v ++ [1])).foldl (processNode .all c S) tblL = tblR at frR rowsR
    -- rows of the children in `tblR`
    have rowL : RowOK c S tblR (v ++ [0]) l := by
      refine RowOK_congr (fun s => ?_) (rowsL _ (root_mem_postorderNodes l (v ++ [0])))
      exact frR _ s (not_prefix_sibling (by decide) (List.prefix_refl _))
    have rowR : RowOK c S tblR (v ++ [1]) r := rowsR _ (root_mem_postorderNodes r (v ++ [1]))
    have hfreshV : ∀ s, tblR.get (v, s) = none := by
      intro s
      rw [frR v s (not_child_prefix_self v 1), frL v s (not_child_prefix_self v 0)]
      exact hfresh v s (List.prefix_refl v)
    -- the species loop
    have hloop := loop_get c S v (fun x => (cellCost (thlCells c S true l) x).toExt)
      (fun x => (cellCost (thlCells c S true r) x).toExt) S.postorder (Layout.postorder_nodup S) tblR
      (fun x => rowL.value x) (fun x => rowR.value x)
    have hproc : processNode .all c S tblR (v, .node l r) = S.postorder.foldl (step c S v) tblR := rfl
    rw [hproc]
    constructor
    · intro w s hw
      have hwv : w ≠ v := fun h => hw (h ▸ List.prefix_refl _)
      rw [hloop (w, s), if_neg (fun h => hwv h.1)]
      rw [frR w s (fun h => hw ((List.prefix_append v [1]).trans h)),
        frL w s (fun h => hw ((List.prefix_append v [0]).trans h))]
    · intro p hp
      simp only [List.mem_append, List.mem_singleton] at hp
      rcases hp with (hp | hp) | hp
      · -- a node of the left subtree
        have hpre := prefix_of_mem_postorderNodes l _ p hp
        have hne : p.1 ≠ v := fun h => not_child_prefix_self v 0 (h ▸ hpre)
        refine RowOK_congr (fun s => ?_) (rowsL p hp)
        rw [hloop (p.1, s), if_neg (fun h => hne h.1)]
        exact frR _ s (not_prefix_sibling (by decide) hpre)
      · have hpre := prefix_of_mem_postorderNodes r _ p hp
        have hne : p.1 ≠ v := fun h => not_child_prefix_self v 1 (h ▸ hpre)
        refine RowOK_congr (fun s => ?_) (rowsR p hp)
        rw [hloop (p.1, s), if_neg (fun h => hne h.1)]
      · -- the root row
        subst hp
        have hcl := childRel_cells (c := c) hSl
        have hcr := childRel_cells (c := c) hSr
        have hget : ∀ s, (S.postorder.foldl (step c S v) tblR).get (v, s) =
            if s ∈ S.postorder then
              (batches .all c S s (fun x => (cellCost (thlCells c S true l) x).toExt)
                (fun x => (cellCost (thlCells c S true r) x).toExt)).foldl
                (Cell.update .min .all) none
            else none := by
          intro s
          rw [hloop (v, s), hfreshV s]
          by_cases hs : s ∈ S.postorder <;> simp [hs]
        have hagree := fun s => batches_agree c S (allSpecies S) (allSpecies S) (allSpecies S) s
          (thlCells c S true l) (thlCells c S true r) _ _ _ _ hcl hcr (fun _ => rfl) (fun _ => rfl)
        have hcell := fun s => cell_agree _ _ (hagree s).1 (hagree s).2
        have hmemT := fun d => mem_thlCells_node c S l r d
        refine ⟨?_, ?_⟩
        · intro d hd
          obtain ⟨s, hs, he⟩ := (hmemT d).mp hd
          obtain ⟨h1, _, h3, h4, _⟩ := entry_eq_some _ _ _ _ _ _ _ _ _ _ he
          have hsp : s ∈ S.postorder :=
            Layout.mem_postorder_of_isNode s S ((RTree.mem_preorder_iff s S).mp hs)
          rw [h1, hget s, if_pos hsp]
          obtain ⟨e, hce, hv, _, _, htags⟩ := (hcell s).2 h4
          refine ⟨e, hce, by rw [hv, h3]; rfl, ?_⟩
          intro x y
          rw [htags x y, h3]; rfl
        · intro s hs
          rw [hget s]
          by_cases hsp : s ∈ S.postorder
          · rw [if_pos hsp]
            apply (hcell s).1
            have hs' : s ∈ allSpecies S :=
              (RTree.mem_preorder_iff s S).mpr (isNode_of_mem_postorder S s hsp)
            cases he : entry thlAlg c S true (allSpecies S) s () (allSpecies S) (allSpecies S)
                (thlCells c S true l) (thlCells c S true r) with
            | none => exact (entry_eq_none _ _ _ _ _ _ _ _ _ _).mp he
            | some d =>
              have hd := (hmemT d).mpr ⟨s, hs', he⟩
              exact absurd (entry_eq_some _ _ _ _ _ _ _ _ _ _ he).1 (hs d hd)
          · rw [if_neg hsp]

/-- **Every row of `_compute_thl_table` agrees with the label DP** (policy ALL). -/
theorem computeTable_ok (c : Costs) (S : RTree) (o : OTree)
    (hS : ∀ p ∈ leafSpecies o, S.isNode p = true) :
    ∀ p ∈ postorderNodes o [], RowOK c S (computeTable .all c S o) p.1 p.2 :=
  (process_ok c S o [] Table.empty hS (fun _ _ _ => rfl)).2

end ThlCode

end SR
