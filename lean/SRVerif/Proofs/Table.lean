/-
  Lemmas on the table model (`Model/Table.lean`): what walking a path, indexing
  and each kind of access do to the state of a table.
-/
import SRVerif.Model.Table

set_option linter.unusedSectionVars false

namespace SR.DP

variable {τ : Type} [DecidableEq τ]

/-! ### The finite map of cells -/

theorem getCell_putCell (cells : List (List Key × Entry τ)) (a b : List Key) (e : Entry τ) :
    getCell (putCell cells a e) b = if b = a then some e else getCell cells b := by
  unfold getCell putCell
  by_cases h : b = a
  · subst h; simp
  · have h' : ¬ a = b := fun h' => h h'.symm
    simp only [List.find?_cons, h', decide_false, if_neg h]
    congr 1
    induction cells with
    | nil => rfl
    | cons p ps ih =>
      by_cases hp : p.1 = a
      · have hb : ¬ p.1 = b := by rw [hp]; exact h'
        rw [List.filter_cons_of_neg (by simp [hp]), List.find?_cons_of_neg (by simp [hb])]
        exact ih
      · rw [List.filter_cons_of_pos (by simp [hp])]
        by_cases hb : p.1 = b
        · rw [List.find?_cons_of_pos (by simp [hb]), List.find?_cons_of_pos (by simp [hb])]
        · rw [List.find?_cons_of_neg (by simp [hb]), List.find?_cons_of_neg (by simp [hb])]
          exact ih

/-! ### Resolving a path -/

/-- The dictionary keys a walk along `ks` reads. -/
def visited (ds : List Dim) (ks : List Key) : List (List Key) := (resolveFrom ds ks []).1

theorem resolveFrom_append_fst (ds : List Dim) (ks ks2 pre : List Key) :
    ∀ p ∈ (resolveFrom ds ks pre).1, p ∈ (resolveFrom ds (ks ++ ks2) pre).1 := by
  induction ks generalizing ds pre with
  | nil => intro p hp; simp [resolveFrom] at hp
  | cons k ks ih =>
    intro p hp
    cases ds with
    | nil => simp [resolveFrom] at hp
    | cons d ds =>
      simp only [resolveFrom, List.cons_append] at hp ⊢
      cases hn : normKey d k with
      | error e => simp [hn] at hp
      | ok k' =>
        simp only [hn] at hp ⊢
        by_cases hd : d = .dict
        · simp only [hd, if_true, List.mem_cons] at hp ⊢
          rcases hp with hp | hp
          · exact Or.inl hp
          · exact Or.inr (ih ds _ p hp)
        · simp only [hd, if_false] at hp ⊢
          exact ih ds _ p hp

/-- A prefix of a path visits a subset of what the path visits. -/
theorem visited_prefix (ds : List Dim) (ks ks2 : List Key) :
    ∀ p ∈ visited ds ks, p ∈ visited ds (ks ++ ks2) :=
  resolveFrom_append_fst ds ks ks2 []

theorem resolveFrom_append_ok (ds : List Dim) (ks ks2 pre a : List Key)
    (h : (resolveFrom ds (ks ++ ks2) pre).2 = .ok a) : ∃ a', (resolveFrom ds ks pre).2 = .ok a' := by
  induction ks generalizing ds pre with
  | nil => exact ⟨pre, by simp [resolveFrom]⟩
  | cons k ks ih =>
    cases ds with
    | nil => simp [resolveFrom] at h
    | cons d ds =>
      simp only [resolveFrom, List.cons_append] at h ⊢
      cases hn : normKey d k with
      | error e => simp [hn] at h
      | ok k' =>
        simp only [hn] at h ⊢
        exact ih ds _ h

/-- A valid path has valid prefixes. -/
theorem addr_prefix_ok (ds : List Dim) (ks ks2 a : List Key) (h : addr ds (ks ++ ks2) = .ok a) :
    ∃ a', addr ds ks = .ok a' :=
  resolveFrom_append_ok ds ks ks2 [] a h

theorem resolveFrom_append_err (ds : List Dim) (ks ks2 pre : List Key) (e : PyErr)
    (h : (resolveFrom ds ks pre).2 = .error e) : (resolveFrom ds (ks ++ ks2) pre).2 = .error e := by
  induction ks generalizing ds pre with
  | nil => simp [resolveFrom] at h
  | cons k ks ih =>
    cases ds with
    | nil => simpa [resolveFrom] using h
    | cons d ds =>
      simp only [resolveFrom, List.cons_append] at h ⊢
      cases hn : normKey d k with
      | error e' => simpa [hn] using h
      | ok k' =>
        simp only [hn] at h ⊢
        exact ih ds _ h

/-- The first invalid key decides the exception. -/
theorem addr_prefix_err (ds : List Dim) (ks ks2 : List Key) (e : PyErr) (h : addr ds ks = .error e) :
    addr ds (ks ++ ks2) = .error e :=
  resolveFrom_append_err ds ks ks2 [] e h

theorem resolveFrom_length (ds : List Dim) (ks pre a : List Key)
    (h : (resolveFrom ds ks pre).2 = .ok a) : a.length = pre.length + ks.length ∧ ks.length ≤ ds.length := by
  induction ks generalizing ds pre with
  | nil => simp [resolveFrom] at h; subst h; simp
  | cons k ks ih =>
    cases ds with
    | nil => simp [resolveFrom] at h
    | cons d ds =>
      simp only [resolveFrom] at h
      cases hn : normKey d k with
      | error e => simp [hn] at h
      | ok k' =>
        simp only [hn] at h
        have := ih ds _ h
        simp at this ⊢
        omega

theorem addr_length (ds : List Dim) (ks a : List Key) (h : addr ds ks = .ok a) :
    a.length = ks.length ∧ ks.length ≤ ds.length := by
  have := resolveFrom_length ds ks [] a h
  simpa using this

/-- Everything a walk visits is a normalised address of a prefix of the path, through a
    dictionary axis. -/
theorem resolveFrom_visited (ds : List Dim) (ks pre p : List Key) (hp : p ∈ (resolveFrom ds ks pre).1) :
    ∃ n, n < ks.length ∧ ds[n]? = some .dict ∧ (resolveFrom ds (ks.take (n + 1)) pre).2 = .ok p := by
  induction ks generalizing ds pre with
  | nil => simp [resolveFrom] at hp
  | cons k ks ih =>
    cases ds with
    | nil => simp [resolveFrom] at hp
    | cons d ds =>
      simp only [resolveFrom] at hp
      cases hn : normKey d k with
      | error e => simp [hn] at hp
      | ok k' =>
        simp only [hn] at hp
        have hrest : p ∈ (resolveFrom ds ks (pre ++ [k'])).1 →
            ∃ n, n < (k :: ks).length ∧ (d :: ds)[n]? = some .dict ∧
              (resolveFrom (d :: ds) ((k :: ks).take (n + 1)) pre).2 = .ok p := by
          intro h
          obtain ⟨n, h1, h2, h3⟩ := ih ds _ h
          refine ⟨n + 1, by simp; omega, by simpa using h2, ?_⟩
          simp only [List.take_succ_cons, resolveFrom, hn]
          exact h3
        by_cases hd : d = .dict
        · simp only [hd, if_true, List.mem_cons] at hp
          rcases hp with hp | hp
          · refine ⟨0, by simp, by simp [hd], ?_⟩
            simp [resolveFrom, hn, hp]
          · exact hrest hp
        · simp only [hd, if_false] at hp
          exact hrest hp

theorem visited_sound (ds : List Dim) (ks p : List Key) (hp : p ∈ visited ds ks) :
    ∃ n, n < ks.length ∧ ds[n]? = some .dict ∧ addr ds (ks.take (n + 1)) = .ok p :=
  resolveFrom_visited ds ks [] p hp

/-- Conversely every valid prefix that ends on a dictionary axis is visited. -/
theorem resolveFrom_visited_complete (ds : List Dim) (ks pre p : List Key) (n : Nat)
    (hn : n < ks.length) (hd : ds[n]? = some .dict)
    (hp : (resolveFrom ds (ks.take (n + 1)) pre).2 = .ok p) : p ∈ (resolveFrom ds ks pre).1 := by
  induction ks generalizing ds pre n with
  | nil => simp at hn
  | cons k ks ih =>
    cases ds with
    | nil => simp at hd
    | cons d ds =>
      simp only [List.take_succ_cons, resolveFrom] at hp ⊢
      cases hk : normKey d k with
      | error e => simp [hk] at hp
      | ok k' =>
        simp only [hk] at hp ⊢
        cases n with
        | zero =>
          simp at hd
          simp [resolveFrom] at hp
          simp [hd, hp]
        | succ n =>
          have := ih ds (pre ++ [k']) n (by simpa using hn) (by simpa using hd) hp
          by_cases hd' : d = .dict
          · simp [hd', this]
          · simpa [hd'] using this

theorem visited_complete (ds : List Dim) (ks p : List Key) (n : Nat)
    (hn : n < ks.length) (hd : ds[n]? = some .dict) (hp : addr ds (ks.take (n + 1)) = .ok p) :
    p ∈ visited ds ks :=
  resolveFrom_visited_complete ds ks [] p n hn hd hp

/-- Is `a` the normalised address of the raw path `ks`? -/
def isAddr (ds : List Dim) (ks a : List Key) : Bool :=
  match addr ds ks with
  | .ok a' => decide (a' = a)
  | .error _ => false

theorem isAddr_iff (ds : List Dim) (ks a : List Key) : isAddr ds ks a = true ↔ addr ds ks = .ok a := by
  unfold isAddr
  cases h : addr ds ks with
  | error e => simp
  | ok a' =>
    simp only [decide_eq_true_eq]
    constructor
    · intro h'; rw [h']
    · intro h'; injection h'

/-! ### Extension of a table: same cells up to `F`, more dictionary keys out of `P` -/

/-- `t'` is `t` where each cell `a` has been transformed by `F a` and where dictionary keys taken
    from `P` have been created (appended, in some order). -/
structure Ext (P : List (List Key)) (F : List Key → Cell τ → Cell τ) (t t' : Table τ) : Prop where
  dims : t'.dims = t.dims
  merge : t'.merge = t.merge
  retain : t'.retain = t.retain
  cells : ∀ a, getCell t'.cells a = F a (getCell t.cells a)
  touched : ∃ l, t'.touched = t.touched ++ l ∧ ∀ p ∈ l, p ∈ P

/-- Nothing written. -/
abbrev ExtP (P : List (List Key)) (t t' : Table τ) : Prop := Ext P (fun _ c => c) t t'

theorem ExtP.refl (P : List (List Key)) (t : Table τ) : ExtP P t t :=
  ⟨rfl, rfl, rfl, fun _ => rfl, [], by simp, by simp⟩

theorem Ext.mono {P Q : List (List Key)} {F : List Key → Cell τ → Cell τ} {t t' : Table τ}
    (h : Ext P F t t') (hPQ : ∀ p ∈ P, p ∈ Q) : Ext Q F t t' := by
  obtain ⟨h1, h2, h3, h4, l, h5, h6⟩ := h
  exact ⟨h1, h2, h3, h4, l, h5, fun p hp => hPQ p (h6 p hp)⟩

theorem Ext.trans {P : List (List Key)} {F : List Key → Cell τ → Cell τ} {t t1 t2 : Table τ}
    (h : ExtP P t t1) (h' : Ext P F t1 t2) : Ext P F t t2 := by
  obtain ⟨h1, h2, h3, h4, l, h5, h6⟩ := h
  obtain ⟨g1, g2, g3, g4, l', g5, g6⟩ := h'
  refine ⟨g1.trans h1, g2.trans h2, g3.trans h3, ?_, l ++ l', ?_, ?_⟩
  · intro a; rw [g4, h4]
  · rw [g5, h5, List.append_assoc]
  · intro p hp
    rcases List.mem_append.mp hp with hp | hp
    · exact h6 p hp
    · exact g6 p hp

theorem foldl_touch (tch vis : List (List Key)) :
    ∃ l, vis.foldl touch tch = tch ++ l ∧ ∀ p ∈ l, p ∈ vis := by
  induction vis generalizing tch with
  | nil => exact ⟨[], by simp, by simp⟩
  | cons v vis ih =>
    obtain ⟨l, h1, h2⟩ := ih (touch tch v)
    simp only [List.foldl_cons]
    by_cases hv : v ∈ tch
    · have : touch tch v = tch := by simp [touch, hv]
      rw [this] at h1 ⊢
      exact ⟨l, h1, fun p hp => List.mem_cons_of_mem _ (h2 p hp)⟩
    · have : touch tch v = tch ++ [v] := by simp [touch, hv]
      rw [this] at h1 ⊢
      refine ⟨v :: l, by rw [h1]; simp, ?_⟩
      intro p hp
      rcases List.mem_cons.mp hp with hp | hp
      · simp [hp]
      · exact List.mem_cons_of_mem _ (h2 p hp)

theorem mem_foldl_touch (tch vis : List (List Key)) (p : List Key) :
    p ∈ vis.foldl touch tch ↔ p ∈ tch ∨ p ∈ vis := by
  induction vis generalizing tch with
  | nil => simp
  | cons v vis ih =>
    simp only [List.foldl_cons, ih, List.mem_cons]
    by_cases hv : v ∈ tch
    · simp only [touch, hv, if_true]
      constructor
      · rintro (h | h)
        · exact Or.inl h
        · exact Or.inr (Or.inr h)
      · rintro (h | h | h)
        · exact Or.inl h
        · subst h; exact Or.inl hv
        · exact Or.inr h
    · simp only [touch, hv, if_false, List.mem_append, List.mem_singleton]
      constructor
      · rintro ((h | h) | h)
        · exact Or.inl h
        · exact Or.inr (Or.inl h)
        · exact Or.inr (Or.inr h)
      · rintro (h | h | h)
        · exact Or.inl (Or.inl h)
        · exact Or.inl (Or.inr h)
        · exact Or.inr h

theorem nodup_foldl_touch (tch vis : List (List Key)) (h : tch.Nodup) : (vis.foldl touch tch).Nodup := by
  induction vis generalizing tch with
  | nil => simpa using h
  | cons v vis ih =>
    simp only [List.foldl_cons]
    apply ih
    by_cases hv : v ∈ tch
    · simpa [touch, hv] using h
    · simp only [touch, hv, if_false]
      rw [List.nodup_append]
      refine ⟨h, by simp, ?_⟩
      intro a ha b hb hab
      simp at hb
      subst hb; subst hab
      exact hv ha

/-! ### `walk`, `getReal`, `keysAt`, `updateAt` -/

namespace Table

theorem walk_snd (t : Table τ) (ks : List Key) : (t.walk ks).2 = addr t.dims ks := rfl

theorem walk_ext (t : Table τ) (ks : List Key) : ExtP (visited t.dims ks) t (t.walk ks).1 := by
  refine ⟨rfl, rfl, rfl, fun _ => rfl, ?_⟩
  exact foldl_touch t.touched (visited t.dims ks)

/-- After a walk, everything it visits exists. -/
theorem walk_touched (t : Table τ) (ks : List Key) (p : List Key) :
    p ∈ (t.walk ks).1.touched ↔ p ∈ t.touched ∨ p ∈ visited t.dims ks :=
  mem_foldl_touch t.touched (visited t.dims ks) p

theorem getReal_ext (t : Table τ) (key : List Key) : ExtP (visited t.dims key) t (t.getReal key).1 := by
  have h := walk_ext t key
  unfold getReal
  cases hw : t.walk key with
  | mk t' r =>
    rw [hw] at h
    cases r <;> exact h

theorem getReal_snd (t : Table τ) (key : List Key) :
    (t.getReal key).2 = (addr t.dims key).map (getCell t.cells) := by
  have h := walk_ext t key
  have h2 := walk_snd t key
  unfold getReal
  cases hw : t.walk key with
  | mk t' r =>
    rw [hw] at h h2
    simp only at h2
    cases r with
    | error e => simp [← h2, Except.map]
    | ok a =>
      simp only [← h2, Except.map]
      have : t'.cells = t.cells := by
        -- the walk does not touch the cells
        have : t' = (t.walk key).1 := by rw [hw]
        rw [this]; rfl
      rw [this]

theorem keysAt_ext (t : Table τ) (pre : List Key) : ExtP (visited t.dims pre) t (t.keysAt pre).1 := by
  have h := walk_ext t pre
  unfold keysAt
  cases hw : t.walk pre with
  | mk t' r =>
    rw [hw] at h
    cases r with
    | error e => exact h
    | ok a =>
      simp only
      cases t.dims[pre.length]? with
      | none => exact h
      | some d => cases d <;> exact h

/-- `EntryProxy.update` acts on the addressed cell as `Cell.update`, and on no other cell. -/
theorem updateAt_ext (t : Table τ) (key : List Key) (b : List (Cand τ)) :
    Ext (visited t.dims key)
      (fun a c => if isAddr t.dims key a then Cell.update t.merge t.retain c b else c)
      t (t.updateAt key b).1 := by
  unfold updateAt
  by_cases hfin : b.any (fun x => !x.value.isInfinite) = true
  · rw [if_pos hfin]
    have h := walk_ext t key
    have h2 := walk_snd t key
    cases hw : t.walk key with
    | mk t' r =>
      rw [hw] at h h2
      simp only at h2
      obtain ⟨h1, hm, hr, hc, ht⟩ := h
      cases r with
      | error e =>
        refine ⟨h1, hm, hr, ?_, ht⟩
        intro a; rw [hc]
        have : isAddr t.dims key a = false := by simp [isAddr, ← h2]
        simp [this]
      | ok a0 =>
        refine ⟨h1, hm, hr, ?_, ht⟩
        intro a
        simp only [getCell_putCell]
        by_cases ha : a = a0
        · subst ha
          have : isAddr t.dims key a = true := by simp [isAddr, ← h2]
          simp [this, Cell.update, hfin, hc]
        · have : isAddr t.dims key a = false := by
            simp only [isAddr, ← h2, decide_eq_false_iff_not]
            exact fun h' => ha h'.symm
          simp [ha, this, hc]
  · rw [if_neg hfin]
    refine ⟨rfl, rfl, rfl, ?_, [], by simp, by simp⟩
    intro a
    simp [Cell.update, hfin]

/-! ### Indexing -/

/-- One step of the fold of `index`. -/
def indexStep (st : Table τ × Except PyErr Ref) (k : Key) : Table τ × Except PyErr Ref :=
  match st with
  | (t, .ok r) => getitem t r k
  | (t, .error e) => (t, .error e)

theorem index_eq (t : Table τ) (ks : List Key) : t.index ks = ks.foldl indexStep (t, .ok (.proxy [])) := rfl

theorem foldl_indexStep_error (t : Table τ) (e : PyErr) (ks : List Key) :
    ks.foldl indexStep (t, .error e) = (t, .error e) := by
  induction ks with
  | nil => rfl
  | cons k ks ih => simpa [List.foldl_cons, indexStep] using ih

/-- Fewer keys than axes: a `TableProxy`, nothing is looked at. -/
theorem foldl_indexStep_short (t : Table τ) (pre ks : List Key) (h : pre.length + ks.length < t.dims.length) :
    ks.foldl indexStep (t, .ok (.proxy pre)) = (t, .ok (.proxy (pre ++ ks))) := by
  induction ks generalizing pre with
  | nil => simp
  | cons k ks ih =>
    simp only [List.foldl_cons, indexStep, getitem]
    have : ¬ pre.length + 1 = t.dims.length := by simp at h; omega
    rw [if_neg this]
    rw [ih (pre ++ [k]) (by simp at h ⊢; omega)]
    simp

theorem index_short (t : Table τ) (ks : List Key) (h : ks.length < t.dims.length) :
    t.index ks = (t, .ok (.proxy ks)) := by
  rw [index_eq, foldl_indexStep_short t [] ks (by simpa using h)]
  simp

/-- As many keys as axes: the prefix is walked and an `EntryProxy` for the raw keys is returned. -/
theorem index_full (t : Table τ) (ks : List Key) (k : Key) (h : ks.length + 1 = t.dims.length) :
    t.index (ks ++ [k]) =
      ((t.walk ks).1, (addr t.dims ks).map (fun _ => Ref.entry (ks ++ [k]))) := by
  rw [index_eq, List.foldl_append, ← index_eq, index_short t ks (by omega)]
  simp only [List.foldl_cons, List.foldl_nil, indexStep, getitem, if_pos h]
  have h2 := walk_snd t ks
  cases hw : t.walk ks with
  | mk t' r =>
    rw [hw] at h2
    simp only at h2
    cases r <;> simp [← h2, Except.map]

end Table

end SR.DP
