/-
  C12 ∘ C08, part 6: a clade identifies a node.

  In a name tree in which every node has no child or at least two, and whose leaf names
  are pairwise distinct, two different nodes (pre-order positions) never have the same
  clade (`cn_pairwise`).  So "the node of the output with the clade of this input node"
  is well defined.  Also: the leaf names are a sublist of the names, hence distinct when
  the given names are (`lvs_nodup_of_given`); a binary tree is in the domain (`wf2_of_isBin`).
-/
import SRVerif.Proofs.CliRefineEnc

namespace SR.Cli

open SR.Ser

mutual
  theorem lvs_ne_nil : ∀ t : NT, lvs t ≠ []
    | .node n c [] => by simp [lvs]
    | .node n c (k :: ks) => by
      rw [lvs]; exact lvsL_ne_nil (k :: ks) (by simp)
  theorem lvsL_ne_nil : ∀ ks : List NT, ks ≠ [] → lvsL ks ≠ []
    | [], h => absurd rfl h
    | k :: ks, _ => by
      rw [lvsL]
      intro h
      exact lvs_ne_nil k (List.append_eq_nil_iff.mp h).1
end

theorem lvs_node_of_ne_nil (n : String) (c : Option String) {ks : List NT} (h : ks ≠ []) :
    lvs (.node n c ks) = lvsL ks := by
  cases ks with
  | nil => exact absurd rfl h
  | cons k ks => rfl

theorem cnL_ne_nil_of_mem {ks : List NT} {x : List String × String} (h : x ∈ cnL ks) : ks ≠ [] := by
  intro he; subst he; simp [cnL] at h

mutual
  /-- A clade is non-empty, lies within the leaves of the tree, and is no longer. -/
  theorem cn_bounds : ∀ (t : NT) (x : List String × String), x ∈ cn t →
      x.1 ≠ [] ∧ x.1 ⊆ lvs t ∧ x.1.length ≤ (lvs t).length
    | .node n c ks, x, hx => by
      rw [cn, List.mem_cons] at hx
      rcases hx with rfl | hx
      · exact ⟨lvs_ne_nil _, List.Subset.refl _, Nat.le_refl _⟩
      · rw [lvs_node_of_ne_nil n c (cnL_ne_nil_of_mem hx)]
        exact cnL_bounds ks x hx
  theorem cnL_bounds : ∀ (ks : List NT) (x : List String × String), x ∈ cnL ks →
      x.1 ≠ [] ∧ x.1 ⊆ lvsL ks ∧ x.1.length ≤ (lvsL ks).length
    | [], x, hx => by simp [cnL] at hx
    | k :: ks, x, hx => by
      rw [cnL, List.mem_append] at hx
      rw [lvsL, List.length_append]
      rcases hx with hx | hx
      · obtain ⟨h1, h2, h3⟩ := cn_bounds k x hx
        exact ⟨h1, fun a ha => List.mem_append_left _ (h2 ha), by omega⟩
      · obtain ⟨h1, h2, h3⟩ := cnL_bounds ks x hx
        exact ⟨h1, fun a ha => List.mem_append_right _ (h2 ha), by omega⟩
end

/-- Below a node with at least two children every clade is strictly smaller than the node's. -/
theorem cnL_lt : ∀ (ks : List NT), 2 ≤ ks.length → ∀ x ∈ cnL ks, x.1.length < (lvsL ks).length
  | [], h, _, _ => by simp at h
  | [_], h, _, _ => by simp at h
  | k :: k' :: ks, _, x, hx => by
    rw [cnL, List.mem_append] at hx
    rw [lvsL, List.length_append]
    have hk : 0 < (lvs k).length := List.length_pos_iff.mpr (lvs_ne_nil k)
    have hk' : 0 < (lvsL (k' :: ks)).length :=
      List.length_pos_iff.mpr (lvsL_ne_nil (k' :: ks) (by simp))
    rcases hx with hx | hx
    · have := (cn_bounds k x hx).2.2; omega
    · have := (cnL_bounds (k' :: ks) x hx).2.2; omega

/-- Two nodes with the same clade (as sets of leaf names). -/
def SameClade (x y : List String × String) : Prop := x.1.Perm y.1

mutual
  /-- No two nodes have the same clade. -/
  theorem cn_pairwise : ∀ t : NT, wf2 t = true → (lvs t).Nodup →
      (cn t).Pairwise (fun x y => ¬ SameClade x y)
    | .node n c [], _, _ => by simp [cn, cnL]
    | .node n c (k :: ks), hwf, hnd => by
      simp only [wf2, Bool.and_eq_true, Bool.or_eq_true, decide_eq_true_eq] at hwf
      have h2 : 2 ≤ (k :: ks).length := by
        rcases hwf.1 with h | h
        · simp at h
        · exact h
      rw [cn, List.pairwise_cons]
      rw [lvs] at hnd ⊢
      refine ⟨fun x hx hp => ?_, cnL_pairwise (k :: ks) hwf.2 hnd⟩
      have := cnL_lt (k :: ks) h2 x hx
      have hl : (lvsL (k :: ks)).length = x.1.length := hp.length_eq
      omega
  theorem cnL_pairwise : ∀ ks : List NT, wf2L ks = true → (lvsL ks).Nodup →
      (cnL ks).Pairwise (fun x y => ¬ SameClade x y)
    | [], _, _ => by simp [cnL]
    | k :: ks, hwf, hnd => by
      simp only [wf2L, Bool.and_eq_true] at hwf
      rw [lvsL, List.nodup_append] at hnd
      rw [cnL, List.pairwise_append]
      refine ⟨cn_pairwise k hwf.1 hnd.1, cnL_pairwise ks hwf.2 hnd.2.1, ?_⟩
      intro x hx y hy hp
      obtain ⟨hx1, hx2, _⟩ := cn_bounds k x hx
      obtain ⟨_, hy2, _⟩ := cnL_bounds ks y hy
      obtain ⟨a, ha⟩ := List.exists_mem_of_ne_nil _ hx1
      exact hnd.2.2 a (hx2 ha) a (hy2 (hp.mem_iff.mp ha)) rfl
end

/-- With pairwise different clades, the node with a given clade is unique. -/
theorem clade_unique {l : List (List String × String)}
    (h : l.Pairwise (fun x y => ¬ SameClade x y)) {x y : List String × String}
    (hx : x ∈ l) (hy : y ∈ l) (hp : SameClade x y) : x = y := by
  induction l with
  | nil => cases hx
  | cons z zs ih =>
    rw [List.pairwise_cons] at h
    rcases List.mem_cons.mp hx with rfl | hx1 <;> rcases List.mem_cons.mp hy with rfl | hy1
    · rfl
    · exact absurd hp (h.1 _ hy1)
    · exact absurd (List.Perm.symm hp) (h.1 _ hx1)
    · exact ih h.2 hx1 hy1

mutual
  theorem wf2_of_isBin : ∀ t : NT, isBin t = true → wf2 t = true
    | .node n c ks, h => by
      simp only [isBin, Bool.and_eq_true, Bool.or_eq_true, beq_iff_eq] at h
      simp only [wf2, Bool.and_eq_true, Bool.or_eq_true, beq_iff_eq, decide_eq_true_eq]
      refine ⟨?_, wf2L_of_isBinL ks h.2⟩
      rcases h.1 with h1 | h1
      · exact Or.inl h1
      · exact Or.inr (by omega)
  theorem wf2L_of_isBinL : ∀ ks : List NT, isBinL ks = true → wf2L ks = true
    | [], _ => rfl
    | k :: ks, h => by
      simp only [isBinL, Bool.and_eq_true] at h
      simp only [wf2L, Bool.and_eq_true]
      exact ⟨wf2_of_isBin k h.1, wf2L_of_isBinL ks h.2⟩
end

mutual
  /-- The leaf names, in order, are among the names, in order. -/
  theorem lvs_sublist : ∀ t : NT, (lvs t).Sublist ((cn t).map (·.2))
    | .node n c [] => by simp [lvs, cn, cnL]
    | .node n c (k :: ks) => by
      rw [lvs, cn, List.map_cons]
      exact (lvsL_sublist (k :: ks)).cons _
  theorem lvsL_sublist : ∀ ks : List NT, (lvsL ks).Sublist ((cnL ks).map (·.2))
    | [] => by simp [lvsL, cnL]
    | k :: ks => by
      rw [lvsL, cnL, List.map_append]
      exact (lvs_sublist k).append (lvsL_sublist ks)
end

/-- Named leaves and distinct given names: distinct leaf names. -/
theorem lvs_nodup_of_given {t : NT} (hleaf : ∀ x ∈ lvs t, isUnnamed x = false)
    (hg : (given t).Nodup) : (lvs t).Nodup := by
  have h1 : (lvs t).Sublist t.names := by rw [names_eq_cn]; exact lvs_sublist t
  have h2 : ((lvs t).filter (fun nm => !isUnnamed nm)).Sublist (given t) := h1.filter _
  rw [List.filter_eq_self.mpr (fun x hx => by simp [hleaf x hx])] at h2
  exact h2.nodup hg

/-- In the output of the composition a clade identifies a node. -/
theorem Refined.clades_unique {pfx : String} {t t₁ b₁ : NT} (h : Refined pfx t t₁ b₁)
    (hleaf : ∀ x ∈ lvs t, isUnnamed x = false) (hg : (given t).Nodup) :
    (cn b₁).Pairwise (fun x y => ¬ SameClade x y) :=
  cn_pairwise b₁ (wf2_of_isBin b₁ h.binary)
    (h.leaves.nodup_iff.mpr (lvs_nodup_of_given hleaf hg))

end SR.Cli
