/-
  C14, anchors — part 4: `_layout_branches` and `_layout_subtrees` never fail
  on a `layout_state` whose branch lists are ordered (`OrdOK`) and which has a
  state for every species of a binary species tree; and the `SubtreeLayout`s
  they return carry exactly the keys of the state (`Struct`): anchors = the
  branch keys that are still anchor nodes, branches = the branches of the state.
-/
import SRVerif.Proofs.LayoutAnchorsState
import SRVerif.Proofs.LayoutGeom

namespace SR.Layout

open SR

/-! ### Look-ups in association lists -/

theorem lookupKey_isSome {β : Type} (l : List (Key × β)) (k : Key) :
    (lookupKey l k).isSome = true ↔ k ∈ l.map (·.1) := by
  induction l with
  | nil => simp [lookupKey]
  | cons e l ih =>
    obtain ⟨k', v⟩ := e
    simp only [lookupKey, List.map_cons, List.mem_cons]
    by_cases h : k' = k
    · simp [h]
    · have h' : ¬ k = k' := fun e => h e.symm
      simp [h, h', ih]

theorem rectOf_ok {rects : List (Key × Rect)} {k : Key} (h : k ∈ rects.map (·.1)) :
    ∃ r, rectOf rects (some k) = .ok r := by
  have := (lookupKey_isSome rects k).2 h
  obtain ⟨r, hr⟩ := Option.isSome_iff_exists.1 this
  exact ⟨r, by simp [rectOf, hr]⟩

/-! ### The branch loop -/

theorem stepV_ok {P : Params} {sizes : Key → Size} {an : List Key} {bs : BState} {b : Branch}
    (h : Needs (bs.rects.map (·.1)) b) :
    ∃ bs', stepV P sizes an bs b = .ok bs' ∧
      bs'.rects.map (·.1) = bs.rects.map (·.1) ++ [b.key] ∧
      bs'.anchors.map (·.1) = bs.anchors.map (·.1) ++ (if b.key ∈ an then [b.key] else []) := by
  obtain ⟨key, kind, left, right⟩ := b
  cases kind
  case leaf =>
    refine ⟨_, rfl, by simp, ?_⟩
    by_cases hk : key ∈ an <;> simp [hk]
  case spec =>
    refine ⟨_, rfl, by simp, ?_⟩
    by_cases hk : key ∈ an <;> simp [hk]
  case loss =>
    refine ⟨_, rfl, by simp, ?_⟩
    by_cases hk : key ∈ an <;> simp [hk]
  case dup =>
    simp only [Needs] at h
    obtain ⟨k1, k2, rfl, rfl, h1, h2⟩ := h
    obtain ⟨r1, hr1⟩ := rectOf_ok h1
    obtain ⟨r2, hr2⟩ := rectOf_ok h2
    simp only [stepV, hr1, hr2]
    refine ⟨_, rfl, by simp, ?_⟩
    by_cases hk : key ∈ an <;> simp [hk]
  case hgt =>
    simp only [Needs] at h
    obtain ⟨k1, rfl, h1⟩ := h
    obtain ⟨r1, hr1⟩ := rectOf_ok h1
    simp only [stepV, hr1]
    refine ⟨_, rfl, by simp, ?_⟩
    by_cases hk : key ∈ an <;> simp [hk]

theorem foldE_stepV_ok {P : Params} {sizes : Key → Size} {an : List Key} :
    ∀ (l : List Branch) (bs : BState),
      (∀ pre b post, l = pre ++ b :: post → Needs (bs.rects.map (·.1) ++ keysOf pre) b) →
      ∃ bs', foldE (stepV P sizes an) l bs = .ok bs' ∧
        bs'.rects.map (·.1) = bs.rects.map (·.1) ++ keysOf l ∧
        bs'.anchors.map (·.1) = bs.anchors.map (·.1) ++ (keysOf l).filter (· ∈ an) := by
  intro l
  induction l with
  | nil => intro bs _; exact ⟨bs, rfl, by simp [keysOf], by simp [keysOf]⟩
  | cons b t ih =>
    intro bs h
    have h0 : Needs (bs.rects.map (·.1)) b := by
      have := h [] b t rfl
      simpa [keysOf] using this
    obtain ⟨bs1, e1, r1, a1⟩ := stepV_ok (P := P) (sizes := sizes) (an := an) h0
    obtain ⟨bs2, e2, r2, a2⟩ := ih bs1 (by
      intro pre b' post he
      have := h (b :: pre) b' post (by rw [he]; rfl)
      rw [r1]
      simpa [keysOf] using this)
    refine ⟨bs2, by simp only [foldE, e1, e2], ?_, ?_⟩
    · rw [r2, r1]; simp [keysOf]
    · rw [a2, a1]
      by_cases hk : b.key ∈ an <;> simp [keysOf, hk]

/-- `lay` carries exactly the keys of the species state `x`. -/
structure LayOK (x : SpState) (lay : SpLayout) : Prop where
  branches : lay.branches = x.branches
  rects : lay.rects.map (·.1) = keysOf x.branches
  anchors : lay.anchors.map (·.1) = (keysOf x.branches).filter (· ∈ x.anchors)

theorem shiftRects_keys (p : Pos) (l : List (Key × Rect)) :
    (shiftRects p l).map (·.1) = l.map (·.1) := by
  simp [shiftRects, Function.comp_def]

theorem shiftAnchors_keys (p : Pos) (l : List (Key × Pos)) :
    (shiftAnchors p l).map (·.1) = l.map (·.1) := by
  simp [shiftAnchors, Function.comp_def]

theorem layoutBranchesV_ok (P : Params) (sizes : Key → Size) {x : SpState}
    (h : OrdOK x.branches) : ∃ lay, layoutBranchesV P sizes x = .ok lay ∧ LayOK x lay := by
  obtain ⟨bs, e, r, a⟩ := foldE_stepV_ok (P := P) (sizes := sizes) (an := x.anchors) x.branches
    ⟨0, P.pad, [], []⟩ (by
      intro pre b post he
      simpa using h pre b post he)
  simp only [List.map_nil, List.nil_append] at r a
  unfold layoutBranchesV
  simp only [e]
  split
  · exact ⟨_, rfl, rfl, r, a⟩
  · exact ⟨_, rfl, rfl, by rw [shiftRects_keys, r], by rw [shiftAnchors_keys, a]⟩

theorem layoutAllV_ok (P : Params) (sizes : Key → Size) :
    ∀ (st : LState), (∀ e ∈ st, OrdOK e.2.branches) →
      ∃ lays, layoutAllV P sizes st = .ok lays ∧
        ∀ t x, getSp st t = some x → ∃ lay, lookupSp lays t = some lay ∧ LayOK x lay := by
  intro st
  induction st with
  | nil => intro _; exact ⟨[], rfl, by intro t x h; simp [getSp] at h⟩
  | cons e st ih =>
    intro h
    obtain ⟨s, x⟩ := e
    obtain ⟨lay, e1, ok1⟩ := layoutBranchesV_ok P sizes (h (s, x) (List.mem_cons_self ..))
    obtain ⟨lays, e2, ok2⟩ := ih (fun e he => h e (List.mem_cons_of_mem _ he))
    refine ⟨(s, lay) :: lays, by simp only [layoutAllV, e1, e2], ?_⟩
    intro t x' hx'
    simp only [getSp] at hx'
    simp only [lookupSp]
    split at hx'
    · rename_i hst
      simp only [Option.some.injEq] at hx'
      subst hx'
      exact ⟨lay, by simp [hst], ok1⟩
    · rename_i hst
      simp only [hst, if_false]
      exact ok2 t x' hx'

theorem getSp_of_mem_nodup {st : LState} (hnd : (skeys st).Nodup) {t : Path} {x : SpState}
    (h : (t, x) ∈ st) : getSp st t = some x := by
  induction st with
  | nil => cases h
  | cons e st ih =>
    obtain ⟨k, v⟩ := e
    simp only [skeys, List.map_cons, List.nodup_cons] at hnd
    simp only [List.mem_cons, Prod.mk.injEq] at h
    simp only [getSp]
    rcases h with ⟨rfl, rfl⟩ | h
    · simp
    · have hk : ¬ k = t := by
        rintro rfl
        exact hnd.1 (List.mem_map.2 ⟨(k, x), h, rfl⟩)
      simp only [hk, if_false]
      exact ih hnd.2 h

/-! ### The species tree -/

theorem toBTree_of_isBinary : ∀ S : RTree, S.isBinary = true → ∃ B, toBTree S = some B
  | .node [], _ => ⟨.leaf, rfl⟩
  | .node [a, b], h => by
    simp only [RTree.isBinary, Bool.and_eq_true] at h
    obtain ⟨x, hx⟩ := toBTree_of_isBinary a h.1
    obtain ⟨y, hy⟩ := toBTree_of_isBinary b h.2
    exact ⟨.node x y, by simp [toBTree, hx, hy]⟩
  | .node [_], h => by simp [RTree.isBinary] at h
  | .node (_ :: _ :: _ :: _), h => by simp [RTree.isBinary] at h

/-- The part of a finished branch that `_compute_branches` produced. -/
def FBranch.toBranch (b : FBranch) : Branch := ⟨b.key, b.kind, b.left, b.right⟩

theorem toBranch_finishBranchV (off : Pos) (b : Branch) (r : Rect) :
    (finishBranchV off b r).toBranch = b := by
  obtain ⟨key, kind, left, right⟩ := b
  cases kind <;> rfl

/-- What a finished `SubtreeLayout` carries, in terms of the relative layouts. -/
def SLOK (lays : Path → Option SpLayout) (sl : SubLayout) : Prop :=
  ∃ lay, lays sl.sp = some lay ∧ sl.anchors.map (·.1) = lay.anchors.map (·.1) ∧
    sl.branches.map FBranch.toBranch = (lay.branches.zip lay.rects).map (·.1)

theorem finishV_slok {lays : Path → Option SpLayout} {p : Path} {lay : SpLayout}
    (hl : lays p = some lay) (i : Info) (hsp : i.sp = p) (hlay : i.lay = lay) (r : Rect) :
    SLOK lays (finishV i r) := by
  refine ⟨lay, by simpa [finishV, hsp] using hl, ?_, ?_⟩
  · simp only [finishV, shiftAnchors_keys, hlay]
  · simp only [finishV, List.map_map, hlay]
    apply List.map_congr_left
    intro e _
    exact toBranch_finishBranchV _ _ _

theorem sizesV_ok {P : Params} {lays : Path → Option SpLayout} (B : BTree) :
    ∀ (p : Path), (∀ q ∈ B.paths p, ∃ lay, lays q = some lay) →
      ∃ t, sizesV P lays B p = .ok t := by
  induction B with
  | leaf =>
    intro p h
    obtain ⟨lay, hl⟩ := h p (by simp [BTree.paths])
    simp only [sizesV, hl]
    exact ⟨_, rfl⟩
  | node a b iha ihb =>
    intro p h
    obtain ⟨lay, hl⟩ := h p (by simp [BTree.paths])
    obtain ⟨lt, h1⟩ := iha (p ++ [0]) (fun q hq => h q (by simp [BTree.paths, hq]))
    obtain ⟨rt, h2⟩ := ihb (p ++ [1]) (fun q hq => h q (by simp [BTree.paths, hq]))
    simp only [sizesV, h1, h2, hl]
    exact ⟨_, rfl⟩

theorem sizesV_slok {P : Params} {lays : Path → Option SpLayout} (B : BTree) :
    ∀ (p : Path) (t : ITree) (r : Rect), sizesV P lays B p = .ok t →
      ∀ sl ∈ placeV t r, SLOK lays sl := by
  induction B with
  | leaf =>
    intro p t r h sl hsl
    simp only [sizesV] at h
    cases hl : lays p with
    | none => rw [hl] at h; cases h
    | some lay =>
      rw [hl] at h
      simp only at h
      cases h
      simp only [placeV, List.mem_singleton] at hsl
      subst hsl
      exact finishV_slok hl _ rfl rfl r
  | node a b iha ihb =>
    intro p t r h sl hsl
    simp only [sizesV] at h
    cases h1 : sizesV P lays a (p ++ [0]) with
    | error e => rw [h1] at h; cases h
    | ok lt =>
      cases h2 : sizesV P lays b (p ++ [1]) with
      | error e => rw [h1, h2] at h; cases h
      | ok rt =>
        cases hl : lays p with
        | none => rw [h1, h2, hl] at h; cases h
        | some lay =>
          rw [h1, h2, hl] at h
          simp only at h
          cases h
          simp only [placeV, List.mem_cons, List.mem_append] at hsl
          rcases hsl with rfl | hsl | hsl
          · exact finishV_slok hl _ rfl rfl r
          · exact iha _ _ _ h1 sl hsl
          · exact ihb _ _ _ h2 sl hsl

/-! ### `layout.compute` -/

/-- The output of `layout.compute` carries exactly the keys of the
    `layout_state` it was computed from. -/
structure Struct (S : RTree) (st : LState) (all : List SubLayout) : Prop where
  species : all.map (·.sp) = S.preorder
  each : ∀ sl ∈ all, ∃ x, getSp st sl.sp = some x ∧
    sl.anchors.map (·.1) = (keysOf x.branches).filter (· ∈ x.anchors) ∧
    sl.branches.map FBranch.toBranch = x.branches

theorem computeV_ok (P : Params) (sizes : Key → Size) {S : RTree} {sol : Sol} {st : LState}
    (hbin : S.isBinary = true) (hst : computeBranches S sol = .ok st)
    (hkeys : skeys st = S.postorder) (hord : ∀ t, OrdOK (brs st t)) :
    ∃ all, computeV P sizes S sol = .ok all ∧ Struct S st all := by
  have hnd : (skeys st).Nodup := by rw [hkeys]; exact postorder_nodup S
  obtain ⟨lays, hl, hlays⟩ := layoutAllV_ok P sizes st (by
    rintro ⟨t, x⟩ he
    have := hord t
    rw [brs_of_getSp (getSp_of_mem_nodup hnd he)] at this
    exact this)
  obtain ⟨B, hB⟩ := toBTree_of_isBinary S hbin
  have hnode : ∀ q, S.isNode q = true → ∃ x lay, getSp st q = some x ∧
      lookupSp lays q = some lay ∧ LayOK x lay := by
    intro q hq
    have : q ∈ skeys st := by rw [hkeys]; exact mem_postorder_of_isNode q S hq
    obtain ⟨x, hx⟩ := getSp_some_of_mem this
    obtain ⟨lay, h1, h2⟩ := hlays q x hx
    exact ⟨x, lay, hx, h1, h2⟩
  obtain ⟨t, ht⟩ := sizesV_ok (P := P) (lays := lookupSp lays) B [] (by
    intro q hq
    rw [← toBTree_preorder B S hB, RTree.mem_preorder_iff] at hq
    obtain ⟨x, lay, _, h1, _⟩ := hnode q hq
    exact ⟨lay, h1⟩)
  have hcomp : computeV P sizes S sol = .ok (placeV t (Rect.makeFrom ⟨0, 0⟩ t.info.size)) := by
    simp only [computeV, hst, hl, hB, ht]
  refine ⟨_, hcomp, computeV_species hcomp, ?_⟩
  intro sl hsl
  obtain ⟨lay, h1, h2, h3⟩ := sizesV_slok B [] t _ ht sl hsl
  have hq : S.isNode sl.sp = true := by
    rw [← RTree.mem_preorder_iff, ← computeV_species hcomp]
    exact List.mem_map_of_mem hsl
  obtain ⟨x, lay', hx, h1', ok⟩ := hnode sl.sp hq
  rw [h1] at h1'
  cases h1'
  refine ⟨x, hx, by rw [h2, ok.anchors], ?_⟩
  rw [h3, List.map_fst_zip, ok.branches]
  have := congrArg List.length ok.rects
  simp only [List.length_map, keysOf] at this
  rw [ok.branches]
  omega

/-- Transposition keeps the keys. -/
theorem Struct.tr {S : RTree} {st : LState} {all : List SubLayout} (h : Struct S st all) :
    Struct S st (all.map SubLayout.tr) := by
  refine ⟨?_, ?_⟩
  · rw [← h.species, List.map_map]; rfl
  · intro sl hsl
    obtain ⟨sl0, h0, rfl⟩ := List.mem_map.1 hsl
    obtain ⟨x, hx, ha, hb⟩ := h.each sl0 h0
    refine ⟨x, hx, ?_, ?_⟩
    · rw [← ha]
      simp [SubLayout.tr, trAnchors, Function.comp_def]
    · rw [← hb]
      simp only [SubLayout.tr, List.map_map]
      rfl

theorem compute_ok (o : Orientation) (P : Params) (sizes : Key → Size) {S : RTree} {sol : Sol}
    {st : LState} (hbin : S.isBinary = true) (hst : computeBranches S sol = .ok st)
    (hkeys : skeys st = S.postorder) (hord : ∀ t, OrdOK (brs st t)) :
    ∃ all, compute o P sizes S sol = .ok all ∧ Struct S st all := by
  cases o with
  | vertical => exact computeV_ok P sizes hbin hst hkeys hord
  | horizontal =>
    obtain ⟨all, h1, h2⟩ := computeV_ok P (fun k => (sizes k).swap) hbin hst hkeys hord
    refine ⟨all.map SubLayout.tr, ?_, h2.tr⟩
    show computeH P sizes S sol = _
    rw [computeH_tr, h1]
    rfl

end SR.Layout
