/-
  The table of the code-structured model (`SpfsCode.computeTable`) against the label-DP
  table at bitmask labels (`dpTable (ordAlg c) … (annOrd …)`), object node by object node:

  * `mem_cells_node`, `lookup_*`   the dict of one object node: a key `(s, m)` is present
      iff `s` is an allowed species, `m` an allowed synteny and `_compute_spfs_entry`
      wrote a finite batch; reading it returns that entry;
  * `table_rel`   the cells of an object node have the same keys and the same values as
      the DP cells (`CellsRel`), all finite, with non-empty masks, at species of `S`.

  Guards: the leaf species are nodes of `S` (the loops of `_compute_spfs_entry` run over
  the species of the tree), and every leaf synteny is a non-empty subsequence of the root
  order (`LeavesOk`: no empty mask is ever formed, so that `subseq_segment_dist(…,
  edges=False)` is never `-1` where the code multiplies it by the segmental loss cost).
-/
import SRVerif.Proofs.SpfsCodeRoles
import SRVerif.Proofs.LabelDPOrdRoot

namespace SR.SpfsCode

open Cost Path SubseqSpec

/-! ### `traverse("postorder")` lists the nodes -/

theorem mem_postorderList_of (cs : List RTree) (i : Nat) (k : Nat) (c : RTree) (q : Path)
    (hc : cs[k]? = some c) (hq : q ∈ c.postorder) : (i + k) :: q ∈ RTree.postorderList cs i := by
  induction cs generalizing i k with
  | nil => simp at hc
  | cons d cs ih =>
    cases k with
    | zero =>
      simp only [List.getElem?_cons_zero, Option.some.injEq] at hc
      subst hc
      simp only [RTree.postorderList, List.mem_append, List.mem_map]
      left; exact ⟨q, hq, by simp⟩
    | succ k =>
      simp only [List.getElem?_cons_succ] at hc
      simp only [RTree.postorderList, List.mem_append]
      right
      have := ih (i + 1) k hc
      have e : i + 1 + k = i + (k + 1) := by omega
      rw [e] at this
      exact this

theorem mem_postorder_of_isNode : ∀ (p : Path) (t : RTree), t.isNode p = true → p ∈ t.postorder := by
  intro p
  induction p with
  | nil =>
    intro t _
    cases t with
    | node cs => simp [RTree.postorder]
  | cons i p ih =>
    intro t h
    cases t with
    | node cs =>
      simp only [RTree.isNode, RTree.sub] at h
      cases hc : cs[i]? with
      | none => simp [hc] at h
      | some c =>
        simp only [hc] at h
        have hq := ih c (by simpa [RTree.isNode] using h)
        simp only [RTree.postorder, List.mem_append, List.mem_singleton]
        left
        have := mem_postorderList_of cs 0 i c p hc hq
        simpa using this

mutual
  theorem isNode_of_mem_postorder : ∀ (t : RTree) (p : Path), p ∈ t.postorder → t.isNode p = true
    | .node cs, p, h => by
      simp only [RTree.postorder, List.mem_append, List.mem_singleton] at h
      rcases h with h | rfl
      · obtain ⟨i, q, c, rfl, hc, hq⟩ := isNode_of_mem_postorderList cs 0 p h
        simp only [Nat.zero_add] at *
        simp only [RTree.isNode, RTree.sub, hc]
        exact hq
      · rfl
  theorem isNode_of_mem_postorderList : ∀ (cs : List RTree) (k : Nat) (p : Path),
      p ∈ RTree.postorderList cs k → ∃ i q c, p = (k + i) :: q ∧ cs[i]? = some c ∧ c.isNode q = true
    | [], _, p, h => by simp [RTree.postorderList] at h
    | c :: cs, k, p, h => by
      simp only [RTree.postorderList, List.mem_append, List.mem_map] at h
      rcases h with ⟨q, hq, rfl⟩ | h
      · exact ⟨0, q, c, rfl, rfl, isNode_of_mem_postorder c q hq⟩
      · obtain ⟨i, q, c', rfl, hc, hq⟩ := isNode_of_mem_postorderList cs (k + 1) p h
        exact ⟨i + 1, q, c', by simp; omega, by simpa using hc, hq⟩
end

theorem mem_postorder_iff (S : RTree) (p : Path) : p ∈ S.postorder ↔ S.isNode p = true :=
  ⟨isNode_of_mem_postorder S p, mem_postorder_of_isNode p S⟩

/-! ### Allowed species and syntenies: the same as the DP's -/

variable (c : Costs) (S : RTree) (base : Bool) (order : List Nat)

/-- The annotation of an internal object node. -/
def nodeAnn (isRoot : Bool) (l r : OTree) : OrdAnn :=
  { isRoot := isRoot, leafMask := 0,
    allowed := if base then [(lcaSol (.node l r)).sp] else (allSpecies S).reverse,
    nfam := order.length }

theorem annOrd_node (isRoot : Bool) (l r : OTree) :
    annOrd S base order isRoot (.node l r) =
      .node (nodeAnn S base order isRoot l r) (annOrd S base order false l)
        (annOrd S base order false r) := rfl

theorem mem_allowed (isRoot : Bool) (l r : OTree) (s : Path) :
    s ∈ allowedSpecies S base (.node l r) ↔
      s ∈ (ordAlg c).allowed (nodeAnn S base order isRoot l r) := by
  cases base
  · simp only [allowedSpecies, ordAlg, nodeAnn, Bool.false_eq_true, if_false, List.mem_reverse,
      allSpecies, mem_postorder_iff, RTree.mem_preorder_iff]
  · simp [allowedSpecies, ordAlg, nodeAnn]

theorem syntenies_eq (isRoot : Bool) (l r : OTree) :
    allowedSyntenies order isRoot = (ordAlg c).labs (nodeAnn S base order isRoot l r) := by
  cases isRoot <;> rfl

/-! ### The dict of one object node -/

theorem mem_mkCells {s : Path} {m : Nat} {cell : Cell CAsg} {cc : TCell} :
    cc ∈ mkCells s m cell ↔ ∃ e, cell = some e ∧ cc = ⟨s, m, e⟩ := by
  cases cell <;> simp [mkCells]

theorem computeTable_node (ret : Retain) (isRoot : Bool) (l r : OTree) :
    computeTable c S base ret order isRoot (.node l r) =
      .node
        ((allowedSpecies S base (.node l r)).flatMap fun rootSp =>
          (allowedSyntenies order isRoot).flatMap fun rootSyn =>
            mkCells rootSp rootSyn
              (computeEntry c S ret rootSp rootSyn
                (computeTable c S base ret order false l).cells
                (computeTable c S base ret order false r).cells))
        (computeTable c S base ret order false l) (computeTable c S base ret order false r) := rfl

theorem mem_cells_node (ret : Retain) (isRoot : Bool) (l r : OTree) (cc : TCell) :
    cc ∈ (computeTable c S base ret order isRoot (.node l r)).cells ↔
      cc.sp ∈ allowedSpecies S base (.node l r) ∧ cc.syn ∈ allowedSyntenies order isRoot ∧
      computeEntry c S ret cc.sp cc.syn (computeTable c S base ret order false l).cells
        (computeTable c S base ret order false r).cells = some cc.entry := by
  rw [computeTable_node]
  simp only [Tab.cells, List.mem_flatMap, mem_mkCells]
  constructor
  · rintro ⟨s, hs, m, hm, e, he, rfl⟩; exact ⟨hs, hm, he⟩
  · rintro ⟨hs, hm, he⟩; exact ⟨cc.sp, hs, cc.syn, hm, cc.entry, he, rfl⟩

theorem lookup_some {cells : List TCell} {s : Path} {m : Nat} {e : Entry CAsg}
    (h : lookup cells s m = some e) : ∃ cc ∈ cells, cc.sp = s ∧ cc.syn = m ∧ cc.entry = e := by
  unfold lookup at h
  obtain ⟨cc, hf, rfl⟩ := Option.map_eq_some_iff.mp h
  have hp := List.find?_some hf
  simp only [Bool.and_eq_true, beq_iff_eq] at hp
  exact ⟨cc, List.mem_of_find?_eq_some hf, hp.1, hp.2, rfl⟩

theorem lookup_none {cells : List TCell} {s : Path} {m : Nat}
    (h : lookup cells s m = none) : ∀ cc ∈ cells, ¬ (cc.sp = s ∧ cc.syn = m) := by
  unfold lookup at h
  rw [Option.map_eq_none_iff] at h
  intro cc hcc ⟨h1, h2⟩
  have := List.find?_eq_none.mp h cc hcc
  simp [h1, h2] at this

/-- Reading `table[obj][s][m]` of an internal object node. -/
theorem lookup_node (ret : Retain) (isRoot : Bool) (l r : OTree) (s : Path) (m : Nat) :
    lookup (computeTable c S base ret order isRoot (.node l r)).cells s m =
      if s ∈ allowedSpecies S base (.node l r) ∧ m ∈ allowedSyntenies order isRoot then
        computeEntry c S ret s m (computeTable c S base ret order false l).cells
          (computeTable c S base ret order false r).cells
      else none := by
  cases h : lookup (computeTable c S base ret order isRoot (.node l r)).cells s m with
  | some e =>
    obtain ⟨cc, hcc, rfl, rfl, rfl⟩ := lookup_some h
    obtain ⟨hs, hm, he⟩ := (mem_cells_node c S base order ret isRoot l r cc).mp hcc
    rw [if_pos ⟨hs, hm⟩, he]
  | none =>
    by_cases hk : s ∈ allowedSpecies S base (.node l r) ∧ m ∈ allowedSyntenies order isRoot
    · rw [if_pos hk]
      cases he : computeEntry c S ret s m (computeTable c S base ret order false l).cells
          (computeTable c S base ret order false r).cells with
      | none => rfl
      | some e =>
        exact absurd ⟨rfl, rfl⟩ (lookup_none h ⟨s, m, e⟩
          ((mem_cells_node c S base order ret isRoot l r _).mpr ⟨hk.1, hk.2, he⟩))
    · rw [if_neg hk]

/-! ### Cell by cell -/

theorem leafCell (sp : Path) (m : Nat) :
    mkCells sp m (Cell.update .min .all none [⟨.fin 0, none⟩]) =
      [⟨sp, m, { value := .fin 0, infos := [], merge := .min, retain := .all }⟩] := by
  simp [mkCells, Cell.update, Entry.update, Entry.update1, Entry.init, Entry.better, ExtInt.lt,
    ExtInt.isInfinite]

/-- **The table, object node by object node**: same keys, same values as the label DP. -/
theorem table_rel (o : OTree) (hS : ∀ p ∈ leafSpecies o, S.isNode p = true)
    (hlv : LeavesOk order o) (keep : Bool) : ∀ isRoot : Bool,
    CellsRel S (computeTable c S base .all order isRoot o).cells
      (dpTable (ordAlg c) c S keep (annOrd S base order isRoot o)) := by
  induction o with
  | leaf sp f =>
    intro isRoot
    have hcells : (computeTable c S base .all order isRoot (.leaf sp f)).cells =
        [⟨sp, maskFromSubseq f order, { value := .fin 0, infos := [], merge := .min, retain := .all }⟩] := by
      simp only [computeTable, Tab.cells, leafCell]
    have hnode : S.isNode sp = true := hS sp (by simp [leafSpecies])
    have hmask : maskFromSubseq f order ≠ 0 := SubseqProofs.mask_ne_zero order f hlv.1 hlv.2
    rw [hcells]
    refine ⟨?_, ?_, ?_, ?_, ?_⟩
    · intro cc hcc
      simp only [List.mem_singleton] at hcc
      subst hcc
      exact ⟨_, mem_dpTable_leaf.mpr rfl, rfl, rfl, rfl⟩
    · intro d hd
      rw [annOrd, mem_dpTable_leaf] at hd
      subst hd
      exact ⟨_, List.mem_singleton.mpr rfl, rfl, rfl, rfl⟩
    · intro d hd; exact dp_finite _ _ _ _ _ hd
    · intro d hd
      rw [annOrd, mem_dpTable_leaf] at hd
      subst hd; exact hmask
    · intro d hd
      rw [annOrd, mem_dpTable_leaf] at hd
      subst hd; exact hnode
  | node l r ihl ihr =>
    intro isRoot
    have hSl : ∀ p ∈ leafSpecies l, S.isNode p = true := fun p hp => hS p (by simp [leafSpecies, hp])
    have hSr : ∀ p ∈ leafSpecies r, S.isNode p = true := fun p hp => hS p (by simp [leafSpecies, hp])
    have hL := ihl hSl hlv.1 false
    have hR := ihr hSr hlv.2 false
    have hrel := computeEntry_rel c S (nodeAnn S base order isRoot l r)
      (annOrd S base order false l).data (annOrd S base order false r).data
    rw [annOrd_node]
    refine ⟨?_, ?_, ?_, ?_, ?_⟩
    · intro cc hcc
      obtain ⟨hs, hm, he⟩ := (mem_cells_node c S base order .all isRoot l r cc).mp hcc
      obtain ⟨hnone, hsome⟩ := hrel cc.sp cc.syn hL hR
      have hfin : best (ordAlg c) c S (nodeAnn S base order isRoot l r) cc.sp cc.syn
          (annOrd S base order false l).data (annOrd S base order false r).data
          (dpTable (ordAlg c) c S keep (annOrd S base order false l))
          (dpTable (ordAlg c) c S keep (annOrd S base order false r)) ≠ .inf := by
        intro e; rw [hnone.mpr e] at he; cases he
      cases hd : entry (ordAlg c) c S keep (nodeAnn S base order isRoot l r) cc.sp cc.syn
          (annOrd S base order false l).data (annOrd S base order false r).data
          (dpTable (ordAlg c) c S keep (annOrd S base order false l))
          (dpTable (ordAlg c) c S keep (annOrd S base order false r)) with
      | none => exact absurd ((entry_eq_none _ _ _ _ _ _ _ _ _ _).mp hd) hfin
      | some d =>
        have p := entry_eq_some _ _ _ _ _ _ _ _ _ _ hd
        refine ⟨d, mem_dpTable_node.mpr ⟨cc.sp, (mem_allowed c S base order isRoot l r _).mp hs,
          cc.syn, by rw [← syntenies_eq c S base order isRoot l r]; exact hm, hd⟩, p.1.symm, p.2.1.symm, ?_⟩
        rw [(hsome _ he).1, p.2.2.1]
    · intro d hd
      obtain ⟨s, hs, m, hm, he⟩ := mem_dpTable_node.mp hd
      have p := entry_eq_some _ _ _ _ _ _ _ _ _ _ he
      obtain ⟨hnone, hsome⟩ := hrel s m hL hR
      cases hce : computeEntry c S .all s m (computeTable c S base .all order false l).cells
          (computeTable c S base .all order false r).cells with
      | none => exact absurd (hnone.mp hce) p.2.2.2.1
      | some e =>
        refine ⟨⟨s, m, e⟩, (mem_cells_node c S base order .all isRoot l r _).mpr
          ⟨(mem_allowed c S base order isRoot l r _).mpr hs,
           by rw [syntenies_eq c S base order isRoot l r]; exact hm, hce⟩, p.1.symm, p.2.1.symm, ?_⟩
        simp only
        rw [(hsome _ hce).1, p.2.2.1]
    · intro d hd; exact dp_finite _ _ _ _ _ hd
    · intro d hd
      obtain ⟨s, hs, m, hm, he⟩ := mem_dpTable_node.mp hd
      have p := entry_eq_some _ _ _ _ _ _ _ _ _ _ he
      obtain ⟨t0, t1, hp⟩ := best_attained _ _ _ _ _ _ _ _ _ _ p.2.2.2.1
      obtain ⟨ev, _, dl, hdl, dr, _, v0, v1, h0, _, _, _, hv⟩ := entry_attained _ _ _ _ _ _ _ _ _ _ hp
      have hfin := p.2.2.2.1
      rw [hv] at hfin
      have hv0 : v0 ≠ .inf := (add_ne_inf (add_ne_inf hfin).1).2
      rw [p.2.1]
      rcases ord_costs (c := c) (a := nodeAnn S base order isRoot l r)
          (ca := (annOrd S base order false l).data) (m := m) (hL.nz dl hdl) with
        ⟨hcont, _⟩ | ⟨_, hcv, hsv, _⟩
      · exact ne_zero_of_contained (hL.nz dl hdl) hcont
      · simp only [roleVal, hcv, hsv] at h0
        exact absurd (rv_inf h0) hv0
    · intro d hd
      obtain ⟨s, hs, m, hm, he⟩ := mem_dpTable_node.mp hd
      have p := entry_eq_some _ _ _ _ _ _ _ _ _ _ he
      rw [p.1]
      have := spOk_annOrd c S base order (.node l r) hS isRoot
      rw [annOrd_node] at this
      exact this.1 s hs

end SR.SpfsCode
