/-
  Brace balance: the depth scan is additive, balanced insertions are invisible to it.
-/
import SRVerif.Model.Tikz

namespace SR.Tikz

theorem balAux_nil (d : Nat) : balAux d [] = some d := rfl

theorem balAux_cons (d : Nat) (c : Char) (r : Str) :
    balAux d (c :: r) =
      if c = '{' then balAux (d + 1) r
      else if c = '}' then (if d = 0 then none else balAux (d - 1) r)
      else balAux d r := by
  simp [balAux]

theorem balAux_append (s t : Str) (d : Nat) :
    balAux d (s ++ t) = (balAux d s).bind (fun d' => balAux d' t) := by
  induction s generalizing d with
  | nil => simp [balAux_nil]
  | cons c r ih =>
    rw [List.cons_append, balAux_cons, balAux_cons]
    by_cases h1 : c = '{'
    · simp [h1, ih]
    · by_cases h2 : c = '}'
      · by_cases h3 : d = 0
        · simp [h2, h3]
        · have : ('}' : Char) ≠ '{' := by decide
          simp [h2, h3, ih, this]
      · simp [h1, h2, ih]

theorem balAux_shift (s : Str) (d d' k : Nat) (h : balAux d s = some d') :
    balAux (d + k) s = some (d' + k) := by
  induction s generalizing d with
  | nil => simp [balAux_nil] at h ⊢; omega
  | cons c r ih =>
    rw [balAux_cons] at h ⊢
    by_cases h1 : c = '{'
    · simp only [h1, if_true] at h ⊢
      have := ih (d + 1) h
      rwa [show d + 1 + k = d + k + 1 by omega] at this
    · by_cases h2 : c = '}'
      · have hne : ('}' : Char) ≠ '{' := by decide
        simp only [h2, hne, if_false, if_true] at h ⊢
        by_cases h3 : d = 0
        · simp [h3] at h
        · simp only [h3, if_false] at h
          have h4 : d + k ≠ 0 := by omega
          simp only [h4, if_false]
          have := ih (d - 1) h
          rwa [show d - 1 + k = d + k - 1 by omega] at this
      · simp only [h1, h2, if_false] at h ⊢
        exact ih d h

theorem isBalanced_iff (s : Str) : isBalanced s = true ↔ balAux 0 s = some 0 := by
  simp [isBalanced]

/-- A balanced string leaves any depth unchanged. -/
theorem balAux_of_balanced (s : Str) (h : isBalanced s = true) (d : Nat) : balAux d s = some d := by
  have := balAux_shift s 0 0 d ((isBalanced_iff s).1 h)
  simpa using this

theorem isBrace_false_iff (c : Char) : isBrace c = false ↔ c ≠ '{' ∧ c ≠ '}' := by
  simp [isBrace]

theorem balAux_of_braceFree (s : Str) (h : braceFree s = true) (d : Nat) : balAux d s = some d := by
  induction s with
  | nil => rfl
  | cons c r ih =>
    simp only [braceFree, List.all_cons, Bool.and_eq_true, Bool.not_eq_true'] at h
    have hc := (isBrace_false_iff c).1 h.1
    rw [balAux_cons]
    simp only [hc.1, hc.2, if_false]
    exact ih (by simpa [braceFree] using h.2)

theorem isBalanced_of_braceFree (s : Str) (h : braceFree s = true) : isBalanced s = true :=
  (isBalanced_iff s).2 (balAux_of_braceFree s h 0)

/-- Inserting a balanced string anywhere does not change the scan. -/
theorem balAux_insert (a t b : Str) (ht : isBalanced t = true) (d : Nat) :
    balAux d (a ++ t ++ b) = balAux d (a ++ b) := by
  rw [List.append_assoc, balAux_append, balAux_append a b]
  cases balAux d a with
  | none => rfl
  | some d1 =>
    simp only [Option.bind_some]
    rw [balAux_append, balAux_of_balanced t ht]
    rfl

theorem isBalanced_append (a b : Str) (ha : isBalanced a = true) (hb : isBalanced b = true) :
    isBalanced (a ++ b) = true := by
  rw [isBalanced_iff, balAux_append, balAux_of_balanced a ha]
  exact (isBalanced_iff b).1 hb

/-- Predicates that reject both braces only accept brace-free strings. -/
theorem braceFree_of_all (p : Char → Bool) (h1 : p '{' = false) (h2 : p '}' = false) (s : Str)
    (h : s.all p = true) : braceFree s = true := by
  simp only [braceFree, List.all_eq_true] at h ⊢
  intro c hc
  have := h c hc
  simp only [Bool.not_eq_true', isBrace_false_iff]
  constructor
  · intro e; subst e; simp [h1] at this
  · intro e; subst e; simp [h2] at this

theorem isBalanced_of_fillOK (k : HoleKind) (f : Str) (hk : Template.holeOK k = true)
    (hf : fillOK k f = true) : isBalanced f = true := by
  cases k with
  | coord => exact isBalanced_of_braceFree f (braceFree_of_all _ (by decide) (by decide) f hf)
  | num => exact isBalanced_of_braceFree f (braceFree_of_all _ (by decide) (by decide) f hf)
  | unit => exact isBalanced_of_braceFree f hf
  | color => exact isBalanced_of_braceFree f (braceFree_of_all _ (by decide) (by decide) f hf)
  | label => exact hf
  | index => exact isBalanced_of_braceFree f (braceFree_of_all _ (by decide) (by decide) f hf)
  | html => exact isBalanced_of_braceFree f (braceFree_of_all _ (by decide) (by decide) f hf)
  | kw cs =>
    simp only [Template.holeOK, Bool.and_eq_true, List.all_eq_true] at hk
    simp only [fillOK, List.contains_iff_mem] at hf
    exact isBalanced_of_braceFree f (hk.2 f hf)
  | other => simp [fillOK] at hf

/-- With admissible fillings the scan of an instantiated template is the scan of its literal
    skeleton. -/
theorem balAux_instantiate (t : Template) (fills : List Str) (hh : t.holesOK = true)
    (hf : fillsOK t.holes fills = true) (d : Nat) :
    balAux d (t.instantiate fills) = Template.balT d t := by
  induction t generalizing d fills with
  | nil => cases fills <;> simp [Template.instantiate, Template.balT, balAux_nil]
  | cons p r ih =>
    cases p with
    | lit s =>
      have hh' : Template.holesOK r = true := by
        simpa [Template.holesOK] using hh
      have hf' : fillsOK (Template.holes r) fills = true := by simpa [Template.holes] using hf
      simp only [Template.instantiate, Template.balT]
      rw [balAux_append]
      cases balAux d s with
      | none => rfl
      | some d1 => simpa using ih fills hh' hf' d1
    | hole k =>
      have hk : Template.holeOK k = true ∧ Template.holesOK r = true := by
        simpa [Template.holesOK] using hh
      cases fills with
      | nil => simp [Template.holes, fillsOK] at hf
      | cons f fs =>
        have hf' : fillOK k f = true ∧ fillsOK (Template.holes r) fs = true := by
          simpa [Template.holes, fillsOK] using hf
        simp only [Template.instantiate, Template.balT]
        rw [balAux_append, balAux_of_balanced f (isBalanced_of_fillOK k f hk.1 hf'.1)]
        simpa using ih fs hk.2 hf'.2 d

theorem isBalanced_instantiate (t : Template) (fills : List Str) (hb : t.litBalanced = true)
    (hh : t.holesOK = true) (hf : fillsOK t.holes fills = true) :
    isBalanced (t.instantiate fills) = true := by
  rw [isBalanced_iff, balAux_instantiate t fills hh hf]
  simpa [Template.litBalanced] using hb

/-- Joining balanced blocks with a balanced separator is balanced. -/
theorem isBalanced_intercalate (sep : Str) (blocks : List Str) (hs : isBalanced sep = true)
    (hb : ∀ b ∈ blocks, isBalanced b = true) : isBalanced (List.intercalate sep blocks) = true := by
  induction blocks with
  | nil => rfl
  | cons x xs ih =>
    cases xs with
    | nil => simpa [List.intercalate] using hb x (by simp)
    | cons y ys =>
      have ih' := ih (fun b hb' => hb b (List.mem_cons_of_mem _ hb'))
      have : List.intercalate sep (x :: y :: ys) = x ++ (sep ++ List.intercalate sep (y :: ys)) := by
        simp [List.intercalate, List.intersperse]
      rw [this]
      exact isBalanced_append _ _ (hb x (by simp)) (isBalanced_append _ _ hs ih')

/-! ### Independent reading of `isBalanced` through the signed depth -/

theorem depth_append (s t : Str) : depth (s ++ t) = depth s + depth t := by
  induction s with
  | nil => simp [depth]
  | cons c r ih => simp [depth, ih]; omega

theorem depth_nil : depth [] = 0 := rfl

theorem depth_cons (c : Char) (r : Str) :
    depth (c :: r) = (if c = '{' then 1 else if c = '}' then -1 else 0) + depth r := rfl

theorem prefix_cons_forall (c : Char) (r : Str) (P : Str → Prop) :
    (∀ p, p <+: c :: r → P p) ↔ (P [] ∧ ∀ q, q <+: r → P (c :: q)) := by
  constructor
  · intro h
    exact ⟨h [] (List.nil_prefix), fun q hq => h (c :: q) (by simpa using hq)⟩
  · intro h p hp
    cases p with
    | nil => exact h.1
    | cons a q =>
      rw [List.cons_prefix_cons] at hp
      obtain ⟨rfl, hq⟩ := hp
      exact h.2 q hq

theorem balAux_some_iff (s : Str) (d d' : Nat) :
    balAux d s = some d' ↔
      ((d : Int) + depth s = d' ∧ ∀ p, p <+: s → 0 ≤ (d : Int) + depth p) := by
  induction s generalizing d with
  | nil =>
    simp only [balAux_nil, depth_nil, Option.some.injEq, List.prefix_nil]
    constructor
    · intro h; subst h; exact ⟨by omega, fun p hp => by subst hp; simp [depth_nil]⟩
    · intro h; omega
  | cons c r ih =>
    rw [balAux_cons, prefix_cons_forall]
    by_cases h1 : c = '{'
    · subst h1
      simp only [if_true, ih, depth_cons, depth_nil]
      constructor
      · rintro ⟨h, hp⟩
        refine ⟨by omega, by omega, fun q hq => ?_⟩
        have := hp q hq; omega
      · rintro ⟨h, _, hp⟩
        refine ⟨by omega, fun q hq => ?_⟩
        have := hp q hq; omega
    · by_cases h2 : c = '}'
      · subst h2
        have hne : ('}' : Char) ≠ '{' := by decide
        simp only [hne, if_false, if_true, depth_cons, depth_nil]
        by_cases h3 : d = 0
        · subst h3
          simp only [if_true]
          constructor
          · intro h; cases h
          · rintro ⟨_, _, hp⟩
            have := hp [] List.nil_prefix
            simp only [depth_nil] at this
            omega
        · simp only [h3, if_false, ih]
          constructor
          · rintro ⟨h, hp⟩
            refine ⟨by omega, by omega, fun q hq => ?_⟩
            have := hp q hq; omega
          · rintro ⟨h, _, hp⟩
            refine ⟨by omega, fun q hq => ?_⟩
            have := hp q hq; omega
      · simp only [h1, h2, if_false, ih, depth_cons, depth_nil]
        constructor
        · rintro ⟨h, hp⟩
          refine ⟨by omega, by omega, fun q hq => ?_⟩
          have := hp q hq; omega
        · rintro ⟨h, _, hp⟩
          refine ⟨by omega, fun q hq => ?_⟩
          have := hp q hq; omega

/-- `isBalanced` says: total depth zero and no prefix dips below zero. -/
theorem isBalanced_spec (s : Str) :
    isBalanced s = true ↔ (depth s = 0 ∧ ∀ p, p <+: s → 0 ≤ depth p) := by
  rw [isBalanced_iff, balAux_some_iff]
  simp

end SR.Tikz
