/-
  C07 — the exchange argument.

  For a valid transfer-free solution `sol` of `o` with root species `s`, and
  `L` the root species of `lcaSol o`:

    * `s` is an ancestor-or-equal of `L`                          (`sp_isAnc_lca`)
    * `dlCost (lcaSol o) + floss·|L| ≤ dlCost sol + floss·|s|`     (`dl_lower`)
      i.e. `cost sol ≥ cost lca + floss·(depth L − depth s)`
    * if `floss > 0` and equality holds, the species mappings agree (`dl_unique`).

  All three are by induction on the object tree, from one local inequality
  (`local_ineq`) comparing a vertical node of `sol` with the LCA node.
-/
import SRVerif.Proofs.LcaMap

namespace SR

open Path

/-! ### What `lcaSol` maps to -/

theorem isAnc_foldl_lcp (r : Path) (rest : List Path) (p : Path) :
    isAnc r (rest.foldl lcp p) = true ↔ isAnc r p = true ∧ ∀ q ∈ rest, isAnc r q = true := by
  induction rest generalizing p with
  | nil => simp
  | cons x xs ih =>
    simp only [List.foldl_cons, ih, isAnc_lcp_iff, List.mem_cons, forall_eq_or_imp]
    exact and_assoc

/-- `lcpAll` is the greatest common ancestor of a non-empty list. -/
theorem isAnc_lcpAll (r : Path) {ps : List Path} (h : ps ≠ []) :
    isAnc r (lcpAll ps) = true ↔ ∀ q ∈ ps, isAnc r q = true := by
  cases ps with
  | nil => exact absurd rfl h
  | cons p rest => simp only [lcpAll, isAnc_foldl_lcp, List.mem_cons, forall_eq_or_imp]

theorem leafSpecies_ne_nil (o : OTree) : o.leafSpecies ≠ [] := by
  induction o with
  | leaf sp f => simp [OTree.leafSpecies]
  | node l r ihl _ => simp [OTree.leafSpecies, ihl]

/-- The species of the root of `lcaSol o` is the greatest common ancestor of
    the species of the leaves of `o`. -/
theorem isAnc_lcaSol_sp (r : Path) (o : OTree) :
    isAnc r (lcaSol o).sp = true ↔ ∀ q ∈ o.leafSpecies, isAnc r q = true := by
  induction o with
  | leaf sp f => simp [lcaSol, OTree.leafSpecies]
  | node l r' ihl ihr =>
    simp only [lcaSol, Sol.sp_node, isAnc_lcp_iff, ihl, ihr, OTree.leafSpecies, List.mem_append]
    constructor
    · rintro ⟨h1, h2⟩ q (hq | hq)
      · exact h1 q hq
      · exact h2 q hq
    · intro h
      exact ⟨fun q hq => h q (Or.inl hq), fun q hq => h q (Or.inr hq)⟩

theorem lcaSol_sp_eq_lcpAll (o : OTree) : (lcaSol o).sp = lcpAll o.leafSpecies := by
  apply isAnc_antisymm
  · rw [isAnc_lcpAll _ (leafSpecies_ne_nil o), ← isAnc_lcaSol_sp]; exact isAnc_refl _
  · rw [isAnc_lcaSol_sp, ← isAnc_lcpAll _ (leafSpecies_ne_nil o)]; exact isAnc_refl _

/-- Every node of the solution sits at the longest common prefix of the
    species of the leaves below it. -/
def mapsToLca : OTree → Sol → Prop
  | .leaf sp _, .leaf s _ => s = lcpAll [sp]
  | .node ol or, .node s _ l r =>
    s = lcpAll (OTree.leafSpecies (.node ol or)) ∧ mapsToLca ol l ∧ mapsToLca or r
  | _, _ => False

theorem lcaSol_mapsToLca (o : OTree) : mapsToLca o (lcaSol o) := by
  induction o with
  | leaf sp f => simp [lcaSol, mapsToLca, lcpAll]
  | node l r ihl ihr =>
    refine ⟨?_, ihl, ihr⟩
    exact lcaSol_sp_eq_lcpAll (.node l r)

/-! ### `lcaSol` is valid, transfer-free, and carries the plain annotations -/

theorem lcaSol_validRec (o : OTree) : Spec.validRec o (lcaSol o) = true := by
  induction o with
  | leaf sp f => simp [lcaSol, Spec.validRec]
  | node l r ihl ihr =>
    simp only [lcaSol, Spec.validRec, Bool.and_eq_true, ihl, ihr, and_true]
    rw [internalEvent_of_isAnc (lcp_isAnc_left _ _) (lcp_isAnc_right _ _)]
    split <;> simp

theorem lcaSol_transferFree (o : OTree) : (lcaSol o).transferFree = true := by
  induction o with
  | leaf sp f => simp [lcaSol, Sol.transferFree]
  | node l r ihl ihr =>
    simp only [lcaSol, Sol.transferFree, Bool.and_eq_true, ihl, ihr, and_true]
    rw [internalEvent_of_isAnc (lcp_isAnc_left _ _) (lcp_isAnc_right _ _)]
    split <;> simp

theorem lcaSol_famsMatch (o : OTree) : famsMatch o (lcaSol o) = true := by
  induction o with
  | leaf sp f => simp [lcaSol, famsMatch]
  | node l r ihl ihr => simp [lcaSol, famsMatch, ihl, ihr]

/-! ### The evaluator on valid solutions -/

theorem lcaMap_inf_add (a : Cost) : Cost.inf + a = Cost.inf := by
  show Cost.add _ _ = _; cases a <;> rfl

theorem lcaMap_add_inf (a : Cost) : a + Cost.inf = Cost.inf := by
  show Cost.add _ _ = _; cases a <;> rfl

theorem lcaMap_fin_add_fin (a b : Nat) : Cost.fin a + Cost.fin b = Cost.fin (a + b) := rfl

theorem recCost_node_of_valid (c : Costs) {ol or : OTree} {s : Path} {g : List Nat} {l r : Sol}
    (hev : internalEvent s l.sp r.sp ≠ .invalid) :
    recCost c (.node ol or) (.node s g l r)
      = localRecCost c s l.sp r.sp + (recCost c ol l + recCost c or r) := by
  simp only [recCost]

/-- On a valid transfer-free solution the evaluator returns the finite number
    `dlCost`, whatever the transfer cost. -/
theorem recCost_of_transferFree (c : Costs) :
    ∀ (o : OTree) (sol : Sol), Spec.validRec o sol = true → sol.transferFree = true →
      recCost c o sol = .fin (dlCost c sol) := by
  intro o
  induction o with
  | leaf sp f =>
    intro sol hv _
    cases sol with
    | leaf s g =>
      simp only [Spec.validRec] at hv
      simp [recCost, hv, dlCost]
    | node s g l r => simp [Spec.validRec] at hv
  | node ol or ihl ihr =>
    intro sol hv ht
    cases sol with
    | leaf s g => simp [Spec.validRec] at hv
    | node s g l r =>
      simp only [Spec.validRec, Bool.and_eq_true, bne_iff_ne, ne_eq] at hv
      simp only [Sol.transferFree, Bool.and_eq_true, bne_iff_ne, ne_eq] at ht
      obtain ⟨⟨hev, hvl⟩, hvr⟩ := hv
      obtain ⟨⟨hnt, htl⟩, htr⟩ := ht
      obtain ⟨ha, hb, -⟩ := internalEvent_vertical hev hnt
      rw [recCost_node_of_valid c hev, ihl l hvl htl, ihr r hvr htr, localRecCost_vertical c ha hb]
      simp only [lcaMap_fin_add_fin, dlCost]

/-- With transfers forbidden, a valid solution containing a transfer costs `inf`. -/
theorem recCost_of_transfer (c : Costs) (hh : c.hgt = .inf) :
    ∀ (o : OTree) (sol : Sol), Spec.validRec o sol = true → sol.transferFree = false →
      recCost c o sol = .inf := by
  intro o
  induction o with
  | leaf sp f =>
    intro sol hv ht
    cases sol with
    | leaf s g => simp [Sol.transferFree] at ht
    | node s g l r => simp [Spec.validRec] at hv
  | node ol or ihl ihr =>
    intro sol hv ht
    cases sol with
    | leaf s g => simp [Spec.validRec] at hv
    | node s g l r =>
      simp only [Spec.validRec, Bool.and_eq_true, bne_iff_ne, ne_eq] at hv
      obtain ⟨⟨hev, hvl⟩, hvr⟩ := hv
      rw [recCost_node_of_valid c hev]
      by_cases hnt : internalEvent s l.sp r.sp = .hgt
      · have : localRecCost c s l.sp r.sp = .inf := by
          simp only [localRecCost, hnt, hh, lcaMap_inf_add]
        rw [this, lcaMap_inf_add]
      · cases htl : l.transferFree
        · rw [ihl l hvl htl, lcaMap_inf_add, lcaMap_add_inf]
        · cases htr : r.transferFree
          · rw [ihr r hvr htr, lcaMap_add_inf, lcaMap_add_inf]
          · simp [Sol.transferFree, hnt, htl, htr] at ht

/-! ### The local inequality -/

/-- A vertical node `s ▸ (a, b)` of any solution, compared with the node
    `L ▸ (La, Lb)` where `La`, `Lb` are below `a`, `b` and `L = lcp La Lb`. -/
theorem local_ineq (c : Costs) (hc : c.spe ≤ c.dup + 2 * c.floss) {s a b La Lb : Path}
    (hsa : isAnc s a = true) (hsb : isAnc s b = true)
    (haL : isAnc a La = true) (hbL : isAnc b Lb = true) :
    dlLocal c (lcp La Lb) La Lb + 2 * (c.floss * (lcp La Lb).length)
        + (c.floss * a.length + c.floss * b.length)
      ≤ dlLocal c s a b + 2 * (c.floss * s.length)
        + (c.floss * La.length + c.floss * Lb.length) := by
  have hLa := lcp_isAnc_left La Lb
  have hLb := lcp_isAnc_right La Lb
  cases hs : specCond s a b
  · -- `sol` has a duplication here
    have e1 := dlLocal_dup_form c hs hsa hsb
    cases hL : specCond (lcp La Lb) La Lb
    · have e2 := dlLocal_dup_form c hL hLa hLb
      omega
    · have e2 := dlLocal_spec_form c hL hLa hLb
      omega
  · -- `sol` has a speciation here: so has the LCA mapping, at the same species
    obtain ⟨hl, hinc⟩ := specCond_descend hs haL hbL
    have hL : specCond (lcp La Lb) La Lb = true := by simp [specCond, hinc]
    have e1 := dlLocal_spec_form c hs hsa hsb
    have e2 := dlLocal_spec_form c hL hLa hLb
    rw [hl] at e2 ⊢
    omega

/-! ### Optimality and uniqueness on transfer-free solutions -/

theorem validRec_leaf_inv {sp : Path} {f : List Nat} {sol : Sol}
    (h : Spec.validRec (.leaf sp f) sol = true) : ∃ g, sol = .leaf sp g := by
  cases sol with
  | leaf s g =>
    simp only [Spec.validRec, beq_iff_eq] at h
    exact ⟨g, by rw [h]⟩
  | node s g l r => simp [Spec.validRec] at h

theorem validRec_node_inv {ol or : OTree} {sol : Sol}
    (h : Spec.validRec (.node ol or) sol = true) :
    ∃ s g l r, sol = .node s g l r ∧ internalEvent s l.sp r.sp ≠ .invalid ∧
      Spec.validRec ol l = true ∧ Spec.validRec or r = true := by
  cases sol with
  | leaf s g => simp [Spec.validRec] at h
  | node s g l r =>
    simp only [Spec.validRec, Bool.and_eq_true, bne_iff_ne, ne_eq] at h
    exact ⟨s, g, l, r, rfl, h.1.1, h.1.2, h.2⟩

/-- Every valid transfer-free solution maps each node to an ancestor-or-equal
    of its LCA image, and pays at least `floss` per level of difference. -/
theorem dl_lower (c : Costs) (hc : c.spe ≤ c.dup + 2 * c.floss) :
    ∀ (o : OTree) (sol : Sol), Spec.validRec o sol = true → sol.transferFree = true →
      isAnc sol.sp (lcaSol o).sp = true ∧
      dlCost c (lcaSol o) + c.floss * (lcaSol o).sp.length
        ≤ dlCost c sol + c.floss * sol.sp.length := by
  intro o
  induction o with
  | leaf sp f =>
    intro sol hv _
    obtain ⟨g, rfl⟩ := validRec_leaf_inv hv
    simp [lcaSol, dlCost, isAnc_refl]
  | node ol or ihl ihr =>
    intro sol hv ht
    obtain ⟨s, g, l, r, rfl, hev, hvl, hvr⟩ := validRec_node_inv hv
    simp only [Sol.transferFree, Bool.and_eq_true, bne_iff_ne, ne_eq] at ht
    obtain ⟨⟨hnt, htl⟩, htr⟩ := ht
    obtain ⟨ha, hb, -⟩ := internalEvent_vertical hev hnt
    obtain ⟨hla, hlc⟩ := ihl l hvl htl
    obtain ⟨hra, hrc⟩ := ihr r hvr htr
    have hanc : isAnc s (lcp (lcaSol ol).sp (lcaSol or).sp) = true :=
      isAnc_lcp (isAnc_trans ha hla) (isAnc_trans hb hra)
    have hloc := local_ineq c hc ha hb hla hra
    have hmono : c.floss * s.length ≤ c.floss * (lcp (lcaSol ol).sp (lcaSol or).sp).length :=
      Nat.mul_le_mul_left _ (length_le_of_isAnc hanc)
    refine ⟨hanc, ?_⟩
    simp only [lcaSol, Sol.sp_node, dlCost]
    omega

/-- Equality in `dl_lower` forces the LCA mapping when losses cost something. -/
theorem dl_unique (c : Costs) (hc : c.spe ≤ c.dup + 2 * c.floss) (hf : 0 < c.floss) :
    ∀ (o : OTree) (sol : Sol), Spec.validRec o sol = true → sol.transferFree = true →
      dlCost c sol + c.floss * sol.sp.length
        ≤ dlCost c (lcaSol o) + c.floss * (lcaSol o).sp.length →
      sol.eraseFam = (lcaSol o).eraseFam := by
  intro o
  induction o with
  | leaf sp f =>
    intro sol hv _ _
    obtain ⟨g, rfl⟩ := validRec_leaf_inv hv
    simp [lcaSol, Sol.eraseFam]
  | node ol or ihl ihr =>
    intro sol hv ht hle
    obtain ⟨s, g, l, r, rfl, hev, hvl, hvr⟩ := validRec_node_inv hv
    simp only [Sol.transferFree, Bool.and_eq_true, bne_iff_ne, ne_eq] at ht
    obtain ⟨⟨hnt, htl⟩, htr⟩ := ht
    obtain ⟨ha, hb, -⟩ := internalEvent_vertical hev hnt
    obtain ⟨hla, hlc⟩ := dl_lower c hc ol l hvl htl
    obtain ⟨hra, hrc⟩ := dl_lower c hc or r hvr htr
    have hanc : isAnc s (lcp (lcaSol ol).sp (lcaSol or).sp) = true :=
      isAnc_lcp (isAnc_trans ha hla) (isAnc_trans hb hra)
    have hloc := local_ineq c hc ha hb hla hra
    have hmono : c.floss * s.length ≤ c.floss * (lcp (lcaSol ol).sp (lcaSol or).sp).length :=
      Nat.mul_le_mul_left _ (length_le_of_isAnc hanc)
    simp only [lcaSol, Sol.sp_node, dlCost] at hle
    have hl' : dlCost c l + c.floss * l.sp.length
        ≤ dlCost c (lcaSol ol) + c.floss * (lcaSol ol).sp.length := by omega
    have hr' : dlCost c r + c.floss * r.sp.length
        ≤ dlCost c (lcaSol or) + c.floss * (lcaSol or).sp.length := by omega
    have hlen : c.floss * (lcp (lcaSol ol).sp (lcaSol or).sp).length ≤ c.floss * s.length := by
      omega
    have hs : s = lcp (lcaSol ol).sp (lcaSol or).sp :=
      eq_of_isAnc_of_length_le hanc (Nat.le_of_mul_le_mul_left hlen hf)
    simp only [lcaSol, Sol.eraseFam, ihl l hvl htl hl', ihr r hvr htr hr', hs]

/-- A solution with the plain annotations is determined by its species mapping. -/
theorem eq_of_eraseFam_eq :
    ∀ (o : OTree) (s t : Sol), famsMatch o s = true → famsMatch o t = true →
      s.eraseFam = t.eraseFam → s = t := by
  intro o
  induction o with
  | leaf sp f =>
    intro s t hs ht h
    cases s <;> cases t <;> simp_all [famsMatch, Sol.eraseFam]
  | node ol or ihl ihr =>
    intro s t hs ht h
    cases s with
    | leaf _ _ => simp [famsMatch] at hs
    | node s1 g1 l1 r1 =>
      cases t with
      | leaf _ _ => simp [famsMatch] at ht
      | node s2 g2 l2 r2 =>
        simp only [famsMatch, Bool.and_eq_true, beq_iff_eq] at hs ht
        simp only [Sol.eraseFam, Sol.node.injEq, true_and] at h
        obtain ⟨⟨rfl, hl1⟩, hr1⟩ := hs
        obtain ⟨⟨rfl, hl2⟩, hr2⟩ := ht
        rw [h.1, ihl l1 l2 hl1 hl2 h.2.1, ihr r1 r2 hr1 hr2 h.2.2]

theorem totalCost_plain_eq_recCost (c : Costs) (o : OTree) (sol : Sol) :
    totalCost c .plain o sol = recCost c o sol := by
  simp only [totalCost, labelingCost]
  show Cost.add _ _ = _
  cases recCost c o sol <;> simp [Cost.add]

theorem famsMatch_of_mem_allMappings (S : RTree) :
    ∀ (o : OTree) (sol : Sol), sol ∈ Spec.allMappings S o → famsMatch o sol = true := by
  intro o
  induction o with
  | leaf sp f =>
    intro sol h
    simp only [Spec.allMappings, List.mem_singleton] at h
    subst h; simp [famsMatch]
  | node l r ihl ihr =>
    intro sol h
    simp only [Spec.allMappings, List.mem_flatMap, List.mem_map] at h
    obtain ⟨ml, hml, mr, hmr, s, _, rfl⟩ := h
    simp [famsMatch, ihl ml hml, ihr mr hmr]

end SR
