/-
  C14 — the rectangles of the branches of a species lie inside the species'
  box (more precisely: across, inside the trunk with `species_branch_padding`
  on both sides; along the sequence axis, between `trunk_overhead` below the
  start of the trunk and the end of the species' box), and the anchors of a
  species lie on the first edge of its trunk.

  VERTICAL code path; the HORIZONTAL one follows through the mirror theorem.
  Phases: shape of one iteration (`stepV_shape`), bottoms of the non-fork
  branches (`foldE_stepV_bottom`), anchors are centres of rects
  (`foldE_stepV_anch`), `_layout_branches` (`RelV`), bounds given by the trunk
  dimensions, the size pass (`NodeQ`), the placement pass (`nodeAtV_q`),
  assembly (`computeV_inside`).
-/
import SRVerif.Proofs.LayoutGeom
import SRVerif.Proofs.LayoutStep
import Mathlib.Tactic.Ring

namespace SR.Layout

open SR

/-! ### One iteration of the branch loop -/

theorem stepV_shape {P : Params} {sizes : Key → Size} {an : List Key} {bs bs' : BState}
    {b : Branch} (h : stepV P sizes an bs b = .ok bs') :
    ∃ pos, bs'.rects = bs.rects ++ [(b.key, Rect.makeFrom pos (sizes b.key))] ∧
      bs'.anchors = (if b.key ∈ an then
        bs.anchors ++ [(b.key, ⟨(Rect.makeFrom pos (sizes b.key)).center.x, 0⟩)] else bs.anchors) ∧
      (b.kind ≠ .spec → b.kind ≠ .loss → pos.y + (sizes b.key).h ≤ 0) := by
  obtain ⟨key, kind, left, right⟩ := b
  cases kind
  case leaf =>
    simp only [stepV] at h; cases h
    exact ⟨_, rfl, rfl, fun _ _ => by simp⟩
  case spec =>
    simp only [stepV] at h; cases h
    exact ⟨_, rfl, rfl, fun h _ => absurd rfl h⟩
  case loss =>
    simp only [stepV] at h; cases h
    exact ⟨_, rfl, rfl, fun _ h => absurd rfl h⟩
  case dup =>
    simp only [stepV] at h
    cases h1 : rectOf bs.rects left with
    | error e => cases h2 : rectOf bs.rects right <;> simp only [h1, h2] at h <;> cases h
    | ok l =>
      cases h2 : rectOf bs.rects right with
      | error e => simp only [h1, h2] at h; cases h
      | ok r =>
        simp only [h1, h2] at h
        cases h
        refine ⟨_, rfl, rfl, fun _ _ => ?_⟩
        have a1 := min_le_left (min P.pad l.y) r.y
        have a2 := min_le_left P.pad l.y
        simp only
        linarith
  case hgt =>
    simp only [stepV] at h
    cases h1 : rectOf bs.rects left with
    | error e => simp only [h1] at h; cases h
    | ok c =>
      simp only [h1] at h
      cases h
      refine ⟨_, rfl, rfl, fun _ _ => ?_⟩
      have a2 := min_le_left P.pad c.y
      simp only
      linarith

theorem foldE_stepV_bottom {P : Params} {sizes : Key → Size} {an : List Key} (bl : List Branch)
    {bs bs' : BState} (h : foldE (stepV P sizes an) bl bs = .ok bs')
    (hk : ∀ b ∈ bl, b.kind ≠ .spec ∧ b.kind ≠ .loss)
    (h0 : ∀ e ∈ bs.rects, e.2.y + e.2.h ≤ 0) : ∀ e ∈ bs'.rects, e.2.y + e.2.h ≤ 0 := by
  induction bl generalizing bs with
  | nil => simp only [foldE] at h; cases h; exact h0
  | cons b t ih =>
    simp only [foldE] at h
    cases hs : stepV P sizes an bs b with
    | error e => rw [hs] at h; cases h
    | ok bs1 =>
      rw [hs] at h
      refine ih h (fun b' hb' => hk b' (List.mem_cons_of_mem _ hb')) ?_
      obtain ⟨pos, hr, _, hb⟩ := stepV_shape hs
      rw [hr]
      intro e he
      rcases List.mem_append.1 he with he | he
      · exact h0 e he
      · simp only [List.mem_singleton] at he
        subst he
        have := hk b (List.mem_cons_self ..)
        exact hb this.1 this.2

/-- Every anchor is the centre (across) of the rect of a branch with the same key. -/
def AnchRel (rects : List (Key × Rect)) (anchors : List (Key × Pos)) : Prop :=
  ∀ e ∈ anchors, ∃ r, (e.1, r) ∈ rects ∧ e.2 = ⟨r.center.x, 0⟩

theorem foldE_stepV_anch {P : Params} {sizes : Key → Size} {an : List Key} (bl : List Branch)
    {bs bs' : BState} (h : foldE (stepV P sizes an) bl bs = .ok bs')
    (h0 : AnchRel bs.rects bs.anchors) : AnchRel bs'.rects bs'.anchors := by
  induction bl generalizing bs with
  | nil => simp only [foldE] at h; cases h; exact h0
  | cons b t ih =>
    simp only [foldE] at h
    cases hs : stepV P sizes an bs b with
    | error e => rw [hs] at h; cases h
    | ok bs1 =>
      rw [hs] at h
      refine ih h ?_
      obtain ⟨pos, hr, ha, _⟩ := stepV_shape hs
      rw [hr, ha]
      intro e he
      have old : ∀ e ∈ bs.anchors, ∃ r, (e.1, r) ∈
          bs.rects ++ [(b.key, Rect.makeFrom pos (sizes b.key))] ∧ e.2 = ⟨r.center.x, 0⟩ := by
        intro e he
        obtain ⟨r, h1, h2⟩ := h0 e he
        exact ⟨r, List.mem_append_left _ h1, h2⟩
      split at he
      · rcases List.mem_append.1 he with he | he
        · exact old e he
        · simp only [List.mem_singleton] at he
          subst he
          exact ⟨_, List.mem_append_right _ (List.mem_singleton.2 rfl), rfl⟩
      · exact old e he

/-! ### `_layout_branches` -/

/-- What `_layout_branches` guarantees for the relative layout of a species
    (in addition to `GoodLay`). -/
structure RelV (x : SpState) (lay : SpLayout) : Prop where
  bottom : (∀ b ∈ x.branches, b.kind ≠ .spec ∧ b.kind ≠ .loss) →
    ∀ e ∈ lay.rects, e.2.y + e.2.h ≤ 0
  anch : AnchRel lay.rects lay.anchors

theorem layoutBranchesV_rel {P : Params} {sizes : Key → Size} {x : SpState} {lay : SpLayout}
    (h : layoutBranchesV P sizes x = .ok lay) : RelV x lay := by
  unfold layoutBranchesV at h
  cases hf : foldE (stepV P sizes x.anchors) x.branches ⟨0, P.pad, [], []⟩ with
  | error e => rw [hf] at h; cases h
  | ok bs =>
    rw [hf] at h
    have hb := fun hk => foldE_stepV_bottom x.branches hf hk (by intro e he; cases he)
    have ha := foldE_stepV_anch x.branches hf (by intro e he; cases he)
    simp only at h
    split at h
    · cases h
      exact ⟨hb, ha⟩
    · cases h
      refine ⟨?_, ?_⟩
      · intro hk e he
        simp only [shiftRects, List.mem_map] at he
        obtain ⟨e0, he0, rfl⟩ := he
        have := hb hk e0 he0
        simpa [Rect.shift] using this
      · intro e he
        simp only [shiftAnchors, List.mem_map] at he
        obtain ⟨e0, he0, rfl⟩ := he
        obtain ⟨r, h1, h2⟩ := ha e0 he0
        refine ⟨r.shift ⟨minOf (bs.rects.map fun e => -(e.2.right.x)) - P.pad, 0⟩, ?_, ?_⟩
        · simp only [shiftRects, List.mem_map]
          exact ⟨(e0.1, r), h1, rfl⟩
        · rw [h2]
          simp only [Pos.add, Rect.center, Rect.shift, Pos.mk.injEq]
          constructor <;> ring

theorem layoutBranchesV_branches {P : Params} {sizes : Key → Size} {x : SpState} {lay : SpLayout}
    (h : layoutBranchesV P sizes x = .ok lay) : lay.branches = x.branches := by
  unfold layoutBranchesV at h
  cases hf : foldE (stepV P sizes x.anchors) x.branches ⟨0, P.pad, [], []⟩ with
  | error e => rw [hf] at h; cases h
  | ok bs =>
    rw [hf] at h
    simp only at h
    split at h <;> cases h <;> rfl

theorem layoutAllV_lookup {P : Params} {sizes : Key → Size} (st : LState)
    {lays : List (Path × SpLayout)} (h : layoutAllV P sizes st = .ok lays)
    {p : Path} {lay : SpLayout} (hl : lookupSp lays p = some lay) :
    ∃ x, getSp st p = some x ∧ layoutBranchesV P sizes x = .ok lay := by
  induction st generalizing lays with
  | nil => simp only [layoutAllV] at h; cases h; cases hl
  | cons a t ih =>
    obtain ⟨s, sp⟩ := a
    simp only [layoutAllV] at h
    cases h1 : layoutBranchesV P sizes sp with
    | error e => rw [h1] at h; cases layoutAllV P sizes t <;> cases h
    | ok l =>
      cases h2 : layoutAllV P sizes t with
      | error e => rw [h1, h2] at h; cases h
      | ok ls =>
        rw [h1, h2] at h
        cases h
        simp only [lookupSp] at hl
        simp only [getSp]
        split at hl
        · rename_i hs
          cases hl
          exact ⟨sp, by simp [hs], h1⟩
        · rename_i hs
          simp only [hs, if_false]
          exact ih h2 hl

/-! ### Bounds given by the trunk dimensions -/

theorem trunkDimsV_bounds (P : Params) {rects : List (Key × Rect)} {e : Key × Rect}
    (he : e ∈ rects) :
    -e.2.x + P.pad ≤ (trunkDimsV P rects).1 ∧ -e.2.y + P.overhead ≤ (trunkDimsV P rects).2.1 ∧
      e.2.y + e.2.h + P.pad ≤ (trunkDimsV P rects).2.2 := by
  unfold trunkDimsV
  have hne : rects.isEmpty = false := by
    cases rects with
    | nil => cases he
    | cons _ _ => rfl
  simp only [hne, Bool.false_eq_true, ↓reduceIte]
  have h1 : -(e.2.topLeft.x) ≤ maxOf (rects.map fun e => -(e.2.topLeft.x)) :=
    le_maxOf (List.mem_map.2 ⟨e, he, rfl⟩)
  have h2 : -(e.2.topLeft.y) ≤ maxOf (rects.map fun e => -(e.2.topLeft.y)) :=
    le_maxOf (List.mem_map.2 ⟨e, he, rfl⟩)
  have h3 : e.2.bottomRight.y ≤ maxOf (rects.map fun e => e.2.bottomRight.y) :=
    le_maxOf (List.mem_map.2 ⟨e, he, rfl⟩)
  have m2 := le_max_right (0 : Rat) (maxOf (rects.map fun e => -(e.2.topLeft.y)))
  have m3 := le_max_right (0 : Rat) (maxOf (rects.map fun e => e.2.bottomRight.y))
  simp only [Rect.topLeft, Rect.bottomRight] at h1 h2 h3 m2 m3 ⊢
  refine ⟨by linarith, by linarith, by linarith⟩

/-! ### The size pass -/

/-- Per-species facts after the size pass: the trunk has the dimensions computed
    from the species' own relative rects; for an internal species so has the
    fork, and trunk and fork fit in the height of the box. -/
def NodeQ (P : Params) (lays : Path → Option SpLayout) (i : Info) (internal : Bool) : Prop :=
  lays i.sp = some i.lay ∧ i.trunk.w = (trunkDimsV P i.lay.rects).1 ∧
    i.trunk.h = (trunkDimsV P i.lay.rects).2.1 ∧
    (internal = true → i.fork = (trunkDimsV P i.lay.rects).2.2 ∧ i.trunk.h + i.fork ≤ i.size.h)

def AllQ (Q : Info → Bool → Prop) : ITree → Prop
  | .leaf i => Q i false
  | .node i l r => Q i true ∧ AllQ Q l ∧ AllQ Q r

theorem sizesV_allQ {P : Params} {lays : Path → Option SpLayout} (hlev : 0 ≤ P.level)
    (B : BTree) : ∀ (p : Path) (t : ITree), sizesV P lays B p = .ok t → GoodV P t p →
      AllQ (NodeQ P lays) t := by
  induction B with
  | leaf =>
    intro p t h _
    simp only [sizesV] at h
    cases hl : lays p with
    | none => rw [hl] at h; cases h
    | some lay =>
      rw [hl] at h
      simp only at h
      cases h
      exact ⟨hl, rfl, rfl, fun h => by cases h⟩
  | node a b iha ihb =>
    intro p t h g
    simp only [sizesV] at h
    cases h1 : sizesV P lays a (p ++ [0]) with
    | error e => rw [h1] at h; cases h
    | ok lt =>
      cases h2 : sizesV P lays b (p ++ [1]) with
      | error e => rw [h1, h2] at h; cases h
      | ok rt =>
        cases hl : lays p with
        | none => rw [h1, h2, hl] at h; cases h
        | some lay =>
          rw [h1, h2, hl] at h
          simp only at h
          cases h
          obtain ⟨_, _, gl, gr⟩ := g
          refine ⟨⟨hl, rfl, rfl, fun _ => ⟨rfl, ?_⟩⟩, iha _ _ h1 gl, ihb _ _ h2 gr⟩
          have := gl.info.h
          have hM := le_max_left lt.info.size.h rt.info.size.h
          simp only [Rect.makeFrom]
          linarith

/-! ### The placement pass -/

theorem nodeAtV_q {Q : Info → Bool → Prop} (q : Path) :
    ∀ (t : ITree) (r : Rect) (sl : SubLayout), AllQ Q t → Sized t r → nodeAtV t r q = some sl →
      ∃ i r' b, sl = finishV i r' ∧ Q i b ∧ r'.h = i.size.h := by
  induction q with
  | nil =>
    intro t r sl hq hs h
    rw [nodeAtV_nil] at h
    cases h
    cases t with
    | leaf i => exact ⟨i, r, false, rfl, hq, hs.h⟩
    | node i lt rt => exact ⟨i, r, true, rfl, hq.1, hs.h⟩
  | cons k q ih =>
    intro t r sl hq hs h
    cases t with
    | leaf i => simp [nodeAtV] at h
    | node i lt rt =>
      rcases nodeAtV_cons h with ⟨_, h⟩ | ⟨_, h⟩
      · exact ih lt _ sl hq.2.1 (sized_rectL i lt r) h
      · exact ih rt _ sl hq.2.2 (sized_rectR i rt r) h

theorem nodeAtV_q_internal {Q : Info → Bool → Prop} (q : Path) :
    ∀ (t : ITree) (r : Rect) (sl c : SubLayout), AllQ Q t → Sized t r →
      nodeAtV t r q = some sl → nodeAtV t r (q ++ [0]) = some c →
      ∃ i r', sl = finishV i r' ∧ Q i true ∧ r'.h = i.size.h := by
  induction q with
  | nil =>
    intro t r sl c hq hs h hc
    rw [nodeAtV_nil] at h
    cases h
    cases t with
    | leaf i => simp [nodeAtV] at hc
    | node i lt rt => exact ⟨i, r, rfl, hq.1, hs.h⟩
  | cons k q ih =>
    intro t r sl c hq hs h hc
    cases t with
    | leaf i => simp [nodeAtV] at h
    | node i lt rt =>
      simp only [List.cons_append] at hc
      rcases nodeAtV_cons h with ⟨hk, h⟩ | ⟨hk, h⟩
      · subst hk
        simp only [nodeAtV, ↓reduceIte] at hc
        exact ih lt _ sl c hq.2.1 (sized_rectL i lt r) h hc
      · subst hk
        simp only [nodeAtV, ↓reduceIte, one_ne_zero] at hc
        exact ih rt _ sl c hq.2.2 (sized_rectR i rt r) h hc

/-! ### One finished species -/

/-- `p` is a point of the closed rectangle `r`. -/
def Rect.has (r : Rect) (p : Pos) : Prop :=
  r.x ≤ p.x ∧ p.x ≤ r.x + r.w ∧ r.y ≤ p.y ∧ p.y ≤ r.y + r.h

theorem Rect.has_tr (r : Rect) (p : Pos) : r.tr.has p.tr ↔ r.has p := by
  simp only [Rect.has, Rect.tr, Pos.tr]
  constructor
  · rintro ⟨a, b, c, d⟩; exact ⟨c, d, a, b⟩
  · rintro ⟨a, b, c, d⟩; exact ⟨c, d, a, b⟩

/-- The four anchor points of a finished branch are points of its rect. -/
theorem finishBranchV_pts (off : Pos) (b : Branch) (r : Rect) (hw : 0 ≤ r.w) (hh : 0 ≤ r.h) :
    (finishBranchV off b r).rect = r.shift off ∧
    (finishBranchV off b r).rect.has (finishBranchV off b r).aParent ∧
    (finishBranchV off b r).rect.has (finishBranchV off b r).aLeft ∧
    (finishBranchV off b r).rect.has (finishBranchV off b r).aRight ∧
    (finishBranchV off b r).rect.has (finishBranchV off b r).aChild := by
  obtain ⟨key, kind, left, right⟩ := b
  cases kind <;>
    simp only [finishBranchV, Rect.has, Rect.shift, Rect.center, Rect.top, Rect.left, Rect.right,
      Rect.bottom, true_and] <;>
    refine ⟨⟨?_, ?_, ?_, ?_⟩, ⟨?_, ?_, ?_, ?_⟩, ⟨?_, ?_, ?_, ?_⟩, ⟨?_, ?_, ?_, ?_⟩⟩ <;> linarith

/-- The geometric facts about one finished species layout (VERTICAL). -/
structure InsideV (P : Params) (sl : SubLayout) : Prop where
  /-- across: inside the trunk, `pad` away from both sides -/
  left : ∀ fb ∈ sl.branches, sl.trunk.x + P.pad ≤ fb.rect.x
  right : ∀ fb ∈ sl.branches, fb.rect.x + fb.rect.w + P.pad ≤ sl.trunk.x + sl.trunk.w
  /-- sequence: at least `overhead` after the start of the trunk … -/
  top : ∀ fb ∈ sl.branches, sl.trunk.y + P.overhead ≤ fb.rect.y
  /-- … and before the end of the species' box -/
  bottom : ∀ fb ∈ sl.branches, fb.rect.y + fb.rect.h ≤ sl.rect.y + sl.rect.h
  /-- anchors: on the first edge of the trunk, `pad` away from both ends -/
  anchors : ∀ e ∈ sl.anchors, e.2.y = sl.trunk.y ∧ sl.trunk.x + P.pad ≤ e.2.x ∧
    e.2.x + P.pad ≤ sl.trunk.x + sl.trunk.w
  /-- the rect of a branch has positive extents and contains its four anchor points -/
  pts : ∀ fb ∈ sl.branches, 0 < fb.rect.w ∧ 0 < fb.rect.h ∧ fb.rect.has fb.aParent ∧
    fb.rect.has fb.aLeft ∧ fb.rect.has fb.aRight ∧ fb.rect.has fb.aChild

theorem finishV_inside {P : Params} {sizes : Key → Size} {lays : Path → Option SpLayout}
    {i : Info} {r : Rect} {b : Bool} {x : SpState}
    (hpos : ∀ k, 0 < (sizes k).w ∧ 0 < (sizes k).h) (hpad : 0 ≤ P.pad)
    (hq : NodeQ P lays i b) (hh : r.h = i.size.h) (hty : i.trunk.y = 0) (hthle : i.trunk.h ≤ i.size.h)
    (hgood : GoodLay P sizes i.lay) (hrel : RelV x i.lay) (hbr : i.lay.branches = x.branches)
    (hcase : (∀ b ∈ x.branches, b.kind ≠ .spec ∧ b.kind ≠ .loss) ∨ b = true) :
    InsideV P (finishV i r) := by
  obtain ⟨_, htw, hth, hint⟩ := hq
  have rectOf : ∀ fb ∈ (finishV i r).branches, ∃ e ∈ i.lay.rects,
      fb.rect = e.2.shift ((i.trunk.shift r.topLeft).bottomRight) := by
    intro fb hfb
    simp only [finishV, List.mem_map] at hfb
    obtain ⟨z, hz, rfl⟩ := hfb
    refine ⟨z.2, (List.of_mem_zip hz).2, ?_⟩
    obtain ⟨⟨key, kind, left, right⟩, e⟩ := z
    cases kind <;> rfl
  refine ⟨?_, ?_, ?_, ?_, ?_, ?_⟩
  rotate_right
  · intro fb hfb
    simp only [finishV, List.mem_map] at hfb
    obtain ⟨z, hz, rfl⟩ := hfb
    obtain ⟨gw, gh, _⟩ := hgood z.2 (List.of_mem_zip hz).2
    have pw := (hpos z.2.1).1
    have ph := (hpos z.2.1).2
    obtain ⟨e1, e2, e3, e4, e5⟩ := finishBranchV_pts ((i.trunk.shift r.topLeft).bottomRight) z.1
      z.2.2 (by linarith) (by linarith)
    refine ⟨?_, ?_, e2, e3, e4, e5⟩
    · rw [e1]; simp only [Rect.shift]; linarith
    · rw [e1]; simp only [Rect.shift]; linarith
  · intro fb hfb
    obtain ⟨e, he, hr⟩ := rectOf fb hfb
    have := (trunkDimsV_bounds P he).1
    rw [hr]
    simp only [finishV, Rect.shift, Rect.bottomRight, Rect.topLeft]
    linarith
  · intro fb hfb
    obtain ⟨e, he, hr⟩ := rectOf fb hfb
    have := (hgood e he).2.2
    rw [hr]
    simp only [finishV, Rect.shift, Rect.bottomRight, Rect.topLeft]
    linarith
  · intro fb hfb
    obtain ⟨e, he, hr⟩ := rectOf fb hfb
    have := (trunkDimsV_bounds P he).2.1
    rw [hr]
    simp only [finishV, Rect.shift, Rect.bottomRight, Rect.topLeft]
    linarith
  · intro fb hfb
    obtain ⟨e, he, hr⟩ := rectOf fb hfb
    rw [hr]
    simp only [finishV, Rect.shift, Rect.bottomRight, Rect.topLeft]
    rcases hcase with hk | rfl
    · have := hrel.bottom (by rw [← hbr] at hk; simpa [hbr] using hk) e he
      linarith
    · obtain ⟨hf, hsum⟩ := hint rfl
      have := (trunkDimsV_bounds P he).2.2
      have hw := (hgood e he)
      linarith
  · intro e he
    simp only [finishV, shiftAnchors, List.mem_map] at he
    obtain ⟨e0, he0, rfl⟩ := he
    obtain ⟨rr, hr1, hr2⟩ := hrel.anch e0 he0
    have b1 := (trunkDimsV_bounds P hr1).1
    obtain ⟨gw, _, gx⟩ := hgood _ hr1
    have hwpos := (hpos e0.1).1
    simp only at gw gx b1
    rw [hr2]
    simp only [finishV, Pos.add, Rect.center, Rect.shift, Rect.topRight, Rect.topLeft]
    refine ⟨by ring, by linarith, by linarith⟩

/-! ### Assembly -/

theorem computeV_inside {P : Params} {sizes : Key → Size} {S : RTree} {sol : Sol}
    {all : List SubLayout} (hy : Hyps P sizes) (h : computeV P sizes S sol = .ok all)
    (hfork : ∀ st, computeBranches S sol = .ok st → ∀ t b, b ∈ brs st t →
      (b.kind = .spec ∨ b.kind = .loss) → S.isNode (t ++ [0]) = true) :
    ∀ sl ∈ all, InsideV P sl := by
  have hsp := computeV_species h
  unfold computeV at h
  cases h1 : computeBranches S sol with
  | error e => rw [h1] at h; cases h
  | ok st =>
    rw [h1] at h
    simp only at h
    cases h2 : layoutAllV P sizes st with
    | error e => rw [h2] at h; cases h
    | ok lays =>
      rw [h2] at h
      simp only at h
      cases h3 : toBTree S with
      | none => rw [h3] at h; cases h
      | some B =>
        rw [h3] at h
        simp only at h
        cases h4 : sizesV P (lookupSp lays) B [] with
        | error e => rw [h4] at h; cases h
        | ok t =>
          rw [h4] at h
          cases h
          have g : GoodV P t [] := sizesV_good hy.pos hy.pad hy.overhead hy.level hy.minsp
            (fun p lay hl => layoutAllV_good st h2 hl) B [] t h4
          have hq := sizesV_allQ hy.level B [] t h4 g
          have hs : Sized t (Rect.makeFrom ⟨0, 0⟩ t.info.size) := ⟨rfl, rfl⟩
          intro sl hsl
          obtain ⟨q, hq1, hq2⟩ := mem_placeV g hsl
          simp only [List.nil_append] at hq2
          -- the species state and its relative layout
          have main : ∀ (i : Info) (r' : Rect) (b : Bool), sl = finishV i r' →
              NodeQ P (lookupSp lays) i b → r'.h = i.size.h →
              ((∀ x, getSp st i.sp = some x →
                  (∀ b ∈ x.branches, b.kind ≠ .spec ∧ b.kind ≠ .loss)) ∨ b = true) →
              InsideV P sl := by
            intro i r' b hsl' hn hh hcase
            obtain ⟨x, hx, hlb⟩ := layoutAllV_lookup st h2 hn.1
            have bi := nodeAtV_boxIn hy.level hy.minsp q t [] _ sl g hs hq1
            have hbr : i.lay.branches = x.branches := layoutBranchesV_branches hlb
            subst hsl'
            have hty : i.trunk.y = 0 := by
              have := bi.ty
              simp only [finishV, Rect.shift, Rect.topLeft] at this
              linarith
            have hthle : i.trunk.h ≤ i.size.h := by
              have := bi.tyh
              simp only [finishV, Rect.shift, Rect.topLeft] at this
              linarith
            refine finishV_inside hy.pos hy.pad hn hh hty hthle (layoutAllV_good st h2 hn.1)
              (layoutBranchesV_rel hlb) hbr ?_
            rcases hcase with hc | hc
            · exact .inl (hc x hx)
            · exact .inr hc
          by_cases hfk : ∃ x, getSp st sl.sp = some x ∧
              ∃ b ∈ x.branches, b.kind = .spec ∨ b.kind = .loss
          · obtain ⟨x, hx, b, hb, hk⟩ := hfk
            have hnode := hfork st h1 sl.sp b (by rw [brs_of_getSp hx]; exact hb) hk
            have hmem : sl.sp ++ [0] ∈ (placeV t (Rect.makeFrom ⟨0, 0⟩ t.info.size)).map (·.sp) := by
              rw [hsp, RTree.mem_preorder_iff]; exact hnode
            obtain ⟨c, hc, hcsp⟩ := List.mem_map.1 hmem
            obtain ⟨qc, hc1, hc2⟩ := mem_placeV g hc
            simp only [List.nil_append] at hc2
            have : qc = q ++ [0] := by rw [← hc2, hcsp, hq2]
            subst this
            obtain ⟨i, r', e, hn, hh⟩ := nodeAtV_q_internal q t _ sl c hq hs hq1 hc1
            exact main i r' true e hn hh (.inr rfl)
          · obtain ⟨i, r', b, e, hn, hh⟩ := nodeAtV_q q t _ sl hq hs hq1
            refine main i r' b e hn hh (.inl ?_)
            intro x hx b' hb'
            have hisp : i.sp = sl.sp := by rw [e]; rfl
            rw [hisp] at hx
            refine ⟨fun hk => hfk ⟨x, hx, b', hb', .inl hk⟩, fun hk => hfk ⟨x, hx, b', hb', .inr hk⟩⟩

end SR.Layout
