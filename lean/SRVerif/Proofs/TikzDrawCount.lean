/-
  Census of the drawing calls: besides plain `\path[branch=…]` statements, every branch of the
  layout contributes exactly its event node (extant gene / speciation / duplication / transfer),
  or its loss marker, and — for a transfer — its arrow; nothing else does.
-/
import SRVerif.Proofs.TikzDraw

namespace SR.TikzDraw

open SR SR.Layout SR.Tikz

/-- The statements that are not plain paths. -/
def marks (ss : List Stmt) : List Stmt := ss.filter fun x => x != Stmt.path

/-- What a branch is expected to contribute. -/
def expected (b : FBranch) : List Stmt :=
  match b.kind with
  | .leaf => [.event b.key .leaf]
  | .spec => [.event b.key .spec]
  | .dup => [.event b.key .dup]
  | .loss => [.lossMarker b.key]
  | .hgt =>
    match b.right with
    | some t => [.transfer b.key t, .event b.key .hgt]
    | none => []

theorem marks_append (a b : List Stmt) : marks (a ++ b) = marks a ++ marks b := by
  simp [marks]

theorem marks_pre (c : Bool) : marks (if c = true then [Stmt.path] else []) = [] := by
  cases c <;> simp [marks]

/-- One iteration of the statement-kind model. -/
theorem layout_drawBranch_marks {all : List SubLayout} {spOf : Path → Option Path}
    {lay : SubLayout} {ll rl : Option SubLayout} {b : FBranch} {ss : List Stmt}
    (h : Layout.drawBranch all spOf lay ll rl b = .ok ss) : marks ss = expected b := by
  unfold Layout.drawBranch at h
  unfold expected
  cases hk : b.kind with
  | leaf =>
    simp only [hk, Except.ok.injEq] at h
    subst h
    simp [marks]
  | loss =>
    simp only [hk] at h
    split at h
    · cases h
    · simp only [Except.ok.injEq] at h
      subst h
      simp [marks]
  | spec =>
    simp only [hk] at h
    split at h
    · simp only [Except.ok.injEq] at h
      subst h
      simp [marks]
    · cases h
    · cases h
  | dup =>
    simp only [hk] at h
    split at h
    · simp only [Except.ok.injEq] at h
      subst h
      simp [marks]
    · cases h
    · cases h
  | hgt =>
    simp only [hk] at h
    split at h
    · rename_i g hr
      simp only [hr]
      split at h
      · cases h
      · split at h
        · cases h
        · split at h
          · split at h
            · simp only [Except.ok.injEq] at h
              subst h
              simp [marks]
            · cases h
          · cases h
    · cases h


def isEvent : Stmt → Bool
  | .event _ _ => true
  | _ => false

def isLossMarker : Stmt → Bool
  | .lossMarker _ => true
  | _ => false

def isTransfer : Stmt → Bool
  | .transfer _ _ => true
  | _ => false

/-- One iteration emits one event node unless the branch is a loss, one loss marker iff it is a
    loss, one transfer arrow iff it is a transfer. -/
theorem layout_drawBranch_counts {all : List SubLayout} {spOf : Path → Option Path}
    {lay : SubLayout} {ll rl : Option SubLayout} {b : FBranch} {ss : List Stmt}
    (h : Layout.drawBranch all spOf lay ll rl b = .ok ss) :
    ss.countP isEvent = (if b.kind = .loss then 0 else 1) ∧
    ss.countP isLossMarker = (if b.kind = .loss then 1 else 0) ∧
    ss.countP isTransfer = (if b.kind = .hgt then 1 else 0) := by
  have hm := layout_drawBranch_marks h
  have hc : ∀ p : Stmt → Bool, p Stmt.path = false → ss.countP p = (marks ss).countP p := by
    intro p hp
    simp only [marks, List.countP_filter]
    apply List.countP_congr
    intro x _
    cases x <;> simp [hp]
  rw [hc isEvent rfl, hc isLossMarker rfl, hc isTransfer rfl, hm]
  unfold expected
  cases hk : b.kind with
  | leaf => simp [isEvent, isLossMarker, isTransfer]
  | spec => simp [isEvent, isLossMarker, isTransfer]
  | dup => simp [isEvent, isLossMarker, isTransfer]
  | loss => simp [isEvent, isLossMarker, isTransfer]
  | hgt =>
    -- a successful transfer iteration has found `right_gene`
    unfold Layout.drawBranch at h
    simp only [hk] at h
    split at h
    · rename_i g hr
      simp only [hr]
      exact ⟨rfl, rfl, rfl⟩
    · cases h


/-! ## Lifting to the drawing calls -/

/-- The statement kinds of a list of drawing calls. -/
def kinds (cs : List DrawCall) : List Stmt := cs.filterMap stmtOf

theorem kinds_append (a b : List DrawCall) : kinds (a ++ b) = kinds a ++ kinds b := by
  simp [kinds, List.filterMap_append]

theorem kinds_cons_fork (f : DrawCall) (cs : List DrawCall) (h : f.owner = none) :
    kinds (f :: cs) = kinds cs := by
  simp [kinds, stmtOf_of_owner_none f h]

theorem drawBranch_layout {o : Orientation} {dp : DParams} {deco : Deco} {all : List SubLayout}
    {spOf : Path → Option Path} {lay : SubLayout} {ll rl : Option SubLayout} {b : FBranch}
    {cs : List DrawCall} (h : drawBranch o dp deco all spOf lay ll rl b = .ok cs) :
    Layout.drawBranch all spOf lay ll rl b = .ok (kinds cs) := by
  have := drawBranch_stmts o dp deco all spOf lay ll rl b
  rw [h] at this
  exact this.symm

/-- Number of branches that are not losses / are losses / are transfers. -/
def nEvents (bs : List FBranch) : Nat := bs.countP fun b => b.kind != .loss
def nLosses (bs : List FBranch) : Nat := bs.countP fun b => b.kind == .loss
def nTransfers (bs : List FBranch) : Nat := bs.countP fun b => b.kind == .hgt

theorem drawBranches_census {o : Orientation} {dp : DParams} {deco : Deco} {all : List SubLayout}
    {spOf : Path → Option Path} {lay : SubLayout} {ll rl : Option SubLayout} :
    ∀ {bs : List FBranch} {cs : List DrawCall},
      drawBranches o dp deco all spOf lay ll rl bs = .ok cs →
      marks (kinds cs) = bs.flatMap expected ∧
      (kinds cs).countP isEvent = nEvents bs ∧
      (kinds cs).countP isLossMarker = nLosses bs ∧
      (kinds cs).countP isTransfer = nTransfers bs := by
  intro bs
  induction bs with
  | nil =>
    intro cs h
    simp only [drawBranches, Except.ok.injEq] at h
    subst h
    simp [kinds, marks, nEvents, nLosses, nTransfers]
  | cons b rest ih =>
    intro cs h
    unfold drawBranches at h
    cases hb : drawBranch o dp deco all spOf lay ll rl b with
    | error e => simp [hb] at h
    | ok a =>
      cases hr : drawBranches o dp deco all spOf lay ll rl rest with
      | error e => simp [hb, hr] at h
      | ok r =>
        simp only [hb, hr, Except.ok.injEq] at h
        subst h
        obtain ⟨i1, i2, i3, i4⟩ := ih hr
        have hl := drawBranch_layout hb
        have m1 := layout_drawBranch_marks hl
        obtain ⟨c1, c2, c3⟩ := layout_drawBranch_counts hl
        refine ⟨?_, ?_, ?_, ?_⟩
        · rw [kinds_append, marks_append, m1, i1, List.flatMap_cons]
        · rw [kinds_append, List.countP_append, c1, i2]
          simp only [nEvents, List.countP_cons]
          cases b.kind <;> simp <;> omega
        · rw [kinds_append, List.countP_append, c2, i3]
          simp only [nLosses, List.countP_cons]
          cases b.kind <;> simp <;> omega
        · rw [kinds_append, List.countP_append, c3, i4]
          simp only [nTransfers, List.countP_cons]
          cases b.kind <;> simp <;> omega

/-- The branches of the layout of species `s` (`layout[s].branches`, empty if there is none). -/
def branchesAt (all : List SubLayout) (s : Path) : List FBranch :=
  match slLookup all s with
  | some lay => lay.branches
  | none => []

theorem forkLeaf_owner {o : Orientation} {dp : DParams} {deco : Deco} {lay : SubLayout}
    {f : DrawCall} (h : forkLeaf o dp deco lay = .ok f) :
    f.owner = none ∧ f.stmt = 1 ∧ f.sp = lay.sp := by
  unfold forkLeaf at h
  cases hlab : speciesLabel dp.labelWidth (deco.spName lay.sp) with
  | none => simp [hlab] at h
  | some label =>
    simp only [hlab, Except.ok.injEq] at h
    subst h
    exact ⟨rfl, rfl, rfl⟩

theorem drawSpecies_census {o : Orientation} {dp : DParams} {deco : Deco} {S : RTree}
    {spOf : Path → Option Path} {all : List SubLayout} {s : Path} {cs : List DrawCall}
    (h : drawSpecies o dp deco S spOf all s = .ok cs) :
    marks (kinds cs) = (branchesAt all s).flatMap expected ∧
    (kinds cs).countP isEvent = nEvents (branchesAt all s) ∧
    (kinds cs).countP isLossMarker = nLosses (branchesAt all s) ∧
    (kinds cs).countP isTransfer = nTransfers (branchesAt all s) := by
  unfold drawSpecies at h
  unfold branchesAt
  cases hl : slLookup all s with
  | none => simp [hl] at h
  | some lay =>
    simp only [hl] at h ⊢
    split at h
    · cases hf : forkLeaf o dp deco lay with
      | error e => simp [hf] at h
      | ok f =>
        cases hbs : drawBranches o dp deco all spOf lay none none lay.branches with
        | error e => simp [hf, hbs] at h
        | ok bs =>
          simp only [hf, hbs, Except.ok.injEq] at h
          subst h
          rw [kinds_cons_fork f bs (forkLeaf_owner hf).1]
          exact drawBranches_census hbs
    · cases h0 : slLookup all (s ++ [0]) with
      | none => simp [h0] at h
      | some l =>
        cases h1 : slLookup all (s ++ [1]) with
        | none => simp [h0, h1] at h
        | some r =>
          cases hbs : drawBranches o dp deco all spOf lay (some l) (some r) lay.branches with
          | error e => simp [h0, h1, hbs] at h
          | ok bs =>
            simp only [h0, h1, hbs, Except.ok.injEq] at h
            subst h
            rw [kinds_cons_fork _ bs (forkInner_owner o dp lay l r)]
            exact drawBranches_census hbs
    · cases h

theorem drawSpeciesList_census {o : Orientation} {dp : DParams} {deco : Deco} {S : RTree}
    {spOf : Path → Option Path} {all : List SubLayout} :
    ∀ {ps : List Path} {cs : List DrawCall},
      drawSpeciesList o dp deco S spOf all ps = .ok cs →
      marks (kinds cs) = ps.flatMap (fun s => (branchesAt all s).flatMap expected) ∧
      (kinds cs).countP isEvent = nEvents (ps.flatMap (branchesAt all)) ∧
      (kinds cs).countP isLossMarker = nLosses (ps.flatMap (branchesAt all)) ∧
      (kinds cs).countP isTransfer = nTransfers (ps.flatMap (branchesAt all)) := by
  intro ps
  induction ps with
  | nil =>
    intro cs h
    simp only [drawSpeciesList, Except.ok.injEq] at h
    subst h
    simp [kinds, marks, nEvents, nLosses, nTransfers]
  | cons s rest ih =>
    intro cs h
    unfold drawSpeciesList at h
    cases hb : drawSpecies o dp deco S spOf all s with
    | error e => simp [hb] at h
    | ok a =>
      cases hr : drawSpeciesList o dp deco S spOf all rest with
      | error e => simp [hb, hr] at h
      | ok r =>
        simp only [hb, hr, Except.ok.injEq] at h
        subst h
        obtain ⟨i1, i2, i3, i4⟩ := ih hr
        obtain ⟨c0, c1, c2, c3⟩ := drawSpecies_census hb
        refine ⟨?_, ?_, ?_, ?_⟩
        · rw [kinds_append, marks_append, c0, i1, List.flatMap_cons]
        · rw [kinds_append, List.countP_append, c1, i2]
          simp [nEvents, List.countP_append]
        · rw [kinds_append, List.countP_append, c2, i3]
          simp [nLosses, List.countP_append]
        · rw [kinds_append, List.countP_append, c3, i4]
          simp [nTransfers, List.countP_append]

/-- When the layout has one entry per species, in pre-order, walking the species tree visits
    exactly the entries of the layout. -/
theorem flatMap_branchesAt {S : RTree} {all : List SubLayout}
    (hsp : all.map (·.sp) = S.preorder) :
    S.preorder.flatMap (branchesAt all) = all.flatMap (·.branches) := by
  have hn : (all.map (·.sp)).Nodup := by rw [hsp]; exact RTree.nodup_preorder S
  rw [← hsp, List.flatMap_map]
  have : ∀ (ls : List SubLayout), (∀ lay ∈ ls, lay ∈ all) →
      ls.flatMap (fun lay => branchesAt all lay.sp) = ls.flatMap (·.branches) := by
    intro ls
    induction ls with
    | nil => intro _; rfl
    | cons l rest ih =>
      intro hmem
      simp only [List.flatMap_cons]
      rw [ih (fun x hx => hmem x (List.mem_cons_of_mem _ hx))]
      simp [branchesAt, slLookup_of_nodup hn (hmem l (by simp))]
  exact this all (fun _ h => h)

end SR.TikzDraw
