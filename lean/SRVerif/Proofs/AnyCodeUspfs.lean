/-
  `_uspfs` (code-structured model `Model/UspfsCode.lean`) under `RetentionPolicy.ANY`
  against the same model under `RetentionPolicy.ALL`.

  * `cellSpecR` / `computeTable_okR`   for EVERY retention policy the threaded table holds,
        at every object node, the row `cellSpecR` — a function of the object subtree alone
        (the frame argument of `computeTable_ok`, with the policy as a parameter);
  * `cellSpec_rel`     every cell of the ANY row is related to the cell of the ALL row
        (`AnyCode.CellRel`): the role entries are offered THE SAME candidates in the two
        runs — they depend on the VALUES of the children's cells only;
  * `decode_sub`       every output decoded from the ANY table is decoded from the ALL table;
  * `decode_ne_nil`    an instantiated cell decodes to at least one output (every
        tag-retaining policy): its value is not `+inf`, it has a tag, and a tag of a
        candidate that is not `+inf` points to instantiated cells of the children;
  * `resultEntry_rel`  the result entries.
-/
import SRVerif.Proofs.AnyCodeEntry
import SRVerif.Proofs.UspfsCodeDecode

namespace SR.UspfsCode

open SR Cost Path AnyCode

/-! ### The table as a function of the object subtree (every retention policy) -/

theorem childSub_getR (pol : Retain) (c : Costs) (S : RTree) (row : Row) (s : Path)
    (rootSet childSet : List Nat) (k : Kind) (ρ : RoleId) :
    ((childSub pol c S row s rootSet childSet).get k).get ρ =
      Entry.update (Entry.init .min pol)
        ((levelOrder S).flatMap (offered c S row s (edgeDists c rootSet childSet).1
          (edgeDists c rootSet childSet).2 k ρ)) := by
  unfold childSub
  rw [foldl_stepSpecies_get]
  cases k <;> cases ρ <;> rfl

/-- The batch offered to `table[root_object][s][k]` when the children's rows are `rowL`, `rowR`. -/
def nodeBatchR (pol : Retain) (c : Costs) (S : RTree) (a la ra : UnAnn) (rowL rowR : Row)
    (s : Path) (k : Kind) : List (Cand CAsg) :=
  entryBatch c ((childSub pol c S rowL s a.lcaSet la.lcaSet).get k)
    ((childSub pol c S rowR s a.lcaSet ra.lcaSet).get k)

/-- `table[object]` after `_compute_uspfs_table`, as a function of the object subtree. -/
def cellSpecR (pol : Retain) (c : Costs) (S : RTree) : ATree UnAnn → Row
  | .leaf _ sp => fun s k =>
    if s = sp ∧ k = .lca then Cell.update .min pol none [{ value := .fin 0, info := none }] else none
  | .node a l r => fun s k =>
    if s ∈ a.allowed then
      Cell.update .min pol none
        (nodeBatchR pol c S a l.data r.data (cellSpecR pol c S l) (cellSpecR pol c S r) s k)
    else none

theorem cellAt_computeEntryR (pol : Retain) (c : Costs) (S : RTree) (s v : Path)
    (rootSet lSet rSet : List Nat) (T : Table) (v' s' : Path) (k' : Kind) :
    cellAt (computeEntry pol c S s v rootSet lSet rSet T) v' s' k' =
      if v' = v ∧ s' = s then
        Cell.update .min pol (cellAt T v s k')
          (entryBatch c ((childSub pol c S (cellAt T (v ++ [0])) s rootSet lSet).get k')
            ((childSub pol c S (cellAt T (v ++ [1])) s rootSet rSet).get k'))
      else cellAt T v' s' k' := by
  simp only [computeEntry, List.foldl_cons, List.foldl_nil, cellAt_tupdate, Prod.mk.injEq]
  by_cases h : v' = v ∧ s' = s
  · obtain ⟨rfl, rfl⟩ := h
    cases k' <;> simp
  · rw [if_neg h]
    have h1 : ¬ (v' = v ∧ s' = s ∧ k' = Kind.inh) := fun hh => h ⟨hh.1, hh.2.1⟩
    have h2 : ¬ (v' = v ∧ s' = s ∧ k' = Kind.lca) := fun hh => h ⟨hh.1, hh.2.1⟩
    rw [if_neg h1, if_neg h2]

theorem cellAt_allowedR (pol : Retain) (c : Costs) (S : RTree) (v : Path) (a la ra : UnAnn)
    (rowL rowR : Row) :
    ∀ (al : List Path) (T : Table), al.Nodup →
      cellAt T (v ++ [0]) = rowL → cellAt T (v ++ [1]) = rowR →
      (∀ s ∈ al, ∀ k, cellAt T v s k = none) →
      let T' := al.foldl (fun T s => computeEntry pol c S s v a.lcaSet la.lcaSet ra.lcaSet T) T
      (∀ v' s' k', (v' ≠ v ∨ s' ∉ al) → cellAt T' v' s' k' = cellAt T v' s' k') ∧
      (∀ s' ∈ al, ∀ k', cellAt T' v s' k' =
        Cell.update .min pol none (nodeBatchR pol c S a la ra rowL rowR s' k')) := by
  intro al
  induction al with
  | nil => intro T _ _ _ _; simp
  | cons s rest ih =>
    intro T hnd hL hR hfresh
    rw [List.nodup_cons] at hnd
    have hne0 : v ++ [0] ≠ v := by intro h; have := congrArg List.length h; simp at this
    have hne1 : v ++ [1] ≠ v := by intro h; have := congrArg List.length h; simp at this
    let T1 := computeEntry pol c S s v a.lcaSet la.lcaSet ra.lcaSet T
    have hL1 : cellAt T1 (v ++ [0]) = rowL := by
      funext s' k'
      rw [cellAt_computeEntryR, if_neg (fun h => hne0 h.1), hL]
    have hR1 : cellAt T1 (v ++ [1]) = rowR := by
      funext s' k'
      rw [cellAt_computeEntryR, if_neg (fun h => hne1 h.1), hR]
    have hfresh1 : ∀ s' ∈ rest, ∀ k, cellAt T1 v s' k = none := by
      intro s' hs' k
      rw [cellAt_computeEntryR, if_neg, hfresh s' (List.mem_cons_of_mem _ hs') k]
      rintro ⟨_, rfl⟩; exact hnd.1 hs'
    have := ih T1 hnd.2 hL1 hR1 hfresh1
    simp only [List.foldl_cons]
    refine ⟨?_, ?_⟩
    · intro v' s' k' h
      rw [this.1 v' s' k' (by
        rcases h with h | h
        · exact Or.inl h
        · exact Or.inr (fun hh => h (List.mem_cons_of_mem _ hh)))]
      rw [cellAt_computeEntryR, if_neg]
      rintro ⟨rfl, rfl⟩
      rcases h with h | h
      · exact h rfl
      · exact h (List.mem_cons_self ..)
    · intro s' hs' k'
      rcases List.mem_cons.mp hs' with rfl | hs'
      · rw [this.1 v s' k' (Or.inr hnd.1), cellAt_computeEntryR, if_pos ⟨rfl, rfl⟩,
          hfresh s' (List.mem_cons_self ..) k', hL, hR]
        rfl
      · exact this.2 s' hs' k'

/-- **The threaded table holds `cellSpecR` at every object node of the processed subtree**,
    and nothing outside that subtree is touched (every retention policy). -/
theorem computeTable_okR (pol : Retain) (c : Costs) (S : RTree) :
    ∀ (t : ATree UnAnn) (v : Path) (T : Table), AllowedNodup t →
      (∀ v' s k, v <+: v' → cellAt T v' s k = none) →
      (∀ v' s k, ¬ v <+: v' → cellAt (computeTable pol c S t v T) v' s k = cellAt T v' s k) ∧
      (∀ q tq, subAt t q = some tq → ∀ s k,
        cellAt (computeTable pol c S t v T) (v ++ q) s k = cellSpecR pol c S tq s k) := by
  intro t
  induction t with
  | leaf a sp =>
    intro v T _ hfresh
    simp only [computeTable]
    refine ⟨?_, ?_⟩
    · intro v' s k hv'
      rw [cellAt_tupdate, if_neg]
      intro h
      simp only [Prod.mk.injEq] at h
      exact hv' (h.1 ▸ List.prefix_refl _)
    · intro q tq hq s k
      cases q with
      | cons _ _ => simp [subAt] at hq
      | nil =>
        simp only [subAt_nil, Option.some.injEq] at hq
        subst hq
        rw [List.append_nil, cellAt_tupdate, hfresh v sp .lca (List.prefix_refl _)]
        simp only [cellSpecR, Prod.mk.injEq, true_and]
        by_cases h : s = sp ∧ k = .lca
        · rw [if_pos h, if_pos h]
        · rw [if_neg h, if_neg h]; exact hfresh v s k (List.prefix_refl _)
  | node a l r ihl ihr =>
    intro v T hnd hfresh
    obtain ⟨hnda, hndl, hndr⟩ := hnd
    simp only [computeTable]
    have hfreshL : ∀ v' s k, (v ++ [0]) <+: v' → cellAt T v' s k = none :=
      fun v' s k h => hfresh v' s k (prefix_child h)
    obtain ⟨frame1, ok1⟩ := ihl (v ++ [0]) T hndl hfreshL
    have hfreshR : ∀ v' s k, (v ++ [1]) <+: v' →
        cellAt (computeTable pol c S l (v ++ [0]) T) v' s k = none := by
      intro v' s k h
      rw [frame1 v' s k]
      · exact hfresh v' s k (prefix_child h)
      · intro h0
        obtain ⟨w, rfl⟩ := h
        rw [List.append_assoc] at h0
        exact not_prefix_sibling (by decide) h0
    obtain ⟨frame2, ok2⟩ := ihr (v ++ [1]) _ hndr hfreshR
    have hrowL : cellAt (computeTable pol c S r (v ++ [1]) (computeTable pol c S l (v ++ [0]) T))
        (v ++ [0]) = cellSpecR pol c S l := by
      funext s k
      rw [frame2 _ s k (by
        intro h
        have := not_prefix_sibling (v := v) (q := []) (i := 1) (j := 0) (by decide)
        exact this h)]
      have := ok1 [] l (subAt_nil l) s k
      rwa [List.append_nil] at this
    have hrowR : cellAt (computeTable pol c S r (v ++ [1]) (computeTable pol c S l (v ++ [0]) T))
        (v ++ [1]) = cellSpecR pol c S r := by
      funext s k
      have := ok2 [] r (subAt_nil r) s k
      rwa [List.append_nil] at this
    have hfreshV : ∀ s k, cellAt (computeTable pol c S r (v ++ [1])
        (computeTable pol c S l (v ++ [0]) T)) v s k = none := by
      intro s k
      rw [frame2 v s k not_prefix_self, frame1 v s k not_prefix_self]
      exact hfresh v s k (List.prefix_refl _)
    obtain ⟨frame3, ok3⟩ := cellAt_allowedR pol c S v a l.data r.data _ _ a.allowed _ hnda
      hrowL hrowR (fun s _ k => hfreshV s k)
    refine ⟨?_, ?_⟩
    · intro v' s k hv'
      have hne : v' ≠ v := fun h => hv' (h ▸ List.prefix_refl _)
      rw [frame3 v' s k (Or.inl hne), frame2 v' s k (fun h => hv' (prefix_child h)),
        frame1 v' s k (fun h => hv' (prefix_child h))]
    · intro q tq hq s k
      cases q with
      | nil =>
        simp only [subAt_nil, Option.some.injEq] at hq
        subst hq
        rw [List.append_nil]
        simp only [cellSpecR]
        by_cases hs : s ∈ a.allowed
        · rw [if_pos hs]; exact ok3 s hs k
        · rw [if_neg hs, frame3 v s k (Or.inr hs)]; exact hfreshV s k
      | cons i q =>
        have hne : v ++ i :: q ≠ v := by
          intro h; have := congrArg List.length h; simp at this
        rw [frame3 _ s k (Or.inl hne)]
        simp only [subAt] at hq
        by_cases hi0 : i = 0
        · subst hi0
          simp only [if_true] at hq
          rw [frame2 _ s k (not_prefix_sibling (by decide))]
          have := ok1 q tq hq s k
          rwa [List.append_assoc] at this
        · rw [if_neg hi0] at hq
          by_cases hi1 : i = 1
          · subst hi1
            simp only [if_true] at hq
            have := ok2 q tq hq s k
            rwa [List.append_assoc] at this
          · rw [if_neg hi1] at hq; cases hq

/-- A table whose rows are `cellSpecR` at every node of the subtree `t` hanging at `v`. -/
def Holds (pol : Retain) (c : Costs) (S : RTree) (T : Table) (t : ATree UnAnn) (v : Path) : Prop :=
  ∀ q tq, subAt t q = some tq → ∀ s k, cellAt T (v ++ q) s k = cellSpecR pol c S tq s k

theorem Holds.root {pol : Retain} {c : Costs} {S : RTree} {T : Table} {t : ATree UnAnn} {v : Path}
    (h : Holds pol c S T t v) (s : Path) (k : Kind) : cellAt T v s k = cellSpecR pol c S t s k := by
  have := h [] t (subAt_nil t) s k
  rwa [List.append_nil] at this

theorem Holds.left {pol : Retain} {c : Costs} {S : RTree} {T : Table} {a : UnAnn}
    {l r : ATree UnAnn} {v : Path} (h : Holds pol c S T (.node a l r) v) :
    Holds pol c S T l (v ++ [0]) := by
  intro q tq hq s k
  rw [List.append_assoc]
  exact h (0 :: q) tq (by simpa [subAt] using hq) s k

theorem Holds.right {pol : Retain} {c : Costs} {S : RTree} {T : Table} {a : UnAnn}
    {l r : ATree UnAnn} {v : Path} (h : Holds pol c S T (.node a l r) v) :
    Holds pol c S T r (v ++ [1]) := by
  intro q tq hq s k
  rw [List.append_assoc]
  exact h (1 :: q) tq (by simpa [subAt] using hq) s k

/-- The final table holds `cellSpecR` at every object node. -/
theorem codeTable_holds (pol : Retain) (c : Costs) (S : RTree) (base : Bool) (o : OTree) :
    Holds pol c S (codeTable pol c S base o) (annCode S base o [] o) [] :=
  (computeTable_okR pol c S (annCode S base o [] o) [] [] (annCode_nodup S base o o [])
    (fun _ _ _ _ => rfl)).2

/-! ### The role entries and the batch of the two runs -/

theorem offered_congr (c : Costs) (S : RTree) {rowA rowL : Row}
    (h : ∀ x k, Cell.value .min (rowA x k) = Cell.value .min (rowL x k))
    (s : Path) (ll li : ExtInt) (k : Kind) (ρ : RoleId) (x : Path) :
    offered c S rowA s ll li k ρ x = offered c S rowL s ll li k ρ x := by
  unfold offered
  rw [h x .lca, h x .inh]

theorem role_inv (pol : Retain) (c : Costs) (S : RTree) (row : Row) (s : Path)
    (rootSet childSet : List Nat) (k : Kind) (ρ : RoleId) :
    Entry.Inv .min pol
      ((levelOrder S).flatMap (offered c S row s (edgeDists c rootSet childSet).1
        (edgeDists c rootSet childSet).2 k ρ))
      (((childSub pol c S row s rootSet childSet).get k).get ρ) := by
  rw [childSub_getR]
  simpa using Entry.inv_update (Entry.inv_init (τ := OAsg) .min pol) _

/-- **The role entries of the two runs**: offered the same candidates. -/
theorem role_anySub (c : Costs) (S : RTree) {rowA rowL : Row}
    (h : ∀ x k, Cell.value .min (rowA x k) = Cell.value .min (rowL x k))
    (s : Path) (rootSet childSet : List Nat) (k : Kind) (ρ : RoleId) :
    AnySub .min (((childSub .any c S rowA s rootSet childSet).get k).get ρ)
      (((childSub .all c S rowL s rootSet childSet).get k).get ρ) := by
  have iA := role_inv .any c S rowA s rootSet childSet k ρ
  have iL := role_inv .all c S rowL s rootSet childSet k ρ
  have e : (levelOrder S).flatMap (offered c S rowA s (edgeDists c rootSet childSet).1
        (edgeDists c rootSet childSet).2 k ρ) =
      (levelOrder S).flatMap (offered c S rowL s (edgeDists c rootSet childSet).1
        (edgeDists c rootSet childSet).2 k ρ) := by
    congr 1; funext x; exact offered_congr c S h ..
  rw [e] at iA
  exact Inv.anySub iA iL (BRel.refl _)

theorem comb_bRel {A A' B B' : Entry OAsg} (hA : AnySub .min A A') (hB : AnySub .min B B')
    (ev : ExtInt) :
    BRel (entryCands (A.combine B (evComb ev))) (entryCands (A'.combine B' (evComb ev))) :=
  cands_bRel (combine_anySub hA hB (evComb ev) (fun a b => ev + a + b) Prod.mk
    (fun _ _ _ _ => rfl))

theorem entryBatch_bRel (c : Costs) {a a' b b' : Choices}
    (h0 : ∀ ρ, AnySub .min (a.get ρ) (a'.get ρ)) (h1 : ∀ ρ, AnySub .min (b.get ρ) (b'.get ρ)) :
    BRel (entryBatch c a b) (entryBatch c a' b') := by
  unfold entryBatch
  exact (((((comb_bRel (h0 .left) (h1 .right) _).append (comb_bRel (h0 .right) (h1 .left) _)).append
    (comb_bRel (h0 .cons) (h1 .seg) _)).append (comb_bRel (h0 .seg) (h1 .cons) _)).append
    (comb_bRel (h0 .cons) (h1 .sep) _)).append (comb_bRel (h0 .sep) (h1 .cons) _)

/-- **Every cell of the ANY row against the cell of the ALL row**, for every object subtree. -/
theorem cellSpec_rel (c : Costs) (S : RTree) : ∀ (t : ATree UnAnn) (s : Path) (k : Kind),
    AnyCode.CellRel .min (cellSpecR .any c S t s k) (cellSpecR .all c S t s k) := by
  intro t
  induction t with
  | leaf a sp =>
    intro s k
    simp only [cellSpecR]
    split
    · exact cellRel_update .none (BRel.refl _)
    · exact .none
  | node a l r ihl ihr =>
    intro s k
    simp only [cellSpecR]
    split
    · apply cellRel_update .none
      unfold nodeBatchR
      exact entryBatch_bRel c
        (fun ρ => role_anySub c S (fun x k => (ihl x k).value) s _ _ k ρ)
        (fun ρ => role_anySub c S (fun x k => (ihr x k).value) s _ _ k ρ)
    · exact .none

/-! ### Decoding -/

/-- Every output decoded from the ANY table is decoded from the ALL table. -/
theorem decode_sub (c : Costs) (S : RTree) (TA TL : Table) : ∀ (t : ATree UnAnn) (v : Path),
    Holds .any c S TA t v → Holds .all c S TL t v →
    ∀ s k anc, ∀ sol ∈ decode TA t v s k anc, sol ∈ decode TL t v s k anc := by
  intro t
  induction t with
  | leaf a sp =>
    intro v hA hL s k anc sol hsol
    simp only [decode] at hsol ⊢
    rw [hL.root s k, ← (cellSpec_rel c S _ s k).value, ← hA.root s k]
    exact hsol
  | node a l r ihl ihr =>
    intro v hA hL s k anc sol hsol
    simp only [decode, List.mem_flatMap, List.mem_map] at hsol ⊢
    obtain ⟨info, hi, ml, hml, mr, hmr, rfl⟩ := hsol
    refine ⟨info, ?_, ml, ihl _ hA.left hL.left _ _ _ ml hml, mr, ihr _ hA.right hL.right _ _ _ mr hmr,
      rfl⟩
    rw [hA.root s k] at hi
    rw [hL.root s k]
    exact (cellSpec_rel c S _ s k).infos_sub info hi

theorem cellAt_ne_none_of_decode (T : Table) (t : ATree UnAnn) (v s : Path) (k : Kind)
    (anc : List Nat) (h : decode T t v s k anc ≠ []) : cellAt T v s k ≠ none := by
  intro hn
  apply h
  cases t with
  | leaf a sp => simp [decode, hn, Cell.value, ExtInt.isInfinite]
  | node a l r => simp [decode, hn, Cell.infos]

/-! ### An instantiated cell decodes to something -/

/-- A candidate offered to a role entry carries the key of a cell of the child, instantiated
    unless the candidate is `+inf`. -/
theorem offered_prov (c : Costs) (S : RTree) (row : Row) (s : Path) (ll li : ExtInt) (k : Kind)
    (ρ : RoleId) (xs : List Path) :
    ∀ cnd ∈ xs.flatMap (offered c S row s ll li k ρ), ∃ x kc, cnd.info = some (x, kc) ∧
      (cnd.value ≠ .posInf → row x kc ≠ none) := by
  intro cnd h
  obtain ⟨x, _, hx⟩ := List.mem_flatMap.mp h
  unfold offered at hx
  split at hx
  · cases hx
  · rename_i b _
    simp only [List.mem_cons, List.not_mem_nil, or_false] at hx
    rcases hx with rfl | rfl
    · refine ⟨x, .lca, rfl, fun hne hn => hne ?_⟩
      simp [cand, hn, Cell.value]
      cases b <;> rfl
    · refine ⟨x, .inh, rfl, fun hne hn => hne ?_⟩
      simp [cand, hn, Cell.value]
      cases b <;> rfl

theorem cands_prov {A B : Entry OAsg} {ev : ExtInt} {x : Cand CAsg}
    (h : x ∈ entryCands (A.combine B (evComb ev))) :
    ∃ t0 ∈ A.infos, ∃ t1 ∈ B.infos, x.info = some (t0, t1) ∧ x.value = ev + A.value + B.value := by
  obtain ⟨t, ht, rfl⟩ := List.mem_map.mp h
  obtain ⟨t0, h0, t1, h1, rfl, hv⟩ := combine_sound A B (evComb ev) (fun a b => ev + a + b)
    Prod.mk (fun _ _ _ _ => rfl) t ht
  exact ⟨t0, h0, t1, h1, rfl, hv⟩

/-- Every candidate written to a cell of an internal node carries a pair of keys of the
    children's rows, instantiated unless the candidate is `+inf`. -/
theorem nodeBatch_prov (pol : Retain) (c : Costs) (S : RTree) (a la ra : UnAnn) (rowL rowR : Row)
    (s : Path) (k : Kind) :
    ∀ x ∈ nodeBatchR pol c S a la ra rowL rowR s k, ∃ t0 t1, x.info = some (t0, t1) ∧
      (x.value ≠ .posInf → rowL t0.1 t0.2 ≠ none ∧ rowR t1.1 t1.2 ≠ none) := by
  intro x hx
  have key : ∀ (ρ0 ρ1 : RoleId) (ev : ExtInt),
      x ∈ entryCands ((((childSub pol c S rowL s a.lcaSet la.lcaSet).get k).get ρ0).combine
        (((childSub pol c S rowR s a.lcaSet ra.lcaSet).get k).get ρ1) (evComb ev)) →
      ∃ t0 t1, x.info = some (t0, t1) ∧
        (x.value ≠ .posInf → rowL t0.1 t0.2 ≠ none ∧ rowR t1.1 t1.2 ≠ none) := by
    intro ρ0 ρ1 ev h
    obtain ⟨t0, h0, t1, h1, hi, hv⟩ := cands_prov h
    refine ⟨t0, t1, hi, fun hne => ?_⟩
    rw [hv] at hne
    obtain ⟨hne1, hB⟩ := AnyCode.add_ne_posInf hne
    obtain ⟨_, hA⟩ := AnyCode.add_ne_posInf hne1
    obtain ⟨c0, hc0, hi0, hv0⟩ := Inv.sound (role_inv pol c S rowL s a.lcaSet la.lcaSet k ρ0) t0 h0
    obtain ⟨c1, hc1, hi1, hv1⟩ := Inv.sound (role_inv pol c S rowR s a.lcaSet ra.lcaSet k ρ1) t1 h1
    obtain ⟨x0, k0, hx0, hf0⟩ := offered_prov c S rowL s _ _ k ρ0 _ c0 hc0
    obtain ⟨x1, k1, hx1, hf1⟩ := offered_prov c S rowR s _ _ k ρ1 _ c1 hc1
    rw [hi0] at hx0; rw [hi1] at hx1
    simp only [Option.some.injEq] at hx0 hx1
    subst hx0; subst hx1
    exact ⟨hf0 (by rw [hv0]; exact hA), hf1 (by rw [hv1]; exact hB)⟩
  simp only [nodeBatchR, entryBatch, List.mem_append] at hx
  rcases hx with ((((h | h) | h) | h) | h) | h
  · exact key .left .right _ h
  · exact key .right .left _ h
  · exact key .cons .seg _ h
  · exact key .seg .cons _ h
  · exact key .cons .sep _ h
  · exact key .sep .cons _ h

theorem update_some_inv {pol : Retain} {batch : List (Cand CAsg)} {e : Entry CAsg}
    (h : Cell.update .min pol none batch = some e) :
    Entry.Inv .min pol batch e ∧ ∃ c0 ∈ batch, c0.value.isInfinite = false := by
  unfold Cell.update at h
  split at h
  · rename_i hw
    simp only [Option.getD_none, Option.some.injEq] at h
    subst h
    refine ⟨by simpa using Entry.inv_update (Entry.inv_init (τ := CAsg) .min pol) _, ?_⟩
    obtain ⟨c0, hc0, hf⟩ := List.any_eq_true.mp hw
    exact ⟨c0, hc0, by simpa using hf⟩
  · cases h

theorem leaf_cell (pol : Retain) :
    Cell.update .min pol (none : Cell CAsg) [{ value := .fin 0, info := none }] =
      some { value := .fin 0, infos := [], merge := .min, retain := pol } := by
  cases pol <;> rfl

/-- **An instantiated cell decodes to at least one output** (policies ANY and ALL). -/
theorem decode_ne_nil (pol : Retain) (hp : pol ≠ .none) (c : Costs) (S : RTree) (T : Table) :
    ∀ (t : ATree UnAnn) (v : Path), Holds pol c S T t v →
    ∀ s k anc, cellAt T v s k ≠ none → decode T t v s k anc ≠ [] := by
  intro t
  induction t with
  | leaf a sp =>
    intro v hT s k anc hs
    have hcell := hT.root s k
    simp only [cellSpecR] at hcell
    split at hcell
    · rw [leaf_cell] at hcell
      simp [decode, hcell, Cell.value, ExtInt.isInfinite]
    · exact absurd hcell hs
  | node a l r ihl ihr =>
    intro v hT s k anc hs
    have hcell := hT.root s k
    simp only [cellSpecR] at hcell
    split at hcell
    swap
    · exact absurd hcell hs
    obtain ⟨e, he⟩ := Option.ne_none_iff_exists'.mp hs
    rw [he] at hcell
    obtain ⟨inv, c0, hc0, hfin⟩ := update_some_inv hcell.symm
    obtain ⟨hval, _⟩ := Inv.finite_offered inv hc0 hfin
    have hprov := nodeBatch_prov pol c S a l.data r.data (cellSpecR pol c S l) (cellSpecR pol c S r) s k
    have htag : ∀ x ∈ nodeBatchR pol c S a l.data r.data (cellSpecR pol c S l) (cellSpecR pol c S r) s k,
        x.info.isSome := by
      intro x hx
      obtain ⟨t0, t1, hi, _⟩ := hprov x hx
      simp [hi]
    obtain ⟨t, ht⟩ := List.exists_mem_of_ne_nil _
      (Inv.nonempty_of_tagged inv hp htag (List.ne_nil_of_mem hc0))
    obtain ⟨x, hx, hi, hv⟩ := Inv.sound inv t ht
    obtain ⟨t0, t1, hi', hne⟩ := hprov x hx
    rw [hi] at hi'
    simp only [Option.some.injEq] at hi'
    subst hi'
    obtain ⟨h0, h1⟩ := hne (by rw [hv]; exact hval)
    have hl : cellAt T (v ++ [0]) t0.1 t0.2 ≠ none := by rw [hT.left.root]; exact h0
    have hr : cellAt T (v ++ [1]) t1.1 t1.2 ≠ none := by rw [hT.right.root]; exact h1
    obtain ⟨ml, hml⟩ := List.exists_mem_of_ne_nil _ (ihl _ hT.left t0.1 t0.2 (content a k anc) hl)
    obtain ⟨mr, hmr⟩ := List.exists_mem_of_ne_nil _ (ihr _ hT.right t1.1 t1.2 (content a k anc) hr)
    apply List.ne_nil_of_mem (a := Sol.node s (content a k anc) ml mr)
    simp only [decode, List.mem_flatMap, List.mem_map]
    refine ⟨(t0, t1), ?_, ml, hml, mr, hmr, rfl⟩
    rw [he]
    exact ht

/-! ### The result entry -/

theorem resultEntry_inv (pol : Retain) (c : Costs) (S : RTree) (base : Bool) (o : OTree) :
    Entry.Inv .min pol
      (outCands (fun out => Cost.toExt (totalCost c .unordered o out)) (levelOrder S)
        (decodeRoot pol c S base o))
      (resultEntry pol c S base o) := by
  have : resultEntry pol c S base o = Entry.update (Entry.init .min pol)
      (outCands (fun out => Cost.toExt (totalCost c .unordered o out)) (levelOrder S)
        (decodeRoot pol c S base o)) := by
    unfold resultEntry outCands
    generalize Entry.init Merge.min pol = e
    induction levelOrder S generalizing e with
    | nil => rfl
    | cons s ss ih =>
      rw [List.foldl_cons, ih, Entry.update_append, List.flatMap_cons]
  rw [this]
  simpa using Entry.inv_update (Entry.inv_init (τ := Sol) .min pol) _

theorem root_decodings (c : Costs) (S : RTree) (base : Bool) (o : OTree) (s : Path) :
    (∀ sol ∈ decodeRoot .any c S base o s, sol ∈ decodeRoot .all c S base o s) ∧
    (decodeRoot .all c S base o s ≠ [] → decodeRoot .any c S base o s ≠ []) := by
  have hA := codeTable_holds .any c S base o
  have hL := codeTable_holds .all c S base o
  refine ⟨decode_sub c S _ _ _ [] hA hL s .lca _, fun h => ?_⟩
  apply decode_ne_nil .any (by simp) c S _ _ [] hA
  intro hn
  have hne := cellAt_ne_none_of_decode _ _ _ _ _ _ h
  apply hne
  have hrel := cellSpec_rel c S (annCode S base o [] o) s .lca
  rw [hA.root] at hn
  rw [hL.root]
  exact hrel.isNone.mp hn

/-- **The two result entries.** -/
theorem resultEntry_rel (c : Costs) (S : RTree) (base : Bool) (o : OTree) :
    (uspfsCodePol .any c S base o).length ≤ 1 ∧
    (uspfsCodePol .any c S base o = [] ↔ uspfsCodePol .all c S base o = []) ∧
    ((∀ s ∈ levelOrder S, ∀ x ∈ decodeRoot .all c S base o s, ∀ y ∈ decodeRoot .all c S base o s,
        totalCost c .unordered o x = totalCost c .unordered o y) →
      (resultEntry .any c S base o).value = (resultEntry .all c S base o).value ∧
      ∀ sol ∈ uspfsCodePol .any c S base o, sol ∈ uspfsCodePol .all c S base o) := by
  obtain ⟨h1, h2, h3⟩ := result_rel (fun out => Cost.toExt (totalCost c .unordered o out))
    (levelOrder S) (decodeRoot .any c S base o) (decodeRoot .all c S base o)
    (fun s _ => (root_decodings c S base o s).1) (fun s _ => (root_decodings c S base o s).2)
    _ _ (resultEntry_inv .any c S base o) (resultEntry_inv .all c S base o)
  refine ⟨h1, h2, fun hu => h3 ?_⟩
  intro s hs x hx y hy
  rw [hu s hs x hx y hy]

end SR.UspfsCode
