/-
  Helper lemmas for property C18, part C: sequences versus masks
  (round trips, the bits of a mask, and the bridge from masks taken with
  respect to a common root order to runs counted on the sequences).
-/
import SRVerif.Proofs.Subseq

namespace SR.SubseqProofs
open SR.SubseqSpec

variable {α : Type}

theorem subseqFromMask_zero (p : List α) : subseqFromMask 0 p = some [] := by
  unfold subseqFromMask; rfl

theorem subseqFromMask_cons (m : Nat) (p : α) (ps : List α) :
    subseqFromMask m (p :: ps) =
      (subseqFromMask (m / 2) ps).map fun r => if m % 2 = 1 then p :: r else r := by
  cases m with
  | zero => simp [subseqFromMask_zero]
  | succ m =>
    rw [subseqFromMask]
    cases subseqFromMask ((m + 1) / 2) ps <;> simp

theorem subseqFromMask_nil (m : Nat) :
    subseqFromMask m ([] : List α) = if m = 0 then some [] else none := by
  cases m with
  | zero => simp [subseqFromMask_zero]
  | succ m => rw [subseqFromMask]; simp

/-- `subseq_from_mask` raises exactly when the mask has a bit beyond the parent. -/
theorem subseqFromMask_isSome_iff (parent : List α) : ∀ mask : Nat,
    (subseqFromMask mask parent).isSome = true ↔ mask < 2 ^ parent.length := by
  induction parent with
  | nil =>
    intro mask
    rw [subseqFromMask_nil]
    by_cases h : mask = 0 <;> simp [h]
  | cons p ps ih =>
    intro mask
    rw [subseqFromMask_cons, Option.isSome_map, ih, List.length_cons, Nat.pow_succ]
    omega

variable [DecidableEq α]

@[simp] theorem maskFromSubseq_nil_left (p : List α) : maskFromSubseq [] p = 0 := by
  cases p <;> rfl

@[simp] theorem maskFromSubseq_nil_right (c : List α) : maskFromSubseq c [] = 0 := by
  cases c <;> rfl

theorem maskFromSubseq_cons_self (c : α) (cs ps : List α) :
    maskFromSubseq (c :: cs) (c :: ps) = 1 + 2 * maskFromSubseq cs ps := by
  simp [maskFromSubseq]

theorem maskFromSubseq_cons_ne {c p : α} (h : c ≠ p) (cs ps : List α) :
    maskFromSubseq (c :: cs) (p :: ps) = 2 * maskFromSubseq (c :: cs) ps := by
  simp [maskFromSubseq, h]

/-- Skipping a parent element that does not occur in the child. -/
theorem maskFromSubseq_skip {r : α} {child : List α} (h : r ∉ child) (rs : List α) :
    maskFromSubseq child (r :: rs) = 2 * maskFromSubseq child rs := by
  cases child with
  | nil => simp
  | cons c cs =>
    have : c ≠ r := fun e => h (by simp [e])
    exact maskFromSubseq_cons_ne this cs rs

theorem roundtrip_seq (parent : List α) : ∀ child : List α, child.Sublist parent →
    subseqFromMask (maskFromSubseq child parent) parent = some child := by
  induction parent with
  | nil => intro child h; simp [List.sublist_nil.1 h, subseqFromMask_zero]
  | cons p ps ih =>
    intro child h
    cases child with
    | nil => simp [subseqFromMask_zero]
    | cons c cs =>
      by_cases hcp : c = p
      · subst hcp
        have hs : cs.Sublist ps := List.cons_sublist_cons.1 h
        rw [maskFromSubseq_cons_self, subseqFromMask_cons]
        have : (1 + 2 * maskFromSubseq cs ps) / 2 = maskFromSubseq cs ps := by omega
        rw [this, ih cs hs]
        simp
      · have hs : (c :: cs).Sublist ps := by
          rcases List.sublist_cons_iff.1 h with h' | ⟨r, hr, _⟩
          · exact h'
          · exact absurd (List.cons.inj hr).1 hcp
        rw [maskFromSubseq_cons_ne hcp, subseqFromMask_cons]
        have : (2 * maskFromSubseq (c :: cs) ps) / 2 = maskFromSubseq (c :: cs) ps := by omega
        rw [this, ih _ hs]
        simp

theorem roundtrip_mask (parent : List α) (hnd : parent.Nodup) : ∀ mask : Nat,
    mask < 2 ^ parent.length →
    ∃ child, subseqFromMask mask parent = some child ∧ child.Sublist parent ∧
      maskFromSubseq child parent = mask := by
  induction parent with
  | nil =>
    intro mask h
    have : mask = 0 := by simpa using h
    subst this
    exact ⟨[], subseqFromMask_zero _, List.Sublist.refl _, by simp⟩
  | cons p ps ih =>
    intro mask h
    have hp : p ∉ ps := (List.nodup_cons.1 hnd).1
    have hlt : mask / 2 < 2 ^ ps.length := by
      rw [List.length_cons, Nat.pow_succ] at h; omega
    obtain ⟨r, hr, hsub, hm⟩ := ih (List.nodup_cons.1 hnd).2 (mask / 2) hlt
    by_cases hodd : mask % 2 = 1
    · refine ⟨p :: r, ?_, List.cons_sublist_cons.2 hsub, ?_⟩
      · rw [subseqFromMask_cons, hr]; simp [hodd]
      · rw [maskFromSubseq_cons_self, hm]; omega
    · refine ⟨r, ?_, List.Sublist.cons _ hsub, ?_⟩
      · rw [subseqFromMask_cons, hr]; simp [hodd]
      · have : p ∉ r := fun hmem => hp (hsub.subset hmem)
        rw [maskFromSubseq_skip this, hm]; omega

theorem mask_lt (parent : List α) : ∀ child : List α,
    maskFromSubseq child parent < 2 ^ parent.length := by
  induction parent with
  | nil => intro child; simp
  | cons p ps ih =>
    intro child
    cases child with
    | nil => simp; exact Nat.pos_of_ne_zero (by simp)
    | cons c cs =>
      rw [List.length_cons, Nat.pow_succ]
      by_cases hcp : c = p
      · subst hcp
        have := ih cs
        rw [maskFromSubseq_cons_self]; omega
      · have := ih (c :: cs)
        rw [maskFromSubseq_cons_ne hcp]; omega

theorem mask_self (parent : List α) : maskFromSubseq parent parent = subseqComplete parent := by
  unfold subseqComplete
  induction parent with
  | nil => simp
  | cons p ps ih =>
    have : 0 < 2 ^ ps.length := Nat.pos_of_ne_zero (by simp)
    rw [maskFromSubseq_cons_self, ih, List.length_cons, Nat.pow_succ]; omega

theorem mask_ne_zero (parent : List α) : ∀ child : List α, child ≠ [] → child.Sublist parent →
    maskFromSubseq child parent ≠ 0 := by
  induction parent with
  | nil => intro child hne h; exact absurd (List.sublist_nil.1 h) hne
  | cons p ps ih =>
    intro child hne h
    cases child with
    | nil => exact absurd rfl hne
    | cons c cs =>
      by_cases hcp : c = p
      · subst hcp
        rw [maskFromSubseq_cons_self]; omega
      · have hs : (c :: cs).Sublist ps := by
          rcases List.sublist_cons_iff.1 h with h' | ⟨r, hr, _⟩
          · exact h'
          · exact absurd (List.cons.inj hr).1 hcp
        have := ih _ hne hs
        rw [maskFromSubseq_cons_ne hcp]; omega

/-- The bits of the mask of a subsequence of a duplicate-free sequence: bit
    `i` is set exactly when the `i`-th element of the sequence is in the
    subsequence. -/
theorem mask_testBit (root : List α) (hnd : root.Nodup) : ∀ (child : List α),
    child.Sublist root → ∀ i,
    ((maskFromSubseq child root).testBit i = true ↔ ∃ x, root[i]? = some x ∧ x ∈ child) := by
  induction root with
  | nil => intro child _ i; simp
  | cons r rs ih =>
    intro child h i
    have hr : r ∉ rs := (List.nodup_cons.1 hnd).1
    have hnd' := (List.nodup_cons.1 hnd).2
    by_cases hmem : r ∈ child
    · -- the child must start with r
      cases child with
      | nil => simp at hmem
      | cons c cs =>
        have hcr : c = r := by
          apply Classical.byContradiction
          intro hne
          have hs : (c :: cs).Sublist rs := by
            rcases List.sublist_cons_iff.1 h with h' | ⟨r', hr', _⟩
            · exact h'
            · exact absurd (List.cons.inj hr').1 hne
          exact hr (hs.subset hmem)
        subst hcr
        have hs : cs.Sublist rs := List.cons_sublist_cons.1 h
        rw [maskFromSubseq_cons_self]
        cases i with
        | zero => simp [Nat.testBit_zero]
        | succ i =>
          have : (1 + 2 * maskFromSubseq cs rs) / 2 = maskFromSubseq cs rs := by omega
          rw [Nat.testBit_succ, this, ih hnd' cs hs i]
          simp only [List.getElem?_cons_succ]
          constructor
          · rintro ⟨x, hx, hxc⟩; exact ⟨x, hx, List.mem_cons_of_mem _ hxc⟩
          · rintro ⟨x, hx, hxc⟩
            refine ⟨x, hx, ?_⟩
            rcases List.mem_cons.1 hxc with rfl | h'
            · exact absurd (List.mem_of_getElem? hx) hr
            · exact h'
    · have hs : child.Sublist rs := by
        rcases List.sublist_cons_iff.1 h with h' | ⟨r', hr', _⟩
        · exact h'
        · exact absurd (by simp [hr']) hmem
      rw [maskFromSubseq_skip hmem]
      cases i with
      | zero =>
        simp [Nat.testBit_zero]
        exact hmem
      | succ i =>
        have : (2 * maskFromSubseq child rs) / 2 = maskFromSubseq child rs := by omega
        rw [Nat.testBit_succ, this, ih hnd' child hs i]
        simp

theorem contained_of_sublist {child parent root : List α} (hnd : root.Nodup)
    (hcp : child.Sublist parent) (hpr : parent.Sublist root) :
    Contained (maskFromSubseq child root) (maskFromSubseq parent root) := by
  intro i hi
  obtain ⟨x, hx, hxc⟩ := (mask_testBit root hnd child (hcp.trans hpr) i).1 hi
  exact (mask_testBit root hnd parent hpr i).2 ⟨x, hx, hcp.subset hxc⟩

theorem pat_zero_right (n : Nat) : ∀ c, pat n c 0 = [] := by
  induction n with
  | zero => intro c; rfl
  | succ n ih => intro c; simp [pat, ih]

theorem pat_stable (n : Nat) : ∀ c p, bitLength p ≤ n → pat n c p = pat (bitLength p) c p := by
  induction n with
  | zero =>
    intro c p h
    have : bitLength p = 0 := by omega
    rw [this]
  | succ n ih =>
    intro c p h
    by_cases hp : p = 0
    · subst hp; simp [pat_zero_right]
    · obtain ⟨m, rfl⟩ : ∃ m, p = m + 1 := ⟨p - 1, by omega⟩
      have hb : bitLength (m + 1) = 1 + bitLength ((m + 1) / 2) := by rw [bitLength]
      rw [hb, Nat.add_comm 1]
      simp only [pat]
      rw [ih _ _ (by omega)]

theorem pat_two_mul (n a b : Nat) : pat (n + 1) (2 * a) (2 * b) = pat n a b := by
  have h1 : 2 * a / 2 = a := by omega
  have h2 : 2 * b / 2 = b := by omega
  simp [pat, h1, h2]

/-- The keep/lost pattern of two masks taken w.r.t. the same duplicate-free
    root order is the membership pattern of the parent's elements. -/
theorem pat_masks (root : List α) (hnd : root.Nodup) : ∀ (child parent : List α),
    child.Sublist parent → parent.Sublist root →
    pat root.length (maskFromSubseq child root) (maskFromSubseq parent root)
      = parent.map fun x => decide (x ∈ child) := by
  induction root with
  | nil =>
    intro child parent _ hpr
    simp [List.sublist_nil.1 hpr, pat]
  | cons r rs ih =>
    intro child parent hcp hpr
    have hr : r ∉ rs := (List.nodup_cons.1 hnd).1
    have hnd' := (List.nodup_cons.1 hnd).2
    rw [List.length_cons]
    by_cases hrp : r ∈ parent
    · -- parent = r :: ps
      cases parent with
      | nil => simp at hrp
      | cons p ps =>
        have hpr_eq : p = r := by
          apply Classical.byContradiction
          intro hne
          have hs : (p :: ps).Sublist rs := by
            rcases List.sublist_cons_iff.1 hpr with h' | ⟨r', hr', _⟩
            · exact h'
            · exact absurd (List.cons.inj hr').1 hne
          exact hr (hs.subset hrp)
        subst hpr_eq
        have hps : ps.Sublist rs := List.cons_sublist_cons.1 hpr
        have hpps : p ∉ ps := fun h => hr (hps.subset h)
        rw [maskFromSubseq_cons_self]
        by_cases hrc : p ∈ child
        · cases child with
          | nil => simp at hrc
          | cons c cs =>
            have hcr : c = p := by
              apply Classical.byContradiction
              intro hne
              have hs : (c :: cs).Sublist ps := by
                rcases List.sublist_cons_iff.1 hcp with h' | ⟨r', hr', _⟩
                · exact h'
                · exact absurd (List.cons.inj hr').1 hne
              exact hpps (hs.subset hrc)
            subst hcr
            have hcs : cs.Sublist ps := List.cons_sublist_cons.1 hcp
            rw [maskFromSubseq_cons_self]
            have h1 : (1 + 2 * maskFromSubseq cs rs) / 2 = maskFromSubseq cs rs := by omega
            have h2 : (1 + 2 * maskFromSubseq ps rs) / 2 = maskFromSubseq ps rs := by omega
            have h3 : (1 + 2 * maskFromSubseq cs rs) % 2 = 1 := by omega
            have h4 : (1 + 2 * maskFromSubseq ps rs) % 2 = 1 := by omega
            simp only [pat, h1, h2, h3, h4, if_true, ih hnd' cs ps hcs hps, List.map_cons,
              List.mem_cons, true_or, decide_true]
            congr 1
            apply List.map_congr_left
            intro x hx
            have : x ≠ c := fun e => hpps (e ▸ hx)
            simp [this]
        · have hcs : child.Sublist ps := by
            rcases List.sublist_cons_iff.1 hcp with h' | ⟨r', hr', _⟩
            · exact h'
            · exact absurd (by simp [hr']) hrc
          rw [maskFromSubseq_skip hrc]
          have h1 : (2 * maskFromSubseq child rs) / 2 = maskFromSubseq child rs := by omega
          have h2 : (1 + 2 * maskFromSubseq ps rs) / 2 = maskFromSubseq ps rs := by omega
          have h3 : ¬ (2 * maskFromSubseq child rs) % 2 = 1 := by omega
          have h4 : (1 + 2 * maskFromSubseq ps rs) % 2 = 1 := by omega
          simp only [pat, h1, h2, h3, h4, if_true, ih hnd' child ps hcs hps, List.map_cons,
            hrc, decide_false]
    · have hps : parent.Sublist rs := by
        rcases List.sublist_cons_iff.1 hpr with h' | ⟨r', hr', _⟩
        · exact h'
        · exact absurd (by simp [hr']) hrp
      have hrc : r ∉ child := fun h => hrp (hcp.subset h)
      rw [maskFromSubseq_skip hrp, maskFromSubseq_skip hrc, pat_two_mul]
      exact ih hnd' child parent hcp hps

theorem bitLength_le_of_lt_two_pow {m n : Nat} (h : m < 2 ^ n) : bitLength m ≤ n := by
  by_cases hm : m = 0
  · subst hm; simp
  · rw [bitLength_eq m hm]
    exact (Nat.log2_lt hm).2 h

theorem keptPattern_masks {child parent root : List α} (hnd : root.Nodup)
    (hcp : child.Sublist parent) (hpr : parent.Sublist root) :
    keptPattern (maskFromSubseq child root) (maskFromSubseq parent root)
      = parent.map fun x => decide (x ∈ child) := by
  rw [keptPattern_eq_pat, ← pat_stable root.length _ _ (bitLength_le_of_lt_two_pow (mask_lt root parent))]
  exact pat_masks root hnd child parent hcp hpr

end SR.SubseqProofs
