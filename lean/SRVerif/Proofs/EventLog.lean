/-
  C06, part 1: the walks of the specification (`descend`, `classify`,
  `vertical`) against the evaluator's path operations (`isAnc`, `lcp`,
  `comparable`, `dist`).
-/
import SRVerif.Spec.EventLog
import SRVerif.Proofs.Paths

namespace SR.EventLog

open SR SR.Path

/-! ### `descend` -/

theorem descend_eq_some_iff (s a : Path) (w : List Nat) :
    descend s a = some w ↔ a = s ++ w := by
  induction s generalizing a with
  | nil => simp [descend, eq_comm]
  | cons i s ih =>
    cases a with
    | nil => simp [descend]
    | cons j a =>
      simp only [descend]
      by_cases h : i = j
      · subst h; simp [ih]
      · simp only [h, if_false, List.cons_append, List.cons.injEq]
        constructor
        · intro h'; cases h'
        · rintro ⟨rfl, _⟩; exact absurd rfl h

theorem descend_append (s w : List Nat) : descend s (s ++ w) = some w :=
  (descend_eq_some_iff s (s ++ w) w).2 rfl

theorem isAnc_append (s w : Path) : isAnc s (s ++ w) = true := by
  rw [isAnc_iff_prefix]; exact List.prefix_append s w

theorem descend_isSome (s a : Path) : (descend s a).isSome = isAnc s a := by
  cases h : descend s a with
  | some w =>
    rw [descend_eq_some_iff] at h
    subst h
    simp [isAnc_append]
  | none =>
    cases h' : isAnc s a with
    | false => rfl
    | true =>
      rw [isAnc_iff_prefix] at h'
      obtain ⟨w, rfl⟩ := h'
      rw [descend_append] at h
      cases h

theorem descend_eq_none_iff (s a : Path) : descend s a = none ↔ isAnc s a = false := by
  rw [← descend_isSome]
  cases descend s a <;> simp

theorem isAnc_append_append (s p q : Path) : isAnc (s ++ p) (s ++ q) = isAnc p q := by
  induction s with
  | nil => rfl
  | cons i s ih => simp [isAnc, ih]

theorem lcp_append_append (s p q : Path) : lcp (s ++ p) (s ++ q) = s ++ lcp p q := by
  induction s with
  | nil => rfl
  | cons i s ih => simp [lcp, ih]

theorem comparable_append_append (s p q : Path) :
    comparable (s ++ p) (s ++ q) = comparable p q := by
  simp [comparable, isAnc_append_append]

theorem strictlyAbove_eq (b s : Path) : strictlyAbove b s = isStrictAnc b s := by
  unfold strictlyAbove isStrictAnc
  cases h : descend b s with
  | none =>
    rw [descend_eq_none_iff] at h
    simp [h]
  | some w =>
    rw [descend_eq_some_iff] at h
    subst h
    cases w with
    | nil => simp
    | cons i w => simp [isAnc_append]

/-! ### The event -/

/-- The model's name of a specification-level event kind. -/
def Kind.toEvent : Kind → Event
  | .spec => .spec
  | .dup => .dup
  | .hgt => .hgt
  | .invalid => .invalid

theorem isStrictAnc_append_self (s w : Path) : isStrictAnc (s ++ w) s = false := by
  unfold isStrictAnc
  cases h : isAnc (s ++ w) s with
  | false => rfl
  | true =>
    have := isAnc_antisymm h (isAnc_append s w)
    simp [this]

/-- `node_event` computes the first-principles classification — for every
    triple of species, valid or not. -/
theorem internalEvent_eq_classify (s a b : Path) :
    internalEvent s a b = (classify s a b).toEvent := by
  unfold internalEvent classify
  cases ha : descend s a with
  | some wa =>
    rw [descend_eq_some_iff] at ha
    subst ha
    cases hb : descend s b with
    | some wb =>
      rw [descend_eq_some_iff] at hb
      subst hb
      simp only [isStrictAnc_append_self, isAnc_append, Bool.or_self, Bool.false_eq_true,
        if_false, Bool.and_self, if_true, lcp_append_append, comparable_append_append]
      cases wa with
      | nil => simp [comparable, isAnc, Kind.toEvent]
      | cons i wa =>
        cases wb with
        | nil => simp [comparable, isAnc, Kind.toEvent]
        | cons j wb =>
          by_cases hij : i = j
          · subst hij
            simp [lcp, Kind.toEvent]
          · have hji : ¬ j = i := fun e => hij e.symm
            simp [lcp, comparable, isAnc, hij, hji, Kind.toEvent]
    | none =>
      rw [descend_eq_none_iff] at hb
      simp only [isStrictAnc_append_self, isAnc_append, hb, Bool.false_or, Bool.and_false,
        Bool.false_eq_true, if_false, Bool.or_false, if_true, strictlyAbove_eq]
      cases isStrictAnc b s <;> simp [Kind.toEvent]
  | none =>
    rw [descend_eq_none_iff] at ha
    cases hb : descend s b with
    | some wb =>
      rw [descend_eq_some_iff] at hb
      subst hb
      simp only [isStrictAnc_append_self, isAnc_append, ha, Bool.or_false, Bool.false_and,
        Bool.false_eq_true, if_false, Bool.false_or, if_true, strictlyAbove_eq]
      cases isStrictAnc a s <;> simp [Kind.toEvent]
    | none =>
      rw [descend_eq_none_iff] at hb
      simp only [ha, hb, Bool.and_self, Bool.or_self, Bool.false_eq_true, if_false]
      cases (isStrictAnc a s || isStrictAnc b s) <;> simp [Kind.toEvent]

/-! ### Walks and distances -/

theorem length_visited (s : Path) (w : List Nat) : (visited s w).length = w.length := by
  induction w generalizing s with
  | nil => rfl
  | cons i w ih => simp [visited, ih]

theorem dist_append (s w : Path) : dist s (s ++ w) = w.length := by
  rw [dist_of_isAnc (isAnc_append s w)]
  simp

theorem length_vertical_append (s w : Path) : (vertical s (s ++ w)).length = w.length := by
  simp [vertical, descend_append, length_visited]

theorem vertical_of_not_isAnc {s a : Path} (h : isAnc s a = false) : vertical s a = [] := by
  simp [vertical, (descend_eq_none_iff s a).2 h]

/-- The length of the vertical walk is the evaluator's distance. -/
theorem length_vertical_of_isAnc {s a : Path} (h : isAnc s a = true) :
    (vertical s a).length = dist s a := by
  rw [isAnc_iff_prefix] at h
  obtain ⟨w, rfl⟩ := h
  rw [length_vertical_append, dist_append]

/-- In a speciation both children are at least one level below the node. -/
theorem classify_spec_dist {s a b : Path} (h : classify s a b = .spec) :
    isAnc s a = true ∧ isAnc s b = true ∧ 1 ≤ dist s a ∧ 1 ≤ dist s b := by
  unfold classify at h
  cases ha : descend s a with
  | none =>
    rw [ha] at h
    cases hb : descend s b <;> rw [hb] at h <;> simp at h
    split at h <;> cases h
  | some wa =>
    rw [ha] at h
    cases hb : descend s b with
    | none =>
      rw [hb] at h; simp at h
      split at h <;> cases h
    | some wb =>
      rw [hb] at h
      rw [descend_eq_some_iff] at ha hb
      subst ha hb
      cases wa with
      | nil => simp at h
      | cons i wa =>
        cases wb with
        | nil => simp at h
        | cons j wb => simp [isAnc_append, dist_append]

theorem classify_dup_isAnc {s a b : Path} (h : classify s a b = .dup) :
    isAnc s a = true ∧ isAnc s b = true := by
  have := internalEvent_eq_classify s a b
  rw [h] at this
  unfold internalEvent at this
  simp only [Kind.toEvent] at this
  split at this
  · cases this
  · split at this
    · rename_i h2; simpa using h2
    · split at this <;> cases this

/-- In a transfer exactly one child stays below the node, and "the left child
    is the conserved one" is what the evaluator tests with `comparable`. -/
theorem classify_hgt {s a b : Path} (h : classify s a b = .hgt) :
    (isAnc s a = true ∧ isAnc s b = false ∨ isAnc s a = false ∧ isAnc s b = true) ∧
      comparable s a = leftConserved s a := by
  unfold classify at h
  unfold leftConserved
  cases ha : descend s a with
  | none =>
    rw [ha] at h
    cases hb : descend s b with
    | none => rw [hb] at h; cases h
    | some wb =>
      rw [hb] at h
      simp only at h
      rw [strictlyAbove_eq] at h
      have hsa : isStrictAnc a s = false := by
        cases hx : isStrictAnc a s
        · rfl
        · rw [hx] at h; simp at h
      rw [descend_eq_none_iff] at ha
      have hb' : isAnc s b = true := by rw [← descend_isSome, hb]; rfl
      refine ⟨Or.inr ⟨ha, hb'⟩, ?_⟩
      simp only [comparable, ha, Bool.false_or, Option.isSome_none]
      cases hx : isAnc a s with
      | false => rfl
      | true =>
        unfold isStrictAnc at hsa
        rw [hx] at hsa
        simp only [Bool.true_and, bne_eq_false_iff_eq] at hsa
        subst hsa
        rw [isAnc_refl] at ha
        cases ha
  | some wa =>
    rw [ha] at h
    have ha' : isAnc s a = true := by rw [← descend_isSome, ha]; rfl
    cases hb : descend s b with
    | some wb =>
      rw [hb] at h
      simp only at h
      split at h
      · split at h <;> cases h
      · cases h
    | none =>
      rw [descend_eq_none_iff] at hb
      exact ⟨Or.inl ⟨ha', hb⟩, by simp [comparable, ha']⟩

end SR.EventLog
