/-
  C09 for the label DP, through its exactness theorem (`table_exact`,
  `dp_lower`, `dp_sound`) — the recurrence itself is not re-examined.

  Two algebras of the same shape (same leaf labels, labels, allowed species) with
  two cost vectors:
  * `dp_sols_transfer`: if the second generic cost `labCost` orders the labelled
    solutions like the first and is finite where the first is, every solution
    decoded from a cell of the first table is decoded from the cell with the same
    root state of the second table (both inside their coherent regions);
  * `dp_table_dominates`: if the first generic cost is pointwise below the second,
    every cell of the second table has a cell of the first with the same root
    state and no larger value (second inside its coherent region).
  `labCost_scale` / `labCost_mono` provide the hypotheses from the corresponding
  facts on the edge costs.
-/
import SRVerif.Proofs.LabelDPInst
import SRVerif.Proofs.LabelDPKeep
import SRVerif.Proofs.OptMono

namespace SR

open Cost Path SR.EventLog

namespace Cost

theorem min_le_min {a b a' b' : Cost} (h1 : a ≼ a') (h2 : b ≼ b') : Cost.min a b ≼ Cost.min a' b' := by
  rcases min_eq_or a' b' with h | h <;> rw [h]
  · exact le_trans (min_le_left a b) h1
  · exact le_trans (min_le_right a b) h2

theorem scale_LE_iff {k : Nat} (hk : 0 < k) (a b : Cost) : scale k a ≼ scale k b ↔ a ≼ b := by
  show le (scale k a) (scale k b) = true ↔ le a b = true
  rw [scale_le hk]

/-- `minList` depends only on the set of listed values. -/
theorem minList_congr_mem {l l' : List Cost} (h : ∀ x, x ∈ l ↔ x ∈ l') : minList l = minList l' := by
  apply minList_eq
  · intro x hx; exact minList_le ((h x).mp hx)
  · rcases minList_mem_or_inf l' with h' | h'
    · exact Or.inl h'
    · exact Or.inr ((h _).mpr h')

end Cost

/-! ### The evaluator's local cost with abstract edge costs -/

theorem gl_scale {k : Nat} (hk : 0 < k) (c : Costs) (s x y : Path) (cvx svx cvy svy : Cost) :
    gl (scaleCosts k c) s x (scale k cvx) (scale k svx) y (scale k cvy) (scale k svy)
      = scale k (gl c s x cvx svx y cvy svy) := by
  unfold gl
  cases internalEvent s x y <;> simp only []
  · rfl
  · rfl
  · simp only [scaleCosts, scale_add, scale_fin, Nat.mul_assoc]
  · simp only [scaleCosts, ← scale_min hk, scale_add, scale_fin, Nat.mul_assoc]
  · split <;> simp only [scaleCosts, scale_add, scale_fin, Nat.mul_assoc]

theorem gl_mono {c d : Costs} (h : leCosts c d) (s x y : Path)
    {cvx svx cvy svy cvx' svx' cvy' svy' : Cost}
    (h1 : cvx ≼ cvx') (h2 : svx ≼ svx') (h3 : cvy ≼ cvy') (h4 : svy ≼ svy') :
    gl c s x cvx svx y cvy svy ≼ gl d s x cvx' svx' y cvy' svy' := by
  obtain ⟨g1, g2, g3, g4, _⟩ := h
  have fl : ∀ n, Cost.fin (c.floss * n) ≼ Cost.fin (d.floss * n) :=
    fun n => EventLog.fin_le_fin (Nat.mul_le_mul_right n g4)
  unfold gl
  cases internalEvent s x y <;> simp only []
  · exact le_refl _
  · exact le_refl _
  · exact add_le_add (add_le_add (EventLog.fin_le_fin g1) (add_le_add (fl _) h1))
      (add_le_add (fl _) h3)
  · exact min_le_min
      (add_le_add (add_le_add (EventLog.fin_le_fin g2) (add_le_add (fl _) h1))
        (add_le_add (fl _) h4))
      (add_le_add (add_le_add (EventLog.fin_le_fin g2) (add_le_add (fl _) h2))
        (add_le_add (fl _) h3))
  · split
    · exact add_le_add (add_le_add g3 (add_le_add (fl _) h1)) h4
    · exact add_le_add (add_le_add g3 h2) (add_le_add (fl _) h3)

section

variable {α Lab : Type}

/-- Two algebras that differ only in their edge costs. -/
structure SameShape (A₁ A₂ : LabelAlg α Lab) : Prop where
  leafLab : A₁.leafLab = A₂.leafLab
  labs : A₁.labs = A₂.labs
  allowed : A₁.allowed = A₂.allowed

theorem SameShape.symm {A₁ A₂ : LabelAlg α Lab} (h : SameShape A₁ A₂) : SameShape A₂ A₁ :=
  ⟨h.leafLab.symm, h.labs.symm, h.allowed.symm⟩

theorem adm_congr {A₁ A₂ : LabelAlg α Lab} (h : SameShape A₁ A₂) :
    ∀ (t : ATree α) (ls : LSol Lab), Adm A₁ t ls → Adm A₂ t ls := by
  intro t
  induction t with
  | leaf a sp =>
    intro ls hl
    cases ls with
    | leaf s lab => simp only [Adm] at hl ⊢; rw [← h.leafLab]; exact hl
    | node s lab sl sr => exact hl
  | node a l r ihl ihr =>
    intro ls hl
    cases ls with
    | leaf s m => exact hl
    | node s m sl sr =>
      simp only [Adm] at hl ⊢
      rw [← h.allowed, ← h.labs]
      exact ⟨hl.1, hl.2.1, ihl sl hl.2.2.1, ihr sr hl.2.2.2⟩

theorem spOk_congr {A₁ A₂ : LabelAlg α Lab} (h : SameShape A₁ A₂) (S : RTree) :
    ∀ (t : ATree α), SpOk A₁ S t → SpOk A₂ S t := by
  intro t
  induction t with
  | leaf a sp => exact id
  | node a l r ihl ihr =>
    intro hl
    simp only [SpOk] at hl ⊢
    rw [← h.allowed]
    exact ⟨hl.1, ihl hl.2.1, ihr hl.2.2⟩

/-- The generic cost is homogeneous when the edge costs are. -/
theorem labCost_scale {k : Nat} (hk : 0 < k) (A₁ A₂ : LabelAlg α Lab) (c : Costs)
    (hc : ∀ a lab ca lc, A₂.conserv a lab ca lc = scale k (A₁.conserv a lab ca lc))
    (hs : ∀ a lab ca lc, A₂.segment a lab ca lc = scale k (A₁.segment a lab ca lc)) :
    ∀ (t : ATree α) (ls : LSol Lab),
      labCost A₂ (scaleCosts k c) t ls = scale k (labCost A₁ c t ls) := by
  intro t
  induction t with
  | leaf a sp => intro ls; cases ls <;> rfl
  | node a l r ihl ihr =>
    intro ls
    cases ls with
    | leaf s m => rfl
    | node s m sl sr =>
      simp only [labCost, genLocal, hc, hs, gl_scale hk, ihl, ihr, scale_add]

/-- The generic cost is monotone when the edge costs are. -/
theorem labCost_mono (A₁ A₂ : LabelAlg α Lab) {c d : Costs} (h : leCosts c d)
    (hc : ∀ a lab ca lc, A₁.conserv a lab ca lc ≼ A₂.conserv a lab ca lc)
    (hs : ∀ a lab ca lc, A₁.segment a lab ca lc ≼ A₂.segment a lab ca lc) :
    ∀ (t : ATree α) (ls : LSol Lab), labCost A₁ c t ls ≼ labCost A₂ d t ls := by
  intro t
  induction t with
  | leaf a sp => intro ls; cases ls <;> exact le_refl _
  | node a l r ihl ihr =>
    intro ls
    cases ls with
    | leaf s m => exact le_refl _
    | node s m sl sr =>
      simp only [labCost, genLocal]
      exact add_le_add (gl_mono h _ _ _ (hc _ _ _ _) (hs _ _ _ _) (hc _ _ _ _) (hs _ _ _ _))
        (add_le_add (ihl sl) (ihr sr))

variable [DecidableEq Lab]

/-- **Same order of generic costs ⇒ same decoded solutions, cell by cell.** -/
theorem dp_sols_transfer (A₁ A₂ : LabelAlg α Lab) (c₁ c₂ : Costs) (S : RTree) {K₁ K₂ : Nat}
    (hK₁ : A₁.Slack K₁) (hK₂ : A₂.Slack K₂)
    (hcoh₁ : c₁.spe + K₁ ≤ c₁.dup + 2 * c₁.floss) (hcoh₂ : c₂.spe + K₂ ≤ c₂.dup + 2 * c₂.floss)
    (hb : S.isBinary = true) (t : ATree α) (hok : SpOk A₁ S t) (hsh : SameShape A₁ A₂)
    (hle : ∀ ls ls', labCost A₁ c₁ t ls ≼ labCost A₁ c₁ t ls' →
      labCost A₂ c₂ t ls ≼ labCost A₂ c₂ t ls')
    (hfin : ∀ ls, labCost A₁ c₁ t ls ≠ .inf → labCost A₂ c₂ t ls ≠ .inf) :
    ∀ d ∈ dpTable A₁ c₁ S true t, ∀ ls ∈ d.sols,
      ∃ d' ∈ dpTable A₂ c₂ S true t, d'.sp = d.sp ∧ d'.lab = d.lab ∧ ls ∈ d'.sols ∧
        labCost A₁ c₁ t ls = d.cost ∧ labCost A₂ c₂ t ls = d'.cost := by
  intro d hd ls hls
  have hok₂ := spOk_congr hsh S t hok
  obtain ⟨_, hmem₁, hlow₁⟩ := table_exact A₁ c₁ S hK₁ hcoh₁ hb t hok d hd
  obtain ⟨adm, hsp, hlab, hcost⟩ := (hmem₁ ls).mp hls
  have hf₁ : labCost A₁ c₁ t ls ≠ .inf := by rw [hcost]; exact dp_finite A₁ c₁ S true t hd
  obtain ⟨d', hd', hsp', hlab', hle'⟩ :=
    dp_lower A₂ c₂ S true hb t hok₂ ls (adm_congr hsh t ls adm) (hfin ls hf₁)
  obtain ⟨⟨ls', hls'⟩, hmem₂, _⟩ := table_exact A₂ c₂ S hK₂ hcoh₂ hb t hok₂ d' hd'
  obtain ⟨adm', hsp2, hlab2, hcost'⟩ := (hmem₂ ls').mp hls'
  have h1 : labCost A₁ c₁ t ls ≼ labCost A₁ c₁ t ls' := by
    rw [hcost]
    exact hlow₁ ls' (adm_congr hsh.symm t ls' adm') (by rw [hsp2, hsp', hsp])
      (by rw [hlab2, hlab', hlab])
  have h2 := hle ls ls' h1
  rw [hcost'] at h2
  have heq : labCost A₂ c₂ t ls = d'.cost := le_antisymm h2 hle'
  exact ⟨d', hd', by rw [hsp', hsp], by rw [hlab', hlab],
    (hmem₂ ls).mpr ⟨adm_congr hsh t ls adm, hsp'.symm, hlab'.symm, heq⟩, hcost, heq⟩

/-- **Pointwise cheaper generic cost ⇒ the table dominates, cell by cell.** -/
theorem dp_table_dominates (A₁ A₂ : LabelAlg α Lab) (c₁ c₂ : Costs) (S : RTree) {K₂ : Nat}
    (hK₂ : A₂.Slack K₂) (hcoh₂ : c₂.spe + K₂ ≤ c₂.dup + 2 * c₂.floss)
    (hb : S.isBinary = true) (t : ATree α) (hok : SpOk A₁ S t) (hsh : SameShape A₁ A₂)
    (hmono : ∀ ls, labCost A₁ c₁ t ls ≼ labCost A₂ c₂ t ls) (keep : Bool) :
    ∀ d' ∈ dpTable A₂ c₂ S true t,
      ∃ d ∈ dpTable A₁ c₁ S keep t, d.sp = d'.sp ∧ d.lab = d'.lab ∧ d.cost ≼ d'.cost := by
  intro d' hd'
  have hok₂ := spOk_congr hsh S t hok
  obtain ⟨⟨ls', hls'⟩, hmem₂, _⟩ := table_exact A₂ c₂ S hK₂ hcoh₂ hb t hok₂ d' hd'
  obtain ⟨adm', hsp2, hlab2, hcost'⟩ := (hmem₂ ls').mp hls'
  have hm := hmono ls'
  rw [hcost'] at hm
  have hf : labCost A₁ c₁ t ls' ≠ .inf := by
    intro e
    rw [e] at hm
    exact dp_finite A₂ c₂ S true t hd' ((inf_le _).mp hm)
  obtain ⟨d, hd, hsp, hlab, hle⟩ :=
    dp_lower A₁ c₁ S keep hb t hok ls' (adm_congr hsh.symm t ls' adm') hf
  exact ⟨d, hd, by rw [hsp, hsp2], by rw [hlab, hlab2], le_trans hle hm⟩

/-- The cells of the two `keep` variants of a table carry the same root states and values. -/
theorem dpTable_keep_cell (A : LabelAlg α Lab) (c : Costs) (S : RTree) (t : ATree α) (k₁ k₂ : Bool) :
    ∀ d ∈ dpTable A c S k₁ t, ∃ d' ∈ dpTable A c S k₂ t,
      d'.sp = d.sp ∧ d'.lab = d.lab ∧ d'.cost = d.cost := by
  have key : ∀ k : Bool, (dpTable A c S k t).map DCell.core = (dpTable A c S true t).map DCell.core := by
    intro k; cases k
    · exact dpTable_core A c S t
    · rfl
  intro d hd
  have : d.core ∈ (dpTable A c S k₂ t).map DCell.core := by
    rw [key k₂, ← key k₁]; exact List.mem_map.mpr ⟨d, hd, rfl⟩
  obtain ⟨d', hd', e⟩ := List.mem_map.mp this
  simp only [DCell.core, Prod.mk.injEq] at e
  exact ⟨d', hd', e.1, e.2.1, e.2.2⟩

/-- Cell-level transfer for any `keep` flags: the cell with the same root state exists in
    the second table, and one labelled solution realises both values. -/
theorem dp_cell_transfer (A₁ A₂ : LabelAlg α Lab) (c₁ c₂ : Costs) (S : RTree) {K₁ K₂ : Nat}
    (hK₁ : A₁.Slack K₁) (hK₂ : A₂.Slack K₂)
    (hcoh₁ : c₁.spe + K₁ ≤ c₁.dup + 2 * c₁.floss) (hcoh₂ : c₂.spe + K₂ ≤ c₂.dup + 2 * c₂.floss)
    (hb : S.isBinary = true) (t : ATree α) (hok : SpOk A₁ S t) (hsh : SameShape A₁ A₂)
    (hle : ∀ ls ls', labCost A₁ c₁ t ls ≼ labCost A₁ c₁ t ls' →
      labCost A₂ c₂ t ls ≼ labCost A₂ c₂ t ls')
    (hfin : ∀ ls, labCost A₁ c₁ t ls ≠ .inf → labCost A₂ c₂ t ls ≠ .inf) (k₁ k₂ : Bool) :
    ∀ d ∈ dpTable A₁ c₁ S k₁ t, ∃ d' ∈ dpTable A₂ c₂ S k₂ t, d'.sp = d.sp ∧ d'.lab = d.lab ∧
      ∃ ls, labCost A₁ c₁ t ls = d.cost ∧ labCost A₂ c₂ t ls = d'.cost := by
  intro d hd
  obtain ⟨d1, hd1, e1, e2, e3⟩ := dpTable_keep_cell A₁ c₁ S t k₁ true d hd
  obtain ⟨ls, hls⟩ := dp_nonempty A₁ c₁ S t d1 hd1
  obtain ⟨d2, hd2, f1, f2, _, g1, g2⟩ :=
    dp_sols_transfer A₁ A₂ c₁ c₂ S hK₁ hK₂ hcoh₁ hcoh₂ hb t hok hsh hle hfin d1 hd1 ls hls
  obtain ⟨d3, hd3, h1, h2, h3⟩ := dpTable_keep_cell A₂ c₂ S t true k₂ d2 hd2
  exact ⟨d3, hd3, by rw [h1, f1, e1], by rw [h2, f2, e2], ls, by rw [g1, e3], by rw [g2, h3]⟩

/-- **Scaling, table level**: inside the coherent region, the values of the cells whose
    label satisfies `P` are exactly the scaled values (as sets; any `keep` flags). -/
theorem dp_costs_scale_mem {k : Nat} (hk : 0 < k) (A₁ A₂ : LabelAlg α Lab) (c : Costs) (S : RTree)
    {K₁ K₂ : Nat} (hK₁ : A₁.Slack K₁) (hK₂ : A₂.Slack K₂)
    (hcoh₁ : c.spe + K₁ ≤ c.dup + 2 * c.floss)
    (hcoh₂ : (scaleCosts k c).spe + K₂ ≤ (scaleCosts k c).dup + 2 * (scaleCosts k c).floss)
    (hb : S.isBinary = true) (t : ATree α) (hok : SpOk A₁ S t) (hsh : SameShape A₁ A₂)
    (hc : ∀ a lab ca lc, A₂.conserv a lab ca lc = scale k (A₁.conserv a lab ca lc))
    (hs : ∀ a lab ca lc, A₂.segment a lab ca lc = scale k (A₁.segment a lab ca lc))
    (P : Lab → Bool) (k₁ k₂ : Bool) (x : Cost) :
    x ∈ ((dpTable A₂ (scaleCosts k c) S k₂ t).filter (fun d => P d.lab)).map (·.cost) ↔
      x ∈ (((dpTable A₁ c S k₁ t).filter (fun d => P d.lab)).map (·.cost)).map (scale k) := by
  have hsc := labCost_scale hk A₁ A₂ c hc hs t
  simp only [List.mem_map, List.mem_filter]
  constructor
  · rintro ⟨d', ⟨hd', hP⟩, rfl⟩
    obtain ⟨d, hd, e1, e2, ls, g1, g2⟩ :=
      dp_cell_transfer A₂ A₁ (scaleCosts k c) c S hK₂ hK₁ hcoh₂ hcoh₁ hb t (spOk_congr hsh S t hok)
        hsh.symm
        (fun ls ls' h => by rw [hsc, hsc] at h; exact (scale_LE_iff hk _ _).mp h)
        (fun ls h e => by rw [hsc, e] at h; exact h rfl) k₂ k₁ d' hd'
    exact ⟨d.cost, ⟨d, ⟨hd, by rw [e2]; exact hP⟩, rfl⟩, by rw [← g1, ← g2, hsc]⟩
  · rintro ⟨_, ⟨d, ⟨hd, hP⟩, rfl⟩, rfl⟩
    obtain ⟨d', hd', e1, e2, ls, g1, g2⟩ :=
      dp_cell_transfer A₁ A₂ c (scaleCosts k c) S hK₁ hK₂ hcoh₁ hcoh₂ hb t hok hsh
        (fun ls ls' h => by rw [hsc, hsc]; exact (scale_LE_iff hk _ _).mpr h)
        (fun ls h e => by
          rw [hsc] at e
          cases h' : labCost A₁ c t ls with
          | inf => exact h h'
          | fin n => rw [h'] at e; cases e) k₁ k₂ d hd
    exact ⟨d', ⟨hd', by rw [e2]; exact hP⟩, by rw [← g1, ← g2, hsc]⟩

/-- **Monotonicity, table level**: the minimum over the cells whose label satisfies `P`. -/
theorem dp_min_mono (A₁ A₂ : LabelAlg α Lab) (c₁ c₂ : Costs) (S : RTree) {K₂ : Nat}
    (hK₂ : A₂.Slack K₂) (hcoh₂ : c₂.spe + K₂ ≤ c₂.dup + 2 * c₂.floss)
    (hb : S.isBinary = true) (t : ATree α) (hok : SpOk A₁ S t) (hsh : SameShape A₁ A₂)
    (hmono : ∀ ls, labCost A₁ c₁ t ls ≼ labCost A₂ c₂ t ls) (P : Lab → Bool) (k₁ k₂ : Bool) :
    ∀ x ∈ ((dpTable A₂ c₂ S k₂ t).filter (fun d => P d.lab)).map (·.cost),
      minList (((dpTable A₁ c₁ S k₁ t).filter (fun d => P d.lab)).map (·.cost)) ≼ x := by
  intro x hx
  simp only [List.mem_map, List.mem_filter] at hx
  obtain ⟨d', ⟨hd', hP⟩, rfl⟩ := hx
  obtain ⟨d1, hd1, e1, e2, e3⟩ := dpTable_keep_cell A₂ c₂ S t k₂ true d' hd'
  obtain ⟨d, hd, f1, f2, hle⟩ :=
    dp_table_dominates A₁ A₂ c₁ c₂ S hK₂ hcoh₂ hb t hok hsh hmono k₁ d1 hd1
  rw [← e3]
  refine le_trans (minList_le (List.mem_map.mpr ⟨d, List.mem_filter.mpr ⟨hd, ?_⟩, rfl⟩)) hle
  rw [f2, e2]; exact hP

end

end SR
