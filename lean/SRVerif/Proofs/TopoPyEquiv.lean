/-
  Equivalence of the MECHANICALLY TRANSLATED functions of
  `superrec2/utils/toposort.py` (`SRVerif/Generated/TopoPy.lean`, written by
  `harness/translate_py.py` on every run of the check: `toposort` with its four
  loops, the recursive `_toposort_all_bt` (`_toposort_all_bt.rec_` on a declared
  fuel, its main loop taking the function itself as `rec_`), `toposort_all`)
  with the hand-written model `SRVerif/Model/Toposort.lean`, at node type `Nat`.

  Hand-written, stated against the CURRENT generated normal form (see the
  docstring of translate_py.py).  The scripts unfold the generated definitions
  and let `simp` walk through the hoisted `match`es, so they do not depend on
  the names of the Python locals; they do depend on the shape of the loops and
  on which sub-expressions are hoisted.  `Generated/TopoPyEquiv.lean`
  instantiates the theorems for the definitions generated in the current run.

  * Part 1 (this file): the dict / set / deque operations of the prelude
    `Model/PyRtColl.lean` on `Nat` keys are the model's `lookup` / `Indeg.set` /
    `erase` / `setAdd`; `toposort` (Kahn): the two initialisation loops are the
    model's `kahnInit`, the inner decrement loop is `decAll pushBack`, the
    `while` loop is `kahnLoop` at the same fuel — EQUAL results, exceptions
    included, whenever the model does not run out of fuel (it never does on a
    well-formed or a malformed graph: `C19_total`, `C19_malformed`).
  * Part 2 (`TopoPyEquivAll.lean`): `toposort_all` for EVERY iteration order of
    the sets `starts`.
-/
import SRVerif.Generated.TopoPy
import SRVerif.Proofs.ToposortAlg

namespace SR.TopoPyProofs
open SR SR.Toposort

/-- The model's exceptions as Python exceptions (`fuel` is the marker `Diverged`). -/
def toPy : Toposort.Err → Py.Err
  | .keyError => .KeyError
  | .valueError => .ValueError
  | .indexError => .IndexError
  | .fuel => .Diverged

/-- A model result as a result of a generated function. -/
def conv {ρ : Type} : Except Toposort.Err ρ → Except Py.Err ρ
  | .ok r => .ok r
  | .error e => .error (toPy e)

/-- A model result as the outcome of a generated loop that ends normally in the state `f r`. -/
def ctl {σ τ ρ : Type} (f : τ → σ) : Except Toposort.Err τ → Py.Ctl σ ρ
  | .ok r => .next (f r)
  | .error e => .err (toPy e)

@[simp] theorem conv_ok {ρ : Type} (r : ρ) : conv (.ok r : Except Toposort.Err ρ) = .ok r := rfl
@[simp] theorem conv_error {ρ : Type} (e : Toposort.Err) :
    conv (.error e : Except Toposort.Err ρ) = .error (toPy e) := rfl
@[simp] theorem ctl_ok {σ τ ρ : Type} (f : τ → σ) (r : τ) :
    (ctl f (.ok r) : Py.Ctl σ ρ) = .next (f r) := rfl
@[simp] theorem ctl_error {σ τ ρ : Type} (f : τ → σ) (e : Toposort.Err) :
    (ctl f (.error e : Except Toposort.Err τ) : Py.Ctl σ ρ) = .err (toPy e) := rfl

/-! ### The prelude's dicts and sets, on `Nat` keys -/

theorem dictGet?_eq_lookup {β : Type} (d : List (Nat × β)) (k : Nat) :
    Py.dictGet? d k = d.lookup k := by
  induction d with
  | nil => rfl
  | cons a d ih =>
    obtain ⟨a1, a2⟩ := a
    rw [Py.dictGet?, List.lookup_cons]
    by_cases e : a1 = k
    · subst e; simp
    · have e' : (k == a1) = false := by simpa using fun h => e h.symm
      rw [if_neg e, e', ih]

theorem dictHas_of_lookup {β : Type} {d : List (Nat × β)} {k : Nat} {x : β}
    (h : d.lookup k = some x) : Py.dictHas d k = true := by
  simp [Py.dictHas, dictGet?_eq_lookup, h]

theorem dictSet_eq_set {I : Indeg} {k : Nat} {y : Int} (x : Int) (h : I.lookup k = some y) :
    Py.dictSet I k x = I.set k x := by
  simp [Py.dictSet, dictHas_of_lookup h, Indeg.set]

theorem dictKeys_eq (g : Graph) : Py.dictKeys g = keys g := rfl

theorem dedup_aux (xs : List Nat) : ∀ acc : List Nat, (acc ++ xs).Nodup →
    xs.foldl (fun acc x => if x ∈ acc then acc else acc ++ [x]) acc = acc ++ xs := by
  induction xs with
  | nil => intro acc _; simp
  | cons x xs ih =>
    intro acc h
    have hx : x ∉ acc := by
      intro hm
      have := List.nodup_append.1 h
      exact this.2.2 x hm x (by simp) rfl
    rw [List.foldl_cons, if_neg hx, ih (acc ++ [x]) (by simpa using h)]
    simp

theorem setOfList_nodup {xs : List Nat} (h : xs.Nodup) : Py.setOfList xs = xs := by
  have := dedup_aux xs [] (by simpa using h)
  simpa [Py.setOfList, Py.dedup] using this

theorem dictOfList_aux (l : List Nat) : ∀ acc : List (Nat × Int), (acc.map (·.1) ++ l).Nodup →
    (l.map (fun n => (n, (0 : Int)))).foldl (fun d p => Py.dictSet d p.1 p.2) acc
      = acc ++ l.map (fun n => (n, (0 : Int))) := by
  induction l with
  | nil => intro acc _; simp
  | cons x l ih =>
    intro acc h
    have hx : x ∉ acc.map (·.1) := by
      intro hm
      have := List.nodup_append.1 h
      exact this.2.2 x hm x (by simp) rfl
    have hl : acc.lookup x = none := lookup_none_of_not_mem acc x hx
    have hset : Py.dictSet acc x (0 : Int) = acc ++ [(x, 0)] := by
      simp [Py.dictSet, Py.dictHas, dictGet?_eq_lookup, hl]
    rw [List.map_cons, List.foldl_cons]
    simp only []
    rw [hset, ih (acc ++ [(x, 0)]) (by simpa using h)]
    simp

theorem dictOfList_init {g : Graph} (hk : (keys g).Nodup) :
    Py.dictOfList ((keys g).map (fun n => (n, (0 : Int)))) = Indeg.init g := by
  have := dictOfList_aux (keys g) [] (by simpa using hk)
  rw [Py.dictOfList, this]
  simp [Indeg.init, keys]

theorem setAdd_eq (s : List Nat) (v : Nat) : Py.setAdd s v = Toposort.setAdd s v := rfl

theorem remove?_eq (s : List Nat) (v : Nat) :
    Py.remove? s v = if v ∈ s then some (s.erase v) else none := rfl

theorem discard_eq (s : List Nat) (v : Nat) : Py.discard s v = s.erase v := rfl

/-! ### `toposort`: the initialisation loops -/

theorem kahn_loop2_eq : ∀ (ss st : List Nat) (I : Indeg),
    (Gen.Topo.toposort.loop2 ss (st, I) : Py.Ctl _ (Option (List Nat)))
      = ctl id (ss.foldlM kahnInitOne (st, I)) := by
  intro ss
  induction ss with
  | nil => intro st I; simp [Gen.Topo.toposort.loop2, pure, Except.pure]
  | cons a ss ih =>
    intro st I
    rw [Gen.Topo.toposort.loop2, List.foldlM_cons]
    simp only [dictGet?_eq_lookup, kahnInitOne]
    cases hl : I.lookup a with
    | none => simp [bind, Except.bind, toPy]
    | some x =>
      simp only []
      by_cases hx : x = 0
      · subst hx
        simp only [if_true, remove?_eq]
        by_cases hm : a ∈ st
        · simp only [hm, if_true, bind, Except.bind, dictSet_eq_set _ hl]
          exact ih _ _
        · simp [hm, bind, Except.bind, toPy]
      · simp only [hx, if_false, bind, Except.bind, dictSet_eq_set _ hl]
        exact ih _ _

theorem kahn_loop1_eq : ∀ (g : Graph) (st : List Nat) (I : Indeg),
    (Gen.Topo.toposort.loop1 (Py.dictValues g) (st, I) : Py.Ctl _ (Option (List Nat)))
      = ctl id (g.foldlM (fun st p => p.2.foldlM kahnInitOne st) (st, I)) := by
  intro g
  induction g with
  | nil => intro st I; simp [Py.dictValues, Gen.Topo.toposort.loop1, pure, Except.pure]
  | cons p g ih =>
    intro st I
    rw [Py.dictValues, List.map_cons, Gen.Topo.toposort.loop1, kahn_loop2_eq, List.foldlM_cons]
    cases h : p.2.foldlM kahnInitOne (st, I) with
    | error e => simp [bind, Except.bind]
    | ok s =>
      obtain ⟨s1, s2⟩ := s
      simp only [ctl_ok, id, bind, Except.bind]
      exact ih s1 s2

/-! ### `toposort`: the decrement loop and the `while` loop -/

theorem kahn_loop4_eq : ∀ (ss st : List Nat) (I : Indeg),
    (Gen.Topo.toposort.loop4 ss (st, I) : Py.Ctl _ (Option (List Nat)))
      = ctl id (decAll pushBack ss (st, I)) := by
  intro ss
  induction ss with
  | nil => intro st I; simp [Gen.Topo.toposort.loop4, decAll, pure, Except.pure]
  | cons a ss ih =>
    intro st I
    rw [Gen.Topo.toposort.loop4, decAll, List.foldlM_cons]
    simp only [dictGet?_eq_lookup, decOne, Indeg.bump]
    cases hl : I.lookup a with
    | none => simp [bind, Except.bind, toPy]
    | some x =>
      have hs : (I.set a (x - 1)).lookup a = some (x - 1) := lookup_set_self I a _ _ hl
      simp only [dictSet_eq_set _ hl, hs, bind, Except.bind, Int.sub_eq_add_neg] at *
      rw [ih]
      simp only [decAll, pushBack]

theorem getSuccs_eq (g : Graph) (x : Nat) :
    getSuccs g x = match Py.dictGet? g x with
      | none => .error .keyError
      | some ss => .ok ss := by
  rw [dictGet?_eq_lookup]; rfl

/-- The generated `while starts:` loop is the model's `kahnLoop` at the same fuel: same result,
    same exception, unless the model runs out of fuel. -/
theorem kahn_loop3_eq (g : Graph) : ∀ (fuel : Nat) (starts : List Nat) (I : Indeg) (result : List Nat),
    (∀ res, kahnLoop g fuel starts I result = .ok res →
      ∃ I', (Gen.Topo.toposort.loop3 g fuel (starts, I, result) : Py.Ctl _ (Option (List Nat)))
        = .next ([], I', res)) ∧
    (∀ e, kahnLoop g fuel starts I result = .error e → e ≠ .fuel →
      (Gen.Topo.toposort.loop3 g fuel (starts, I, result) : Py.Ctl _ (Option (List Nat)))
        = .err (toPy e)) := by
  intro fuel
  induction fuel with
  | zero =>
    intro starts I result
    constructor
    · intro res h; simp [kahnLoop] at h
    · intro e h hne
      simp only [kahnLoop, Except.error.injEq] at h
      exact absurd h.symm hne
  | succ fuel ih =>
    intro starts I result
    cases starts with
    | nil =>
      constructor
      · intro res h
        simp only [kahnLoop, Except.ok.injEq] at h
        subst h
        exact ⟨I, by simp [Gen.Topo.toposort.loop3]⟩
      · intro e h; simp [kahnLoop] at h
    | cons x rest =>
      rw [Gen.Topo.toposort.loop3]
      simp only [ne_eq, reduceCtorEq, not_false_eq_true, if_true, Py.popleft?, kahnLoop, getSuccs_eq]
      cases hg : Py.dictGet? g x with
      | none =>
        simp only []
        constructor
        · intro res h; simp at h
        · intro e h _
          simp only [Except.error.injEq] at h
          subst h; rfl
      | some ss =>
        simp only [kahn_loop4_eq]
        cases hd : decAll pushBack ss (rest, I) with
        | error e' =>
          simp only [ctl_error]
          constructor
          · intro res h; simp at h
          · intro e h _
            simp only [Except.error.injEq] at h
            subst h; rfl
        | ok s =>
          obtain ⟨s1, s2⟩ := s
          simp only [ctl_ok, id]
          exact ih s1 s2 (result ++ [x])

/-- `toposort`, generated = model (result and exception), on every graph whose keys are pairwise
    different, unless the model runs out of fuel. -/
theorem toposort_eq {g : Graph} (hk : (keys g).Nodup) (hfuel : Toposort.toposort g ≠ .error .fuel) :
    Gen.Topo.toposort g = conv (Toposort.toposort g) := by
  rw [Gen.Topo.toposort]
  simp only [dictKeys_eq, dictOfList_init hk, kahn_loop1_eq]
  unfold Toposort.toposort at hfuel ⊢
  rw [kahnInit] at hfuel ⊢
  cases hi : g.foldlM (fun st p => p.2.foldlM kahnInitOne st) (keys g, Indeg.init g) with
  | error e => simp
  | ok s =>
    obtain ⟨starts, I⟩ := s
    rw [hi] at hfuel
    simp only [ctl_ok, id] at hfuel ⊢
    have h3 := kahn_loop3_eq g (g.length + 1) starts I []
    cases hl : kahnLoop g (g.length + 1) starts I [] with
    | error e =>
      rw [hl] at hfuel
      have hne : e ≠ .fuel := fun h => hfuel (by rw [h])
      rw [h3.2 e hl hne]
      simp
    | ok res =>
      obtain ⟨I', h⟩ := h3.1 res hl
      rw [h]
      by_cases hlen : res.length = g.length <;> simp [hlen]

end SR.TopoPyProofs
