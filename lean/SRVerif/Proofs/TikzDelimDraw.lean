/-
  C15: every text filling of every drawing call of `drawCalls` is safe (`noD`: no `n{`, no `d{`,
  no `{` in front) when the branch labels are — printed coordinates, the rounding length, the
  link and bend keywords, `\phantom{-}` and the (escaped, wrapped) species labels always are.
-/
import SRVerif.Proofs.TikzDelimRender
import SRVerif.Proofs.TikzDrawOK

namespace SR.TikzDraw

open SR SR.Layout SR.Tikz

def dfillSafe : DFill → Bool
  | .text s => noD s
  | _ => true

/-- Every text filling of the drawing call is safe. -/
def DrawCall.safe (c : DrawCall) : Bool := c.fills.all dfillSafe

theorem fmtPos_noD (p : Pos) : noD (fmtPos p) = true :=
  noD_of_braceFree (braceFree_of_all _ (by decide) (by decide) _ (fillOK_coord p))

theorem toCall_safe {c : DrawCall} (h : c.safe = true) : CallSafe c.toCall := by
  intro s hs
  simp only [DrawCall.toCall, List.mem_map] at hs
  obtain ⟨d, hd, hds⟩ := hs
  have hd' := List.all_eq_true.1 h d hd
  cases d with
  | coord p =>
    simp only [DFill.toFill, Fill.text.injEq] at hds
    subst hds; exact fmtPos_noD p
  | text t =>
    simp only [DFill.toFill, Fill.text.injEq] at hds
    subst hds; exact hd'
  | color hh => simp [DFill.toFill] at hds

theorem speciesLabel_braceFree {w : Option Nat} {name label : Str}
    (hn : braceFree name = true) (h : speciesLabel w name = some label) :
    braceFree label = true := by
  have he := braceFree_escape name hn
  unfold speciesLabel at h
  cases w with
  | none => simp only [Option.some.injEq] at h; subst h; exact he
  | some w =>
    simp only at h
    simp only [braceFree, List.all_eq_true] at he ⊢
    intro c hc
    rcases balancedWrapText_chars h c hc with h' | h'
    · simp only [texLineBreak, List.mem_cons, List.not_mem_nil, or_false, or_self] at h'
      subst h'; decide
    · exact he c h'

/-- What the decorations must satisfy beyond `DecoOK`: every branch label is safe. -/
def NamesSafe (deco : Deco) : Prop := ∀ s k, noD (deco.name s k) = true

theorem phantom_noD : noD phantomDash = true := by decide

theorem links_noD (o : Orientation) :
    noD (forkLinks o).1 = true ∧ noD (forkLinks o).2 = true := by
  cases o <;> exact ⟨by decide, by decide⟩

theorem bends_noD : noD bendRight = true ∧ noD bendLeft = true ∧ noD bendUp = true ∧
    noD bendDown = true := by decide

theorem forkInner_safe (o : Orientation) (dp : DParams) (hr : braceFree dp.rounding = true)
    (lay l r : SubLayout) : (forkInner o dp lay l r).safe = true := by
  simp [forkInner, DrawCall.safe, dfillSafe, noD_of_braceFree hr]

theorem forkLeaf_safe {o : Orientation} {dp : DParams} {deco : Deco} (hok : DecoOK dp deco)
    {lay : SubLayout} {f : DrawCall} (h : forkLeaf o dp deco lay = .ok f) : f.safe = true := by
  unfold forkLeaf at h
  cases hlab : speciesLabel dp.labelWidth (deco.spName lay.sp) with
  | none => simp [hlab] at h
  | some label =>
    simp only [hlab, Except.ok.injEq] at h
    subst h
    have hb := noD_of_braceFree (speciesLabel_braceFree (hok.spName lay.sp) hlab)
    simp [DrawCall.safe, dfillSafe, noD_of_braceFree hok.rounding, hb]

theorem anchorCall_safe (deco : Deco) (lay : SubLayout) (b : FBranch) :
    ∀ c ∈ anchorCall deco lay b, c.safe = true := by
  intro c hc
  unfold anchorCall at hc
  split at hc
  · simp only [List.mem_singleton] at hc
    subst hc
    simp [DrawCall.safe, dfillSafe]
  · cases hc

theorem drawBranch_safe {o : Orientation} {dp : DParams} {deco : Deco} (hn : NamesSafe deco)
    {all : List SubLayout} {spOf : Path → Option Path} {lay : SubLayout}
    {ll rl : Option SubLayout} {b : FBranch} {cs : List DrawCall}
    (h : drawBranch o dp deco all spOf lay ll rl b = .ok cs) : ∀ c ∈ cs, c.safe = true := by
  have hpre := anchorCall_safe deco lay b
  have hname := hn lay.sp b.key
  have l1 := (links_noD o).1
  have l2 := (links_noD o).2
  obtain ⟨b1, b2, b3, b4⟩ := bends_noD
  unfold drawBranch at h
  cases hk : b.kind with
  | leaf =>
    simp only [hk, Except.ok.injEq] at h
    subst h
    intro c hc
    rcases List.mem_append.1 hc with hc | hc
    · exact hpre c hc
    · simp only [List.mem_singleton] at hc
      subst hc
      simp [DrawCall.safe, dfillSafe, hname]
  | loss =>
    simp only [hk] at h
    split at h
    · cases h
    · simp only [Except.ok.injEq] at h
      subst h
      intro c hc
      rcases List.mem_append.1 hc with hc | hc
      · exact hpre c hc
      · simp only [List.mem_cons, List.not_mem_nil, or_false] at hc
        rcases hc with rfl | rfl | rfl <;> simp [DrawCall.safe, dfillSafe, l2]
  | spec =>
    simp only [hk] at h
    split at h
    · simp only [Except.ok.injEq] at h
      subst h
      intro c hc
      rcases List.mem_append.1 hc with hc | hc
      · exact hpre c hc
      · simp only [List.mem_cons, List.not_mem_nil, or_false] at hc
        rcases hc with rfl | rfl <;> simp [DrawCall.safe, dfillSafe, l1, l2, hname]
    · cases h
    · cases h
  | dup =>
    simp only [hk] at h
    split at h
    · simp only [Except.ok.injEq] at h
      subst h
      intro c hc
      rcases List.mem_append.1 hc with hc | hc
      · exact hpre c hc
      · simp only [List.mem_cons, List.not_mem_nil, or_false] at hc
        rcases hc with rfl | rfl <;> simp [DrawCall.safe, dfillSafe, l1, l2, hname]
    · cases h
    · cases h
  | hgt =>
    simp only [hk] at h
    split at h
    · split at h
      · cases h
      · split at h
        · cases h
        · split at h
          · cases h
          · split at h
            · cases h
            · simp only [Except.ok.injEq] at h
              subst h
              intro c hc
              rcases List.mem_append.1 hc with hc | hc
              · exact hpre c hc
              · simp only [List.mem_cons, List.not_mem_nil, or_false] at hc
                rcases hc with rfl | rfl | rfl
                · simp [DrawCall.safe, dfillSafe]
                · simp only [DrawCall.safe, List.all_cons, List.all_nil, dfillSafe, Bool.true_and,
                    Bool.and_true]
                  cases o <;> simp only [] <;> split <;> assumption
                · simp only [DrawCall.safe, List.all_cons, List.all_nil, dfillSafe, Bool.true_and,
                    Bool.and_true]
                  split
                  · exact phantom_noD
                  · exact hname
    · cases h

/-- **Every text filling of every drawing call is safe.** -/
theorem drawCalls_safe {o : Orientation} {dp : DParams} {deco : Deco} (hok : DecoOK dp deco)
    (hn : NamesSafe deco) {S : RTree} {spOf : Path → Option Path} {all : List SubLayout}
    {calls : List DrawCall} (h : drawCalls o dp deco S spOf all = .ok calls) :
    ∀ c ∈ calls, CallSafe c.toCall := by
  intro c hc
  apply toCall_safe
  cases origin_of_mem h c hc with
  | leafFork lay _ _ hf => exact forkLeaf_safe hok hf
  | innerFork lay l r _ _ _ _ hc' => subst hc'; exact forkInner_safe o dp hok.rounding lay l r
  | branch lay ll rl b cs _ _ _ hd hc' => exact drawBranch_safe hn hd c hc'

end SR.TikzDraw
