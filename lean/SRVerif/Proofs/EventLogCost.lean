/-
  C06, part 2: the recount against the evaluator's reconciliation cost, and
  the algebra of `recount` (additivity, scaling, monotonicity, linear form).
-/
import SRVerif.Proofs.EventLog
import SRVerif.Proofs.Cost
import SRVerif.Spec.Opt

namespace SR

namespace Cost

theorem fin_add_fin (a b : Nat) : (fin a + fin b : Cost) = fin (a + b) := rfl

theorem zero_add (x : Cost) : fin 0 + x = x := by
  show add (fin 0) x = x
  cases x <;> simp [add]

theorem add_zero (x : Cost) : x + fin 0 = x := by
  rw [add_comm, zero_add]

theorem inf_add (x : Cost) : inf + x = inf := by
  show add inf x = inf
  cases x <;> rfl

theorem add_inf (x : Cost) : x + inf = inf := by
  rw [add_comm, inf_add]

instance : Std.Associative (α := Cost) (· + ·) := ⟨add_assoc⟩
instance : Std.Commutative (α := Cost) (· + ·) := ⟨add_comm⟩

theorem scale_add (k : Nat) (a b : Cost) : scale k (a + b) = scale k a + scale k b := by
  show scale k (add a b) = add (scale k a) (scale k b)
  cases a <;> cases b <;> simp [scale, add, Nat.mul_add]

end Cost

namespace EventLog

open SR.Path

/-! ### Algebra of `recount` -/

theorem recount_append (c : Costs) (l₁ l₂ : List Ev) :
    recount c (l₁ ++ l₂) = recount c l₁ + recount c l₂ := by
  induction l₁ with
  | nil => simp [recount, Cost.zero_add]
  | cons e es ih => simp [recount, ih, Cost.add_assoc]

theorem recount_map_floss (c : Costs) (l : List Path) :
    recount c (l.map .floss) = .fin (c.floss * l.length) := by
  induction l with
  | nil => simp [recount]
  | cons p ps ih =>
    simp only [List.map_cons, recount, ih, unit, Cost.fin_add_fin, List.length_cons]
    congr 1
    rw [Nat.mul_add, Nat.mul_one, Nat.add_comm]

theorem recount_replicate_sloss (c : Costs) (n : Nat) :
    recount c (List.replicate n .sloss) = .fin (n * c.sloss) := by
  induction n with
  | zero => simp [recount]
  | succ n ih =>
    simp only [List.replicate_succ, recount, ih, unit, Cost.fin_add_fin]
    congr 1
    rw [Nat.add_mul, Nat.one_mul, Nat.add_comm]

theorem unit_scale (k : Nat) (c : Costs) (e : Ev) :
    unit (scaleCosts k c) e = Cost.scale k (unit c e) := by
  cases e <;> simp [unit, scaleCosts, Cost.scale]

/-- The recount is homogeneous in the cost vector. -/
theorem recount_scale (k : Nat) (c : Costs) (log : List Ev) :
    recount (scaleCosts k c) log = Cost.scale k (recount c log) := by
  induction log with
  | nil => simp [recount, Cost.scale]
  | cons e es ih => simp only [recount, ih, unit_scale, Cost.scale_add]

theorem fin_le_fin {a b : Nat} (h : a ≤ b) : Cost.le (.fin a) (.fin b) = true := by
  simp [Cost.le, Cost.lt]; omega

theorem unit_mono {c d : Costs} (h : leCosts c d) (e : Ev) :
    Cost.le (unit c e) (unit d e) = true := by
  obtain ⟨h1, h2, h3, h4, h5⟩ := h
  cases e <;> simp only [unit]
  · exact fin_le_fin h1
  · exact fin_le_fin h2
  · exact h3
  · exact fin_le_fin h4
  · exact fin_le_fin h5
  · exact Cost.le_refl _

/-- The recount is monotone in every unit cost. -/
theorem recount_mono {c d : Costs} (h : leCosts c d) (log : List Ev) :
    Cost.le (recount c log) (recount d log) = true := by
  induction log with
  | nil => exact Cost.le_refl _
  | cons e es ih => exact Cost.add_le_add (unit_mono h e) ih

/-! ### The linear form -/

theorem times_succ (n : Nat) (x : Cost) : times (n + 1) x = x + times n x := by
  unfold times
  cases x with
  | inf => simp [Cost.scale, Cost.inf_add]
  | fin a =>
    by_cases h : n = 0
    · subst h; simp [Cost.scale, Cost.fin_add_fin]
    · simp only [Nat.add_eq_zero_iff, Nat.succ_ne_self, and_false, if_false, h, Cost.scale,
        Cost.fin_add_fin]
      congr 1
      rw [Nat.add_mul, Nat.one_mul, Nat.add_comm]

theorem linearForm_nil (c : Costs) : linearForm c [] = .fin 0 := by
  simp [linearForm, nSpec, nDup, nFloss, nSloss, nHgt, nInvalid, times, Cost.fin_add_fin]

theorem linearForm_cons (c : Costs) (e : Ev) (es : List Ev) :
    linearForm c (e :: es) = unit c e + linearForm c es := by
  cases e <;>
    simp only [linearForm, nSpec, nDup, nFloss, nSloss, nHgt, nInvalid, List.countP_cons, unit,
      if_true, if_false, Nat.add_zero, Bool.false_eq_true, times_succ, Nat.mul_add, Nat.mul_one,
      ← Cost.fin_add_fin] <;>
    ac_rfl

/-- The recount is `spe·#S + dup·#D + floss·#FL + sloss·#SL + hgt·#T` with the
    counts read off the log. -/
theorem recount_eq_linearForm (c : Costs) (log : List Ev) :
    recount c log = linearForm c log := by
  induction log with
  | nil => rw [linearForm_nil]; rfl
  | cons e es ih => rw [linearForm_cons, ← ih]; rfl

/-! ### Validity seen by the specification -/

/-- Every internal node fits an event of the model. -/
def AllEvents : Sol → Prop
  | .leaf _ _ => True
  | .node s _ l r => classify s l.sp r.sp ≠ .invalid ∧ AllEvents l ∧ AllEvents r

theorem classify_ne_invalid {s a b : Path} (h : internalEvent s a b ≠ .invalid) :
    classify s a b ≠ .invalid := by
  intro h'
  apply h
  rw [internalEvent_eq_classify, h']
  rfl

theorem allEvents_of_validRec : ∀ (o : OTree) (sol : Sol), Spec.validRec o sol = true →
    AllEvents sol
  | .leaf _ _, .leaf _ _, _ => trivial
  | .node ol or, .node s f l r, h => by
    simp only [Spec.validRec, Bool.and_eq_true, bne_iff_ne, ne_eq] at h
    exact ⟨classify_ne_invalid h.1.1, allEvents_of_validRec ol l h.1.2,
      allEvents_of_validRec or r h.2⟩
  | .leaf _ _, .node _ _ _ _, h => by simp [Spec.validRec] at h
  | .node _ _, .leaf _ _, h => by simp [Spec.validRec] at h

/-! ### The reconciliation cost -/

/-- One node: the evaluator's local cost is the recount of the node's records. -/
theorem localRecCost_eq_recount (c : Costs) (s a b : Path) (h : classify s a b ≠ .invalid) :
    localRecCost c s a b = recount c (nodeRecLog s a b) := by
  unfold localRecCost nodeRecLog
  rw [internalEvent_eq_classify]
  cases hk : classify s a b with
  | invalid => exact absurd hk h
  | spec =>
    obtain ⟨ha, hb, hda, hdb⟩ := classify_spec_dist hk
    simp only [Kind.toEvent, recount, unit, recount_map_floss, Cost.fin_add_fin, List.length_append,
      List.length_drop, length_vertical_of_isAnc ha, length_vertical_of_isAnc hb]
    have : dist s a - 1 + (dist s b - 1) = dist s a + dist s b - 2 := by omega
    rw [this]
  | dup =>
    obtain ⟨ha, hb⟩ := classify_dup_isAnc hk
    simp only [Kind.toEvent, recount, unit, recount_map_floss, Cost.fin_add_fin, List.length_append,
      length_vertical_of_isAnc ha, length_vertical_of_isAnc hb]
  | hgt =>
    obtain ⟨hc, _⟩ := classify_hgt hk
    simp only [Kind.toEvent, recount, unit, recount_map_floss, List.length_append]
    rcases hc with ⟨ha, hb⟩ | ⟨ha, hb⟩
    · simp [ha, vertical_of_not_isAnc hb, length_vertical_of_isAnc ha]
    · simp [ha, vertical_of_not_isAnc ha, length_vertical_of_isAnc hb]

theorem recLog_node (s : Path) (f : List Nat) (l r : Sol) :
    recLog (.node s f l r) = nodeRecLog s l.sp r.sp ++ (recLog l ++ recLog r) := by
  simp [recLog, eventLog, nodeLosses]

/-- The evaluator's reconciliation cost of a valid reconciliation is the
    recount of the reconciliation part of the log. -/
theorem recCost_eq_recount (c : Costs) : ∀ (o : OTree) (sol : Sol),
    Spec.validRec o sol = true → recCost c o sol = recount c (recLog sol)
  | .leaf given _, .leaf s _, h => by
    simp only [Spec.validRec] at h
    simp [recCost, h, recLog, eventLog, recount]
  | .node ol or, .node s f l r, h => by
    simp only [Spec.validRec, Bool.and_eq_true, bne_iff_ne, ne_eq] at h
    obtain ⟨⟨hev, hl⟩, hr⟩ := h
    rw [recLog_node, recount_append, recount_append, ← recCost_eq_recount c ol l hl,
      ← recCost_eq_recount c or r hr, ← localRecCost_eq_recount c _ _ _ (classify_ne_invalid hev)]
    rw [recCost]
    split
    · rename_i h'; exact absurd h' hev
    · rfl
  | .leaf _ _, .node _ _ _ _, h => by simp [Spec.validRec] at h
  | .node _ _, .leaf _ _, h => by simp [Spec.validRec] at h

/-! ### The whole log -/

theorem nSloss_append (l₁ l₂ : List Ev) : nSloss (l₁ ++ l₂) = nSloss l₁ + nSloss l₂ := by
  simp [nSloss, List.countP_append]

theorem nSloss_map_floss (l : List Path) : nSloss (l.map .floss) = 0 := by
  induction l with
  | nil => rfl
  | cons p ps _ => simp [nSloss]

theorem nSloss_cons_node (e : Ev) (h : e ≠ .sloss) (l : List Path) :
    nSloss (e :: l.map .floss) = 0 := by
  cases e <;> first | exact absurd rfl h | simp [nSloss]

theorem nSloss_nodeRecLog (s a b : Path) : nSloss (nodeRecLog s a b) = 0 := by
  unfold nodeRecLog
  cases classify s a b
  · exact nSloss_cons_node _ (by simp) _
  · exact nSloss_cons_node _ (by simp) _
  · exact nSloss_cons_node _ (by simp) _
  · exact nSloss_cons_node _ (by simp) []

theorem nSloss_replicate (n : Nat) : nSloss (List.replicate n .sloss) = n := by
  simp [nSloss, List.countP_replicate]

/-- The `sloss` records of the log are the segmental losses of the nodes. -/
theorem nSloss_eventLog (mode : LabelMode) : ∀ sol : Sol,
    nSloss (eventLog mode sol) = segLosses mode sol
  | .leaf _ _ => by simp [eventLog, segLosses, nSloss]
  | .node s f l r => by
    simp only [eventLog, segLosses, nSloss_append, nSloss_nodeRecLog, nSloss_replicate,
      nSloss_eventLog mode l, nSloss_eventLog mode r]
    omega

/-- The log splits into its reconciliation part and its segmental losses. -/
theorem recount_eventLog (c : Costs) (mode : LabelMode) : ∀ sol : Sol,
    recount c (eventLog mode sol) = recount c (recLog sol) + .fin (segLosses mode sol * c.sloss)
  | .leaf _ _ => by simp [eventLog, recLog, segLosses, recount, Cost.fin_add_fin]
  | .node s f l r => by
    rw [recLog_node]
    simp only [eventLog, segLosses, recount_append, recount_replicate_sloss,
      recount_eventLog c mode l, recount_eventLog c mode r, Nat.add_mul, ← Cost.fin_add_fin]
    ac_rfl

end EventLog

end SR
