/-
  One iteration of the gene loop of `_compute_branches` as "plan + effect":
  under the path conditions that validity gives, `processGene` succeeds and
  its effect on the state is described exactly.
-/
import SRVerif.Proofs.LayoutChain
import SRVerif.Proofs.RTree

namespace SR.Layout

open SR

/-- Keys a branch removes from the anchors of its own species. -/
def consumes (b : Branch) : List Key :=
  match b.kind with
  | .dup => b.left.toList ++ b.right.toList
  | .hgt => b.left.toList
  | _ => []

/-- Effect of a step on a state: branches appended per species, anchors kept
    unless consumed in species `s`. -/
structure Effect (st st' : LState) (pl : List (Path × Branch)) (s : Path) (cons : List Key) :
    Prop where
  keys : skeys st' = skeys st
  brs : ∀ t, brs st' t = brs st t ++ planAt t pl
  ancs : ∀ t k, (k ∈ ancs st t ∨ k ∈ keysOf (planAt t pl)) → (t = s → k ∉ cons) → k ∈ ancs st' t

theorem Effect.ofPlan (st : LState) (pl : List (Path × Branch)) (s : Path)
    (hex : ∀ e ∈ pl, e.1 ∈ skeys st) : Effect st (applyPlan st pl) pl s [] :=
  ⟨skeys_applyPlan st pl, brs_applyPlan st pl hex, fun t k h _ => ancs_applyPlan st pl hex t k h⟩

theorem Effect.trans {st st1 st2 : LState} {pl1 pl2 : List (Path × Branch)} {s : Path}
    {cons : List Key} (h1 : Effect st st1 pl1 s []) (h2 : Effect st1 st2 pl2 s cons) :
    Effect st st2 (pl1 ++ pl2) s cons := by
  refine ⟨h2.keys.trans h1.keys, ?_, ?_⟩
  · intro t; rw [h2.brs, h1.brs, planAt_append, List.append_assoc]
  · intro t k hk hc
    apply h2.ancs t k _ hc
    rw [planAt_append, keysOf_append, List.mem_append] at hk
    rcases hk with hk | hk | hk
    · left; exact h1.ancs t k (Or.inl hk) (by simp)
    · left; exact h1.ancs t k (Or.inr hk) (by simp)
    · right; exact hk

/-! ### The node's own operations -/

def finishWith (st : LState) (s : Path) (b : Branch) (cons : List Key) : LState :=
  modifySp (fun x => ⟨x.branches ++ [b], cons.foldl List.erase (setAdd x.anchors b.key)⟩) st s

theorem modifySp_modifySp (f g : SpState → SpState) (st : LState) (s : Path) :
    modifySp f (modifySp g st s) s = modifySp (f ∘ g) st s := by
  induction st with
  | nil => rfl
  | cons e rest ih =>
    obtain ⟨k, v⟩ := e
    by_cases hk : k = s
    · simp [modifySp, hk]
    · simp [modifySp, hk, ih]

theorem mem_foldl_erase {k : Key} : ∀ (cons : List Key) (l : List Key), k ∈ l → k ∉ cons →
    k ∈ cons.foldl List.erase l := by
  intro cons
  induction cons with
  | nil => intro l h _; exact h
  | cons c cons ih =>
    intro l h hc
    simp only [List.mem_cons, not_or] at hc
    simp only [List.foldl_cons]
    exact ih _ ((List.mem_erase_of_ne hc.1).2 h) hc.2

theorem brs_of_getSp {st : LState} {t : Path} {x : SpState} (h : getSp st t = some x) :
    brs st t = x.branches := by simp [brs, h]

theorem ancs_of_getSp {st : LState} {t : Path} {x : SpState} (h : getSp st t = some x) :
    ancs st t = x.anchors := by simp [ancs, h]

theorem Effect.finish (st : LState) (s : Path) (b : Branch) (cons : List Key)
    (hs : s ∈ skeys st) : Effect st (finishWith st s b cons) [(s, b)] s cons := by
  obtain ⟨x, hx⟩ := getSp_some_of_mem hs
  refine ⟨skeys_modifySp _ _ _, ?_, ?_⟩
  · intro t
    unfold finishWith
    rw [brs_modifySp, planAt_cons]
    by_cases h : t = s
    · subst h; simp [hx, brs_of_getSp hx]
    · have : ¬ s = t := fun e => h e.symm
      simp [h, this]
  · intro t k hk hc
    unfold finishWith
    rw [ancs_modifySp]
    rw [planAt_cons] at hk
    by_cases h : t = s
    · subst h
      simp only [if_true, hx]
      apply mem_foldl_erase _ _ _ (hc rfl)
      rw [mem_setAdd]
      rw [ancs_of_getSp hx] at hk
      simpa [keysOf] using hk
    · have h' : ¬ s = t := fun e => h e.symm
      simp only [h, if_false]
      simpa [h', keysOf] using hk

theorem finish_plain (st : LState) (s : Path) (b : Branch) :
    modifySp (addBranch b) (modifySp (addAnchor b.key) st s) s = finishWith st s b [] := by
  rw [modifySp_modifySp]
  rfl

theorem removeAnchor_ok {st : LState} {s : Path} {k : Key} (h : k ∈ ancs st s) :
    removeAnchor st s k = .ok (modifySp (fun x => { x with anchors := x.anchors.erase k }) st s) := by
  unfold removeAnchor
  unfold ancs at h
  cases hx : getSp st s with
  | none => simp [hx] at h
  | some x =>
    simp only [hx] at h
    simp only [setRemove, h, if_true]
    congr 1
    exact modifySp_congr hx rfl

theorem finish_consume1 (st : LState) (s : Path) (b : Branch) (k1 : Key) (hs : s ∈ skeys st)
    (h1 : k1 ∈ ancs st s ∨ k1 = b.key) :
    ∃ st2, removeAnchor (modifySp (addAnchor b.key) st s) s k1 = .ok st2 ∧
      modifySp (addBranch b) st2 s = finishWith st s b [k1] := by
  obtain ⟨x, hx⟩ := getSp_some_of_mem hs
  have hm : k1 ∈ ancs (modifySp (addAnchor b.key) st s) s := by
    rw [ancs_modifySp]
    simp only [if_true, hx, addAnchor, mem_setAdd]
    simpa [ancs, hx] using h1
  refine ⟨_, removeAnchor_ok hm, ?_⟩
  simp only [modifySp_modifySp]
  rfl

theorem finish_consume2 (st : LState) (s : Path) (b : Branch) (k1 k2 : Key) (hs : s ∈ skeys st)
    (h1 : k1 ∈ ancs st s ∨ k1 = b.key) (h2 : k2 ∈ ancs st s ∨ k2 = b.key) (hne : k2 ≠ k1) :
    ∃ st3 st4, removeAnchor (modifySp (addAnchor b.key) st s) s k1 = .ok st3 ∧
      removeAnchor st3 s k2 = .ok st4 ∧
      modifySp (addBranch b) st4 s = finishWith st s b [k1, k2] := by
  obtain ⟨x, hx⟩ := getSp_some_of_mem hs
  have hm : k1 ∈ ancs (modifySp (addAnchor b.key) st s) s := by
    rw [ancs_modifySp]
    simp only [if_true, hx, addAnchor, mem_setAdd]
    simpa [ancs, hx] using h1
  have hm2 : k2 ∈ ancs (modifySp (fun x : SpState => { x with anchors := x.anchors.erase k1 })
      (modifySp (addAnchor b.key) st s) s) s := by
    simp only [modifySp_modifySp]
    rw [ancs_modifySp]
    simp only [if_true, hx, addAnchor, Function.comp]
    rw [List.mem_erase_of_ne hne, mem_setAdd]
    simpa [ancs, hx] using h2
  refine ⟨_, _, removeAnchor_ok hm, removeAnchor_ok hm2, ?_⟩
  simp only [modifySp_modifySp]
  rfl

/-! ### The whole step -/

/-- The branches a step inserts (the node's own branch last) and the keys it
    removes from the anchors of `s`. -/
def nodePlan (s p : Path) : Sol → Option (List (Path × Branch) × List Key)
  | .leaf _ _ => some ([(s, ⟨.gene p, .leaf, none, none⟩)], [])
  | .node _ _ l r =>
    match internalEvent s l.sp r.sp with
    | .spec =>
      if Path.isAnc (s ++ [0]) r.sp then
        match chainPlan (p ++ [1]) (some s) r.sp.reverse (.gene (p ++ [1])),
              chainPlan (p ++ [0]) (some s) l.sp.reverse (.gene (p ++ [0])) with
        | some (pl1, k1), some (pl2, k2) =>
          some (pl1 ++ (pl2 ++ [(s, ⟨.gene p, .spec, some k1, some k2⟩)]), [])
        | _, _ => none
      else
        match chainPlan (p ++ [0]) (some s) l.sp.reverse (.gene (p ++ [0])),
              chainPlan (p ++ [1]) (some s) r.sp.reverse (.gene (p ++ [1])) with
        | some (pl1, k1), some (pl2, k2) =>
          some (pl1 ++ (pl2 ++ [(s, ⟨.gene p, .spec, some k1, some k2⟩)]), [])
        | _, _ => none
    | .dup =>
      match chainPlan (p ++ [0]) (Path.up s) l.sp.reverse (.gene (p ++ [0])),
            chainPlan (p ++ [1]) (Path.up s) r.sp.reverse (.gene (p ++ [1])) with
      | some (pl1, k1), some (pl2, k2) =>
        some (pl1 ++ (pl2 ++ [(s, ⟨.gene p, .dup, some k1, some k2⟩)]), [k1, k2])
      | _, _ => none
    | .hgt =>
      if Path.isAnc s l.sp then
        match chainPlan (p ++ [0]) (Path.up s) l.sp.reverse (.gene (p ++ [0])) with
        | some (pl1, k1) =>
          some (pl1 ++ [(s, ⟨.gene p, .hgt, some k1, some (.gene (p ++ [1]))⟩)], [k1])
        | none => none
      else
        match chainPlan (p ++ [1]) (Path.up s) r.sp.reverse (.gene (p ++ [1])) with
        | some (pl1, k1) =>
          some (pl1 ++ [(s, ⟨.gene p, .hgt, some k1, some (.gene (p ++ [0]))⟩)], [k1])
        | none => none
    | _ => none

theorem chain_step {st : LState} {g : Path} {end_ : Option Path} {start : Path} {s : Path}
    {pl : List (Path × Branch)} {k : Key}
    (h : chainPlan g end_ start.reverse (.gene g) = some (pl, k)) (hex : ∀ e ∈ pl, e.1 ∈ skeys st) :
    addLosses st g start end_ = .ok (applyPlan st pl, k) ∧ Effect st (applyPlan st pl) pl s [] :=
  ⟨addLossesLoop_eq g end_ _ st _ pl k h hex, Effect.ofPlan st pl s hex⟩

theorem two_chains {st : LState} {s : Path} {g1 g2 s1 s2 : Path} {e : Option Path}
    {pl1 pl2 : List (Path × Branch)} {k1 k2 : Key}
    (h1 : chainPlan g1 e s1.reverse (.gene g1) = some (pl1, k1))
    (h2 : chainPlan g2 e s2.reverse (.gene g2) = some (pl2, k2))
    (hex : ∀ x ∈ pl1 ++ pl2, x.1 ∈ skeys st) :
    ∃ st1 st2, addLosses st g1 s1 e = .ok (st1, k1) ∧ addLosses st1 g2 s2 e = .ok (st2, k2) ∧
      Effect st st2 (pl1 ++ pl2) s [] := by
  have hex1 : ∀ x ∈ pl1, x.1 ∈ skeys st := fun x hx => hex x (List.mem_append_left _ hx)
  obtain ⟨a1, e1⟩ := chain_step (s := s) h1 hex1
  have hex2 : ∀ x ∈ pl2, x.1 ∈ skeys (applyPlan st pl1) := by
    intro x hx; rw [skeys_applyPlan]; exact hex x (List.mem_append_right _ hx)
  obtain ⟨a2, e2⟩ := chain_step (s := s) h2 hex2
  exact ⟨_, _, a1, a2, e1.trans e2⟩

theorem processGene_ok {st : LState} {s p : Path} {sub : Sol} {pl : List (Path × Branch)}
    {cons : List Key} (hplan : nodePlan s p sub = some (pl, cons))
    (hs : s ∈ skeys st) (hex : ∀ e ∈ pl, e.1 ∈ skeys st)
    (havail : ∀ k ∈ cons, k ∈ ancs st s ∨ k ∈ keysOf (planAt s pl))
    (hnd : cons.Nodup) :
    ∃ st', processGene st s p sub = .ok st' ∧ Effect st st' pl s cons := by
  cases sub with
  | leaf sp f =>
    simp only [nodePlan, Option.some.injEq, Prod.mk.injEq] at hplan
    obtain ⟨rfl, rfl⟩ := hplan
    refine ⟨_, rfl, ?_⟩
    have := finish_plain st s ⟨.gene p, .leaf, none, none⟩
    simp only at this
    rw [this]
    exact Effect.finish st s _ [] hs
  | node sp f l r =>
    simp only [nodePlan] at hplan
    simp only [processGene]
    cases hev : internalEvent s l.sp r.sp with
    | leaf => simp [hev] at hplan
    | invalid => simp [hev] at hplan
    | spec =>
      simp only [hev] at hplan ⊢
      by_cases hsw : Path.isAnc (s ++ [0]) r.sp = true
      · simp only [hsw, if_true] at hplan ⊢
        cases h1 : chainPlan (p ++ [1]) (some s) r.sp.reverse (.gene (p ++ [1])) with
        | none => simp [h1] at hplan
        | some x1 =>
          obtain ⟨pl1, k1⟩ := x1
          cases h2 : chainPlan (p ++ [0]) (some s) l.sp.reverse (.gene (p ++ [0])) with
          | none => simp [h1, h2] at hplan
          | some x2 =>
            obtain ⟨pl2, k2⟩ := x2
            simp only [h1, h2, Option.some.injEq, Prod.mk.injEq] at hplan
            obtain ⟨rfl, rfl⟩ := hplan
            obtain ⟨st1, st2, a1, a2, eff⟩ := two_chains (s := s) h1 h2
              (by intro x hx; apply hex; simp only [List.mem_append] at hx ⊢
                  rcases hx with h | h <;> simp [h])
            simp only [a1, a2]
            have := finish_plain st2 s ⟨.gene p, .spec, some k1, some k2⟩
            simp only at this
            rw [this]
            refine ⟨_, rfl, ?_⟩
            have := eff.trans (Effect.finish st2 s ⟨.gene p, .spec, some k1, some k2⟩ []
              (by rw [eff.keys]; exact hs))
            simpa [List.append_assoc] using this
      · have hsw' : Path.isAnc (s ++ [0]) r.sp = false := by simpa using hsw
        simp only [hsw', Bool.false_eq_true, if_false] at hplan ⊢
        cases h1 : chainPlan (p ++ [0]) (some s) l.sp.reverse (.gene (p ++ [0])) with
        | none => simp [h1] at hplan
        | some x1 =>
          obtain ⟨pl1, k1⟩ := x1
          cases h2 : chainPlan (p ++ [1]) (some s) r.sp.reverse (.gene (p ++ [1])) with
          | none => simp [h1, h2] at hplan
          | some x2 =>
            obtain ⟨pl2, k2⟩ := x2
            simp only [h1, h2, Option.some.injEq, Prod.mk.injEq] at hplan
            obtain ⟨rfl, rfl⟩ := hplan
            obtain ⟨st1, st2, a1, a2, eff⟩ := two_chains (s := s) h1 h2
              (by intro x hx; apply hex; simp only [List.mem_append] at hx ⊢
                  rcases hx with h | h <;> simp [h])
            simp only [a1, a2]
            have := finish_plain st2 s ⟨.gene p, .spec, some k1, some k2⟩
            simp only at this
            rw [this]
            refine ⟨_, rfl, ?_⟩
            have := eff.trans (Effect.finish st2 s ⟨.gene p, .spec, some k1, some k2⟩ []
              (by rw [eff.keys]; exact hs))
            simpa [List.append_assoc] using this
    | dup =>
      simp only [hev] at hplan ⊢
      cases h1 : chainPlan (p ++ [0]) (Path.up s) l.sp.reverse (.gene (p ++ [0])) with
      | none => simp [h1] at hplan
      | some x1 =>
        obtain ⟨pl1, k1⟩ := x1
        cases h2 : chainPlan (p ++ [1]) (Path.up s) r.sp.reverse (.gene (p ++ [1])) with
        | none => simp [h1, h2] at hplan
        | some x2 =>
          obtain ⟨pl2, k2⟩ := x2
          simp only [h1, h2, Option.some.injEq, Prod.mk.injEq] at hplan
          obtain ⟨rfl, rfl⟩ := hplan
          obtain ⟨st1, st2, a1, a2, eff⟩ := two_chains (s := s) h1 h2
            (by intro x hx; apply hex; simp only [List.mem_append] at hx ⊢
                rcases hx with h | h <;> simp [h])
          simp only [a1, a2]
          have hs2 : s ∈ skeys st2 := by rw [eff.keys]; exact hs
          have av : ∀ k ∈ [k1, k2], k ∈ ancs st2 s ∨ k = Key.gene p := by
            intro k hk
            rcases havail k hk with h | h
            · left; exact eff.ancs s k (Or.inl h) (by simp)
            · simp only [planAt_append, keysOf_append, List.mem_append] at h
              rcases h with h | h | h
              · left; exact eff.ancs s k (Or.inr (by simp [h])) (by simp)
              · left; exact eff.ancs s k (Or.inr (by simp [h])) (by simp)
              · right; simpa [planAt_cons, keysOf] using h
          have hne : k2 ≠ k1 := by
            intro h; subst h; simp at hnd
          obtain ⟨st3, st4, e3, e4, e5⟩ := finish_consume2 st2 s ⟨.gene p, .dup, some k1, some k2⟩
            k1 k2 hs2 (av k1 (by simp)) (av k2 (by simp)) hne
          simp only at e3 e4 e5
          simp only [e3, e4, e5]
          refine ⟨_, rfl, ?_⟩
          have := eff.trans (Effect.finish st2 s ⟨.gene p, .dup, some k1, some k2⟩ [k1, k2] hs2)
          simpa [List.append_assoc] using this
    | hgt =>
      simp only [hev] at hplan ⊢
      by_cases hk : Path.isAnc s l.sp = true
      · simp only [hk, if_true] at hplan ⊢
        cases h1 : chainPlan (p ++ [0]) (Path.up s) l.sp.reverse (.gene (p ++ [0])) with
        | none => simp [h1] at hplan
        | some x1 =>
          obtain ⟨pl1, k1⟩ := x1
          simp only [h1, Option.some.injEq, Prod.mk.injEq] at hplan
          obtain ⟨rfl, rfl⟩ := hplan
          obtain ⟨a1, eff⟩ := chain_step (s := s) (st := st) h1
            (by intro x hx; apply hex; simp [hx])
          simp only [a1]
          have hs2 : s ∈ skeys (applyPlan st pl1) := by rw [eff.keys]; exact hs
          have av : k1 ∈ ancs (applyPlan st pl1) s ∨ k1 = Key.gene p := by
            rcases havail k1 (by simp) with h | h
            · left; exact eff.ancs s k1 (Or.inl h) (by simp)
            · simp only [planAt_append, keysOf_append, List.mem_append] at h
              rcases h with h | h
              · left; exact eff.ancs s k1 (Or.inr h) (by simp)
              · right; simpa [planAt_cons, keysOf] using h
          obtain ⟨st3, e3, e5⟩ := finish_consume1 (applyPlan st pl1) s
            ⟨.gene p, .hgt, some k1, some (.gene (p ++ [1]))⟩ k1 hs2 av
          simp only at e3 e5
          simp only [e3, e5]
          exact ⟨_, rfl, eff.trans (Effect.finish _ s _ [k1] hs2)⟩
      · have hk' : Path.isAnc s l.sp = false := by simpa using hk
        simp only [hk', Bool.false_eq_true, if_false] at hplan ⊢
        cases h1 : chainPlan (p ++ [1]) (Path.up s) r.sp.reverse (.gene (p ++ [1])) with
        | none => simp [h1] at hplan
        | some x1 =>
          obtain ⟨pl1, k1⟩ := x1
          simp only [h1, Option.some.injEq, Prod.mk.injEq] at hplan
          obtain ⟨rfl, rfl⟩ := hplan
          obtain ⟨a1, eff⟩ := chain_step (s := s) (st := st) h1
            (by intro x hx; apply hex; simp [hx])
          simp only [a1]
          have hs2 : s ∈ skeys (applyPlan st pl1) := by rw [eff.keys]; exact hs
          have av : k1 ∈ ancs (applyPlan st pl1) s ∨ k1 = Key.gene p := by
            rcases havail k1 (by simp) with h | h
            · left; exact eff.ancs s k1 (Or.inl h) (by simp)
            · simp only [planAt_append, keysOf_append, List.mem_append] at h
              rcases h with h | h
              · left; exact eff.ancs s k1 (Or.inr h) (by simp)
              · right; simpa [planAt_cons, keysOf] using h
          obtain ⟨st3, e3, e5⟩ := finish_consume1 (applyPlan st pl1) s
            ⟨.gene p, .hgt, some k1, some (.gene (p ++ [0]))⟩ k1 hs2 av
          simp only at e3 e5
          simp only [e3, e5]
          exact ⟨_, rfl, eff.trans (Effect.finish _ s _ [k1] hs2)⟩

end SR.Layout
